#!/bin/sh
# Offline setup: regenerate the Lean definitions from /repo and build the whole Lean project + driver.
set -e
D="$(cd "$(dirname "$0")" && pwd)"
export PYTHONPATH="${VC2_REPO:-/repo}${PYTHONPATH:+:$PYTHONPATH}"
export PYTHONDONTWRITEBYTECODE=1
/venv/bin/python "$D/harness/py2lean.py"
cd "$D/lean" && lake build VC2 driver 2>&1 | grep -v "^warning\|^Hint\|apply\]\|^Note\|^$" | tail -20
test -x "$D/lean/.lake/build/bin/driver"
