import VC2.Gen.Dispatch
import VC2.Model.BitIODriver
import VC2.Model.WaveletDriver
import VC2.Model.ConstraintDriver
import VC2.Model.SymReDriver
import VC2.Model.FixedDictDriver
import VC2.Model.StreamDriver
import VC2.Model.FileFormatDriver
import VC2.Model.CodecCsvDriver
import VC2.Model.AutofillDriver
import VC2.Model.SerdesDriver
import VC2.Model.PictureDriver
import VC2.Model.SliceFitDriver
import VC2.Model.SeqHeaderDriver
import VC2.Model.SlicePadDriver
import VC2.Model.WorkerPaths
import VC2.Model.EncoderCompose
open VC2 VC2.Gen

/-- `pc <profile> <pcm> <header length> <picture length> …` → the validator model's verdict on the encoder's plain
    sequence after the autofill passes, and the filled fields `code,next,prev,picture number,major version` per unit -/
def handlePc (ws : List String) : String :=
  open VC2.Model.EncoderCompose VC2.Model.Autofill VC2.Model.Stream in
  match ws.mapM (·.toNat?) with
  | some (p :: pcm :: h :: ls) =>
    let filledSeq := autofillSeq (plainSeq p h ls)
    let cfg : Config := { slicesX := 1, slicesY := 1, levelPattern := .star (.sym ".") }
    let v := (validate cfg (filledSeq.map (toD pcm))).1
    let verdict := match v with | .ok => "OK" | .reject c => c | .desync => "DESYNC" | .crash w => "CRASH:" ++ w
    let sh (o : Option Nat) := match o with | some n => toString n | none => "-"
    verdict ++ " | " ++ " ; ".intercalate (filledSeq.map (fun u => s!"{u.code},{sh u.next},{sh u.prev},{sh u.picNum},{sh (u.hdr.bind (·.majorVersion))}"))
  | _ => "bad-op"

/-- `wp <codec> <encoder|decoder> <generator> <relative/path>` → `own` / `foreign` (Model/WorkerPaths.lean) -/
def handleWp (ws : List String) : String :=
  match ws with
  | [codec, kind, gen, path] =>
    if kind != "encoder" && kind != "decoder" then "bad-op" else
    let c : VC2.Model.WorkerPaths.Cmd := { codec := codec.toList, encoder := kind == "encoder", gen := gen.toList }
    if VC2.Model.WorkerPaths.owns c ((path.splitOn "/").map String.toList) then "own" else "foreign"
  | _ => "bad-op"

def parseInts (ws : List String) : Option (List Int) :=
  ws.mapM (fun w => w.toInt?)

/-- `k <fn> <int>* [| <str>*]` -/
def handleKernel (ws : List String) : String :=
  match ws with
  | fn :: rest =>
    let (is, ss) := rest.span (· != "|")
    match parseInts is with
    | none => "bad-op"
    | some ints =>
      match evalKernel fn ints (ss.drop 1) with
      | some s => s
      | none => "bad-op"
  | _ => "bad-op"

def step (line : String) : String :=
  match (line.trimAscii.toString.splitOn " ").filter (· ≠ "") with
  | "k" :: rest => handleKernel rest
  | "rd" :: rest => VC2.Model.BitIO.handleIO "rd" rest
  | "dd" :: rest => VC2.Model.BitIO.handleIO "dd" rest
  | "wr" :: rest => VC2.Model.BitIO.handleIO "wr" rest
  | "ws" :: rest => VC2.Model.BitIO.handleIO "ws" rest
  | "wt" :: rest => VC2.Model.Wavelet.handleWt rest
  | "re" :: rest => VC2.Model.SymRe.handleRe rest
  | "fd" :: rest => VC2.Model.FixedDict.handleFd rest
  | "vd" :: rest => VC2.Model.Stream.handleVd rest
  | "cs" :: rest => VC2.Model.Stream.handleCs rest
  | "cf" :: rest => VC2.Model.CodecCsv.handleCf rest
  | "ci" :: rest => VC2.Model.CodecCsv.handleCi rest
  | "af" :: rest => VC2.Model.Autofill.handleAf rest
  | "sd" :: rest => VC2.Model.Serdes.handleSd rest
  | "fr" :: rest => VC2.Model.Picture.handleFr rest
  | "sl" :: rest => VC2.Model.SliceFit.handleSl rest
  | "so" :: rest => VC2.Model.SeqHeader.handleSo rest
  | "sp" :: rest => VC2.Model.SlicePad.handleSp rest
  | "pg" :: rest => VC2.Model.Picture.handlePg rest
  | "ps" :: rest => VC2.Model.Picture.handlePs rest
  | "wp" :: rest => handleWp rest
  | "pc" :: rest => handlePc rest
  | "dc" :: rest => VC2.Model.Picture.handleDc rest
  | "ff" :: rest => VC2.Model.FileFormat.handleFf rest
  | "vs" :: rest => VC2.Model.Constraint.handleVs rest
  | "ct" :: rest => VC2.Model.Constraint.handleCt rest
  | "dt" :: rest => VC2.Model.Constraint.handleDt rest
  | _ => "bad-op"

partial def loop (h : IO.FS.Stream) (out : IO.FS.Stream) : IO Unit := do
  let line ← h.getLine
  if line.isEmpty then return ()
  out.putStrLn (step line)
  loop h out

def main : IO Unit := do
  let out ← IO.getStdout
  loop (← IO.getStdin) out
