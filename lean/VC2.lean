import VC2.Prelude
import VC2.Gen.Kernels
import VC2.Gen.Dispatch
import VC2.Props.C12
import VC2.Props.C13
import VC2.Props.C20
import VC2.Props.C11
import VC2.Props.C17
