import VC2.Prelude
import VC2.Gen.Kernels
import VC2.Gen.Dispatch
