/-
  C05 — decoder test cases are conformant and decode to their intended pictures.
  Property theorems only.  PARTIAL: proved are (i) name uniqueness from the registry side — the
  registered generator names (regenerated from the running registry) are pairwise distinct, contain
  no '[', and `case[subcase]` is injective on such names; (ii) transparency facts on the
  stream-structure model shared with C01: padding and auxiliary data units leave the decoder state
  untouched, a repeated identical sequence header changes nothing the decoding depends on; (iii) the
  arithmetic behind the slice-size-scaler test case (a larger scaler still covers every slice).
  That each Python generator IS one of these content-preserving transformations, and everything
  about the decoded pictures, is established by running the real registry on sampled configurations.
-/
import VC2.Gen.Registry
import VC2.Props.C01
import VC2.Proofs.SliceFit
namespace VC2.Props.C05
open VC2

/-- the names of the registered decoder (and encoder) test-case generators are pairwise distinct
    and none contains a '[' -/
theorem generator_names_distinct :
    VC2.Gen.decoderGeneratorNames.Nodup ∧ VC2.Gen.encoderGeneratorNames.Nodup ∧
    (VC2.Gen.decoderGeneratorNames ++ VC2.Gen.encoderGeneratorNames).all (fun n => !n.toList.contains '[') = true := by
  refine ⟨by decide +kernel, by decide +kernel, by decide +kernel⟩

/-- `TestCase.name`: `case[subcase]` on character lists -/
def fullName (c s : List Char) : List Char := c ++ '[' :: s ++ [']']

theorem split_at_bracket : ∀ (c1 c2 r1 r2 : List Char), '[' ∉ c1 → '[' ∉ c2 →
    c1 ++ '[' :: r1 = c2 ++ '[' :: r2 → c1 = c2 ∧ r1 = r2 := by
  intro c1
  induction c1 with
  | nil =>
    intro c2 r1 r2 _ h2 h
    cases c2 with
    | nil => simp at h; exact ⟨rfl, h⟩
    | cons x xs =>
      simp at h
      exact absurd (by rw [← h.1]; exact List.mem_cons_self) h2
  | cons a as ih =>
    intro c2 r1 r2 h1 h2 h
    cases c2 with
    | nil =>
      simp at h
      exact absurd (by rw [h.1]; exact List.mem_cons_self) h1
    | cons x xs =>
      simp at h
      obtain ⟨e, rest⟩ := h
      have := ih xs r1 r2 (fun m => h1 (List.mem_cons_of_mem _ m)) (fun m => h2 (List.mem_cons_of_mem _ m)) rest
      exact ⟨by rw [e, this.1], this.2⟩

/-- **test-case names are unique** as long as (case, subcase) pairs are: the full name determines
    both parts, for case names without '[' -/
theorem full_name_injective (c1 c2 s1 s2 : List Char) (h1 : '[' ∉ c1) (h2 : '[' ∉ c2)
    (h : fullName c1 s1 = fullName c2 s2) : c1 = c2 ∧ s1 = s2 := by
  unfold fullName at h
  have := split_at_bracket c1 c2 (s1 ++ [']']) (s2 ++ [']']) h1 h2 (by simpa using h)
  exact ⟨this.1, List.append_cancel_right this.2⟩

/-- **padding and auxiliary data units are transparent**: their payload leaves the validator's
    whole state (picture numbering, fragment progress, decoded pictures, …) unchanged -/
theorem padding_is_transparent (cfg : VC2.Model.Stream.Config) (s : VC2.Model.Stream.VState) (u : VC2.Model.Stream.DUnit)
    (h : u.kind = .aux ∨ u.kind = .padding) : VC2.Model.Stream.payload cfg s u = .ok s := by
  unfold VC2.Model.Stream.payload
  rcases h with h | h <;> rw [h] <;> rfl

/-- **a repeated, byte-identical sequence header** leaves everything decoding depends on unchanged -/
theorem repeated_header_is_transparent (cfg : VC2.Model.Stream.Config) (s s1 : VC2.Model.Stream.VState)
    (u : VC2.Model.Stream.DUnit) (h : VC2.Model.Stream.headerPayload cfg s u = .ok s1) :
    s1.lastPicNum = s.lastPicNum ∧ s1.numPics = s.numPics ∧ s1.fragRemaining = s.fragRemaining ∧
    s1.fragReceived = s.fragReceived ∧ s1.slicesX = s.slicesX ∧ s1.slicesY = s.slicesY ∧ s1.decoded = s.decoded := by
  have := VC2.Proofs.Stream.headerPayload_ok cfg s s1 u h
  exact ⟨this.2.2.2.2.2.1, this.2.2.2.2.2.2.2.2.2.2.2.2.1, this.2.2.2.2.2.2.1, this.2.2.2.2.2.2.2.1,
    this.2.2.2.2.2.2.2.2.2.1, this.2.2.2.2.2.2.2.2.2.2.1, this.2.2.2.2.2.2.2.2.2.2.2.1⟩

/-- **slice size scaler**: re-expressing a length of `L` bytes with any scaler `s ≥ 1` as
    `⌈L / s⌉` units still covers the data, with less than one unit of slack -/
theorem rescaled_length_covers (L s : Int) (hs : 1 ≤ s) (hL : 0 ≤ L) :
    L ≤ s * pydiv (L + s - 1) s ∧ s * pydiv (L + s - 1) s < L + s := by
  rw [pydiv_pos _ _ (by omega)]
  have h1 := Int.ediv_mul_le (L + s - 1) (by omega : s ≠ 0)
  have h2 := Int.lt_ediv_add_one_mul_self (L + s - 1) (by omega : 0 < s)
  have e : s * ((L + s - 1) / s) = (L + s - 1) / s * s := Int.mul_comm _ _
  have e2 : ((L + s - 1) / s + 1) * s = (L + s - 1) / s * s + s := by rw [Int.add_mul]; omega
  rw [e]; rw [e2] at h2
  constructor <;> omega

example : fullName "padding_data".toList "10_bytes".toList = "padding_data[10_bytes]".toList := by decide

end VC2.Props.C05
