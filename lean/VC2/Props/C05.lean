/-
  C05 — decoder test cases are conformant and decode to their intended pictures.
  Property theorems only.  PARTIAL: proved are (i) name uniqueness from the registry side — the
  registered generator names (regenerated from the running registry) are pairwise distinct, contain
  no '[', and `case[subcase]` is injective on such names; (ii) transparency facts on the
  stream-structure model shared with C01: padding and auxiliary data units leave the decoder state
  untouched, a repeated identical sequence header changes nothing the decoding depends on; (iii) the
  arithmetic behind the slice-size-scaler test case (a larger scaler still covers every slice).
  That each Python generator IS one of these content-preserving transformations, and everything
  about the decoded pictures, is established by running the real registry on sampled configurations.
-/
import VC2.Gen.Registry
import VC2.Props.C01
import VC2.Proofs.SliceFit
import VC2.Proofs.SlicePad
namespace VC2.Props.C05
open VC2

/-- the names of the registered decoder (and encoder) test-case generators are pairwise distinct
    and none contains a '[' -/
theorem generator_names_distinct :
    VC2.Gen.decoderGeneratorNames.Nodup ∧ VC2.Gen.encoderGeneratorNames.Nodup ∧
    (VC2.Gen.decoderGeneratorNames ++ VC2.Gen.encoderGeneratorNames).all (fun n => !n.toList.contains '[') = true := by
  refine ⟨by decide +kernel, by decide +kernel, by decide +kernel⟩

/-- `TestCase.name`: `case[subcase]` on character lists -/
def fullName (c s : List Char) : List Char := c ++ '[' :: s ++ [']']

theorem split_at_bracket : ∀ (c1 c2 r1 r2 : List Char), '[' ∉ c1 → '[' ∉ c2 →
    c1 ++ '[' :: r1 = c2 ++ '[' :: r2 → c1 = c2 ∧ r1 = r2 := by
  intro c1
  induction c1 with
  | nil =>
    intro c2 r1 r2 _ h2 h
    cases c2 with
    | nil => simp at h; exact ⟨rfl, h⟩
    | cons x xs =>
      simp at h
      exact absurd (by rw [← h.1]; exact List.mem_cons_self) h2
  | cons a as ih =>
    intro c2 r1 r2 h1 h2 h
    cases c2 with
    | nil =>
      simp at h
      exact absurd (by rw [h.1]; exact List.mem_cons_self) h1
    | cons x xs =>
      simp at h
      obtain ⟨e, rest⟩ := h
      have := ih xs r1 r2 (fun m => h1 (List.mem_cons_of_mem _ m)) (fun m => h2 (List.mem_cons_of_mem _ m)) rest
      exact ⟨by rw [e, this.1], this.2⟩

/-- **test-case names are unique** as long as (case, subcase) pairs are: the full name determines
    both parts, for case names without '[' -/
theorem full_name_injective (c1 c2 s1 s2 : List Char) (h1 : '[' ∉ c1) (h2 : '[' ∉ c2)
    (h : fullName c1 s1 = fullName c2 s2) : c1 = c2 ∧ s1 = s2 := by
  unfold fullName at h
  have := split_at_bracket c1 c2 (s1 ++ [']']) (s2 ++ [']']) h1 h2 (by simpa using h)
  exact ⟨this.1, List.append_cancel_right this.2⟩

/-- **padding and auxiliary data units are transparent**: their payload leaves the validator's
    whole state (picture numbering, fragment progress, decoded pictures, …) unchanged -/
theorem padding_is_transparent (cfg : VC2.Model.Stream.Config) (s : VC2.Model.Stream.VState) (u : VC2.Model.Stream.DUnit)
    (h : u.kind = .aux ∨ u.kind = .padding) : VC2.Model.Stream.payload cfg s u = .ok s := by
  unfold VC2.Model.Stream.payload
  rcases h with h | h <;> rw [h] <;> rfl

/-- **a repeated, byte-identical sequence header** leaves everything decoding depends on unchanged -/
theorem repeated_header_is_transparent (cfg : VC2.Model.Stream.Config) (s s1 : VC2.Model.Stream.VState)
    (u : VC2.Model.Stream.DUnit) (h : VC2.Model.Stream.headerPayload cfg s u = .ok s1) :
    s1.lastPicNum = s.lastPicNum ∧ s1.numPics = s.numPics ∧ s1.fragRemaining = s.fragRemaining ∧
    s1.fragReceived = s.fragReceived ∧ s1.slicesX = s.slicesX ∧ s1.slicesY = s.slicesY ∧ s1.decoded = s.decoded := by
  have := VC2.Proofs.Stream.headerPayload_ok cfg s s1 u h
  exact ⟨this.2.2.2.2.2.1, this.2.2.2.2.2.2.2.2.2.2.2.2.1, this.2.2.2.2.2.2.1, this.2.2.2.2.2.2.2.1,
    this.2.2.2.2.2.2.2.2.2.1, this.2.2.2.2.2.2.2.2.2.2.1, this.2.2.2.2.2.2.2.2.2.2.2.1⟩

/-- **slice size scaler**: re-expressing a length of `L` bytes with any scaler `s ≥ 1` as
    `⌈L / s⌉` units still covers the data, with less than one unit of slack -/
theorem rescaled_length_covers (L s : Int) (hs : 1 ≤ s) (hL : 0 ≤ L) :
    L ≤ s * pydiv (L + s - 1) s ∧ s * pydiv (L + s - 1) s < L + s := by
  rw [pydiv_pos _ _ (by omega)]
  have h1 := Int.ediv_mul_le (L + s - 1) (by omega : s ≠ 0)
  have h2 := Int.lt_ediv_add_one_mul_self (L + s - 1) (by omega : 0 < s)
  have e : s * ((L + s - 1) / s) = (L + s - 1) / s * s := Int.mul_comm _ _
  have e2 : ((L + s - 1) / s + 1) * s = (L + s - 1) / s * s + s := by rw [Int.add_mul]; omega
  rw [e]; rw [e2] at h2
  constructor <;> omega

example : fullName "padding_data".toList "10_bytes".toList = "padding_data[10_bytes]".toList := by decide

/-! ### slice padding fillers (`slice_padding_data`) -/
section SlicePad
open VC2.Model.SlicePad VC2.Proofs.SlicePad

/-- **low delay: the luma length written by the filler fits its field and leaves a non-negative
    share for colour difference**, for every slice size of at least one byte
    (`k` is the width of the `slice_y_length` field) -/
theorem ld_fill_y_length_fits (sb : Int) (hsb : 1 ≤ sb) (luma : Bool) (z : Nat) (f : List Nat) (al : Bool) :
    0 ≤ (ldFill sb luma z f al).yLen ∧
    (ldFill sb luma z f al).yLen < 2 ^ (VC2.Gen.intlog2 (8 * sb - 7)).toNat ∧
    (ldFill sb luma z f al).yLen ≤ 8 * sb - 7 - VC2.Gen.intlog2 (8 * sb - 7) := by
  obtain ⟨n, hn⟩ : ∃ n : Nat, 8 * sb - 7 = (n : Int) := ⟨(8 * sb - 7).toNat, by omega⟩
  obtain ⟨k, hk, hge, hkn, _⟩ := intlog2_facts n (by omega)
  have hpow : 0 < 2 ^ k := Nat.two_pow_pos k
  unfold ldFill
  simp only [hn, hk, Int.toNat_natCast]
  have hpc : ((2 : Int) ^ k) = ((2 ^ k : Nat) : Int) := by norm_cast
  rw [hpc]
  generalize 2 ^ k = P at *
  cases luma
  · simp only [Bool.false_eq_true, if_false]; omega
  · simp only [if_true]; unfold pymin; split <;> omega

/-- … and **only the degenerate one-byte slice differs from 'all bits to luma'**: from two bytes per
    slice upwards the luma component receives every data bit of the slice -/
theorem ld_fill_luma_gets_everything (sb : Int) (hsb : 2 ≤ sb) (z : Nat) (f : List Nat) (al : Bool) :
    (ldFill sb true z f al).yLen = 8 * sb - 7 - VC2.Gen.intlog2 (8 * sb - 7) := by
  obtain ⟨n, hn⟩ : ∃ n : Nat, 8 * sb - 7 = (n : Int) := ⟨(8 * sb - 7).toNat, by omega⟩
  obtain ⟨k, hk, hge, hkn, hk1⟩ := intlog2_facts n (by omega)
  have := hk1 (by omega)
  unfold ldFill
  simp only [hn, hk, Int.toNat_natCast, if_true]
  have hpc : ((2 : Int) ^ k) = ((2 ^ k : Nat) : Int) := by norm_cast
  rw [hpc]
  generalize 2 ^ k = P at *
  unfold pymin; split <;> omega

/-- **the padding exactly fills the component**: zeros + padding = the component's bounded block
    whenever the zero coefficients leave room -/
theorem ld_fill_padding_length (sb : Int) (luma : Bool) (z : Nat) (f : List Nat) (al : Bool) (hf : f ≠ []) :
    (((ldFill sb luma z f al).padding.length : Nat) : Int) =
      if (if luma then (ldFill sb luma z f al).yLen else 8 * sb - 7 - VC2.Gen.intlog2 (8 * sb - 7)) - z > 0
      then (if luma then (ldFill sb luma z f al).yLen else 8 * sb - 7 - VC2.Gen.intlog2 (8 * sb - 7)) - z else 0 := by
  unfold ldFill
  cases luma
  · simp only [Bool.false_eq_true, if_false]; exact guarded_padding_length _ f _ hf
  · simp only [if_true]; exact guarded_padding_length _ f _ hf

/-- **high quality**: the chosen component receives `max(min_length, y + c1 + c2)`, the other two
    nothing; it is again a single 8-bit length whenever the three lengths came out of one slice
    budget (`hq_lossy_budget_le_255`) and the minimum is one -/
theorem hq_fill_lengths (sc y c1 c2 mn : Int) (comp z : Nat) (f : List Nat) (al : Bool) (hc : comp < 3) :
    let r := hqFill sc y c1 c2 mn comp z f al
    r.yLen + r.c1Len + r.c2Len = pymax mn (y + c1 + c2) ∧
    (y + c1 + c2 ≤ 255 → mn ≤ 255 → 0 ≤ y + c1 + c2 →
      0 ≤ r.yLen ∧ r.yLen ≤ 255 ∧ 0 ≤ r.c1Len ∧ r.c1Len ≤ 255 ∧ 0 ≤ r.c2Len ∧ r.c2Len ≤ 255) := by
  intro r
  simp only [r, hqFill]
  have : comp = 0 ∨ comp = 1 ∨ comp = 2 := by omega
  unfold pymax
  rcases this with h | h | h <;> subst h <;> simp <;> (try split) <;> omega

theorem hq_fill_padding_length (sc y c1 c2 mn : Int) (comp z : Nat) (f : List Nat) (al : Bool) (hf : f ≠ []) :
    (((hqFill sc y c1 c2 mn comp z f al).padding.length : Nat) : Int) =
      if pymax mn (y + c1 + c2) * sc * 8 - z > 0 then pymax mn (y + c1 + c2) * sc * 8 - z else 0 := by
  unfold hqFill
  exact guarded_padding_length _ f _ hf

/-- the generated padding always has the requested length -/
theorem filled_padding_length (n : Nat) (f : List Nat) (a : Int) (hf : f ≠ []) :
    (filledPadding n f a).length = n := filledPadding_length n f a hf

/-! non-vacuity: the one-byte slice (defect F10), an ordinary slice, an aligned dummy pattern -/
example : (ldFill 1 true 0 [255] false).yLen = 0 ∧ (ldFill 1 false 0 [255] false).padding = [true] := by decide
example : (ldFill 3 true 4 [0xAA] false).yLen = 12 ∧ (ldFill 3 true 4 [0xAA] false).padding.length = 8 := by decide
example : filledPadding 12 [0xF0] 13 = [false, false, false, true, true, true, true, false, false, false, false, true] := by decide
example : (hqFill 2 1 2 3 0 1 5 [255] false).c1Len = 6 ∧ (hqFill 2 1 2 3 0 1 5 [255] false).padding.length = 91 := by decide

end SlicePad

end VC2.Props.C05
