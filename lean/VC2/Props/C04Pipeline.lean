/-
  C04 — the links composed: for ONE component, the whole numeric pipeline
  remove offset → pad → forward transform → (low delay: DC prediction) → quantise at index 0 |
  dequantise → (DC prediction inverse) → inverse transform → remove padding → clip → offset
  is the identity, for every bit depth, filter pair, depth pair, size and in-range content.
  Property theorems only; model VC2/Model/Pipeline.lean, proof VC2/Proofs/Pipeline.lean.  Between the two halves
  the real code tiles the coefficients into slices (partition: C13) and codes them (C20/C21/C06: every value comes
  back unchanged); that part is not repeated in the composed model.
-/
import VC2.Proofs.Pipeline
namespace VC2.Props.C04
open VC2 VC2.Model.Wavelet VC2.Model.Picture VC2.Model.Pipeline

/-- **lossless / index-0 coding reconstructs a component exactly** — both profiles (`ld` = low delay,
    with DC prediction), every component size ≥ 1×1 padded to any admissible size, every pixel content
    within the bit depth -/
theorem component_reconstructed_exactly (depth : Nat) (hd : 1 ≤ depth) (fv fho : Filter) (dho d : Nat)
    (a : VC2.Model.Wavelet.Arr) (ph pw : Nat) (ld : Bool) (hh1 : 1 ≤ a.h) (hw1 : 1 ≤ a.w) (hph : a.h ≤ ph) (hpw : a.w ≤ pw)
    (hh : ph % 2 ^ d = 0) (hw : pw % 2 ^ (d + dho) = 0)
    (hrange : ∀ y x, y < a.h → x < a.w → 0 ≤ a.f y x ∧ a.f y x ≤ 2 ^ depth - 1) :
    (decodeComponent depth fv fho ld 0 a.h a.w (encodeComponent depth fv fho dho d ph pw ld 0 a)).Eq a :=
  VC2.Proofs.Pipeline.component_round_trip depth hd fv fho dho d a ph pw ld hh1 hw1 hph hpw hh hw hrange

/-! non-vacuity: the hypotheses are met by a concrete 2×3 8-bit component (LeGall filter, one 2-D level,
    padded to 2×4, low delay) -/
def legall : Filter := (VC2.Gen.liftingFilters[1]!).2
def comp0 : VC2.Model.Wavelet.Arr := Arr.ofLists [[0, 255, 17], [200, 3, 128]]
example : (decodeComponent 8 legall legall true 0 2 3 (encodeComponent 8 legall legall 0 1 2 4 true 0 comp0)).Eq comp0 := by
  refine component_reconstructed_exactly 8 (by decide) legall legall 0 1 comp0 2 4 true (by decide) (by decide) (by decide) (by decide)
    (by decide) (by decide) ?_
  intro y x hy hx
  have hy' : y < 2 := hy
  have hx' : x < 3 := hx
  obtain rfl | rfl : y = 0 ∨ y = 1 := by omega
  all_goals (obtain rfl | rfl | rfl : x = 0 ∨ x = 1 ∨ x = 2 := by omega) <;> decide

end VC2.Props.C04
