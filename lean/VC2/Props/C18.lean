/-
  C18 — The data-unit pattern matcher implements its regular-expression language.
  Model: VC2/Model/SymRe.lean (hand-written: parser, Thompson construction with node ids,
  iterated ε-closure, match_symbol / is_complete / valid_next_symbols), tied to symbol_re.py by
  the `re` correspondence.  `Lang` is the standard denotational semantics over real symbols plus
  an end marker: `.` matches every real symbol, `$` matches only the end marker.
-/
import VC2.Proofs.SymReMatcher
set_option linter.unusedVariables false
namespace VC2.Props.C18
open VC2 VC2.Model.SymRe VC2.Proofs.SymRe

/-- the language of pattern `r` over real symbols and the end marker -/
abbrev L (r : Ast) : List Sym → Prop := Lang mrel r

def reals (w : List String) : List Sym := w.map Sym.real

theorem mrel_total (s : String) : ∃ a : Sym, mrel s a := ⟨.real s, by simp [mrel, labelMatches]⟩

/-- **Thompson construction is exact**: runs from the start to the final node of the automaton
    built for `r` spell exactly the words of `L r` (any node numbering offset `n`). -/
theorem automaton_exact (r : Ast) (n : Nat) (w : List Sym) :
    Path mrel (build r n).edges (build r n).start w (build r n).final ↔ L r w :=
  ⟨build_sound mrel r n w, fun h => build_complete mrel r w h n⟩

/-- … and it is trim: every node can still reach the final node. -/
theorem automaton_trim (r : Ast) (n q : Nat) (hq : n ≤ q ∧ q < (build r n).next) :
    ∃ w, Path mrel (build r n).edges q w (build r n).final :=
  build_trim mrel mrel_total r n q hq

theorem init_ok (r : Ast) : MOk (Matcher.init false r) := by
  have rng := build_range r 0
  unfold InRange at rng
  refine ⟨rfl, ⟨fun e he => ?_⟩, ?_, ?_⟩
  · have := rng.2.2 e he; exact ⟨this.1.2, this.2.2⟩
  · intro x hx
    simp only [Matcher.init, List.mem_singleton] at hx
    subst hx; exact rng.1.2
  · simp [Matcher.init]

/-- **The matcher accepts each next symbol exactly when the sequence so far (with it) is a prefix
    of some matching sequence**: all of `match_symbol w₁ … wₙ` return True iff `w` can be
    extended to a word of the language. -/
theorem accepts_iff_prefix (r : Ast) (w : List String) :
    ((Matcher.init false r).run w).isSome = true ↔ ∃ v : List Sym, L r (reals w ++ v) := by
  have ok := init_ok r
  have ⟨r1, r2⟩ := run_spec w (Matcher.init false r) ok
  have hstart : (Matcher.init false r).cur = [(build r 0).start] := rfl
  have hfrag : (Matcher.init false r).frag = build r 0 := rfl
  constructor
  · intro h
    cases hr : (Matcher.init false r).run w with
    | none => rw [hr] at h; cases h
    | some mt' =>
      obtain ⟨ok', hf', hc'⟩ := r1 mt' hr
      cases hcur : mt'.cur with
      | nil => exact absurd hcur ok'.nonempty
      | cons q _ =>
        have hq : q ∈ mt'.cur := by rw [hcur]; exact List.mem_cons_self
        obtain ⟨q0, hq0, hreach⟩ := (hc' q).1 hq
        rw [hstart, List.mem_singleton] at hq0; subst hq0
        rw [hfrag] at hreach
        have p1 := reachFrom_path _ w _ q hreach
        have hqr : q < (build r 0).next := by have := ok'.cur q hq; rw [hf', hfrag] at this; exact this
        obtain ⟨v, p2⟩ := build_trim mrel mrel_total r 0 q ⟨Nat.zero_le _, hqr⟩
        exact ⟨v, build_sound mrel r 0 _ (p1.trans mrel p2)⟩
  · rintro ⟨v, hv⟩
    have p := build_complete mrel r _ hv 0
    obtain ⟨q, hq, _⟩ := path_reachFrom _ w _ _ v p
    cases hr : (Matcher.init false r).run w with
    | some _ => rfl
    | none =>
      exfalso
      exact (r2.1 hr) ⟨(build r 0).start, by rw [hstart]; exact List.mem_singleton.2 rfl, q, by rw [hfrag]; exact hq⟩

theorem mem_labelFold (S : List Nat) (es : List Edge) : ∀ (acc : List String) (l : String),
    l ∈ es.foldl (labelFn S) acc ↔ l ∈ acc ∨ ∃ e ∈ es, e.lbl = some l ∧ e.src ∈ S := by
  induction es with
  | nil => intro acc l; simp
  | cons e es ih =>
    intro acc l
    simp only [List.foldl_cons, ih, List.mem_cons]
    unfold labelFn
    cases hl : e.lbl with
    | none =>
      simp only
      constructor
      · rintro (h | ⟨e', he', h⟩)
        · exact Or.inl h
        · exact Or.inr ⟨e', Or.inr he', h⟩
      · rintro (h | ⟨e', he' | he', h⟩)
        · exact Or.inl h
        · subst he'; rw [hl] at h; cases h.1
        · exact Or.inr ⟨e', he', h⟩
    | some l' =>
      simp only
      by_cases hc : S.contains e.src = true
      · rw [if_pos hc]
        have hc' : e.src ∈ S := by simpa using hc
        have hins : ∀ x, x ∈ insertStr acc l' ↔ x ∈ acc ∨ x = l' := by
          intro x; unfold insertStr
          by_cases h : acc.contains l' = true
          · rw [if_pos h]
            constructor
            · exact Or.inl
            · rintro (h1 | h1)
              · exact h1
              · subst h1; simpa using h
          · rw [if_neg h]; simp
        rw [hins]
        constructor
        · rintro ((h | h) | ⟨e', he', h⟩)
          · exact Or.inl h
          · subst h; exact Or.inr ⟨e, Or.inl rfl, hl, hc'⟩
          · exact Or.inr ⟨e', Or.inr he', h⟩
        · rintro (h | ⟨e', he' | he', h⟩)
          · exact Or.inl (Or.inl h)
          · subst he'; rw [hl] at h
            have : l' = l := by have := h.1; injection this
            exact Or.inl (Or.inr this.symm)
          · exact Or.inr ⟨e', he', h⟩
      · rw [if_neg hc]
        have hc' : ¬ e.src ∈ S := by simpa using hc
        constructor
        · rintro (h | ⟨e', he', h⟩)
          · exact Or.inl h
          · exact Or.inr ⟨e', Or.inr he', h⟩
        · rintro (h | ⟨e', he' | he', h⟩)
          · exact Or.inl h
          · subst he'; exact absurd h.2 hc'
          · exact Or.inr ⟨e', he', h⟩

/-- **Completion is reported exactly when the whole sequence matches**: `w` itself is in the
    language, or the end marker may follow (`w · $ …` is in the language). -/
theorem complete_iff (r : Ast) (w : List String) (mt : Matcher)
    (hrun : (Matcher.init false r).run w = some mt) :
    mt.isComplete = true ↔ (L r (reals w) ∨ ∃ v : List Sym, L r (reals w ++ Sym.endm :: v)) := by
  have ok := init_ok r
  have ⟨r1, _⟩ := run_spec w (Matcher.init false r) ok
  obtain ⟨ok', hf', hc'⟩ := r1 mt hrun
  have hstart : (Matcher.init false r).cur = [(build r 0).start] := rfl
  have hfrag : (Matcher.init false r).frag = build r 0 := rfl
  rw [hfrag] at hf' hc'
  have cur_iff : ∀ q, q ∈ mt.cur ↔ ReachFrom (build r 0).edges (build r 0).start w q := by
    intro q; rw [hc', hstart]; simp
  unfold Matcher.isComplete
  simp only [Bool.or_eq_true, List.contains_iff_mem, Bool.not_eq_true']
  constructor
  · rintro (h | h)
    · left
      obtain ⟨q, hq, hp⟩ := (mem_closed mt ok' _).1 h
      rw [hf'] at hp
      have p1 := reachFrom_path _ w _ q ((cur_iff q).1 hq)
      have := build_sound mrel r 0 _ (p1.trans mrel hp)
      simpa [reals] using this
    · right
      cases hs : stepOn mt.frag.edges mt.closed (fun l => l == END) with
      | nil => rw [hs] at h; simp at h
      | cons q' _ =>
        have hq' : q' ∈ stepOn mt.frag.edges mt.closed (fun l => l == END) := by rw [hs]; exact List.mem_cons_self
        obtain ⟨e, he, l, hl, hm, hsrc, hd⟩ := (mem_stepOn _ _ _ _).1 hq'
        obtain ⟨q, hq, hp⟩ := (mem_closed mt ok' _).1 hsrc
        rw [hf'] at hp he
        have p1 := reachFrom_path _ w _ q ((cur_iff q).1 hq)
        have hl' : l = END := by simpa using hm
        have p2 : Path mrel (build r 0).edges e.src [Sym.endm] q' :=
          .step (s := l) (q := q') (by cases e; simp_all) (by simp [mrel, hl']) (.nil _)
        have hqr : q' < (build r 0).next := by
          rw [← hd]; have := build_range r 0; unfold InRange at this; exact (this.2.2 e he).2.2
        obtain ⟨v, p3⟩ := build_trim mrel mrel_total r 0 q' ⟨Nat.zero_le _, hqr⟩
        refine ⟨v, ?_⟩
        have := build_sound mrel r 0 _ (((p1.trans mrel hp).trans mrel p2).trans mrel p3)
        simpa [reals] using this
  · rintro (h | ⟨v, h⟩)
    · left
      have p := build_complete mrel r _ h 0
      obtain ⟨q, hq, hp⟩ := path_reachFrom _ w _ _ [] (by simpa [reals] using p)
      exact (mem_closed mt ok' _).2 ⟨q, (cur_iff q).2 hq, by rw [hf']; exact hp⟩
    · right
      have p := build_complete mrel r _ h 0
      obtain ⟨q, hq, hp⟩ := path_reachFrom _ w _ _ (Sym.endm :: v) (by simpa [reals] using p)
      obtain ⟨p', hp', e, he, hsrc, ⟨l, hl, hm⟩, _⟩ := path_cons_inv _ hp Sym.endm v rfl
      have hmem : e.dst ∈ stepOn mt.frag.edges mt.closed (fun l => l == END) := by
        rw [mem_stepOn]
        refine ⟨e, by rw [hf']; exact he, l, hl, by simpa [mrel] using hm, ?_, rfl⟩
        exact (mem_closed mt ok' _).2 ⟨q, (cur_iff q).2 hq, by rw [hf', hsrc]; exact hp'⟩
      cases hs : stepOn mt.frag.edges mt.closed (fun l => l == END) with
      | nil => rw [hs] at hmem; cases hmem
      | cons _ _ => simp

/-- **The valid next symbols are exactly those that keep a match possible**: a real symbol `a` is
    covered by the listed set (it is listed, or the wildcard is) iff `match_symbol a` succeeds,
    and the end-of-sequence entry is listed iff the sequence is complete. -/
theorem valid_next_exact (r : Ast) (w : List String) (mt : Matcher)
    (hrun : (Matcher.init false r).run w = some mt) (a : String) (ha : a ≠ END) :
    ((∃ l ∈ mt.validNext, labelMatches l a = true) ↔ (mt.matchSymbol a).isSome = true) ∧
    (END ∈ mt.validNext ↔ mt.isComplete = true) := by
  have ok := init_ok r
  have ⟨r1, _⟩ := run_spec w (Matcher.init false r) ok
  obtain ⟨ok', _, _⟩ := r1 mt hrun
  have hins : ∀ (acc : List String) (x y : String), y ∈ insertStr acc x ↔ y ∈ acc ∨ y = x := by
    intro acc x y; unfold insertStr
    by_cases h : acc.contains x = true
    · rw [if_pos h]
      constructor
      · exact Or.inl
      · rintro (h1 | h1)
        · exact h1
        · subst h1; simpa using h
    · rw [if_neg h]; simp
  have hEND : ∀ a, a ≠ END → labelMatches END a = false := by
    intro a ha; simp [labelMatches, END, WILDCARD]; exact fun h => ha h
  constructor
  · -- symbols
    have step_iff : (mt.matchSymbol a).isSome = true ↔
        ∃ e ∈ mt.frag.edges, ∃ l, e.lbl = some l ∧ labelMatches l a = true ∧ e.src ∈ mt.closed := by
      unfold Matcher.matchSymbol
      simp only
      constructor
      · intro h
        split at h
        · cases h
        · rename_i hne
          cases hs : stepOn mt.frag.edges mt.closed (fun l => labelMatches l a) with
          | nil => rw [hs] at hne; simp at hne
          | cons q _ =>
            obtain ⟨e, he, l, hl, hm, hsrc, _⟩ := (mem_stepOn _ _ _ q).1 (by rw [hs]; exact List.mem_cons_self)
            exact ⟨e, he, l, hl, hm, hsrc⟩
      · rintro ⟨e, he, l, hl, hm, hsrc⟩
        have : e.dst ∈ stepOn mt.frag.edges mt.closed (fun l => labelMatches l a) :=
          (mem_stepOn _ _ _ _).2 ⟨e, he, l, hl, hm, hsrc, rfl⟩
        split
        · rename_i hemp; rw [List.isEmpty_iff] at hemp; rw [hemp] at this; cases this
        · rfl
    rw [step_iff]
    unfold Matcher.validNext
    simp only
    constructor
    · rintro ⟨l, hl, hm⟩
      have hl' : l ∈ mt.frag.edges.foldl (labelFn mt.closed) [] := by
        split at hl
        · rcases (hins _ _ _).1 hl with h | h
          · exact h
          · subst h; rw [hEND a ha] at hm; cases hm
        · exact hl
      rcases (mem_labelFold _ _ _ _).1 hl' with h | ⟨e, he, hlbl, hsrc⟩
      · cases h
      · exact ⟨e, he, l, hlbl, hm, hsrc⟩
    · rintro ⟨e, he, l, hlbl, hm, hsrc⟩
      have hl' : l ∈ mt.frag.edges.foldl (labelFn mt.closed) [] :=
        (mem_labelFold _ _ _ _).2 (Or.inr ⟨e, he, hlbl, hsrc⟩)
      refine ⟨l, ?_, hm⟩
      split
      · exact (hins _ _ _).2 (Or.inl hl')
      · exact hl'
  · unfold Matcher.validNext
    simp only
    constructor
    · intro h
      by_cases hc : mt.isComplete = true
      · exact hc
      · rw [if_neg hc] at h
        rcases (mem_labelFold _ _ _ _).1 h with h | ⟨e, he, hlbl, hsrc⟩
        · cases h
        · -- an edge labelled `$` leaves the closure, so the matcher is complete after all
          exfalso; apply hc
          unfold Matcher.isComplete
          have : e.dst ∈ stepOn mt.frag.edges mt.closed (fun l => l == END) :=
            (mem_stepOn _ _ _ _).2 ⟨e, he, END, hlbl, by simp, hsrc, rfl⟩
          cases hs : stepOn mt.frag.edges mt.closed (fun l => l == END) with
          | nil => rw [hs] at this; cases this
          | cons _ _ => simp
    · intro hc
      rw [if_pos hc]
      exact (hins _ _ _).2 (Or.inr rfl)

/-- historical defect F1 (repaired by the `fix:` commit): with empty transitions followed in both
    directions the automaton over-accepts — `a?b` accepted `a a b`.  Kept as a negation witness;
    the `re` correspondence runs the model with directed ε-edges only. -/
theorem bidirectional_epsilon_overaccepts :
    ((Matcher.init true (.cat (.alt (.sym "a") .empty) (.sym "b"))).run ["a", "a", "b"]).isSome = true ∧
    ((Matcher.init false (.cat (.alt (.sym "a") .empty) (.sym "b"))).run ["a", "a", "b"]).isSome = false := by
  decide

/-- non-vacuity: a concrete pattern `(a|b)* c $`, its parse, and concrete verdicts -/
example : (parseRegex [.lpar, .str "a", .bar, .str "b", .rpar, .modifier '*', .str "c", .eos]).toOption
    = some (.cat (.star (.alt (.sym "a") (.sym "b"))) (.cat (.sym "c") (.sym END))) := by decide +kernel
example :
    let r : Ast := .cat (.star (.alt (.sym "a") (.sym "b"))) (.cat (.sym "c") (.sym END))
    ((Matcher.init false r).run ["a", "b", "c"]).map (·.isComplete) = some true ∧
    ((Matcher.init false r).run ["a", "c", "a"]).isSome = false := by decide +kernel

end VC2.Props.C18
