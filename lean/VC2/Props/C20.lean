/-
  C20 — Bit-level readers and writers agree on every primitive.
  Model: VC2/Model/BitIO.lean (hand-written, tied to bitstream/io.py and decoder/io.py by the
  `io` correspondence); length functions: generated from bitstream/exp_golomb.py.
  All values are unbounded integers; all streams are arbitrary bit lists.
-/
import VC2.Proofs.BitIO
import VC2.Model.BitIOSeek
set_option linter.unusedVariables false
namespace VC2.Props.C20
open VC2 VC2.Gen VC2.Model.BitIO VC2.Proofs.BitIO

/-- a fresh reader / validator reader positioned behind `pre` on the stream `pre ++ mid ++ suf` -/
def readerAt (pre mid suf : List Bool) : Reader := { all := pre ++ (mid ++ suf), pos := pre.length }
def dreaderAt (pre mid suf : List Bool) (bl : Int) : DReader :=
  { all := pre ++ (mid ++ suf), pos := pre.length, bitsLeft := bl }

/-- **unsigned exp-Golomb**: what `write_uint v` appends has exactly `exp_golomb_length v` bits,
    and both `BitstreamReader.read_uint` and the validator's `read_uint` read `v` back from it
    and stop exactly behind it — whatever precedes and follows. -/
theorem uint_roundtrip (v : Int) (hv : 0 ≤ v) (pre suf : List Bool) (bl : Int) :
    ∃ bits : List Bool,
      Writer.writeUint { out := pre } v = .ok { out := pre ++ bits } ∧
      (bits.length : Int) = exp_golomb_length v ∧
      (∃ r', (readerAt pre bits suf).readUint = .ok (v, r') ∧ r'.pos = pre.length + bits.length
              ∧ r'.all = pre ++ (bits ++ suf)) ∧
      (∃ d', (dreaderAt pre bits suf bl).readUintG false = .ok (v, d') ∧ d'.pos = pre.length + bits.length) := by
  obtain ⟨n, rfl⟩ : ∃ n : Nat, v = n := ⟨v.toNat, by omega⟩
  refine ⟨encodeUint n, ?_, ?_, ?_, ?_⟩
  · unfold Writer.writeUint
    have : ¬ ((n : Int) < 0) := by omega
    simp only [this, if_false, Int.toNat_natCast]
    rw [writeBits_free _ _ rfl]
  · rw [exp_golomb_length_eq]
  · obtain ⟨r', e, h, _⟩ := readUint_free n (readerAt pre (encodeUint n) suf) pre suf ⟨rfl, rfl⟩ rfl
    exact ⟨r', e, by rw [h.2]; simp, by rw [h.1]; simp⟩
  · obtain ⟨r', e, h, hr⟩ := readUint_free n (readerAt pre (encodeUint n) suf) pre suf ⟨rfl, rfl⟩ rfl
    have a := sim0_readUint (readerAt pre (encodeUint n) suf) (dreaderAt pre (encodeUint n) suf bl) ⟨rfl, rfl, rfl⟩
    rw [e] at a
    cases e' : (dreaderAt pre (encodeUint n) suf bl).readUintG false with
    | error x => rw [e'] at a; exact a.elim
    | ok q =>
      rw [e'] at a
      obtain ⟨y, d'⟩ := q
      obtain ⟨hy, hs⟩ := a
      subst hy
      exact ⟨d', rfl, by rw [← hs.2.1, h.2]; simp⟩

/-- **signed exp-Golomb**, likewise. -/
theorem sint_roundtrip (v : Int) (pre suf : List Bool) (bl : Int) :
    ∃ bits : List Bool,
      Writer.writeSint { out := pre } v = .ok { out := pre ++ bits } ∧
      (bits.length : Int) = signed_exp_golomb_length v ∧
      (∃ r', (readerAt pre bits suf).readSint = .ok (v, r') ∧ r'.pos = pre.length + bits.length) ∧
      (∃ d', (dreaderAt pre bits suf bl).readSintG false = .ok (v, d') ∧ d'.pos = pre.length + bits.length) := by
  refine ⟨encodeSint v, ?_, ?_, ?_, ?_⟩
  · unfold Writer.writeSint Writer.writeUint
    have h1 : ¬ (pyabs v < 0) := by rw [pyabs_eq]; omega
    have h2 : (pyabs v).toNat = v.natAbs := by rw [pyabs_eq]; omega
    simp only [h1, if_false, h2, bind, Except.bind]
    rw [writeBits_free _ _ rfl]
    unfold encodeSint
    by_cases h0 : v = 0
    · simp [h0, pure, Except.pure]
    · simp only [ne_eq, h0, not_false_eq_true, if_true, if_false]
      unfold Writer.writeBit; simp [List.append_assoc]
  · rw [signed_exp_golomb_length_eq]
  · obtain ⟨r', e, h, _⟩ := readSint_free v (readerAt pre (encodeSint v) suf) pre suf ⟨rfl, rfl⟩ rfl
    exact ⟨r', e, by rw [h.2]; simp⟩
  · obtain ⟨r', e, h, hr⟩ := readSint_free v (readerAt pre (encodeSint v) suf) pre suf ⟨rfl, rfl⟩ rfl
    have a := sim0_readSint (readerAt pre (encodeSint v) suf) (dreaderAt pre (encodeSint v) suf bl) ⟨rfl, rfl, rfl⟩
    rw [e] at a
    cases e' : (dreaderAt pre (encodeSint v) suf bl).readSintG false with
    | error x => rw [e'] at a; exact a.elim
    | ok q =>
      rw [e'] at a
      obtain ⟨y, d'⟩ := q
      obtain ⟨hy, hs⟩ := a
      subst hy
      exact ⟨d', rfl, by rw [← hs.2.1, h.2]; simp⟩

theorem lt_pow_of_bitLength (v : Nat) (k : Nat) (h : bitLength (v : Int) ≤ k) : v < 2 ^ k := by
  unfold bitLength at h
  by_cases h0 : (v : Int) = 0
  · have : v = 0 := by omega
    subst this; exact Nat.two_pow_pos k
  · simp only [h0, if_false] at h
    have e : ((v : Int)).natAbs = v := by omega
    rw [e] at h
    have h2 : v < 2 ^ (Nat.log2 v + 1) := Nat.lt_log2_self
    have : Nat.log2 v + 1 ≤ k := by omega
    exact Nat.lt_of_lt_of_le h2 (Nat.pow_le_pow_right (by decide) this)

/-- **fixed-width integers** (`write_nbits`/`read_nbits`, hence `*_uint_lit` with `8·n`):
    an in-range value is read back by both readers, `k` bits further on. -/
theorem nbits_roundtrip (k : Nat) (v : Int) (hv : 0 ≤ v) (hfit : bitLength v ≤ k)
    (pre suf : List Bool) (bl : Int) :
    ∃ bits : List Bool, bits.length = k ∧
      Writer.writeNbits { out := pre } k v = .ok { out := pre ++ bits } ∧
      (∃ r', (readerAt pre bits suf).readNbits k = .ok (v.toNat, r') ∧ r'.pos = pre.length + k) ∧
      (∃ d', (dreaderAt pre bits suf bl).readNbits k = .ok (v.toNat, d') ∧ d'.pos = pre.length + k) := by
  obtain ⟨n, rfl⟩ : ∃ n : Nat, v = n := ⟨v.toNat, by omega⟩
  have hlen : ∀ j, (nbitsOf n j).length = j := by
    intro j; induction j with
    | zero => rfl
    | succ i ih => simp [nbitsOf, ih]
  have hlt := lt_pow_of_bitLength n k hfit
  refine ⟨nbitsOf n k, hlen k, ?_, ?_, ?_⟩
  · unfold Writer.writeNbits
    have : ¬ ((n : Int) < 0 ∨ bitLength (n : Int) > (k : Int)) := by omega
    simp only [this, if_false, Int.toNat_natCast]
    rw [writeBits_free _ _ rfl]
  · obtain ⟨r', e, h, _⟩ := readNbitsLoop_free n k (readerAt pre (nbitsOf n k) suf) pre suf 0 ⟨rfl, rfl⟩ rfl
    refine ⟨r', ?_, by rw [h.2]; simp [hlen]⟩
    unfold Reader.readNbits; simp only [Int.toNat_natCast]
    rw [e, Nat.mod_eq_of_lt hlt]; simp
  · obtain ⟨r', e, h, _⟩ := readNbitsLoop_free n k (readerAt pre (nbitsOf n k) suf) pre suf 0 ⟨rfl, rfl⟩ rfl
    have a := sim0_readNbitsLoop k (readerAt pre (nbitsOf n k) suf) (dreaderAt pre (nbitsOf n k) suf bl) 0 ⟨rfl, rfl, rfl⟩
    rw [e] at a
    unfold DReader.readNbits; simp only [Int.toNat_natCast]
    cases e' : DReader.readNbitsLoop k (dreaderAt pre (nbitsOf n k) suf bl) 0 with
    | error x => rw [e'] at a; exact a.elim
    | ok q =>
      rw [e'] at a
      obtain ⟨y, d'⟩ := q
      obtain ⟨hy, hs⟩ := a
      refine ⟨d', ?_, by rw [← hs.2.1, h.2]; simp [hlen]⟩
      rw [← hy, Nat.mod_eq_of_lt hlt]; simp

/-- **bit arrays / byte strings** (`write_bitarray`/`read_bitarray`; bytes are `8·n` bits):
    a value of the requested length is read back bit for bit; a shorter one comes back
    right-padded with zeros (the documented behaviour). -/
theorem bitarray_roundtrip (k : Nat) (value : List Bool) (hlen : value.length ≤ k)
    (pre suf : List Bool) :
    let bits := value ++ List.replicate (k - value.length) false
    Writer.writeBitarray { out := pre } k value = .ok { out := pre ++ bits } ∧
    ∃ r', Reader.readBits k (readerAt pre bits suf) = .ok (bits, r') ∧ r'.pos = pre.length + k := by
  intro bits
  have hl : bits.length = k := by simp [bits]; omega
  constructor
  · unfold Writer.writeBitarray
    have : ¬ ((value.length : Int) > (k : Int)) := by omega
    simp only [this, if_false, Int.toNat_natCast]
    rw [writeBits_free _ _ rfl]
  · obtain ⟨r', e, h, _⟩ := readBits_free bits (readerAt pre bits suf) pre suf ⟨rfl, rfl⟩ rfl
    rw [hl] at e
    exact ⟨r', e, by rw [h.2]; simp [hl]⟩

/-- **out-of-range values are rejected before anything is written**: the model's writer
    returns the error alone (the correspondence compares the real file contents after it). -/
theorem out_of_range_rejected (w : Writer) :
    (∀ v : Int, v < 0 → w.writeUint v = .error .outOfRange) ∧
    (∀ (k v : Int), v < 0 ∨ bitLength v > k → w.writeNbits k v = .error .outOfRange) ∧
    (∀ (k : Int) (bs : List Bool), (bs.length : Int) > k → w.writeBitarray k bs = .error .outOfRange) := by
  refine ⟨?_, ?_, ?_⟩
  · intro v hv; unfold Writer.writeUint; simp [hv]
  · intro k v h; unfold Writer.writeNbits; simp [h]
  · intro k bs h; unfold Writer.writeBitarray; simp [h]

/-- **bounded blocks, reader**: past the end every read is a 1 and the position does not move. -/
theorem read_past_block_end (r : Reader) (n : Int) (h : r.rem = some n) (hn : n ≤ 0) :
    r.readBit = .ok (true, { r with rem := some (n - 1) }) := by
  unfold Reader.readBit; rw [h]; simp only
  have : n - 1 ≤ -1 := by omega
  rw [if_pos this]

/-- **bounded blocks, writer**: past the end a 1 is accepted and dropped, a 0 is rejected. -/
theorem write_past_block_end (w : Writer) (n : Int) (h : w.rem = some n) (hn : n ≤ 0) :
    w.writeBit true = .ok { w with rem := some (n - 1) } ∧
    w.writeBit false = .error .zeroPastEnd := by
  have : n - 1 ≤ -1 := by omega
  unfold Writer.writeBit; rw [h]; simp [this]

/-- inside the block both behave as outside it -/
theorem read_inside_block (r : Reader) (n : Int) (h : r.rem = some n) (hn : 0 < n) :
    r.readBit = ({ r with rem := some (n - 1) } : Reader).rawBit := by
  unfold Reader.readBit; rw [h]; simp only
  have : ¬ (n - 1 ≤ -1) := by omega
  rw [if_neg this]

/-- **the two readers agree on every bit string** inside a bounded block of any length `n ≥ 0`
    (the validator's `bits_left = n`): same values, same positions, same end-of-stream failures,
    for `read_bit(b)`, `read_uint(b)`, `read_sint(b)` — and this is preserved along any sequence
    of such reads (`Sim` relates the successor states again). -/
theorem readers_agree (all : List Bool) (pos : Nat) (n : Int) (hn : 0 ≤ n) :
    let r : Reader := { all := all, pos := pos, rem := some n }
    let d : DReader := { all := all, pos := pos, bitsLeft := n }
    Sim r d ∧ Agree r.readBit d.readBitb ∧ Agree r.readUint (d.readUintG true) ∧
      Agree r.readSint (d.readSintG true) := by
  intro r d
  have hs : Sim r d := ⟨rfl, rfl, n, rfl, by simp [d]; omega⟩
  exact ⟨hs, sim_readBit r d hs, sim_readUint r d hs, sim_readSint r d hs⟩

/-- agreement is an invariant: from any related pair of states, each primitive again agrees -/
theorem readers_agree_step (r : Reader) (d : DReader) (h : Sim r d) :
    Agree r.readBit d.readBitb ∧ Agree r.readUint (d.readUintG true) ∧
    Agree r.readSint (d.readSintG true) :=
  ⟨sim_readBit r d h, sim_readUint r d h, sim_readSint r d h⟩

/-- the validator never drives `bits_left` negative (so its `== 0` test is adequate); a
    *negative* block length is treated as exhausted by the bitstream reader only. -/
theorem bits_left_stays_nonneg (d d' : DReader) (b : Bool) (h0 : 0 ≤ d.bitsLeft)
    (h : d.readBitb = .ok (b, d')) : 0 ≤ d'.bitsLeft :=
  (readBitb_nonneg d d' b h0 h).1

/-- the model's iteration budget for the exp-Golomb loop is never the reason for a failure -/
theorem read_uint_total (r : Reader) : r.readUint ≠ .error .fuel := readUint_no_fuel_error r

/-- **tell/seek arithmetic** (generated from `to_bit_offset`/`from_bit_offset`): inverse maps -/
theorem bit_offset_inverse (bytes bits t : Int) (hb : 0 ≤ bits ∧ bits ≤ 7) :
    from_bit_offset (to_bit_offset bytes bits) = (bytes, bits) ∧
    to_bit_offset (from_bit_offset t).1 (from_bit_offset t).2 = t := by
  unfold from_bit_offset to_bit_offset
  simp only [pydiv_pos _ 8 (by decide), pymod_pos _ 8 (by decide)]
  constructor
  · ext <;> simp <;> omega
  · omega

/-- **seek inside a bounded block keeps the block's end where it was**:
    position + bits_remaining is unchanged (for a block that is not yet exhausted). -/
theorem seek_preserves_block_end (r r' : Reader) (n : Int) (bytes bits : Nat)
    (h : r.rem = some n) (hn : 0 < n) (hs : r.seek bytes bits = .ok r') :
    ∃ n', r'.rem = some n' ∧ (r'.pos : Int) + n' = r.pos + n ∧
      r'.pos = bytes * 8 + (7 - bits) := by
  unfold Reader.seek at hs
  rw [h] at hs; simp only at hs
  split at hs
  · cases hs
  · split at hs
    · omega
    · split at hs
      · omega
      · injection hs with hs; subst hs
        refine ⟨_, rfl, ?_, by simp; omega⟩
        simp; omega

/-- non-vacuity: concrete encodings -/
example : encodeUint 5 = [false, true, false, false, true] ∧ exp_golomb_length 5 = 5 := by decide
example : encodeSint (-3) = [false, false, false, false, true, true] ∧
    signed_exp_golomb_length (-3) = 6 := by decide
example : (({ all := [true, false, true, true], pos := 1, rem := some 2 } : Reader).readSint).toOption.map (·.1)
    = some (-2) := by decide

/-! ### the writer with seeks (`Model/BitIOSeek.lean`, tied by the `ws` correspondence) -/
section Seek
open VC2.Model.BitIOSeek

/-- after a successful `seek(bytes, bits)` the writer reports exactly that position -/
theorem writer_tell_after_seek (w w' : WS) (bytes bits : Nat) (h : w.seek bytes bits = .ok w') :
    w'.tell = (bytes, bits) := by
  unfold WS.seek at h
  simp only [bind, Except.bind] at h
  cases hb : blockSeek w.rem (bitOffset bytes bits - bitOffset w.off w.next) with
  | error e => rw [hb] at h; cases h
  | ok r => rw [hb] at h; simp only [pure, Except.pure] at h; cases h; rfl

/-- the bounded-block accounting of a seek is the same function in the writer and in the reader:
    the reader's `seek` leaves `blockSeek` of its counter and of the distance moved -/
theorem seek_accounting_shared (r r' : Reader) (bytes bits : Nat) (h : r.seek bytes bits = .ok r') :
    blockSeek r.rem (((bytes * 8 + (7 - bits) : Nat) : Int) - r.pos) = .ok r'.rem := by
  unfold Reader.seek at h
  simp only at h
  generalize ((bytes * 8 + (7 - bits) : Nat) : Int) - (r.pos : Int) = δ at h ⊢
  unfold blockSeek
  cases hr : r.rem with
  | none => rw [hr] at h; simp only at h; cases h; simp [hr]
  | some n =>
    rw [hr] at h; simp only at h ⊢
    by_cases h1 : δ > 0 ∧ n - δ < 0
    · rw [if_pos h1] at h; cases h
    · rw [if_neg h1] at h ⊢
      by_cases h2 : n ≤ 0 ∧ δ = 0
      · rw [if_pos h2] at h ⊢; cases h; simp [hr]
      · rw [if_neg h2] at h ⊢
        by_cases h3 : n < 0 ∧ δ < 0
        · rw [if_pos h3] at h ⊢; cases h; rfl
        · rw [if_neg h3] at h ⊢; cases h; rfl

/-- inside a block with room left, seeking backwards gives the room back: the counter grows by the
    distance (so bits may again be written where the block has not ended) -/
theorem seek_back_inside_block (n delta : Int) (hn : 0 < n) (hd : delta < 0) :
    blockSeek (some n) delta = .ok (some (n - delta)) := by
  unfold blockSeek
  have h1 : ¬ (delta > 0 ∧ n - delta < 0) := by omega
  have h2 : ¬ (n ≤ 0 ∧ delta = 0) := by omega
  have h3 : ¬ (n < 0 ∧ delta < 0) := by omega
  simp [h1, h2, h3]

example : (({} : WS).writeNbits 8 165 >>= fun w => w.writeUint 1 >>= fun w => w.seek 1 7 >>= fun w => w.writeUint 2).toOption.map
    (fun w => (w.flush.file, w.tell)) = some ([165, 96], (1, 4)) := by decide

end Seek

/-! ## byte strings -/

theorem nbitsOf_length (n : Nat) : ∀ j, (nbitsOf n j).length = j := by
  intro j; induction j with
  | zero => rfl
  | succ i ih => simp [nbitsOf, ih]

theorem bitLength_byte (b : Nat) (h : b < 256) : bitLength (b : Int) ≤ 8 := by
  unfold bitLength
  split
  · omega
  · rename_i hb
    have hb' : b ≠ 0 := by intro e; apply hb; simp [e]
    have : Nat.log2 b < 8 := (Nat.log2_lt hb').2 (by simpa using h)
    simp only [Int.natAbs_natCast]
    omega

theorem write_byte_free (o : List Bool) (b : Nat) (h : b < 256) :
    Writer.writeNbits { out := o } 8 (b : Int) = .ok { out := o ++ nbitsOf b 8 } := by
  unfold Writer.writeNbits
  have hb := bitLength_byte b h
  have : ¬ ((b : Int) < 0 ∨ bitLength (b : Int) > (8 : Int)) := by omega
  simp only [this, if_false, Int.toNat_natCast]
  rw [writeBits_free _ _ rfl]
  rfl

theorem write_bytes_fold : ∀ (bs : List Nat) (o : List Bool), (∀ b ∈ bs, b < 256) →
    bs.foldlM (fun (w : Writer) (b : Nat) => w.writeNbits 8 (b : Int)) ({ out := o } : Writer) =
      .ok { out := o ++ bs.flatMap (fun b => nbitsOf b 8) }
  | [], o, _ => by simp [List.foldlM]; rfl
  | b :: bs, o, h => by
    rw [List.foldlM_cons, write_byte_free o b (h b List.mem_cons_self)]
    simp only [bind, Except.bind]
    rw [write_bytes_fold bs _ (fun x hx => h x (List.mem_cons_of_mem _ hx))]
    simp [List.flatMap_cons, List.append_assoc]

/-- **write_bytes**: a byte string no longer than `n` is written byte by byte, most significant bit first, and
    zero-padded on the right to exactly `n` bytes; a longer one is refused -/
theorem bytes_written (n : Nat) (bs : List Nat) (hb : ∀ b ∈ bs, b < 256) (pre : List Bool) :
    (bs.length ≤ n →
      ∃ bits, bits.length = 8 * n ∧ bits = (bs ++ List.replicate (n - bs.length) 0).flatMap (fun b => nbitsOf b 8) ∧
        Writer.writeBytes { out := pre } n bs = .ok { out := pre ++ bits }) ∧
    (n < bs.length → Writer.writeBytes { out := pre } n bs = .error .outOfRange) := by
  constructor
  · intro hl
    refine ⟨_, ?_, rfl, ?_⟩
    · have : ∀ (l : List Nat), (l.flatMap (fun b => nbitsOf b 8)).length = 8 * l.length := by
        intro l; induction l with
        | nil => rfl
        | cons a l ih => simp [List.flatMap_cons, nbitsOf_length, ih]; omega
      rw [this]; simp; omega
    · unfold Writer.writeBytes
      rw [if_neg (by omega)]
      apply write_bytes_fold
      intro b hbm
      rcases List.mem_append.1 hbm with h | h
      · exact hb b h
      · have := List.eq_of_mem_replicate h; omega
  · intro hl
    unfold Writer.writeBytes
    rw [if_pos hl]


end VC2.Props.C20
