/-
  C13 — Slices tile every subband and low-delay slice sizes sum exactly.
  Statements are about the definitions GENERATED from
  vc2_conformance/pseudocode/slice_sizes.py (VC2.Gen.Kernels); all sizes, depths and
  slice counts are unbounded.
-/
import VC2.Proofs.Slices
set_option linter.unusedVariables false
namespace VC2.Props.C13
open VC2 VC2.Gen VC2.Proofs.Slices

/-- Domain of the geometry functions: non-negative depths, at least one slice each way,
    a component name the code knows, a level that exists. -/
structure Dom (st : St) (c : String) (level : Int) : Prop where
  g : GeomOk st
  comp : CompOk c
  l0 : 0 ≤ level
  l1 : level ≤ depthW st
  w : 0 ≤ compW st c
  h : 0 ≤ compH st c

/-- On the domain none of the geometry functions raises, falls through or divides by 0. -/
theorem geometry_defined (st : St) (c : String) (level k : Int) (d : Dom st c level) :
    subband_width_ok st level c = true ∧ subband_height_ok st level c = true ∧
    slice_left_ok st k c level = true ∧ slice_right_ok st k c level = true ∧
    slice_top_ok st k c level = true ∧ slice_bottom_ok st k c level = true := by
  have ⟨hw, hh⟩ := subband_ok st level c d.comp d.g d.l0 d.l1
  have hx := d.g.sx; have hy := d.g.sy
  have nx : st.slices_x ≠ 0 := by omega
  have ny : st.slices_y ≠ 0 := by omega
  unfold slice_left_ok slice_right_ok slice_top_ok slice_bottom_ok
  simp [hw, hh, nx, ny]

theorem slice_left_eq (st : St) (k : Int) (c : String) (level : Int) (g : GeomOk st) :
    slice_left st k c level = bound (subband_width st level c) st.slices_x k := by
  unfold slice_left bound; exact pydiv_pos _ _ (by have := g.sx; omega)
theorem slice_right_eq (st : St) (k : Int) (c : String) (level : Int) (g : GeomOk st) :
    slice_right st k c level = bound (subband_width st level c) st.slices_x (k + 1) := by
  unfold slice_right bound; exact pydiv_pos _ _ (by have := g.sx; omega)
theorem slice_top_eq (st : St) (k : Int) (c : String) (level : Int) (g : GeomOk st) :
    slice_top st k c level = bound (subband_height st level c) st.slices_y k := by
  unfold slice_top bound; exact pydiv_pos _ _ (by have := g.sy; omega)
theorem slice_bottom_eq (st : St) (k : Int) (c : String) (level : Int) (g : GeomOk st) :
    slice_bottom st k c level = bound (subband_height st level c) st.slices_y (k + 1) := by
  unfold slice_bottom bound; exact pydiv_pos _ _ (by have := g.sy; omega)

theorem padded_nonneg (w D : Int) (hw : 0 ≤ w) : 0 ≤ padded w D := by
  unfold padded
  have hp := shl_one_pos D
  exact Int.mul_nonneg (by omega) (Int.ediv_nonneg (by omega) (by omega))

theorem subband_width_nonneg (st : St) (c : String) (level : Int) (d : Dom st c level) :
    0 ≤ subband_width st level c := by
  rw [subband_width_eq st level c d.comp]
  exact Int.ediv_nonneg (padded_nonneg _ _ d.w) (by have := shl_one_pos (wexp st level); omega)

theorem subband_height_nonneg (st : St) (c : String) (level : Int) (d : Dom st c level) :
    0 ≤ subband_height st level c := by
  rw [subband_height_eq st level c d.comp]
  exact Int.ediv_nonneg (padded_nonneg _ _ d.h) (by have := shl_one_pos (hexp st level); omega)

/-- Horizontal tiling: the first slice starts at 0, each slice ends where the next begins,
    the last ends at the subband width, and no slice has negative extent. -/
theorem horizontal_tiling (st : St) (c : String) (level : Int) (d : Dom st c level) :
    slice_left st 0 c level = 0 ∧
    (∀ k, slice_right st k c level = slice_left st (k + 1) c level) ∧
    slice_right st (st.slices_x - 1) c level = subband_width st level c ∧
    (∀ k, 0 ≤ k → 0 ≤ slice_left st k c level ∧ slice_left st k c level ≤ slice_right st k c level) := by
  have hx := d.g.sx
  have hW := subband_width_nonneg st c level d
  refine ⟨?_, ?_, ?_, ?_⟩
  · rw [slice_left_eq _ _ _ _ d.g, bound_zero]
  · intro k; rw [slice_right_eq _ _ _ _ d.g, slice_left_eq _ _ _ _ d.g]
  · rw [slice_right_eq _ _ _ _ d.g]
    have : st.slices_x - 1 + 1 = st.slices_x := by omega
    rw [this, bound_full _ _ (by omega)]
  · intro k hk
    rw [slice_right_eq _ _ _ _ d.g, slice_left_eq _ _ _ _ d.g]
    exact ⟨bound_nonneg _ _ _ hW (by omega) hk, bound_mono _ _ _ _ hW (by omega) (by omega)⟩

/-- Vertical tiling, likewise. -/
theorem vertical_tiling (st : St) (c : String) (level : Int) (d : Dom st c level) :
    slice_top st 0 c level = 0 ∧
    (∀ k, slice_bottom st k c level = slice_top st (k + 1) c level) ∧
    slice_bottom st (st.slices_y - 1) c level = subband_height st level c ∧
    (∀ k, 0 ≤ k → 0 ≤ slice_top st k c level ∧ slice_top st k c level ≤ slice_bottom st k c level) := by
  have hy := d.g.sy
  have hH := subband_height_nonneg st c level d
  refine ⟨?_, ?_, ?_, ?_⟩
  · rw [slice_top_eq _ _ _ _ d.g, bound_zero]
  · intro k; rw [slice_bottom_eq _ _ _ _ d.g, slice_top_eq _ _ _ _ d.g]
  · rw [slice_bottom_eq _ _ _ _ d.g]
    have : st.slices_y - 1 + 1 = st.slices_y := by omega
    rw [this, bound_full _ _ (by omega)]
  · intro k hk
    rw [slice_bottom_eq _ _ _ _ d.g, slice_top_eq _ _ _ _ d.g]
    exact ⟨bound_nonneg _ _ _ hH (by omega) hk, bound_mono _ _ _ _ hH (by omega) (by omega)⟩

/-- Every column of the subband lies in exactly one slice (disjoint, in-order cover). -/
theorem horizontal_partition (st : St) (c : String) (level x : Int) (d : Dom st c level)
    (hx0 : 0 ≤ x) (hx1 : x < subband_width st level c) :
    (∃ k, 0 ≤ k ∧ k < st.slices_x ∧ slice_left st k c level ≤ x ∧ x < slice_right st k c level) ∧
    (∀ k k', slice_left st k c level ≤ x → x < slice_right st k c level →
             slice_left st k' c level ≤ x → x < slice_right st k' c level → k = k') := by
  have hn : 0 < st.slices_x := by have := d.g.sx; omega
  have hW := subband_width_nonneg st c level d
  constructor
  · obtain ⟨k, a, b, e, f⟩ := exists_slice _ _ x hn hx0 hx1
    exact ⟨k, a, b, by rw [slice_left_eq _ _ _ _ d.g]; exact e, by rw [slice_right_eq _ _ _ _ d.g]; exact f⟩
  · intro k k' a b a' b'
    rw [slice_left_eq _ _ _ _ d.g] at a a'
    rw [slice_right_eq _ _ _ _ d.g] at b b'
    exact unique_slice _ _ x k k' hW hn a b a' b'

/-- Every row of the subband lies in exactly one slice. -/
theorem vertical_partition (st : St) (c : String) (level y : Int) (d : Dom st c level)
    (hy0 : 0 ≤ y) (hy1 : y < subband_height st level c) :
    (∃ k, 0 ≤ k ∧ k < st.slices_y ∧ slice_top st k c level ≤ y ∧ y < slice_bottom st k c level) ∧
    (∀ k k', slice_top st k c level ≤ y → y < slice_bottom st k c level →
             slice_top st k' c level ≤ y → y < slice_bottom st k' c level → k = k') := by
  have hn : 0 < st.slices_y := by have := d.g.sy; omega
  have hH := subband_height_nonneg st c level d
  constructor
  · obtain ⟨k, a, b, e, f⟩ := exists_slice _ _ y hn hy0 hy1
    exact ⟨k, a, b, by rw [slice_top_eq _ _ _ _ d.g]; exact e, by rw [slice_bottom_eq _ _ _ _ d.g]; exact f⟩
  · intro k k' a b a' b'
    rw [slice_top_eq _ _ _ _ d.g] at a a'
    rw [slice_bottom_eq _ _ _ _ d.g] at b b'
    exact unique_slice _ _ y k k' hH hn a b a' b'

/-- The padded size is the least multiple of the transform scale that is ≥ the size. -/
theorem padded_least_multiple (w D : Int) :
    w ≤ padded w D ∧ padded w D < w + shl 1 D ∧ padded w D % shl 1 D = 0 := by
  unfold padded
  have hp := shl_one_pos D
  generalize shl 1 D = S at *
  have h1 := Int.ediv_mul_le (w + S - 1) (by omega : S ≠ 0)
  have h2 := Int.lt_ediv_add_one_mul_self (w + S - 1) hp
  have e : S * ((w + S - 1) / S) = (w + S - 1) / S * S := Int.mul_comm _ _
  rw [e]
  refine ⟨?_, by omega, Int.mul_emod_left _ _⟩
  rw [Int.add_mul] at h2; omega

theorem padded_div_mul (w D j : Int) (hj0 : 0 ≤ j) (hjD : j ≤ D) :
    padded w D / shl 1 j * shl 1 j = padded w D ∧
    padded w D / shl 1 j = shl 1 (D - j) * ((w + shl 1 D - 1) / shl 1 D) := by
  unfold padded
  have e : shl 1 D = shl 1 j * shl 1 (D - j) := by
    have := shl_one_add j (D - j) hj0 (by omega)
    have e2 : j + (D - j) = D := by omega
    rw [e2] at this; exact this
  have hp := shl_one_pos j
  generalize (w + shl 1 D - 1) / shl 1 D = m
  rw [e]
  generalize shl 1 j = s at *
  generalize shl 1 (D - j) = t at *
  have : s * t * m / s = t * m := by
    rw [Int.mul_assoc]; exact Int.mul_ediv_cancel_left _ (by omega)
  rw [this]
  refine ⟨?_, rfl⟩
  rw [Int.mul_comm (t * m) s, Int.mul_assoc]

theorem wexp_range (st : St) (level : Int) (g : GeomOk st) (l0 : 0 ≤ level) (l1 : level ≤ depthW st) :
    0 ≤ wexp st level ∧ wexp st level ≤ depthW st := by
  have := g.d; have := g.dho
  unfold wexp depthW at *; split <;> omega

theorem hexp_range (st : St) (level : Int) (g : GeomOk st) (l0 : 0 ≤ level) (l1 : level ≤ depthW st) :
    0 ≤ hexp st level ∧ hexp st level ≤ st.dwt_depth := by
  have := g.d; have := g.dho
  unfold hexp depthW at *; split
  · omega
  · split <;> omega

/-- Subband dimensions match the padded picture for the transform:
    width × (its decimation factor) is exactly the padded component width, and likewise
    vertically (where horizontal-only levels do not decimate). -/
theorem subband_matches_padded (st : St) (c : String) (level : Int) (d : Dom st c level) :
    subband_width st level c * shl 1 (wexp st level) = padded (compW st c) (depthW st) ∧
    subband_height st level c * shl 1 (hexp st level) = padded (compH st c) st.dwt_depth := by
  have ⟨a, b⟩ := wexp_range st level d.g d.l0 d.l1
  have ⟨a', b'⟩ := hexp_range st level d.g d.l0 d.l1
  rw [subband_width_eq st level c d.comp, subband_height_eq st level c d.comp]
  exact ⟨(padded_div_mul _ _ _ a b).1, (padded_div_mul _ _ _ a' b').1⟩

/-- each subband width is the DC-band width times a power of two -/
theorem subband_width_scales (st : St) (c : String) (level : Int) (d : Dom st c level) :
    subband_width st level c = shl 1 (depthW st - wexp st level) * subband_width st 0 c ∧
    subband_height st level c = shl 1 (st.dwt_depth - hexp st level) * subband_height st 0 c := by
  have ⟨a, b⟩ := wexp_range st level d.g d.l0 d.l1
  have ⟨a', b'⟩ := hexp_range st level d.g d.l0 d.l1
  have hd := d.g.d; have hdho := d.g.dho
  have hD : 0 ≤ depthW st := by unfold depthW; omega
  rw [subband_width_eq st level c d.comp, subband_height_eq st level c d.comp,
      subband_width_eq st 0 c d.comp, subband_height_eq st 0 c d.comp]
  rw [(padded_div_mul _ _ _ a b).2, (padded_div_mul _ _ _ a' b').2]
  have w0 : wexp st 0 = depthW st := by simp [wexp]
  have h0 : hexp st 0 = st.dwt_depth := by simp [hexp]
  rw [w0, h0, (padded_div_mul _ _ _ hD (Int.le_refl _)).2, (padded_div_mul _ _ _ hd (Int.le_refl _)).2]
  have z : shl 1 (depthW st - depthW st) = 1 := by simp [shl]
  have z' : shl 1 (st.dwt_depth - st.dwt_depth) = 1 := by simp [shl]
  rw [z, z']; simp

/-- "All slices have the same dimensions", spelt out: for every component, every level
    and every slice index the slice extents equal those of slice 0, both ways. -/
def AllSlicesSameDimensions (st : St) : Prop :=
  ∀ c level, Dom st c level →
    (∀ k, 0 ≤ k → k < st.slices_x →
      slice_right st k c level - slice_left st k c level
        = slice_right st 0 c level - slice_left st 0 c level) ∧
    (∀ k, 0 ≤ k → k < st.slices_y →
      slice_bottom st k c level - slice_top st k c level
        = slice_bottom st 0 c level - slice_top st 0 c level)

theorem mod_of_scaled (t W n : Int) (h : W % n = 0) : (t * W) % n = 0 := by
  have : W = n * (W / n) := by have := Int.mul_ediv_add_emod W n; omega
  rw [this, ← Int.mul_assoc, Int.mul_comm t n, Int.mul_assoc]; exact Int.mul_emod_right _ _

/-- The reported flag is true exactly when all slices do have the same dimensions. -/
theorem same_dimensions_flag_iff (st : St) (g : GeomOk st)
    (hw : 0 ≤ st.luma_width) (hh : 0 ≤ st.luma_height)
    (hcw : 0 ≤ st.color_diff_width) (hch : 0 ≤ st.color_diff_height) :
    slices_have_same_dimensions st = true ↔ AllSlicesSameDimensions st := by
  have hx : 0 < st.slices_x := by have := g.sx; omega
  have hy : 0 < st.slices_y := by have := g.sy; omega
  have hd := g.d; have hdho := g.dho
  have hD : 0 ≤ depthW st := by unfold depthW; omega
  unfold slices_have_same_dimensions
  simp only [pymod_pos _ _ hx, pymod_pos _ _ hy, decide_eq_true_eq]
  constructor
  · rintro ⟨f1, f2, f3, f4⟩ c level d
    have ⟨sw, sh⟩ := subband_width_scales st c level d
    have cw : subband_width st 0 c % st.slices_x = 0 ∧ subband_height st 0 c % st.slices_y = 0 := by
      rcases d.comp with h | h | h
      · subst h; exact ⟨f1, f2⟩
      · subst h; exact ⟨f3, f4⟩
      · subst h
        have e1 : subband_width st 0 "C2" = subband_width st 0 "C1" := by
          rw [subband_width_eq _ _ _ (Or.inr (Or.inr rfl)), subband_width_eq _ _ _ (Or.inr (Or.inl rfl))]
          simp [compW]
        have e2 : subband_height st 0 "C2" = subband_height st 0 "C1" := by
          rw [subband_height_eq _ _ _ (Or.inr (Or.inr rfl)), subband_height_eq _ _ _ (Or.inr (Or.inl rfl))]
          simp [compH]
        rw [e1, e2]; exact ⟨f3, f4⟩
    have mw : subband_width st level c % st.slices_x = 0 := by rw [sw]; exact mod_of_scaled _ _ _ cw.1
    have mh : subband_height st level c % st.slices_y = 0 := by rw [sh]; exact mod_of_scaled _ _ _ cw.2
    constructor
    · intro k _ _
      rw [slice_right_eq _ _ _ _ g, slice_left_eq _ _ _ _ g, slice_right_eq _ _ _ _ g, slice_left_eq _ _ _ _ g]
      rw [equal_extents_of_dvd _ _ k hx mw, equal_extents_of_dvd _ _ 0 hx mw]
    · intro k _ _
      rw [slice_bottom_eq _ _ _ _ g, slice_top_eq _ _ _ _ g, slice_bottom_eq _ _ _ _ g, slice_top_eq _ _ _ _ g]
      rw [equal_extents_of_dvd _ _ k hy mh, equal_extents_of_dvd _ _ 0 hy mh]
  · intro hall
    have dY : Dom st "Y" 0 := ⟨g, Or.inl rfl, by omega, hD, by simpa [compW] using hw, by simpa [compH] using hh⟩
    have dC : Dom st "C1" 0 := ⟨g, Or.inr (Or.inl rfl), by omega, hD, by simpa [compW] using hcw, by simpa [compH] using hch⟩
    have key : ∀ c, Dom st c 0 →
        subband_width st 0 c % st.slices_x = 0 ∧ subband_height st 0 c % st.slices_y = 0 := by
      intro c d
      have ⟨a, b⟩ := hall c 0 d
      constructor
      · apply dvd_of_equal_extents _ _ hx
        intro k k0 k1
        have := a k k0 k1
        rw [slice_right_eq _ _ _ _ g, slice_left_eq _ _ _ _ g, slice_right_eq _ _ _ _ g, slice_left_eq _ _ _ _ g] at this
        simpa using this
      · apply dvd_of_equal_extents _ _ hy
        intro k k0 k1
        have := b k k0 k1
        rw [slice_bottom_eq _ _ _ _ g, slice_top_eq _ _ _ _ g, slice_bottom_eq _ _ _ _ g, slice_top_eq _ _ _ _ g] at this
        simpa using this
    exact ⟨(key _ dY).1, (key _ dY).2, (key _ dC).1, (key _ dC).2⟩

/-- Low-delay slice sizes are non-negative … -/
theorem slice_bytes_nonneg (st : St) (sx sy : Int) (hden : 0 < st.slice_bytes_denominator)
    (hnum : 0 ≤ st.slice_bytes_numerator) :
    slice_bytes_ok st sx sy = true ∧ 0 ≤ slice_bytes st sx sy := by
  constructor
  · unfold slice_bytes_ok
    have : st.slice_bytes_denominator ≠ 0 := by omega
    simp [this]
  · unfold slice_bytes
    simp only [pydiv_pos _ _ hden]
    have : (sy * st.slices_x + sx) * st.slice_bytes_numerator ≤ (sy * st.slices_x + sx + 1) * st.slice_bytes_numerator := by
      rw [Int.add_mul _ 1]; omega
    have := Int.ediv_le_ediv hden this
    omega

/-- … and sum over the picture (slice number N = sy·slices_x + sx, N < n) to
    ⌊n · numerator / denominator⌋. -/
theorem slice_bytes_sum (st : St) (n : Nat) (hden : 0 < st.slice_bytes_denominator)
    (hsx : 1 ≤ st.slices_x) :
    sumTo (fun N => slice_bytes st ((N : Int) % st.slices_x) ((N : Int) / st.slices_x)) n
      = ((n : Int) * st.slice_bytes_numerator) / st.slice_bytes_denominator := by
  have e : ∀ N : Nat, slice_bytes st ((N : Int) % st.slices_x) ((N : Int) / st.slices_x)
      = (((N + 1 : Nat) : Int) * st.slice_bytes_numerator) / st.slice_bytes_denominator
        - ((N : Int) * st.slice_bytes_numerator) / st.slice_bytes_denominator := by
    intro N
    unfold slice_bytes
    simp only [pydiv_pos _ _ hden]
    have : (N : Int) / st.slices_x * st.slices_x + (N : Int) % st.slices_x = N := by
      have := Int.mul_ediv_add_emod (N : Int) st.slices_x
      rw [Int.mul_comm] at this; exact this
    rw [this]
    have e2 : ((N + 1 : Nat) : Int) = (N : Int) + 1 := by omega
    rw [e2]
  have := telescope (fun k => ((k : Int) * st.slice_bytes_numerator) / st.slice_bytes_denominator) n
  simp only [e]
  rw [this]; simp

/-- non-vacuity: a concrete geometry in the domain, and concrete values -/
def exampleSt : St :=
  { luma_width := 11, luma_height := 5, color_diff_width := 6, color_diff_height := 5,
    dwt_depth := 1, dwt_depth_ho := 1, slices_x := 3, slices_y := 2,
    slice_bytes_numerator := 7, slice_bytes_denominator := 2 }
example : Dom exampleSt "C1" 2 :=
  ⟨⟨by decide, by decide, by decide, by decide⟩, Or.inr (Or.inl rfl), by decide, by decide, by decide, by decide⟩
example : subband_width exampleSt 2 "Y" = 6 ∧ slice_left exampleSt 1 "Y" 2 = 2 ∧
    slice_right exampleSt 2 "Y" 2 = 6 ∧ slices_have_same_dimensions exampleSt = false := by decide
example : sumTo (fun N => slice_bytes exampleSt ((N : Int) % 3) ((N : Int) / 3)) 6 = 21 := by decide

end VC2.Props.C13
