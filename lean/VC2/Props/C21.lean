/-
  C21 — the serialiser/deserialiser framework round-trips arbitrary description programs.
  Property theorems only.  Model: VC2/Model/Serdes.lean (+ SerdesCodec.lean for the bit layer, built
  from the C20 model), tied to bitstream/serdes.py by the `sd` correspondence; helper lemmas:
  VC2/Proofs/Serdes.lean.
-/
import VC2.Proofs.SerdesOnes
namespace VC2.Props.C21
open VC2 VC2.Model.Serdes VC2.Proofs.Serdes

/-- **serialise then deserialise** — for every description program (primitive fields, list
    targets, nested sub-descriptions, lists of sub-descriptions, bounded blocks — whether their
    contents fit or run past the end with 1-bits —, byte alignment, computed values; any nesting depth
    and length), every prefix codec whose trailing 1-bits are bounded, and every description: if serialisation succeeds (all values present, none unused), deserialising the
    produced bits with the same program — whatever follows them — yields exactly the description
    that was consumed (`used`: the same keys and values, computed values included, listed in
    program order) and stops exactly behind the bits. -/
theorem serialise_then_deserialise (C : Codec) (hS : Sound C) (hO : OnesBound C) (prog : List Stmt) (d : Dict)
    (bits : List Bool) (used : Dict) (h : serialise C prog d = some (bits, used)) (rest : List Bool) :
    deserialise C prog (bits ++ rest) = some (used, rest) := by
  unfold serialise at h
  split at h
  · rename_i b u hb
    simp at h; obtain ⟨h1, h2⟩ := h; subst h1 h2
    exact (serBody_des C hS hO prog false 0 d [] b u [] hb (by intro k _; rfl)).1 _ rest (realOf_whole false b rest)
  · cases h

/-- the same, for the real bit layer: the codec of the C20 model is a prefix code -/
theorem serialise_then_deserialise_bits (prog : List Stmt) (d : Dict) (bits : List Bool) (used : Dict)
    (h : serialise bitCodec prog d = some (bits, used)) (rest : List Bool) :
    deserialise bitCodec prog (bits ++ rest) = some (used, rest) :=
  serialise_then_deserialise bitCodec bitCodec_sound bitCodec_onesBound prog d bits used h rest

/-- **an unused value makes serialisation fail** -/
theorem unused_value_fails (C : Codec) (prog : List Stmt) (d : Dict) (b : List Bool) (used left : Dict)
    (h : serBody C false 0 prog d [] = some (b, used, left)) (hl : left ≠ []) : serialise C prog d = none := by
  unfold serialise; rw [h]
  cases left with
  | nil => exact absurd rfl hl
  | cons _ _ => rfl

/-- **a missing value makes serialisation fail** (no default-value table in the model) -/
theorem missing_value_fails (C : Codec) (blk : Bool) (pos : Nat) (t : String) (k : Prim) (d acc : Dict)
    (h : d.get? t = none) : serStmt C blk pos (.prim t k) d acc = none := by
  simp [serStmt, h]

/-- **deserialisation never overwrites a value**: a target that is already set is refused, by
    every kind of statement -/
theorem deserialiser_never_overwrites (C : Codec) (blk : Bool) (pos : Nat) (t : String) (acc : Dict) (bits : List Bool)
    (h : acc.has t = true) :
    (∀ k, desStmt C blk pos (.prim t k) acc bits = none) ∧
    (∀ ks, desStmt C blk pos (.primList t ks) acc bits = none) ∧
    (∀ body, desStmt C blk pos (.sub t body) acc bits = none) ∧
    (∀ bodies, desStmt C blk pos (.subList t bodies) acc bits = none) ∧
    (desStmt C blk pos (.align t) acc bits = none) ∧
    (∀ v, desStmt C blk pos (.computed t v) acc bits = none) := by
  refine ⟨?_, ?_, ?_, ?_, ?_, ?_⟩ <;> intros <;> cases blk <;> simp [desStmt, h]

/-- a computed value may not be set twice (ReusedTargetError in the serialiser too); a value SUPPLIED
    for a computed target is overwritten by the computed one ("any existing value in the context
    will be overwritten") and counts as used -/
theorem computed_value_semantics (C : Codec) (blk : Bool) (pos : Nat) (t : String) (v : Int) (d acc : Dict) :
    (acc.has t = true → serStmt C blk pos (.computed t v) d acc = none) ∧
    (acc.has t = false → serStmt C blk pos (.computed t v) d acc = some ([], acc ++ [(t, .leaf (.int v))], d.erase t)) := by
  constructor <;> intro h <;> simp [serStmt, h]

/-! ### non-vacuity: lists of typed sub-descriptions, a bounded block with trailing padding, byte
    alignment and a computed value, with the real bit codec -/
def prog0 : List Stmt := [
  .prim "flag" .bool,
  .subList "items" [[.prim "n" .uint, .primList "xs" [.sint, .sint]], [.prim "n" .uint, .primList "xs" []]],
  .block "pad" 14 [.prim "a" (.nbits 3), .prim "b" .uint],
  .computed "offset" 7,
  .align "al",
  .sub "tail" [.prim "bytes" (.bytes 1)]]
def ctx0 : Dict := [
  ("tail", .dict [("bytes", .leaf (.bits [true, false, true, false, false, true, false, true]))]),
  ("flag", .leaf (.bool true)),
  ("items", .list [.dict [("xs", .list [.leaf (.int (-2)), .leaf (.int 0)]), ("n", .leaf (.int 3))],
                   .dict [("n", .leaf (.int 0)), ("xs", .list [])]]),
  ("a", .leaf (.int 5)), ("b", .leaf (.int 1)), ("pad", .leaf (.bits [false, true, true, false, true, true, false, true])),
  ("al", .leaf (.bits [false, false, false, false, false, false]))]

example : ((serialise bitCodec prog0 ctx0).map (fun r => r.1.length)) = some 40 := by decide +kernel
example : ((serialise bitCodec prog0 ctx0).bind (fun r => (deserialise bitCodec prog0 (r.1 ++ [true, true])).map (fun q => (q.1.map (·.1), q.2))))
    = some (["flag", "items", "a", "b", "pad", "offset", "al", "tail"], [true, true]) := by decide +kernel
example : (serialise bitCodec prog0 (ctx0 ++ [("extra", .leaf (.int 1))])).isNone = true := by decide +kernel
example : (serialise bitCodec prog0 (ctx0.erase "a")).isNone = true := by decide +kernel

/-! a bounded block that ends INSIDE its contents: three signed values in a 5-bit block; the bits past
    the end (all 1) are not stored, and reading them back gives the same values -/
def prog1 : List Stmt := [.block "pad" 5 [.primList "c" [.sint, .sint, .sint]], .prim "after" (.nbits 2)]
def ctx1 : Dict := [("c", .list [.leaf (.int 1), .leaf (.int (-2)), .leaf (.int 0)]), ("pad", .leaf (.bits [])), ("after", .leaf (.int 2))]
example : (serialise bitCodec prog1 ctx1).map (·.1) = some [false, false, true, false, false, true, false] := by decide +kernel
example : (((serialise bitCodec prog1 ctx1).bind (fun r => deserialise bitCodec prog1 r.1)).bind
      (fun q => serialise bitCodec prog1 q.1)).map (·.1) = some [false, false, true, false, false, true, false] := by
  decide +kernel
-- a 0-bit where only 1s may go is refused
example : (serialise bitCodec prog1 [("c", .list [.leaf (.int 1), .leaf (.int 2), .leaf (.int 0)]), ("pad", .leaf (.bits [])), ("after", .leaf (.int 2))]).isNone = true := by
  decide +kernel

end VC2.Props.C21
