/-
  C24 — test-case generation is deterministic and schedule-independent.  Property theorems only.
  PARTIAL: proved on the file-system model (VC2/Model/WorkerFs.lean) is schedule independence —
  if no two worker commands write the same path, every interleaving of the commands' writes (any
  order, any degree of concurrency, each command's own writes in order) leaves exactly the same
  files.  That the commands' write sets ARE disjoint (unique test-case names, directories keyed by
  codec and encoder/decoder) and that each command writes the same bytes in every process and under
  every hash seed are established by running the real commands and tracing their writes.
-/
import VC2.Model.WorkerFs
namespace VC2.Props.C24
open VC2.Model.WorkerFs

/-- the last value written to `p` in a schedule, if any -/
def lastWrite (p : String) (events : List Event) : Option Nat :=
  ((events.filter (·.path == p)).getLast?).map (·.data)

theorem run_lookup : ∀ (events : List Event) (fs : Fs) (p : String),
    run fs events p = (lastWrite p events).orElse (fun _ => fs p) := by
  intro events
  induction events with
  | nil => intro fs p; simp [run, lastWrite]
  | cons e es ih =>
    intro fs p
    have hrun : run fs (e :: es) p = run (write fs e) es p := rfl
    rw [hrun, ih]
    unfold lastWrite
    rw [List.filter_cons]
    cases hl : es.filter (·.path == p) with
    | nil =>
      by_cases hp : (e.path == p) = true
      · have : p = e.path := by simpa using (beq_iff_eq.1 hp).symm
        simp [hp, write, this]
      · have : ¬ p = e.path := by intro h; apply hp; simp [h]
        simp [hp, write, this]
    | cons x xs =>
      have hsome : ∃ d, Option.map (fun (x : Event) => x.data) (x :: xs).getLast? = some d := by
        cases hg : (x :: xs).getLast? with
        | none => simp at hg
        | some y => exact ⟨y.data, rfl⟩
      obtain ⟨d, hd⟩ := hsome
      by_cases hp : (e.path == p) = true
      · simp [hp, List.getLast?_cons_cons, hd]
      · simp [hp, hd]

/-- the writes to one path all come from one command, so they are the same in both schedules -/
theorem filter_path_eq (e1 e2 : List Event) (hd1 : PathsDisjoint e1)
    (hsame : ∀ c, ofCmd e1 c = ofCmd e2 c) (p : String) :
    e1.filter (·.path == p) = e2.filter (·.path == p) := by
  -- if nobody writes p in e1, nobody does in e2 (every event of e2 is in some ofCmd e2 c = ofCmd e1 c)
  have mem_iff : ∀ e, e ∈ e1 ↔ e ∈ e2 := by
    intro e
    constructor
    · intro h
      have : e ∈ ofCmd e1 e.cmd := by unfold ofCmd; rw [List.mem_filter]; exact ⟨h, by simp⟩
      rw [hsame] at this
      exact (List.mem_filter.1 this).1
    · intro h
      have : e ∈ ofCmd e2 e.cmd := by unfold ofCmd; rw [List.mem_filter]; exact ⟨h, by simp⟩
      rw [← hsame] at this
      exact (List.mem_filter.1 this).1
  by_cases hex : ∃ e ∈ e1, e.path = p
  · obtain ⟨e0, he0, hp0⟩ := hex
    -- every writer of p belongs to command e0.cmd, in both schedules
    have f1 : e1.filter (·.path == p) = (ofCmd e1 e0.cmd).filter (·.path == p) := by
      unfold ofCmd
      rw [List.filter_filter]
      apply List.filter_congr
      intro e he
      by_cases hpe : e.path = p
      · have := hd1 e he e0 he0 (by rw [hpe, hp0])
        simp [hpe, this]
      · have : (e.path == p) = false := by simpa using hpe
        simp [this]
    have f2 : e2.filter (·.path == p) = (ofCmd e2 e0.cmd).filter (·.path == p) := by
      unfold ofCmd
      rw [List.filter_filter]
      apply List.filter_congr
      intro e he
      by_cases hpe : e.path = p
      · have := hd1 e ((mem_iff e).2 he) e0 he0 (by rw [hpe, hp0])
        simp [hpe, this]
      · have : (e.path == p) = false := by simpa using hpe
        simp [this]
    rw [f1, f2, hsame]
  · have n1 : e1.filter (·.path == p) = [] := by
      rw [List.filter_eq_nil_iff]; intro e he h; exact hex ⟨e, he, by simpa using h⟩
    have n2 : e2.filter (·.path == p) = [] := by
      rw [List.filter_eq_nil_iff]; intro e he h; exact hex ⟨e, (mem_iff e).2 he, by simpa using h⟩
    rw [n1, n2]

/-- **schedule independence**: two schedules in which every command performs the same writes in
    the same order (serial in any order, shuffled, or concurrently interleaved) leave the same file
    system, provided no two commands write the same path -/
theorem schedule_independent (fs : Fs) (e1 e2 : List Event) (hd : PathsDisjoint e1)
    (hsame : ∀ c, ofCmd e1 c = ofCmd e2 c) (p : String) : run fs e1 p = run fs e2 p := by
  rw [run_lookup, run_lookup]
  unfold lastWrite
  rw [filter_path_eq e1 e2 hd hsame p]

/-- without disjointness the outcome does depend on the schedule (why unique names matter) -/
example : run (fun _ => none) [⟨0, "a", 1⟩, ⟨1, "a", 2⟩] "a" ≠ run (fun _ => none) [⟨1, "a", 2⟩, ⟨0, "a", 1⟩] "a" := by
  decide

example : run (fun _ => none) [⟨0, "x", 1⟩, ⟨1, "y", 2⟩, ⟨0, "z", 3⟩] "z" =
    run (fun _ => none) [⟨1, "y", 2⟩, ⟨0, "x", 1⟩, ⟨0, "z", 3⟩] "z" := by decide

end VC2.Props.C24
