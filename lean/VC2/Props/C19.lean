/-
  C19 — Sequence completion is sound, complete and shortest.
  Model: `search`/`makeMatchingSequence` in VC2/Model/SymRe.lean — the breadth-first queue search
  exactly as written in symbol_re.make_matching_sequence (greedy consumption of a required
  symbol whenever every matcher accepts it), tied to the code by the `re S` correspondence.

  STATUS: partial.  Soundness is a theorem for all inputs.  Completeness/shortest-ness over ALL
  supersequences is FALSE of the unchanged code (finding F5): the witness below is checked by the
  kernel on the model and replayed on the real function by the check on every run.
-/
import VC2.Proofs.SymReSearch
set_option linter.unusedVariables false
namespace VC2.Props.C19
open VC2 VC2.Model.SymRe VC2.Proofs.SymRe VC2.Props.C18

/-- **Soundness**: whenever the generator returns, its result contains the required symbols in
    order with only insertions, and matches every supplied pattern (each matcher accepted every
    symbol and reports completion) — for every required list, pattern set, depth limit, priority
    list and queue budget. -/
theorem make_matching_sequence_sound (required : List String) (pats : List Ast) (depthLimit : Nat)
    (priority : List String) (fuel : Nat) (l : List String)
    (hreq : ∀ a ∈ required, a ≠ END) (hprio : ∀ a ∈ priority, a ≠ END)
    (h : makeMatchingSequence false required pats depthLimit priority fuel = some l) :
    required.Sublist l ∧
    ∀ p ∈ pats, ∃ mt, (Matcher.init false p).run l = some mt ∧ mt.isComplete = true := by
  unfold makeMatchingSequence at h
  have hinit : ∀ it, it ∈ [Item.initial false required pats depthLimit] → ItemOk required pats it := by
    intro it hit
    rw [List.mem_singleton] at hit; subst hit
    unfold Item.initial
    refine ⟨⟨[], by simp, List.Sublist.refl _⟩, ?_⟩
    simp [StatesOf, Matcher.run]
  obtain ⟨hsub, ms, hstates, hcomplete⟩ :=
    search_sound required pats depthLimit priority hreq hprio fuel _ hinit l h
  refine ⟨hsub, ?_⟩
  intro p hp
  obtain ⟨mt, hmt, hr⟩ := states_of_pattern pats l ms hstates p hp
  exact ⟨mt, hr, hcomplete mt hmt⟩

/-- … hence (with C18) the result is a word of every pattern's language, or may be followed by
    the end marker. -/
theorem result_in_every_language (required : List String) (pats : List Ast) (depthLimit : Nat)
    (priority : List String) (fuel : Nat) (l : List String)
    (hreq : ∀ a ∈ required, a ≠ END) (hprio : ∀ a ∈ priority, a ≠ END)
    (h : makeMatchingSequence false required pats depthLimit priority fuel = some l) :
    ∀ p ∈ pats, (L p (reals l) ∨ ∃ v : List Sym, L p (reals l ++ Sym.endm :: v)) := by
  intro p hp
  obtain ⟨mt, hr, hc⟩ :=
    (make_matching_sequence_sound required pats depthLimit priority fuel l hreq hprio h).2 p hp
  exact (complete_iff p l mt hr).1 hc

/-- the full statement of the property's second half, kept visible -/
def CompleteAndShortest : Prop :=
  ∀ (required : List String) (pats : List Ast) (depthLimit : Nat) (l' : List String),
    (∀ a ∈ required, a ≠ END) →
    -- if SOME valid completion `l'` exists (ignoring the consecutive-insertion limit being generous) …
    required.Sublist l' → l'.length ≤ required.length + depthLimit →
    (∀ p ∈ pats, ∃ mt, (Matcher.init false p).run l' = some mt ∧ mt.isComplete = true) →
    -- … the generator finds one that is no longer
    ∃ l, makeMatchingSequence false required pats depthLimit [] 100000 = some l ∧ l.length ≤ l'.length

def patA : Ast := .cat (.sym "a") (.cat (.sym WILDCARD) (.sym "c"))                       -- a . c
def patB : Ast := .cat (.star (.alt (.sym "a") (.sym "b"))) (.cat (.sym "c") (.sym END))  -- (a|b)* c $

/-- **negation witness (finding F5)**: required `[c]`, patterns `a . c` and `(a|b)* c $`, depth
    limit 3: the greedy search gives up although `[a, a, c]` (2 insertions) is a valid completion. -/
theorem greedy_search_incomplete :
    makeMatchingSequence false ["c"] [patA, patB] 3 [] 100000 = none ∧
    (["c"].Sublist ["a", "a", "c"]) ∧
    (((Matcher.init false patA).run ["a", "a", "c"]).map (·.isComplete) = some true) ∧
    (((Matcher.init false patB).run ["a", "a", "c"]).map (·.isComplete) = some true) := by
  refine ⟨by decide +kernel, ?_, by decide +kernel, by decide +kernel⟩
  exact (List.Sublist.refl ["c"]).cons "a" |>.cons "a"

theorem not_complete_and_shortest : ¬ CompleteAndShortest := by
  intro h
  obtain ⟨h1, h2, h3, h4⟩ := greedy_search_incomplete
  have := h ["c"] [patA, patB] 3 ["a", "a", "c"] (by decide) h2 (by decide) (by
    intro p hp
    simp only [List.mem_cons, List.not_mem_nil, or_false] at hp
    rcases hp with rfl | rfl
    · cases hr : (Matcher.init false patA).run ["a", "a", "c"] with
      | none => rw [hr] at h3; cases h3
      | some mt => rw [hr] at h3; exact ⟨mt, rfl, by simpa using h3⟩
    · cases hr : (Matcher.init false patB).run ["a", "a", "c"] with
      | none => rw [hr] at h4; cases h4
      | some mt => rw [hr] at h4; exact ⟨mt, rfl, by simpa using h4⟩)
  obtain ⟨l, hl, _⟩ := this
  rw [h1] at hl; cases hl

/-- non-vacuity: a concrete successful completion -/
example : makeMatchingSequence false ["b"] [.cat (.sym "a") (.cat (.sym "b") (.sym "c"))] 3 [] 1000
    = some ["a", "b", "c"] := by decide +kernel

end VC2.Props.C19
