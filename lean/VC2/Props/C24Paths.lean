/-
  C24 — the write sets of different worker commands are disjoint.  Property theorems only.
  Model: VC2/Model/WorkerPaths.lean (where a worker command writes), tied to
  scripts/vc2_test_case_generator/cli.py by the `wp` correspondence (every traced write of every real
  worker command is a path the model says that command - and no other - owns).
  With `schedule_independent` (C24.lean) this turns the hypothesis "no two commands write the same
  path" into a consequence of: distinct commands differ in codec, kind or generator; generator names
  contain no '[' (generated registry, C05: `generator_names_distinct`); each command writes only paths
  of its own test cases.
-/
import VC2.Model.WorkerPaths
import VC2.Props.C24
import VC2.Props.C05
namespace VC2.Props.C24
open VC2 VC2.Model.WorkerFs VC2.Model.WorkerPaths

theorem isPrefixOf_append (a n : List Char) (h : a.isPrefixOf n = true) : ∃ r, n = a ++ r := by
  rw [List.isPrefixOf_iff_prefix] at h
  obtain ⟨r, hr⟩ := h
  exact ⟨r, hr.symm⟩

/-- a test-case name (`generator` or `generator[subcase]`) belongs to one generator only -/
theorem name_has_one_generator (g1 g2 n : List Char) (h1 : '[' ∉ g1) (h2 : '[' ∉ g2)
    (a : isNameOf g1 n = true) (b : isNameOf g2 n = true) : g1 = g2 := by
  unfold isNameOf at a b
  simp only [Bool.or_eq_true, beq_iff_eq] at a b
  rcases a with a | a <;> rcases b with b | b
  · rw [← a, ← b]
  · obtain ⟨r, hr⟩ := isPrefixOf_append _ _ b
    rw [a] at hr
    exact absurd (by rw [hr]; simp) h1
  · obtain ⟨r, hr⟩ := isPrefixOf_append _ _ a
    rw [b] at hr
    exact absurd (by rw [hr]; simp) h2
  · obtain ⟨r1, hr1⟩ := isPrefixOf_append _ _ a
    obtain ⟨r2, hr2⟩ := isPrefixOf_append _ _ b
    have : g1 ++ '[' :: r1 = g2 ++ '[' :: r2 := by
      have e1 : g1 ++ '[' :: r1 = n := by rw [hr1]; simp
      have e2 : g2 ++ '[' :: r2 = n := by rw [hr2]; simp
      rw [e1, e2]
    exact (VC2.Props.C05.split_at_bracket g1 g2 r1 r2 h1 h2 this).1

/-- **no path is owned by two different commands**: the bitstream, the expected-picture directory,
    the picture directory and the metadata file of a test case are told apart by the path's shape and
    suffix, and the test-case name in them determines the generator -/
theorem commands_own_disjoint_paths (c1 c2 : Cmd) (p : List (List Char)) (h1 : '[' ∉ c1.gen) (h2 : '[' ∉ c2.gen)
    (o1 : owns c1 p = true) (o2 : owns c2 p = true) : c1 = c2 := by
  unfold owns at o1 o2
  cases hc : classify p with
  | none => simp [hc] at o1
  | some t =>
    obtain ⟨codec, enc, n⟩ := t
    simp only [hc, Bool.and_eq_true, beq_iff_eq] at o1 o2
    obtain ⟨⟨a1, a2⟩, a3⟩ := o1
    obtain ⟨⟨b1, b2⟩, b3⟩ := o2
    have g := name_has_one_generator c1.gen c2.gen n h1 h2 a3 b3
    cases c1; cases c2; simp_all

/-- **the write sets of the worker commands are disjoint**: if every write of a schedule goes to a path
    its command owns (whatever way `parse` reads a path string into components), and different command
    numbers stand for different (codec, kind, generator) triples with bracket-free generator names, then no
    two commands write the same path -/
theorem write_sets_disjoint (cmdOf : Nat → Cmd) (parse : String → List (List Char)) (events : List Event)
    (hinj : ∀ a b, cmdOf a = cmdOf b → a = b)
    (hgen : ∀ e ∈ events, '[' ∉ (cmdOf e.cmd).gen)
    (hown : ∀ e ∈ events, owns (cmdOf e.cmd) (parse e.path) = true) : PathsDisjoint events := by
  intro e1 m1 e2 m2 hp
  apply hinj
  apply commands_own_disjoint_paths _ _ (parse e1.path) (hgen e1 m1) (hgen e2 m2) (hown e1 m1)
  rw [hp]; exact hown e2 m2

/-- **test-case generation is schedule-independent**: any two schedules of the worker commands' writes in
    which every command performs the same writes in the same order leave the same output tree -/
theorem generation_is_schedule_independent (cmdOf : Nat → Cmd) (parse : String → List (List Char)) (fs : Fs) (e1 e2 : List Event)
    (hinj : ∀ a b, cmdOf a = cmdOf b → a = b)
    (hgen : ∀ e ∈ e1, '[' ∉ (cmdOf e.cmd).gen)
    (hown : ∀ e ∈ e1, owns (cmdOf e.cmd) (parse e.path) = true)
    (hsame : ∀ c, ofCmd e1 c = ofCmd e2 c) (p : String) : run fs e1 p = run fs e2 p :=
  schedule_independent fs e1 e2 (write_sets_disjoint cmdOf parse e1 hinj hgen hown) hsame p

/-! the recogniser on concrete paths -/
def dec (g : String) : Cmd := { codec := "cfg".toList, encoder := false, gen := g.toList }
def enc (g : String) : Cmd := { codec := "cfg".toList, encoder := true, gen := g.toList }
def pth (l : List String) : List (List Char) := l.map String.toList

example : owns (dec "padding_data") (pth ["cfg", "decoder", "padding_data[ones].vc2"]) = true := by decide
example : owns (dec "padding_data") (pth ["cfg", "decoder", "padding_data[ones]_expected", "picture_0.raw"]) = true := by decide
example : owns (dec "padding_data") (pth ["cfg", "decoder", "padding_data[ones]_metadata.json"]) = true := by decide
example : owns (dec "padding") (pth ["cfg", "decoder", "padding_data[ones].vc2"]) = false := by decide
example : owns (enc "signal_range") (pth ["cfg", "encoder", "signal_range[Y]", "picture_3.json"]) = true := by decide
example : owns (enc "signal_range") (pth ["cfg", "encoder", "signal_range[Y]_metadata.json"]) = true := by decide
example : owns (dec "signal_range") (pth ["cfg", "encoder", "signal_range[Y]_metadata.json"]) = false := by decide
example : owns (enc "signal_range") (pth ["other", "encoder", "signal_range[Y]_metadata.json"]) = false := by decide

end VC2.Props.C24
