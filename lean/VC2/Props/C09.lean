/-
  C09 — every decoded picture is well-formed.  Property theorems only.
  PARTIAL: sample range (for EVERY integer coefficient input), output shape of the inverse transform
  and of padding removal, and the one-output-per-picture count of the stream-structure model are
  theorems; that the picture number is copied and that the real decoder composes these steps is
  validated by the correspondence on streams with re-packed extreme coefficients.
-/
import VC2.Proofs.Picture
import VC2.Props.C11
import VC2.Props.C01
import VC2.Model.Pipeline
namespace VC2.Props.C09
open VC2 VC2.Model.Picture VC2.Proofs.Picture

/-- **every output sample lies in [0, 2^depth − 1]**, whatever integer the inverse transform
    produced (extreme, random or dangling coefficients), for every depth ≥ 1 -/
theorem output_sample_in_range (d : Nat) (hd : 1 ≤ d) (x : Int) :
    0 ≤ offsetSample d (clipSample d x) ∧ offsetSample d (clipSample d x) ≤ 2 ^ d - 1 := by
  have h := clip_range d x
  have h2 := two_half d hd
  unfold offsetSample
  omega

/-- **shape**: removing the padding yields exactly the requested height and width (the padded
    array is at least as large: `encoder_padding_is_admissible` / C13) -/
theorem pad_removal_shape (a : VC2.Model.Wavelet.Arr) (h w : Nat) (hh : h ≤ a.h) (hw : w ≤ a.w) :
    (VC2.Model.Wavelet.padRemoval a h w).h = h ∧ (VC2.Model.Wavelet.padRemoval a h w).w = w := by
  simp [VC2.Model.Wavelet.padRemoval]; omega

/-- **the composed decoder half**: whatever the coefficients (any integers, any quantisation index, either
    profile), every sample of the decoded component lies in [0, 2^depth − 1] and the component has the
    requested size whenever the inverse transform produced at least that much -/
theorem decoded_component_wellformed (depth : Nat) (hd : 1 ≤ depth) (fv fho : VC2.Model.Wavelet.Filter) (ld : Bool) (q : Int)
    (h w : Nat) (c : VC2.Model.Wavelet.Coeffs) :
    (∀ y x, 0 ≤ (VC2.Model.Pipeline.decodeComponent depth fv fho ld q h w c).f y x ∧
            (VC2.Model.Pipeline.decodeComponent depth fv fho ld q h w c).f y x ≤ 2 ^ depth - 1) ∧
    (VC2.Model.Pipeline.decodeComponent depth fv fho ld q h w c).h ≤ h ∧
    (VC2.Model.Pipeline.decodeComponent depth fv fho ld q h w c).w ≤ w := by
  refine ⟨fun y x => output_sample_in_range depth hd _, ?_, ?_⟩
  · simp only [VC2.Model.Pipeline.decodeComponent, VC2.Model.Wavelet.mapAll, VC2.Model.Wavelet.padRemoval]; omega
  · simp only [VC2.Model.Pipeline.decodeComponent, VC2.Model.Wavelet.mapAll, VC2.Model.Wavelet.padRemoval]; omega

/-- **one output per picture data unit and per completed fragmented picture**: in the
    stream-structure model a whole picture appends exactly its own number to the decoded list -/
theorem picture_unit_outputs_once (cfg : VC2.Model.Stream.Config) (s s2 : VC2.Model.Stream.VState)
    (u : VC2.Model.Stream.DUnit) (hk : u.kind = .picture)
    (h : VC2.Model.Stream.payload cfg s u = .ok s2) : s2.decoded = s.decoded ++ [u.picNum] := by
  unfold VC2.Model.Stream.payload at h
  rw [hk] at h
  simp only [VC2.Proofs.Stream.bind_ok, VC2.Proofs.Stream.guardRej_ok, VC2.Proofs.Stream.pure_ok] at h
  obtain ⟨_, _, s1, h1, h2⟩ := h
  have := VC2.Proofs.Stream.pictureNumberCheck_ok s s1 u.picNum h1
  subst h2; subst this; rfl

/-- a slice-bearing fragment outputs a picture exactly when it completes the fragmented picture -/
theorem fragment_outputs_when_complete (s s1 : VC2.Model.Stream.VState) (u : VC2.Model.Stream.DUnit)
    (h : VC2.Model.Stream.dataFragment s u = .ok s1) :
    ∃ received sx, s.fragReceived = some received ∧ s.slicesX = some sx ∧
      s1.decoded = (if decide (received + u.sliceCount = sx * (s.slicesY.getD 0))
                    then s.decoded ++ [u.picNum] else s.decoded) := by
  obtain ⟨received, sx, hr, hsx, _, _, _, hs1⟩ := VC2.Proofs.Stream.dataFragment_ok s s1 u h
  exact ⟨received, sx, hr, hsx, by rw [hs1]⟩

example : offsetSample 10 (clipSample 10 (2 ^ 200)) = 1023 ∧ offsetSample 10 (clipSample 10 (-(2 ^ 200))) = 0 ∧
    offsetSample 1 (clipSample 1 5) = 1 := by decide +kernel

end VC2.Props.C09
