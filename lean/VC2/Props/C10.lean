/-
  C10 — concatenated sequences are validated and decoded independently.
  Property theorems only; the model is VC2/Model/Stream.lean (shared with C01), the proofs are in
  VC2/Proofs/Stream.lean (reset to the fresh state at every sequence boundary) and
  VC2/Proofs/StreamShift.lean (only offset differences are observed).
-/
import VC2.Proofs.StreamShift
namespace VC2.Props.C10
open VC2 VC2.Model.SymRe VC2.Model.Stream VC2.Proofs.Stream

/-- **an accepted stream followed by anything**: the verdict is the verdict of the rest validated
    alone and the decoded pictures are the concatenation — for any data-unit lists, any length -/
theorem concat_after_accepted (cfg : Config) (us1 us2 : List DUnit) (h : (validate cfg us1).1 = .ok) :
    validate cfg (us1 ++ us2) = ((validate cfg us2).1, (validate cfg us1).2 ++ (validate cfg us2).2) := by
  have h1 := run_append_ok cfg us1 (VState.fresh 0 []) us2 (fun _ => rfl) h
  have h2 := run_shift cfg (totalLen us1) (run cfg (VState.fresh 0 []) us1).2 us2 (VState.fresh 0 [])
  rw [fresh_shift] at h2
  simp only [List.append_nil, Nat.zero_add] at h2
  simp only [validate]
  rw [h1]
  simpa [VState.fresh] using h2

/-- **a list of individually conformant sequences** is accepted, and outputs exactly the
    concatenation of what each sequence outputs alone -/
theorem concat_all_accepted (cfg : Config) : ∀ (seqs : List (List DUnit)),
    (∀ us ∈ seqs, (validate cfg us).1 = .ok) →
    validate cfg seqs.flatten = (.ok, (seqs.map (fun us => (validate cfg us).2)).flatten) := by
  intro seqs
  induction seqs with
  | nil => intro _; simp [validate, run, VState.fresh]
  | cons us rest ih =>
    intro h
    have h1 := h us List.mem_cons_self
    have h2 := ih (fun x hx => h x (List.mem_cons_of_mem _ hx))
    rw [List.flatten_cons, concat_after_accepted cfg us rest.flatten h1, h2]
    simp

/-- **prepending conformant sequences never changes whether a sequence is accepted** -/
theorem prepend_accepted_keeps_verdict (cfg : Config) (pre us : List DUnit)
    (h : (validate cfg pre).1 = .ok) : (validate cfg (pre ++ us)).1 = (validate cfg us).1 := by
  rw [concat_after_accepted cfg pre us h]

/-- **appending never rescues a rejected stream**: a rejection (other than the input ending in the
    middle of a sequence) and the pictures decoded before it are unaffected by what follows -/
theorem append_keeps_rejection (cfg : Config) (us post : List DUnit)
    (h1 : (validate cfg us).1 ≠ .ok) (h2 : (validate cfg us).1 ≠ .reject "UnexpectedEndOfStream") :
    validate cfg (us ++ post) = validate cfg us :=
  run_append_err cfg us (VState.fresh 0 []) post _ rfl h1 h2

/-- **appending conformant sequences keeps acceptance** -/
theorem append_accepted_keeps_acceptance (cfg : Config) (us post : List DUnit)
    (h : (validate cfg us).1 = .ok) (hp : (validate cfg post).1 = .ok) :
    (validate cfg (us ++ post)).1 = .ok := by
  rw [concat_after_accepted cfg us post h]; exact hp

/-- a non-conformant sequence at position i of a list whose earlier sequences are conformant is
    rejected with the same error, after exactly the pictures of the earlier sequences and its own -/
theorem rejection_position_independent (cfg : Config) (pre bad post : List DUnit)
    (hpre : (validate cfg pre).1 = .ok)
    (h1 : (validate cfg bad).1 ≠ .ok) (h2 : (validate cfg bad).1 ≠ .reject "UnexpectedEndOfStream") :
    validate cfg (pre ++ (bad ++ post)) =
      ((validate cfg bad).1, (validate cfg pre).2 ++ (validate cfg bad).2) := by
  rw [concat_after_accepted cfg pre _ hpre, append_keeps_rejection cfg bad post h1 h2]

/-! ### non-vacuity -/
def cfg0 : Config := { slicesX := 2, slicesY := 1, levelPattern := .star (.sym WILDCARD) }
def hdr (mv prof pcm : Nat) : DUnit := { kind := .seqHdr, code := 0, len := 30, next := 30, prev := 0, majorVersion := mv, profile := prof, pcm := pcm }
def pic (code n prev : Nat) : DUnit := { kind := .picture, code := code, len := 50, next := 50, prev := prev, picNum := n }
def fr0 (n prev : Nat) : DUnit := { kind := .fragment, code := 236, len := 40, next := 40, prev := prev, picNum := n }
def frd (n c x y prev : Nat) : DUnit := { kind := .fragment, code := 236, len := 45, next := 45, prev := prev, picNum := n, sliceCount := c, fx := x, fy := y }
def eos (prev : Nat) : DUnit := { kind := .eos, code := 16, len := 13, next := 0, prev := prev }
/-- fragments, version 3 -/
def seqA : List DUnit := [hdr 3 3 0, fr0 8 30, frd 8 2 0 0 40, eos 45]
/-- plain HQ pictures, version 2, fields -/
def seqB : List DUnit := [hdr 2 3 1, pic 232 4 30, pic 232 5 50, eos 50]
/-- plain HQ pictures declaring version 3: rejected alone … -/
def seqC : List DUnit := [hdr 3 3 0, pic 232 0 30, eos 50]

example : validate cfg0 seqA = (.ok, [8]) ∧ validate cfg0 seqB = (.ok, [4, 5]) := by decide +kernel
example : validate cfg0 (seqA ++ seqB ++ seqA) = (.ok, [8, 4, 5, 8]) := by decide +kernel
example : (validate cfg0 seqC).1 = .reject "MajorVersionTooHigh" := by decide +kernel
/-- … and still rejected after a sequence that legitimately needs version 3 -/
example : validate cfg0 (seqA ++ seqC) = (.reject "MajorVersionTooHigh", [8, 0]) := by decide +kernel

end VC2.Props.C10
