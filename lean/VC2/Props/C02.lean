/-
  C02 — the validator terminates with a verdict on any byte string.  Property theorems only.
  PARTIAL: what is proved is (i) the definedness of every state key the stream-structure layer
  reads, for every history of data units (the C01 model; the proof found F4 and F7), (ii) that the
  bounded-block bit counter of the slice readers never goes negative (the `== 0` test of read_bitb
  is adequate) and that both readers agree inside a block (C20 model), and (iii) two obligations
  on tables regenerated from the decoder's source on every run: every `raise` statement of
  vc2_conformance/decoder raises a ConformanceError subclass (helper-raised classes resolved at
  their call sites), and every ConformanceError subclass has the three reporting methods.
  NOT proved: absence of TypeError/IndexError/KeyError in the payload-level code (sequence header,
  transform parameters, slices, picture decoding), and that the 60-odd `explain`/hint formatters
  never fail — these are covered by the byte-string search only.
-/
import VC2.Props.C01
import VC2.Props.C20
import VC2.Gen.DecoderTables
namespace VC2.Props.C02
open VC2 VC2.Model.SymRe VC2.Model.Stream VC2.Proofs.Stream VC2.Model.BitIO

/-- (i) whatever the order, offsets, numbers and fragment layout of the data units, the
    stream-structure layer of the validator ends with a verdict or a conformance error -/
theorem stream_layer_never_crashes (cfg : Config)
    (hlevel : (Matcher.init false cfg.levelPattern).matchSymbol "sequence_header" ≠ none)
    (us : List DUnit) (hk : ∀ u ∈ us, KindOk u) : ¬ IsCrash (validate cfg us).1 :=
  VC2.Props.C01.validate_never_crashes cfg hlevel us hk

/-- (ii) `bits_left` stays non-negative through any read inside a bounded block -/
theorem bits_left_never_negative (d d' : DReader) (b : Bool) (h0 : 0 ≤ d.bitsLeft)
    (h : d.readBitb = .ok (b, d')) : 0 ≤ d'.bitsLeft :=
  VC2.Props.C20.bits_left_stays_nonneg d d' b h0 h

/-- reading past the end of the input is the conformance error UnexpectedEndOfStream (`eof`), never
    an index error: the model's only failure of a raw bit read -/
theorem read_past_input_is_eof (d : DReader) (e : IOErr) (h : d.readBit = .error e) : e = .eof := by
  unfold DReader.readBit at h
  split at h
  · simp at h; exact h.symm
  · cases h

/-- (iii) every raise statement in vc2_conformance/decoder/*.py raises a ConformanceError subclass -/
theorem every_raise_is_a_conformance_error :
    VC2.Gen.decoderRaiseSites.all (fun s => s.2.2.2) = true := by decide +kernel

/-- (iii) every ConformanceError subclass provides explain / bitstream_viewer_hint / offending_offset -/
theorem every_error_class_can_report :
    VC2.Gen.conformanceErrorClasses.all (fun c => c.2.1) = true := by decide +kernel

example : VC2.Gen.decoderRaiseSites.length > 40 ∧ VC2.Gen.conformanceErrorClasses.length > 50 := by decide +kernel

end VC2.Props.C02
