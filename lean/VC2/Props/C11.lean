/-
  C11 — Forward and inverse wavelet transforms reconstruct exactly.
  Model: VC2/Model/Wavelet.lean (hand-written, generic in the lifting filter; tied to
  picture_encoding.py / picture_decoding.py by the `wt` correspondence, with the real
  LIFTING_FILTERS table exported into VC2.Gen.Tables on every run).  Geometry functions
  (subband_width/height) are the GENERATED ones.
-/
import VC2.Proofs.Wavelet
import VC2.Props.C13
import VC2.Gen.Tables
set_option linter.unusedVariables false
namespace VC2.Props.C11
open VC2 VC2.Gen VC2.Model.Wavelet VC2.Proofs.Wavelet

/-- For *every* lifting stage (any L, D, taps, S, any of the four kinds) and every
    even-length array the analysis lift undoes the synthesis lift, and vice versa. -/
theorem lift_roundtrip (st : Stage) (len : Nat) (f : Vec) (hev : len % 2 = 0) :
    lift st.swapped len (lift st len f) = f ∧ lift st len (lift st.swapped len f) = f :=
  ⟨lift_inverse st len f hev, lift_inverse' st len f hev⟩

/-- … hence for every filter (list of stages) the 1-D analysis and synthesis are inverse. -/
theorem oned_roundtrip_both (flt : Filter) (len : Nat) (f : Vec) (hev : len % 2 = 0) :
    onedSynthesis flt len (onedAnalysis flt len f) = f ∧
    onedAnalysis flt len (onedSynthesis flt len f) = f :=
  ⟨oned_roundtrip flt len f hev, oned_roundtrip' flt len f hev⟩

/-- the accuracy shift `(x << s) + 2^(s-1)) >> s` is lossless -/
theorem shift_lossless (s : Nat) (v : Int) (hs : 0 < s) : (v * 2 ^ s + 2 ^ (s - 1)) / 2 ^ s = v :=
  shift_roundtrip s v hs

/-- `idwt (dwt a) = a` for every pair of filters (vertical, horizontal), every symmetric depth
    `d`, every horizontal-only depth `dho` and every array whose height is a multiple of `2^d`
    and whose width is a multiple of `2^(d+dho)` — arbitrary integer samples. -/
theorem idwt_dwt_identity (fv fho : Filter) (dho d : Nat) (a : Arr)
    (hh : a.h % 2 ^ d = 0) (hw : a.w % 2 ^ (d + dho) = 0) :
    idwt fv fho (dwt fv fho dho d a) = a :=
  idwt_dwt fv fho dho d a hh hw

theorem arr_eq_refl (a : Arr) : a.Eq a := ⟨rfl, rfl, fun _ _ _ _ => rfl⟩

/-- **Whole pipeline**: pad, forward transform, inverse transform, remove padding returns the
    original picture exactly, for every picture of size ≥ 1×1 and any padded size (ph, pw) that
    is a multiple of the transform scale and not smaller than the picture. -/
theorem pad_dwt_idwt_unpad (fv fho : Filter) (dho d : Nat) (a : Arr) (ph pw : Nat)
    (hh1 : 1 ≤ a.h) (hw1 : 1 ≤ a.w) (hph : a.h ≤ ph) (hpw : a.w ≤ pw)
    (hh : ph % 2 ^ d = 0) (hw : pw % 2 ^ (d + dho) = 0) :
    (padRemoval (idwt fv fho (dwt fv fho dho d (padAddition a ph pw))) a.h a.w).Eq a := by
  have e1 : (padAddition a ph pw).h = ph := by simp [padAddition]; omega
  have e2 : (padAddition a ph pw).w = pw := by simp [padAddition]; omega
  rw [idwt_dwt fv fho dho d _ (by rw [e1]; exact hh) (by rw [e2]; exact hw)]
  exact pad_roundtrip a ph pw hh1 hw1

/-- The padded size the encoder uses (`subband_width/height(top_level)`, GENERATED) does
    satisfy those hypotheses: it is ≥ the component size and a multiple of the scale. -/
theorem encoder_padding_is_admissible (st : St) (c : String) (hc : VC2.Proofs.Slices.CompOk c)
    (g : VC2.Proofs.Slices.GeomOk st) :
    let top := st.dwt_depth + st.dwt_depth_ho + 1
    let pw := subband_width st top c
    let ph := subband_height st top c
    VC2.Proofs.Slices.compW st c ≤ pw ∧ VC2.Proofs.Slices.compH st c ≤ ph ∧
    pw % shl 1 (st.dwt_depth_ho + st.dwt_depth) = 0 ∧ ph % shl 1 st.dwt_depth = 0 := by
  intro top pw ph
  have hd := g.d; have hdho := g.dho
  have ew : VC2.Proofs.Slices.wexp st top = 0 := by
    unfold VC2.Proofs.Slices.wexp VC2.Proofs.Slices.depthW; simp only [top]; split <;> omega
  have eh : VC2.Proofs.Slices.hexp st top = 0 := by
    unfold VC2.Proofs.Slices.hexp VC2.Proofs.Slices.depthW; simp only [top]
    split
    · omega
    · split <;> omega
  have one : shl 1 0 = 1 := by simp [shl]
  have hpw : pw = VC2.Proofs.Slices.padded (VC2.Proofs.Slices.compW st c) (VC2.Proofs.Slices.depthW st) := by
    simp only [pw]; rw [VC2.Proofs.Slices.subband_width_eq st top c hc, ew, one]; simp
  have hph : ph = VC2.Proofs.Slices.padded (VC2.Proofs.Slices.compH st c) st.dwt_depth := by
    simp only [ph]; rw [VC2.Proofs.Slices.subband_height_eq st top c hc, eh, one]; simp
  have a := VC2.Props.C13.padded_least_multiple (VC2.Proofs.Slices.compW st c) (VC2.Proofs.Slices.depthW st)
  have b := VC2.Props.C13.padded_least_multiple (VC2.Proofs.Slices.compH st c) st.dwt_depth
  rw [hpw, hph]
  exact ⟨a.1, b.1, by simpa [VC2.Proofs.Slices.depthW] using a.2.2, b.2.2⟩

/-- **Shapes** of the forward transform's subbands, for a (padded) input of size ph × pw:
    DC band, the `dho` horizontal-only levels (level k+1) and the `d` 2-D levels (level dho+1+k). -/
theorem dwt_shapes (fv fho : Filter) (dho d : Nat) (a : Arr) :
    let c := dwt fv fho dho d a
    c.dc.h = a.h / 2 ^ d ∧ c.dc.w = a.w / 2 ^ d / 2 ^ dho ∧
    c.ho.length = dho ∧ c.full.length = d ∧
    (∀ k (hk : k < c.ho.length), (c.ho[k]).h = a.h / 2 ^ d ∧ (c.ho[k]).w = a.w / 2 ^ d / 2 ^ (dho - k)) ∧
    (∀ k (hk : k < c.full.length), dims3 (c.full[k]) (a.h / 2 ^ (d - k)) (a.w / 2 ^ (d - k))) := by
  intro c
  have f1 := dwtFull_dc_dims fv fho d a
  have f2 := dwtFull_shapes fv fho d a
  have h1 := dwtHo_dc_dims fho dho (dwtFull fv fho d a).1
  have h2 := dwtHo_shapes fho dho (dwtFull fv fho d a).1
  simp only [c, dwt]
  refine ⟨by rw [h1.1, f1.1], by rw [h1.2, f1.2], h2.1, f2.1, ?_, f2.2⟩
  intro k hk
  have := h2.2 k hk
  rw [f1.1, f1.2] at this
  exact this

/-- … and these are exactly the subband dimensions the slice geometry uses (GENERATED
    `subband_width`/`subband_height`), level by level, when the input has the padded size. -/
theorem shapes_match_slice_geometry (st : St) (c : String) (level : Int)
    (dom : VC2.Props.C13.Dom st c level) :
    let pw := VC2.Proofs.Slices.padded (VC2.Proofs.Slices.compW st c) (VC2.Proofs.Slices.depthW st)
    let ph := VC2.Proofs.Slices.padded (VC2.Proofs.Slices.compH st c) st.dwt_depth
    subband_width st level c = pw / 2 ^ (VC2.Proofs.Slices.wexp st level).toNat ∧
    subband_height st level c = ph / 2 ^ (VC2.Proofs.Slices.hexp st level).toNat := by
  intro pw ph
  rw [VC2.Proofs.Slices.subband_width_eq st level c dom.comp,
      VC2.Proofs.Slices.subband_height_eq st level c dom.comp]
  simp [shl, pw, ph]

/-- every filter of the real table has as many taps as its `L` (so no tap lookup can fail) -/
theorem real_filters_wellformed :
    ∀ p ∈ liftingFilters, ∀ s ∈ p.2.stages, s.taps.length = s.L := by decide

/-- non-vacuity: the real table has the seven filters, and a concrete round trip evaluates -/
example : liftingFilters.length = 7 := by decide
example :
    let flt := (liftingFilters[1]!).2
    (List.range 4).map (onedSynthesis flt 4 (onedAnalysis flt 4 ⟨fun i => [5, -7, 11, 2].getD i 0⟩)).get
      = [5, -7, 11, 2] := by decide

end VC2.Props.C11
