/-
  C03 — the encoder's output is always a conformant stream in the requested format.
  Property theorems only.  PARTIAL: proved here is the STRUCTURE of a fragmented picture as the
  encoder lays it out (Model/EncoderSeq.lean, compared fragment header by fragment header with
  make_fragment_parse_data_units) against the validator's stream-structure model (C01): the
  validator accepts every fragment, the picture is complete exactly at the last fragment and is
  output once.  The other ingredients are separate theorems: the data-unit ordering search is sound
  (C19), automatic offsets/numbers/version satisfy the validator's rules (C07), slice sizes (C14),
  sequence headers (C15), geometry (C13).  Their composition into make_sequence is validated end to
  end (random configurations through the real encoder, serialiser and validator), not proved.
-/
import VC2.Model.EncoderSeq
import VC2.Props.C01
import VC2.Props.C14
namespace VC2.Props.C03
open VC2 VC2.Model.Stream VC2.Proofs.Stream VC2.Model.EncoderSeq

/-- a slice-bearing fragment data unit as the encoder emits it -/

def fragUnit (num : Nat) (t : Nat × Nat × Nat) : DUnit :=
  { kind := .fragment, code := 236, len := 20, next := 20, prev := 20, picNum := num, sliceCount := t.1, fx := t.2.1, fy := t.2.2 }

def runFrags : VState → List DUnit → Except Err VState
  | s, [] => .ok s
  | s, u :: us => match dataFragment s u with
    | .ok s1 => runFrags s1 us
    | .error e => .error e

/-- **every fragment layout the encoder produces is accepted**: for all slice counts `sx × sy`
    (sx ≥ 1) and every fragment size ≥ 1, starting anywhere in the picture, the validator model accepts
    each slice-bearing fragment in turn (contiguous raster-order offsets, never too many slices), ends
    with no slices outstanding and outputs the picture exactly once -/
theorem frags_accepted (sx sy fc num : Nat) (hsx : 1 ≤ sx) (hfc : 1 ≤ fc) :
    ∀ (fuel start : Nat) (s : VState), sx * sy - start ≤ fuel →
      s.fragRemaining = sx * sy - min start (sx * sy) → s.fragReceived = some (min start (sx * sy)) →
      s.slicesX = some sx → s.slicesY = some sy → s.lastPicNum = some num →
      ∃ s', runFrags s ((fragsFrom sx (sx * sy) fc fuel start).map (fragUnit num)) = .ok s' ∧
        s'.fragRemaining = 0 ∧
        s'.decoded = (if start < sx * sy then s.decoded ++ [num] else s.decoded) := by
  intro fuel
  induction fuel with
  | zero =>
    intro start s hf hrem _ _ _ _
    refine ⟨s, rfl, by rw [hrem]; omega, ?_⟩
    rw [if_neg (by omega)]
  | succ fuel ih =>
    intro start s hf hrem hrec hx hy hnum
    simp only [fragsFrom]
    by_cases hlt : start < sx * sy
    · rw [if_pos hlt]
      simp only [List.map_cons, runFrags]
      have hmn : min start (sx * sy) = start := by omega
      rw [hmn] at hrem hrec
      have hacc : ∃ s1, dataFragment s (fragUnit num (min fc (sx * sy - start), start % sx, start / sx)) = .ok s1 := by
        rw [VC2.Props.C01.data_fragment_accepts_iff]
        refine ⟨by omega, by simp [fragUnit, hnum], by simp [fragUnit]; omega, start, sx, hrec, hx, by omega, by simp [fragUnit], by simp [fragUnit]⟩
      obtain ⟨s1, h1⟩ := hacc
      rw [h1]
      obtain ⟨received, sx', hr', hx', _, _, _, hs1⟩ := dataFragment_ok s s1 _ h1
      rw [hrec] at hr'; rw [hx] at hx'
      have e1 : received = start := (Option.some.inj hr').symm
      have e2 : sx' = sx := (Option.some.inj hx').symm
      subst e1 e2
      have hc : (fragUnit num (min fc (sx' * sy - received), received % sx', received / sx')).sliceCount = min fc (sx' * sy - received) := rfl
      have hp : (fragUnit num (min fc (sx' * sy - received), received % sx', received / sx')).picNum = num := rfl
      rw [hc, hp] at hs1
      have hnew : received + min fc (sx' * sy - received) = min (received + fc) (sx' * sy) := by omega
      obtain ⟨s', hrun, hz, hdec⟩ := ih (received + fc) s1 (by omega)
        (by rw [hs1]; simp only; rw [hrem]; omega)
        (by rw [hs1]; simp only; rw [hnew])
        (by rw [hs1]; exact hx) (by rw [hs1]; exact hy) (by rw [hs1]; exact hnum)
      refine ⟨s', hrun, hz, ?_⟩
      rw [hdec, if_pos hlt, hs1]
      simp only [hy, Option.getD_some]
      by_cases hfin : received + fc < sx' * sy
      · rw [if_pos hfin]
        have : ¬ (received + min fc (sx' * sy - received) = sx' * sy) := by omega
        simp [this]
      · rw [if_neg hfin]
        have : received + min fc (sx' * sy - received) = sx' * sy := by omega
        simp [this]
    · rw [if_neg hlt]
      exact ⟨s, rfl, by rw [hrem]; omega, by rw [if_neg hlt]⟩

/-- from the state left by the first (slice-less) fragment: the whole picture goes through -/
theorem encoder_fragmented_picture_accepted (sx sy fc num : Nat) (hsx : 1 ≤ sx) (hsy : 1 ≤ sy) (hfc : 1 ≤ fc)
    (s : VState) (hrem : s.fragRemaining = sx * sy) (hrec : s.fragReceived = some 0)
    (hx : s.slicesX = some sx) (hy : s.slicesY = some sy) (hnum : s.lastPicNum = some num) :
    ∃ s', runFrags s ((fragmentLayout sx sy fc).tail.map (fragUnit num)) = .ok s' ∧
      s'.fragRemaining = 0 ∧ s'.decoded = s.decoded ++ [num] := by
  have hpos : 0 < sx * sy := Nat.mul_pos hsx hsy
  obtain ⟨s', h1, h2, h3⟩ := frags_accepted sx sy fc num hsx hfc (sx * sy) 0 s (by omega)
    (by rw [hrem]; simp) (by rw [hrec]; simp) hx hy hnum
  refine ⟨s', by simpa [fragmentLayout] using h1, h2, ?_⟩
  rw [h3, if_pos hpos]

/-- **the lossless encoder's length fields are serialisable**: 8-bit fields, for every set of
    slices and every coefficient content (C14's theorem, needed here for 'serialising … yields a stream') -/
theorem lossless_length_fields_fit (minScaler : Int) (slices : List VC2.Model.SliceFit.SliceIn) :
    let r := VC2.Model.SliceFit.hqLossless minScaler slices
    1 ≤ r.1 ∧ minScaler ≤ r.1 ∧
    ∀ hs ∈ r.2, 0 ≤ hs.yLen ∧ hs.yLen ≤ 255 ∧ 0 ≤ hs.c1Len ∧ hs.c1Len ≤ 255 ∧ 0 ≤ hs.c2Len ∧ hs.c2Len ≤ 255 :=
  VC2.Props.C14.hq_lossless_lengths_fit_8_bits minScaler slices

/-- the first fragment carries no slices and sits at offset (0, 0) -/
theorem first_fragment_has_no_slices (sx sy fc : Nat) : (fragmentLayout sx sy fc).head? = some (0, 0, 0) := rfl

example : fragmentLayout 3 2 4 = [(0, 0, 0), (4, 0, 0), (2, 1, 1)] := by decide
example : fragmentLayout 2 2 1 = [(0, 0, 0), (1, 0, 0), (1, 1, 0), (1, 0, 1), (1, 1, 1)] := by decide
example : fragmentLayout 2 1 9 = [(0, 0, 0), (2, 0, 0)] := by decide

end VC2.Props.C03
