/-
  C23 — raw picture files round-trip and comparisons are exact.  Property theorems only.
  Model: VC2/Model/FileFormat.lean (tied to file_format.py / vc2_picture_compare.py by the `ff`
  correspondence); helper lemmas: VC2/Proofs/FileFormat.lean.
-/
import VC2.Proofs.FileFormat
namespace VC2.Props.C23
open VC2 VC2.Model.FileFormat VC2.Proofs.FileFormat

/-- **any bit depth**: a sample below `2^depth` written in the format's bytes-per-sample
    (little-endian) is read back exactly, for every depth ≥ 1 (8, 10, 16, 33, 64, 1000 …) -/
theorem sample_round_trip (d v : Nat) (hd : 1 ≤ d) (hv : v < 2 ^ d) :
    unpackSample d (packSample (bytesPerSample d) v) = v :=
  unpack_pack _ d v hv (bytesPerSample_holds d hd)

/-- bytes per sample: a power of two, large enough, and the least such -/
theorem bytes_per_sample_spec (d : Nat) (hd : 1 ≤ d) :
    (∃ k, bytesPerSample d = 2 ^ k) ∧ d ≤ 8 * bytesPerSample d ∧
    (d ≤ 8 → bytesPerSample d = 1) ∧ (9 ≤ d → 8 * bytesPerSample d < 2 * (d + 7)) :=
  ⟨⟨_, rfl⟩, bytesPerSample_holds d hd, bytesPerSample_small d hd, bytesPerSample_least d⟩

/-- whatever is in the padding bits of the file, a sample that is read lies within the depth -/
theorem read_sample_in_range : ∀ (bytes : List Nat) (d : Nat), (∀ b ∈ bytes, b < 256) →
    unpackSample d bytes < 2 ^ d := by
  intro bytes
  induction bytes with
  | nil => intro d _; simp only [unpackSample]; exact Nat.two_pow_pos d
  | cons b bs ih =>
    intro d h
    simp only [unpackSample]
    split
    · rename_i h8
      have hb := h b List.mem_cons_self
      have := ih (d - 8) (fun x hx => h x (List.mem_cons_of_mem _ hx))
      have e : 2 ^ d = 2 ^ (d - 8) * 256 := by
        have : d = (d - 8) + 8 := by omega
        conv => lhs; rw [this, Nat.pow_add]
      rw [e]; omega
    · exact Nat.mod_lt _ (Nat.two_pow_pos d)

/-- **whole pictures**: writing the planes of any well-formed picture (any sizes, any depths, any
    number of components) and reading them back with the same dimensions returns the picture -/
theorem picture_round_trip (cs : List Dim) (ps : List (List (List Nat))) (h : PictureOk cs ps) :
    readPicture cs (writePicture cs ps) = ps :=
  readPicture_writePicture cs ps h

/-- **'identical' is exact**: a component is reported identical iff all its samples are equal -/
theorem identical_iff_equal (a b : List Int) (h : a.length = b.length) :
    planeIdentical (deltas a b) = true ↔ a = b := by
  rw [planeIdentical_iff]; exact deltas_zero_iff a b h

/-- **the differing-pixel count is exact** -/
theorem differing_pixel_count (a b : List Int) :
    countNonzero (deltas a b) = ((a.zip b).filter (fun p => p.1 ≠ p.2)).length :=
  countNonzero_deltas a b

/-- **exit status 0 exactly when all samples and metadata match** -/
theorem compare_code_zero_iff (vpEq pcmEq numEq : Bool) (as bs : List (List Int))
    (hl : as.length = bs.length) (hlen : ∀ p ∈ as.zip bs, p.1.length = p.2.length) :
    compareCode vpEq pcmEq numEq (List.zipWith deltas as bs) = 0 ↔
      (vpEq = true ∧ pcmEq = true ∧ numEq = true ∧ as = bs) := by
  unfold compareCode
  cases vpEq <;> cases pcmEq <;> cases numEq <;> simp
  -- all metadata equal: the planes decide
  have key : ∀ (as bs : List (List Int)), as.length = bs.length →
      (∀ p ∈ as.zip bs, p.1.length = p.2.length) →
      ((List.zipWith deltas as bs).all planeIdentical = true ↔ as = bs) := by
    intro as
    induction as with
    | nil => intro bs h _; cases bs with
      | nil => simp
      | cons _ _ => cases h
    | cons a as ih =>
      intro bs h hl
      cases bs with
      | nil => cases h
      | cons b bs =>
        simp only [List.length_cons, Nat.add_right_cancel_iff] at h
        simp only [List.zipWith_cons_cons, List.all_cons, Bool.and_eq_true, List.cons.injEq]
        rw [identical_iff_equal a b (hl (a, b) (by simp)),
          ih bs h (fun p hp => hl p (by simp [hp]))]
  have := key as bs hl hlen
  rw [← this, List.all_eq_true]

/-- the other exit statuses name the first differing piece of metadata -/
theorem compare_code_metadata (vpEq pcmEq numEq : Bool) (planes : List (List Int)) :
    (vpEq = false → compareCode vpEq pcmEq numEq planes = 1) ∧
    (vpEq = true → pcmEq = false → compareCode vpEq pcmEq numEq planes = 2) ∧
    (vpEq = true → pcmEq = true → numEq = false → compareCode vpEq pcmEq numEq planes = 3) := by
  unfold compareCode
  cases vpEq <;> cases pcmEq <;> cases numEq <;> simp

/-! ### non-vacuity -/
example : bytesPerSample 10 = 2 ∧ bytesPerSample 17 = 4 ∧ bytesPerSample 33 = 8 ∧ bytesPerSample 64 = 8 ∧
    bytesPerSample 65 = 16 := by decide
example : packSample (bytesPerSample 10) 1023 = [255, 3] ∧ unpackSample 10 [255, 255] = 1023 := by decide
example : PictureOk [⟨2, 1, 10⟩, ⟨1, 1, 3⟩] [[[1023, 5]], [[7]]] := by
  simp [PictureOk, PlaneOk]
example : readPicture [⟨2, 1, 10⟩, ⟨1, 1, 3⟩] (writePicture [⟨2, 1, 10⟩, ⟨1, 1, 3⟩] [[[1023, 5]], [[7]]])
    = [[[1023, 5]], [[7]]] := by decide
example : compareCode true true true [deltas [1, 2] [1, 2], deltas [3] [4]] = 4 ∧
    countNonzero (deltas [3, 5, 9] [4, 5, 8]) = 2 := by decide

end VC2.Props.C23
