/-
  C15 — every generated sequence header encodes exactly the requested video format.
  Property theorems only.  Model: VC2/Model/SeqHeader.lean (tied to encoder/sequence_header.py by the
  `so` correspondence).  PARTIAL: proved for every parameter group, any base format values, any
  target, any preset table and any level column: each option the generator yields decodes to the
  requested values and passes the level's checks, and every header assembled by the zip consists of
  individually generated options.  The nested colour specification (index 0 with three sub-groups),
  the instantiation with the real preset tables and the choice/ranking of base video formats are
  validated end to end: every header of the real iter_sequence_headers is decoded by the real
  validator and compared with the configured format.
-/
import VC2.Model.SeqHeader
namespace VC2.Props.C15
open VC2.Model.SeqHeader


theorem find_of_nodup_keys : ∀ (ps : List (Nat × List Int)) (p : Nat × List Int),
    (ps.map (·.1)).Nodup → p ∈ ps → ps.find? (·.1 == p.1) = some p := by
  intro ps
  induction ps with
  | nil => intro p _ h; cases h
  | cons q qs ih =>
    intro p hn hp
    simp only [List.map_cons, List.nodup_cons] at hn
    rcases List.mem_cons.1 hp with h | h
    · subst h; simp
    · have hne : q.1 ≠ p.1 := by
        intro e; apply hn.1; rw [e]; exact List.mem_map.2 ⟨p, h, rfl⟩
      rw [List.find?_cons_of_neg (by simpa using hne)]
      exact ih p hn.2 h

/-- **every generated option decodes to the requested values and passes the level's checks** -/
theorem options_decode_to_target (base target : List Int) (presets : Option (List (Nat × List Int))) (L : Level)
    (hk : ∀ ps, presets = some ps → (ps.map (·.1)).Nodup) (o : Opt) (ho : o ∈ iterOptions base target presets L) :
    decode base presets o = some target ∧ levelOk L presets.isSome o = true := by
  unfold iterOptions at ho
  simp only [List.mem_append] at ho
  rcases ho with (ho | ho) | ho
  · split at ho
    · rename_i h
      simp only [List.mem_singleton] at ho; subst ho
      simp only [Bool.and_eq_true, beq_iff_eq] at h
      exact ⟨by simp [decode, h.1], by simp [levelOk, h.2]⟩
    · cases ho
  · cases presets with
    | none => cases ho
    | some ps =>
      simp only [List.mem_map, List.mem_filter] at ho
      obtain ⟨p, ⟨hp, hc⟩, rfl⟩ := ho
      simp only [Bool.and_eq_true, beq_iff_eq] at hc
      refine ⟨?_, by simp [levelOk, hc.1.2, hc.2]⟩
      simp only [decode]
      rw [find_of_nodup_keys ps p (hk ps rfl) hp]
      simp [hc.1.1]
  · split at ho
    · rename_i h
      simp only [List.mem_singleton] at ho; subst ho
      simp only [Bool.and_eq_true, Bool.or_eq_true] at h
      refine ⟨rfl, ?_⟩
      cases presets with
      | none => simp [levelOk, h.1.1, h.2]
      | some ps =>
        have : L.index 0 = true := by rcases h.1.2 with h2 | h2 <;> simp_all
        simp [levelOk, h.1.1, h.2, this]
    · cases ho

/-- each entry of each row of the zip is an item of the corresponding iterable (or `none` when
    that iterable is empty) -/
theorem zipLongest_entries {α : Type} (ls : List (List α)) (row : List (Option α)) (hr : row ∈ zipLongest ls) :
    row.length = ls.length ∧ ∀ i (hi : i < ls.length) (hi' : i < row.length),
      (ls[i] = [] ∧ row[i] = none) ∨ ∃ x ∈ ls[i], row[i] = some x := by
  unfold zipLongest at hr
  simp only [List.mem_map, List.mem_range] at hr
  obtain ⟨j, _, rfl⟩ := hr
  refine ⟨by simp, ?_⟩
  intro i hi hi'
  simp only [List.getElem_map]
  by_cases he : ls[i] = []
  · left; refine ⟨he, ?_⟩; simp [he]
  · right
    split
    · rename_i hj
      refine ⟨ls[i][j], List.getElem_mem _, ?_⟩
      exact List.getElem?_eq_getElem hj
    · obtain ⟨x, hx⟩ := Option.isSome_iff_exists.1 (by simp [List.getLast?_isSome, he] : (ls[i]).getLast?.isSome = true)
      exact ⟨x, List.mem_of_getLast? hx, hx⟩

theorem mem_of_mem_takeWhile {α : Type} (p : α → Bool) : ∀ (l : List α) (x : α), x ∈ l.takeWhile p → x ∈ l
  | [], _, h => by simp at h
  | a :: as, x, h => by
    rw [List.takeWhile_cons] at h
    split at h
    · rcases List.mem_cons.1 h with h | h
      · exact List.mem_cons.2 (Or.inl h)
      · exact List.mem_cons.2 (Or.inr (mem_of_mem_takeWhile p as x h))
    · cases h

/-- **the nested colour specification**: every option `iter_color_spec_options` generates — base
    format as it is, a preset other than 0, or index 0 with custom primaries / matrix / transfer function,
    each of those again "as preset 0 says" or explicit — decodes to the requested triple and passes the
    level's checks at both levels of nesting -/
theorem color_spec_options_decode_to_target (base target : List Int) (presets : List (Nat × List Int)) (L : CsLevel)
    (h3 : target.length = 3) (hk : (presets.map (·.1)).Nodup) (o : CsOpt) (ho : o ∈ iterColorSpec base target presets L) :
    decodeColorSpec base presets o = some target ∧ csLevelOk L o = true := by
  unfold iterColorSpec at ho
  simp only [List.mem_append] at ho
  rcases ho with (ho | ho) | ho
  · split at ho
    · rename_i h
      simp only [List.mem_singleton] at ho; subst ho
      simp only [Bool.and_eq_true, beq_iff_eq] at h
      exact ⟨by simp [decodeColorSpec, h.1], by simp [csLevelOk, h.2]⟩
    · cases ho
  · simp only [List.mem_map, List.mem_filter] at ho
    obtain ⟨p, ⟨hp, hc⟩, rfl⟩ := ho
    simp only [Bool.and_eq_true, beq_iff_eq] at hc
    refine ⟨?_, by simp [csLevelOk, hc.1.2, hc.2]⟩
    simp only [decodeColorSpec]
    rw [find_of_nodup_keys presets p hk hp]
    simp [hc.1.1.2]
  · split at ho
    · rename_i h
      simp only [Bool.and_eq_true] at h
      simp only [List.mem_filterMap] at ho
      obtain ⟨r, hr, hro⟩ := ho
      have hrow := mem_of_mem_takeWhile _ _ r hr
      obtain ⟨hlen, hent⟩ := zipLongest_entries _ r hrow
      simp only [List.length_cons, List.length_nil] at hlen
      -- the row has exactly three entries, all present
      match r, hlen, hro with
      | [some p, some m, some t], _, hro =>
        simp only [Option.some.injEq] at hro; subst hro
        have e0 := hent 0 (by simp) (by simp)
        have e1 := hent 1 (by simp) (by simp)
        have e2 := hent 2 (by simp) (by simp)
        simp only [List.getElem_cons_zero, List.getElem_cons_succ, reduceCtorEq, and_false, false_or, Option.some.injEq, exists_eq_right'] at e0 e1 e2
        have hp := options_decode_to_target _ _ none L.prim (by intro ps h; cases h) p e0
        have hm := options_decode_to_target _ _ none L.mat (by intro ps h; cases h) m e1
        have ht := options_decode_to_target _ _ none L.tf (by intro ps h; cases h) t e2
        refine ⟨?_, by simp [csLevelOk, h.1, h.2] ; exact ⟨⟨by simpa using hp.2, by simpa using hm.2⟩, by simpa using ht.2⟩⟩
        simp only [decodeColorSpec, hp.1, hm.1, ht.1]
        match target, h3 with
        | [a, b, c], _ => rfl
    · cases ho

/-! ### non-vacuity: frame rate 25/1 on a base format of 30000/1001 with presets 1..3 -/
def lv : Level := { flag := fun _ => true, index := fun i => i != 2, value := fun _ _ => true }
example : iterOptions [30000, 1001] [25, 1] (some [(1, [24000, 1001]), (3, [25, 1]), (2, [25, 1])]) lv
    = [.preset 3, .custom [25, 1]] := by decide
example : iterOptions [25, 1] [25, 1] none { lv with flag := fun b => !b } = [.off] := by decide
example : zipLongest [[1, 2, 3], [7], ([] : List Nat)] = [[some 1, some 7, none], [some 2, some 7, none], [some 3, some 7, none]] := by
  decide

/-! ### the whole of the source parameters -/

/-- hypotheses the per-group theorems need: preset tables keyed without repetition, colour triples -/
def Group.WF : Group → Prop
  | .simple _ _ ps _ => ∀ l, ps = some l → (l.map (·.1)).Nodup
  | .color _ t ps _ => t.length = 3 ∧ (ps.map (·.1)).Nodup

theorem group_option_ok (g : Group) (hw : Group.WF g) (o : GOpt) (ho : o ∈ g.options) :
    g.decode o = some g.target ∧ g.levelOk o = true := by
  cases g with
  | simple b t ps L =>
    simp only [Group.options, List.mem_map] at ho
    obtain ⟨o', ho', rfl⟩ := ho
    exact options_decode_to_target b t ps L hw o' ho'
  | color b t ps L =>
    simp only [Group.options, List.mem_map] at ho
    obtain ⟨o', ho', rfl⟩ := ho
    exact color_spec_options_decode_to_target b t ps L hw.1 hw.2 o' ho'

theorem filterMap_id_of_all_some {α : Type} : ∀ (r : List (Option α)), r.all Option.isSome = true →
    (r.filterMap id).length = r.length ∧ ∀ i (h1 : i < (r.filterMap id).length) (h2 : i < r.length), r[i] = some (r.filterMap id)[i]
  | [], _ => ⟨rfl, fun i h1 _ => absurd h1 (by simp)⟩
  | none :: r, h => by simp at h
  | some x :: r, h => by
    have h' : r.all Option.isSome = true := by simpa using h
    obtain ⟨l, f⟩ := filterMap_id_of_all_some r h'
    refine ⟨by simp [l], ?_⟩
    intro i h1 h2
    cases i with
    | zero => simp
    | succ i =>
      simp only [List.filterMap_cons, id, List.getElem_cons_succ]
      exact f i (by simpa [List.filterMap_cons] using h1) (by simpa using h2)

theorem takeWhile_sat {α : Type} (p : α → Bool) : ∀ (l : List α) (x : α), x ∈ l.takeWhile p → p x = true
  | [], _, h => by simp at h
  | a :: l, x, h => by
    rw [List.takeWhile_cons] at h
    split at h
    · rename_i ha
      rcases List.mem_cons.1 h with e | m
      · rw [e]; exact ha
      · exact takeWhile_sat p l x m
    · simp at h

/-- **the whole set of source parameters**: every row `iter_source_parameter_options` yields has one
    encoding per group, in order, and each of them decodes to that group's requested values and passes
    that group's level checks -/
theorem source_parameters_decode_to_target (tffBase tffTarget : Bool) (groups : List Group)
    (hw : ∀ g ∈ groups, Group.WF g) (row : List GOpt) (hr : row ∈ iterSourceParameters tffBase tffTarget groups) :
    tffBase = tffTarget ∧ row.length = groups.length ∧
    ∀ i (hi : i < groups.length) (hi' : i < row.length),
      groups[i].decode row[i] = some groups[i].target ∧ groups[i].levelOk row[i] = true := by
  unfold iterSourceParameters at hr
  split at hr
  · cases hr
  · rename_i htff
    simp only [List.mem_map] at hr
    obtain ⟨r, hrm, rfl⟩ := hr
    have hall : r.all Option.isSome = true := takeWhile_sat _ _ r hrm
    have hz := zipLongest_entries (groups.map Group.options) r (mem_of_mem_takeWhile _ _ r hrm)
    obtain ⟨hl, hf⟩ := filterMap_id_of_all_some r hall
    have hlen : r.length = groups.length := by simpa using hz.1
    refine ⟨by simpa using htff, by rw [hl, hlen], ?_⟩
    intro i hi hi'
    have hir : i < r.length := by rw [hlen]; exact hi
    have hsome := hf i hi' hir
    rcases hz.2 i (by simpa using hi) hir with ⟨_, hn⟩ | ⟨x, hx, hxe⟩
    · rw [hn] at hsome; cases hsome
    · rw [hxe] at hsome
      have hx' : x ∈ groups[i].options := by simpa using hx
      have e : (r.filterMap id)[i] = x := by cases hsome; rfl
      rw [e]
      exact group_option_ok groups[i] (hw _ (List.getElem_mem hi)) x hx'


end VC2.Props.C15
