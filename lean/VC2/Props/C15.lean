/-
  C15 — every generated sequence header encodes exactly the requested video format.
  Property theorems only.  Model: VC2/Model/SeqHeader.lean (tied to encoder/sequence_header.py by the
  `so` correspondence).  PARTIAL: proved for every parameter group, any base format values, any
  target, any preset table and any level column: each option the generator yields decodes to the
  requested values and passes the level's checks, and every header assembled by the zip consists of
  individually generated options.  The nested colour specification (index 0 with three sub-groups),
  the instantiation with the real preset tables and the choice/ranking of base video formats are
  validated end to end: every header of the real iter_sequence_headers is decoded by the real
  validator and compared with the configured format.
-/
import VC2.Model.SeqHeader
namespace VC2.Props.C15
open VC2.Model.SeqHeader


theorem find_of_nodup_keys : ∀ (ps : List (Nat × List Int)) (p : Nat × List Int),
    (ps.map (·.1)).Nodup → p ∈ ps → ps.find? (·.1 == p.1) = some p := by
  intro ps
  induction ps with
  | nil => intro p _ h; cases h
  | cons q qs ih =>
    intro p hn hp
    simp only [List.map_cons, List.nodup_cons] at hn
    rcases List.mem_cons.1 hp with h | h
    · subst h; simp
    · have hne : q.1 ≠ p.1 := by
        intro e; apply hn.1; rw [e]; exact List.mem_map.2 ⟨p, h, rfl⟩
      rw [List.find?_cons_of_neg (by simpa using hne)]
      exact ih p hn.2 h

/-- **every generated option decodes to the requested values and passes the level's checks** -/
theorem options_decode_to_target (base target : List Int) (presets : Option (List (Nat × List Int))) (L : Level)
    (hk : ∀ ps, presets = some ps → (ps.map (·.1)).Nodup) (o : Opt) (ho : o ∈ iterOptions base target presets L) :
    decode base presets o = some target ∧ levelOk L presets.isSome o = true := by
  unfold iterOptions at ho
  simp only [List.mem_append] at ho
  rcases ho with (ho | ho) | ho
  · split at ho
    · rename_i h
      simp only [List.mem_singleton] at ho; subst ho
      simp only [Bool.and_eq_true, beq_iff_eq] at h
      exact ⟨by simp [decode, h.1], by simp [levelOk, h.2]⟩
    · cases ho
  · cases presets with
    | none => cases ho
    | some ps =>
      simp only [List.mem_map, List.mem_filter] at ho
      obtain ⟨p, ⟨hp, hc⟩, rfl⟩ := ho
      simp only [Bool.and_eq_true, beq_iff_eq] at hc
      refine ⟨?_, by simp [levelOk, hc.1.2, hc.2]⟩
      simp only [decode]
      rw [find_of_nodup_keys ps p (hk ps rfl) hp]
      simp [hc.1.1]
  · split at ho
    · rename_i h
      simp only [List.mem_singleton] at ho; subst ho
      simp only [Bool.and_eq_true, Bool.or_eq_true] at h
      refine ⟨rfl, ?_⟩
      cases presets with
      | none => simp [levelOk, h.1.1, h.2]
      | some ps =>
        have : L.index 0 = true := by rcases h.1.2 with h2 | h2 <;> simp_all
        simp [levelOk, h.1.1, h.2, this]
    · cases ho

/-- each entry of each row of the zip is an item of the corresponding iterable (or `none` when
    that iterable is empty) -/
theorem zipLongest_entries {α : Type} (ls : List (List α)) (row : List (Option α)) (hr : row ∈ zipLongest ls) :
    row.length = ls.length ∧ ∀ i (hi : i < ls.length) (hi' : i < row.length),
      (ls[i] = [] ∧ row[i] = none) ∨ ∃ x ∈ ls[i], row[i] = some x := by
  unfold zipLongest at hr
  simp only [List.mem_map, List.mem_range] at hr
  obtain ⟨j, _, rfl⟩ := hr
  refine ⟨by simp, ?_⟩
  intro i hi hi'
  simp only [List.getElem_map]
  by_cases he : ls[i] = []
  · left; refine ⟨he, ?_⟩; simp [he]
  · right
    split
    · rename_i hj
      refine ⟨ls[i][j], List.getElem_mem _, ?_⟩
      exact List.getElem?_eq_getElem hj
    · obtain ⟨x, hx⟩ := Option.isSome_iff_exists.1 (by simp [List.getLast?_isSome, he] : (ls[i]).getLast?.isSome = true)
      exact ⟨x, List.mem_of_getLast? hx, hx⟩

/-! ### non-vacuity: frame rate 25/1 on a base format of 30000/1001 with presets 1..3 -/
def lv : Level := { flag := fun _ => true, index := fun i => i != 2, value := fun _ _ => true }
example : iterOptions [30000, 1001] [25, 1] (some [(1, [24000, 1001]), (3, [25, 1]), (2, [25, 1])]) lv
    = [.preset 3, .custom [25, 1]] := by decide
example : iterOptions [25, 1] [25, 1] none { lv with flag := fun b => !b } = [.off] := by decide
example : zipLongest [[1, 2, 3], [7], ([] : List Nat)] = [[some 1, some 7, none], [some 2, some 7, none], [some 3, some 7, none]] := by
  decide

end VC2.Props.C15
