/-
  C15 — every generated sequence header encodes exactly the requested video format.
  Property theorems only.  Model: VC2/Model/SeqHeader.lean (tied to encoder/sequence_header.py by the
  `so` correspondence).  PARTIAL: proved for every parameter group, any base format values, any
  target, any preset table and any level column: each option the generator yields decodes to the
  requested values and passes the level's checks, and every header assembled by the zip consists of
  individually generated options.  The nested colour specification (index 0 with three sub-groups),
  the instantiation with the real preset tables and the choice/ranking of base video formats are
  validated end to end: every header of the real iter_sequence_headers is decoded by the real
  validator and compared with the configured format.
-/
import VC2.Model.SeqHeader
namespace VC2.Props.C15
open VC2.Model.SeqHeader


theorem find_of_nodup_keys : ∀ (ps : List (Nat × List Int)) (p : Nat × List Int),
    (ps.map (·.1)).Nodup → p ∈ ps → ps.find? (·.1 == p.1) = some p := by
  intro ps
  induction ps with
  | nil => intro p _ h; cases h
  | cons q qs ih =>
    intro p hn hp
    simp only [List.map_cons, List.nodup_cons] at hn
    rcases List.mem_cons.1 hp with h | h
    · subst h; simp
    · have hne : q.1 ≠ p.1 := by
        intro e; apply hn.1; rw [e]; exact List.mem_map.2 ⟨p, h, rfl⟩
      rw [List.find?_cons_of_neg (by simpa using hne)]
      exact ih p hn.2 h

/-- **every generated option decodes to the requested values and passes the level's checks** -/
theorem options_decode_to_target (base target : List Int) (presets : Option (List (Nat × List Int))) (L : Level)
    (hk : ∀ ps, presets = some ps → (ps.map (·.1)).Nodup) (o : Opt) (ho : o ∈ iterOptions base target presets L) :
    decode base presets o = some target ∧ levelOk L presets.isSome o = true := by
  unfold iterOptions at ho
  simp only [List.mem_append] at ho
  rcases ho with (ho | ho) | ho
  · split at ho
    · rename_i h
      simp only [List.mem_singleton] at ho; subst ho
      simp only [Bool.and_eq_true, beq_iff_eq] at h
      exact ⟨by simp [decode, h.1], by simp [levelOk, h.2]⟩
    · cases ho
  · cases presets with
    | none => cases ho
    | some ps =>
      simp only [List.mem_map, List.mem_filter] at ho
      obtain ⟨p, ⟨hp, hc⟩, rfl⟩ := ho
      simp only [Bool.and_eq_true, beq_iff_eq] at hc
      refine ⟨?_, by simp [levelOk, hc.1.2, hc.2]⟩
      simp only [decode]
      rw [find_of_nodup_keys ps p (hk ps rfl) hp]
      simp [hc.1.1]
  · split at ho
    · rename_i h
      simp only [List.mem_singleton] at ho; subst ho
      simp only [Bool.and_eq_true, Bool.or_eq_true] at h
      refine ⟨rfl, ?_⟩
      cases presets with
      | none => simp [levelOk, h.1.1, h.2]
      | some ps =>
        have : L.index 0 = true := by rcases h.1.2 with h2 | h2 <;> simp_all
        simp [levelOk, h.1.1, h.2, this]
    · cases ho

/-- each entry of each row of the zip is an item of the corresponding iterable (or `none` when
    that iterable is empty) -/
theorem zipLongest_entries {α : Type} (ls : List (List α)) (row : List (Option α)) (hr : row ∈ zipLongest ls) :
    row.length = ls.length ∧ ∀ i (hi : i < ls.length) (hi' : i < row.length),
      (ls[i] = [] ∧ row[i] = none) ∨ ∃ x ∈ ls[i], row[i] = some x := by
  unfold zipLongest at hr
  simp only [List.mem_map, List.mem_range] at hr
  obtain ⟨j, _, rfl⟩ := hr
  refine ⟨by simp, ?_⟩
  intro i hi hi'
  simp only [List.getElem_map]
  by_cases he : ls[i] = []
  · left; refine ⟨he, ?_⟩; simp [he]
  · right
    split
    · rename_i hj
      refine ⟨ls[i][j], List.getElem_mem _, ?_⟩
      exact List.getElem?_eq_getElem hj
    · obtain ⟨x, hx⟩ := Option.isSome_iff_exists.1 (by simp [List.getLast?_isSome, he] : (ls[i]).getLast?.isSome = true)
      exact ⟨x, List.mem_of_getLast? hx, hx⟩

theorem mem_of_mem_takeWhile {α : Type} (p : α → Bool) : ∀ (l : List α) (x : α), x ∈ l.takeWhile p → x ∈ l
  | [], _, h => by simp at h
  | a :: as, x, h => by
    rw [List.takeWhile_cons] at h
    split at h
    · rcases List.mem_cons.1 h with h | h
      · exact List.mem_cons.2 (Or.inl h)
      · exact List.mem_cons.2 (Or.inr (mem_of_mem_takeWhile p as x h))
    · cases h

/-- **the nested colour specification**: every option `iter_color_spec_options` generates — base
    format as it is, a preset other than 0, or index 0 with custom primaries / matrix / transfer function,
    each of those again "as preset 0 says" or explicit — decodes to the requested triple and passes the
    level's checks at both levels of nesting -/
theorem color_spec_options_decode_to_target (base target : List Int) (presets : List (Nat × List Int)) (L : CsLevel)
    (h3 : target.length = 3) (hk : (presets.map (·.1)).Nodup) (o : CsOpt) (ho : o ∈ iterColorSpec base target presets L) :
    decodeColorSpec base presets o = some target ∧ csLevelOk L o = true := by
  unfold iterColorSpec at ho
  simp only [List.mem_append] at ho
  rcases ho with (ho | ho) | ho
  · split at ho
    · rename_i h
      simp only [List.mem_singleton] at ho; subst ho
      simp only [Bool.and_eq_true, beq_iff_eq] at h
      exact ⟨by simp [decodeColorSpec, h.1], by simp [csLevelOk, h.2]⟩
    · cases ho
  · simp only [List.mem_map, List.mem_filter] at ho
    obtain ⟨p, ⟨hp, hc⟩, rfl⟩ := ho
    simp only [Bool.and_eq_true, beq_iff_eq] at hc
    refine ⟨?_, by simp [csLevelOk, hc.1.2, hc.2]⟩
    simp only [decodeColorSpec]
    rw [find_of_nodup_keys presets p hk hp]
    simp [hc.1.1.2]
  · split at ho
    · rename_i h
      simp only [Bool.and_eq_true] at h
      simp only [List.mem_filterMap] at ho
      obtain ⟨r, hr, hro⟩ := ho
      have hrow := mem_of_mem_takeWhile _ _ r hr
      obtain ⟨hlen, hent⟩ := zipLongest_entries _ r hrow
      simp only [List.length_cons, List.length_nil] at hlen
      -- the row has exactly three entries, all present
      match r, hlen, hro with
      | [some p, some m, some t], _, hro =>
        simp only [Option.some.injEq] at hro; subst hro
        have e0 := hent 0 (by simp) (by simp)
        have e1 := hent 1 (by simp) (by simp)
        have e2 := hent 2 (by simp) (by simp)
        simp only [List.getElem_cons_zero, List.getElem_cons_succ, reduceCtorEq, and_false, false_or, Option.some.injEq, exists_eq_right'] at e0 e1 e2
        have hp := options_decode_to_target _ _ none L.prim (by intro ps h; cases h) p e0
        have hm := options_decode_to_target _ _ none L.mat (by intro ps h; cases h) m e1
        have ht := options_decode_to_target _ _ none L.tf (by intro ps h; cases h) t e2
        refine ⟨?_, by simp [csLevelOk, h.1, h.2] ; exact ⟨⟨by simpa using hp.2, by simpa using hm.2⟩, by simpa using ht.2⟩⟩
        simp only [decodeColorSpec, hp.1, hm.1, ht.1]
        match target, h3 with
        | [a, b, c], _ => rfl
    · cases ho

/-! ### non-vacuity: frame rate 25/1 on a base format of 30000/1001 with presets 1..3 -/
def lv : Level := { flag := fun _ => true, index := fun i => i != 2, value := fun _ _ => true }
example : iterOptions [30000, 1001] [25, 1] (some [(1, [24000, 1001]), (3, [25, 1]), (2, [25, 1])]) lv
    = [.preset 3, .custom [25, 1]] := by decide
example : iterOptions [25, 1] [25, 1] none { lv with flag := fun b => !b } = [.off] := by decide
example : zipLongest [[1, 2, 3], [7], ([] : List Nat)] = [[some 1, some 7, none], [some 2, some 7, none], [some 3, some 7, none]] := by
  decide

end VC2.Props.C15
