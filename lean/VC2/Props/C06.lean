/-
  C06 — deserialising then serialising any parseable stream reproduces its bytes.
  Property theorems only.  Models: VC2/Model/Serdes.lean, SerdesCodec.lean (over the C20 model);
  helper lemmas: VC2/Proofs/SerdesComplete.lean.  The tie of bitstream/vc2.py to the framework is
  the API lint and the byte-level round trip of harness/props/c06.py.
-/
import VC2.Proofs.SerdesComplete
namespace VC2.Props.C06
open VC2 VC2.Model.Serdes VC2.Proofs.Serdes

/-- **deserialise, then serialise, a run of fields**: for every sequence of primitive kinds whose
    codes are canonical and every bit string, if the deserialiser reads values `vs` and stops in
    front of `rest`, the serialiser given `vs` writes exactly the bits that were consumed -/
theorem deserialise_then_serialise_fields (C : Codec) (ks : List Prim) (bits : List Bool) (vs : List Val)
    (rest : List Bool) (hc : ∀ k ∈ ks, CompleteAt C k) (h : desPrims C ks bits = some (vs, rest)) :
    ∃ used, serPrims C ks vs = some used ∧ bits = used ++ rest :=
  desPrims_ser C ks bits vs rest hc h

/-- **the fixed-width codes are canonical** in the C20 bit model: booleans, n-bit and n-byte
    unsigned integers (parse codes, parse offsets, length fields), bit arrays (padding, unused
    bounded-block bits) and byte strings: whatever bits are read, writing the value read gives
    back exactly those bits -/
theorem fixed_width_codes_canonical :
    CompleteAt bitCodec .bool ∧ (∀ n, CompleteAt bitCodec (.nbits n)) ∧ (∀ n, CompleteAt bitCodec (.uintLit n)) ∧
    (∀ n, CompleteAt bitCodec (.bitarray n)) ∧ (∀ n, CompleteAt bitCodec (.bytes n)) :=
  ⟨bitCodec_complete_fixed _ (Or.inl rfl),
   fun n => bitCodec_complete_fixed _ (Or.inr (Or.inl ⟨n, rfl⟩)),
   fun n => bitCodec_complete_fixed _ (Or.inr (Or.inr (Or.inl ⟨n, rfl⟩))),
   fun n => bitCodec_complete_fixed _ (Or.inr (Or.inr (Or.inr (Or.inl ⟨n, rfl⟩)))),
   fun n => bitCodec_complete_fixed _ (Or.inr (Or.inr (Or.inr (Or.inr ⟨n, rfl⟩))))⟩

/-- a bit array / padding value read back is re-written bit for bit, so padding and unused
    bounded-block bits survive the round trip (instance of the above, stated for the record) -/
theorem padding_bits_survive (n : Nat) (bits : List Bool) (v : Leaf) (rest : List Bool)
    (h : bitCodec.dec (.bitarray n) bits = some (v, rest)) :
    ∃ used, bitCodec.enc (.bitarray n) v = some used ∧ bits = used ++ rest :=
  fixed_width_codes_canonical.2.2.2.1 n bits v rest h

/-- the second half of the property (re-deserialising the output yields an equal description) is
    C21's theorem applied to the re-serialised bits -/
theorem reserialised_output_deserialises_equal (prog : List Stmt) (d : Dict) (bits : List Bool) (used : Dict)
    (h : serialise bitCodec prog d = some (bits, used)) :
    deserialise bitCodec prog bits = some (used, []) := by
  have := VC2.Proofs.Serdes.serBody_des bitCodec bitCodec_sound prog 0 d [] bits used []
  unfold serialise at h
  split at h
  · rename_i b u hb
    simp at h; obtain ⟨h1, h2⟩ := h; subst h1 h2
    have r := (serBody_des bitCodec bitCodec_sound prog 0 d [] b u [] hb (by intro k _; rfl) []).1
    simpa [deserialise] using r
  · cases h

/-- the FULL statement (not proved here): for tree-shaped programs and all seven primitive kinds,
    including the exp-Golomb codes.  What is missing: canonicity of the exp-Golomb reader (it is
    checked exhaustively over all bit strings up to 14 bits by the correspondence) and the lifting of
    `deserialise_then_serialise_fields` from field runs to nested programs. -/
def FullStatement : Prop :=
  ∀ (prog : List Stmt) (bits : List Bool) (d : Dict) (rest : List Bool),
    deserialise bitCodec prog bits = some (d, rest) →
    ∃ used, serialise bitCodec prog d = some (used, d) ∧ bits = used ++ rest

/-! ### non-vacuity -/
example : bitCodec.dec (.uintLit 1) [true, false, true, true, false, false, true, false, true, true]
    = some (.int 178, [true, true]) := by decide +kernel
example : (desPrims bitCodec [.bool, .nbits 3, .bitarray 2] [true, true, false, true, false, true, true]).map (·.2)
    = some [true] := by decide +kernel

end VC2.Props.C06
