/-
  C06 — deserialising then serialising any parseable stream reproduces its bytes.
  Property theorems only.  Models: VC2/Model/Serdes.lean, SerdesCodec.lean (over the C20 model);
  helper lemmas: VC2/Proofs/SerdesComplete.lean.  The tie of bitstream/vc2.py to the framework is
  the API lint and the byte-level round trip of harness/props/c06.py.
-/
import VC2.Proofs.SerdesTree
import VC2.Props.C21
namespace VC2.Props.C06
open VC2 VC2.Model.Serdes VC2.Proofs.Serdes

/-- **deserialise, then serialise, a run of fields**: for every sequence of primitive kinds whose
    codes are canonical and every bit string, if the deserialiser reads values `vs` and stops in
    front of `rest`, the serialiser given `vs` writes exactly the bits that were consumed -/
theorem deserialise_then_serialise_fields (C : Codec) (ks : List Prim) (bits : List Bool) (vs : List Val)
    (rest : List Bool) (hc : ∀ k ∈ ks, CompleteAt C k) (h : desPrims C false ks bits = some (vs, rest)) :
    ∃ used, serPrims C ks vs = some used ∧ bits = used ++ rest := by
  obtain ⟨used, hs, hr⟩ := desPrims_ser C false ks bits vs rest hc h
  exact ⟨used, hs, by simpa [RealOf] using hr⟩

/-- … and inside a bounded block: the values may have been completed by 1-bits from beyond the end of
    the block; the serialiser then writes a code whose stored part is exactly the bits that were there
    and whose part past the end consists of 1-bits only -/
theorem deserialise_then_serialise_fields_in_block (C : Codec) (ks : List Prim) (bits : List Bool) (vs : List Val)
    (rest : List Bool) (hc : ∀ k ∈ ks, CompleteAt C k) (h : desPrims C true ks bits = some (vs, rest)) :
    ∃ used n, serPrims C ks vs = some used ∧ n ≤ used.length ∧ bits = used.take n ++ rest ∧
      (used.drop n).all id = true ∧ (n < used.length → rest = []) := by
  obtain ⟨used, hs, hr⟩ := desPrims_ser C true ks bits vs rest hc h
  unfold RealOf at hr; simp only [if_true] at hr
  obtain ⟨n, h1, h2, h3, h4⟩ := hr
  exact ⟨used, n, hs, h1, h2, h3, h4⟩

/-- **the fixed-width codes are canonical** in the C20 bit model: booleans, n-bit and n-byte
    unsigned integers (parse codes, parse offsets, length fields), bit arrays (padding, unused
    bounded-block bits) and byte strings: whatever bits are read, writing the value read gives
    back exactly those bits -/
theorem fixed_width_codes_canonical :
    CompleteAt bitCodec .bool ∧ (∀ n, CompleteAt bitCodec (.nbits n)) ∧ (∀ n, CompleteAt bitCodec (.uintLit n)) ∧
    (∀ n, CompleteAt bitCodec (.bitarray n)) ∧ (∀ n, CompleteAt bitCodec (.bytes n)) :=
  ⟨bitCodec_complete_fixed _ (Or.inl rfl),
   fun n => bitCodec_complete_fixed _ (Or.inr (Or.inl ⟨n, rfl⟩)),
   fun n => bitCodec_complete_fixed _ (Or.inr (Or.inr (Or.inl ⟨n, rfl⟩))),
   fun n => bitCodec_complete_fixed _ (Or.inr (Or.inr (Or.inr (Or.inl ⟨n, rfl⟩)))),
   fun n => bitCodec_complete_fixed _ (Or.inr (Or.inr (Or.inr (Or.inr ⟨n, rfl⟩))))⟩

/-- a bit array / padding value read back is re-written bit for bit, so padding and unused
    bounded-block bits survive the round trip (instance of the above, stated for the record) -/
theorem padding_bits_survive (n : Nat) (bits : List Bool) (v : Leaf) (rest : List Bool)
    (h : bitCodec.dec (.bitarray n) bits = some (v, rest)) :
    ∃ used, bitCodec.enc (.bitarray n) v = some used ∧ bits = used ++ rest :=
  fixed_width_codes_canonical.2.2.2.1 n bits v rest h

/-- the second half of the property (re-deserialising the output yields an equal description) is
    C21's theorem applied to the re-serialised bits -/
theorem reserialised_output_deserialises_equal (prog : List Stmt) (d : Dict) (bits : List Bool) (used : Dict)
    (h : serialise bitCodec prog d = some (bits, used)) :
    deserialise bitCodec prog bits = some (used, []) := by
  have := VC2.Props.C21.serialise_then_deserialise_bits prog d bits used h []
  simpa using this

/-- **every code of the bit layer is canonical**, including the interleaved exp-Golomb codes of
    `read_uint` / `read_sint`: whatever bits are read, writing the value read gives back exactly
    those bits -/
theorem all_codes_canonical : ∀ k, CompleteAt bitCodec k := by
  intro k
  cases k with
  | bool => exact fixed_width_codes_canonical.1
  | nbits n => exact fixed_width_codes_canonical.2.1 n
  | uintLit n => exact fixed_width_codes_canonical.2.2.1 n
  | bitarray n => exact fixed_width_codes_canonical.2.2.2.1 n
  | bytes n => exact fixed_width_codes_canonical.2.2.2.2 n
  | uint => exact bitCodec_complete_uint
  | sint => exact bitCodec_complete_sint

/-- **C06 on the framework model**: for every description program (nested sub-descriptions, lists
    of values and of sub-descriptions, bounded blocks — with their trailing unused bits, or with values
    that run past the end of the block and are completed by 1-bits —, byte alignment, computed values) and every bit string, if the deserialiser parses `bits` into the description `d`
    and stops in front of `rest`, then serialising `d` with the same program succeeds, uses `d` up
    (`verify_complete`), and writes exactly the bits that were consumed -/
theorem deserialise_then_serialise (prog : List Stmt) (bits : List Bool) (d : Dict) (rest : List Bool)
    (h : deserialise bitCodec prog bits = some (d, rest)) :
    ∃ used, serialise bitCodec prog d = some (used, d) ∧ bits = used ++ rest := by
  unfold deserialise at h
  obtain ⟨new, used, hn, hb, _, hs⟩ := desBody_ser bitCodec all_codes_canonical prog false 0 [] bits d rest h
  simp only [List.nil_append] at hn
  subst hn
  have := hs [] (by intro k _; rfl)
  simp only [List.append_nil, List.nil_append] at this
  exact ⟨used, by simp [serialise, this], by simpa [RealOf] using hb⟩

/-- … and the two halves together: the re-serialised bits deserialise to the same description -/
theorem round_trip_is_stable (prog : List Stmt) (bits : List Bool) (d : Dict)
    (h : deserialise bitCodec prog bits = some (d, [])) :
    ∃ out, serialise bitCodec prog d = some (out, d) ∧ out = bits ∧
      deserialise bitCodec prog out = some (d, []) := by
  obtain ⟨used, hs, hb⟩ := deserialise_then_serialise prog bits d [] h
  refine ⟨used, hs, by simpa using hb.symm, ?_⟩
  exact reserialised_output_deserialises_equal prog d used d hs

/-! ### non-vacuity -/
example : bitCodec.dec (.uintLit 1) [true, false, true, true, false, false, true, false, true, true]
    = some (.int 178, [true, true]) := by decide +kernel
example : (desPrims bitCodec false [.bool, .nbits 3, .bitarray 2] [true, true, false, true, false, true, true]).map (·.2)
    = some [true] := by decide +kernel
-- a nested program with exp-Golomb fields, a bounded block with two unused bits and byte alignment
def prog1 : List Stmt := [.prim "n" .uint, .block "unused" 6 [.prim "a" .sint], .align "al", .sub "s" [.prim "b" (.nbits 2)]]
def bits1 : List Bool := [false, true, true,  false, false, true, true,  true, false,  false, false, false, false, false, false, false,  true, false, true]
example : (deserialise bitCodec prog1 bits1).map (·.2) = some [true] := by decide +kernel
example : (deserialise bitCodec prog1 bits1).bind (fun r => (serialise bitCodec prog1 r.1).map (·.1)) = some (bits1.take 18) := by
  decide +kernel
-- a block that ends inside its contents: the three signed values of a 5-bit block are 1, -2 and 0 (the
-- sign of the second and the whole third value come from beyond the end); re-serialising gives the 7 bits back
def prog2 : List Stmt := [.block "pad" 5 [.primList "c" [.sint, .sint, .sint]], .prim "after" (.nbits 2)]
example : ((deserialise bitCodec prog2 [false, false, true, false, false, true, false]).bind
    (fun r => serialise bitCodec prog2 r.1)).map (·.1) = some [false, false, true, false, false, true, false] := by
  decide +kernel

end VC2.Props.C06
