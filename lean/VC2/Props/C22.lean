/-
  C22 — picture generators produce well-formed pictures for any regular format.
  Property theorems only.  PARTIAL: the model (VC2/Model/PictureGen.lean) covers how many pictures
  come out, their heights and numbers, and the final clipping; the floating-point colour conversion
  and the sprite/ramp drawing are outside any executable integer model and are covered by running
  the real generators over regular formats.
-/
import VC2.Model.PictureGen
namespace VC2.Props.C22
open VC2 VC2.Model.PictureGen

theorem everyOther_even (h first : Nat) (he : h % 2 = 0) (hf : first ≤ 1) : everyOther h first = h / 2 := by
  unfold everyOther; omega

theorem toInterlaced_spec (tff : Bool) (h : Nat) (he : h % 2 = 0) : ∀ (n : Nat),
    toInterlaced tff (List.replicate n h) = List.replicate n (h / 2) := by
  intro n
  unfold toInterlaced
  apply List.ext_getElem
  · simp
  · intro i h1 h2
    simp only [List.getElem_map, List.getElem_zipIdx, List.getElem_replicate]
    apply everyOther_even h _ he
    split <;> omega

theorem interleave_spec (tff : Bool) (f : Nat) : ∀ (n : Nat),
    interleaveFields tff (List.replicate (2 * n) f) = some (List.replicate n (2 * f)) := by
  intro n
  induction n with
  | zero => rfl
  | succ n ih =>
    have : 2 * (n + 1) = (2 * n) + 1 + 1 := by omega
    rw [this, List.replicate_succ, List.replicate_succ]
    simp only [interleaveFields]
    cases tff <;> simp [ih, List.replicate_succ]

theorem splitFields_spec (tff : Bool) (h : Nat) (he : h % 2 = 0) : ∀ (n : Nat),
    toSplitFields tff (List.replicate n h) = List.replicate (2 * n) (h / 2) := by
  intro n
  induction n with
  | zero => rfl
  | succ n ih =>
    unfold toSplitFields at ih ⊢
    rw [List.replicate_succ, List.flatMap_cons, ih]
    have e0 := everyOther_even h 0 he (by omega)
    have e1 := everyOther_even h 1 he (by omega)
    have : 2 * (n + 1) = (2 * n) + 1 + 1 := by omega
    rw [this, List.replicate_succ, List.replicate_succ]
    cases tff <;> simp [e0, e1, List.replicate_succ]

/-- **counts and heights**: a generator that draws `frames ≥ 1` frames of an even height `h`
    (`frames_to_samples` doubles the samples for interlaced sources) yields
    * frames pictures of height h when pictures are frames,
    * 2·frames pictures (an even number) of height h/2 when pictures are fields,
    for progressive and interlaced sources and either field order -/
theorem pictures_count_and_height (fields interlaced tff : Bool) (frames h : Nat) (he : h % 2 = 0) :
    toPictures fields interlaced tff (List.replicate (framesToSamples interlaced frames) h) =
      some (if fields then List.replicate (2 * frames) (h / 2) else List.replicate frames h) := by
  unfold toPictures framesToSamples
  cases fields <;> cases interlaced <;> simp only [Bool.not_false, Bool.not_true, if_true, if_false, Nat.mul_one]
  · simp
  · rw [Nat.mul_comm, toInterlaced_spec tff h he, interleave_spec]
    have : 2 * (h / 2) = h := by omega
    simp [this]
  · rw [splitFields_spec tff h he]; simp
  · rw [Nat.mul_comm, toInterlaced_spec tff h he]; simp

/-- with an odd height the interlaced-frame path has no well-formed output (the two fields differ
    in size): the property's regularity hypothesis is needed -/
example : toPictures false true true [5, 5] = none := by decide

/-- **numbered consecutively from 0** -/
theorem numbered_from_zero (pics : List Nat) : (number pics).map (·.1) = List.range pics.length := by
  unfold number
  apply List.ext_getElem
  · simp
  · intro i h1 h2; simp

/-- **every sample within the bit depth**, whatever the colour conversion produced -/
theorem samples_within_depth (depth : Nat) (r : Int) : 0 ≤ clipToDepth depth r ∧ clipToDepth depth r ≤ 2 ^ depth - 1 := by
  have : (0 : Int) < 2 ^ depth := Int.pow_pos (by decide)
  unfold clipToDepth VC2.Gen.clip pymin pymax
  split <;> split <;> omega

example : toPictures true true false (List.replicate (framesToSamples true 3) 8) = some (List.replicate 6 4) := by decide
example : toPictures false true true (List.replicate (framesToSamples true 3) 8) = some [8, 8, 8] := by decide

end VC2.Props.C22
