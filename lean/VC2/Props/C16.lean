/-
  C16 — the encoder respects any level table it claims to satisfy.  Property theorems only.
  PARTIAL, and the full statement is FALSE of the unchanged code (finding F8): the encoder never
  consults seven of the level keys the validator checks.  Proved here, on the C17 constraint-table
  model: if all values the validator will check lie jointly in ONE column of the table (which is
  what the encoder establishes for the keys it solves, via filter_constraint_table), then the
  validator's one-at-a-time checking accepts the whole sequence of checks — for every table
  without catch-all columns and every order of checks.  The generated key inventories pin down
  exactly which checked keys the encoder does not consult; the check treats a validator rejection
  naming one of THOSE keys as the recorded finding and anything else as a violation.
-/
import VC2.Props.C17
import VC2.Gen.LevelKeys
namespace VC2.Props.C16
open VC2 VC2.Model.Constraint VC2.Proofs.Constraint

/-- a column that admits every (key, value) of the assignment keeps every prefix allowed -/
theorem column_admits_prefixes (t : Table) (c : Comb) (hc : c ∈ t) (kvs : List (Key × Int))
    (h : ∀ kv ∈ kvs, c.admits kv = true) (n : Nat) : isAllowed t (kvs.take n) = true := by
  unfold isAllowed filterTable
  simp only [Bool.not_eq_true', List.isEmpty_eq_false_iff]
  intro hempty
  have : c ∈ t.filter (fun c => (kvs.take n).all c.admits || c.isEmpty) := by
    rw [List.mem_filter]
    refine ⟨hc, ?_⟩
    simp only [Bool.or_eq_true, List.all_eq_true]
    left
    intro kv hkv
    exact h kv (List.mem_of_mem_take hkv)
  rw [hempty] at this
  cases this

/-- **joint membership in one column ⇒ the validator accepts every check**, in any order of
    distinct keys -/
theorem one_column_implies_validator_accepts (t : Table) (hnc : NoCatchAll t) (c : Comb) (hc : c ∈ t)
    (kvs : List (Key × Int)) (hnd : (kvs.map (·.1)).Nodup) (h : ∀ kv ∈ kvs, c.admits kv = true) :
    assertSeq t [] kvs = some kvs := by
  have key := VC2.Props.C17.incremental_check_exact t hnc kvs hnd
  have hsome : (assertSeq t [] kvs).isSome = true :=
    key.1.2 (fun n _ _ => column_admits_prefixes t c hc kvs h n)
  cases hr : assertSeq t [] kvs with
  | none => rw [hr] at hsome; cases hsome
  | some r => rw [key.2 r hr]

/-- part of the recorded finding F8 as a kernel-checked fact about the GENERATED inventories: these
    five level keys are checked by the validator and are not even mentioned in encoder/*.py or
    codec_features.py (the other two recorded keys, dwt_depth_ho and slice_size_scaler, occur there only
    as configuration fields; that they are not consulted as level keys is established dynamically).
    Any change of this set breaks the obligation. -/
theorem keys_never_mentioned_by_the_encoder :
    (VC2.Gen.validatorLevelKeys.filter (fun k => !VC2.Gen.encoderLevelKeys.contains k)) =
      ["major_version", "minor_version", "qindex", "quant_matrix_values", "total_slice_bytes"] := by
  decide +kernel

/-- negation witness of the full statement on the model: a one-column table restricting a key the
    encoder ignores rejects a value the encoder is free to produce -/
example : assertSeq [[("level", .set { values := [1] }), ("qindex", .set { values := [0] })]] [] [("level", 1), ("qindex", 5)] = none := by
  decide +kernel
example : assertSeq [[("level", .set { values := [1] }), ("slices_x", .set { ranges := [(1, 4)] })]] [] [("level", 1), ("slices_x", 2)]
    = some [("level", 1), ("slices_x", 2)] := by decide +kernel

end VC2.Props.C16
