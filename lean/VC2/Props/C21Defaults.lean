/-
  C21 — default-value lookups of the Serialiser.  Property theorems only.
  Model: VC2/Model/SerdesDefaults.lean ("complete the description from the default table, then
  serialise strictly"), tied to Serialiser(default_values=...) by the `sd F` correspondence;
  lemmas: VC2/Proofs/SerdesDefaults.lean.
-/
import VC2.Proofs.SerdesDefaults
import VC2.Props.C21
namespace VC2.Props.C21
open VC2 VC2.Model.Serdes VC2.Proofs.Serdes VC2.Proofs.SerdesDefaults

/-- **serialise with defaults, then deserialise**: for every program, default table and description -
    with any number of values omitted - if the Serialiser succeeds, deserialising its bits with the same
    program yields the description that was serialised, omitted values INCLUDED (as their defaults),
    and stops exactly behind the bits -/
theorem serialise_with_defaults_then_deserialise (C : Codec) (hS : Sound C) (hO : OnesBound C) (D : Defaults)
    (prog : List Stmt) (d : Dict) (bits : List Bool) (used : Dict)
    (h : serialiseD C D prog d = some (bits, used)) (rest : List Bool) :
    deserialise C prog (bits ++ rest) = some (used, rest) :=
  serialise_then_deserialise C hS hO prog (fillBody D "" prog d) bits used h rest

/-- **explicit values are never replaced by defaults**: whatever the program and the table, a value
    present in a description is still there, unchanged, after completion (at every level: the same
    function completes each sub-description) -/
theorem explicit_values_win (D : Defaults) (ctx : String) (prog : List Stmt) (d : Dict) (t : String) (v : Leaf)
    (h : d.get? t = some (.leaf v)) : (fillBody D ctx prog d).get? t = some (.leaf v) :=
  fillBody_keeps D prog ctx d t v h

/-- **an omitted value takes the table's default** for the type of the current context ... -/
theorem omitted_value_takes_default (D : Defaults) (ctx t : String) (k : Prim) (d : Dict) (v : Leaf)
    (hm : d.get? t = none) (hd : D ctx t = some v) : (fillStmt D ctx (.prim t k) d).get? t = some (.leaf v) := by
  unfold fillStmt; simp only [hm, hd]; exact get?_append_none d t _ hm

/-- ... and without an entry in the table nothing is invented: serialisation still fails -/
theorem omitted_value_without_default_fails (C : Codec) (D : Defaults) (ctx t : String) (k : Prim) (d acc : Dict) (blk : Bool) (pos : Nat)
    (hm : d.get? t = none) (hd : D ctx t = none) :
    fillStmt D ctx (.prim t k) d = d ∧ serStmt C blk pos (.prim t k) (fillStmt D ctx (.prim t k) d) acc = none := by
  have e : fillStmt D ctx (.prim t k) d = d := by unfold fillStmt; simp only [hm, hd]
  exact ⟨e, by rw [e]; exact missing_value_fails C blk pos t k d acc hm⟩

/-- a sub-description is completed in place, under the table of ITS type (the name it is entered by) -/
theorem sub_description_completed_in_place (D : Defaults) (ctx t : String) (body : List Stmt) (d d' : Dict)
    (h : d.get? t = some (.dict d')) : (fillStmt D ctx (.sub t body) d).get? t = some (.dict (fillBody D t body d')) := by
  unfold fillStmt; simp only [h]; exact get?_set_eq d t _ _ h

/-- list targets: elements beyond those supplied take the default, those supplied stay -/
theorem list_target_is_padded_with_defaults (D : Defaults) (ctx t : String) (ks : List Prim) (d : Dict) (vs : List Val) (v : Leaf)
    (h : d.get? t = some (.list vs)) (hd : D ctx t = some v) :
    (fillStmt D ctx (.primList t ks) d).get? t = some (.list (vs ++ List.replicate (ks.length - vs.length) (.leaf v))) := by
  unfold fillStmt; simp only [h, hd]; exact get?_set_eq d t _ _ h

/-! ### non-vacuity with the real bit codec: defaults inside a list of typed sub-descriptions -/
def progD : List Stmt := [
  .prim "flag" .bool,
  .subList "items" [[.prim "n" .uint, .primList "xs" [.sint, .sint]], [.prim "n" .uint, .primList "xs" [.sint]]],
  .sub "tail" [.prim "w" (.nbits 4)]]
def tableD : Defaults := fun ctx t =>
  if ctx == "items" && t == "n" then some (.int 2) else if ctx == "items" && t == "xs" then some (.int (-1))
  else if ctx == "tail" && t == "w" then some (.int 9) else none
/-- only the flag, one n and one list element are supplied -/
def ctxD : Dict := [("flag", .leaf (.bool true)), ("items", .list [.dict [("xs", .list [.leaf (.int 5)])]])]

example : ((serialiseD bitCodec tableD progD ctxD).map (fun r => r.1.length)) = some 25 := by decide +kernel
/-- the deserialised description has the omitted values: the second item's `n` is the default 2 -/
example : ((serialiseD bitCodec tableD progD ctxD).bind (fun r => (deserialise bitCodec progD r.1).map (fun q => q.2.length))) = some 0 := by
  decide +kernel
/-- without the table the same description cannot be serialised -/
example : (serialiseD bitCodec (fun _ _ => none) progD ctxD).isNone = true := by decide +kernel

end VC2.Props.C21
