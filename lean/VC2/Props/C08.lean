/-
  C08 — the bitstream deserialiser and the validator read identical content.  Property theorems
  only, on the C20 model of the two readers (VC2/Model/BitIO.lean).  PARTIAL: proved is the
  slice level — inside any bounded block (any contents, any length >= 0) the BitstreamReader used by
  the deserialiser and the validator's reader return the same coefficient lists, stay in
  corresponding states, and end the block at the same position; header fields are read by both
  through the same primitive kinds (C20 round trips).  That both parsers apply the same sequence of
  reads, and that dequantisation + DC prediction of the deserialised values equals the validator's
  transform data, is established by the correspondence on real streams.
-/
import VC2.Props.C20
namespace VC2.Props.C08
open VC2 VC2.Model.BitIO VC2.Proofs.BitIO


/-- `n` successive `read_sint` calls (one slice band / a whole slice component) -/
def Reader.readSints : Nat → Reader → Except IOErr (List Int × Reader)
  | 0, r => .ok ([], r)
  | n + 1, r => do
    let (v, r1) ← r.readSint
    let (vs, r2) ← Reader.readSints n r1
    pure (v :: vs, r2)

def DReader.readSintsb : Nat → DReader → Except IOErr (List Int × DReader)
  | 0, d => .ok ([], d)
  | n + 1, d => do
    let (v, d1) ← d.readSintG true
    let (vs, d2) ← DReader.readSintsb n d1
    pure (v :: vs, d2)

/-- both parsers read the same coefficient lists from a bounded block, whatever its contents and
    length, and are left in corresponding states (same position, same bits remaining) -/
theorem coefficient_runs_agree : ∀ (n : Nat) (r : Reader) (d : DReader), Sim r d →
    Agree (Reader.readSints n r) (DReader.readSintsb n d) := by
  intro n
  induction n with
  | zero => intro r d h; simp [Reader.readSints, DReader.readSintsb, AgreeR]; exact h
  | succ n ih =>
    intro r d h
    unfold Reader.readSints DReader.readSintsb
    apply agree_bind _ _ _ _ (sim_readSint r d h)
    intro v r1 d1 hs
    apply agree_bind _ _ _ _ (ih r1 d1 hs)
    intro vs r2 d2 hs2
    simp [AgreeR, pure, Except.pure]; exact hs2

theorem readBits_flushLoop : ∀ (k : Nat) (r : Reader) (d : DReader), r.all = d.all → r.pos = d.pos → r.rem = none →
    match Reader.readBits k r, DReader.flushLoop k d with
    | .ok (_, r'), .ok d' => r'.all = d'.all ∧ r'.pos = d'.pos ∧ r'.rem = none
    | .error e, .error e' => e = e'
    | _, _ => False := by
  intro k
  induction k with
  | zero => intro r d ha hp hr; simp [Reader.readBits, DReader.flushLoop]; exact ⟨ha, hp, hr⟩
  | succ k ih =>
    intro r d ha hp hr
    simp only [Reader.readBits, DReader.flushLoop, Reader.readBit, hr, Reader.rawBit, DReader.readBit, bind, Except.bind]
    rw [← ha, ← hp]
    cases hg : r.all[r.pos]? with
    | none => simp
    | some b =>
      simp only
      have := ih ({ all := r.all, pos := r.pos + 1 } : Reader)
        ({ all := r.all, pos := r.pos + 1, bitsLeft := d.bitsLeft - 1 } : DReader) rfl rfl rfl
      cases h1 : Reader.readBits k ({ all := r.all, pos := r.pos + 1 } : Reader) with
      | error e1 =>
        rw [h1] at this
        cases h2 : DReader.flushLoop k ({ all := r.all, pos := r.pos + 1, bitsLeft := d.bitsLeft - 1 } : DReader) with
        | error e2 => rw [h2] at this; simpa using this
        | ok d2 => rw [h2] at this; exact this.elim
      | ok q =>
        rw [h1] at this
        cases h2 : DReader.flushLoop k ({ all := r.all, pos := r.pos + 1, bitsLeft := d.bitsLeft - 1 } : DReader) with
        | error e2 => rw [h2] at this; exact this.elim
        | ok d2 => rw [h2] at this; simpa [pure, Except.pure] using this

/-- **end of a bounded block**: the deserialiser closes the block and reads the unused bits as
    padding; the validator flushes `bits_left` bits: both end at the same position (or both hit the
    end of the input) -/
theorem block_end_agrees (r : Reader) (d : DReader) (h : Sim r d) :
    match (do let (n, r1) ← r.boundedBlockEnd; Reader.readBits n.toNat r1), d.flushInputb with
    | .ok (_, r'), .ok d' => r'.all = d'.all ∧ r'.pos = d'.pos ∧ r'.rem = none
    | .error e, .error e' => e = e'
    | _, _ => False := by
  obtain ⟨ha, hp, n, hn, hl⟩ := h
  simp only [Reader.boundedBlockEnd, hn, bind, Except.bind, DReader.flushInputb, hl]
  exact readBits_flushLoop _ { r with rem := none } d ha hp rfl

/-- entering a block of `n >= 0` bits puts the two readers in corresponding states -/
theorem block_begin_corresponds (all : List Bool) (pos : Nat) (n : Int) (hn : 0 ≤ n) :
    Sim { all := all, pos := pos, rem := some n } { all := all, pos := pos, bitsLeft := n } :=
  (VC2.Props.C20.readers_agree all pos n hn).1

example : (Reader.readSints 3 { all := [false, true, true, true, false, false, true, false], pos := 0, rem := some 5 }).toOption.map (·.1)
    = (DReader.readSintsb 3 { all := [false, true, true, true, false, false, true, false], pos := 0, bitsLeft := 5 }).toOption.map (·.1) := by
  decide

end VC2.Props.C08
