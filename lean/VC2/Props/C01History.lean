/-
  C01 — the history-level statement: **the validator accepts a history of individually valid data
  units if and only if the history obeys the stream-structure rules.**  Property theorems only.

  The rules are `VC2.Model.StreamSpec.conformant` (read that file: it mentions no byte position, no
  optional state key, no exception class and no order of checks — per sequence: sequence header
  first, parse offsets, byte-identical repeated headers, profile/version-permitted parse codes,
  consecutive picture numbers with an even first field, well-formed fragmented pictures, the generic
  and the level ordering patterns, whole frames, complete fragmented pictures and the least major
  version at the end).  The validator is `VC2.Model.Stream.validate`, tied to decoder/*.py by the
  `vd` correspondence; the rules are additionally compared with the Python reference acceptor used
  as the search oracle (`cs` correspondence), and the meaning of the two ordering-pattern conditions
  as regular languages is C18's theorem (`accepts_iff_prefix`, `complete_iff`).
  Helper lemmas: VC2/Proofs/StreamSpec.lean.
-/
import VC2.Proofs.StreamSpec
import VC2.Proofs.StreamRules
namespace VC2.Props.C01
open VC2 VC2.Model.SymRe VC2.Model.Stream VC2.Model.StreamSpec VC2.Proofs.StreamSpec VC2.Model.StreamRules

/-- "assembled from individually valid data units": every unit's parse code is one of the eight of
    the standard and is dispatched as its kind, every unit is at least a parse_info header long, and
    within a sequence byte-identical sequence headers carry identical parameters -/
def WellFormed (us : List DUnit) : Prop :=
  (∀ u ∈ us, unitWF u = true) ∧ hdrsAgree none us = true

/-- **C01, history level**: for every history (any length, any number of sequences, any offsets,
    numbers, profiles, versions, level pattern) the validator model accepts iff the rules hold -/
theorem validator_accepts_iff_conformant (cfg : Config) (us : List DUnit) (h : WellFormed us) :
    (validate cfg us).1 = .ok ↔ conformant cfg us = true :=
  (run_spec cfg us h.1).1 0 [] h.2

/-- **the rules, one at a time** (read `VC2/Model/StreamRules.lean`: eight small checkers, each with its
    own memory, none looking at another's): the validator accepts a history of individually valid data
    units iff (1) every sequence starts with a sequence header and the stream ends after an
    end-of-sequence, (2) the parse offsets are right, (3) repeated sequence headers are byte-identical
    and the version admits the profile, (4) every parse code is permitted by profile and version,
    (5) picture numbers are consecutive with an even first field and whole frames, (6) fragmented pictures
    are well formed and complete, (7) the major version is the least one needed, (8) the generic and the
    level ordering patterns match -/
theorem validator_accepts_iff_all_rules (cfg : Config) (us : List DUnit) (h : WellFormed us) :
    (validate cfg us).1 = .ok ↔
      (shapeRule false us = true ∧ offsetsRule none us = true ∧ headersRule none us = true ∧
       codesRule none us = true ∧ numbersRule none us = true ∧ fragmentsRule cfg none us = true ∧
       versionRule none us = true ∧ patternsRule cfg none us = true) := by
  rw [validator_accepts_iff_conformant cfg us h]
  unfold conformant
  rw [(VC2.Proofs.StreamRules.spec_eq_rules cfg us).1]
  unfold allRules
  simp only [Bool.and_eq_true]
  constructor
  · rintro ⟨⟨⟨⟨⟨⟨⟨a, b⟩, c⟩, d⟩, e⟩, f⟩, g⟩, i⟩; exact ⟨a, b, c, d, e, f, g, i⟩
  · rintro ⟨a, b, c, d, e, f, g, i⟩; exact ⟨⟨⟨⟨⟨⟨⟨a, b⟩, c⟩, d⟩, e⟩, f⟩, g⟩, i⟩

/-- … and every history the rules do not accept is *rejected with a conformance error* (or the
    padding desynchronisation marker), never with another exception — together with
    `validate_never_crashes` this is the full statement of C01 on the model -/
theorem not_conformant_is_rejected (cfg : Config)
    (hlevel : (Matcher.init false cfg.levelPattern).matchSymbol "sequence_header" ≠ none)
    (us : List DUnit) (h : WellFormed us) (hn : conformant cfg us = false) :
    (∃ cls, (validate cfg us).1 = .reject cls) ∨ (validate cfg us).1 = .desync := by
  have h1 : (validate cfg us).1 ≠ .ok := by
    intro hok
    rw [(validator_accepts_iff_conformant cfg us h).1 hok] at hn; cases hn
  have h2 := validate_never_crashes cfg hlevel us (fun u hu => by
    intro hc
    exact ((codeFacts u (h.1 u hu)).hdr).1 hc)
  cases hv : (validate cfg us).1 with
  | ok => exact absurd hv h1
  | reject cls => exact Or.inl ⟨cls, rfl⟩
  | desync => exact Or.inr rfl
  | crash w => rw [hv] at h2; exact absurd trivial h2

/-- sequences are judged independently: the rules hold for a concatenation of two streams iff they
    hold for each (the rule-level face of C10) -/
theorem conformant_append (cfg : Config) (us1 us2 : List DUnit) (h1 : conformant cfg us1 = true) :
    conformant cfg (us1 ++ us2) = conformant cfg us2 := by
  unfold conformant at *
  suffices ∀ (us : List DUnit) (o : Option Ctx), specRun cfg o us = true →
      specRun cfg o (us ++ us2) = specRun cfg none us2 from this us1 none h1
  intro us
  induction us with
  | nil =>
    intro o h
    cases o with
    | none => rfl
    | some c => simp [specRun] at h
  | cons u rest ih =>
    intro o h
    cases o with
    | none =>
      rw [specRun_none_cons] at h
      obtain ⟨g, l, hg, hl, hh, hs⟩ := h
      have := ih _ hs
      rw [List.cons_append]
      conv => lhs; unfold specRun
      simp only [hg, hl, hh, Bool.true_and]
      exact this
    | some c =>
      rw [specRun_some_cons] at h
      obtain ⟨g, l, hg, hl, hu, hr⟩ := h
      rw [List.cons_append]
      conv => lhs; unfold specRun
      simp only [hg, hl, hu, Bool.true_and]
      by_cases hk : u.kind = .eos
      · rw [if_pos hk] at hr ⊢
        rw [hr.1, Bool.true_and]
        exact ih _ hr.2
      · rw [if_neg hk] at hr ⊢
        exact ih _ hr

/-! ### non-vacuity: the hypotheses are met by concrete histories on both sides of the iff -/

example : WellFormed [hdr 0, pic 7 30, fr0 8 50, frd 8 1 0 0 40, frd 8 1 1 0 45, eos 45] := by
  constructor <;> decide
example : conformant cfg0 [hdr 0, pic 7 30, fr0 8 50, frd 8 1 0 0 40, frd 8 1 1 0 45, eos 45] = true := by
  decide +kernel
example : conformant cfg0 [hdr 0, fr0 8 30, frd 8 2 0 0 40, eos 45, hdr 0, eos 30] = true := by decide +kernel
example : conformant cfg0 [hdr 0, pic 7 30, eos 50] = false := by decide +kernel                    -- version 3 without fragments
example : conformant cfg0 [hdr 0, pic 7 30, pic 9 50, eos 50] = false := by decide +kernel
example : conformant cfg0 [hdr 0, fr0 8 30, frd 8 1 1 0 40, eos 45] = false := by decide +kernel
example : conformant cfg0 [hdr 0, fr0 8 30, frd 8 1 0 0 40, eos 45] = false := by decide +kernel   -- incomplete picture
example : conformant cfg0 [hdr 0, pic 7 30] = false := by decide +kernel                            -- no end of sequence
example : conformant cfg0 [pic 7 0, eos 50] = false := by decide +kernel                            -- no header first
-- which rule a non-conformant history breaks: skipped number -> (5) only; slices out of order -> (6) only
example : numbersRule none [hdr 0, pic 7 30, pic 9 50, eos 50] = false ∧
    fragmentsRule cfg0 none [hdr 0, pic 7 30, pic 9 50, eos 50] = true ∧ offsetsRule none [hdr 0, pic 7 30, pic 9 50, eos 50] = true := by
  decide +kernel
example : fragmentsRule cfg0 none [hdr 0, fr0 8 30, frd 8 1 1 0 40, eos 45] = false ∧
    numbersRule none [hdr 0, fr0 8 30, frd 8 1 1 0 40, eos 45] = true := by decide +kernel

end VC2.Props.C01
