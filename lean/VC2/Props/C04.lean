/-
  C04 — lossless and unquantised encodings reconstruct pictures exactly.  Property theorems only.
  PARTIAL: every link of the encode/decode chain is a theorem for all inputs, on its own model —
  offset removal/restoration and clipping (Model/Picture.lean), padding + forward/inverse wavelet
  transform (Model/Wavelet.lean, C11), DC prediction and its inverse (Model/Picture.lean),
  quantisation at index 0 (generated kernels, C12), slice tiling (generated kernels, C13), coefficient
  coding (Model/BitIO.lean, C20).  The composition of the links into one end-to-end function is
  validated by the end-to-end correspondence, not proved.
-/
import VC2.Proofs.Picture
import VC2.Props.C11
import VC2.Props.C12
namespace VC2.Props.C04
open VC2 VC2.Model.Picture VC2.Proofs.Picture

/-- **sample domain**: for every bit depth ≥ 1 and every pixel value within it, removing the
    offset, clipping and restoring the offset is the identity (the decoder's clip never bites on a
    losslessly reconstructed picture) -/
theorem sample_pipeline_identity (d : Nat) (hd : 1 ≤ d) (p : Int) (h0 : 0 ≤ p) (h1 : p ≤ 2 ^ d - 1) :
    offsetSample d (clipSample d (removeOffsetSample d p)) = p := by
  have h2 := two_half d hd
  unfold offsetSample removeOffsetSample
  rw [clip_in_range d (p - half d) (by omega) (by omega)]
  omega

/-- **DC prediction**: the decoder's prediction undoes the encoder's, for every band -/
theorem dc_prediction_inverse (w h : Nat) (f : Arr) (y x : Nat) :
    dcPrediction w h (applyDcPrediction w h f) y x = f y x :=
  dcPrediction_applyDcPrediction w h f y x

/-- **quantisation index 0 is the identity** (generated forward_quant / inverse_quant) -/
theorem unquantised_coefficients_exact (x : Int) : VC2.Gen.inverse_quant (VC2.Gen.forward_quant x 0) 0 = x :=
  VC2.Props.C12.lossless_index_0 x

/-- **transform**: padding, forward transform, inverse transform and padding removal return the
    component exactly — every filter pair, every depth pair, every size ≥ 1×1 (C11) -/
theorem transform_inverse (fv fho : VC2.Model.Wavelet.Filter) (dho d : Nat) (a : VC2.Model.Wavelet.Arr) (ph pw : Nat)
    (hh1 : 1 ≤ a.h) (hw1 : 1 ≤ a.w) (hph : a.h ≤ ph) (hpw : a.w ≤ pw)
    (hh : ph % 2 ^ d = 0) (hw : pw % 2 ^ (d + dho) = 0) :
    (VC2.Model.Wavelet.padRemoval (VC2.Model.Wavelet.idwt fv fho
      (VC2.Model.Wavelet.dwt fv fho dho d (VC2.Model.Wavelet.padAddition a ph pw))) a.h a.w).Eq a :=
  VC2.Props.C11.pad_dwt_idwt_unpad fv fho dho d a ph pw hh1 hw1 hph hpw hh hw

/-! ### non-vacuity -/
example : (List.range 3).all (fun y => (List.range 4).all (fun x =>
    let f : Arr := fun y x => (7 * (y : Int) - 3 * x + 100)
    dcPrediction 4 3 (applyDcPrediction 4 3 f) y x == f y x)) = true := by decide +kernel
example : applyDcPrediction 2 2 (fun y x => (10 + y + 2 * x : Int)) 1 1 = 13 - VC2.Gen.mean [11, 10, 12] := by
  decide +kernel
example : offsetSample 8 (clipSample 8 (removeOffsetSample 8 255)) = 255 := by decide +kernel

end VC2.Props.C04
