/-
  C07 — automatic field filling preserves explicit values and computes derived ones.
  Property theorems only.  Model: VC2/Model/Autofill.lean (tied to bitstream/vc2_autofill.py by the
  `af` correspondence); helper lemmas: VC2/Proofs/Autofill.lean; version implications: generated.
-/
import VC2.Proofs.Autofill
namespace VC2.Props.C07
open VC2 VC2.Model.Autofill VC2.Proofs.Autofill

/-- **every explicitly supplied value appears unchanged** (picture numbers, both parse offsets,
    major_version; parse code, lengths and slice counts are never touched) — for every sequence of
    data units and every position -/
theorem explicit_values_preserved (seq : List AUnit) (i : Nat) (hi : i < seq.length) :
    let v := (autofillSeq seq)[i]'(by rw [autofillSeq_length]; exact hi)
    let u := seq[i]
    v.code = u.code ∧ v.len = u.len ∧ v.dataLen = u.dataLen ∧ v.sliceCount = u.sliceCount ∧
    (∀ n, u.picNum = some n → v.picNum = some n) ∧
    (∀ n, u.next = some n → v.next = some n) ∧
    (∀ n, u.prev = some n → v.prev = some n) ∧
    (u.code = 0 → ∀ h n, u.hdr = some h → h.majorVersion = some n →
      ∃ h', v.hdr = some h' ∧ h'.majorVersion = some n ∧ { h' with majorVersion := h.majorVersion } = h) :=
  autofillSeq_preserves seq i hi

/-- **automatic picture numbers**: an AUTO picture or first fragment gets the previous number
    plus one modulo 2^32, an AUTO continuation fragment repeats the previous number, an explicit
    number becomes the new 'previous' -/
theorem auto_picture_number_step (last : Nat) (u : AUnit)
    (hk : (isPictureCode u.code || isFragmentCode u.code) = true) :
    (u.picNum = none →
      (numberStep last u).1.picNum =
        some (if (isPictureCode u.code || u.sliceCount.getD VC2.Gen.default_fragment_slice_count == 0) = true then (last + 1) % M32 else last) ∧
      (numberStep last u).2 =
        (if (isPictureCode u.code || u.sliceCount.getD VC2.Gen.default_fragment_slice_count == 0) = true then (last + 1) % M32 else last)) ∧
    (∀ n, u.picNum = some n → (numberStep last u).2 = n) :=
  ⟨fun hp => numberStep_auto last u hp hk, fun n hn => numberStep_explicit last u n hn hk⟩

/-- units that are not pictures or fragments neither get nor change a number -/
theorem other_units_do_not_count (last : Nat) (u : AUnit)
    (hk : (isPictureCode u.code || isFragmentCode u.code) = false) : numberStep last u = (u, last) :=
  numberStep_other last u hk

/-- **restart at 0 each sequence, wrap at 2^32** (closed form): `k` consecutive AUTO pictures
    following number `last` are numbered last+1, last+2, … modulo 2^32; a sequence starts from
    `last = 2^32 - 1`, i.e. its first AUTO picture is 0 -/
theorem auto_numbers_count_up (us : List AUnit) (last : Nat)
    (h : ∀ u ∈ us, isPictureCode u.code = true ∧ u.picNum = none) (j : Nat) (hj : j < us.length) :
    ((numberFrom last us)[j]'(by rw [numberFrom_length]; exact hj)).picNum = some ((last + j + 1) % M32) :=
  auto_run us last h j hj

theorem sequence_starts_at_zero (us : List AUnit)
    (h : ∀ u ∈ us, isPictureCode u.code = true ∧ u.picNum = none) (j : Nat) (hj : j < us.length) :
    ((autofillPictureNumbers us)[j]'(by unfold autofillPictureNumbers; rw [numberFrom_length]; exact hj)).picNum
      = some (j % M32) := by
  have := auto_run us (M32 - 1) h j hj
  unfold autofillPictureNumbers
  rw [this]; congr 1; unfold M32; omega

/-- **automatic major_version = the minimum the features require**: the computed version is an
    upper bound of every data unit's implication and of the minimum version, and it is attained -/
theorem required_version_is_least_upper_bound (seq : List AUnit) :
    VC2.Gen.MINIMUM_MAJOR_VERSION ≤ requiredVersion seq ∧
    (∀ u ∈ seq, unitVersion u ≤ requiredVersion seq) ∧
    (requiredVersion seq = VC2.Gen.MINIMUM_MAJOR_VERSION ∨ ∃ u ∈ seq, requiredVersion seq = unitVersion u) :=
  ⟨(foldl_max_ge seq _).1, (foldl_max_ge seq _).2, foldl_max_attained seq _⟩

/-- every AUTO major_version is set to that version, explicit ones are kept, nothing else in the
    unit changes except the extended transform parameters -/
theorem auto_major_version_filled (seq : List AUnit) (i : Nat) (hi : i < seq.length) :
    VersionRel (requiredVersion seq) seq[i]
      ((autofillMajorVersion seq)[i]'(by unfold autofillMajorVersion; rw [versionFill_length]; exact hi)) :=
  versionFill_spec (requiredVersion seq) seq false i hi

/-- extended transform parameters are dropped only when the version is below 3, and then they
    carried no feature: the transform that is decoded is unchanged -/
theorem dropped_extended_parameters_were_inert (seq : List AUnit) (h3 : requiredVersion seq < 3)
    (u : AUnit) (hu : u ∈ seq) (ht : hasTP u = true) (hc : (u.code == 0) = false) (t : TP) (htp : u.tp = some t) :
    t.who = t.w ∧ t.dho = 0 := by
  apply tpVersion_lt3
  have := (foldl_max_ge seq VC2.Gen.MINIMUM_MAJOR_VERSION).2 u hu
  have h2 : tpVersion t ≤ unitVersion u := by
    unfold unitVersion
    simp only [hc, ht, htp]
    exact pymax_ge_right _ _
  unfold requiredVersion at h3
  omega

/-- **omitted fields take their documented defaults**: what the version rule reads from transform
    parameters with omitted fields (2-D wavelet, asymmetry flags, horizontal-only wavelet and depth) is
    exactly what it reads once every default is written out - which is what the serialiser puts in the
    stream - so the automatic version is the one the SERIALISED stream's features require -/
theorem omitted_fields_take_documented_defaults (t : TP) :
    t.filled.w = t.w ∧ t.filled.who = t.who ∧ t.filled.dho = t.dho ∧ tpVersion t.filled = tpVersion t := by
  have h1 : t.filled.w = t.w := rfl
  have h2 : t.filled.who = t.who := by
    unfold TP.who TP.w TP.filled; simp only [Option.getD_some]; rfl
  have h3 : t.filled.dho = t.dho := by
    unfold TP.dho TP.filled; simp only [Option.getD_some]
  exact ⟨h1, h2, h3, by unfold tpVersion; rw [h1, h2, h3]⟩

/-- a set index flag whose wavelet is omitted means the DEFAULT horizontal-only wavelet, not the 2-D one
    (the confusion seeded change C07e1 makes) -/
theorem set_flag_with_omitted_value (t : TP) (hf : t.asymIndexFlag = some true) (hv : t.waveletHo = none) :
    t.who = VC2.Gen.default_wavelet_index_ho := by
  simp [TP.who, hf, hv]

/-- the table the autofill code consults and the serialiser's own table agree on these defaults (both generated) -/
example : VC2.Gen.default_wavelet_index = VC2.Gen.serialiser_default_wavelet_index ∧
    VC2.Gen.default_asym_transform_index_flag = VC2.Gen.serialiser_default_asym_transform_index_flag ∧
    VC2.Gen.default_wavelet_index_ho = VC2.Gen.serialiser_default_wavelet_index_ho ∧
    VC2.Gen.default_asym_transform_flag = VC2.Gen.serialiser_default_asym_transform_flag ∧
    VC2.Gen.default_dwt_depth_ho = VC2.Gen.serialiser_default_dwt_depth_ho ∧
    VC2.Gen.default_fragment_slice_count = VC2.Gen.serialiser_default_fragment_slice_count := by decide

/-- **parse offsets equal the true distances**: an AUTO next offset is the unit's own length
    (0 for the last unit of the sequence; 13 + payload length for padding/auxiliary data), an AUTO
    previous offset is the length of the preceding unit (0 for the first) -/
theorem auto_offsets_are_true_distances (seq : List AUnit) (i : Nat) (hi : i < seq.length) :
    ((autofillOffsets seq)[i]'(by unfold autofillOffsets; rw [offsetsFrom_length]; exact hi)).next =
      some (match seq[i].next with
        | some n => n
        | none => if seq[i].code == 0x20 || seq[i].code == 0x30 then 13 + seq[i].dataLen
                  else if i + 1 = seq.length then 0 else seq[i].len) ∧
    ((autofillOffsets seq)[i]'(by unfold autofillOffsets; rw [offsetsFrom_length]; exact hi)).prev =
      some (match seq[i].prev with
        | some q => q
        | none => (prevLenAt none seq i).getD 0) :=
  ⟨(offsets_spec seq none i hi).1, (offsets_spec seq none i hi).2.1⟩

/-! ### non-vacuity -/
def h0 : Hdr := { majorVersion := none, profile := 3, frameRate := none, signalRange := none, colorSpec := none,
                  primaries := none, matrix := none, transfer := none }
def sq : List AUnit := [
  { code := 0, len := 30, hdr := some h0 },
  { code := 0xE8, len := 50, tp := some { wavelet := some 1, asymIndexFlag := none, waveletHo := none, asymFlag := none, depthHo := none, hasEtp := true } },
  { code := 0x30, len := 17, dataLen := 4 },
  { code := 0xE8, len := 50, picNum := some 4294967295, tp := some { wavelet := some 1, asymIndexFlag := none, waveletHo := none, asymFlag := none, depthHo := none, hasEtp := false } },
  { code := 0xEC, len := 40, sliceCount := some 0, tp := some { wavelet := some 1, asymIndexFlag := none, waveletHo := none, asymFlag := none, depthHo := none, hasEtp := false } },
  { code := 0xEC, len := 45, sliceCount := some 2 },
  { code := 0x10, len := 13 }]

example : (autofillSeq sq).map (fun u => (u.picNum, u.next, u.prev)) =
    [(none, some 30, some 0), (some 0, some 50, some 30), (none, some 17, some 50), (some 4294967295, some 50, some 17),
     (some 0, some 40, some 50), (some 0, some 45, some 40), (none, some 0, some 45)] := by decide +kernel
example : requiredVersion sq = 3 ∧ requiredVersion (sq.take 4) = 2 := by decide +kernel

end VC2.Props.C07
