/-
  C28 — codec-features CSV reading either succeeds in-domain or explains.  Property theorems only.
  Model: VC2/Model/CodecCsv.lean (tied to codec_features.py by the `cf` correspondence); the
  domain predicate `InDomain` and the helper lemmas are in VC2/Proofs/CodecCsv.lean; enum member
  tables and per-base-format defaults are GENERATED from the running modules (VC2/Gen/CodecTables.lean).
-/
import VC2.Proofs.CodecCsv
namespace VC2.Props.C28
open VC2 VC2.Model.CodecCsv VC2.Proofs.CodecCsv

/-- obligations on the generated tables (re-checked by the kernel whenever they change): every
    base video format has source defaults, and all defaults lie in the documented domains -/
theorem generated_tables_ok : TablesOk := tables_ok

/-- **in-domain or InvalidCodecFeaturesError, never anything else** — for every table of cell
    strings (any number of rows, columns, any cell contents):
    * a returned configuration has valid enum members for level, profile, picture coding mode,
      both wavelets, base video format and the enum-valued video parameters; dwt depths ≥ 0,
      slice counts ≥ 1, fragment slice count ≥ 0, every integer video parameter at or above its
      documented minimum; `picture_bytes` present (and ≥ 1) exactly for lossy columns; a custom
      quantisation matrix has exactly `1 + dwt_depth_ho + 3·dwt_depth` entries;
    * names are pairwise distinct;
    * any failure is the invalid-codec-features error. -/
theorem read_in_domain_or_invalid (rows : List (List String)) :
    match readCodecFeatures rows with
    | .ok fs => (∀ f ∈ fs, InDomain f) ∧ (fs.map (·.name)).Nodup
    | .error e => ∃ why, e = .invalid why := by
  have h := readColumns_spec (readDictList rows) 0 [] (by simp) (by simp)
  unfold readCodecFeatures
  cases hr : readColumns (readDictList rows) 0 [] with
  | ok fs => exact h.2 fs hr
  | error e =>
    cases e with
    | invalid why => exact ⟨why, rfl⟩
    | crash w => exact absurd hr (h.1 w)

/-- the quantisation-matrix cell: accepted exactly when it holds the right number of integers -/
theorem quant_matrix_shape (d dh : Int) (s : String) (m : List Int)
    (h : parseQuantMatrix d dh s = some m) : m.length = 1 + dh.toNat + 3 * d.toNat :=
  parseQuantMatrix_length d dh s m h

/-- a cell parsed with a minimum is at or above it; an enum cell is a member's value -/
theorem cell_parsers_in_domain :
    (∀ m s v, parseIntAtLeast m s = some v → m ≤ v) ∧
    (∀ e s v, parseIntEnum e s = some v → IsMember e v) :=
  ⟨parseIntAtLeast_ge, parseIntEnum_member⟩

/-! ### non-vacuity: a valid lossy column, a lossless one with a default name, and three rejections -/
def rowsOk : List (List String) := [
  ["name", "a", ""], ["level", "0", "unconstrained"], ["profile", "high_quality", "3"],
  ["picture_coding_mode", "0", "pictures_are_fields"], ["wavelet_index", "le_gall_5_3", "4"],
  ["wavelet_index_ho", "1", "haar_no_shift"], ["dwt_depth", "1", "0"], ["dwt_depth_ho", "1", "0"],
  ["slices_x", "2", "1"], ["slices_y", "1", "1"], ["fragment_slice_count", "0", "3"],
  ["lossless", "no", "TRUE"], ["picture_bytes", "24", ""], ["base_video_format", "hd1080p_50", "0"],
  ["frame_width", "8", "default"], ["frame_height", "4", "default"], ["color_diff_format_index", "default", "color_4_2_0"],
  ["source_sampling", "default", "default"], ["top_field_first", "default", "f"], ["frame_rate_numer", "default", "1"],
  ["frame_rate_denom", "default", "1"], ["pixel_aspect_ratio_numer", "default", "1"], ["pixel_aspect_ratio_denom", "default", "1"],
  ["clean_width", "default", "0"], ["clean_height", "default", "0"], ["left_offset", "default", "0"], ["top_offset", "default", "0"],
  ["luma_offset", "default", "0"], ["luma_excursion", "default", "1"], ["color_diff_offset", "default", "0"],
  ["color_diff_excursion", "default", "255"], ["color_primaries_index", "default", "uhdtv"], ["color_matrix_index", "default", "0"],
  ["transfer_function_index", "default", "0"], ["quantization_matrix", "0 1 2 3 4", "default"], ["# comment", "x", "y"]]

def errOf {α : Type} : M α → Option Err
  | .ok _ => none
  | .error e => some e

example : (readCodecFeatures rowsOk).toOption.map (fun fs => fs.map (fun f => (f.name, f.pictureBytes, f.qm))) =
    some [("a", some 24, some [0, 1, 2, 3, 4]), ("column_C", none, none)] := by decide +kernel
example : errOf (readCodecFeatures (rowsOk ++ [["bogus", "1"]])) = some (.invalid "unrecognised rows") := by decide +kernel
example : errOf (readCodecFeatures (rowsOk.map (fun r => if r.head? = some "dwt_depth" then ["dwt_depth", "-1", "0"] else r)))
    = some (.invalid "invalid dwt_depth") := by decide +kernel
example : errOf (readCodecFeatures (rowsOk.map (fun r => if r.head? = some "quantization_matrix" then ["quantization_matrix", "0 1 2 3", ""] else r)))
    = some (.invalid "invalid quantization_matrix") := by decide +kernel

end VC2.Props.C28
