/-
  C12 — Quantisation reconstructs within one step and distinguishes indices.
  All statements are about the definitions GENERATED from
  vc2_conformance/pseudocode/quantization.py (VC2.Gen.Kernels), for every index ≥ 0
  (unbounded, so in particular 0–255) and every integer coefficient.
-/
import VC2.Proofs.Quant
set_option linter.unusedVariables false
namespace VC2.Props.C12
open VC2 VC2.Gen VC2.Proofs.Quant

/-- definedness: for every index ≥ 0 the four functions never raise / fall through. -/
theorem quant_defined (i x : Int) (hi : 0 ≤ i) :
    quant_factor_ok i = true ∧ quant_offset_ok i = true ∧
    forward_quant_ok x i = true ∧ inverse_quant_ok x i = true := by
  have hf : quant_factor_ok i = true := by
    unfold quant_factor_ok
    simp only [pydiv4, pymod4]
    have h3 : i % 4 = 0 ∨ i % 4 = 1 ∨ i % 4 = 2 ∨ i % 4 = 3 := by omega
    have h0 : 0 ≤ i / 4 := by omega
    rcases h3 with h | h | h | h <;> simp [h, h0]
  have ho : quant_offset_ok i = true := by
    unfold quant_offset_ok; split
    · rfl
    · split
      · rfl
      · simp [hf]
  have hs : sign_ok x = true := by
    unfold sign_ok
    by_cases h1 : x > 0
    · simp [h1]
    · by_cases h2 : x = 0
      · simp [h2]
      · have : x < 0 := by omega
        simp [h1, h2, this]
  have hq4 : 4 ≤ quant_factor i := by
    rw [quant_factor_eq]
    have hb := base_pos i; rw [pydiv4] at hb
    generalize pypow 2 (i / 4) = b at hb
    unfold q0 q1 q2 q3
    split
    · omega
    · split
      · omega
      · split <;> omega
  refine ⟨hf, ho, ?_, ?_⟩
  · unfold forward_quant_ok
    have : quant_factor i ≠ 0 := by omega
    simp [hf, this]
  · unfold inverse_quant_ok
    simp [hf, ho, hs]

/-- quantisation factors are at least 4 (one step = quant_factor/4 ≥ 1). -/
theorem quant_factor_ge_4 (i : Int) (hi : 0 ≤ i) : 4 ≤ quant_factor i := by
  rw [quant_factor_eq]
  have hb := base_pos i; rw [pydiv4] at hb
  generalize pypow 2 (i / 4) = b at hb
  unfold q0 q1 q2 q3
  split
  · omega
  · split
    · omega
    · split <;> omega

/-- quantisation factors strictly increase with the index (every index ≥ 0). -/
theorem quant_factor_strict_mono (i : Int) (hi : 0 ≤ i) :
    quant_factor i < quant_factor (i + 1) := by
  rw [quant_factor_eq i, quant_factor_eq (i + 1)]
  have hb := base_pos i; rw [pydiv4] at hb
  have h3 : i % 4 = 0 ∨ i % 4 = 1 ∨ i % 4 = 2 ∨ i % 4 = 3 := by omega
  rcases h3 with h | h | h | h
  · have e : (i + 1) % 4 = 1 := by omega
    rw [pow_same i (by omega)]
    simp only [h, e, if_true]; simp
    exact chain01 _ (by omega)
  · have e : (i + 1) % 4 = 2 := by omega
    rw [pow_same i (by omega)]
    simp only [h, e]; simp
    exact chain12 _ (by omega)
  · have e : (i + 1) % 4 = 3 := by omega
    rw [pow_same i (by omega)]
    simp only [h, e]; simp
    exact chain23 _ (by omega)
  · have e : (i + 1) % 4 = 0 := by omega
    rw [pow_step i hi h]
    simp only [h, e]; simp
    exact chain30 _ (by omega)


/-- |dequant(quant x) − x| is strictly less than one step (quant_factor/4), every index ≥ 0,
    every integer x. -/
theorem recon_bound (i x : Int) (hi : 0 ≤ i) :
    4 * pyabs (inverse_quant (forward_quant x i) i - x) < quant_factor i := by
  by_cases hx : 0 ≤ x
  · have g := recon_nonneg i x hi hx
    simp only at g
    unfold pyabs; split <;> omega
  · have hx' : x < 0 := by omega
    have g := recon_nonneg i (-x) hi (by omega)
    simp only at g
    rw [forward_quant_neg_sym x i hx', inverse_quant_odd]
    unfold pyabs; split <;> omega

/-- the reconstruction keeps the sign of the coefficient, or is zero -/
theorem recon_sign (i x : Int) (hi : 0 ≤ i) :
    inverse_quant (forward_quant x i) i = 0 ∨
      sign (inverse_quant (forward_quant x i) i) = sign x := by
  by_cases hx : 0 ≤ x
  · have g := recon_nonneg i x hi hx
    simp only at g
    rcases g.2.2.2.1 with h | h
    · exact Or.inl h
    · right
      have hxpos : 0 < x := by
        have := quant_factor_ge_4' i
        -- r > 0 implies the quantised value was non-zero, hence x > 0
        by_cases h0 : x = 0
        · subst h0
          have : forward_quant 0 i = 0 := by
            rw [forward_quant_nonneg 0 i (by omega)]; simp
          rw [this, inverse_quant_zero] at h; omega
        · omega
      rw [sign_eq, sign_eq]; simp [h, hxpos]
  · have hx' : x < 0 := by omega
    have g := recon_nonneg i (-x) hi (by omega)
    simp only at g
    rw [forward_quant_neg_sym x i hx', inverse_quant_odd]
    rcases g.2.2.2.1 with h | h
    · left; omega
    · right
      rw [sign_eq, sign_eq]
      have a1 : ¬ (0 < -inverse_quant (forward_quant (-x) i) i) := by omega
      have a2 : ¬ (-inverse_quant (forward_quant (-x) i) i = 0) := by omega
      have a3 : ¬ (0 < x) := by omega
      have a4 : ¬ (x = 0) := by omega
      simp only [a1, a2, a3, a4, if_false]

/-- index 0 is exactly lossless -/
theorem lossless_index_0 (x : Int) : inverse_quant (forward_quant x 0) 0 = x := by
  by_cases hx : 0 ≤ x
  · exact (recon_nonneg 0 x (by decide) hx).2.2.2.2 rfl
  · have hx' : x < 0 := by omega
    have g := (recon_nonneg 0 (-x) (by decide) (by omega)).2.2.2.2 rfl
    rw [forward_quant_neg_sym x 0 hx', inverse_quant_odd, g]; omega

/-- the dequantised value of 1 strictly increases for every index from 7 upward … -/
theorem iq1_strict_mono (i : Int) (hi : 7 ≤ i) :
    inverse_quant 1 i < inverse_quant 1 (i + 1) := by
  by_cases h7 : i = 7
  · subst h7; decide
  · have h8 : 8 ≤ i := by omega
    rw [iq1_eq i (by omega), iq1_eq (i + 1) (by omega), quant_factor_eq i, quant_factor_eq (i + 1)]
    have hb := base_ge_4 i h8
    have h3 : i % 4 = 0 ∨ i % 4 = 1 ∨ i % 4 = 2 ∨ i % 4 = 3 := by omega
    rcases h3 with h | h | h | h
    · have e : (i + 1) % 4 = 1 := by omega
      rw [pow_same i (by omega)]
      simp only [h, e]; simp
      exact f1chain01 _ hb
    · have e : (i + 1) % 4 = 2 := by omega
      rw [pow_same i (by omega)]
      simp only [h, e]; simp
      exact f1chain12 _ hb
    · have e : (i + 1) % 4 = 3 := by omega
      rw [pow_same i (by omega)]
      simp only [h, e]; simp
      exact f1chain23 _ hb
    · have e : (i + 1) % 4 = 0 := by omega
      rw [pow_step i (by omega) h]
      simp only [h, e]; simp
      exact f1chain30 _ hb

/-- … and 7 is the least such index: indices 5 and 6 dequantise 1 to the same value. -/
theorem iq1_not_mono_below_7 : ¬ (inverse_quant 1 5 < inverse_quant 1 6) := by decide

/-- the constant the lossless-quantisation test case relies on
    (`MINIMUM_DISTINCT_QINDEX`, exported from the source) is a sound choice. -/
theorem minimum_distinct_qindex_sound (i : Int) (hi : MINIMUM_DISTINCT_QINDEX ≤ i) :
    inverse_quant 1 i < inverse_quant 1 (i + 1) :=
  iq1_strict_mono i (by have : (7 : Int) ≤ MINIMUM_DISTINCT_QINDEX := by decide
                        omega)

/-- non-vacuity / concrete instances -/
example : quant_factor 0 = 4 ∧ quant_factor 5 = 10 ∧ quant_factor 255 = 62047203858893490829 := by decide
example : forward_quant (-1000) 23 = -18 ∧ inverse_quant (-18) 23 = -995 ∧ quant_factor 23 = 215 := by
  decide

end VC2.Props.C12
