/-
  C26 — the bitstream viewer never reports an internal error.  Property theorems only.
  PARTIAL, the weakest claim of the set: only the classification logic is modelled
  (VC2/Model/ViewerCli.lean); that no exception arises inside the viewer's own display code is
  established by the byte-string search on the real viewer only.
-/
import VC2.Model.ViewerCli
namespace VC2.Props.C26
open VC2.Model.ViewerCli

/-- the flag is decided by the innermost frame that belongs to the viewer or to bitstream/vc2.py -/
theorem internal_iff_innermost_relevant_is_viewer (stack : List Frame) :
    isInternalError stack = true ↔
      ((stack.reverse.find? (fun f => f = .viewer ∨ f = .vc2)) = some .viewer) := by
  unfold isInternalError
  rw [← List.foldr_reverse]
  generalize stack.reverse = r
  induction r with
  | nil => simp
  | cons f fs ih =>
    cases f with
    | viewer => simp
    | vc2 => simp
    | other =>
      simp only [List.foldr_cons]
      rw [List.find?_cons_of_neg (by simp)]
      exact ih

/-- the internal-error status arises exactly from an exception (other than end-of-file and the
    viewer's own termination signals) whose innermost relevant frame is the viewer's -/
theorem status_255_iff (e : Ending) :
    exitStatus e = 255 ↔ ∃ stack, e = .exception stack ∧ isInternalError stack = true := by
  cases e with
  | exception stack =>
    simp only [exitStatus]
    constructor
    · intro h; refine ⟨stack, rfl, ?_⟩
      cases hi : isInternalError stack with
      | true => rfl
      | false => simp [hi] at h
    · rintro ⟨s, hs, hi⟩; cases hs; simp [hi]
  | _ => simp [exitStatus]

/-- an exception raised while bitstream/vc2.py is the innermost relevant frame (out-of-range
    values in the stream) is reported as a parse failure (4), not as an internal error -/
theorem vc2_exception_is_parse_failure (outer : List Frame) (inner : List Frame)
    (h : ∀ f ∈ inner, f = .other) : exitStatus (.exception (outer ++ [.vc2] ++ inner)) = 4 := by
  have : isInternalError (outer ++ [.vc2] ++ inner) = false := by
    unfold isInternalError
    rw [List.foldl_append, List.foldl_append]
    simp only [List.foldl_cons, List.foldl_nil]
    induction inner with
    | nil => rfl
    | cons f fs ih =>
      have hf := h f List.mem_cons_self
      subst hf
      simp only [List.foldl_cons]
      exact ih (fun x hx => h x (List.mem_cons_of_mem _ hx))
  simp only [exitStatus, this]; rfl

/-- offsets relative to the end resolve inside the file for in-range arguments -/
theorem relative_index_in_range (num length : Int) (h : -length ≤ num) (h2 : num ≤ length) (hl : 0 ≤ length) :
    0 ≤ relativeToAbsIndex num length ∧ relativeToAbsIndex num length ≤ length := by
  unfold relativeToAbsIndex; split <;> omega

example : isInternalError [.other, .viewer, .vc2, .other, .viewer] = true ∧
    isInternalError [.viewer, .vc2, .other] = false := by decide

end VC2.Props.C26
