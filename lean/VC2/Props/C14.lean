/-
  C14 — lossy encoding fills slices to the byte budget with the smallest qindex.
  Property theorems only.  Model: VC2/Model/SliceFit.lean over the generated kernels (tied to
  encoder/pictures.py by the `sl` correspondence); proofs: VC2/Proofs/SliceFit.lean.
  The unbounded `for qindex in count(minimum)` loop is modelled with an iteration budget; that the search
  always terminates (so that the budget is no restriction) is `index_search_terminates`.  PARTIAL in one
  respect: that the chosen qindex fits its 7/8-bit field is not a property of the code (finding F6, DESIGN §7).
-/
import VC2.Proofs.SliceFitTerm
namespace VC2.Props.C14
open VC2 VC2.Gen VC2.Model.SliceFit VC2.Proofs.SliceFit

/-- **smallest qindex**: whatever `quantize_to_fit` returns is not below the requested minimum,
    fits the target, and no smaller index from the minimum upwards fits — for every target,
    coefficient sets, quantisation matrix values and alignment -/
theorem smallest_fitting_qindex (target : Int) (sets : List Comp) (align : Int) (fuel : Nat) (q0 q : Int)
    (h : quantizeToFit target sets align fuel q0 = some q) :
    q0 ≤ q ∧ fits target sets align q = true ∧ ∀ q', q0 ≤ q' → q' < q → fits target sets align q' = false :=
  qtf_least target sets align fuel q0 q h

/-- if some index ≥ the minimum fits, the search finds one without exhausting its budget -/
theorem search_finds_a_fitting_index (target : Int) (sets : List Comp) (align : Int) (fuel : Nat) (q0 q1 : Int)
    (h01 : q0 ≤ q1) (hf : q1 - q0 < fuel) (hfit : fits target sets align q1 = true) :
    ∃ q, quantizeToFit target sets align fuel q0 = some q :=
  qtf_finds target sets align fuel q0 q1 h01 hf hfit

/-- **the index search terminates**: for every non-negative target, alignment ≥ 1, coefficient sets and
    start index there is a number of iterations after which `quantize_to_fit` has returned — from the
    index `setsBound` on every coefficient is quantised to zero and costs no bits — and what it returns
    is the least fitting index from the start index upwards -/
theorem index_search_terminates (target : Int) (sets : List Comp) (align : Int) (ht : 0 ≤ target) (ha : 1 ≤ align) (q0 : Int) :
    ∃ fuel q, quantizeToFit target sets align fuel q0 = some q ∧ q0 ≤ q ∧ fits target sets align q = true ∧
      ∀ q', q0 ≤ q' → q' < q → fits target sets align q' = false := by
  obtain ⟨q, hq⟩ := qtf_terminates target sets align ht ha q0
  exact ⟨_, q, hq, qtf_least target sets align _ q0 q hq⟩

/-- … and more iterations never change the answer (the budget of the executable model is harmless) -/
theorem more_fuel_same_answer (target : Int) (sets : List Comp) (align : Int) (fuel : Nat) (q0 q : Int)
    (h : quantizeToFit target sets align fuel q0 = some q) (extra : Nat) :
    quantizeToFit target sets align (fuel + extra) q0 = some q := by
  induction fuel generalizing q0 with
  | zero => cases h
  | succ fuel ih =>
    have e : fuel + 1 + extra = (fuel + extra) + 1 := by omega
    rw [e]
    simp only [quantizeToFit] at h ⊢
    by_cases hf : fits target sets align q0 = true
    · rw [if_pos hf] at h ⊢; exact h
    · rw [if_neg hf] at h ⊢; exact ih (q0 + 1) h

/-- **low-delay slices** (see `ld_slice_spec`): smallest fitting index; luma length within the bits
    left after the 7-bit qindex and the length field -/
theorem low_delay_slice (fuel : Nat) (minQ sb : Int) (s : SliceIn) (q yl : Int)
    (h : ldLossySlice fuel minQ sb s = some (q, yl)) :
    minQ ≤ q ∧ 0 ≤ yl ∧ yl ≤ (8 * sb - 7) - intlog2 (8 * sb - 7) :=
  let r := ld_slice_spec fuel minQ sb s q yl h
  ⟨r.1, r.2.1, r.2.2.1⟩

/-- **high-quality lossy slices**: smallest fitting index; the three length fields are
    non-negative, the last one still holds its coefficients, and they add up to the slice budget -/
theorem high_quality_slice (fuel : Nat) (scaler minQ totalLen : Int) (hs : 1 ≤ scaler) (s : SliceIn) (r : HqSlice)
    (h : hqLossySlice fuel scaler minQ totalLen s = some r) :
    minQ ≤ r.qindex ∧ 0 ≤ r.yLen ∧ 0 ≤ r.c1Len ∧ 0 ≤ r.c2Len ∧
    hqLengthField (quantizeCoeffs r.qindex s.c2) scaler ≤ r.c2Len ∧ r.yLen + r.c1Len + r.c2Len = totalLen :=
  let t := hq_slice_spec fuel scaler minQ totalLen hs s r h
  ⟨t.1, t.2.2.2.1, t.2.2.2.2.1, t.2.2.2.2.2.2.1, t.2.2.2.2.2.1, t.2.2.2.2.2.2.2⟩

/-- **all length fields fit 8 bits** (lossy high quality): every slice budget is ≤ 255 under the
    scaler the encoder computes, for every picture_bytes ≥ 4·slices and every slice grid -/
theorem hq_lossy_lengths_fit_8_bits (pb : Int) (sx sy : Nat) (minScaler : Int) (hsx : 1 ≤ sx) (hsy : 1 ≤ sy)
    (hpb : (sx * sy : Nat) * 4 ≤ pb) (x y : Int) :
    slice_bytes (hqState pb sx sy (hqScaler pb ((sx * sy : Nat) : Int) minScaler)) x y ≤ 255 :=
  hq_lossy_budget_le_255 pb sx sy minScaler hsx hsy hpb x y

/-- **all length fields fit 8 bits** (lossless high quality) -/
theorem hq_lossless_lengths_fit_8_bits (minScaler : Int) (slices : List SliceIn) :
    let r := hqLossless minScaler slices
    1 ≤ r.1 ∧ minScaler ≤ r.1 ∧
    ∀ hs ∈ r.2, 0 ≤ hs.yLen ∧ hs.yLen ≤ 255 ∧ 0 ≤ hs.c1Len ∧ hs.c1Len ≤ 255 ∧ 0 ≤ hs.c2Len ∧ hs.c2Len ≤ 255 :=
  hqLossless_lengths_fit minScaler slices

/-- **total high-quality slice data = picture_bytes to within slice_size_scaler bytes** -/
theorem hq_total_within_one_scaler_unit (pb : Int) (sx sy : Nat) (scaler : Int) (hsx : 1 ≤ sx) (hsy : 1 ≤ sy)
    (hs : 1 ≤ scaler) (hpb : (sx * sy : Nat) * 4 ≤ pb) :
    let n : Nat := sx * sy
    let st := hqState pb sx sy scaler
    let total := VC2.Proofs.Slices.sumTo (fun N => slice_bytes st ((N : Int) % st.slices_x) ((N : Int) / st.slices_x)) n
    pb - scaler < 4 * n + scaler * total ∧ 4 * (n : Int) + scaler * total ≤ pb :=
  hq_total_bytes pb sx sy scaler hsx hsy hs hpb

/-! ### non-vacuity -/
def c1 : Comp := { vals := [100, -37, 5, 0, 0], qm := [0, 2, 4, 4, 4] }
example : coeffsBits [3, 0, -1, 0, 0] = 6 + 1 + 4 := by decide +kernel
example : quantizeToFit 20 [c1] 1 200 0 = some 11 ∧ fits 20 [c1] 1 10 = false := by decide +kernel
def slice512 : SliceIn := { y := { vals := List.replicate 512 1, qm := [] }, c1 := { vals := [], qm := [] }, c2 := { vals := [0, 0], qm := [] } }
example : hqLossless 1 [slice512] = (2, [{ qindex := 0, yLen := 128, c1Len := 0, c2Len := 0 }]) := by decide +kernel

end VC2.Props.C14
