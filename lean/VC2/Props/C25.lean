/-
  C25 — the validator command reports verdicts and decoded pictures faithfully.  Property theorems
  only.  PARTIAL: the model (VC2/Model/ValidatorCli.lean) covers the exit-status decision and the
  output-file numbering; that status 3 is unreachable rests on C02 (partial); the bytes of each file
  are C23's `writePicture`; argument parsing and report text are not modelled.
-/
import VC2.Model.ValidatorCli
import VC2.Props.C02
import VC2.Props.C23
namespace VC2.Props.C25
open VC2.Model.ValidatorCli

/-- exit 0 exactly for a conformant stream, 2 exactly for a conformance error, and the
    internal-error status 3 exactly when something other than a ConformanceError escaped -/
theorem exit_status_faithful (o : Outcome) :
    (exitStatus o = 0 ↔ o = .conformant) ∧ (exitStatus o = 2 ↔ o = .conformanceError) ∧
    (exitStatus o = 3 ↔ o = .otherException) := by
  cases o <;> simp [exitStatus]

theorem foldl_output (pics : List Nat) : ∀ (c : Cli),
    (pics.foldl Cli.output c).next = c.next + pics.length ∧
    (pics.foldl Cli.output c).written = c.written ++ (List.range' c.next pics.length).zip pics := by
  induction pics with
  | nil => intro c; simp
  | cons p ps ih =>
    intro c
    have := ih (c.output p)
    simp only [List.foldl_cons, List.length_cons]
    rw [this.1, this.2]
    simp [Cli.output, List.range'_succ]
    omega

/-- **one file pair per decoded picture, numbered from 0 in decode order** — for any number of
    decoded pictures -/
theorem outputs_numbered_in_decode_order (pics : List Nat) :
    (runCallbacks pics).written = (List.range pics.length).zip pics ∧ (runCallbacks pics).next = pics.length := by
  have := foldl_output pics {}
  unfold runCallbacks
  rw [this.2, this.1]
  simp [List.range_eq_range']

/-- the internal-error status cannot come from the stream-structure layer (C02 (i)) -/
theorem stream_layer_never_gives_status_3 (cfg : VC2.Model.Stream.Config)
    (hlevel : (VC2.Model.SymRe.Matcher.init false cfg.levelPattern).matchSymbol "sequence_header" ≠ none)
    (us : List VC2.Model.Stream.DUnit) (hk : ∀ u ∈ us, VC2.Proofs.Stream.KindOk u) :
    ¬ VC2.Proofs.Stream.IsCrash (VC2.Model.Stream.validate cfg us).1 :=
  VC2.Props.C02.stream_layer_never_crashes cfg hlevel us hk

/-- the bytes of every written picture file round-trip (C23) -/
theorem written_pictures_read_back (cs : List VC2.Model.FileFormat.Dim) (ps : List (List (List Nat)))
    (h : VC2.Proofs.FileFormat.PictureOk cs ps) :
    VC2.Model.FileFormat.readPicture cs (VC2.Model.FileFormat.writePicture cs ps) = ps :=
  VC2.Props.C23.picture_round_trip cs ps h

/-- **a located explanation**: the offset in the report is the error's own offending offset whenever
    the error has one — also when that offset is 0 (an error in the very first parse_info) — and the
    reader's position only when it has none -/
theorem report_names_the_offending_offset (tell : Nat) :
    (∀ o, reportedOffset (some o) tell = o) ∧ reportedOffset (some 0) tell = 0 ∧ reportedOffset none tell = tell :=
  ⟨fun _ => rfl, rfl, rfl⟩

example : reportedOffset (some 0) 152 = 0 ∧ reportedOffset none 152 = 152 := by decide
example : (runCallbacks [7, 8, 4]).written = [(0, 7), (1, 8), (2, 4)] := by decide
example : exitStatus .otherException = 3 ∧ exitStatus .cannotOpen = 1 := by decide

end VC2.Props.C25
