/-
  C17 — Constraint-table queries follow set semantics.
  Model: VC2/Model/Constraint.lean (hand-written; tied to constraint_table.py and
  decoder/assertions.py by the `vs`/`ct` correspondence).  Iteration order of Python sets is
  the (arbitrary) list order of the model, so every statement holds for every order.
-/
import VC2.Proofs.Constraint
set_option linter.unusedVariables false
namespace VC2.Props.C17
open VC2 VC2.Model.Constraint VC2.Proofs.Constraint

/-- the operations a value set undergoes -/
inductive Op
  | addValue (v : Int)
  | addRange (lo hi : Int)
  | unionWith (other : VSet)

def Op.apply (s : VSet) : Op → VSet
  | .addValue v => s.addValue v
  | .addRange lo hi => s.addRange lo hi
  | .unionWith o => s.union o

/-- what an operation contributes -/
def Op.covers (x : Int) : Op → Prop
  | .addValue v => x = v
  | .addRange lo hi => lo ≤ x ∧ x ≤ hi
  | .unionWith o => o.contains x = true

/-- **After any sequence of additions and unions a value set contains exactly the union of
    what it contained and the listed values, inclusive ranges and united sets.** -/
theorem membership_after_ops (ops : List Op) : ∀ (s : VSet) (x : Int),
    (ops.foldl Op.apply s).contains x = true ↔ s.contains x = true ∨ ∃ op ∈ ops, op.covers x := by
  induction ops with
  | nil => intro s x; simp
  | cons op ops ih =>
    intro s x
    simp only [List.foldl_cons, ih, List.mem_cons]
    have step : (Op.apply s op).contains x = true ↔ s.contains x = true ∨ op.covers x := by
      cases op with
      | addValue v => exact contains_addValue s v x
      | addRange lo hi => simpa [Op.apply, Op.covers, inRange_iff] using contains_addRange s lo hi x
      | unionWith o => exact contains_union s o x
    rw [step]
    constructor
    · rintro ((h | h) | ⟨op', hop', h⟩)
      · exact Or.inl h
      · exact Or.inr ⟨op, Or.inl rfl, h⟩
      · exact Or.inr ⟨op', Or.inr hop', h⟩
    · rintro (h | ⟨op', hop' | hop', h⟩)
      · exact Or.inl (Or.inl h)
      · subst hop'; exact Or.inl (Or.inr h)
      · exact Or.inr ⟨op', hop', h⟩

/-- a fresh set built by operations contains exactly what was listed -/
theorem membership_of_built_set (ops : List Op) (x : Int) :
    (ops.foldl Op.apply {}).contains x = true ↔ ∃ op ∈ ops, op.covers x := by
  rw [membership_after_ops]; simp [contains_empty]

/-- union (`+`), including the wildcard -/
theorem union_membership (a b : VS) (x : Int) :
    (a.union b).contains x = true ↔ a.contains x = true ∨ b.contains x = true :=
  vs_contains_union a b x

/-- well-formedness (every range has lo ≤ hi) is preserved by the operations -/
theorem wf_preserved (s : VSet) (h : VSet.WF s) :
    (∀ v, VSet.WF (s.addValue v)) ∧ (∀ lo hi, lo ≤ hi → VSet.WF (s.addRange lo hi)) :=
  ⟨fun v => wf_addValue s v h, fun lo hi hr => wf_addRange s lo hi h hr⟩

/-- **disjointness is reported correctly** (ranges well-formed) -/
theorem disjoint_correct (a b : VSet) (ha : VSet.WF a) (hb : VSet.WF b) :
    a.isDisjoint b = true ↔ ¬ ∃ x, a.contains x = true ∧ b.contains x = true :=
  isDisjoint_correct a b ha hb

/-- … and against the wildcard: disjoint exactly when the other set has no value -/
theorem disjoint_with_any (b : VSet) (hb : VSet.WF b) :
    VS.isDisjoint .any (.set b) = true ↔ ¬ ∃ x, b.contains x = true := by
  simp only [VS.isDisjoint, VSet.isEmpty, Bool.and_eq_true, List.isEmpty_iff]
  constructor
  · rintro ⟨h1, h2⟩ ⟨x, hx⟩
    rw [contains_iff, h1, h2] at hx; simp at hx
  · intro h
    constructor
    · cases hv : b.values with
      | nil => rfl
      | cons v vs => exact absurd ⟨v, (contains_iff b v).2 (Or.inl (by rw [hv]; exact List.mem_cons_self))⟩ h
    · cases hr : b.ranges with
      | nil => rfl
      | cons r rs =>
        have hm : r ∈ b.ranges := by rw [hr]; exact List.mem_cons_self
        have := hb r hm
        exact absurd ⟨r.1, (contains_iff b r.1).2 (Or.inr ⟨r, hm, by simp only [inRange_iff]; omega⟩)⟩ h

/-- **For tables without catch-all columns a value is among the allowed values for a key,
    given already-chosen values, exactly when adding it yields an allowed combination.** -/
theorem allowed_values_exact (t : Table) (key : Key) (values : Assign) (v : Int)
    (hnc : NoCatchAll t) :
    (allowedValuesFor t key values).contains v = true ↔ isAllowed t (values ++ [(key, v)]) = true :=
  allowed_values_iff t key values v hnc

/-- **Checking values one at a time (as the validator does) accepts exactly the sequences whose
    every prefix is an allowed combination** (distinct keys), and then records exactly them. -/
theorem incremental_check_exact (t : Table) (hnc : NoCatchAll t) (kvs : List (Key × Int))
    (hnd : (kvs.map (·.1)).Nodup) :
    ((assertSeq t [] kvs).isSome = true ↔
      ∀ n, 0 < n → n ≤ kvs.length → isAllowed t (kvs.take n) = true) ∧
    (∀ r, assertSeq t [] kvs = some r → r = kvs) := by
  constructor
  · have := assertSeq_iff t hnc kvs [] (by simpa using hnd)
    simpa using this
  · intro r h
    have := assertSeq_result t kvs [] r (by simpa using hnd) h
    simpa using this

def _root_.VC2.Model.Constraint.Item.covers (x : Int) : Item → Prop
  | .value v => x = v
  | .range lo hi => lo ≤ x ∧ x ≤ hi
  | .nothing => False

theorem items_fold (is : List Item) : ∀ (s : VSet) (x : Int),
    (is.foldl Item.apply s).contains x = true ↔ s.contains x = true ∨ ∃ it ∈ is, it.covers x := by
  induction is with
  | nil => intro s x; simp
  | cons it is ih =>
    intro s x
    simp only [List.foldl_cons, ih, List.mem_cons]
    have step : (Item.apply s it).contains x = true ↔ s.contains x = true ∨ it.covers x := by
      cases it with
      | value v => exact contains_addValue s v x
      | range lo hi => simpa [Item.apply, Item.covers, inRange_iff] using contains_addRange s lo hi x
      | nothing => simp [Item.apply, Item.covers]
    rw [step]
    constructor
    · rintro ((h | h) | ⟨i', hi', h⟩)
      · exact Or.inl h
      · exact Or.inr ⟨it, Or.inl rfl, h⟩
      · exact Or.inr ⟨i', Or.inr hi', h⟩
    · rintro (h | ⟨i', hi' | hi', h⟩)
      · exact Or.inl (Or.inl h)
      · subst hi'; exact Or.inl (Or.inr h)
      · exact Or.inr ⟨i', hi', h⟩

/-- **CSV cells**: a cell holds exactly the values and ranges written in it, `any` holds
    everything, a ditto cell holds what the cell to its left holds, an empty cell nothing. -/
theorem csv_cell_semantics (last : VS) (x : Int) :
    (∀ is, (parseCell last (.items is)).contains x = true ↔ ∃ it ∈ is, it.covers x) ∧
    (parseCell last .any).contains x = true ∧
    ((parseCell last .ditto).contains x = true ↔ last.contains x = true) := by
  refine ⟨?_, rfl, ?_⟩
  · intro is
    simp only [parseCell, VS.contains]
    rw [items_fold]; simp [contains_empty]
  · simp only [parseCell]
    rw [vs_contains_union]; simp [VS.contains, contains_empty]

/-- non-vacuity: a concrete table without catch-all columns, and concrete evaluations -/
def exampleTable : Table :=
  [[("level", .set { values := [1] }), ("profile", .set { values := [0, 3] })],
   [("level", .set { ranges := [(2, 4)] }), ("profile", .any)]]
example : NoCatchAll exampleTable := by
  intro c hc; simp [exampleTable] at hc; rcases hc with h | h <;> subst h <;> rfl
example : isAllowed exampleTable [("level", 3), ("profile", 7)] = true ∧
    isAllowed exampleTable [("level", 1), ("profile", 7)] = false ∧
    (assertSeq exampleTable [] [("level", 1), ("profile", 3)]).isSome = true := by decide
example : (({ values := [5] } : VSet).addRange 3 9).contains 5 = true ∧
    (({ ranges := [(1, 2), (6, 7)] } : VSet).addRange 2 6).ranges = [(1, 7)] := by decide

end VC2.Props.C17
