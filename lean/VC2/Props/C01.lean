import VC2.Model.Stream
namespace VC2.Props.C01
end VC2.Props.C01
