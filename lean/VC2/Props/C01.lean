/-
  C01 — the validator accepts exactly the structurally conformant data-unit histories.
  Property theorems only (helper lemmas: VC2/Proofs/Stream.lean).  The model is
  VC2/Model/Stream.lean, tied to decoder/*.py by the `vd` correspondence.
-/
import VC2.Proofs.Stream
import VC2.Model.SymReDriver
namespace VC2.Props.C01
open VC2 VC2.Model.SymRe VC2.Model.Stream VC2.Proofs.Stream

/-- **Every rejection is a conformance error**: on every history of individually valid data
    units (any length, any offsets, any numbers) the validator model ends with `ok`, a
    `ConformanceError` class or the padding desynchronisation marker, never with a KeyError /
    UnboundLocalError / TypeError / ZeroDivisionError.  Hypotheses: the level pattern admits a
    sequence header first (true of every generated level pattern, `level_patterns_admit_header`)
    and the parse code 0 is dispatched as a sequence header. -/
theorem validate_never_crashes (cfg : Config)
    (hlevel : (Matcher.init false cfg.levelPattern).matchSymbol "sequence_header" ≠ none)
    (us : List DUnit) (hk : ∀ u ∈ us, KindOk u) : ¬ IsCrash (validate cfg us).1 :=
  run_no_crash cfg hlevel us _ hk (inv_fresh 0 [])

/-! ### each rule, exactly (one data unit against the state left by the units before it)

The state components have the meaning recorded in `Model/Stream.lean`: `lastPI` the offset of the
previous parse_info of this sequence, `nextOff` its next_parse_offset, `lastPicNum`/`numPics` the last
picture number and the number of pictures of this sequence, `fragRemaining`/`fragReceived` the
progress of the fragmented picture, the two matchers the progress of the ordering patterns. -/

/-- **parse offsets, ordering patterns, profile and version rules**: `parse_info` accepts a unit
    exactly when all of these hold -/
theorem parse_info_accepts_iff (s : VState) (u : DUnit) :
    (∃ s1, parseInfo s u = .ok s1) ↔
      ((s.nextOff = none ∨ s.nextOff = some 0 ∨
          ∃ last, s.lastPI = some last ∧ s.nextOff = some (s.pos - last)) ∧
      (s.generic.matchSymbol (codeName u.code)).isSome = true ∧
      (∀ lm, s.level = some lm → (lm.matchSymbol (codeName u.code)).isSome = true) ∧
      (∀ p, s.profile = some p → profileAllows p u.code = true) ∧
      ¬ (((s.majorVersion.map (fun (v : Nat) => (v : Int))).getD VC2.Gen.MINIMUM_MAJOR_VERSION)
            < VC2.Gen.parse_code_version_implication u.code) ∧
      (u.code = 0x10 → u.next = 0) ∧
      (u.next = 0 → u.code = 0x10 ∨ isPicture u.code = true ∨ isFragment u.code = true) ∧
      (u.next = 0 ∨ 13 ≤ u.next) ∧
      (s.lastPI = none → u.prev = 0) ∧
      (∀ last, s.lastPI = some last → u.prev = s.pos - last)) := by
  unfold parseInfo
  simp only [bind_ok, guardRej_ok, pure_ok, matchOrRej_ok]
  constructor
  · rintro ⟨s1, x, h1, g, hg, l, hl, _, h4, _, h5, _, h6, _, h7, _, h8, _, h9, _, h10, _⟩
    refine ⟨(checkLastNext_ok s x).1 h1, by simp [hg], (levelStep_ok _ _).1 ⟨l, hl⟩, ?_, by simpa using h5, ?_, ?_, ?_, ?_, ?_⟩
    · intro p hp; rw [hp] at h4; simpa using h4
    · intro hc; simp [hc] at h6; exact h6
    · intro hn
      by_cases hc : u.code = 16
      · exact Or.inl hc
      · simp [hc, hn] at h7; right
        cases hp : isPicture u.code with
        | true => exact Or.inl rfl
        | false => exact Or.inr (h7 hp)
    · simp at h8; omega
    · intro hl; rw [hl] at h9; simpa using h9
    · intro last hl; rw [hl] at h10; simpa using h10
  · rintro ⟨h1, h2, h3, h4, h5, h6, h7, h8, h9, h10⟩
    obtain ⟨l, hl⟩ := (levelStep_ok _ _).2 h3
    cases hg : s.generic.matchSymbol (codeName u.code) with
    | none => rw [hg] at h2; cases h2
    | some g =>
      refine ⟨_, (), (checkLastNext_ok s ()).2 h1, g, rfl, l, hl, (), ?_, (), by simpa using h5, (), ?_, (), ?_, (), ?_, (), ?_, (), ?_, rfl⟩
      · cases hp : s.profile with
        | none => rfl
        | some p => simp [h4 p hp]
      · by_cases hc : u.code = 16
        · simp [hc, h6 hc]
        · simp [hc]
      · by_cases hn : u.next = 0
        · rcases h7 hn with h | h | h <;> simp [h]
        · simp [hn]
      · simp; omega
      · cases hl : s.lastPI with
        | none => simp [h9 hl]
        | some last => rfl
      · cases hl : s.lastPI with
        | none => rfl
        | some last => simp [h10 last hl]

theorem picture_number_accepts_iff (s : VState) (n : Nat) :
    (∃ s1, pictureNumberCheck s n = .ok s1) ↔
      ((∀ last, s.lastPicNum = some last → n = (last + 1) % 4294967296) ∧
       ∃ pcm, s.pcm = some pcm ∧ ¬ (pcm = 1 ∧ s.numPics % 2 = 0 ∧ n % 2 ≠ 0)) := by
  unfold pictureNumberCheck
  simp only [bind_ok, guardRej_ok, getOrCrash_ok, pure_ok]
  constructor
  · rintro ⟨s1, _, h1, pcm, hp, _, h2, _⟩
    refine ⟨?_, pcm, hp, ?_⟩
    · intro last hl; rw [hl] at h1; simpa using h1
    · rintro ⟨a, b, c⟩; simp [a, b, c] at h2
  · rintro ⟨h1, pcm, hp, h2⟩
    refine ⟨_, (), ?_, pcm, hp, (), ?_, rfl⟩
    · cases hl : s.lastPicNum with
      | none => rfl
      | some last => simp [h1 last hl]
    · by_cases a : pcm = 1 <;> by_cases b : s.numPics % 2 = 0 <;> by_cases c : n % 2 = 0 <;> simp_all

theorem data_fragment_accepts_iff (s : VState) (u : DUnit) :
    (∃ s1, dataFragment s u = .ok s1) ↔
      (s.fragRemaining ≠ 0 ∧ s.lastPicNum = some u.picNum ∧ u.sliceCount ≤ s.fragRemaining ∧
        ∃ received sx, s.fragReceived = some received ∧ s.slicesX = some sx ∧ sx ≠ 0 ∧
          u.fx = received % sx ∧ u.fy = received / sx) := by
  unfold dataFragment
  simp only [bind_ok, guardRej_ok, getOrCrash_ok]
  constructor
  · rintro ⟨s1, _, hrem, last, hlast, _, hnum, h⟩
    have hne : s.fragRemaining ≠ 0 := by simpa using hrem
    have hnum' : last = u.picNum := by simpa using hnum
    split at h
    · simp only [bind_ok, getOrCrash_ok, rej_ok] at h
      obtain ⟨_, _, _, _, h⟩ := h; exact h.elim
    · rename_i hle
      simp only [bind_ok, getOrCrash_ok] at h
      obtain ⟨received, hr, sx, hsx, h⟩ := h
      split at h
      · simp [crash_ok] at h
      · rename_i hsx0
        split at h
        · simp only [bind_ok, getOrCrash_ok, rej_ok] at h
          obtain ⟨_, _, h⟩ := h; exact h.elim
        · rename_i hxy
          simp at hxy
          exact ⟨hne, by rw [hlast, hnum'], by omega, received, sx, hr, hsx, hsx0, hxy.1, hxy.2⟩
  · rintro ⟨hne, hlast, hle, received, sx, hr, hsx, hsx0, hx, hy⟩
    let s1 : VState :=
      { s with fragReceived := some (received + u.sliceCount),
               fragRemaining := s.fragRemaining - u.sliceCount,
               decoded := if decide (received + u.sliceCount = sx * (s.slicesY.getD 0))
                          then s.decoded ++ [u.picNum] else s.decoded }
    refine ⟨s1, (), by simpa using hne, u.picNum, hlast, (), by simp, ?_⟩
    rw [if_neg (by omega)]
    simp only [bind_ok, getOrCrash_ok]
    refine ⟨received, hr, sx, hsx, ?_⟩
    rw [if_neg hsx0, if_neg (by simp [hx, hy])]
    rfl

theorem end_of_sequence_accepts_iff (s : VState) :
    endOfSequence s = .ok () ↔
      (s.generic.isComplete = true ∧ (∀ lm, s.level = some lm → lm.isComplete = true) ∧
       s.fragRemaining = 0 ∧
       ∃ pcm mv, s.pcm = some pcm ∧ s.majorVersion = some mv ∧
         ¬ (pcm = 1 ∧ s.numPics % 2 ≠ 0) ∧
         ((s.numPics = 0 ∧ mv = 3) ∨
            ¬ ((mv : Int) > s.expectedVersion.getD VC2.Gen.MINIMUM_MAJOR_VERSION))) := by
  unfold endOfSequence
  simp only [bind_ok, guardRej_ok, getOrCrash_ok]
  constructor
  · rintro ⟨_, h1, _, h2, _, h3, pcm, hp, _, h4, mv, hm, h5⟩
    refine ⟨by simpa using h1, ?_, by simpa using h3, pcm, mv, hp, hm, ?_, ?_⟩
    · intro lm hl; rw [hl] at h2; simpa using h2
    · rintro ⟨a, b⟩; simp [a, b] at h4
    · by_cases a : s.numPics = 0 ∧ mv = 3
      · exact Or.inl a
      · right; intro hgt
        have : (s.numPics == 0 && mv == 3) = false := by
          by_cases x : s.numPics = 0 <;> by_cases y : mv = 3 <;> simp_all
        simp [this, hgt] at h5
  · rintro ⟨h1, h2, h3, pcm, mv, hp, hm, h4, h5⟩
    refine ⟨(), by simpa using h1, (), ?_, (), by simpa using h3, pcm, hp, (), ?_, mv, hm, ?_⟩
    · cases hl : s.level with
      | none => rfl
      | some lm => simp [h2 lm hl]
    · by_cases a : pcm = 1 <;> by_cases b : s.numPics % 2 = 0 <;> simp_all
    · rcases h5 with ⟨a, b⟩ | h5
      · simp [a, b]
      · simp [h5]


/-! ### history-level consequences -/

/-- **sequence header first**: the first data unit of an accepted (or accepted-so-far) sequence is
    a sequence header -/
theorem first_unit_is_sequence_header (s s1 : VState) (u : DUnit) (hi : Inv s) (hl : s.lastPI = none)
    (hp : parseInfo s u = .ok s1) (hk : KindOk u) : u.kind = .seqHdr :=
  first_is_header s s1 u hi hl hp hk

/-- **end of sequence last**: a non-empty accepted stream ends with an end-of-sequence unit
    (stated for any start state, so also for every suffix of a stream) -/
theorem accepted_ends_with_end_of_sequence (cfg : Config) :
    ∀ (us : List DUnit) (s : VState), (run cfg s us).1 = .ok →
      (us = [] ∧ s.lastPI = none) ∨ ∃ e, us.getLast? = some e ∧ e.kind = .eos := by
  intro us
  induction us with
  | nil =>
    intro s h
    unfold run at h
    split at h
    · rename_i hl; exact Or.inl ⟨rfl, by simpa using hl⟩
    · cases hc : checkLastNext s with
      | ok _ => rw [hc] at h; cases h
      | error v => rw [hc] at h; exact absurd h (toVerdict_ne_ok v)
  | cons u rest ih =>
    intro s h
    rw [run_cons] at h
    right
    cases hp : parseInfo s u with
    | error v => rw [hp] at h; exact absurd h (toVerdict_ne_ok v)
    | ok s1 =>
      rw [hp] at h
      simp only at h
      by_cases heos : u.kind = .eos
      · rw [if_pos heos] at h
        cases he : endOfSequence s1 with
        | error v => rw [he] at h; exact absurd h (toVerdict_ne_ok v)
        | ok _ =>
          rw [he] at h; simp only at h
          rcases ih _ h with ⟨hr, _⟩ | ⟨e, he1, he2⟩
          · subst hr; exact ⟨u, rfl, heos⟩
          · refine ⟨e, ?_, he2⟩
            cases rest with
            | nil => cases he1
            | cons r rs => simpa [List.getLast?_cons_cons] using he1
      · rw [if_neg heos] at h
        by_cases hd : (u.kind = .aux ∨ u.kind = .padding) ∧ u.next ≠ u.len
        · rw [if_pos hd] at h; cases h
        · rw [if_neg hd] at h
          cases hpl : payload cfg s1 u with
          | error v => rw [hpl] at h; exact absurd h (toVerdict_ne_ok v)
          | ok s2 =>
            rw [hpl] at h; simp only at h
            obtain ⟨g, lvl, ev, hg, hs1⟩ := parseInfo_ok s s1 u hp
            have hl2 := payload_lastPI cfg s1 s2 u hpl
            rcases ih _ h with ⟨_, hl⟩ | ⟨e, he1, he2⟩
            · simp only at hl; rw [hl2.1, hs1] at hl; cases hl
            · refine ⟨e, ?_, he2⟩
              cases rest with
              | nil => cases he1
              | cons r rs => simpa [List.getLast?_cons_cons] using he1

/-- **sequences are validated independently** (the structural half of C10): an accepted prefix
    leaves nothing behind but the position and the decoded pictures -/
theorem accepted_prefix_then_fresh (cfg : Config) (us1 us2 : List DUnit)
    (h : (validate cfg us1).1 = .ok) :
    validate cfg (us1 ++ us2) =
      run cfg (VState.fresh (totalLen us1) (validate cfg us1).2) us2 := by
  have := run_append_ok cfg us1 (VState.fresh 0 []) us2 (fun _ => rfl) h
  simpa [validate, VState.fresh] using this

/-- every level ordering pattern generated from level_sequence_restrictions.csv parses and admits a
    sequence header as first data unit (the hypothesis of `validate_never_crashes`) -/
theorem level_patterns_admit_header :
    VC2.Gen.levelPatternTokens.all (fun p =>
      match (parseRegex (p.2.map tokOf)).toOption with
      | some ast => ((Matcher.init false ast).matchSymbol "sequence_header").isSome
      | none => false) = true := by
  decide +kernel

/-! ### non-vacuity: a concrete accepted history and concrete rejected ones -/

def cfg0 : Config := { slicesX := 2, slicesY := 1, levelPattern := .star (.sym WILDCARD) }
def hdr (prev : Nat) : DUnit := { kind := .seqHdr, code := 0, len := 30, next := 30, prev := prev, majorVersion := 3, profile := 3 }
def pic (n prev : Nat) : DUnit := { kind := .picture, code := 232, len := 50, next := 50, prev := prev, picNum := n }
def fr0 (n prev : Nat) : DUnit := { kind := .fragment, code := 236, len := 40, next := 40, prev := prev, picNum := n }
def frd (n c x y prev : Nat) : DUnit := { kind := .fragment, code := 236, len := 45, next := 45, prev := prev, picNum := n, sliceCount := c, fx := x, fy := y }
def eos (prev : Nat) : DUnit := { kind := .eos, code := 16, len := 13, next := 0, prev := prev }

example : validate cfg0 [hdr 0, pic 7 30, fr0 8 50, frd 8 1 0 0 40, frd 8 1 1 0 45, eos 45] = (.ok, [7, 8]) := by
  decide +kernel
example : (validate cfg0 [hdr 0, pic 7 30, pic 9 50, eos 50]).1 = .reject "NonConsecutivePictureNumbers" := by
  decide +kernel
example : (validate cfg0 [hdr 0, frd 8 1 0 0 30, eos 45]).1 = .reject "TooManySlicesInFragmentedPicture" := by
  decide +kernel
example : (validate cfg0 [hdr 0, fr0 8 30, frd 8 1 1 0 40, eos 45]).1 = .reject "FragmentSlicesNotContiguous" := by
  decide +kernel
example : (validate cfg0 [hdr 0, fr0 8 30, pic 9 40, eos 50]).1 = .reject "PictureInterleavedWithFragmentedPicture" := by
  decide +kernel
example : (validate cfg0 [hdr 0, pic 7 30, eos 51]).1 = .reject "InconsistentPreviousParseOffset" := by
  decide +kernel

end VC2.Props.C01
