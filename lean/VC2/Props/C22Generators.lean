/-
  C22 — picture generators produce well-formed pictures for any regular format: the statement for the
  five generators as wholes.  Property theorems only (lemmas: VC2/Proofs/PictureShape.lean).

  Model: VC2/Model/PictureShape.lean - the array-size semantics of every numpy operation the generators
  and the pipe behind them perform (slices, broadcasting assignments, repeats), the picture counts and
  numbers, and the integer sample values of mid_gray / white_noise; tied to picture_generators.py and
  color_conversion.py by the `ps` correspondence, which runs the five REAL generators on regular AND
  irregular formats (where the model predicts exactly which ones numpy rejects).
  The coded size is the GENERATED picture_dimensions.

  Not modelled: the floating-point colour arithmetic (its result enters only through round-and-clip,
  `samples_within_depth` in C22.lean).
-/
import VC2.Proofs.PictureShape
namespace VC2.Props.C22
open VC2 VC2.Model.PictureGen VC2.Model.PictureShape VC2.Proofs.PictureShape

/-- **the property, sizes and counts**: for any regular format (any frame size that is a multiple of
    the subsampling and, for interlaced sources or field coding, of twice the vertical subsampling; any
    field order; any sprite the pixel aspect ratio leaves non-empty) every generator that is asked for at
    least one frame yields
      * at least one picture,
      * an even number when pictures are fields,
      * numbered consecutively from 0,
      * each with all three components exactly the coded size (the generated picture_dimensions). -/
theorem generators_wellformed (g : Generator) (f : Fmt) (hr : Regular f) (hs : (spriteShape f).isSome)
    (hn : 1 ≤ framesDrawn g) :
    ∃ n, generate g f = some (List.replicate n (codedShape f)) ∧ 1 ≤ n ∧ (f.fields = true → n % 2 = 0) ∧
      picNumbers g f n = List.range n := by
  refine ⟨if f.fields then 2 * framesDrawn g else framesDrawn g, generate_regular g f hr hs, ?_, ?_, ?_⟩
  · split <;> omega
  · intro hf; simp [hf]
  · cases g <;> simp only [picNumbers]
    cases hf : f.fields <;> simp [framesDrawn, List.range_succ]

/-- the sprite exists for every pixel aspect ratio up to 128:1 (beyond that PIL is asked for an empty
    image and refuses: the guard is needed, see the example below) -/
theorem sprite_exists (f : Fmt) (h1 : 1 ≤ f.parNumer) (h : f.parNumer ≤ 128 * f.parDenom) : (spriteShape f).isSome := by
  unfold spriteShape
  split
  · have : 1 ≤ 128 * f.parDenom / f.parNumer := (Nat.le_div_iff_mul_le (by omega)).mpr (by omega)
    simp only []
    rw [if_neg (by omega)]; rfl
  · rfl

/-- the frames the three drawing generators produce have the frame's size whatever the sprite's size and
    position - including frames narrower than the sprite and positions beyond the right edge
    (numpy accepts every one of the blits) -/
theorem sprite_always_fits (f : Fmt) (sprite : Shape) (px : Nat) : movingFrame f sprite px = some (f.height, f.width) :=
  movingFrame_ok f sprite px

/-- **sample values, mid_gray**: with an excursion of at least 1 (the validator rejects 0) the depth is
    at least 1 and the mid-gray sample `1 << (depth − 1)` lies within the depth -/
theorem mid_gray_sample_in_range (exc : Nat) (h : 1 ≤ exc) :
    ∃ v, midGrayValue (depthOf exc) = some v ∧ 0 ≤ v ∧ v ≤ 2 ^ (depthOf exc).toNat - 1 := by
  have hd := depth_pos exc h
  refine ⟨2 ^ (depthOf exc - 1).toNat, by unfold midGrayValue; rw [if_neg (by omega)], Int.le_of_lt (Int.pow_pos (by decide)), ?_⟩
  obtain ⟨k, hk⟩ : ∃ k : Nat, depthOf exc = (k : Int) + 1 := ⟨(depthOf exc - 1).toNat, by omega⟩
  rw [hk]
  have e1 : ((k : Int) + 1 - 1).toNat = k := by omega
  have e2 : ((k : Int) + 1).toNat = k + 1 := by omega
  rw [e1, e2, Int.pow_succ]
  have : (0 : Int) < 2 ^ k := Int.pow_pos (by decide)
  omega

/-- **sample values, white_noise**: a draw from `randint(0, 1 << depth)` lies within the depth -/
theorem noise_sample_in_range (depth v : Int) (h0 : 0 ≤ v) (h1 : v < noiseBound depth) :
    0 ≤ v ∧ v ≤ 2 ^ depth.toNat - 1 := by
  unfold noiseBound at h1; omega

/-! the hypotheses are needed and satisfiable -/

/-- an excursion of 0 gives depth 0 and mid_gray's shift count is negative (Python raises) -/
example : midGrayValue (depthOf 0) = none := by decide
/-- an odd width with 4:2:2: from_444's assignment is rejected by numpy -/
example : generate .staticSprite { width := 5, height := 4, cdf := 1, interlaced := false, fields := false, tff := true } = none := by decide
/-- ... except that a width of 1 broadcasts into the empty colour-difference plane -/
example : (generate .linearRamps { width := 1, height := 4, cdf := 1, interlaced := false, fields := false, tff := true }).isSome := by decide
/-- an odd height with an interlaced source: the two fields differ in size -/
example : generate .linearRamps { width := 4, height := 5, cdf := 0, interlaced := true, fields := false, tff := true } = none := by decide
/-- a pixel aspect ratio beyond 128:1 leaves no sprite -/
example : generate (.movingSprite 10) { width := 4, height := 4, cdf := 0, interlaced := false, fields := false, tff := true, parNumer := 200 } = none := by decide
example : Regular { width := 6, height := 8, cdf := 2, interlaced := true, fields := true, tff := false } := by decide
example : generate (.movingSprite 2) { width := 6, height := 8, cdf := 2, interlaced := true, fields := true, tff := false } =
    some (List.replicate 4 { y := (4, 6), c1 := (2, 3), c2 := (2, 3) }) := by decide

end VC2.Props.C22
