/-
  C27 — Fixed-entry dictionaries never hold undeclared keys and pickle faithfully.
  Model: VC2/Model/FixedDict.lean, tied to fixeddict.py by the `fd` correspondence over the
  library's fixeddict types; which `dict` key-adding operations the generated classes override is
  read from the running code on every run (VC2.Gen.fixeddictGuards).
-/
import VC2.Model.FixedDict
import VC2.Gen.Tables
set_option linter.unusedVariables false
namespace VC2.Props.C27
open VC2 VC2.Model.FixedDict

/-- only declared keys are held -/
def Inv (d : FD) : Prop := ∀ kv ∈ d.items, kv.1 ∈ d.declared

theorem mem_rawSet (it : Items) (k : String) (v : Int) (kv : String × Int) (h : kv ∈ rawSet it k v) :
    kv ∈ it ∨ kv.1 = k := by
  unfold rawSet at h
  split at h
  · rw [List.mem_map] at h
    obtain ⟨x, hx, hxe⟩ := h
    split at hxe
    · right; rw [← hxe]
    · left; rw [← hxe]; exact hx
  · rw [List.mem_append, List.mem_singleton] at h
    rcases h with h | h
    · exact Or.inl h
    · right; rw [h]

theorem set_spec (d : FD) (k : String) (v : Int) :
    (k ∉ d.declared → d.set k v = .error (.fixedDictKeyError k)) ∧
    (∀ d', d.set k v = .ok d' → d'.declared = d.declared ∧ (Inv d → Inv d')) := by
  unfold FD.set
  constructor
  · intro h; have : d.declared.contains k = false := by simpa using h
    rw [this]; rfl
  · intro d' h
    split at h
    · rename_i hk
      injection h with h; subst h
      refine ⟨rfl, ?_⟩
      intro hinv kv hkv
      rcases mem_rawSet _ _ _ _ hkv with h | h
      · exact hinv kv h
      · rw [h]; simpa using hk
    · cases h

theorem setdefault_spec (d : FD) (k : String) (v : Int) :
    (k ∉ d.declared → d.setdefault k v = .error (.fixedDictKeyError k)) ∧
    (∀ d', d.setdefault k v = .ok d' → d'.declared = d.declared ∧ (Inv d → Inv d')) := by
  unfold FD.setdefault
  constructor
  · intro h; have : d.declared.contains k = false := by simpa using h
    rw [this]; rfl
  · intro d' h
    split at h
    · rename_i hk
      injection h with h; subst h
      split
      · exact ⟨rfl, id⟩
      · refine ⟨rfl, ?_⟩
        intro hinv kv hkv
        simp only [List.mem_append, List.mem_singleton] at hkv
        rcases hkv with h | h
        · exact hinv kv h
        · rw [h]; simpa using hk
    · cases h

theorem update_spec : ∀ (kvs : Items) (d : FD),
    (d.update kvs).1.declared = d.declared ∧ (Inv d → Inv (d.update kvs).1) ∧
    ((d.update kvs).2 = none → ∀ kv ∈ kvs, kv.1 ∈ d.declared) ∧
    (∀ k, (d.update kvs).2 = some (.fixedDictKeyError k) → k ∉ d.declared) := by
  intro kvs
  induction kvs with
  | nil => intro d; simp [FD.update]
  | cons kv rest ih =>
    intro d
    obtain ⟨k, v⟩ := kv
    simp only [FD.update]
    have ⟨s1, s2⟩ := set_spec d k v
    cases hs : d.set k v with
    | error e =>
      refine ⟨rfl, id, (fun h => by cases h), ?_⟩
      intro k' hk'
      injection hk' with hk'
      unfold FD.set at hs
      split at hs
      · cases hs
      · rename_i hnot
        injection hs with hs; rw [← hs] at hk'; injection hk' with hk'
        rw [← hk']; simpa using hnot
    | ok d' =>
      simp only
      obtain ⟨e1, e2⟩ := s2 d' hs
      obtain ⟨i1, i2, i3, i4⟩ := ih d'
      refine ⟨by rw [i1, e1], fun h => i2 (e2 h), ?_, ?_⟩
      · intro hnone kv hkv
        rw [List.mem_cons] at hkv
        rcases hkv with h | h
        · subst h
          unfold FD.set at hs
          split at hs
          · rename_i hk; simpa using hk
          · cases hs
        · rw [← e1]; exact i3 hnone kv h
      · intro k' hk'; rw [← e1]; exact i4 k' hk'

theorem new_spec (declared : List String) (kvs : Items) :
    ∀ d, FD.new declared kvs = .ok d → d.declared = declared ∧ Inv d := by
  intro d h
  unfold FD.new at h
  simp only at h
  split at h
  · cases h
  · rename_i hnone
    injection h with h; subst h
    refine ⟨rfl, ?_⟩
    intro kv hkv
    have := List.find?_eq_none.1 hnone kv hkv
    simpa using this

/-- **Invariant**: after any sequence of item assignment, setdefault, update, in-place merge,
    copy and pickle round trips, a fixed-entry dictionary holds only its declared keys —
    provided every key-adding operation is guarded (`iorGuarded`; see `all_guarded_in_code`). -/
theorem keys_subset_declared (ops : List Op) : ∀ (d : FD), Inv d →
    Inv (d.run true ops) ∧ (d.run true ops).declared = d.declared := by
  induction ops with
  | nil => intro d h; exact ⟨h, rfl⟩
  | cons op ops ih =>
    intro d h
    simp only [FD.run, List.foldl_cons]
    have step : Inv (d.apply true op).1 ∧ (d.apply true op).1.declared = d.declared := by
      cases op with
      | set k v =>
        simp only [FD.apply]
        cases hs : d.set k v with
        | error e => exact ⟨h, rfl⟩
        | ok d' => have := (set_spec d k v).2 d' hs; exact ⟨this.2 h, this.1⟩
      | setdefault k v =>
        simp only [FD.apply]
        cases hs : d.setdefault k v with
        | error e => exact ⟨h, rfl⟩
        | ok d' => have := (setdefault_spec d k v).2 d' hs; exact ⟨this.2 h, this.1⟩
      | update kvs => have := update_spec kvs d; exact ⟨this.2.1 h, this.1⟩
      | ior kvs => simp only [FD.apply, FD.ior, if_true]; have := update_spec kvs d; exact ⟨this.2.1 h, this.1⟩
      | copy =>
        simp only [FD.apply, FD.copy]
        cases hs : FD.new d.declared d.items with
        | error e => exact ⟨h, rfl⟩
        | ok d' => have := new_spec _ _ d' hs; exact ⟨this.2, this.1⟩
      | pickle =>
        simp only [FD.apply, FD.pickleRoundTrip]
        have := update_spec d.items { declared := d.declared, items := [] }
        exact ⟨this.2.1 (fun kv hkv => by cases hkv), this.1⟩
    have := ih (d.apply true op).1 step.1
    simp only [FD.run] at this
    exact ⟨this.1, by rw [this.2, step.2]⟩

/-- **Undeclared keys are rejected with the fixeddict key error** by every guarded operation,
    and by construction. -/
theorem undeclared_rejected (d : FD) (k : String) (v : Int) (hk : k ∉ d.declared) :
    d.set k v = .error (.fixedDictKeyError k) ∧ d.setdefault k v = .error (.fixedDictKeyError k) ∧
    (d.update [(k, v)]).2 = some (.fixedDictKeyError k) ∧
    (d.ior true [(k, v)]).2 = some (.fixedDictKeyError k) ∧
    FD.new d.declared [(k, v)] = .error (.fixedDictKeyError k) := by
  have h1 := (set_spec d k v).1 hk
  have hc : d.declared.contains k = false := by simpa using hk
  refine ⟨h1, (setdefault_spec d k v).1 hk, ?_, ?_, ?_⟩
  · simp only [FD.update, h1]
  · simp only [FD.ior, if_true, FD.update, h1]
  · simp [FD.new, rawMerge, rawSet, hk]

theorem rawSet_fresh (it : Items) (k : String) (v : Int) (h : ∀ kv ∈ it, kv.1 ≠ k) :
    rawSet it k v = it ++ [(k, v)] := by
  unfold rawSet
  have : it.any (fun kv => kv.1 == k) = false := by
    simp only [List.any_eq_false, beq_iff_eq]; intro kv hkv; exact h kv hkv
  rw [this]; simp

theorem update_rebuild (declared : List String) : ∀ (suf pre : Items),
    ((pre ++ suf).map (·.1)).Nodup → (∀ kv ∈ suf, kv.1 ∈ declared) →
    ({ declared := declared, items := pre } : FD).update suf =
      ({ declared := declared, items := pre ++ suf }, none) := by
  intro suf
  induction suf with
  | nil => intro pre _ _; simp [FD.update]
  | cons kv rest ih =>
    intro pre hnd hdecl
    obtain ⟨k, v⟩ := kv
    have hk : declared.contains k = true := by simpa using hdecl (k, v) List.mem_cons_self
    have hfresh : ∀ x ∈ pre, x.1 ≠ k := by
      intro x hx heq
      rw [List.map_append, List.nodup_append] at hnd
      exact hnd.2.2 x.1 (List.mem_map_of_mem hx) k (by simp) heq
    simp only [FD.update, FD.set, hk, if_true, rawSet_fresh pre k v hfresh]
    have := ih (pre ++ [(k, v)]) (by simpa [List.append_assoc] using hnd)
      (fun x hx => hdecl x (List.mem_cons_of_mem _ hx))
    simpa [List.append_assoc] using this

/-- **Pickling and unpickling returns an equal dictionary** (of the same declared-key type). -/
theorem pickle_roundtrip (d : FD) (hinv : Inv d) (hnd : (d.items.map (·.1)).Nodup) :
    d.pickleRoundTrip = (d, none) := by
  unfold FD.pickleRoundTrip
  have := update_rebuild d.declared d.items [] (by simpa using hnd) hinv
  simpa using this

/-- what the running code says about its key-adding operations (regenerated every run):
    each of `__init__`, `__setitem__`, `setdefault`, `update`, `__ior__` is overridden -/
theorem all_guarded_in_code : VC2.Gen.fixeddictGuards.all (·.2) = true := by decide

/-- had `|=` stayed the inherited `dict.__ior__` (defect F2), the invariant would fail: -/
theorem unguarded_ior_breaks_invariant :
    ¬ Inv (({ declared := ["a"], items := [] } : FD).run false [.ior [("bogus", 1)]]) := by
  intro h
  have := h ("bogus", 1) (by decide)
  revert this; decide

/-- non-vacuity -/
example : Inv ({ declared := ["a", "b"], items := [("a", 1)] } : FD) := by
  intro kv h; simp at h; subst h; decide
example : (({ declared := ["a", "b"], items := [("a", 1)] } : FD).run true
    [.set "b" 2, .ior [("a", 5)], .set "zz" 0, .pickle]).items = [("a", 5), ("b", 2)] := by decide

end VC2.Props.C27
