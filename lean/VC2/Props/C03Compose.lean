/-
  C03 / C07 / C01 composed: the encoder's plain sequence, filled in by the autofill passes, is accepted by
  the validator.  Property theorem only (lemmas: VC2/Proofs/EncoderCompose.lean; definitions:
  VC2/Model/EncoderCompose.lean).
-/
import VC2.Proofs.EncoderCompose
namespace VC2.Props.C03
open VC2 VC2.Model.Autofill VC2.Model.Stream VC2.Model.StreamSpec VC2.Model.StreamRules VC2.Proofs.Autofill
open VC2.Model.EncoderCompose VC2.Proofs.EncoderCompose

/-- **the encoder's plain sequence, filled in automatically, is accepted by the validator**: for either
    profile, frame or field coding (an even number of fields), any number of pictures and any serialised
    lengths (each data unit at least its 13-byte parse-info header): the sequence header, the pictures and the
    end of sequence with AUTOMATIC picture numbers, parse offsets and major version satisfy every stream rule
    - hence the validator model accepts them - as soon as the level's ordering pattern admits the sequence
    (which is what make_matching_sequence establishes, C19) -/
theorem autofilled_plain_sequence_is_accepted (cfg : Config) (p pcm h : Nat) (ls : List Nat)
    (hp : p = 0 ∨ p = 3) (hh : 13 ≤ h) (hl : ∀ l ∈ ls, 13 ≤ l) (hev : pcm = 1 → ls.length % 2 = 0)
    (hpat : patternsRule cfg none ((autofillSeq (plainSeq p h ls)).map (toD pcm)) = true) :
    (validate cfg ((autofillSeq (plainSeq p h ls)).map (toD pcm))).1 = .ok := by
  rw [stream_closed] at hpat ⊢
  have hmv : profileNeed p ≤ mvOf p := by unfold mvOf profileNeed; exact pymax_ge_right _ _
  have hwf : VC2.Props.C01.WellFormed (hdrD p pcm h :: filledD p pcm h (M32 - 1) ls) := by
    constructor
    · intro u hu
      rcases List.mem_cons.1 hu with rfl | hu
      · simp [unitWF, hdrD, kindOfCode, hh]
      · exact wf_body p pcm ls _ _ hl u hu
    · have hk : ((Kind.seqHdr = Kind.eos) : Prop) = False := by simp
      simp only [hdrsAgree, hdrD, hk, if_false]
      exact agree_body p pcm _ ls _ _
  rw [VC2.Props.C01.validator_accepts_iff_all_rules cfg _ hwf]
  refine ⟨?_, ?_, ?_, ?_, ?_, ?_, ?_, hpat⟩
  · simp only [shapeRule, hdrD]; simp [shape_body]
  · simp only [offsetsRule, hdrD]; simp [hh, offsets_body p pcm ls h _ hl]
  · have hq : profileNeed (hdrD p pcm h).profile ≤ ((hdrD p pcm h).majorVersion : Int) := by
      simp only [hdrD]; rw [mvOf_toNat]; exact hmv
    simp only [headersRule]
    simp [hq, headers_body]
  · simp only [codesRule]
    exact codes_body p pcm (hdrD p pcm h) hp rfl (by simp only [hdrD]; rw [mvOf_toNat]; exact mvOf_ge_one p) ls _ _
  · simp only [numbersRule]
    apply numbers_body p pcm (hdrD p pcm h) rfl ls h (M32 - 1) 0 none (Or.inl rfl)
    · unfold M32; decide
    · intro h1; simpa using hev h1
  · simp only [fragmentsRule]; exact fragments_body cfg p pcm ls _ _
  · simp only [versionRule]
    apply version_body
    simp only [hdrD]; rw [mvOf_toNat]
    unfold mvOf codeNeed profileNeed
    have c : pymax VC2.Gen.MINIMUM_MAJOR_VERSION (VC2.Gen.parse_code_version_implication ((0 : Nat) : Int)) = VC2.Gen.MINIMUM_MAJOR_VERSION := by decide
    rw [c]
    exact Int.le_refl _


/-! non-vacuity: an unconstrained level (`.*`), three HQ frames / two LD fields; an odd number of fields is rejected -/
def anyLevel : Config := { slicesX := 1, slicesY := 1, levelPattern := .star (.sym ".") }
example : (validate anyLevel ((autofillSeq (plainSeq 3 30 [50, 60, 70])).map (toD 0))).1 = .ok := by decide +kernel
example : (validate anyLevel ((autofillSeq (plainSeq 0 30 [50, 60])).map (toD 1))).1 = .ok := by decide +kernel
example : (validate anyLevel ((autofillSeq (plainSeq 0 30 [50, 60, 70])).map (toD 1))).1 ≠ .ok := by decide +kernel
example : patternsRule anyLevel none ((autofillSeq (plainSeq 3 30 [50, 60, 70])).map (toD 0)) = true := by decide +kernel

end VC2.Props.C03
