/- Line-protocol front end for the BitIO model (`rd`, `dd`, `wr` lines). -/
import VC2.Model.BitIO
import VC2.Model.BitIOSeek
namespace VC2.Model.BitIO
open VC2

def hexVal (c : Char) : Option Nat :=
  if '0' ≤ c ∧ c ≤ '9' then some (c.toNat - '0'.toNat)
  else if 'a' ≤ c ∧ c ≤ 'f' then some (c.toNat - 'a'.toNat + 10)
  else if 'A' ≤ c ∧ c ≤ 'F' then some (c.toNat - 'A'.toNat + 10)
  else none

def hexToBits (s : String) : Option (List Bool) :=
  if s = "-" then some [] else
  s.toList.foldr (fun c acc => do
    let bs ← acc
    let v ← hexVal c
    pure ((nbitsOf v 4) ++ bs)) (some [])

def bitsToStr (bs : List Bool) : String :=
  if bs.isEmpty then "-" else String.ofList (bs.map fun b => if b then '1' else '0')

def strToBits (s : String) : Option (List Bool) :=
  if s = "-" then some [] else
  s.toList.mapM fun c => if c = '1' then some true else if c = '0' then some false else none

def tellStr (pos : Nat) : String := s!"{pos / 8}.{7 - pos % 8}"

def bstr (b : Bool) : String := if b then "1" else "0"
def tf (b : Bool) : String := if b then "T" else "F"

/-- split "12.3" or "12,3" -/
def split2 (s : String) (sep : Char) : Option (String × String) :=
  match s.splitOn (String.singleton sep) with
  | [a, b] => some (a, b)
  | _ => none

def rdOp (r : Reader) (op : String) : Except IOErr (String × Reader) :=
  let arg := (op.drop 1).toString
  match op.front with
  | 'b' => do let (b, r') ← r.readBit; pure (bstr b, r')
  | 'n' => match arg.toInt? with
    | some k => do let (v, r') ← r.readNbits k; pure (toString v, r')
    | none => pure ("bad-op", r)
  | 'l' => match arg.toInt? with
    | some k => do let (v, r') ← r.readNbits (k * 8); pure (toString v, r')
    | none => pure ("bad-op", r)
  | 'a' => match arg.toInt? with
    | some k => do let (v, r') ← Reader.readBits k.toNat r; pure (bitsToStr v, r')
    | none => pure ("bad-op", r)
  | 'y' => match arg.toInt? with
    | some k => do let (v, r') ← Reader.readBits (k * 8).toNat r; pure (bitsToStr v, r')
    | none => pure ("bad-op", r)
  | 'u' => do let (v, r') ← r.readUint; pure (toString v, r')
  | 's' => do let (v, r') ← r.readSint; pure (toString v, r')
  | 'B' => match arg.toInt? with
    | some k => do let r' ← r.boundedBlockBegin k; pure ("ok", r')
    | none => pure ("bad-op", r)
  | 'E' => do let (v, r') ← r.boundedBlockEnd; pure (toString v, r')
  | 't' => pure (tellStr r.pos, r)
  | 'k' => match split2 arg '.' with
    | some (a, b) => match a.toNat?, b.toNat? with
      | some a, some b => do let r' ← r.seek a b; pure ("ok", r')
      | _, _ => pure ("bad-op", r)
    | none => pure ("bad-op", r)
  | 'e' => pure (tf r.isEndOfStream, r)
  | 'r' => pure (match r.rem with | none => "None" | some n => toString n, r)
  | _ => pure ("bad-op", r)

def ddOp (d : DReader) (op : String) : Except IOErr (String × DReader) :=
  let arg := (op.drop 1).toString
  match op with
  | "bb" => do let (b, d') ← d.readBitb; pure (bstr b, d')
  | "ob" => do let (b, d') ← d.readBitb; pure (tf b, d')
  | "ub" => do let (v, d') ← d.readUintG true; pure (toString v, d')
  | "sb" => do let (v, d') ← d.readSintG true; pure (toString v, d')
  | _ =>
  match op.front with
  | 'b' => do let (b, d') ← d.readBit; pure (bstr b, d')
  | 'o' => do let (b, d') ← d.readBit; pure (tf b, d')
  | 'n' => match arg.toInt? with
    | some k => do let (v, d') ← d.readNbits k; pure (toString v, d')
    | none => pure ("bad-op", d)
  | 'l' => match arg.toInt? with
    | some k => do let (v, d') ← d.readNbits (8 * k); pure (toString v, d')
    | none => pure ("bad-op", d)
  | 'u' => do let (v, d') ← d.readUintG false; pure (toString v, d')
  | 's' => do let (v, d') ← d.readSintG false; pure (toString v, d')
  | 'L' => match arg.toInt? with
    | some k => pure ("ok", { d with bitsLeft := k })
    | none => pure ("bad-op", d)
  | 'f' => do let d' ← d.flushInputb; pure ("ok", d')
  | 'A' => pure ("ok", d.byteAlign)
  | 't' => pure (tellStr d.pos, d)
  | 'e' => pure (tf d.isEndOfStream, d)
  | 'q' => pure (toString d.bitsLeft, d)
  | _ => pure ("bad-op", d)

def wrOp (w : Writer) (op : String) : Except IOErr (String × Writer) :=
  let arg := (op.drop 1).toString
  match op.front with
  | 'b' => do let w' ← w.writeBit (arg = "1"); pure ("ok", w')
  | 'n' => match split2 arg ',' with
    | some (a, b) => match a.toInt?, b.toInt? with
      | some k, some v => do let w' ← w.writeNbits k v; pure ("ok", w')
      | _, _ => pure ("bad-op", w)
    | none => pure ("bad-op", w)
  | 'l' => match split2 arg ',' with
    | some (a, b) => match a.toInt?, b.toInt? with
      | some k, some v => do let w' ← w.writeNbits (k * 8) v; pure ("ok", w')
      | _, _ => pure ("bad-op", w)
    | none => pure ("bad-op", w)
  | 'a' => match split2 arg ',' with
    | some (a, b) => match a.toInt?, strToBits b with
      | some k, some v => do let w' ← w.writeBitarray k v; pure ("ok", w')
      | _, _ => pure ("bad-op", w)
    | none => pure ("bad-op", w)
  | 'y' => match split2 arg ',' with
    | some (a, b) => match a.toNat?, (if b == "-" then some [] else (b.splitOn ".").mapM (·.toNat?)) with
      | some k, some bs => do let w' ← w.writeBytes k bs; pure ("ok", w')
      | _, _ => pure ("bad-op", w)
    | none => pure ("bad-op", w)
  | 'u' => match arg.toInt? with
    | some v => do let w' ← w.writeUint v; pure ("ok", w')
    | none => pure ("bad-op", w)
  | 's' => match arg.toInt? with
    | some v => do let w' ← w.writeSint v; pure ("ok", w')
    | none => pure ("bad-op", w)
  | 'B' => match arg.toInt? with
    | some k => do let w' ← w.boundedBlockBegin k; pure ("ok", w')
    | none => pure ("bad-op", w)
  | 'E' => do let (v, w') ← w.boundedBlockEnd; pure (toString v, w')
  | 't' => pure (tellStr w.out.length, w)
  | 'r' => pure (match w.rem with | none => "None" | some n => toString n, w)
  | _ => pure ("bad-op", w)

/-- operations on the seekable writer model (`ws` lines): b0/b1, n<bits>,<value>, u<value>, B<len>, E, k<bytes>,<bits> (seek),
    t (tell), r (bits remaining), f (flush) -/
def wsOp (w : VC2.Model.BitIOSeek.WS) (op : String) : Except IOErr (String × VC2.Model.BitIOSeek.WS) :=
  let arg := (op.drop 1).toString
  match op.front with
  | 'b' => do let w' ← w.writeBit (arg = "1"); pure ("ok", w')
  | 'n' => match split2 arg ',' with
    | some (a, b) => match a.toInt?, b.toInt? with
      | some k, some v => do let w' ← w.writeNbits k v; pure ("ok", w')
      | _, _ => pure ("bad-op", w)
    | none => pure ("bad-op", w)
  | 'u' => match arg.toInt? with
    | some v => do let w' ← w.writeUint v; pure ("ok", w')
    | none => pure ("bad-op", w)
  | 'B' => match arg.toInt? with
    | some k => do let w' ← w.blockBegin k; pure ("ok", w')
    | none => pure ("bad-op", w)
  | 'E' => do let (v, w') ← w.blockEnd; pure (toString v, w')
  | 'k' => match split2 arg ',' with
    | some (a, b) => match a.toNat?, b.toNat? with
      | some by_, some bi => do let w' ← w.seek by_ bi; pure ("ok", w')
      | _, _ => pure ("bad-op", w)
    | none => pure ("bad-op", w)
  | 't' => pure (s!"{w.tell.1}.{w.tell.2}", w)
  | 'r' => pure (match w.rem with | none => "None" | some n => toString n, w)
  | 'f' => pure ("ok", w.flush)
  | _ => pure ("bad-op", w)

def hexByte (n : Nat) : String :=
  let d := fun (k : Nat) => "0123456789abcdef".toList.getD k '0'
  String.ofList [d (n / 16 % 16), d (n % 16)]

def runOps {σ : Type} (f : σ → String → Except IOErr (String × σ)) :
    σ → List String → List String → (List String × σ)
  | s, [], acc => (acc.reverse, s)
  | s, op :: ops, acc =>
    match f s op with
    | .ok (o, s') => runOps f s' ops (o :: acc)
    | .error e => ((s!"ERR:{e}" :: acc).reverse, s)

def handleIO (kind : String) (ws : List String) : String :=
  match kind, ws with
  | "rd", hex :: ops =>
    match hexToBits hex with
    | some bits => " ".intercalate (runOps rdOp { all := bits, pos := 0 } ops []).1
    | none => "bad-op"
  | "dd", hex :: ops =>
    match hexToBits hex with
    | some bits => " ".intercalate (runOps ddOp { all := bits, pos := 0 } ops []).1
    | none => "bad-op"
  | "wr", ops =>
    let (outs, w) := runOps wrOp ({} : Writer) ops []
    -- after a mid-primitive failure (0 written past a block end) the partially written
    -- output is not compared
    if outs.getLast? = some "ERR:ZeroPastEnd" then " ".intercalate (outs ++ ["OUT:?"])
    else " ".intercalate (outs ++ ["OUT:" ++ bitsToStr w.flushed])
  | "ws", ops =>
    let (outs, w) := runOps wsOp ({} : VC2.Model.BitIOSeek.WS) ops []
    if outs.getLast? = some "ERR:ZeroPastEnd" then " ".intercalate (outs ++ ["FILE:?"])
    else " ".intercalate (outs ++ ["FILE:" ++ String.join (w.flush.file.map hexByte)])
  | _, _ => "bad-op"

end VC2.Model.BitIO
