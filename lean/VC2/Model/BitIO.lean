/-
  Hand-written executable model of the bit-level I/O layers:
    * vc2_conformance/bitstream/io.py   BitstreamReader / BitstreamWriter
    * vc2_conformance/decoder/io.py     the validator's reader (read_bit … read_sintb)
  Streams are `List Bool` (MSB first within each byte), positions are absolute bit
  offsets (`tell() = (pos / 8, 7 - pos % 8)`).  Core Lean only.
  Tied to the code by the `io` correspondence (harness/props/c20.py).
-/
import VC2.Prelude
namespace VC2.Model.BitIO
open VC2

inductive IOErr
  | eof            -- EOFError / UnexpectedEndOfStream
  | outOfRange     -- OutOfRangeError
  | zeroPastEnd    -- ValueError: 0 written past the end of a bounded block
  | nested         -- "Cannot nest bounded blocks"
  | notInBlock     -- "Not in bounded block."
  | seekPastEnd    -- "Cannot seek() past end of bounded block."
  | fuel           -- model artefact; proved unreachable (`readUintLoop_fuel`)
  deriving Repr, DecidableEq, Inhabited

instance : ToString IOErr where
  toString
    | .eof => "EOF" | .outOfRange => "OutOfRange" | .zeroPastEnd => "ZeroPastEnd"
    | .nested => "Nested" | .notInBlock => "NotInBlock" | .seekPastEnd => "SeekPastEnd"
    | .fuel => "FUEL"

/-! ## BitstreamReader -/

structure Reader where
  all : List Bool
  pos : Nat
  rem : Option Int := none     -- `_bits_remaining`
  deriving Repr

/-- the un-bounded part of `read_bit` -/
def Reader.rawBit (r : Reader) : Except IOErr (Bool × Reader) :=
  match r.all[r.pos]? with
  | none => .error .eof
  | some b => .ok (b, { r with pos := r.pos + 1 })

/-- `BitstreamReader.read_bit` -/
def Reader.readBit (r : Reader) : Except IOErr (Bool × Reader) :=
  match r.rem with
  | some n =>
    let r' := { r with rem := some (n - 1) }
    if n - 1 ≤ -1 then .ok (true, r') else r'.rawBit
  | none => r.rawBit

/-- `read_nbits` (also `read_uint_lit`, with `8 * num_bytes`) : `range(bits)` iterations -/
def Reader.readNbitsLoop : Nat → Reader → Nat → Except IOErr (Nat × Reader)
  | 0, r, v => .ok (v, r)
  | n + 1, r, v => do
    let (b, r1) ← r.readBit
    Reader.readNbitsLoop n r1 (v * 2 + (if b then 1 else 0))

def Reader.readNbits (r : Reader) (bits : Int) : Except IOErr (Nat × Reader) :=
  Reader.readNbitsLoop bits.toNat r 0

/-- `read_bitarray` -/
def Reader.readBits : Nat → Reader → Except IOErr (List Bool × Reader)
  | 0, r => .ok ([], r)
  | n + 1, r => do
    let (b, r1) ← r.readBit
    let (bs, r2) ← Reader.readBits n r1
    pure (b :: bs, r2)

/-- the `while True` loop of `read_uint`; fuel is the number of iterations allowed -/
def Reader.readUintLoop : Nat → Reader → Nat → Except IOErr (Nat × Reader)
  | 0, _, _ => .error .fuel
  | fuel + 1, r, value => do
    let (b, r1) ← r.readBit
    if b then pure (value, r1)
    else do
      let (b2, r2) ← r1.readBit
      Reader.readUintLoop fuel r2 (value * 2 + (if b2 then 1 else 0))

/-- enough iterations for any stream: every non-final iteration consumes two real bits -/
def Reader.fuel (r : Reader) : Nat := (r.all.length - r.pos) + 2

def Reader.readUint (r : Reader) : Except IOErr (Int × Reader) := do
  let (v, r') ← Reader.readUintLoop r.fuel r 1
  pure ((v : Int) - 1, r')

def Reader.readSint (r : Reader) : Except IOErr (Int × Reader) := do
  let (v, r1) ← r.readUint
  if v ≠ 0 then do
    let (b, r2) ← r1.readBit
    pure (if b then -v else v, r2)
  else pure (v, r1)

def Reader.boundedBlockBegin (r : Reader) (len : Int) : Except IOErr Reader :=
  match r.rem with
  | some _ => .error .nested
  | none => .ok { r with rem := some len }

def Reader.boundedBlockEnd (r : Reader) : Except IOErr (Int × Reader) :=
  match r.rem with
  | none => .error .notInBlock
  | some n => .ok (if n < 0 then 0 else n, { r with rem := none })

/-- `seek(bytes, bits)`; the three-way adjustment of `_bits_remaining` as in the code -/
def Reader.seek (r : Reader) (bytes bits : Nat) : Except IOErr Reader :=
  let newOff : Int := (bytes * 8 + (7 - bits) : Nat)
  let delta : Int := newOff - r.pos
  match r.rem with
  | none => .ok { r with pos := newOff.toNat }
  | some n =>
    if delta > 0 ∧ n - delta < 0 then .error .seekPastEnd
    else if n ≤ 0 ∧ delta = 0 then .ok { r with pos := newOff.toNat }
    else if n < 0 ∧ delta < 0 then .ok { r with pos := newOff.toNat, rem := some (-delta) }
    else .ok { r with pos := newOff.toNat, rem := some (n - delta) }

def Reader.isEndOfStream (r : Reader) : Bool := r.all.length ≤ r.pos

/-! ## The validator's reader (decoder/io.py) -/

structure DReader where
  all : List Bool
  pos : Nat
  bitsLeft : Int := 0
  deriving Repr

def DReader.readBit (d : DReader) : Except IOErr (Bool × DReader) :=
  match d.all[d.pos]? with
  | none => .error .eof
  | some b => .ok (b, { d with pos := d.pos + 1 })

/-- `read_bitb`: note the `== 0` test -/
def DReader.readBitb (d : DReader) : Except IOErr (Bool × DReader) :=
  if d.bitsLeft = 0 then .ok (true, d)
  else { d with bitsLeft := d.bitsLeft - 1 }.readBit

def DReader.readNbitsLoop : Nat → DReader → Nat → Except IOErr (Nat × DReader)
  | 0, d, v => .ok (v, d)
  | n + 1, d, v => do
    let (b, d1) ← d.readBit
    DReader.readNbitsLoop n d1 (v * 2 + (if b then 1 else 0))

def DReader.readNbits (d : DReader) (n : Int) : Except IOErr (Nat × DReader) :=
  DReader.readNbitsLoop n.toNat d 0

def DReader.readUintLoop (bounded : Bool) : Nat → DReader → Nat → Except IOErr (Nat × DReader)
  | 0, _, _ => .error .fuel
  | fuel + 1, d, value => do
    let (b, d1) ← if bounded then d.readBitb else d.readBit
    if b then pure (value, d1)
    else do
      let (b2, d2) ← if bounded then d1.readBitb else d1.readBit
      DReader.readUintLoop bounded fuel d2 (value * 2 + (if b2 then 1 else 0))

def DReader.fuel (d : DReader) : Nat := (d.all.length - d.pos) + 2

def DReader.readUintG (bounded : Bool) (d : DReader) : Except IOErr (Int × DReader) := do
  let (v, d') ← DReader.readUintLoop bounded d.fuel d 1
  pure ((v : Int) - 1, d')

def DReader.readSintG (bounded : Bool) (d : DReader) : Except IOErr (Int × DReader) := do
  let (v, d1) ← DReader.readUintG bounded d
  if v ≠ 0 then do
    let (b, d2) ← if bounded then d1.readBitb else d1.readBit
    pure (if b then -v else v, d2)
  else pure (v, d1)

/-- `flush_inputb`: `while bits_left > 0: read_bit; bits_left -= 1` -/
def DReader.flushLoop : Nat → DReader → Except IOErr DReader
  | 0, d => .ok d
  | n + 1, d => do
    let (_, d1) ← d.readBit
    DReader.flushLoop n { d1 with bitsLeft := d1.bitsLeft - 1 }

def DReader.flushInputb (d : DReader) : Except IOErr DReader :=
  DReader.flushLoop d.bitsLeft.toNat d

def DReader.byteAlign (d : DReader) : DReader :=
  if d.pos % 8 = 0 then d else { d with pos := (d.pos / 8 + 1) * 8 }

def DReader.isEndOfStream (d : DReader) : Bool := d.all.length ≤ d.pos

/-! ## BitstreamWriter (append-only; `seek` on the writer is not modelled) -/

structure Writer where
  out : List Bool := []          -- bits written so far, oldest first
  rem : Option Int := none
  deriving Repr

/-- `write_bit` -/
def Writer.writeBit (w : Writer) (b : Bool) : Except IOErr Writer :=
  match w.rem with
  | some n =>
    let w' := { w with rem := some (n - 1) }
    if n - 1 ≤ -1 then (if b then .ok w' else .error .zeroPastEnd)
    else .ok { w' with out := w'.out ++ [b] }
  | none => .ok { w with out := w.out ++ [b] }

def Writer.writeBits : Writer → List Bool → Except IOErr Writer
  | w, [] => .ok w
  | w, b :: bs => do
    let w1 ← w.writeBit b
    Writer.writeBits w1 bs

/-- big-endian bits of `v`, `n` of them: `(value >> i) & 1` for `i = n-1 … 0` -/
def nbitsOf (v : Nat) : Nat → List Bool
  | 0 => []
  | i + 1 => v.testBit i :: nbitsOf v i

def Writer.writeNbits (w : Writer) (bits : Int) (value : Int) : Except IOErr Writer :=
  if value < 0 ∨ bitLength value > bits then .error .outOfRange
  else w.writeBits (nbitsOf value.toNat bits.toNat)

/-- `write_bitarray(bits, value)`: right-padded with zeros -/
def Writer.writeBitarray (w : Writer) (bits : Int) (value : List Bool) : Except IOErr Writer :=
  if (value.length : Int) > bits then .error .outOfRange
  else w.writeBits (value ++ List.replicate (bits.toNat - value.length) false)

/-- `write_bytes(num_bytes, value)`: too long a string is an OutOfRangeError; otherwise byte by byte through
    `write_nbits(8, ·)` - so with the bounded-block rules of every other write - then zero bytes up to `num_bytes` -/
def Writer.writeBytes (w : Writer) (n : Nat) (bs : List Nat) : Except IOErr Writer :=
  if bs.length > n then .error .outOfRange
  else (bs ++ List.replicate (n - bs.length) 0).foldlM (fun (w : Writer) (b : Nat) => w.writeNbits 8 (b : Int)) w

/-- exp-Golomb pairs `0, bit i` for `i = j-1 … 0` -/
def encPairs (m : Nat) : Nat → List Bool
  | 0 => []
  | j + 1 => false :: m.testBit j :: encPairs m j

/-- the bits `write_uint(v)` writes -/
def encodeUint (v : Nat) : List Bool := encPairs (v + 1) (Nat.log2 (v + 1)) ++ [true]

/-- the bits `write_sint(v)` writes -/
def encodeSint (v : Int) : List Bool :=
  encodeUint v.natAbs ++ (if v = 0 then [] else [decide (v < 0)])

def Writer.writeUint (w : Writer) (v : Int) : Except IOErr Writer :=
  if v < 0 then .error .outOfRange else w.writeBits (encodeUint v.toNat)

def Writer.writeSint (w : Writer) (v : Int) : Except IOErr Writer := do
  let w1 ← w.writeUint (pyabs v)
  if v ≠ 0 then w1.writeBit (decide (v < 0)) else pure w1

def Writer.boundedBlockBegin (w : Writer) (len : Int) : Except IOErr Writer :=
  match w.rem with
  | some _ => .error .nested
  | none => .ok { w with rem := some len }

def Writer.boundedBlockEnd (w : Writer) : Except IOErr (Int × Writer) :=
  match w.rem with
  | none => .error .notInBlock
  | some n => .ok (if n < 0 then 0 else n, { w with rem := none })

/-- file contents after `flush()`: the partial last byte is zero-padded -/
def Writer.flushed (w : Writer) : List Bool :=
  w.out ++ List.replicate ((8 - w.out.length % 8) % 8) false

end VC2.Model.BitIO
