/-
  Hand-written executable model of bitstream/vc2_autofill.py over abstract data units:
    autofill_picture_number, autofill_major_version (+ removal of extended transform parameters),
    autofill_parse_offsets + autofill_parse_offsets_finalize.
  `none` = the field is omitted or holds the AUTO sentinel.  The version implications are the
  GENERATED translations of version_constraints.py (VC2.Gen.Kernels).  Serialised unit lengths are
  inputs (they come from the serialiser, C21/C06).
-/
import VC2.Gen.Kernels
import VC2.Gen.Defaults
namespace VC2.Model.Autofill
open VC2

/-- transform parameters of a picture / first fragment, as far as versions are concerned; every field may be
    omitted (`none`) and then takes its documented default (VC2.Gen.default_*, generated from the default table) -/
structure TP where
  wavelet : Option Nat           -- wavelet_index
  asymIndexFlag : Option Bool    -- asym_transform_index_flag
  waveletHo : Option Nat         -- wavelet_index_ho (looked at only when the flag is set)
  asymFlag : Option Bool         -- asym_transform_flag
  depthHo : Option Nat           -- dwt_depth_ho (looked at only when the flag is set)
  hasEtp : Bool                  -- an extended_transform_parameters entry is present
  deriving Repr, DecidableEq, Inhabited

/-- `get_auto(tp, "wavelet_index", TransformParameters)` -/
def TP.w (t : TP) : Nat := t.wavelet.getD VC2.Gen.default_wavelet_index
/-- the horizontal-only wavelet the code compares: the 2-D one unless the index flag is set -/
def TP.who (t : TP) : Nat :=
  if t.asymIndexFlag.getD VC2.Gen.default_asym_transform_index_flag then t.waveletHo.getD VC2.Gen.default_wavelet_index_ho else t.w
/-- the horizontal-only depth the code compares: 0 unless the flag is set -/
def TP.dho (t : TP) : Nat :=
  if t.asymFlag.getD VC2.Gen.default_asym_transform_flag then t.depthHo.getD VC2.Gen.default_dwt_depth_ho else 0

/-- the same parameters with every omitted field written out as its default - what the serialiser puts in the stream -/
def TP.filled (t : TP) : TP :=
  { wavelet := some t.w,
    asymIndexFlag := some (t.asymIndexFlag.getD VC2.Gen.default_asym_transform_index_flag),
    waveletHo := some (t.waveletHo.getD VC2.Gen.default_wavelet_index_ho),
    asymFlag := some (t.asymFlag.getD VC2.Gen.default_asym_transform_flag),
    depthHo := some (t.depthHo.getD VC2.Gen.default_dwt_depth_ho),
    hasEtp := t.hasEtp }

/-- what a sequence header says that matters for the version -/
structure Hdr where
  majorVersion : Option Nat  -- none = AUTO
  profile : Nat
  frameRate : Option Nat     -- some index = custom_frame_rate_flag set
  signalRange : Option Nat
  colorSpec : Option Nat
  primaries : Option Nat     -- looked at only when the colour spec index is 0
  matrix : Option Nat
  transfer : Option Nat
  deriving Repr, DecidableEq, Inhabited

structure AUnit where
  code : Nat
  next : Option Nat := none
  prev : Option Nat := none
  len : Nat := 13                -- serialised length in bytes
  dataLen : Nat := 0             -- padding / auxiliary payload length
  picNum : Option Nat := none
  sliceCount : Option Nat := none  -- fragment_slice_count (none = omitted, default 0)
  hdr : Option Hdr := none
  tp : Option TP := none
  deriving Repr, DecidableEq, Inhabited

def isPictureCode (c : Nat) : Bool := c == 0xC8 || c == 0xE8
def isFragmentCode (c : Nat) : Bool := c == 0xCC || c == 0xEC

/-! ### autofill_picture_number (per sequence) -/

def M32 : Nat := 4294967296

/-- the loop body: returns the filled unit and the new `last_picture_number` -/
def numberStep (last : Nat) (u : AUnit) : AUnit × Nat :=
  if isPictureCode u.code || isFragmentCode u.code then
    let increment := isPictureCode u.code || u.sliceCount.getD VC2.Gen.default_fragment_slice_count == 0
    let n := match u.picNum with
      | some n => n
      | none => if increment then (last + 1) % M32 else last
    ({ u with picNum := some n }, n)
  else (u, last)

def numberFrom : Nat → List AUnit → List AUnit
  | _, [] => []
  | last, u :: us => (numberStep last u).1 :: numberFrom (numberStep last u).2 us

/-- `(initial_picture_number - 1) & 0xFFFFFFFF` with the default initial number 0 -/
def autofillPictureNumbers (seq : List AUnit) : List AUnit := numberFrom (M32 - 1) seq

/-! ### autofill_major_version (per sequence) -/

def optImp (f : Int → Int) : Option Nat → Int
  | some i => f i
  | none => 1

/-- the implications read from one sequence header -/
def hdrVersion (h : Hdr) : Int :=
  let v := VC2.Gen.profile_version_implication h.profile
  let v := pymax v (optImp VC2.Gen.preset_frame_rate_version_implication h.frameRate)
  let v := pymax v (optImp VC2.Gen.preset_signal_range_version_implication h.signalRange)
  let v := pymax v (optImp VC2.Gen.preset_color_spec_version_implication h.colorSpec)
  if h.colorSpec = some 0 then
    let v := pymax v (optImp VC2.Gen.preset_color_primaries_version_implication h.primaries)
    let v := pymax v (optImp VC2.Gen.preset_color_matrix_version_implication h.matrix)
    pymax v (optImp VC2.Gen.preset_transfer_function_version_implication h.transfer)
  else v

/-- `get_transform_parameters(data_unit) is not None` -/
def hasTP (u : AUnit) : Bool :=
  isPictureCode u.code || (isFragmentCode u.code && u.sliceCount.getD VC2.Gen.default_fragment_slice_count == 0)

def tpVersion (t : TP) : Int :=
  VC2.Gen.wavelet_transform_version_implication t.w (t.who : Int) (t.dho : Int)

def unitVersion (u : AUnit) : Int :=
  let v := VC2.Gen.parse_code_version_implication u.code
  if u.code == 0 then
    match u.hdr with
    | some h => pymax v (hdrVersion h)
    | none => v
  else if hasTP u then
    match u.tp with
    | some t => pymax v (tpVersion t)
    | none => v
  else v

/-- first pass: the running maximum, starting from MINIMUM_MAJOR_VERSION -/
def requiredVersion (seq : List AUnit) : Int :=
  seq.foldl (fun v u => pymax v (unitVersion u)) VC2.Gen.MINIMUM_MAJOR_VERSION

/-- second pass, one data unit: returns the unit and the new `auto_used` flag -/
def versionStep (mv : Int) (autoUsed : Bool) (u : AUnit) : AUnit × Bool :=
  if u.code == 0 then
    match u.hdr with
    | some h =>
      if h.majorVersion.isNone then ({ u with hdr := some { h with majorVersion := some mv.toNat } }, true)
      else (u, false)
    | none => (u, autoUsed)     -- (the generator always supplies a header description)
  else if hasTP u && autoUsed && decide (mv < 3) then
    ({ u with tp := u.tp.map (fun t => { t with hasEtp := false, asymIndexFlag := none, waveletHo := none, asymFlag := none, depthHo := none }) }, autoUsed)
  else (u, autoUsed)

def versionFill (mv : Int) : Bool → List AUnit → List AUnit
  | _, [] => []
  | a, u :: us => (versionStep mv a u).1 :: versionFill mv (versionStep mv a u).2 us

def autofillMajorVersion (seq : List AUnit) : List AUnit := versionFill (requiredVersion seq) false seq

/-! ### parse offsets (per sequence) -/

/-- `autofill_parse_offsets` + `_finalize`: `prevLen` = length of the preceding unit (none = first) -/
def offsetsFrom : Option Nat → List AUnit → List AUnit
  | _, [] => []
  | prevLen, u :: us =>
    let next := match u.next with
      | some n => n
      | none =>
        if u.code == 0x20 || u.code == 0x30 then 13 + u.dataLen
        else if us.isEmpty then 0 else u.len
    let prev := match u.prev with
      | some p => p
      | none => prevLen.getD 0
    { u with next := some next, prev := some prev } :: offsetsFrom (some u.len) us

def autofillOffsets (seq : List AUnit) : List AUnit := offsetsFrom none seq

/-- `autofill_and_serialise_stream`, sequence by sequence -/
def autofillSeq (seq : List AUnit) : List AUnit :=
  autofillOffsets (autofillMajorVersion (autofillPictureNumbers seq))

def autofillStream (seqs : List (List AUnit)) : List (List AUnit) := seqs.map autofillSeq

end VC2.Model.Autofill
