/-
  The stream-structure rules of C01, ONE RULE AT A TIME.  Each rule is a small checker over the whole
  stream with its own little memory (reset at every end-of-sequence); none of them looks at what another
  rule remembers.  `Proofs/StreamRules.lean` proves that the rule-level specification
  `StreamSpec.conformant` — and hence, by `validator_accepts_iff_conformant`, the validator — accepts a
  history exactly when ALL of these rules do.
-/
import VC2.Model.StreamSpec
namespace VC2.Model.StreamRules
open VC2 VC2.Model.SymRe VC2.Model.Stream VC2.Model.StreamSpec

/-- **1. shape**: every sequence starts with a sequence header and the stream ends right after an
    end-of-sequence (`inside` = a sequence is open) -/
def shapeRule : Bool → List DUnit → Bool
  | false, [] => true
  | true, [] => false
  | false, u :: rest => u.kind == .seqHdr && shapeRule true rest
  | true, u :: rest => shapeRule (u.kind != .eos) rest

/-- **2. parse offsets**: previous_parse_offset is the length of the previous unit of the sequence
    (0 for the first); next_parse_offset is checked when read (`immediateNext`) and against the
    position of the following unit.  Memory: length and next offset of the previous unit. -/
def offsetsRule : Option (Nat × Nat) → List DUnit → Bool
  | _, [] => true
  | none, u :: rest => u.prev == 0 && decide (13 ≤ u.next) && offsetsRule (some (u.len, u.next)) rest
  | some (pl, pn), u :: rest =>
    (pn == 0 || pn == pl) && u.prev == pl && immediateNext u &&
    offsetsRule (if u.kind = .eos then none else some (u.len, u.next)) rest

/-- **3. sequence headers**: the version admits the profile; repeated headers are byte-identical.
    Memory: the first unit of the sequence. -/
def headersRule : Option DUnit → List DUnit → Bool
  | _, [] => true
  | none, u :: rest => decide (profileNeed u.profile ≤ (u.majorVersion : Int)) && headersRule (some u) rest
  | some h, u :: rest =>
    (u.kind != .seqHdr || u.hdrId == h.hdrId) && headersRule (if u.kind = .eos then none else some h) rest

/-- **4. parse codes**: every data unit after the header is permitted by the profile and by the
    major version.  Memory: the first unit of the sequence. -/
def codesRule : Option DUnit → List DUnit → Bool
  | _, [] => true
  | none, u :: rest => codesRule (some u) rest
  | some h, u :: rest =>
    profileAllows h.profile u.code && decide (codeNeed u.code ≤ (h.majorVersion : Int)) &&
    codesRule (if u.kind = .eos then none else some h) rest

/-- **5. picture numbers**: consecutive mod 2^32; in field coding the first field of a frame is even
    and the sequence holds whole frames.  Memory: header, last number, pictures so far. -/
def numbersRule : Option (DUnit × Option Nat × Nat) → List DUnit → Bool
  | _, [] => true
  | none, u :: rest => numbersRule (some (u, none, 0)) rest
  | some (h, last, n), u :: rest =>
    (if startsPicture u then
       (match last with | some l => u.picNum == (l + 1) % 4294967296 | none => true) &&
       !(h.pcm == 1 && n % 2 == 0 && u.picNum % 2 != 0)
     else true) &&
    (if u.kind = .eos then !(h.pcm == 1 && n % 2 != 0) && numbersRule none rest
     else numbersRule (some (h, if startsPicture u then some u.picNum else last, if startsPicture u then n + 1 else n)) rest)

/-- **6. fragmented pictures**: slices only inside an open fragmented picture, with its picture number,
    in raster order, not too many; no picture or new fragmented picture before it is complete; complete
    at the end of the sequence.  Memory: the open fragmented picture (number, slices received). -/
def fragmentsRule (cfg : Config) : Option (Option (Nat × Nat)) → List DUnit → Bool
  | _, [] => true
  | none, _ :: rest => fragmentsRule cfg (some none) rest
  | some f, u :: rest =>
    (match u.kind with
     | .picture => f.isNone
     | .fragment =>
       if u.sliceCount = 0 then f.isNone
       else match f with
         | none => false
         | some (num, got) =>
           u.picNum == num && decide (got + u.sliceCount ≤ cfg.slicesX * cfg.slicesY) &&
           u.fx == got % cfg.slicesX && u.fy == got / cfg.slicesX
     | _ => true) &&
    (if u.kind = .eos then f.isNone && fragmentsRule cfg none rest
     else fragmentsRule cfg (some (match u.kind with
       | .fragment =>
         if u.sliceCount = 0 then (if cfg.slicesX * cfg.slicesY = 0 then none else some (u.picNum, 0))
         else match f with
           | none => none
           | some (num, got) => if got + u.sliceCount = cfg.slicesX * cfg.slicesY then none else some (num, got + u.sliceCount)
       | _ => f)) rest)

/-- **7. least major version**: the header's version is not higher than its units need (a version-3
    sequence without pictures excepted).  Memory: header, version needed so far, pictures so far. -/
def versionRule : Option (DUnit × Int × Nat) → List DUnit → Bool
  | _, [] => true
  | none, u :: rest =>
    versionRule (some (u, pymax (pymax VC2.Gen.MINIMUM_MAJOR_VERSION (codeNeed u.code)) (profileNeed u.profile), 0)) rest
  | some (h, need, n), u :: rest =>
    if u.kind = .eos then
      ((n == 0 && h.majorVersion == 3) || decide ((h.majorVersion : Int) ≤ pymax need (codeNeed u.code))) &&
      versionRule none rest
    else versionRule (some (h, pymax need (codeNeed u.code), if startsPicture u then n + 1 else n)) rest

/-- **8. ordering patterns**: the parse-code names of every sequence match `sequence_header .*
    end_of_sequence` and the level's pattern (C18: the matcher decides exactly the pattern's language).
    Memory: the two matchers. -/
def patternsRule (cfg : Config) : Option (Matcher × Matcher) → List DUnit → Bool
  | _, [] => true
  | none, u :: rest =>
    match (Matcher.init false genericPattern).matchSymbol (codeName u.code),
          (Matcher.init false cfg.levelPattern).matchSymbol (codeName u.code) with
    | some g, some l => patternsRule cfg (some (g, l)) rest
    | _, _ => false
  | some (g0, l0), u :: rest =>
    match g0.matchSymbol (codeName u.code), l0.matchSymbol (codeName u.code) with
    | some g, some l =>
      if u.kind = .eos then g.isComplete && l.isComplete && patternsRule cfg none rest
      else patternsRule cfg (some (g, l)) rest
    | _, _ => false

/-- all eight rules -/
def allRules (cfg : Config) (us : List DUnit) : Bool :=
  shapeRule false us && offsetsRule none us && headersRule none us && codesRule none us &&
  numbersRule none us && fragmentsRule cfg none us && versionRule none us && patternsRule cfg none us

end VC2.Model.StreamRules
