/-
  Hand-written executable model of the Serialiser's `default_values` lookup (bitstream/serdes.py,
  Serialiser._get_context_value): when a primitive target (or a further element of a list target) is
  not in the current context, the value recorded for (type of the current context, target) in the
  default table is written instead; the context itself is not modified.

  The model is "complete, then serialise strictly": `fillBody` walks the program and puts the default
  where a primitive target is missing (explicit values are never touched; missing sub-descriptions are
  created empty, exactly as the strict serialiser does, and completed in turn), and `serialiseD` is the
  strict serialiser of Serdes.lean applied to the completed description.  That this is what the real
  Serialiser does with a default table is checked by the `sd F` correspondence (random programs, random
  tables, random omissions) - the deserialised description of the real bytes is the completed one.

  The type of a context is represented by the NAME of the target under which it was entered ("" at the
  top): the real key is `type(self.cur_context)`, set by `set_context_type` at the start of each body.
  Defaults are modelled for primitive and primitive-list targets only (padding targets of bounded
  blocks and byte_align stay mandatory here).
-/
import VC2.Model.Serdes
namespace VC2.Model.Serdes

/-- (context name, target) ↦ default value -/
abbrev Defaults := String → String → Option Leaf

/-- replace the value stored under `t` (first occurrence is what `get?` sees; all are replaced) -/
def Dict.set (d : Dict) (t : String) (v : Val) : Dict := d.map (fun p => if p.1 == t then (t, v) else p)

mutual
def fillStmt (D : Defaults) (ctx : String) : Stmt → Dict → Dict
  | .prim t _, d =>
    match d.get? t, D ctx t with
    | none, some v => d ++ [(t, .leaf v)]
    | _, _ => d
  | .primList t ks, d =>
    match D ctx t with
    | none => d
    | some v =>
      match d.get? t with
      | none => d ++ [(t, .list (List.replicate ks.length (.leaf v)))]
      | some (.list vs) => d.set t (.list (vs ++ List.replicate (ks.length - vs.length) (.leaf v)))
      | some _ => d
  | .sub t body, d =>
    match d.get? t with
    | none => d ++ [(t, .dict (fillBody D t body []))]
    | some (.dict d') => d.set t (.dict (fillBody D t body d'))
    | some _ => d
  | .subList t bodies, d =>
    match d.get? t with
    | none => d ++ [(t, .list (fillBodies D t bodies []))]
    | some (.list vs) => d.set t (.list (fillBodies D t bodies vs))
    | some _ => d
  | .block _ _ body, d => fillBody D ctx body d
  | .align _, d => d
  | .computed _ _, d => d
def fillBody (D : Defaults) (ctx : String) : List Stmt → Dict → Dict
  | [], d => d
  | s :: rest, d => fillBody D ctx rest (fillStmt D ctx s d)
def fillBodies (D : Defaults) (ctx : String) : List (List Stmt) → List Val → List Val
  | [], vs => vs
  | body :: bodies, (.dict d) :: vs => .dict (fillBody D ctx body d) :: fillBodies D ctx bodies vs
  | body :: bodies, [] => .dict (fillBody D ctx body []) :: fillBodies D ctx bodies []
  | _ :: bodies, v :: vs => v :: fillBodies D ctx bodies vs
end

/-- the Serialiser with a default table -/
def serialiseD (C : Codec) (D : Defaults) (prog : List Stmt) (d : Dict) : Option (List Bool × Dict) :=
  serialise C prog (fillBody D "" prog d)

end VC2.Model.Serdes
