/- Line-protocol front end for the symbol_re model (`re` lines). -/
import VC2.Model.SymRe
namespace VC2.Model.SymRe
open VC2

def tokOf (s : String) : Tok :=
  match s with
  | "." => .wildcard
  | "$" => .eos
  | "|" => .bar
  | "(" => .lpar
  | ")" => .rpar
  | "?" => .modifier '?'
  | "*" => .modifier '*'
  | "+" => .modifier '+'
  | s => .str s

partial def showAst : Ast → String
  | .empty => "E"
  | .sym s => if s == END then "S($)" else s!"S({s})"
  | .star e => s!"*({showAst e})"
  | .cat a b => s!"C({showAst a},{showAst b})"
  | .alt a b => s!"U({showAst a},{showAst b})"

def showErr : ParseErr → String
  | .multipleModifiers => "ERR:multipleModifiers"
  | .modifierBeforeBar => "ERR:modifierBeforeBar"
  | .unmatched => "ERR:unmatched"
  | .modifierBeforeParen => "ERR:modifierBeforeParen"
  | .modifierAtStart => "ERR:modifierAtStart"

def showSym (s : String) : String := if s == END then "$" else s
def symOf (s : String) : String := if s == "$" then END else s

def tf (b : Bool) : String := if b then "T" else "F"

def status (m : Matcher) : String :=
  s!"C:{tf m.isComplete} V:" ++ ",".intercalate (sortStrs (m.validNext.map showSym))

def splitOnTok (ws : List String) (sep : String) : List (List String) :=
  ws.foldr (fun w acc =>
    if w == sep then [] :: acc
    else match acc with
      | [] => [[w]]
      | h :: t => (w :: h) :: t) [[]]

def handleRe (ws : List String) : String :=
  match ws with
  | "P" :: toks =>
    match parseRegex (toks.map tokOf) with
    | .ok a => showAst a
    | .error e => showErr e
  | "M" :: bidir :: rest =>
    let parts := splitOnTok rest "/"
    match parts with
    | [toks, syms] =>
      match parseRegex (toks.map tokOf) with
      | .error e => showErr e
      | .ok a =>
        let m0 := Matcher.init (bidir == "1") a
        let (outs, _) := syms.foldl (fun (st : List String × Matcher) s =>
          match st.2.matchSymbol (symOf s) with
          | some m' => (("T " ++ status m') :: st.1, m')
          | none => (("F " ++ status st.2) :: st.1, st.2)) ([status m0], m0)
        " | ".intercalate outs.reverse
    | _ => "bad-op"
  | "S" :: bidir :: depth :: prio :: rest =>
    match depth.toNat?, splitOnTok rest "/" with
    | some d, initial :: pats =>
      match pats.mapM (fun p => (parseRegex (p.map tokOf)).toOption) with
      | none => "ERR:parse"
      | some asts =>
        let pr := if prio == "-" then [] else (prio.splitOn ",").map symOf
        match makeMatchingSequence (bidir == "1") (initial.map symOf) asts d pr 200000 with
        | some l => "OK " ++ " ".intercalate (l.map showSym)
        | none => "IMPOSSIBLE"
    | _, _ => "bad-op"
  | _ => "bad-op"

end VC2.Model.SymRe
