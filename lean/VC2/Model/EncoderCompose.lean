/-
  The encoder's plain sequence, as handed to the autofill passes, and the validator's view of the result:
  the glue between the Autofill model (C07), the encoder (C03) and the stream-structure model (C01).
    * `plainSeq`: what encoder/sequence.py make_sequence builds for a list of non-fragmented pictures at an
      unconstrained level - sequence header, pictures, end of sequence - with every picture number, parse
      offset and the major version left to the autofill passes;
    * `toD`: how a filled data unit appears to the validator's stream rules.
  Tied to the code by the `pc` correspondence (real make_sequence + autofill_and_serialise_stream + validator).
-/
import VC2.Model.Autofill
import VC2.Model.StreamRules
namespace VC2.Model.EncoderCompose
open VC2 VC2.Model.Autofill VC2.Model.Stream VC2.Model.StreamSpec

def plainTP : TP := { wavelet := none, asymIndexFlag := none, waveletHo := none, asymFlag := none, depthHo := none, hasEtp := false }
def plainHdr (profile : Nat) : Hdr :=
  { majorVersion := none, profile := profile, frameRate := none, signalRange := none, colorSpec := none, primaries := none, matrix := none, transfer := none }
def picCode (profile : Nat) : Nat := if profile = 3 then 0xE8 else 0xC8
def hdrU (profile hlen : Nat) : AUnit := { code := 0, len := hlen, hdr := some (plainHdr profile) }
def picU (profile l : Nat) : AUnit := { code := picCode profile, len := l, tp := some plainTP }
def picN (profile l n : Nat) : AUnit := { code := picCode profile, len := l, picNum := some n, tp := some plainTP }
def eosU : AUnit := { code := 0x10, len := 13 }
def plainSeq (profile hlen : Nat) (plens : List Nat) : List AUnit :=
  hdrU profile hlen :: (plens.map (picU profile)) ++ [eosU]

/-- the stream-structure view of a filled data unit (`pcm` is carried by the header) -/
def toD (pcm : Nat) (u : AUnit) : DUnit :=
  { kind := (kindOfCode u.code).getD .aux, code := u.code, len := u.len, next := u.next.getD 0, prev := u.prev.getD 0,
    majorVersion := ((u.hdr.bind (·.majorVersion)).getD 0), profile := ((u.hdr.map (·.profile)).getD 0), pcm := pcm,
    picNum := u.picNum.getD 0, sliceCount := u.sliceCount.getD 0 }

end VC2.Model.EncoderCompose
