/-
  Hand-written executable model of the raw picture file format and of the comparison tool:
    file_format.py          write_picture / read_picture (little-endian samples, power-of-two
                            bytes per sample, top-byte masking, planar Y C1 C2 layout)
    dimensions_and_depths.py  bytes_per_sample
    scripts/vc2_picture_compare.py  measure_differences / compare_pictures (exit code)
  numpy, json and the OS file API are parameters (trusted); `psnr`'s floating point value is not
  modelled, only its `is None` test (mean of squared differences == 0).
-/
import VC2.Gen.Kernels
namespace VC2.Model.FileFormat
open VC2

/-- `bytes_per_sample = 1 << intlog2((depth_bits + 7) // 8)` with the GENERATED intlog2 -/
def bytesPerSample (d : Nat) : Nat := 2 ^ (VC2.Gen.intlog2 (((d + 7) / 8 : Nat) : Int)).toNat

/-- the byte loop of `write_picture`: `out[byte] = values & 0xFF; values >>= 8`, least significant first -/
def packSample : Nat → Nat → List Nat
  | 0, _ => []
  | n + 1, v => (v % 256) :: packSample n (v / 256)

/-- `read_picture` for one sample, given the remaining significant bits `d` at this byte:
    bytes wholly below the top are kept, the top byte is masked to `d % 8` bits when the depth is
    not a multiple of 8, bytes above the top are zeroed; little-endian accumulation -/
def unpackSample : Nat → List Nat → Nat
  | _, [] => 0
  | d, b :: bs => if 8 ≤ d then b + 256 * unpackSample (d - 8) bs else b % 2 ^ d

/-- `k` consecutive chunks of `n` elements -/
def chunk {α : Type} (n : Nat) : Nat → List α → List (List α)
  | 0, _ => []
  | k + 1, l => l.take n :: chunk n k (l.drop n)

structure Dim where
  w : Nat
  h : Nat
  depth : Nat
  deriving Repr, Inhabited

def Dim.bps (c : Dim) : Nat := bytesPerSample c.depth
def Dim.size (c : Dim) : Nat := c.h * c.w * c.bps

/-- one component plane in raster order -/
def writePlane (c : Dim) (rows : List (List Nat)) : List Nat :=
  rows.flatMap (fun r => r.flatMap (packSample c.bps))

def readPlane (c : Dim) (bytes : List Nat) : List (List Nat) :=
  (chunk (c.w * c.bps) c.h bytes).map (fun row => (chunk c.bps c.w row).map (unpackSample c.depth))

/-- `write_picture`: the planes of Y, C1, C2 one after the other -/
def writePicture : List Dim → List (List (List Nat)) → List Nat
  | c :: cs, p :: ps => writePlane c p ++ writePicture cs ps
  | _, _ => []

/-- `read_picture`: `file.read(height * width * bytes_per_sample)` per component -/
def readPicture : List Dim → List Nat → List (List (List Nat))
  | [], _ => []
  | c :: cs, bytes => readPlane c (bytes.take c.size) :: readPicture cs (bytes.drop c.size)

/-! ### comparison tool -/

def deltas (a b : List Int) : List Int := List.zipWith (fun x y => y - x) a b

/-- `np.count_nonzero(deltas)` -/
def countNonzero (ds : List Int) : Nat := (ds.filter (· ≠ 0)).length

/-- `psnr(...) is None`: the mean of the squared differences is zero -/
def planeIdentical (ds : List Int) : Bool := (ds.map (fun d => d * d)).sum == 0

/-- `compare_pictures` exit status: 1 video parameters differ, 2 coding modes differ, 3 picture
    numbers differ, otherwise 0 iff every component is identical else 4 -/
def compareCode (vpEq pcmEq numEq : Bool) (planes : List (List Int)) : Nat :=
  if !vpEq then 1 else if !pcmEq then 2 else if !numEq then 3
  else if planes.all planeIdentical then 0 else 4

end VC2.Model.FileFormat
