/-
  Hand-written executable model of the option generators of encoder/sequence_header.py:
    iter_custom_options_dicts (one parameter group: disabled / preset index / custom values),
    zip_longest_repeating_final_value,
  and of the decoder's reading of such a group (base value unless the flag is set; a non-zero
  index selects the preset; index 0 / no presets = the custom values): decoder/sequence_header.py
  + pseudocode/video_parameters.py preset_* functions, with preset tables as parameters.
  The level's allowed values are three membership predicates (C17 value sets).
-/
namespace VC2.Model.SeqHeader

/-- what the level column allows for this group -/
structure Level where
  flag : Bool → Bool          -- `x in level_constraints_dict[flag_key]`
  index : Nat → Bool          -- `index in level_constraints_dict[preset_index_constraint_key]`
  value : Nat → Int → Bool    -- the k-th parameter's value is allowed

/-- one way of encoding the group in a sequence header -/
inductive Opt
  | off                          -- {flag: False}
  | preset (i : Nat)             -- {flag: True, index: i}
  | custom (vals : List Int)     -- {flag: True, (index: 0,) values…}
  deriving Repr, DecidableEq, Inhabited

def allAllowed (L : Level) (vals : List Int) : Bool :=
  (List.range vals.length).all (fun k => L.value k (vals.getD k 0))

/-- `iter_custom_options_dicts`, in the order of the three `yield`s -/
def iterOptions (base target : List Int) (presets : Option (List (Nat × List Int))) (L : Level) : List Opt :=
  (if base == target && L.flag false then [Opt.off] else []) ++
  (match presets with
   | some ps => (ps.filter (fun p => p.2 == target && L.flag true && L.index p.1)).map (fun p => Opt.preset p.1)
   | none => []) ++
  (if L.flag true && (presets.isNone || L.index 0) && allAllowed L target then [Opt.custom target] else [])

/-- the decoder's value of the group -/
def decode (base : List Int) (presets : Option (List (Nat × List Int))) : Opt → Option (List Int)
  | .off => some base
  | .preset i => match presets with
    | some ps => (ps.find? (·.1 == i)).map (·.2)
    | none => none
  | .custom v => some v

/-- the decoder's level checks for the group succeed -/
def levelOk (L : Level) (hasPresets : Bool) : Opt → Bool
  | .off => L.flag false
  | .preset i => L.flag true && L.index i
  | .custom v => L.flag true && (!hasPresets || L.index 0) && allAllowed L v

/-- `zip_longest_repeating_final_value` on finite iterables: row j takes the j-th item of each, or
    the last one once exhausted (`none` for an empty iterable) -/
def zipLongest {α : Type} (ls : List (List α)) : List (List (Option α)) :=
  let n := ls.foldl (fun m l => max m l.length) 0
  (List.range n).map (fun j => ls.map (fun l => if j < l.length then l[j]? else l.getLast?))

/-! ### the nested colour specification (`iter_color_spec_options`) -/

/-- what the level column allows for the colour specification and its three nested groups -/
structure CsLevel where
  flag : Bool → Bool     -- custom_color_spec_flag
  index : Nat → Bool     -- color_spec_index
  prim : Level           -- custom_color_primaries_flag / color_primaries_index
  mat : Level            -- custom_color_matrix_flag / color_matrix_index
  tf : Level             -- custom_transfer_function_flag / transfer_function_index

inductive CsOpt
  | off                          -- {custom_color_spec_flag: False}
  | preset (i : Nat)             -- {flag: True, index: i}, i ≠ 0
  | custom (p m t : Opt)         -- {flag: True, index: 0, color_primaries: …, color_matrix: …, transfer_function: …}
  deriving Repr, DecidableEq, Inhabited

/-- preset 0 of the colour specifications: the starting point of a fully custom specification -/
def preset0 (presets : List (Nat × List Int)) : List Int := ((presets.find? (·.1 == 0)).map (·.2)).getD []

/-- `iter_color_spec_options`: `base`/`target` are (primaries, matrix, transfer function) -/
def iterColorSpec (base target : List Int) (presets : List (Nat × List Int)) (L : CsLevel) : List CsOpt :=
  (if base == target && L.flag false then [CsOpt.off] else []) ++
  ((presets.filter (fun p => p.1 != 0 && p.2 == target && L.flag true && L.index p.1)).map (fun p => CsOpt.preset p.1)) ++
  (if L.flag true && L.index 0 then
     let b0 := preset0 presets
     let rows := zipLongest [iterOptions [b0.getD 0 0] [target.getD 0 0] none L.prim,
                             iterOptions [b0.getD 1 0] [target.getD 1 0] none L.mat,
                             iterOptions [b0.getD 2 0] [target.getD 2 0] none L.tf]
     -- `break` at the first row in which one of the three cannot be produced
     (rows.takeWhile (fun r => r.all Option.isSome)).filterMap (fun r => match r with
       | [some p, some m, some t] => some (CsOpt.custom p m t)
       | _ => none)
   else [])

/-- the decoder's (primaries, matrix, transfer function) -/
def decodeColorSpec (base : List Int) (presets : List (Nat × List Int)) : CsOpt → Option (List Int)
  | .off => some base
  | .preset i => (presets.find? (·.1 == i)).map (·.2)
  | .custom p m t =>
    let b0 := preset0 presets
    match decode [b0.getD 0 0] none p, decode [b0.getD 1 0] none m, decode [b0.getD 2 0] none t with
    | some [a], some [b], some [c] => some [a, b, c]
    | _, _, _ => none

def csLevelOk (L : CsLevel) : CsOpt → Bool
  | .off => L.flag false
  | .preset i => L.flag true && L.index i
  | .custom p m t => L.flag true && L.index 0 && levelOk L.prim false p && levelOk L.mat false m && levelOk L.tf false t

/-! ### the whole of the source parameters (`iter_source_parameter_options`) -/

/-- one parameter group of the sequence header with everything its option iterator looks at -/
inductive Group
  | simple (base target : List Int) (presets : Option (List (Nat × List Int))) (L : Level)
  | color (base target : List Int) (presets : List (Nat × List Int)) (L : CsLevel)

/-- an encoding of one group -/
inductive GOpt
  | simple (o : Opt)
  | color (o : CsOpt)

def Group.target : Group → List Int
  | .simple _ t _ _ => t
  | .color _ t _ _ => t

/-- the group's option iterator -/
def Group.options : Group → List GOpt
  | .simple b t ps L => (iterOptions b t ps L).map .simple
  | .color b t ps L => (iterColorSpec b t ps L).map .color

/-- what the decoder makes of an encoding of the group (`none`: not an encoding of this kind of group) -/
def Group.decode : Group → GOpt → Option (List Int)
  | .simple b _ ps _, .simple o => SeqHeader.decode b ps o
  | .color b _ ps _, .color o => decodeColorSpec b ps o
  | _, _ => none

/-- the decoder's level checks for the group -/
def Group.levelOk : Group → GOpt → Bool
  | .simple _ _ ps L, .simple o => SeqHeader.levelOk L ps.isSome o
  | .color _ _ _ L, .color o => csLevelOk L o
  | _, _ => false

/-- `iter_source_parameter_options`: nothing when the base format has the other field order (11.3: it cannot
    be overridden); otherwise the rows of `zip_longest_repeating_final_value` over the groups' iterators, up to
    the first row in which some group has no encoding ("give up immediately") -/
def iterSourceParameters (tffBase tffTarget : Bool) (groups : List Group) : List (List GOpt) :=
  if tffBase != tffTarget then [] else
  ((zipLongest (groups.map Group.options)).takeWhile (fun r => r.all Option.isSome)).map (fun r => r.filterMap id)

end VC2.Model.SeqHeader
