/- Line-protocol front end for the DC-prediction model (`dc` lines). -/
import VC2.Model.Picture
import VC2.Model.EncoderSeq
import VC2.Model.PictureGen
import VC2.Model.PictureShape
namespace VC2.Model.Picture

/-- `dc E|D w h v…` -/
def handleDc (ws : List String) : String :=
  match ws with
  | op :: w :: h :: vals =>
    match w.toNat?, h.toNat?, vals.mapM (·.toInt?) with
    | some w, some h, some vs =>
      if vs.length != w * h then "bad-op" else
      let f : Arr := fun y x => vs.getD (y * w + x) 0
      let g := if op == "E" then applyDcPrediction w h f else dcPrediction w h f
      " ".intercalate ((List.range h).flatMap (fun y => (List.range w).map (fun x => toString (g y x))))
    | _, _, _ => "bad-op"
  | _ => "bad-op"

/-- `fr sx sy fragment_slice_count` -/
def handleFr (ws : List String) : String :=
  match ws.mapM (·.toNat?) with
  | some [sx, sy, fc] =>
    " ".intercalate ((VC2.Model.EncoderSeq.fragmentLayout sx sy fc).map (fun t => s!"{t.1},{t.2.1},{t.2.2}"))
  | _ => "bad-op"

/-- `pg fields interlaced tff | h h h …` (sample heights) -/
def handlePg (ws : List String) : String :=
  match ws with
  | f :: i :: t :: "|" :: hs =>
    match hs.mapM (·.toNat?) with
    | some hs =>
      match VC2.Model.PictureGen.toPictures (f == "1") (i == "1") (t == "1") hs with
      | some r => if r.isEmpty then "-" else " ".intercalate ((VC2.Model.PictureGen.number r).map (fun p => s!"{p.1}:{p.2}"))
      | none => "ERROR"
    | none => "bad-op"
  | _ => "bad-op"

/-- `ps <generator> <num_frames> width height cdf interlaced fields tff par_numer par_denom luma_excursion color_diff_excursion`
    → `ERROR`, or `k:RxC/RxC/RxC …` (number and the three component shapes of every picture) followed by
    ` | <largest luma sample> <largest colour-difference sample>` the generator can produce
    (piped generators: the clip bound; mid_gray: its value; white_noise: the draw's upper end) -/
def handlePs (ws : List String) : String :=
  open VC2.Model.PictureShape in
  match ws with
  | g :: rest =>
    match rest.mapM (·.toNat?) with
    | some [n, w, h, cdf, il, fl, tff, pn, pd, le, ce] =>
      let f : Fmt := { width := w, height := h, cdf := cdf, interlaced := il == 1, fields := fl == 1, tff := tff == 1, parNumer := pn, parDenom := pd }
      let gen : Option Generator := match g with
        | "moving_sprite" => some (.movingSprite n)
        | "static_sprite" => some .staticSprite
        | "linear_ramps" => some .linearRamps
        | "mid_gray" => some .midGray
        | "white_noise" => some (.whiteNoise n)
        | _ => none
      match gen with
      | none => "bad-op"
      | some gen =>
        let dy := depthOf le
        let dc := depthOf ce
        let tops : Option (Int × Int) := match gen with
          | .midGray => (midGrayValue dy).bind (fun a => (midGrayValue dc).map (fun b => (a, b)))
          | .whiteNoise _ => some (noiseBound dy - 1, noiseBound dc - 1)
          | _ => some (VC2.Model.PictureGen.clipToDepth dy.toNat (10 ^ 30), VC2.Model.PictureGen.clipToDepth dc.toNat (10 ^ 30))
        match generate gen f, tops with
        | some pics, some (a, b) =>
          -- (a component without rows is an empty list in the picture dictionary: its column count is not observable)
          let sh (s : Shape) := if s.1 = 0 then "0x*" else s!"{s.1}x{s.2}"
          let body := (List.zip (picNumbers gen f pics.length) pics).map (fun (k, p) => s!"{k}:{sh p.y}/{sh p.c1}/{sh p.c2}")
          let noDraw := body.isEmpty && (match gen with | .whiteNoise _ => true | _ => false)
          (if body.isEmpty then "-" else " ".intercalate body) ++ (if noDraw then " | None None" else s!" | {a} {b}")
        | _, _ => "ERROR"
    | _ => "bad-op"
  | _ => "bad-op"

end VC2.Model.Picture
