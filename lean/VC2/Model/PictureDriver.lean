/- Line-protocol front end for the DC-prediction model (`dc` lines). -/
import VC2.Model.Picture
import VC2.Model.EncoderSeq
namespace VC2.Model.Picture

/-- `dc E|D w h v…` -/
def handleDc (ws : List String) : String :=
  match ws with
  | op :: w :: h :: vals =>
    match w.toNat?, h.toNat?, vals.mapM (·.toInt?) with
    | some w, some h, some vs =>
      if vs.length != w * h then "bad-op" else
      let f : Arr := fun y x => vs.getD (y * w + x) 0
      let g := if op == "E" then applyDcPrediction w h f else dcPrediction w h f
      " ".intercalate ((List.range h).flatMap (fun y => (List.range w).map (fun x => toString (g y x))))
    | _, _, _ => "bad-op"
  | _ => "bad-op"

/-- `fr sx sy fragment_slice_count` -/
def handleFr (ws : List String) : String :=
  match ws.mapM (·.toNat?) with
  | some [sx, sy, fc] =>
    " ".intercalate ((VC2.Model.EncoderSeq.fragmentLayout sx sy fc).map (fun t => s!"{t.1},{t.2.1},{t.2.2}"))
  | _ => "bad-op"

end VC2.Model.Picture
