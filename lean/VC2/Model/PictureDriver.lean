/- Line-protocol front end for the DC-prediction model (`dc` lines). -/
import VC2.Model.Picture
import VC2.Model.EncoderSeq
import VC2.Model.PictureGen
namespace VC2.Model.Picture

/-- `dc E|D w h v…` -/
def handleDc (ws : List String) : String :=
  match ws with
  | op :: w :: h :: vals =>
    match w.toNat?, h.toNat?, vals.mapM (·.toInt?) with
    | some w, some h, some vs =>
      if vs.length != w * h then "bad-op" else
      let f : Arr := fun y x => vs.getD (y * w + x) 0
      let g := if op == "E" then applyDcPrediction w h f else dcPrediction w h f
      " ".intercalate ((List.range h).flatMap (fun y => (List.range w).map (fun x => toString (g y x))))
    | _, _, _ => "bad-op"
  | _ => "bad-op"

/-- `fr sx sy fragment_slice_count` -/
def handleFr (ws : List String) : String :=
  match ws.mapM (·.toNat?) with
  | some [sx, sy, fc] =>
    " ".intercalate ((VC2.Model.EncoderSeq.fragmentLayout sx sy fc).map (fun t => s!"{t.1},{t.2.1},{t.2.2}"))
  | _ => "bad-op"

/-- `pg fields interlaced tff | h h h …` (sample heights) -/
def handlePg (ws : List String) : String :=
  match ws with
  | f :: i :: t :: "|" :: hs =>
    match hs.mapM (·.toNat?) with
    | some hs =>
      match VC2.Model.PictureGen.toPictures (f == "1") (i == "1") (t == "1") hs with
      | some r => if r.isEmpty then "-" else " ".intercalate ((VC2.Model.PictureGen.number r).map (fun p => s!"{p.1}:{p.2}"))
      | none => "ERROR"
    | none => "bad-op"
  | _ => "bad-op"

end VC2.Model.Picture
