/- Line-protocol front end for the slice-size model (`sl` lines). -/
import VC2.Model.SliceFit
import VC2.Model.FileFormatDriver
namespace VC2.Model.SliceFit
open VC2.Model.FileFormat (splitOn')

def ints (ws : List String) : Option (List Int) := if ws == ["-"] then some [] else ws.mapM (·.toInt?)
def showInts (l : List Int) : String := if l.isEmpty then "-" else ",".intercalate (l.map toString)

def FUEL : Nat := 600

def parseComp (v m : List String) : Option Comp := do
  let vs ← ints v; let ms ← ints m
  pure { vals := vs, qm := ms }

/-- a slice: `yv / ym / c1v / c1m / c2v / c2m` -/
def parseSlice (ws : List String) : Option SliceIn :=
  match splitOn' ws "/" with
  | [a, b, c, d, e, f] => do
    let y ← parseComp a b; let c1 ← parseComp c d; let c2 ← parseComp e f
    pure { y, c1, c2 }
  | _ => none

def handleSl (ws : List String) : String :=
  let (hd, tl) := ws.span (· != "|")
  let body := tl.drop 1
  match hd with
  | ["Q", target, align, minq] =>
    match target.toInt?, align.toInt?, minq.toInt?, (splitOn' body ";").mapM (fun g => match splitOn' g "/" with
        | [v, m] => parseComp v m
        | _ => none) with
    | some t, some a, some q0, some sets =>
      match quantizeToFit t sets a FUEL q0 with
      | some q => toString q ++ " | " ++ " ; ".intercalate (sets.map (fun c => showInts (quantizeCoeffs q c)))
      | none => "NONE"
    | _, _, _, _ => "bad-op"
  | ["L", minscaler] =>
    match minscaler.toInt?, (splitOn' body ";").mapM (fun g => match splitOn' g "/" with
        | [a, b, c] => do
          let y ← ints a; let c1 ← ints b; let c2 ← ints c
          pure ({ y := { vals := y, qm := [] }, c1 := { vals := c1, qm := [] }, c2 := { vals := c2, qm := [] } } : SliceIn)
        | _ => none) with
    | some ms, some slices =>
      let r := hqLossless ms slices
      toString r.1 ++ " | " ++ " ; ".intercalate (r.2.map (fun h => s!"{h.yLen},{h.c1Len},{h.c2Len}"))
    | _, _ => "bad-op"
  | ["H", pb, minq, minscaler, sx, sy] =>
    match pb.toInt?, minq.toInt?, minscaler.toInt?, sx.toNat?, sy.toNat?, (splitOn' body ";").mapM parseSlice with
    | some pb, some q0, some ms, some sx, some sy, some slices =>
      match hqLossy FUEL pb q0 ms sx sy slices with
      | none => "INSUFFICIENT"
      | some (scaler, outs) =>
        toString scaler ++ " | " ++ " ; ".intercalate (outs.map (fun o => match o with
          | some h => s!"{h.qindex},{h.yLen},{h.c1Len},{h.c2Len}"
          | none => "NONE"))
    | _, _, _, _, _, _ => "bad-op"
  | ["D", pb, minq, sx, sy] =>
    match pb.toInt?, minq.toInt?, sx.toNat?, sy.toNat?, (splitOn' body ";").mapM parseSlice with
    | some pb, some q0, some sx, some sy, some slices =>
      let st := ldState pb sx sy
      let outs := (List.range (sx * sy)).zipWith (fun i s =>
        ldLossySlice FUEL q0 (VC2.Gen.slice_bytes st ((i % sx : Nat) : Int) ((i / sx : Nat) : Int)) s) slices
      if outs.any (·.isNone) then "INSUFFICIENT" else
      " ; ".intercalate (outs.map (fun o => match o with
        | some (q, yl) => s!"{q},{yl}"
        | none => "NONE"))
    | _, _, _, _, _ => "bad-op"
  | _ => "bad-op"

end VC2.Model.SliceFit
