/-
  Hand-written executable model of vc2_conformance/fixeddict.py: a `dict` subclass that only
  admits declared keys.  State = insertion-ordered association list (keys are unique).
  `iorGuarded` says whether the in-place merge `|=` goes through the guarded `update`
  (generated from the running code: VC2.Gen.fixeddictGuards) or is plain `dict.__ior__`.
  Core Lean only.
-/
import VC2.Prelude
namespace VC2.Model.FixedDict

abbrev Items := List (String × Int)

structure FD where
  declared : List String
  items : Items := []
  deriving Repr, Inhabited

inductive Err | fixedDictKeyError (k : String)
  deriving Repr, DecidableEq

/-- plain `dict.__setitem__` -/
def rawSet (it : Items) (k : String) (v : Int) : Items :=
  if it.any (·.1 == k) then it.map (fun kv => if kv.1 == k then (k, v) else kv) else it ++ [(k, v)]

def rawMerge (it : Items) (kvs : Items) : Items := kvs.foldl (fun acc kv => rawSet acc kv.1 kv.2) it

/-- `__setitem__` -/
def FD.set (d : FD) (k : String) (v : Int) : Except Err FD :=
  if d.declared.contains k then .ok { d with items := rawSet d.items k v } else .error (.fixedDictKeyError k)

/-- `setdefault` -/
def FD.setdefault (d : FD) (k : String) (v : Int) : Except Err FD :=
  if d.declared.contains k then
    .ok (if d.items.any (·.1 == k) then d else { d with items := d.items ++ [(k, v)] })
  else .error (.fixedDictKeyError k)

/-- `update`: one `self[k] = v` at a time; a failure leaves the earlier assignments in place.
    Returns the state reached and the error, if any. -/
def FD.update : FD → Items → FD × Option Err
  | d, [] => (d, none)
  | d, (k, v) :: rest =>
    match d.set k v with
    | .ok d' => FD.update d' rest
    | .error e => (d, some e)

/-- `|=` -/
def FD.ior (iorGuarded : Bool) (d : FD) (kvs : Items) : FD × Option Err :=
  if iorGuarded then d.update kvs else ({ d with items := rawMerge d.items kvs }, none)

/-- construction `T(kvs)`: `dict.__init__` then the key check; on failure no object exists -/
def FD.new (declared : List String) (kvs : Items) : Except Err FD :=
  let items := rawMerge [] kvs
  match items.find? (fun kv => !declared.contains kv.1) with
  | some kv => .error (.fixedDictKeyError kv.1)
  | none => .ok { declared := declared, items := items }

/-- `copy()` = `type(self)(self)` -/
def FD.copy (d : FD) : Except Err FD := FD.new d.declared d.items

/-- `pickle.loads(pickle.dumps(d))`: `__reduce__` = (type, (), dict(self)); `__setstate__` = update -/
def FD.pickleRoundTrip (d : FD) : FD × Option Err :=
  ({ declared := d.declared, items := [] } : FD).update d.items

inductive Op
  | set (k : String) (v : Int)
  | setdefault (k : String) (v : Int)
  | update (kvs : Items)
  | ior (kvs : Items)
  | copy
  | pickle
  deriving Repr

/-- apply one operation; the error (if any) is reported, the state is whatever the object holds -/
def FD.apply (iorGuarded : Bool) (d : FD) : Op → FD × Option Err
  | .set k v => match d.set k v with | .ok d' => (d', none) | .error e => (d, some e)
  | .setdefault k v => match d.setdefault k v with | .ok d' => (d', none) | .error e => (d, some e)
  | .update kvs => d.update kvs
  | .ior kvs => d.ior iorGuarded kvs
  | .copy => match d.copy with | .ok d' => (d', none) | .error e => (d, some e)
  | .pickle => d.pickleRoundTrip

def FD.run (iorGuarded : Bool) (d : FD) (ops : List Op) : FD := ops.foldl (fun d op => (d.apply iorGuarded op).1) d

end VC2.Model.FixedDict
