/-
  Hand-written executable model of the picture COUNT and HEIGHT logic of picture_generators.py:
    frames_to_samples, progressive_to_interlaced, progressive_to_split_fields, interleave_fields,
    progressive_to_pictures, xyz_to_native's numbering, float_to_int_clipped's range.
  A generated sample is represented by its number of rows.  Colour conversion (floating point) is
  NOT modelled: only that its result is rounded and clipped into [0, 2^depth - 1].
-/
import VC2.Gen.Kernels
namespace VC2.Model.PictureGen
open VC2

/-- `frames_to_samples`: fields for interlaced sources, frames for progressive ones -/
def framesToSamples (interlaced : Bool) (frames : Nat) : Nat := frames * (if interlaced then 2 else 1)

/-- rows `first::2` of a sample with `h` rows -/
def everyOther (h first : Nat) : Nat := (h + 1 - first) / 2

/-- `progressive_to_interlaced`: sample k keeps the rows starting at the field parity of k -/
def toInterlaced (tff : Bool) (samples : List Nat) : List Nat :=
  samples.zipIdx.map (fun (h, k) => everyOther h (if (k % 2 == 0) == tff then 0 else 1))

/-- `progressive_to_split_fields`: two fields per sample -/
def toSplitFields (tff : Bool) (samples : List Nat) : List Nat :=
  samples.flatMap (fun h => if tff then [everyOther h 0, everyOther h 1] else [everyOther h 1, everyOther h 0])

/-- `interleave_fields`: consecutive pairs; the frame has twice the rows of the top field; needs the
    two fields to have equal numbers of rows (numpy raises otherwise, unless it can broadcast): `none` -/
def interleaveFields (tff : Bool) : List Nat → Option (List Nat)
  | a :: b :: rest =>
    let top := if tff then a else b
    let bottom := if tff then b else a
    -- numpy assignment `interleaved[1::2] = bottom`: equal row counts, or a single row (broadcast)
    if top = bottom ∨ bottom = 1 then (interleaveFields tff rest).map (fun r => (2 * top) :: r) else none
  | _ => some []

/-- `progressive_to_pictures` -/
def toPictures (fields interlaced tff : Bool) (samples : List Nat) : Option (List Nat) :=
  if !fields then
    if !interlaced then some samples else interleaveFields tff (toInterlaced tff samples)
  else
    if !interlaced then some (toSplitFields tff samples) else some (toInterlaced tff samples)

/-- `xyz_to_native`: numbered consecutively from 0 -/
def number (pics : List Nat) : List (Nat × Nat) := pics.zipIdx.map (fun (h, k) => (k, h))

/-- `float_to_int_clipped`: round, then clip to [0, 2^depth − 1] (any rounded value `r`) -/
def clipToDepth (depth : Nat) (r : Int) : Int := VC2.Gen.clip r 0 (2 ^ depth - 1)

end VC2.Model.PictureGen
