/-
  Hand-written executable model of WHERE a worker command of the test-case generator writes
  (scripts/vc2_test_case_generator/cli.py: output_encoder_test_case, output_decoder_test_case):
  a command is (codec name, encoder/decoder, generator function) and writes, for every test case
  `name` the generator yields (`name` = the generator's name, or `generator[subcase]`),

    decoder:  <codec>/decoder/<name>.vc2
              <codec>/decoder/<name>_expected/<file>          (picture_N.raw / .json)
              <codec>/decoder/<name>_metadata.json
    encoder:  <codec>/encoder/<name>/<file>
              <codec>/encoder/<name>_metadata.json

  A path is a list of components (character lists).  `classify` reads a path back into
  (codec, encoder?, test-case name); `owns` says whether a command may have written it.
-/
namespace VC2.Model.WorkerPaths

structure Cmd where
  codec : List Char
  encoder : Bool
  gen : List Char
  deriving Repr, DecidableEq, Inhabited

/-- `x` without its last `k` characters, if those are `sfx` -/
def stripSuffix (x sfx : List Char) : Option (List Char) :=
  if x.drop (x.length - sfx.length) = sfx ∧ sfx.length ≤ x.length then some (x.take (x.length - sfx.length)) else none

def kindDir (encoder : Bool) : List Char := if encoder then "encoder".toList else "decoder".toList

/-- (codec, encoder?, test-case name) of an output path, `none` for anything the commands never write -/
def classify (p : List (List Char)) : Option (List Char × Bool × List Char) :=
  match p with
  | [codec, kind, x] =>
    if kind = kindDir true then
      (stripSuffix x "_metadata.json".toList).map (fun n => (codec, true, n))
    else if kind = kindDir false then
      match stripSuffix x ".vc2".toList with
      | some n => some (codec, false, n)
      | none => (stripSuffix x "_metadata.json".toList).map (fun n => (codec, false, n))
    else none
  | [codec, kind, x, _file] =>
    if kind = kindDir true then some (codec, true, x)
    else if kind = kindDir false then (stripSuffix x "_expected".toList).map (fun n => (codec, false, n))
    else none
  | _ => none

/-- the test cases of generator `gen` are called `gen` or `gen[subcase]` -/
def isNameOf (gen n : List Char) : Bool := n == gen || (gen ++ ['[']).isPrefixOf n

/-- may command `c` have written path `p`? -/
def owns (c : Cmd) (p : List (List Char)) : Bool :=
  match classify p with
  | some (codec, enc, n) => codec == c.codec && enc == c.encoder && isNameOf c.gen n
  | none => false

end VC2.Model.WorkerPaths
