/- Line-protocol front end for the file-format model (`ff` lines). -/
import VC2.Model.FileFormat
namespace VC2.Model.FileFormat

def hexDigit (n : Nat) : Char := "0123456789abcdef".toList.getD n '?'
def toHex (bs : List Nat) : String := String.ofList (bs.flatMap (fun b => [hexDigit (b / 16), hexDigit (b % 16)]))

def hexVal (c : Char) : Option Nat :=
  if '0' ≤ c ∧ c ≤ '9' then some (c.toNat - '0'.toNat)
  else if 'a' ≤ c ∧ c ≤ 'f' then some (c.toNat - 'a'.toNat + 10) else none

def fromHex : List Char → Option (List Nat)
  | [] => some []
  | a :: b :: rest => do
    let x ← hexVal a; let y ← hexVal b; let r ← fromHex rest
    pure ((16 * x + y) :: r)
  | _ => none

def parseDims : List Nat → Option (List Dim)
  | [] => some []
  | w :: h :: d :: rest => (parseDims rest).map (fun r => { w := w, h := h, depth := d } :: r)
  | _ => none

/-- split a flat list of samples into planes of rows -/
def shape : List Dim → List Nat → List (List (List Nat))
  | [], _ => []
  | c :: cs, vs => chunk c.w c.h (vs.take (c.h * c.w)) :: shape cs (vs.drop (c.h * c.w))

def showPlanes (ps : List (List (List Nat))) : String :=
  ";".intercalate (ps.map (fun p => ",".intercalate (p.flatten.map toString)))

def splitOn' (ws : List String) (sep : String) : List (List String) :=
  ws.foldr (fun w acc => if w == sep then [] :: acc else match acc with
    | [] => [[w]]
    | a :: as => (w :: a) :: as) [[]]

/-- `ff B d` | `ff W dims… | values…` | `ff R dims… | hex` | `ff C vp pcm num | a… / b… ; a… / b… ; …` -/
def handleFf (ws : List String) : String :=
  match ws with
  | ["B", d] => match d.toNat? with
    | some d => if d = 0 then "out-of-domain" else toString (bytesPerSample d)
    | none => "bad-op"
  | "W" :: rest =>
    let (ds, vs) := rest.span (· != "|")
    match ds.mapM (·.toNat?), (vs.drop 1).mapM (·.toNat?) with
    | some ds, some vs => match parseDims ds with
      | some dims => if dims.any (·.depth == 0) then "out-of-domain" else toHex (writePicture dims (shape dims vs))
      | none => "bad-op"
    | _, _ => "bad-op"
  | "R" :: rest =>
    let (ds, hs) := rest.span (· != "|")
    match ds.mapM (·.toNat?), hs.drop 1 with
    | some ds, [hex] => match parseDims ds, fromHex hex.toList with
      | some dims, some bytes => if dims.any (·.depth == 0) then "out-of-domain" else showPlanes (readPicture dims bytes)
      | _, _ => "bad-op"
    | some ds, [] => match parseDims ds with
      | some dims => showPlanes (readPicture dims [])
      | none => "bad-op"
    | _, _ => "bad-op"
  | "C" :: vp :: pcm :: num :: "|" :: rest =>
    let planes := splitOn' rest ";"
    let parsed := planes.mapM (fun p =>
      match splitOn' p "/" with
      | [a, b] => match a.mapM (·.toInt?), b.mapM (·.toInt?) with
        | some a, some b => some (deltas a b)
        | _, _ => none
      | _ => none)
    match parsed with
    | some ds =>
      toString (compareCode (vp == "1") (pcm == "1") (num == "1") ds) ++ " " ++
        ",".intercalate (ds.map (fun d => toString (countNonzero d)))
    | none => "bad-op"
  | _ => "bad-op"

end VC2.Model.FileFormat
