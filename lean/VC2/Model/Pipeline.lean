/-
  The numeric encode/decode pipeline of one picture component, composed from the separately modelled
  links: remove offset → pad → forward wavelet transform → (low delay) DC prediction of the DC band →
  quantise | dequantise → DC prediction inverse → inverse transform → remove padding → clip → offset.
  (encoder/pictures.py transform_and_slice_picture + quantise; pseudocode/picture_decoding.py picture_decode.)
  What lies between the two halves in the real code — tiling the coefficients into slices (C13) and
  coding them (C20/C21/C06) — moves every coefficient unchanged and is not repeated here.
-/
import VC2.Model.Wavelet
import VC2.Model.Picture
namespace VC2.Model.Pipeline
open VC2 VC2.Model.Wavelet VC2.Model.Picture

def mapCoeffs (g : Int → Int) (c : Coeffs) : Coeffs :=
  { dc := mapAll g c.dc, ho := c.ho.map (mapAll g),
    full := c.full.map (fun b => (mapAll g b.1, mapAll g b.2.1, mapAll g b.2.2)) }

/-- apply a band transformation to the DC band only -/
def onDc (g : Nat → Nat → Picture.Arr → Picture.Arr) (c : Coeffs) : Coeffs :=
  { c with dc := { c.dc with f := g c.dc.w c.dc.h c.dc.f } }

/-- the encoder's half, for a component of bit depth `depth`, padded size `ph × pw`, quantisation index `q` -/
def encodeComponent (depth : Nat) (fv fho : Filter) (dho d ph pw : Nat) (ld : Bool) (q : Int) (a : Wavelet.Arr) : Coeffs :=
  let c := dwt fv fho dho d (padAddition (mapAll (removeOffsetSample depth) a) ph pw)
  let c := if ld then onDc applyDcPrediction c else c
  mapCoeffs (fun v => VC2.Gen.forward_quant v q) c

/-- the decoder's half, returning a component of size `h × w` -/
def decodeComponent (depth : Nat) (fv fho : Filter) (ld : Bool) (q : Int) (h w : Nat) (c : Coeffs) : Wavelet.Arr :=
  let c := mapCoeffs (fun v => VC2.Gen.inverse_quant v q) c
  let c := if ld then onDc dcPrediction c else c
  mapAll (fun v => offsetSample depth (clipSample depth v)) (padRemoval (idwt fv fho c) h w)

end VC2.Model.Pipeline
