/-
  Hand-written model of scripts/vc2_bitstream_validator.py (BitstreamValidator.run / _output_picture):
  the exit status as a function of how validation ended, and the numbering of the output files.
  Argument parsing, the status line and the text of the report are not modelled.
-/
namespace VC2.Model.ValidatorCli

/-- how `run` ended -/
inductive Outcome
  | cannotOpen            -- the input file could not be opened
  | conformant            -- parse_stream returned
  | conformanceError      -- parse_stream raised a ConformanceError
  | otherException        -- anything else
  deriving Repr, DecidableEq, Inhabited

def exitStatus : Outcome → Nat
  | .cannotOpen => 1
  | .conformant => 0
  | .conformanceError => 2
  | .otherException => 3

structure Cli where
  next : Nat := 0                 -- _next_picture_index
  written : List (Nat × Nat) := []  -- (file index, picture id) in the order written
  deriving Repr

/-- `_output_picture`: file name `pattern % next`, then increment -/
def Cli.output (c : Cli) (pic : Nat) : Cli := { next := c.next + 1, written := c.written ++ [(c.next, pic)] }

/-- the decoder calls the output callback once per decoded picture, in decode order -/
def runCallbacks (pics : List Nat) : Cli := pics.foldl Cli.output {}

/-- `_print_conformance_error`: the bit offset named in the report title and handed to the viewer
    hint is the exception's own offending offset when it has one (0 is a perfectly good offset: the
    first parse_info), the reader's current position otherwise -/
def reportedOffset (offending : Option Nat) (tell : Nat) : Nat :=
  match offending with
  | some o => o
  | none => tell

end VC2.Model.ValidatorCli
