/- Line-protocol front end for the autofill model (`af` lines). -/
import VC2.Model.Autofill
import VC2.Model.FileFormatDriver
namespace VC2.Model.Autofill

def optNat (s : String) : Option (Option Nat) :=
  if s == "A" || s == "-" then some none else s.toNat?.map some

def lookup (kvs : List (String × String)) (k : String) : Option String := (kvs.find? (·.1 == k)).map (·.2)

def parseKvs (ws : List String) : List (String × String) :=
  ws.filterMap (fun w => match w.splitOn "=" with
    | [k, v] => some (k, v)
    | _ => none)

def parseUnit (ws : List String) : Option AUnit := do
  let kv := parseKvs ws
  let g := fun k => lookup kv k
  let code ← (← g "c").toNat?
  let next ← optNat (← g "n")
  let prev ← optNat (← g "p")
  let len ← (← g "l").toNat?
  let dataLen ← (← g "d").toNat?
  let picNum ← optNat ((g "pn").getD "A")
  let sliceCount ← optNat ((g "sc").getD "A")
  let hdr : Option Hdr ← match g "pr" with
    | none => some none
    | some pr => do
      let profile ← pr.toNat?
      let mv ← optNat ((g "mv").getD "A")
      let fr ← optNat ((g "fr").getD "-")
      let sr ← optNat ((g "sr").getD "-")
      let cs ← optNat ((g "cs").getD "-")
      let cp ← optNat ((g "cp").getD "-")
      let cm ← optNat ((g "cm").getD "-")
      let tf ← optNat ((g "tf").getD "-")
      pure (some { majorVersion := mv, profile := profile, frameRate := fr, signalRange := sr, colorSpec := cs,
                   primaries := cp, matrix := cm, transfer := tf })
  let tp : Option TP ← match g "w" with
    | none => some none
    | some w => do
      let wavelet ← optNat w
      let who ← optNat ((g "who").getD "-")
      let dho ← optNat ((g "dho").getD "-")
      let flag (s : Option String) : Option (Option Bool) := match s with
        | some "1" => some (some true) | some "0" => some (some false) | some "-" => some none | none => some none | _ => none
      let aif ← flag (g "aif")
      let af ← flag (g "af")
      pure (some { wavelet := wavelet, asymIndexFlag := aif, waveletHo := who, asymFlag := af, depthHo := dho, hasEtp := (g "etp") == some "1" })
  pure { code, next, prev, len, dataLen, picNum, sliceCount, hdr, tp }

def showOptNat : Option Nat → String
  | none => "-"
  | some n => toString n

def showUnit (u : AUnit) : String :=
  ",".intercalate [showOptNat u.picNum, showOptNat u.next, showOptNat u.prev,
    showOptNat (u.hdr.bind (·.majorVersion)), (match u.tp with | some t => if t.hasEtp then "1" else "0" | none => "-")]

/-- `af unit ; unit ; … / unit ; …` -/
def handleAf (ws : List String) : String :=
  let seqs := VC2.Model.FileFormat.splitOn' ws "/"
  match seqs.mapM (fun s => ((VC2.Model.FileFormat.splitOn' s ";").filter (!·.isEmpty)).mapM parseUnit) with
  | some seqs => " / ".intercalate ((autofillStream seqs).map (fun s => ";".intercalate (s.map showUnit)))
  | none => "bad-op"

end VC2.Model.Autofill
