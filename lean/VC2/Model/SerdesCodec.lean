/-
  The bit-level codec of the serdes model, built from the C20 model of BitstreamWriter /
  BitstreamReader (outside bounded blocks): a fresh writer, and a reader at the start of the bits.
-/
import VC2.Model.Serdes
import VC2.Model.BitIO
namespace VC2.Model.Serdes
open VC2 VC2.Model.BitIO


/-- the codec built from the C20 model: what BitstreamWriter writes / BitstreamReader reads
    (outside bounded blocks), on a fresh writer and on a reader placed at the start of the bits -/
def encBits (k : Prim) (v : Leaf) : Option (List Bool) :=
  let run := fun (r : Except IOErr Writer) => match r with | .ok w => some w.out | .error _ => none
  match k, v with
  | .bool, .bool b => run (({} : Writer).writeBit b)
  | .nbits n, .int v => run (({} : Writer).writeNbits n v)
  | .uintLit n, .int v => run (({} : Writer).writeNbits (8 * n : Nat) v)
  | .bitarray n, .bits l => if l.length = n then run (({} : Writer).writeBitarray n l) else none
  | .bytes n, .bits l => if l.length = 8 * n then run (({} : Writer).writeBitarray (8 * n : Nat) l) else none
  | .uint, .int v => run (({} : Writer).writeUint v)
  | .sint, .int v => run (({} : Writer).writeSint v)
  | _, _ => none

def decBits (k : Prim) (bits : List Bool) : Option (Leaf × List Bool) :=
  let r : Reader := { all := bits, pos := 0 }
  match k with
  | .bool => match r.readBit with | .ok (b, r') => some (.bool b, bits.drop r'.pos) | .error _ => none
  | .nbits n => match r.readNbits n with | .ok (v, r') => some (.int v, bits.drop r'.pos) | .error _ => none
  | .uintLit n => match r.readNbits (8 * n : Nat) with | .ok (v, r') => some (.int v, bits.drop r'.pos) | .error _ => none
  | .bitarray n => match Reader.readBits n r with | .ok (l, r') => some (.bits l, bits.drop r'.pos) | .error _ => none
  | .bytes n => match Reader.readBits (8 * n) r with | .ok (l, r') => some (.bits l, bits.drop r'.pos) | .error _ => none
  | .uint => match r.readUint with | .ok (v, r') => some (.int v, bits.drop r'.pos) | .error _ => none
  | .sint => match r.readSint with | .ok (v, r') => some (.int v, bits.drop r'.pos) | .error _ => none

/-- the most 1-bits a value can take from beyond the end of a bounded block: the whole value for the
    fixed-width kinds; "value bit, stop bit" for `read_uint`, plus the sign bit for `read_sint` -/
def virtBits : Prim → Nat
  | .bool => 1 | .nbits n => n | .uintLit n => 8 * n | .bitarray n => n | .bytes n => 8 * n
  | .uint => 2 | .sint => 3

def bitCodec : Codec := { enc := encBits, dec := decBits, virt := virtBits }


end VC2.Model.Serdes
