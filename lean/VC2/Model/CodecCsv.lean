/-
  Hand-written executable model of codec_features.py: read_dict_list_csv (from csv rows on),
  parse_int_enum, parse_int_at_least, parse_bool, parse_quantization_matrix, `pop`, and the
  column loop of read_codec_features_csv.  Library parameters with recorded contracts (trusted):
  `int(str)` returns or raises ValueError (`pyInt`), csv.reader (rows are the input here),
  str.strip/lower/split, IntEnum construction = membership in the GENERATED member tables.
  Exceptions: `invalid` = InvalidCodecFeaturesError, `crash` = anything else (KeyError …).
-/
import VC2.Gen.CodecTables
namespace VC2.Model.CodecCsv

inductive Err
  | invalid (why : String)
  | crash (what : String)
  deriving Repr, DecidableEq, Inhabited

abbrev M := Except Err

/-- a parser's ValueError -/
abbrev P := Option

/-! ### strings (ASCII model of the str methods used) -/
def isWs (c : Char) : Bool := c == ' ' || c == '\t' || c == '\n' || c == '\r' || c == '\x0b' || c == '\x0c'
def strip (s : String) : String :=
  String.ofList ((s.toList.dropWhile isWs).reverse.dropWhile isWs).reverse
def lower (s : String) : String := String.ofList (s.toList.map Char.toLower)
/-- `str.split()` : maximal runs of non-whitespace -/
def splitWs (s : String) : List String :=
  let step := fun (acc : List (List Char) × List Char) (c : Char) =>
    if isWs c then (if acc.2.isEmpty then acc else (acc.2.reverse :: acc.1, [])) else (acc.1, c :: acc.2)
  let r := s.toList.foldl step ([], [])
  ((if r.2.isEmpty then r.1 else r.2.reverse :: r.1).reverse).map String.ofList

/-- digits with single underscores between them -/
def digitsVal : List Char → Option Nat
  | [] => none
  | cs =>
    let rec go : List Char → Nat → Bool → Option Nat
      | [], acc, lastDigit => if lastDigit then some acc else none
      | c :: rest, acc, lastDigit =>
        if c.isDigit then go rest (acc * 10 + (c.toNat - '0'.toNat)) true
        else if c == '_' && lastDigit && !rest.isEmpty then go rest acc false
        else none
    go cs 0 false

/-- Python `int(str)` on ASCII text: surrounding whitespace, optional sign, decimal digits
    (single underscores allowed between digits); `none` = ValueError -/
def pyInt (s : String) : P Int :=
  match (strip s).toList with
  | '+' :: ds => (digitsVal ds).map (fun n => (n : Int))
  | '-' :: ds => (digitsVal ds).map (fun n => -(n : Int))
  | ds => (digitsVal ds).map (fun n => (n : Int))

/-! ### cell parsers -/
def parseIntAtLeast (minimum : Int) (s : String) : P Int :=
  match pyInt s with
  | some v => if v < minimum then none else some v
  | none => none

def parseBool (s : String) : P Bool :=
  let l := lower s
  if ["1", "true", "t", "y", "yes"].contains l then some true
  else if ["0", "false", "f", "n", "no"].contains l then some false
  else none

def members (enum : String) : List (String × Int) :=
  ((VC2.Gen.enumMembers.find? (·.1 == enum)).map (·.2)).getD []

/-- integer literal or member name, then `IntEnum(number)` (ValueError unless a member's value) -/
def parseIntEnum (enum : String) (s : String) : P Int :=
  let number : P Int :=
    match pyInt s with
    | some n => some n
    | none => ((members enum).find? (·.1 == s)).map (·.2)
  match number with
  | some n => if (members enum).any (·.2 == n) then some n else none
  | none => none

/-- take `n` integers from the front of the token list -/
def takeInts : Nat → List String → P (List Int × List String)
  | 0, ts => some ([], ts)
  | _ + 1, [] => none                      -- StopIteration -> ValueError
  | n + 1, t :: ts => do
    let v ← pyInt t
    let (vs, rest) ← takeInts n ts
    pure (v :: vs, rest)

/-- number of entries of a quantisation matrix for the given depths: LL or L, one H per
    horizontal-only level, HL LH HH per 2D level -/
def qmLength (dwtDepth dwtDepthHo : Int) : Nat := 1 + dwtDepthHo.toNat + 3 * dwtDepth.toNat

def parseQuantMatrix (dwtDepth dwtDepthHo : Int) (s : String) : P (List Int) :=
  match takeInts (qmLength dwtDepth dwtDepthHo) (splitWs s) with
  | some (vs, []) => some vs
  | _ => none                              -- too few or too many values

/-! ### dictionaries (insertion-ordered association lists) -/
abbrev Column := List (String × String)
def Column.set (c : Column) (k v : String) : Column :=
  if c.any (·.1 == k) then c.map (fun kv => if kv.1 == k then (k, v) else kv) else c ++ [(k, v)]
def Column.get? (c : Column) (k : String) : Option String := (c.find? (·.1 == k)).map (·.2)
def Column.erase (c : Column) (k : String) : Column := c.filter (·.1 != k)

/-- the inner loop of `read_dict_list_csv` for one row -/
def addRow (key : String) : List String → Nat → List Column → List Column
  | [], _, out => out
  | value :: rest, i, out =>
    let out := if i ≥ out.length then out ++ [[]] else out
    let v := strip value
    let out := if v.isEmpty then out else out.modify i (fun c => c.set key v)
    addRow key rest (i + 1) out

def readDictList (rows : List (List String)) : List Column :=
  rows.foldl (fun out row =>
    match row with
    | [] => out
    | k :: vals =>
      let key := strip k
      if key.isEmpty || key.startsWith "#" then out else addRow key vals 0 out) []

/-- `pop(field_name, parser[, default])` -/
def pop {α : Type} (col : Column) (field : String) (parser : String → P α) (dflt : Option α) : M (α × Column) :=
  match col.get? field with
  | none => .error (.invalid ("missing " ++ field))
  | some value =>
    let col := col.erase field
    match dflt with
    | some d => if lower value == "default" then .ok (d, col) else
        match parser value with
        | some v => .ok (v, col)
        | none => .error (.invalid ("invalid " ++ field))
    | none =>
      match parser value with
      | some v => .ok (v, col)
      | none => .error (.invalid ("invalid " ++ field))

structure Features where
  name : String
  level : Int
  profile : Int
  pcm : Int
  wavelet : Int
  waveletHo : Int
  dwtDepth : Int
  dwtDepthHo : Int
  slicesX : Int
  slicesY : Int
  fragCount : Int
  lossless : Bool
  base : Int
  vp : List Int                 -- the 20 video parameters in reading order (bool as 0/1)
  pictureBytes : Option Int
  qm : Option (List Int)        -- none = default matrix
  deriving Repr, DecidableEq, Inhabited

inductive VpKind | min (m : Int) | enum (e : String) | bool
  deriving Repr

def vpFields : List (String × VpKind) := [
  ("frame_width", .min 1), ("frame_height", .min 1), ("color_diff_format_index", .enum "ColorDifferenceSamplingFormats"),
  ("source_sampling", .enum "SourceSamplingModes"), ("top_field_first", .bool),
  ("frame_rate_numer", .min 1), ("frame_rate_denom", .min 1), ("pixel_aspect_ratio_numer", .min 1),
  ("pixel_aspect_ratio_denom", .min 1), ("clean_width", .min 0), ("clean_height", .min 0),
  ("left_offset", .min 0), ("top_offset", .min 0), ("luma_offset", .min 0), ("luma_excursion", .min 1),
  ("color_diff_offset", .min 0), ("color_diff_excursion", .min 1),
  ("color_primaries_index", .enum "PresetColorPrimaries"), ("color_matrix_index", .enum "PresetColorMatrices"),
  ("transfer_function_index", .enum "PresetTransferFunctions")]

def vpParser : VpKind → String → P Int
  | .min m => parseIntAtLeast m
  | .enum e => parseIntEnum e
  | .bool => fun s => (parseBool s).map (fun b => if b then 1 else 0)

/-- the loop over the 20 video-parameter fields (each with the base format's value as default) -/
def popVp : List (String × VpKind) → List Int → Column → M (List Int × Column)
  | [], _, col => .ok ([], col)
  | (f, k) :: rest, d :: ds, col => do
    let (v, col) ← pop col f (vpParser k) (some d)
    let (vs, col) ← popVp rest ds col
    pure (v :: vs, col)
  | _ :: _, [], _ => .error (.crash "KeyError")

/-- `set_source_defaults(base)`: a base format without an entry would be a KeyError -/
def lookupDefaults (base : Int) : M (List Int) :=
  match VC2.Gen.sourceDefaults.find? (·.1 == base) with
  | some d => .ok d.2
  | none => .error (.crash "KeyError")

/-- `picture_bytes`: forbidden for lossless columns, required (≥ 1) for lossy ones -/
def popPictureBytes (lossless : Bool) (col : Column) : M (Option Int × Column) :=
  if lossless then
    (if (col.get? "picture_bytes").isSome then .error (.invalid "picture_bytes given for lossless")
     else .ok (none, col))
  else
    match pop col "picture_bytes" (parseIntAtLeast 1) none with
    | .ok (pb, col) => .ok (some pb, col)
    | .error e => .error e

/-- `if column: raise InvalidCodecFeaturesError("Unrecognised row(s)")` -/
def checkEmpty (col : Column) : M Unit :=
  if !col.isEmpty then .error (.invalid "unrecognised rows") else .ok ()

/-- one non-empty column -/
def parseColumn (name : String) (col : Column) : M Features := do
  let (level, col) ← pop col "level" (parseIntEnum "Levels") none
  let (profile, col) ← pop col "profile" (parseIntEnum "Profiles") none
  let (pcm, col) ← pop col "picture_coding_mode" (parseIntEnum "PictureCodingModes") none
  let (wavelet, col) ← pop col "wavelet_index" (parseIntEnum "WaveletFilters") none
  let (waveletHo, col) ← pop col "wavelet_index_ho" (parseIntEnum "WaveletFilters") none
  let (dwtDepth, col) ← pop col "dwt_depth" (parseIntAtLeast 0) none
  let (dwtDepthHo, col) ← pop col "dwt_depth_ho" (parseIntAtLeast 0) none
  let (slicesX, col) ← pop col "slices_x" (parseIntAtLeast 1) none
  let (slicesY, col) ← pop col "slices_y" (parseIntAtLeast 1) none
  let (fragCount, col) ← pop col "fragment_slice_count" (parseIntAtLeast 0) none
  let (lossless, col) ← pop col "lossless" parseBool none
  let (base, col) ← pop col "base_video_format" (parseIntEnum "BaseVideoFormats") none
  let defaults ← lookupDefaults base
  let (vp, col) ← popVp vpFields defaults col
  let (pictureBytes, col) ← popPictureBytes lossless col
  let (qm, col) ← pop col "quantization_matrix"
    (fun s => (parseQuantMatrix dwtDepth dwtDepthHo s).map some) (some none)
  checkEmpty col
  pure { name, level, profile, pcm, wavelet, waveletHo, dwtDepth, dwtDepthHo, slicesX, slicesY, fragCount,
         lossless, base, vp, pictureBytes, qm }

/-- spreadsheet column letters of the i-th data column (0 → "B", 24 → "Z", 25 → "AA" …) -/
def columnLetters (i : Nat) : String :=
  -- position i+1 in A, B, …, Z, AA, AB, …
  let rec go (fuel : Nat) (n : Nat) (acc : List Char) : List Char :=
    match fuel with
    | 0 => acc
    | fuel + 1 =>
      let acc := Char.ofNat ('A'.toNat + n % 26) :: acc
      if n < 26 then acc else go fuel (n / 26 - 1) acc
  String.ofList (go 8 (i + 1) [])

/-- the column's name: its `name` row (stripped) or `column_<spreadsheet letters>` -/
def nameOf (col : Column) (i : Nat) : String × Column :=
  match col.get? "name" with
  | some n => (strip n, col.erase "name")
  | none => ("column_" ++ columnLetters i, col)

/-- the column loop of `read_codec_features_csv` -/
def readColumns : List Column → Nat → List Features → M (List Features)
  | [], _, out => .ok out
  | col :: rest, i, out =>
    if col.isEmpty then readColumns rest (i + 1) out else
    if out.any (·.name == (nameOf col i).1) then .error (.invalid "name used more than once") else
    match parseColumn (nameOf col i).1 (nameOf col i).2 with
    | .ok f => readColumns rest (i + 1) (out ++ [f])
    | .error e => .error e

def readCodecFeatures (rows : List (List String)) : M (List Features) :=
  readColumns (readDictList rows) 0 []

end VC2.Model.CodecCsv
