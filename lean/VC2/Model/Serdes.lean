/-
  Hand-written executable model of the serialiser/deserialiser FRAMEWORK (bitstream/serdes.py)
  at the level of structured description programs:
    prim / declare_list + repeated use / subcontext (also lists of subcontexts) /
    bounded_block (body that fits; trailing padding target) / byte_align / computed_value.
  Bookkeeping (`_cur_context_indices`, the three stacks) is modelled by CONSUMING keys: a target can
  be fetched once, a list target element by element, a context must be empty when it is left
  (`verify_complete`), the deserialiser refuses to set a key that is already there.
  The bit layer is a parameter (`Codec`): any prefix code per primitive kind; the instance built
  from the C20 model is `VC2.Proofs.Serdes.bitCodec`.
  Not modelled: set_context_type (contexts are plain dictionaries), default_values lookup
  (a missing value is an error here), bounded-block bodies that overrun their block, io errors.
-/
namespace VC2.Model.Serdes

inductive Leaf
  | int (n : Int)
  | bool (b : Bool)
  | bits (l : List Bool)
  | bytes (l : List Nat)
  deriving Repr, DecidableEq, Inhabited

inductive Val
  | leaf (x : Leaf)
  | dict (d : List (String × Val))
  | list (l : List Val)
  deriving Repr, Inhabited

abbrev Dict := List (String × Val)

inductive Prim
  | bool | nbits (n : Nat) | uintLit (n : Nat) | bitarray (n : Nat) | bytes (n : Nat) | uint | sint
  deriving Repr, DecidableEq, Inhabited

inductive Stmt
  | prim (t : String) (k : Prim)
  | primList (t : String) (ks : List Prim)            -- declare_list(t); one use of t per entry
  | sub (t : String) (body : List Stmt)               -- with subcontext(t): body
  | subList (t : String) (bodies : List (List Stmt))  -- declare_list(t); with subcontext(t): body, …
  | block (t : String) (len : Nat) (body : List Stmt) -- with bounded_block(t, len): body
  | align (t : String)                                -- byte_align(t)
  | computed (t : String) (v : Int)                   -- computed_value(t, v)
  deriving Inhabited

/-- a prefix code for every primitive kind -/
structure Codec where
  enc : Prim → Leaf → Option (List Bool)
  dec : Prim → List Bool → Option (Leaf × List Bool)

def Dict.get? (d : Dict) (k : String) : Option Val := (d.find? (·.1 == k)).map (·.2)
def Dict.erase (d : Dict) (k : String) : Dict := d.filter (·.1 != k)
def Dict.has (d : Dict) (k : String) : Bool := d.any (·.1 == k)

/-- bits needed to reach the next byte boundary from bit position `pos` -/
def alignBits (pos : Nat) : Nat := (8 - pos % 8) % 8

variable (C : Codec)

/-- values of a list target, one primitive each -/
def serPrims : List Prim → List Val → Option (List Bool)
  | [], [] => some []
  | k :: ks, (.leaf v) :: vs =>
    match C.enc k v, serPrims ks vs with
    | some b, some bs => some (b ++ bs)
    | _, _ => none
  | _, _ => none       -- too few values: ListTargetExhausted; too many: UnusedTarget; a non-leaf

/-- fetch a structured target: a missing list / sub-description is created empty
    (`declare_list` / `_setdefault_context_value(target, {})`), unless the name was already used -/
def fetch (d acc : Dict) (t : String) (dflt : Val) : Option Val :=
  match d.get? t with
  | some v => some v
  | none => if acc.has t then none else some dflt

mutual
/-- serialise one statement at bit position `pos`: `d` is the not-yet-used part of the current
    context, `acc` the part already used (in program order).  Returns the bits, the new `acc`
    and the new `d`. -/
def serStmt : Nat → Stmt → Dict → Dict → Option (List Bool × Dict × Dict)
  | _, .prim t k, d, acc =>
    match d.get? t with
    | some (.leaf v) => match C.enc k v with
      | some b => some (b, acc ++ [(t, .leaf v)], d.erase t)
      | none => none
    | _ => none
  | _, .primList t ks, d, acc =>
    match fetch d acc t (.list []) with
    | some (.list vs) => match serPrims C ks vs with
      | some b => some (b, acc ++ [(t, .list vs)], d.erase t)
      | none => none
    | _ => none
  | pos, .sub t body, d, acc =>
    match fetch d acc t (.dict []) with
    | some (.dict d') => match serBody pos body d' [] with
      | some (b, used, []) => some (b, acc ++ [(t, .dict used)], d.erase t)
      | _ => none                                  -- something left in the subcontext: UnusedTarget
    | _ => none
  | pos, .subList t bodies, d, acc =>
    match fetch d acc t (.list []) with
    | some (.list vs) => match serBodies pos bodies vs with
      | some (b, used) => some (b, acc ++ [(t, .list used)], d.erase t)
      | none => none
    | _ => none
  | pos, .block t len body, d, acc =>
    match serBody pos body d acc with
    | some (b, acc1, d1) =>
      if b.length ≤ len then
        -- the padding target: a bit array of exactly the unused length
        match d1.get? t with
        | some (.leaf (.bits p)) =>
          if p.length = len - b.length then some (b ++ p, acc1 ++ [(t, .leaf (.bits p))], d1.erase t) else none
        | _ => none
      else none                                    -- overrun: not modelled
    | none => none
  | pos, .align t, d, acc =>
    match d.get? t with
    | some (.leaf (.bits p)) =>
      if p.length = alignBits pos then some (p, acc ++ [(t, .leaf (.bits p))], d.erase t) else none
    | _ => none
  | _, .computed t v, d, acc =>
    -- "any existing value in the context will be overwritten"; a target that was already
    -- accessed is a ReusedTargetError
    if acc.has t then none else some ([], acc ++ [(t, .leaf (.int v))], d.erase t)
def serBody : Nat → List Stmt → Dict → Dict → Option (List Bool × Dict × Dict)
  | _, [], d, acc => some ([], acc, d)
  | pos, s :: rest, d, acc =>
    match serStmt pos s d acc with
    | some (b, acc1, d1) =>
      match serBody (pos + b.length) rest d1 acc1 with
      | some (bs, acc2, d2) => some (b ++ bs, acc2, d2)
      | none => none
    | none => none
def serBodies : Nat → List (List Stmt) → List Val → Option (List Bool × List Val)
  | _, [], [] => some ([], [])
  | pos, body :: bodies, (.dict d) :: vs =>
    match serBody pos body d [] with
    | some (b, used, []) =>
      match serBodies (pos + b.length) bodies vs with
      | some (bs, useds) => some (b ++ bs, .dict used :: useds)
      | none => none
    | _ => none
  | pos, body :: bodies, [] =>
    -- the list is shorter than the program: missing sub-descriptions are created empty
    match serBody pos body [] [] with
    | some (b, used, []) =>
      match serBodies (pos + b.length) bodies [] with
      | some (bs, useds) => some (b ++ bs, .dict used :: useds)
      | none => none
    | _ => none
  | _, _, _ => none
end

/-- `with Serialiser(...)`: the whole description must have been used -/
def serialise (prog : List Stmt) (d : Dict) : Option (List Bool × Dict) :=
  match serBody C 0 prog d [] with
  | some (b, used, []) => some (b, used)
  | _ => none

def desPrims : List Prim → List Bool → Option (List Val × List Bool)
  | [], bits => some ([], bits)
  | k :: ks, bits =>
    match C.dec k bits with
    | some (v, rest) => match desPrims ks rest with
      | some (vs, rest') => some (.leaf v :: vs, rest')
      | none => none
    | none => none

mutual
/-- deserialise one statement at bit position `pos` into the context built so far (`acc`, in
    program order): setting a key that is already there is a ReusedTargetError -/
def desStmt : Nat → Stmt → Dict → List Bool → Option (Dict × List Bool)
  | _, .prim t k, acc, bits =>
    if acc.has t then none else
    match C.dec k bits with
    | some (v, rest) => some (acc ++ [(t, .leaf v)], rest)
    | none => none
  | _, .primList t ks, acc, bits =>
    if acc.has t then none else
    match desPrims C ks bits with
    | some (vs, rest) => some (acc ++ [(t, .list vs)], rest)
    | none => none
  | pos, .sub t body, acc, bits =>
    if acc.has t then none else
    match desBody pos body [] bits with
    | some (d', rest) => some (acc ++ [(t, .dict d')], rest)
    | none => none
  | pos, .subList t bodies, acc, bits =>
    if acc.has t then none else
    match desBodies pos bodies bits with
    | some (vs, rest) => some (acc ++ [(t, .list vs)], rest)
    | none => none
  | pos, .block t len body, acc, bits =>
    if bits.length < len then none else               -- EOF inside the block
    match desBody pos body acc (bits.take len) with
    | some (acc1, left) =>
      if acc1.has t then none else some (acc1 ++ [(t, .leaf (.bits left))], bits.drop len)
    | none => none
  | pos, .align t, acc, bits =>
    if acc.has t then none else
    if bits.length < alignBits pos then none else
    some (acc ++ [(t, .leaf (.bits (bits.take (alignBits pos))))], bits.drop (alignBits pos))
  | _, .computed t v, acc, bits =>
    if acc.has t then none else some (acc ++ [(t, .leaf (.int v))], bits)
def desBody : Nat → List Stmt → Dict → List Bool → Option (Dict × List Bool)
  | _, [], acc, bits => some (acc, bits)
  | pos, s :: rest, acc, bits =>
    match desStmt pos s acc bits with
    | some (acc1, bits1) => desBody (pos + (bits.length - bits1.length)) rest acc1 bits1
    | none => none
def desBodies : Nat → List (List Stmt) → List Bool → Option (List Val × List Bool)
  | _, [], bits => some ([], bits)
  | pos, body :: bodies, bits =>
    match desBody pos body [] bits with
    | some (d, bits1) =>
      match desBodies (pos + (bits.length - bits1.length)) bodies bits1 with
      | some (vs, rest) => some (.dict d :: vs, rest)
      | none => none
    | none => none
end

def deserialise (prog : List Stmt) (bits : List Bool) : Option (Dict × List Bool) :=
  desBody C 0 prog [] bits

end VC2.Model.Serdes
