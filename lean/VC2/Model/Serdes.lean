/-
  Hand-written executable model of the serialiser/deserialiser FRAMEWORK (bitstream/serdes.py)
  at the level of structured description programs:
    prim / declare_list + repeated use / subcontext (also lists of subcontexts) /
    bounded_block (body that fits; trailing padding target) / byte_align / computed_value.
  Bookkeeping (`_cur_context_indices`, the three stacks) is modelled by CONSUMING keys: a target can
  be fetched once, a list target element by element, a context must be empty when it is left
  (`verify_complete`), the deserialiser refuses to set a key that is already there.
  The bit layer is a parameter (`Codec`): any prefix code per primitive kind; the instance built
  from the C20 model is `VC2.Proofs.Serdes.bitCodec`.
  Bounded blocks have the semantics of (A.4.2): inside a block, bits past its end read as 1 and only
  1-bits may be written there (`blk` = "inside a bounded block"); nested blocks are refused as in the
  real code, `byte_align` inside a block is not modelled (refused), and bit positions are not tracked
  inside a block (nothing there may depend on them).
  Not modelled: default_values lookup (a missing value is an error here), io errors.
-/
namespace VC2.Model.Serdes

inductive Leaf
  | int (n : Int)
  | bool (b : Bool)
  | bits (l : List Bool)
  | bytes (l : List Nat)
  deriving Repr, DecidableEq, Inhabited

inductive Val
  | leaf (x : Leaf)
  | dict (d : List (String × Val))
  | list (l : List Val)
  deriving Repr, Inhabited

abbrev Dict := List (String × Val)

inductive Prim
  | bool | nbits (n : Nat) | uintLit (n : Nat) | bitarray (n : Nat) | bytes (n : Nat) | uint | sint
  deriving Repr, DecidableEq, Inhabited

inductive Stmt
  | prim (t : String) (k : Prim)
  | primList (t : String) (ks : List Prim)            -- declare_list(t); one use of t per entry
  | sub (t : String) (body : List Stmt)               -- with subcontext(t): body
  | subList (t : String) (bodies : List (List Stmt))  -- declare_list(t); with subcontext(t): body, …
  | block (t : String) (len : Nat) (body : List Stmt) -- with bounded_block(t, len): body
  | align (t : String)                                -- byte_align(t)
  | computed (t : String) (v : Int)                   -- computed_value(t, v)
  deriving Inhabited

/-- a prefix code for every primitive kind -/
structure Codec where
  enc : Prim → Leaf → Option (List Bool)
  dec : Prim → List Bool → Option (Leaf × List Bool)
  /-- the most 1-bits a value of this kind can take from beyond the end of a bounded block -/
  virt : Prim → Nat

def Dict.get? (d : Dict) (k : String) : Option Val := (d.find? (·.1 == k)).map (·.2)
def Dict.erase (d : Dict) (k : String) : Dict := d.filter (·.1 != k)
def Dict.has (d : Dict) (k : String) : Bool := d.any (·.1 == k)

/-- bits needed to reach the next byte boundary from bit position `pos` -/
def alignBits (pos : Nat) : Nat := (8 - pos % 8) % 8

variable (C : Codec)

/-- values of a list target, one primitive each -/
def serPrims : List Prim → List Val → Option (List Bool)
  | [], [] => some []
  | k :: ks, (.leaf v) :: vs =>
    match C.enc k v, serPrims ks vs with
    | some b, some bs => some (b ++ bs)
    | _, _ => none
  | _, _ => none       -- too few values: ListTargetExhausted; too many: UnusedTarget; a non-leaf

/-- fetch a structured target: a missing list / sub-description is created empty
    (`declare_list` / `_setdefault_context_value(target, {})`), unless the name was already used -/
def fetch (d acc : Dict) (t : String) (dflt : Val) : Option Val :=
  match d.get? t with
  | some v => some v
  | none => if acc.has t then none else some dflt

mutual
/-- serialise one statement at bit position `pos`: `d` is the not-yet-used part of the current
    context, `acc` the part already used (in program order).  Returns the bits, the new `acc`
    and the new `d`. -/
def serStmt : Bool → Nat → Stmt → Dict → Dict → Option (List Bool × Dict × Dict)
  | _, _, .prim t k, d, acc =>
    match d.get? t with
    | some (.leaf v) => match C.enc k v with
      | some b => some (b, acc ++ [(t, .leaf v)], d.erase t)
      | none => none
    | _ => none
  | _, _, .primList t ks, d, acc =>
    match fetch d acc t (.list []) with
    | some (.list vs) => match serPrims C ks vs with
      | some b => some (b, acc ++ [(t, .list vs)], d.erase t)
      | none => none
    | _ => none
  | blk, pos, .sub t body, d, acc =>
    match fetch d acc t (.dict []) with
    | some (.dict d') => match serBody blk pos body d' [] with
      | some (b, used, []) => some (b, acc ++ [(t, .dict used)], d.erase t)
      | _ => none                                  -- something left in the subcontext: UnusedTarget
    | _ => none
  | blk, pos, .subList t bodies, d, acc =>
    match fetch d acc t (.list []) with
    | some (.list vs) => match serBodies blk pos bodies vs with
      | some (b, used) => some (b, acc ++ [(t, .list used)], d.erase t)
      | none => none
    | _ => none
  | true, _, .block _ _ _, _, _ => none              -- nested bounded blocks are not supported
  | false, pos, .block t len body, d, acc =>
    match serBody true pos body d acc with
    | some (b, acc1, d1) =>
      -- only 1-bits may be written past the end of the block (they are not stored)
      if (b.drop len).all id then
        -- the padding target: a bit array of exactly the unused length (empty after an overrun)
        match d1.get? t with
        | some (.leaf (.bits p)) =>
          if p.length = len - b.length then some (b.take len ++ p, acc1 ++ [(t, .leaf (.bits p))], d1.erase t) else none
        | _ => none
      else none
    | none => none
  | true, _, .align _, _, _ => none                  -- byte_align inside a bounded block: not modelled
  | false, pos, .align t, d, acc =>
    match d.get? t with
    | some (.leaf (.bits p)) =>
      if p.length = alignBits pos then some (p, acc ++ [(t, .leaf (.bits p))], d.erase t) else none
    | _ => none
  | _, _, .computed t v, d, acc =>
    -- "any existing value in the context will be overwritten"; a target that was already
    -- accessed is a ReusedTargetError
    if acc.has t then none else some ([], acc ++ [(t, .leaf (.int v))], d.erase t)
def serBody : Bool → Nat → List Stmt → Dict → Dict → Option (List Bool × Dict × Dict)
  | _, _, [], d, acc => some ([], acc, d)
  | blk, pos, s :: rest, d, acc =>
    match serStmt blk pos s d acc with
    | some (b, acc1, d1) =>
      match serBody blk (if blk then pos else pos + b.length) rest d1 acc1 with
      | some (bs, acc2, d2) => some (b ++ bs, acc2, d2)
      | none => none
    | none => none
def serBodies : Bool → Nat → List (List Stmt) → List Val → Option (List Bool × List Val)
  | _, _, [], [] => some ([], [])
  | blk, pos, body :: bodies, (.dict d) :: vs =>
    match serBody blk pos body d [] with
    | some (b, used, []) =>
      match serBodies blk (if blk then pos else pos + b.length) bodies vs with
      | some (bs, useds) => some (b ++ bs, .dict used :: useds)
      | none => none
    | _ => none
  | blk, pos, body :: bodies, [] =>
    -- the list is shorter than the program: missing sub-descriptions are created empty
    match serBody blk pos body [] [] with
    | some (b, used, []) =>
      match serBodies blk (if blk then pos else pos + b.length) bodies [] with
      | some (bs, useds) => some (b ++ bs, .dict used :: useds)
      | none => none
    | _ => none
  | _, _, _, _ => none
end

/-- `with Serialiser(...)`: the whole description must have been used -/
def serialise (prog : List Stmt) (d : Dict) : Option (List Bool × Dict) :=
  match serBody C false 0 prog d [] with
  | some (b, used, []) => some (b, used)
  | _ => none

/-- read one primitive; inside a bounded block (`blk`) the bits past its end read as 1: the value is
    decoded from the remaining bits of the block followed by as many 1-bits as a value of this kind
    can take, and what is left of the REAL bits is returned -/
def decPrim (blk : Bool) (k : Prim) (bits : List Bool) : Option (Leaf × List Bool) :=
  if blk then
    match C.dec k (bits ++ List.replicate (C.virt k) true) with
    | some (v, rest) => some (v, rest.take (rest.length - C.virt k))
    | none => none
  else C.dec k bits

def desPrims (blk : Bool) : List Prim → List Bool → Option (List Val × List Bool)
  | [], bits => some ([], bits)
  | k :: ks, bits =>
    match decPrim C blk k bits with
    | some (v, rest) => match desPrims blk ks rest with
      | some (vs, rest') => some (.leaf v :: vs, rest')
      | none => none
    | none => none

mutual
/-- deserialise one statement at bit position `pos` into the context built so far (`acc`, in
    program order): setting a key that is already there is a ReusedTargetError -/
def desStmt : Bool → Nat → Stmt → Dict → List Bool → Option (Dict × List Bool)
  | blk, _, .prim t k, acc, bits =>
    if acc.has t then none else
    match decPrim C blk k bits with
    | some (v, rest) => some (acc ++ [(t, .leaf v)], rest)
    | none => none
  | blk, _, .primList t ks, acc, bits =>
    if acc.has t then none else
    match desPrims C blk ks bits with
    | some (vs, rest) => some (acc ++ [(t, .list vs)], rest)
    | none => none
  | blk, pos, .sub t body, acc, bits =>
    if acc.has t then none else
    match desBody blk pos body [] bits with
    | some (d', rest) => some (acc ++ [(t, .dict d')], rest)
    | none => none
  | blk, pos, .subList t bodies, acc, bits =>
    if acc.has t then none else
    match desBodies blk pos bodies bits with
    | some (vs, rest) => some (acc ++ [(t, .list vs)], rest)
    | none => none
  | true, _, .block _ _ _, _, _ => none
  | false, pos, .block t len body, acc, bits =>
    if bits.length < len then none else               -- EOF inside the block
    match desBody true pos body acc (bits.take len) with
    | some (acc1, left) =>
      if acc1.has t then none else some (acc1 ++ [(t, .leaf (.bits left))], bits.drop len)
    | none => none
  | true, _, .align _, _, _ => none
  | false, pos, .align t, acc, bits =>
    if acc.has t then none else
    if bits.length < alignBits pos then none else
    some (acc ++ [(t, .leaf (.bits (bits.take (alignBits pos))))], bits.drop (alignBits pos))
  | _, _, .computed t v, acc, bits =>
    if acc.has t then none else some (acc ++ [(t, .leaf (.int v))], bits)
def desBody : Bool → Nat → List Stmt → Dict → List Bool → Option (Dict × List Bool)
  | _, _, [], acc, bits => some (acc, bits)
  | blk, pos, s :: rest, acc, bits =>
    match desStmt blk pos s acc bits with
    | some (acc1, bits1) => desBody blk (if blk then pos else pos + (bits.length - bits1.length)) rest acc1 bits1
    | none => none
def desBodies : Bool → Nat → List (List Stmt) → List Bool → Option (List Val × List Bool)
  | _, _, [], bits => some ([], bits)
  | blk, pos, body :: bodies, bits =>
    match desBody blk pos body [] bits with
    | some (d, bits1) =>
      match desBodies blk (if blk then pos else pos + (bits.length - bits1.length)) bodies bits1 with
      | some (vs, rest) => some (.dict d :: vs, rest)
      | none => none
    | none => none
end

def deserialise (prog : List Stmt) (bits : List Bool) : Option (Dict × List Bool) :=
  desBody C false 0 prog [] bits

end VC2.Model.Serdes
