/-
  Hand-written executable model of vc2_conformance/constraint_table.py (ValueSet, AnyValue,
  filter_constraint_table, is_allowed_combination, allowed_values_for, the per-cell part of
  read_constraints_from_csv) and of decoder/assertions.py assert_level_constraint.
  Values are integers (Python bools are the integers 0/1 for `==`, hashing and ordering).
  Python `set` iteration order is arbitrary: the model iterates its lists in list order and
  every theorem holds for every order.  Core Lean only.
-/
import VC2.Prelude
namespace VC2.Model.Constraint

structure VSet where
  values : List Int := []
  ranges : List (Int × Int) := []
  deriving Repr, Inhabited

/-- `ValueSet` or the wildcard `AnyValue` -/
inductive VS
  | any
  | set (s : VSet)
  deriving Repr, Inhabited

def inRange (v : Int) (r : Int × Int) : Bool := decide (r.1 ≤ v) && decide (v ≤ r.2)

/-- `ValueSet.__contains__` -/
def VSet.contains (s : VSet) (v : Int) : Bool := s.values.contains v || s.ranges.any (inRange v)

/-- `add_value` -/
def VSet.addValue (s : VSet) (v : Int) : VSet :=
  if s.contains v then s else { s with values := v :: s.values }

/-- the merge loop of `add_range`: one pass over the existing ranges, growing (lo, hi);
    returns the grown bounds and the ranges to remove -/
def mergeLoop : List (Int × Int) → Int → Int → Int × Int × List (Int × Int)
  | [], lo, hi => (lo, hi, [])
  | (olo, ohi) :: rest, lo, hi =>
    if lo ≤ ohi ∧ olo ≤ hi then
      let m := mergeLoop rest (if olo < lo then olo else lo) (if ohi > hi then ohi else hi)
      (m.1, m.2.1, (olo, ohi) :: m.2.2)
    else mergeLoop rest lo hi

/-- `add_range` -/
def VSet.addRange (s : VSet) (lo hi : Int) : VSet :=
  let values := s.values.filter (fun v => !(decide (lo ≤ v) && decide (v ≤ hi)))
  let m := mergeLoop s.ranges lo hi
  { values := values,
    ranges := (s.ranges.filter (fun r => !m.2.2.contains r)) ++ [(m.1, m.2.1)] }

/-- `ValueSet.__add__` for two plain sets -/
def VSet.union (a b : VSet) : VSet :=
  let out : VSet := {}
  let out := a.values.foldl VSet.addValue out
  let out := b.values.foldl VSet.addValue out
  let out := a.ranges.foldl (fun o r => o.addRange r.1 r.2) out
  b.ranges.foldl (fun o r => o.addRange r.1 r.2) out

def VS.contains : VS → Int → Bool
  | .any, _ => true
  | .set s, v => s.contains v

/-- `__add__` including `AnyValue` -/
def VS.union : VS → VS → VS
  | .set a, .set b => .set (a.union b)
  | _, _ => .any

def VSet.isEmpty (s : VSet) : Bool := s.values.isEmpty && s.ranges.isEmpty

/-- `ValueSet.is_disjoint` for two plain sets -/
def VSet.isDisjoint (a b : VSet) : Bool :=
  !(a.values.any b.contains) && !(b.values.any a.contains) &&
  !(a.ranges.any (fun r => b.contains r.1 || b.contains r.2)) &&
  !(b.ranges.any (fun r => a.contains r.1 || a.contains r.2))

/-- `is_disjoint` including `AnyValue` -/
def VS.isDisjoint : VS → VS → Bool
  | .any, .any => false
  | .any, .set b => b.isEmpty
  | .set a, .any => a.isEmpty
  | .set a, .set b => a.isDisjoint b

/-! ## Tables -/

abbrev Key := String
/-- one allowed combination (a CSV column): key ↦ value set -/
abbrev Comb := List (Key × VS)
abbrev Table := List Comb
/-- a (partial) assignment of values, insertion ordered like the validator's OrderedDict -/
abbrev Assign := List (Key × Int)

def Comb.get? (c : Comb) (k : Key) : Option VS := (c.find? (·.1 == k)).map (·.2)

/-- `key in comb and value in comb[key]` -/
def Comb.admits (c : Comb) (kv : Key × Int) : Bool :=
  match c.get? kv.1 with
  | some s => s.contains kv.2
  | none => false

/-- `filter_constraint_table` -/
def filterTable (t : Table) (values : Assign) : Table :=
  t.filter fun c => values.all c.admits || c.isEmpty

/-- `is_allowed_combination` -/
def isAllowed (t : Table) (values : Assign) : Bool := !(filterTable t values).isEmpty

/-- `allowed_values_for` (with the default `any_value`) -/
def allowedValuesFor (t : Table) (key : Key) (values : Assign) : VS :=
  (filterTable t values).foldl (fun out c => out.union ((c.get? key).getD (.set {}))) (.set {})

/-- dictionary update `values[key] = v` -/
def Assign.set (a : Assign) (k : Key) (v : Int) : Assign :=
  if a.any (·.1 == k) then a.map (fun kv => if kv.1 == k then (k, v) else kv) else a ++ [(k, v)]

/-- `assert_level_constraint` applied to a sequence of (key, value): `none` = ValueNotAllowedInLevel -/
def assertSeq (t : Table) : Assign → List (Key × Int) → Option Assign
  | cv, [] => some cv
  | cv, (k, v) :: rest =>
    if (allowedValuesFor t k cv).contains v then assertSeq t (cv.set k v) rest else none

/-! ## CSV cells (after tokenisation) -/

inductive Item | value (v : Int) | range (lo hi : Int) | nothing
  deriving Repr, Inhabited
inductive Cell | ditto | any | items (is : List Item)
  deriving Repr, Inhabited

def Item.apply (s : VSet) : Item → VSet
  | .value v => s.addValue v
  | .range lo hi => s.addRange lo hi
  | .nothing => s

/-- the per-cell part of `read_constraints_from_csv` -/
def parseCell (last : VS) : Cell → VS
  | .ditto => (VS.set {}).union last
  | .any => .any
  | .items is => .set (is.foldl Item.apply {})

/-- one CSV row: `last_value` threading from left to right -/
def parseRow : VS → List Cell → List VS
  | _, [] => []
  | last, c :: cs => let v := parseCell last c; v :: parseRow v cs

end VC2.Model.Constraint
