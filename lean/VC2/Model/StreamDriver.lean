/- Line-protocol front end for the stream-structure model (`vd` lines). -/
import VC2.Model.Stream
import VC2.Model.StreamSpec
import VC2.Model.SymReDriver
namespace VC2.Model.Stream
open VC2 VC2.Model.SymRe

def kindOf : String → Option Kind
  | "H" => some .seqHdr | "P" => some .picture | "F" => some .fragment | "D" => some .fragment
  | "A" => some .aux | "Z" => some .padding | "E" => some .eos | _ => none

def parseUnit (ws : List String) : Option DUnit :=
  match ws with
  | k :: rest =>
    match kindOf k, rest.mapM (·.toNat?) with
    | some .seqHdr, some [code, len, next, prev, hid, mv, prof, hpcm] =>
      some { kind := .seqHdr, code := code, len := len, next := next, prev := prev, hdrId := hid,
             majorVersion := mv, profile := prof, pcm := hpcm }
    | some kind, some [code, len, next, prev, a, b, c, d] =>
      some { kind := kind, code := code, len := len, next := next, prev := prev, picNum := a,
             sliceCount := b, fx := c, fy := d }
    | _, _ => none
  | _ => none

def showVerdict : Verdict → String
  | .ok => "OK"
  | .reject c => c
  | .desync => "DESYNC"
  | .crash w => "CRASH:" ++ ((w.splitOn ":").headD w)

/-- `vd <hq> <pcm> <sx> <sy> <level pattern tokens…> `::` unit ; unit ; … ('/' units are ignored) -/
def handleVd (ws : List String) : String :=
  let (hd, tl) := ws.span (· != "::")
  match hd with
  | _hq :: pcm :: sx :: sy :: pat =>
    match pcm.toNat?, sx.toNat?, sy.toNat?, (parseRegex (pat.map tokOf)).toOption with
    | some _pcm, some sx, some sy, some ast =>
      let units := (splitOnTok (tl.drop 1) ";").filter (fun u => u != ["/"] && !u.isEmpty)
      match units.mapM (fun u => parseUnit (u.filter (· != "/"))) with
      | some us =>
        let (v, pics) := validate { slicesX := sx, slicesY := sy, levelPattern := ast } us
        showVerdict v ++ " pics=" ++ ",".intercalate (pics.map toString)
      | none => "bad-op"
    | _, _, _, _ => "bad-op"
  | _ => "bad-op"

/-- `cs …` (same arguments as `vd`): the rule-level specification on the same history -/
def handleCs (ws : List String) : String :=
  let (hd, tl) := ws.span (· != "::")
  match hd with
  | _hq :: pcm :: sx :: sy :: pat =>
    match pcm.toNat?, sx.toNat?, sy.toNat?, (parseRegex (pat.map tokOf)).toOption with
    | some _pcm, some sx, some sy, some ast =>
      let units := (splitOnTok (tl.drop 1) ";").filter (fun u => u != ["/"] && !u.isEmpty)
      match units.mapM (fun u => parseUnit (u.filter (· != "/"))) with
      | some us =>
        let wf := us.all VC2.Model.StreamSpec.unitWF && VC2.Model.StreamSpec.hdrsAgree none us
        let c := VC2.Model.StreamSpec.conformant { slicesX := sx, slicesY := sy, levelPattern := ast } us
        s!"wf={if wf then 1 else 0} conf={if c then 1 else 0}"
      | none => "bad-op"
    | _, _, _, _ => "bad-op"
  | _ => "bad-op"

end VC2.Model.Stream
