/- Line-protocol front end for the serdes framework model (`sd` lines). -/
import VC2.Model.SerdesCodec
import VC2.Model.SerdesDefaults
namespace VC2.Model.Serdes

def parsePrim (s : String) : Option Prim :=
  match s.splitOn ":" with
  | ["bool"] => some .bool | ["uint"] => some .uint | ["sint"] => some .sint
  | ["nbits", n] => n.toNat?.map .nbits | ["ulit", n] => n.toNat?.map .uintLit
  | ["barr", n] => n.toNat?.map .bitarray | ["bytes", n] => n.toNat?.map .bytes
  | _ => none

def parseBitString (s : String) : Option (List Bool) :=
  if s == "-" then some [] else s.toList.mapM (fun c => if c == '0' then some false else if c == '1' then some true else none)

def showBits (l : List Bool) : String := if l.isEmpty then "-" else String.ofList (l.map (fun b => if b then '1' else '0'))

mutual
partial def parseStmts (ws : List String) : Option (List Stmt × List String) :=
  match ws with
  | [] => some ([], [])
  | "}" :: _ => some ([], ws)
  | "]" :: _ => some ([], ws)
  | _ => do
    let (s, rest) ← parseStmt ws
    let (ss, rest') ← parseStmts rest
    pure (s :: ss, rest')
partial def parseStmt (ws : List String) : Option (Stmt × List String) :=
  match ws with
  | "prim" :: t :: k :: rest => (parsePrim k).map (fun k => (.prim t k, rest))
  | "plist" :: t :: "[" :: rest =>
    let (ks, rest') := rest.span (· != "]")
    (ks.mapM parsePrim).map (fun ks => (.primList t ks, rest'.drop 1))
  | "sub" :: t :: "{" :: rest => do
    let (body, rest') ← parseStmts rest
    match rest' with | "}" :: r => pure (.sub t body, r) | _ => none
  | "slist" :: t :: "[" :: rest => do
    let (bodies, rest') ← parseBodies rest
    match rest' with | "]" :: r => pure (.subList t bodies, r) | _ => none
  | "block" :: t :: len :: "{" :: rest => do
    let n ← len.toNat?
    let (body, rest') ← parseStmts rest
    match rest' with | "}" :: r => pure (.block t n body, r) | _ => none
  | "align" :: t :: rest => some (.align t, rest)
  | "comp" :: t :: v :: rest => v.toInt?.map (fun v => (.computed t v, rest))
  | _ => none
partial def parseBodies (ws : List String) : Option (List (List Stmt) × List String) :=
  match ws with
  | "{" :: rest => do
    let (body, rest') ← parseStmts rest
    match rest' with
    | "}" :: r => do
      let (bs, r') ← parseBodies r
      pure (body :: bs, r')
    | _ => none
  | _ => some ([], ws)
end

mutual
partial def parseVal (ws : List String) : Option (Val × List String) :=
  match ws with
  | "i" :: n :: rest => n.toInt?.map (fun n => (.leaf (.int n), rest))
  | "b" :: b :: rest => some (.leaf (.bool (b == "1")), rest)
  | "x" :: s :: rest => (parseBitString s).map (fun l => (.leaf (.bits l), rest))
  | "{" :: rest => do
    let (d, rest') ← parseEntries rest
    match rest' with | "}" :: r => pure (.dict d, r) | _ => none
  | "[" :: rest => do
    let (vs, rest') ← parseVals rest
    match rest' with | "]" :: r => pure (.list vs, r) | _ => none
  | _ => none
partial def parseEntries (ws : List String) : Option (Dict × List String) :=
  match ws with
  | "}" :: _ => some ([], ws)
  | k :: rest => do
    let (v, rest') ← parseVal rest
    let (d, rest'') ← parseEntries rest'
    pure ((k, v) :: d, rest'')
  | [] => none
partial def parseVals (ws : List String) : Option (List Val × List String) :=
  match ws with
  | "]" :: _ => some ([], ws)
  | [] => none
  | _ => do
    let (v, rest) ← parseVal ws
    let (vs, rest') ← parseVals rest
    pure (v :: vs, rest')
end

mutual
partial def showVal : Val → String
  | .leaf (.int n) => "i " ++ toString n
  | .leaf (.bool b) => "b " ++ (if b then "1" else "0")
  | .leaf (.bits l) => "x " ++ showBits l
  | .leaf (.bytes l) => "y " ++ toString l
  | .dict d => "{ " ++ showDict d ++ "}"
  | .list l => "[ " ++ String.join (l.map (fun v => showVal v ++ " ")) ++ "]"
/-- canonical: entries sorted by key (Python dict equality ignores order) -/
partial def showDict (d : Dict) : String :=
  String.join ((d.mergeSort (fun a b => a.1 ≤ b.1)).map (fun kv => kv.1 ++ " " ++ showVal kv.2 ++ " "))
end

/-- default table entries: `ctx target <leaf> …` (the top-level context is written `_`) -/
partial def parseTable (ws : List String) : Option (List (String × String × Leaf)) :=
  match ws with
  | [] => some []
  | c :: t :: rest =>
    match parseVal rest with
    | some (.leaf v, rest') => (parseTable rest').map (fun l => ((if c == "_" then "" else c), t, v) :: l)
    | _ => none
  | _ => none

def tableOf (l : List (String × String × Leaf)) : Defaults :=
  fun c t => (l.find? (fun e => e.1 == c && e.2.1 == t)).map (·.2.2)

/-- `sd F <program> :: <entries> :: <default table>` → as `S`, for the Serialiser WITH a default table -/
def handleSdF (ws : List String) : String :=
  let (pw, r1) := ws.span (· != "::")
  let (ew, r2) := (r1.drop 1).span (· != "::")
  match parseStmts pw, parseEntries (ew ++ ["}"]), parseTable (r2.drop 1) with
  | some (prog, []), some (d, ["}"]), some tb =>
    match serialiseD bitCodec (tableOf tb) prog d with
    | some (bits, used) => "OK " ++ showBits bits ++ " | " ++ showDict used
    | none => "FAIL"
  | _, _, _ => "bad-op"

/-- `sd S <program> :: <entries>`  → `OK <bits> | <used description>`  or `FAIL`
    `sd D <program> :: <bits>`     → `OK <description> | <number of bits left>` or `FAIL` -/
def handleSd (ws : List String) : String :=
  match ws with
  | ["C", k, b] =>
    -- canonicity probe: decode, re-encode, compare with the bits consumed
    match parsePrim k, parseBitString b with
    | some k, some bits =>
      match bitCodec.dec k bits with
      | some (v, rest) =>
        match bitCodec.enc k v with
        | some used => if used ++ rest == bits then "CANON " ++ toString used.length else "NONCANON"
        | none => "NOENC"
      | none => "FAIL"
    | _, _ => "bad-op"
  | "F" :: rest => handleSdF rest
  | mode :: rest =>
    let (pw, aw) := rest.span (· != "::")
    match parseStmts pw with
    | some (prog, []) =>
      if mode == "S" then
        match parseEntries (aw.drop 1 ++ ["}"]) with
        | some (d, ["}"]) =>
          match serialise bitCodec prog d with
          | some (bits, used) => "OK " ++ showBits bits ++ " | " ++ showDict used
          | none => "FAIL"
        | _ => "bad-op"
      else
        match aw.drop 1 with
        | [s] => match parseBitString s with
          | some bits => match deserialise bitCodec prog bits with
            | some (d, rest) => "OK " ++ showDict d ++ "| " ++ toString rest.length
            | none => "FAIL"
          | none => "bad-op"
        | _ => "bad-op"
    | _ => "bad-op"
  | _ => "bad-op"

end VC2.Model.Serdes
