/-
  Hand-written executable model of the wavelet transforms:
    pseudocode/picture_decoding.py  lift1..4, oned_synthesis, h_synthesis, vh_synthesis, idwt,
                                    idwt_pad_removal
    pseudocode/picture_encoding.py  oned_analysis, h_analysis, vh_analysis, dwt, dwt_pad_addition
  1-D arrays are index functions `Nat → Int` with an explicit length, 2-D arrays are
  `Arr` (height, width, index function); in-place updates are function updates applied
  in the same order as the Python loops.  Generic in the lifting filter.  Core Lean only.
-/
import VC2.Prelude
namespace VC2.Model.Wavelet

inductive LiftKind | evenAddOdd | evenSubOdd | oddAddEven | oddSubEven
  deriving Repr, DecidableEq, Inhabited

/-- parity of the updated positions (0 = even) -/
def LiftKind.parity : LiftKind → Nat
  | .evenAddOdd | .evenSubOdd => 0
  | .oddAddEven | .oddSubEven => 1
/-- +1 for the adding kinds, −1 for the subtracting ones -/
def LiftKind.sgn : LiftKind → Int
  | .evenAddOdd | .oddAddEven => 1
  | .evenSubOdd | .oddSubEven => -1
/-- analysis uses the opposite sign (ANALYSIS_LIFTING_FUNCTION_TYPES) -/
def LiftKind.swap : LiftKind → LiftKind
  | .evenAddOdd => .evenSubOdd | .evenSubOdd => .evenAddOdd
  | .oddAddEven => .oddSubEven | .oddSubEven => .oddAddEven

structure Stage where
  kind : LiftKind
  L : Nat
  D : Int
  taps : List Int
  S : Nat
  deriving Repr, Inhabited

structure Filter where
  stages : List Stage
  shift : Nat          -- filter_bit_shift
  deriving Repr, Inhabited

/-- 1-D array as an index function (wrapped so that compiled code builds each array once) -/
@[ext] structure Vec where
  get : Nat → Int

/-- semantically the identity; operationally materialises the first `n` entries -/
def Vec.memo (n : Nat) (v : Vec) : Vec :=
  let a := Array.ofFn (n := n) (fun i => v.get i.val)
  ⟨fun j => if h : j < a.size then a[j] else v.get j⟩

theorem Vec.memo_eq (n : Nat) (v : Vec) : Vec.memo n v = v := by
  apply Vec.ext; funext j
  simp only [Vec.memo]
  split
  · simp
  · rfl

/-- position read by tap `i` for output `n` (clamping as in lift1/2 resp. lift3/4) -/
def readPos (parity len n : Nat) (i : Int) : Nat :=
  if parity = 0 then
    (max (min (2 * ((n : Int) + i) - 1) ((len : Int) - 1)) 1).toNat
  else
    (max (min (2 * ((n : Int) + i)) ((len : Int) - 2)) 0).toNat

/-- `for i in range(D, L + D): sum += taps[i - D] * A[pos]`, iterating `j = i - D` -/
def tapSum (f : Vec) (parity len n : Nat) (D : Int) (taps : List Int) : Nat → Nat → Int
  | 0, _ => 0
  | cnt + 1, j =>
    taps.getD j 0 * f.get (readPos parity len n (D + j)) + tapSum f parity len n D taps cnt (j + 1)

/-- the amount added to / subtracted from output `n`: `(sum + (1 << (S-1) if S > 0)) >> S` -/
def delta (st : Stage) (f : Vec) (len n : Nat) : Int :=
  let s := tapSum f st.kind.parity len n st.D st.taps st.L 0
  let s := if st.S > 0 then s + 2 ^ (st.S - 1) else s
  s / 2 ^ st.S

def upd (f : Vec) (i : Nat) (v : Int) : Vec := ⟨fun j => if j = i then v else f.get j⟩

/-- one iteration of the `for n in range(len(A) // 2)` loop -/
def liftStep (st : Stage) (len : Nat) (f : Vec) (n : Nat) : Vec :=
  let idx := 2 * n + st.kind.parity
  let v := f.get idx + st.kind.sgn * delta st f len n
  upd f idx v

/-- lift1..lift4, in place, in loop order -/
def lift (st : Stage) (len : Nat) (f : Vec) : Vec :=
  Vec.memo len ((List.range (len / 2)).foldl (liftStep st len) f)

def Stage.swapped (st : Stage) : Stage := { st with kind := st.kind.swap }

/-- `oned_synthesis`: stages in order -/
def onedSynthesis (flt : Filter) (len : Nat) (f : Vec) : Vec :=
  flt.stages.foldl (fun g st => lift st len g) f

/-- `oned_analysis`: reversed stages with add/subtract swapped -/
def onedAnalysis (flt : Filter) (len : Nat) (f : Vec) : Vec :=
  flt.stages.reverse.foldl (fun g st => lift st.swapped len g) f

/-! ## 2-D -/

structure Arr where
  h : Nat
  w : Nat
  f : Nat → Nat → Int

/-- apply a 1-D in-place routine to every row (`for y: oned(row(a, y))`) -/
def mapRows (g : Nat → Vec → Vec) (a : Arr) : Arr :=
  let rows := Array.ofFn (n := a.h) (fun y => g a.w ⟨a.f y.val⟩)
  { a with f := fun y => if h : y < rows.size then rows[y].get else (g a.w ⟨a.f y⟩).get }

theorem mapRows_f (g : Nat → Vec → Vec) (a : Arr) (y : Nat) :
    (mapRows g a).f y = (g a.w ⟨a.f y⟩).get := by
  simp only [mapRows]
  split
  · simp
  · rfl

/-- … to every column (`for x: oned(column(a, x))`) -/
def mapCols (g : Nat → Vec → Vec) (a : Arr) : Arr :=
  let cols := Array.ofFn (n := a.w) (fun x => g a.h ⟨fun y' => a.f y' x.val⟩)
  { a with f := fun y x => if h : x < cols.size then cols[x].get y else (g a.h ⟨fun y' => a.f y' x⟩).get y }

theorem mapCols_f (g : Nat → Vec → Vec) (a : Arr) (y x : Nat) :
    (mapCols g a).f y x = (g a.h ⟨fun y' => a.f y' x⟩).get y := by
  simp only [mapCols]
  split
  · simp
  · rfl

def mapAll (g : Int → Int) (a : Arr) : Arr := { a with f := fun y x => g (a.f y x) }

/-- `(v + (1 << (shift-1))) >> shift`, only when `shift > 0` -/
def shiftDown (shift : Nat) (a : Arr) : Arr :=
  if shift > 0 then mapAll (fun v => (v + 2 ^ (shift - 1)) / 2 ^ shift) a else a
/-- `v << shift`, only when `shift > 0` -/
def shiftUp (shift : Nat) (a : Arr) : Arr :=
  if shift > 0 then mapAll (fun v => v * 2 ^ shift) a else a

def hInterleave (L H : Arr) : Arr :=
  { h := L.h, w := 2 * L.w,
    f := fun y x => if x % 2 = 0 then L.f y (x / 2) else H.f y (x / 2) }

def vhInterleave (LL HL LH HH : Arr) : Arr :=
  { h := 2 * LL.h, w := 2 * LL.w,
    f := fun y x =>
      if y % 2 = 0 then (if x % 2 = 0 then LL.f (y / 2) (x / 2) else HL.f (y / 2) (x / 2))
      else (if x % 2 = 0 then LH.f (y / 2) (x / 2) else HH.f (y / 2) (x / 2)) }

/-- `h_synthesis` (the horizontal filter is `fho`) -/
def hSynthesis (fho : Filter) (L H : Arr) : Arr :=
  shiftDown fho.shift (mapRows (onedSynthesis fho) (hInterleave L H))

/-- `vh_synthesis` (vertical filter `fv`, horizontal filter `fho`; the shift is the horizontal one's) -/
def vhSynthesis (fv fho : Filter) (LL HL LH HH : Arr) : Arr :=
  shiftDown fho.shift
    (mapRows (onedSynthesis fho) (mapCols (onedSynthesis fv) (vhInterleave LL HL LH HH)))

def sub (a : Arr) (py px : Nat) (h w : Nat) : Arr :=
  { h := h, w := w, f := fun y x => a.f (2 * y + py) (2 * x + px) }

/-- `h_analysis` → (L, H) -/
def hAnalysis (fho : Filter) (a : Arr) : Arr × Arr :=
  let t := mapRows (onedAnalysis fho) (shiftUp fho.shift a)
  ({ h := t.h, w := t.w / 2, f := fun y x => t.f y (2 * x) },
   { h := t.h, w := t.w / 2, f := fun y x => t.f y (2 * x + 1) })

/-- `vh_analysis` → (LL, HL, LH, HH) -/
def vhAnalysis (fv fho : Filter) (a : Arr) : Arr × Arr × Arr × Arr :=
  let t := mapCols (onedAnalysis fv) (mapRows (onedAnalysis fho) (shiftUp fho.shift a))
  (sub t 0 0 (t.h / 2) (t.w / 2), sub t 0 1 (t.h / 2) (t.w / 2),
   sub t 1 0 (t.h / 2) (t.w / 2), sub t 1 1 (t.h / 2) (t.w / 2))

/-- transform data: the DC band, the horizontal-only levels 1…dho (H bands, lowest level
    first) and the 2-D levels dho+1…dho+d ((HL, LH, HH), lowest level first) -/
structure Coeffs where
  dc : Arr
  ho : List Arr
  full : List (Arr × Arr × Arr)

def dwtFull (fv fho : Filter) : Nat → Arr → Arr × List (Arr × Arr × Arr)
  | 0, a => (a, [])
  | d + 1, a =>
    let (LL, HL, LH, HH) := vhAnalysis fv fho a
    let (dc, rest) := dwtFull fv fho d LL
    (dc, rest ++ [(HL, LH, HH)])

def dwtHo (fho : Filter) : Nat → Arr → Arr × List Arr
  | 0, a => (a, [])
  | d + 1, a =>
    let (L, H) := hAnalysis fho a
    let (dc, rest) := dwtHo fho d L
    (dc, rest ++ [H])

/-- `dwt` -/
def dwt (fv fho : Filter) (dho d : Nat) (pic : Arr) : Coeffs :=
  let (a, full) := dwtFull fv fho d pic
  let (dc, ho) := dwtHo fho dho a
  { dc := dc, ho := ho, full := full }

/-- `idwt` -/
def idwt (fv fho : Filter) (c : Coeffs) : Arr :=
  let a := c.ho.foldl (fun dc H => hSynthesis fho dc H) c.dc
  c.full.foldl (fun dc b => vhSynthesis fv fho dc b.1 b.2.1 b.2.2) a

/-- `dwt_pad_addition`: copy-extend rows then columns up to (ph, pw) -/
def padAddition (a : Arr) (ph pw : Nat) : Arr :=
  { h := max a.h ph, w := max a.w pw, f := fun y x => a.f (min y (a.h - 1)) (min x (a.w - 1)) }

/-- `idwt_pad_removal`: delete rows ≥ h and columns ≥ w -/
def padRemoval (a : Arr) (h w : Nat) : Arr :=
  { h := min a.h h, w := min a.w w, f := a.f }

/-- extensional equality of arrays inside their bounds -/
def Arr.Eq (a b : Arr) : Prop := a.h = b.h ∧ a.w = b.w ∧ ∀ y x, y < a.h → x < a.w → a.f y x = b.f y x

def Arr.toLists (a : Arr) : List (List Int) :=
  (List.range a.h).map fun y => (List.range a.w).map fun x => a.f y x

def Arr.ofLists (l : List (List Int)) : Arr :=
  { h := l.length, w := (l.head?.map List.length).getD 0,
    f := fun y x => ((l[y]?).bind (·[x]?)).getD 0 }

end VC2.Model.Wavelet
