/-
  Hand-written executable model of vc2_conformance/symbol_re.py:
    parse_expression (tokens → AST, right to left), NFA.from_ast (Thompson construction with
    fresh node ids), NFANode.equivalent_nodes / follow, Matcher.match_symbol / is_complete /
    valid_next_symbols, and make_matching_sequence (the breadth-first queue search).
  Core Lean only.  Tied to the code by the `re` correspondence (harness/props/c18.py, c19.py).
-/
import VC2.Prelude
namespace VC2.Model.SymRe

/-- `None | Symbol | Star | Concatenation | Union` -/
inductive Ast
  | empty
  | sym (s : String)
  | star (e : Ast)
  | cat (a b : Ast)
  | alt (a b : Ast)
  deriving Repr, DecidableEq, Inhabited

def WILDCARD : String := "."
def END : String := ""

/-! ## Tokens and the right-to-left recursive-descent parser -/

inductive Tok
  | str (s : String) | wildcard | eos | modifier (c : Char) | bar | lpar | rpar
  deriving Repr, DecidableEq, Inhabited

inductive ParseErr | multipleModifiers | modifierBeforeBar | unmatched | modifierBeforeParen | modifierAtStart
  deriving Repr, DecidableEq, Inhabited

/-- the AST `None` is `Ast.empty`; `Union(x, None)` etc. carry it explicitly -/
def optAst (a : Option Ast) : Ast := a.getD .empty

/-- `next_ast` may be Python's `None` (an empty group): kept as `Option` because
    `if ast is None: ast = next_ast` must leave `ast` as `None` in that case -/
def applyModifier (m : Option Char) (a : Option Ast) : Option Ast :=
  match m with
  | some '*' => some (.star (optAst a))
  | some '+' => some (.cat (optAst a) (.star (optAst a)))
  | some '?' => some (.alt (optAst a) .empty)
  | _ => a

def joinCat (next : Option Ast) (ast : Option Ast) : Option Ast :=
  match ast with
  | none => next
  | some a => some (.cat (optAst next) a)

/-- `parse_expression`: `toks` is the token list REVERSED (so the head is `tokens[-1]`).
    Returns the AST and the remaining (reversed) tokens; stops at an unmatched `(`. -/
def parseExpr : Nat → List Tok → Option Ast → Option Char → Except ParseErr (Option Ast × List Tok)
  | 0, _, _, _ => .error .unmatched   -- fuel; never reached (fuel = token count + 1)
  | _ + 1, [], ast, modifier =>
    match modifier with
    | some _ => .error .modifierAtStart
    | none => .ok (ast, [])
  | fuel + 1, t :: rest, ast, modifier =>
    match t with
    | .lpar =>
      match modifier with
      | some _ => .error .modifierBeforeParen
      | none => .ok (ast, t :: rest)
    | .modifier c =>
      match modifier with
      | some _ => .error .multipleModifiers
      | none => parseExpr fuel rest ast (some c)
    | .bar =>
      match modifier with
      | some _ => .error .modifierBeforeBar
      | none =>
        match parseExpr fuel rest none none with
        | .error e => .error e
        | .ok (lhs, rest') =>
          -- `ast = Union(parse_expression(tokens), ast)`; the loop then continues (and stops,
          -- since the recursive call only returns at the end or at an unmatched `(`)
          parseExpr fuel rest' (some (.alt (optAst lhs) (optAst ast))) none
    | .rpar =>
      match parseExpr fuel rest none none with
      | .error e => .error e
      | .ok (inner, rest') =>
        match rest' with
        | [] => .error .unmatched
        | _ :: rest'' =>   -- pops the `(`
          parseExpr fuel rest'' (joinCat (applyModifier modifier inner) ast) none
    | .str s => parseExpr fuel rest (joinCat (applyModifier modifier (some (.sym s))) ast) none
    | .wildcard => parseExpr fuel rest (joinCat (applyModifier modifier (some (.sym WILDCARD))) ast) none
    | .eos => parseExpr fuel rest (joinCat (applyModifier modifier (some (.sym END))) ast) none

/-- `parse_regex` on an already tokenised pattern -/
def parseRegex (toks : List Tok) : Except ParseErr Ast :=
  match parseExpr (2 * toks.length + 2) toks.reverse none none with
  | .error e => .error e
  | .ok (ast, []) => .ok (optAst ast)
  | .ok (_, _ :: _) => .error .unmatched

/-! ## Thompson construction -/

structure Edge where
  src : Nat
  lbl : Option String     -- `none` = empty transition
  dst : Nat
  deriving Repr, DecidableEq, Inhabited

structure Frag where
  start : Nat
  final : Nat
  edges : List Edge
  next : Nat              -- first unused node id
  deriving Repr, Inhabited

/-- `NFA.from_ast`, allocating node ids from `n` upwards -/
def build : Ast → Nat → Frag
  | .empty, n => { start := n, final := n, edges := [], next := n + 1 }
  | .sym s, n => { start := n, final := n + 1, edges := [⟨n, some s, n + 1⟩], next := n + 2 }
  | .cat a b, n =>
    let fa := build a n
    let fb := build b fa.next
    { start := fa.start, final := fb.final,
      edges := fa.edges ++ fb.edges ++ [⟨fa.final, none, fb.start⟩], next := fb.next }
  | .alt a b, n =>
    let fa := build a (n + 2)
    let fb := build b fa.next
    { start := n, final := n + 1,
      edges := fa.edges ++ fb.edges ++
        [⟨n, none, fa.start⟩, ⟨n, none, fb.start⟩, ⟨fa.final, none, n + 1⟩, ⟨fb.final, none, n + 1⟩],
      next := fb.next }
  | .star e, n =>
    let fe := build e (n + 2)
    { start := n, final := n + 1,
      edges := fe.edges ++
        [⟨n, none, n + 1⟩, ⟨n, none, fe.start⟩, ⟨fe.final, none, fe.start⟩, ⟨fe.final, none, n + 1⟩],
      next := fe.next }

/-! ## Node sets, ε-closure, follow -/

def insertNew (l : List Nat) (x : Nat) : List Nat := if l.contains x then l else l ++ [x]
def unionNew (l m : List Nat) : List Nat := m.foldl insertNew l

/-- ε-successors of a set of nodes; `bidir` reproduces the historical behaviour in which empty
    transitions were followed in both directions (defect F1, kept for the negation witness) -/
def epsSucc (bidir : Bool) (es : List Edge) (S : List Nat) : List Nat :=
  es.foldl (fun acc e =>
    if e.lbl.isNone then
      let acc := if S.contains e.src then insertNew acc e.dst else acc
      if bidir && S.contains e.dst then insertNew acc e.src else acc
    else acc) []

/-- one round: `S ∪ εsucc S` -/
def expand (bidir : Bool) (es : List Edge) (S : List Nat) : List Nat := unionNew S (epsSucc bidir es S)

def iter {α : Type} (f : α → α) : Nat → α → α
  | 0, x => x
  | k + 1, x => iter f k (f x)

/-- `equivalent_nodes` of every node of `S`: reflexive-transitive ε-closure, computed by
    `numNodes` rounds (enough by the pigeonhole principle — proved in VC2.Proofs.SymRe) -/
def closure (bidir : Bool) (es : List Edge) (numNodes : Nat) (S : List Nat) : List Nat :=
  iter (expand bidir es) numNodes S

/-- does edge label `l` accept input symbol `a` in `match_symbol`?  (`follow(a) ∪ follow(".")`) -/
def labelMatches (l a : String) : Bool := l == a || l == WILDCARD

/-- targets of symbol edges leaving `S` whose label satisfies `p` -/
def stepFn (S : List Nat) (p : String → Bool) (acc : List Nat) (e : Edge) : List Nat :=
  match e.lbl with
  | some l => if p l && S.contains e.src then insertNew acc e.dst else acc
  | none => acc

def stepOn (es : List Edge) (S : List Nat) (p : String → Bool) : List Nat :=
  es.foldl (stepFn S p) []

structure Matcher where
  bidir : Bool
  frag : Frag
  cur : List Nat
  deriving Repr, Inhabited

def Matcher.init (bidir : Bool) (r : Ast) : Matcher :=
  let f := build r 0
  { bidir := bidir, frag := f, cur := [f.start] }

def Matcher.closed (m : Matcher) : List Nat := closure m.bidir m.frag.edges m.frag.next m.cur

/-- `match_symbol`: `none` = returned False (state unchanged) -/
def Matcher.matchSymbol (m : Matcher) (a : String) : Option Matcher :=
  let new := stepOn m.frag.edges m.closed (fun l => labelMatches l a)
  if new.isEmpty then none else some { m with cur := new }

/-- `is_complete` -/
def Matcher.isComplete (m : Matcher) : Bool :=
  m.closed.contains m.frag.final || !(stepOn m.frag.edges m.closed (fun l => l == END)).isEmpty

def insertStr (l : List String) (x : String) : List String := if l.contains x then l else l ++ [x]

def labelFn (S : List Nat) (acc : List String) (e : Edge) : List String :=
  match e.lbl with
  | some l => if S.contains e.src then insertStr acc l else acc
  | none => acc

/-- `valid_next_symbols` (as a duplicate-free list; order irrelevant) -/
def Matcher.validNext (m : Matcher) : List String :=
  let syms := m.frag.edges.foldl (labelFn m.closed) []
  if m.isComplete then insertStr syms END else syms

def Matcher.run : Matcher → List String → Option Matcher
  | m, [] => some m
  | m, a :: w => (m.matchSymbol a).bind (·.run w)

/-! ## make_matching_sequence -/

structure Item where
  soFar : List String
  remaining : List String
  matchers : List Matcher
  depth : Nat
  deriving Inhabited

def insertSorted (x : String) : List String → List String
  | [] => [x]
  | y :: ys => if x ≤ y then x :: y :: ys else y :: insertSorted x ys

/-- `sorted(...)` on symbols (insertion sort; only the resulting order matters) -/
def sortStrs (l : List String) : List String := l.foldr insertSorted []

/-- combination of the matchers' candidate symbols, exactly as the four-way `if` in the code -/
def candidates (ms : List Matcher) : List String :=
  ms.foldl (fun cand m =>
    let syms := m.validNext.filter (· != END)
    if syms.contains WILDCARD && cand.contains WILDCARD then syms.foldl insertStr cand
    else if cand.contains WILDCARD then syms
    else if syms.contains WILDCARD then cand
    else cand.filter syms.contains) [WILDCARD]

/-- ordering of candidate symbols: priority list first (in its order), the rest alphabetically -/
def orderCandidates (cands : List String) (priority : List String) : List String :=
  let cands := if cands.contains WILDCARD && !priority.isEmpty
               then (cands.filter (· != WILDCARD)) |> fun c => priority.foldl insertStr c
               else cands
  (priority.filter cands.contains |> fun l => l.foldl insertStr []) ++
    sortStrs (cands.filter (fun s => !priority.contains s))

def stepAll (ms : List Matcher) (a : String) : List Matcher :=
  ms.map fun m => (m.matchSymbol a).getD m     -- `m.match_symbol(..)`: result ignored, state kept on failure

/-- the queue after trying every candidate insertion for `it` (nothing if its depth is spent) -/
def expandQueue (priority : List String) (it : Item) (queue : List Item) : List Item :=
  if it.depth = 0 then queue
  else
    queue ++ (orderCandidates (candidates it.matchers) priority).map fun c =>
      { soFar := it.soFar ++ [c], remaining := it.remaining,
        matchers := stepAll it.matchers c, depth := it.depth - 1 }

/-- the `while queue` loop; `fuel` bounds the number of dequeued items -/
def search (depthLimit : Nat) (priority : List String) :
    Nat → List Item → Option (List String)
  | 0, _ => none
  | _ + 1, [] => none                                   -- ImpossibleSequenceError
  | fuel + 1, it :: queue =>
    match it.remaining with
    | [] =>
      if it.matchers.all (·.isComplete) then some it.soFar
      else search depthLimit priority fuel (expandQueue priority it queue)
    | a :: rest =>
      if it.matchers.all (fun m => m.validNext.contains a || m.validNext.contains WILDCARD) then
        search depthLimit priority fuel
          (queue ++ [{ soFar := it.soFar ++ [a], remaining := rest,
                       matchers := stepAll it.matchers a, depth := depthLimit }])
      else search depthLimit priority fuel (expandQueue priority it queue)

inductive SearchResult | found (l : List String) | impossible | outOfFuel
  deriving Repr

def Item.initial (bidir : Bool) (initial : List String) (patterns : List Ast) (depthLimit : Nat) : Item :=
  { soFar := [], remaining := initial, matchers := patterns.map (Matcher.init bidir), depth := depthLimit }

def makeMatchingSequence (bidir : Bool) (initial : List String) (patterns : List Ast)
    (depthLimit : Nat) (priority : List String) (fuel : Nat) : Option (List String) :=
  search depthLimit priority fuel [Item.initial bidir initial patterns depthLimit]

end VC2.Model.SymRe
