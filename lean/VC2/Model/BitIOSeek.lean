/-
  Hand-written executable model of BitstreamWriter INCLUDING seek (bitstream/io.py): the file as a list of
  bytes with a position, the byte being assembled, the next bit index and the bounded-block counter.
  `flush` writes the partial byte without advancing; `seek` flushes, moves and starts the target byte from
  zero ("seeking to a given byte will overwrite any bits already set in that byte to 0"); inside a bounded
  block `seek` adjusts the remaining-bit counter exactly as the reader's `seek` does (`blockSeek`).
-/
import VC2.Model.BitIO
namespace VC2.Model.BitIOSeek
open VC2 VC2.Model.BitIO

structure WS where
  file : List Nat := []     -- the bytes of the underlying file
  fpos : Nat := 0           -- the file object's position
  off : Nat := 0            -- _byte_offset
  cur : Nat := 0            -- _current_byte
  next : Nat := 7           -- _next_bit (7 = no bit written into the current byte yet)
  rem : Option Int := none  -- _bits_remaining
  deriving Repr

/-- write one byte at position `i` (zero-filling a gap, as a BytesIO does) -/
def setByte (file : List Nat) (i v : Nat) : List Nat :=
  if i < file.length then file.set i v else file ++ List.replicate (i - file.length) 0 ++ [v]

/-- `_write_byte` -/
def WS.writeByte (w : WS) : WS :=
  { w with file := setByte w.file w.fpos w.cur, fpos := w.fpos + 1, cur := 0, next := 7, off := w.off + 1 }

/-- `flush`: commit the partial byte, stay on it -/
def WS.flush (w : WS) : WS := if w.next ≠ 7 then { w with file := setByte w.file w.fpos w.cur } else w

/-- `write_bit` -/
def WS.writeBit (w : WS) (b : Bool) : Except IOErr WS :=
  let put := fun (w : WS) =>
    let w1 := { w with cur := w.cur ||| ((if b then 1 else 0) <<< w.next) }
    if w1.next = 0 then w1.writeByte else { w1 with next := w1.next - 1 }
  match w.rem with
  | some n =>
    let w' := { w with rem := some (n - 1) }
    if n - 1 ≤ -1 then (if b then .ok w' else .error .zeroPastEnd) else .ok (put w')
  | none => .ok (put w)

def WS.writeBits : WS → List Bool → Except IOErr WS
  | w, [] => .ok w
  | w, b :: bs => do
    let w1 ← w.writeBit b
    WS.writeBits w1 bs

def WS.writeNbits (w : WS) (bits : Int) (value : Int) : Except IOErr WS :=
  if value < 0 ∨ bitLength value > bits then .error .outOfRange
  else w.writeBits (nbitsOf value.toNat bits.toNat)

def WS.writeUint (w : WS) (v : Int) : Except IOErr WS :=
  if v < 0 then .error .outOfRange else w.writeBits (encodeUint v.toNat)

/-- the bounded-block part of `seek` (the same three-way adjustment in reader and writer) -/
def blockSeek (rem : Option Int) (delta : Int) : Except IOErr (Option Int) :=
  match rem with
  | none => .ok none
  | some n =>
    if delta > 0 ∧ n - delta < 0 then .error .seekPastEnd
    else if n ≤ 0 ∧ delta = 0 then .ok (some n)
    else if n < 0 ∧ delta < 0 then .ok (some (-delta))
    else .ok (some (n - delta))

/-- bit offset of a (byte, next-bit) position -/
def bitOffset (bytes bits : Nat) : Int := (bytes * 8 + (7 - bits) : Nat)

/-- `seek(bytes, bits)` -/
def WS.seek (w : WS) (bytes bits : Nat) : Except IOErr WS := do
  let rem ← blockSeek w.rem (bitOffset bytes bits - bitOffset w.off w.next)
  let w1 := w.flush
  pure { w1 with rem := rem, fpos := bytes, off := bytes, cur := 0, next := bits }

def WS.tell (w : WS) : Nat × Nat := (w.off, w.next)

def WS.blockBegin (w : WS) (len : Int) : Except IOErr WS :=
  match w.rem with
  | some _ => .error .nested
  | none => .ok { w with rem := some len }

def WS.blockEnd (w : WS) : Except IOErr (Int × WS) :=
  match w.rem with
  | none => .error .notInBlock
  | some n => .ok (if n < 0 then 0 else n, { w with rem := none })

end VC2.Model.BitIOSeek
