/-
  Hand-written executable model of the sample-domain steps around the wavelet transform:
    decoder/transform_data_syntax.py  dc_prediction (13.4), forward raster, in place
    encoder/pictures.py               apply_dc_prediction, reversed raster, in place
    pseudocode/picture_decoding.py    offset_component, clip_component
    pseudocode/picture_encoding.py    remove_offset_component
  Arrays are functions `y x ↦ value` updated point-wise (the in-place loops are modelled
  literally: each step reads the CURRENT array).  `mean` and `clip` are the GENERATED kernels.
-/
import VC2.Gen.Kernels
namespace VC2.Model.Picture
open VC2

abbrev Arr := Nat → Nat → Int

def upd (f : Arr) (y x : Nat) (v : Int) : Arr := fun y' x' => if y' = y ∧ x' = x then v else f y' x'

/-- the prediction of (13.4) from the current contents of the band -/
def pred (f : Arr) (y x : Nat) : Int :=
  if x > 0 ∧ y > 0 then VC2.Gen.mean [f y (x - 1), f (y - 1) (x - 1), f (y - 1) x]
  else if x > 0 ∧ y = 0 then f 0 (x - 1)
  else if x = 0 ∧ y > 0 then f (y - 1) 0
  else 0

/-- decoder: `band[y][x] += prediction` -/
def decStep (f : Arr) (y x : Nat) : Arr := upd f y x (f y x + pred f y x)
/-- `for x in range(n)` in row y -/
def decRow (y : Nat) : Nat → Arr → Arr
  | 0, f => f
  | n + 1, f => decStep (decRow y n f) y n
/-- `for y in range(n): for x in range(w)` -/
def decRows (w : Nat) : Nat → Arr → Arr
  | 0, f => f
  | n + 1, f => decRow n w (decRows w n f)
def dcPrediction (w h : Nat) (f : Arr) : Arr := decRows w h f

/-- encoder: `band[y][x] -= prediction` -/
def encStep (f : Arr) (y x : Nat) : Arr := upd f y x (f y x - pred f y x)
/-- `for x in reversed(range(n))` in row y -/
def encRow (y : Nat) : Nat → Arr → Arr
  | 0, f => f
  | n + 1, f => encRow y n (encStep f y n)
/-- `for y in reversed(range(n)): for x in reversed(range(w))` -/
def encRows (w : Nat) : Nat → Arr → Arr
  | 0, f => f
  | n + 1, f => encRows w n (encRow n w f)
def applyDcPrediction (w h : Nat) (f : Arr) : Arr := encRows w h f

/-- (15.5) offset / remove offset, (15.5) clip, for a component of bit depth `d` -/
def half (d : Nat) : Int := 2 ^ (d - 1)
def offsetSample (d : Nat) (v : Int) : Int := v + half d
def removeOffsetSample (d : Nat) (v : Int) : Int := v - half d
def clipSample (d : Nat) (v : Int) : Int := VC2.Gen.clip v (-(half d)) (half d - 1)

end VC2.Model.Picture
