/- Line-protocol front end for the fixeddict model (`fd` lines). -/
import VC2.Model.FixedDict
namespace VC2.Model.FixedDict
open VC2

def parseKvs (s : String) : Option Items :=
  if s = "-" then some [] else
  (s.splitOn ",").mapM fun kv => match kv.splitOn "=" with
    | [k, v] => v.toInt?.map (k, ·)
    | _ => none

def showItems (it : Items) : String :=
  if it.isEmpty then "-" else ",".intercalate (it.map fun kv => s!"{kv.1}={kv.2}")

def errStr : Option Err → String
  | none => "ok"
  | some (.fixedDictKeyError k) => s!"ERR:{k}"

/-- `fd <iorGuarded 0/1> <declared,…> <op>…`; ops `N:kvs S:k=v D:k=v U:kvs I:kvs C P K` -/
def handleFd (ws : List String) : String :=
  match ws with
  | g :: decl :: ops =>
    let declared := decl.splitOn ","
    let guarded := g == "1"
    let (outs, _) := ops.foldl (fun (st : List String × FD) op =>
      let d := st.2
      let arg := (op.drop 2).toString
      match op.front, parseKvs arg with
      | 'N', some kvs => match FD.new declared kvs with
        | .ok d' => ("ok" :: st.1, d')
        | .error e => (errStr (some e) :: st.1, d)
      | 'S', some [(k, v)] => let r := d.apply guarded (.set k v); (errStr r.2 :: st.1, r.1)
      | 'D', some [(k, v)] => let r := d.apply guarded (.setdefault k v); (errStr r.2 :: st.1, r.1)
      | 'U', some kvs => let r := d.apply guarded (.update kvs); (errStr r.2 :: st.1, r.1)
      | 'I', some kvs => let r := d.apply guarded (.ior kvs); (errStr r.2 :: st.1, r.1)
      | 'C', _ => let r := d.apply guarded .copy; (errStr r.2 :: st.1, r.1)
      | 'P', _ => let r := d.apply guarded .pickle; (errStr r.2 :: st.1, r.1)
      | 'K', _ => (showItems d.items :: st.1, d)
      | _, _ => ("bad-op" :: st.1, d)) ([], { declared := declared, items := [] })
    " ".intercalate outs.reverse
  | _ => "bad-op"

end VC2.Model.FixedDict
