/-
  Hand-written executable model of the stream-structure part of the validator:
    decoder/stream.py       parse_stream, parse_sequence, parse_info
    decoder/sequence_header.py  parse_parameters (version/profile/level bookkeeping), header identity
    decoder/picture_syntax.py   picture_header
    decoder/fragment_syntax.py  fragment_header, initialize_fragment_state, fragment_data (counting)
    decoder/assertions.py   picture-number, parse-code-sequence and major-version assertions
  over ABSTRACT data units that are individually valid.  Every `State` key that the code
  reads without a guard is an `Option` here and reading `none` is a `crash` (KeyError /
  UnboundLocalError) — so "never fails with any other exception" is a statement about the
  model, not an artefact of totalisation.  The order of checks is the order in the code.
  Uses the GENERATED parse-code tables, level patterns and version-implication kernels.
-/
import VC2.Model.SymRe
import VC2.Gen.Tables
import VC2.Gen.Kernels
namespace VC2.Model.Stream
open VC2 VC2.Model.SymRe

inductive Kind | seqHdr | picture | fragment | aux | padding | eos
  deriving Repr, DecidableEq, Inhabited

/-- an individually valid data unit, as far as stream structure can see it -/
structure DUnit where
  kind : Kind
  code : Nat            -- parse code byte
  len : Nat             -- true length in bytes (distance to the following parse_info)
  next : Nat            -- next_parse_offset field
  prev : Nat            -- previous_parse_offset field
  hdrId : Nat := 0      -- identity of the sequence header's bytes
  majorVersion : Nat := 0
  profile : Nat := 0
  pcm : Nat := 0        -- picture_coding_mode carried by this sequence header
  picNum : Nat := 0     -- picture_number (pictures and fragments)
  sliceCount : Nat := 0 -- fragment_slice_count
  fx : Nat := 0
  fy : Nat := 0
  deriving Repr, Inhabited

structure Config where
  slicesX : Nat
  slicesY : Nat
  levelPattern : Ast    -- the level's data-unit ordering pattern
  deriving Repr, Inhabited

inductive Verdict
  | ok
  | reject (cls : String)      -- a ConformanceError subclass
  | desync                     -- padding/auxiliary payload length desynchronised the parser (some ConformanceError)
  | crash (what : String)      -- KeyError / UnboundLocalError / AssertionError: NOT a conformance error
  deriving Repr, DecidableEq, Inhabited

structure VState where
  pos : Nat := 0
  lastPI : Option Nat := none            -- _last_parse_info_offset
  nextOff : Option Nat := none           -- next_parse_offset (absent before the first parse_info)
  generic : Matcher
  level : Option Matcher := none         -- _level_sequence_matcher
  profile : Option Nat := none
  majorVersion : Option Nat := none
  expectedVersion : Option Int := none   -- _expected_major_version
  lastHdr : Option Nat := none           -- _last_sequence_header_bytes
  pcm : Option Nat := none               -- picture_coding_mode
  lastPicNum : Option Nat := none        -- _last_picture_number
  numPics : Nat := 0                     -- _num_pictures_in_sequence
  fragRemaining : Nat := 0               -- _fragment_slices_remaining
  fragReceived : Option Nat := none      -- fragment_slices_received
  initFragOffset : Option Nat := none    -- _picture_initial_fragment_offset
  slicesX : Option Nat := none
  slicesY : Option Nat := none
  decoded : List Nat := []               -- picture numbers handed to picture_decode (oldest first)
  deriving Inhabited

def genericPattern : Ast :=
  .cat (.sym "sequence_header") (.cat (.star (.sym WILDCARD)) (.sym "end_of_sequence"))

/-- state at the start of every sequence (reset_state + the three assignments of parse_sequence) -/
def VState.fresh (pos : Nat) (decoded : List Nat) : VState :=
  { pos := pos, generic := Matcher.init false genericPattern, decoded := decoded }

def codeName (code : Nat) : String := ((VC2.Gen.parseCodeNames.find? (·.1 == code)).map (·.2)).getD "?"

def isPicture (code : Nat) : Bool := VC2.Gen.is_picture { parse_code := code }
def isFragment (code : Nat) : Bool := VC2.Gen.is_fragment { parse_code := code }

/-- what the validator can raise -/
inductive Err
  | reject (cls : String)      -- a ConformanceError subclass
  | crash (what : String)      -- KeyError / UnboundLocalError / AssertionError / …
  deriving Repr, DecidableEq, Inhabited

def Err.toVerdict : Err → Verdict
  | .reject c => .reject c
  | .crash w => .crash w

abbrev M := Except Err

def rej {α : Type} (cls : String) : M α := .error (.reject cls)
def crash {α : Type} (what : String) : M α := .error (.crash what)

/-- raise the conformance error `cls` when `c` holds -/
def guardRej (c : Bool) (cls : String) : M Unit := if c then rej cls else pure ()

/-- read a `State` key: `none` = KeyError (or an unbound local) -/
def getOrCrash {α : Type} (x : Option α) (what : String) : M α :=
  match x with
  | some v => pure v
  | none => crash what

/-- `assert_parse_code_in_sequence` -/
def matchOrRej (m : Matcher) (name : String) (cls : String) : M Matcher :=
  match m.matchSymbol name with
  | some g => pure g
  | none => rej cls

def profileAllows (p : Nat) (code : Nat) : Bool :=
  (((VC2.Gen.profileAllowedCodes.find? (·.1 == p)).map (·.2)).getD []).contains code

/-- the check of the previous unit's next_parse_offset at the top of `parse_info` -/
def checkLastNext (s : VState) : M Unit :=
  match s.nextOff with
  | some n =>
    if n = 0 then pure ()
    else do
      let last ← getOrCrash s.lastPI "TypeError"
      guardRej (decide (n ≠ s.pos - last)) "InconsistentNextParseOffset"
  | none => pure ()

def levelStep (lvl : Option Matcher) (name : String) : M (Option Matcher) :=
  match lvl with
  | some lm => do let l ← matchOrRej lm name "LevelInvalidSequence"; pure (some l)
  | none => pure none

/-- `parse_info` (10.5.1) with all of its "not in spec" checks, in order -/
def parseInfo (s : VState) (u : DUnit) : M VState := do
  checkLastNext s
  -- (prefix and parse-code-in-enum checks: the unit is individually valid)
  let generic ← matchOrRej s.generic (codeName u.code) "GenericInvalidSequence"
  let level ← levelStep s.level (codeName u.code)
  guardRej (match s.profile with | some p => !profileAllows p u.code | none => false)
    "ParseCodeNotAllowedInProfile"
  let minReq := VC2.Gen.parse_code_version_implication u.code
  let mv : Int := (s.majorVersion.map (fun (v : Nat) => (v : Int))).getD VC2.Gen.MINIMUM_MAJOR_VERSION
  guardRej (decide (mv < minReq)) "ParseCodeNotSupportedByVersion"
  let expected := pymax (s.expectedVersion.getD VC2.Gen.MINIMUM_MAJOR_VERSION) minReq
  guardRej (u.code == 0x10 && u.next != 0) "NonZeroNextParseOffsetAtEndOfSequence"
  guardRej (u.code != 0x10 && !(isPicture u.code || isFragment u.code) && u.next == 0) "MissingNextParseOffset"
  guardRej (decide (1 ≤ u.next ∧ u.next < 13)) "InvalidNextParseOffset"
  guardRej (match s.lastPI with | none => u.prev != 0 | some _ => false)
    "NonZeroPreviousParseOffsetAtStartOfSequence"
  guardRej (match s.lastPI with | none => false | some last => u.prev != s.pos - last)
    "InconsistentPreviousParseOffset"
  pure { s with generic := generic, level := level, expectedVersion := some expected,
                nextOff := some u.next, lastPI := some s.pos }

/-- `assert_picture_number_incremented_as_expected` -/
def pictureNumberCheck (s : VState) (n : Nat) : M VState := do
  guardRej (match s.lastPicNum with | some last => n != (last + 1) % 4294967296 | none => false)
    "NonConsecutivePictureNumbers"
  let pcm ← getOrCrash s.pcm "KeyError:picture_coding_mode"
  guardRej (pcm == 1 && s.numPics % 2 == 0 && n % 2 != 0) "EarliestFieldHasOddPictureNumber"
  pure { s with lastPicNum := some n, numPics := s.numPics + 1 }

/-- `if "_level_sequence_matcher" not in state:` create it and feed it the sequence header -/
def levelInit (cfg : Config) (lvl : Option Matcher) : M Matcher :=
  match lvl with
  | some lm => pure lm
  | none => getOrCrash ((Matcher.init false cfg.levelPattern).matchSymbol "sequence_header") "AssertionError"

/-- `parse_parameters` and the byte-for-byte comparison at the end of `sequence_header` -/
def headerPayload (cfg : Config) (s : VState) (u : DUnit) : M VState := do
  let minReq := VC2.Gen.profile_version_implication u.profile
  guardRej (decide ((u.majorVersion : Int) < minReq)) "ProfileNotSupportedByVersion"
  let expected := pymax (s.expectedVersion.getD VC2.Gen.MINIMUM_MAJOR_VERSION) minReq
  let level ← levelInit cfg s.level
  guardRej (match s.lastHdr with | some h => h != u.hdrId | none => false) "SequenceHeaderChangedMidSequence"
  pure { s with majorVersion := some u.majorVersion, profile := some u.profile,
                expectedVersion := some expected, level := some level, pcm := some u.pcm,
                lastHdr := some u.hdrId }

/-- `fragment_header` + `fragment_data` for a fragment that carries slices -/
def dataFragment (s : VState) (u : DUnit) : M VState := do
  -- no fragmented picture in progress: every slice is one too many (uses `.get` fallbacks)
  guardRej (s.fragRemaining == 0) "TooManySlicesInFragmentedPicture"
  let last ← getOrCrash s.lastPicNum "KeyError:_last_picture_number"
  guardRej (last != u.picNum) "PictureNumberChangedMidFragmentedPicture"
  if u.sliceCount > s.fragRemaining then do
    let _ ← getOrCrash s.initFragOffset "KeyError:_picture_initial_fragment_offset"
    let _ ← getOrCrash s.fragReceived "KeyError:fragment_slices_received"
    rej "TooManySlicesInFragmentedPicture"
  else do
    let received ← getOrCrash s.fragReceived "KeyError:fragment_slices_received"
    let sx ← getOrCrash s.slicesX "KeyError:slices_x"
    if sx = 0 then crash "ZeroDivisionError"
    else if u.fx != received % sx || u.fy != received / sx then do
      let _ ← getOrCrash s.initFragOffset "KeyError:_picture_initial_fragment_offset"
      rej "FragmentSlicesNotContiguous"
    else
      let received' := received + u.sliceCount
      let done := decide (received' = sx * (s.slicesY.getD 0))
      pure { s with fragReceived := some received', fragRemaining := s.fragRemaining - u.sliceCount,
                    decoded := if done then s.decoded ++ [u.picNum] else s.decoded }

/-- the payload of one data unit (after its parse_info) -/
def payload (cfg : Config) (s : VState) (u : DUnit) : M VState :=
  match u.kind with
  | .seqHdr => headerPayload cfg s u
  | .picture => do
    guardRej (s.fragRemaining != 0) "PictureInterleavedWithFragmentedPicture"
    let s ← pictureNumberCheck s u.picNum
    pure { s with slicesX := some cfg.slicesX, slicesY := some cfg.slicesY,
                  decoded := s.decoded ++ [u.picNum] }
  | .fragment =>
    if u.sliceCount = 0 then do
      guardRej (s.fragRemaining != 0) "FragmentedPictureRestarted"
      let s ← pictureNumberCheck s u.picNum
      -- transform_parameters + initialize_fragment_state
      pure { s with initFragOffset := some s.pos, slicesX := some cfg.slicesX, slicesY := some cfg.slicesY,
                    fragReceived := some 0, fragRemaining := cfg.slicesX * cfg.slicesY }
    else dataFragment s u
  | .aux | .padding => pure s
  | .eos => pure s

/-- the checks of `parse_sequence` once the end-of-sequence parse_info has been read -/
def endOfSequence (s : VState) : M Unit := do
  guardRej (!s.generic.isComplete) "GenericInvalidSequence"
  guardRej (match s.level with | some lm => !lm.isComplete | none => false) "LevelInvalidSequence"
  guardRej (s.fragRemaining != 0) "SequenceContainsIncompleteFragmentedPicture"
  let pcm ← getOrCrash s.pcm "KeyError:picture_coding_mode"
  guardRej (pcm == 1 && s.numPics % 2 != 0) "OddNumberOfFieldsInSequence"
  let mv ← getOrCrash s.majorVersion "KeyError:major_version"
  guardRej (!(s.numPics == 0 && mv == 3) &&
      decide ((mv : Int) > s.expectedVersion.getD VC2.Gen.MINIMUM_MAJOR_VERSION)) "MajorVersionTooHigh"

/-- `parse_stream`: sequences back to back; returns the verdict and the decoded picture numbers -/
def run (cfg : Config) : VState → List DUnit → Verdict × List Nat
  | s, [] =>
    -- end of file: fine between sequences; inside one, `parse_info` is entered once more: its check of the previous
    -- unit's next_parse_offset comes first, then the prefix cannot be read (UnexpectedEndOfStream)
    if s.lastPI.isNone then (.ok, s.decoded)
    else match checkLastNext s with
      | .error v => (v.toVerdict, s.decoded)
      | .ok () => (.reject "UnexpectedEndOfStream", s.decoded)
  | s, u :: rest =>
    match parseInfo s u with
    | .error v => (v.toVerdict, s.decoded)
    | .ok s1 =>
      if u.kind = .eos then
        match endOfSequence s1 with
        | .error v => (v.toVerdict, s1.decoded)
        | .ok () => run cfg (VState.fresh (s.pos + u.len) s1.decoded) rest
      else if (u.kind = .aux ∨ u.kind = .padding) ∧ u.next ≠ u.len then
        -- the payload loop reads next_parse_offset − 13 bytes, not the true payload
        (.desync, s1.decoded)
      else
        match payload cfg s1 u with
        | .error v => (v.toVerdict, s1.decoded)
        | .ok s2 => run cfg { s2 with pos := s.pos + u.len } rest

def validate (cfg : Config) (us : List DUnit) : Verdict × List Nat := run cfg (VState.fresh 0 []) us

end VC2.Model.Stream
