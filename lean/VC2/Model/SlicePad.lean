/-
  Hand-written executable model of the slice-padding fillers of test_cases/decoder/pictures.py:
    generate_filled_padding, fill_ld_slice_padding, fill_hq_slice_padding
  (the length bookkeeping and the padding bit pattern; the transform values are forced to zero by
  the real code and enter here only as the NUMBER of zero coefficients).
  Built on the GENERATED kernel intlog2.
-/
import VC2.Gen.Kernels
namespace VC2.Model.SlicePad
open VC2 VC2.Gen

/-- the 8 bits of a byte, most significant first (`bitarray.frombytes`) -/
def byteBits (b : Nat) : List Bool := (List.range 8).map (fun i => (b / 2 ^ (7 - i)) % 2 == 1)

/-- `generate_filled_padding(padding_length_bits, filler, byte_align)` for `padding_length_bits ≥ 0`
    (the callers guard with `padding_bits > 0`) -/
def filledPadding (n : Nat) (filler : List Nat) (byteAlign : Int) : List Bool :=
  let alignBits := (pymod (8 - pymod byteAlign 8) 8).toNat
  let requiredBytes := pydiv ((n : Int) - alignBits + 7) 8
  let repeats := (pydiv (requiredBytes + filler.length - 1) filler.length).toNat
  let body := ((List.replicate repeats filler).flatten).flatMap byteBits
  (List.replicate alignBits false ++ body).take n

structure LdFill where
  yLen : Int
  padding : List Bool
  deriving Repr, DecidableEq

/-- `fill_ld_slice_padding`: `sliceBytes = slice_bytes(state, sx, sy)`, `luma` = the component is "Y",
    `zeros` = number of coefficients of that component (each forced to 0 = one bit) -/
def ldFill (sliceBytes : Int) (luma : Bool) (zeros : Nat) (filler : List Nat) (byteAlign : Bool) : LdFill :=
  let dataBits0 := 8 * sliceBytes - 7
  let lengthFieldBits := intlog2 dataBits0
  let dataBits := dataBits0 - lengthFieldBits
  let yLen := if luma then pymin dataBits (2 ^ lengthFieldBits.toNat - 1) else 0
  let componentBits := if luma then yLen else dataBits
  let paddingBits := componentBits - zeros
  let start := 7 + lengthFieldBits
  { yLen, padding := if paddingBits > 0 then filledPadding paddingBits.toNat filler (if byteAlign then start else 0) else [] }

structure HqFill where
  yLen : Int
  c1Len : Int
  c2Len : Int
  padding : List Bool
  deriving Repr, DecidableEq

/-- `fill_hq_slice_padding`; `comp` is 0, 1, 2 for Y, C1, C2 -/
def hqFill (scaler y c1 c2 minLength : Int) (comp : Nat) (zeros : Nat) (filler : List Nat) (byteAlign : Bool) : HqFill :=
  let total := pymax minLength (y + c1 + c2)
  let paddingBits := total * scaler * 8 - zeros
  { yLen := if comp = 0 then total else 0, c1Len := if comp = 1 then total else 0, c2Len := if comp = 2 then total else 0,
    padding := if paddingBits > 0 then filledPadding paddingBits.toNat filler (if byteAlign then zeros else 0) else [] }

end VC2.Model.SlicePad
