/-
  Hand-written model of what the test-case generator's worker commands do to the output directory:
  each command performs a list of file writes (path ↦ contents); commands run in any order or
  concurrently, i.e. their writes are interleaved arbitrarily but each command's own writes keep
  their order.  (scripts/vc2_test_case_generator: cli.py output_*_test_cases, worker.py.)
  OS-level atomicity of a single write and hash-seed independence of the written CONTENTS cannot
  be expressed here; they are checked by experiment.
-/
namespace VC2.Model.WorkerFs

structure Event where
  cmd : Nat          -- which worker command performs the write
  path : String
  data : Nat         -- identity of the bytes written
  deriving Repr, DecidableEq, Inhabited

abbrev Fs := String → Option Nat

/-- one write -/
def write (fs : Fs) (e : Event) : Fs := fun p => if p = e.path then some e.data else fs p

/-- a schedule: the writes in the order they hit the file system -/
def run (fs : Fs) (events : List Event) : Fs := events.foldl write fs

/-- the writes of one command, in schedule order -/
def ofCmd (events : List Event) (c : Nat) : List Event := events.filter (·.cmd == c)

/-- no two commands write the same path -/
def PathsDisjoint (events : List Event) : Prop :=
  ∀ e1 ∈ events, ∀ e2 ∈ events, e1.path = e2.path → e1.cmd = e2.cmd

end VC2.Model.WorkerFs
