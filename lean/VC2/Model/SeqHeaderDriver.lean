/- Line-protocol front end for the sequence-header option model (`so` lines). -/
import VC2.Model.SeqHeader
namespace VC2.Model.SeqHeader

def csvInts (s : String) : Option (List Int) := if s == "-" then some [] else (s.splitOn ",").mapM (·.toInt?)
def csvNats (s : String) : Option (List Nat) := if s == "-" then some [] else (s.splitOn ",").mapM (·.toNat?)

def parsePresets (s : String) : Option (Option (List (Nat × List Int))) :=
  if s == "-" then some none else
  ((s.splitOn ";").mapM (fun (e : String) => match e.splitOn "=" with
    | [i, v] => do let i ← i.toNat?; let v ← csvInts v; pure (i, v)
    | _ => none)).map some

/-- split a word list at the "|" words -/
def splitBar (ws : List String) : List (List String) :=
  let r := ws.foldl (fun (acc : List (List String) × List String) w => if w == "|" then (acc.1 ++ [acc.2], []) else (acc.1, acc.2 ++ [w])) ([], [])
  r.1 ++ [r.2]

def showOpt : Opt → String
  | .off => "off"
  | .preset i => s!"p{i}"
  | .custom v => "c" ++ ",".intercalate (v.map toString)

def levelOfArgs (f0 f1 idx vals : String) : Level :=
  let idxOk : Nat → Bool := if idx == "*" then fun _ => true else
    match csvNats idx with | some l => fun i => l.contains i | none => fun _ => false
  let perParam := (vals.splitOn "/").map (fun v => if v == "*" then none else csvInts v)
  let valOk : Nat → Int → Bool := fun k x => match perParam.getD k none with
    | none => true
    | some l => l.contains x
  { flag := fun bb => if bb then f1 == "1" else f0 == "1", index := idxOk, value := valOk }

def subLevelOfArg (s : String) : Level :=
  match s.splitOn ":" with
  | [fl, v] =>
    let ok : Int → Bool := if v == "*" then fun _ => true else
      match csvInts v with | some l => fun x => l.contains x | none => fun _ => false
    { flag := fun bb => if bb then fl.toList.getD 1 '0' == '1' else fl.toList.getD 0 '0' == '1', index := fun _ => true,
      value := fun _ x => ok x }
  | _ => { flag := fun _ => false, index := fun _ => false, value := fun _ _ => false }

/-- one group of an `so S` line: `G base target presets f0 f1 idx vals` or `C base target presets f0 f1 idx pl ml tl` -/
def parseGroup (ws : List String) : Option Group :=
  match ws with
  | ["G", base, target, presets, f0, f1, idx, vals] =>
    match csvInts base, csvInts target, parsePresets presets with
    | some b, some t, some ps => some (.simple b t ps (levelOfArgs f0 f1 idx vals))
    | _, _, _ => none
  | ["C", base, target, presets, f0, f1, idx, pl, ml, tl] =>
    match csvInts base, csvInts target, parsePresets presets with
    | some b, some t, some (some ps) =>
      let idxOk : Nat → Bool := if idx == "*" then fun _ => true else
        match csvNats idx with | some l => fun i => l.contains i | none => fun _ => false
      some (.color b t ps { flag := fun bb => if bb then f1 == "1" else f0 == "1", index := idxOk,
                            prim := subLevelOfArg pl, mat := subLevelOfArg ml, tf := subLevelOfArg tl })
    | _, _, _ => none
  | _ => none

def showGOpt : GOpt → String
  | .simple o => showOpt o
  | .color .off => "off"
  | .color (.preset i) => s!"p{i}"
  | .color (.custom p m t) => "c" ++ showOpt p ++ "/" ++ showOpt m ++ "/" ++ showOpt t

/-- `so S <tff of the base format> <tff wanted> | <group> | <group> | …` → the rows of `iter_source_parameter_options` -/
def handleSoS (ws : List String) : String :=
  match ws with
  | tb :: tt :: "|" :: rest =>
    let parts := VC2.Model.SeqHeader.splitBar rest
    match parts.mapM parseGroup with
    | some groups =>
      let rows := iterSourceParameters (tb == "1") (tt == "1") groups
      if rows.isEmpty then "-" else " | ".intercalate (rows.map (fun r => " ".intercalate (r.map showGOpt)))
    | none => "bad-op"
  | _ => "bad-op"

/-- `so G <base> <target> <presets> <flagFalse 0/1> <flagTrue 0/1> <indices: * or csv> <values: per parameter * or csv, '/'-separated>`
    `so Z <csv> / <csv> / …` -/
def handleSo (ws : List String) : String :=
  match ws with
  | "S" :: rest => handleSoS rest
  | ["G", base, target, presets, f0, f1, idx, vals] =>
    match csvInts base, csvInts target, parsePresets presets with
    | some b, some t, some ps =>
      let idxOk : Nat → Bool := if idx == "*" then fun _ => true else
        match csvNats idx with | some l => fun i => l.contains i | none => fun _ => false
      let perParam := (vals.splitOn "/").map (fun v => if v == "*" then none else csvInts v)
      let valOk : Nat → Int → Bool := fun k x => match perParam.getD k none with
        | none => true
        | some l => l.contains x
      let L : Level := { flag := fun bb => if bb then f1 == "1" else f0 == "1", index := idxOk, value := valOk }
      let r := iterOptions b t ps L
      if r.isEmpty then "-" else " ".intercalate (r.map showOpt)
    | _, _, _ => "bad-op"
  | ["C", base, target, presets, f0, f1, idx, pl, ml, tl] =>
    -- colour specification: `pl`/`ml`/`tl` = "<f0><f1>:<allowed indices * or csv>" for primaries / matrix / transfer function
    let sub : String → Level := fun s =>
      match s.splitOn ":" with
      | [fl, v] =>
        let ok : Int → Bool := if v == "*" then fun _ => true else
          match csvInts v with | some l => fun x => l.contains x | none => fun _ => false
        { flag := fun bb => if bb then fl.toList.getD 1 '0' == '1' else fl.toList.getD 0 '0' == '1', index := fun _ => true,
          value := fun _ x => ok x }
      | _ => { flag := fun _ => false, index := fun _ => false, value := fun _ _ => false }
    match csvInts base, csvInts target, parsePresets presets with
    | some b, some t, some (some ps) =>
      let idxOk : Nat → Bool := if idx == "*" then fun _ => true else
        match csvNats idx with | some l => fun i => l.contains i | none => fun _ => false
      let L : CsLevel := { flag := fun bb => if bb then f1 == "1" else f0 == "1", index := idxOk, prim := sub pl, mat := sub ml, tf := sub tl }
      let r := iterColorSpec b t ps L
      if r.isEmpty then "-" else " ".intercalate (r.map (fun o => match o with
        | .off => "off"
        | .preset i => s!"p{i}"
        | .custom p m t => "c" ++ showOpt p ++ "/" ++ showOpt m ++ "/" ++ showOpt t))
    | _, _, _ => "bad-op"
  | "Z" :: rest =>
    let groups := (" ".intercalate rest).splitOn " / "
    let ls := groups.map (fun g => if g.trimAscii.toString == "-" then [] else (g.trimAscii.toString.splitOn ","))
    let rows := zipLongest ls
    if rows.isEmpty then "-" else
    " | ".intercalate (rows.map (fun r => " ".intercalate (r.map (fun o => match o with | some x => x | none => "None"))))
  | _ => "bad-op"

end VC2.Model.SeqHeader
