/-
  Hand-written executable model of the slice-size logic of encoder/pictures.py:
    calculate_coeffs_bits, calculate_hq_length_field, quantize_coeffs, quantize_to_fit,
    make_hq_slice (length fields), make_transform_data_hq_lossless (scaler and lengths),
    make_transform_data_hq_lossy, make_transform_data_ld_lossy (per-slice budget, qindex, lengths).
  Built on the GENERATED kernels forward_quant, signed_exp_golomb_length, slice_bytes, intlog2,
  get_safe_lossy_hq_slice_size_scaler.  The unbounded `for qindex in count(minimum)` loop has an
  explicit iteration budget (`fuel`); running out of it is a distinct outcome (`none`).
-/
import VC2.Gen.Kernels
namespace VC2.Model.SliceFit
open VC2 VC2.Gen

/-- `calculate_coeffs_bits`: trailing zeros are free (they are read back as 1-bits past the end) -/
def stripTrailingZeros (l : List Int) : List Int := (l.reverse.dropWhile (· == 0)).reverse
def coeffsBits (l : List Int) : Int := ((stripTrailingZeros l).map signed_exp_golomb_length).sum

/-- `calculate_hq_length_field` -/
def hqLengthField (coeffs : List Int) (scaler : Int) : Int :=
  pydiv (coeffsBits coeffs + 8 * scaler - 1) (8 * scaler)

structure Comp where
  vals : List Int
  qm : List Int
  deriving Repr, Inhabited

/-- `quantize_coeffs` -/
def quantizeCoeffs (q : Int) (c : Comp) : List Int :=
  List.zipWith (fun v m => forward_quant v (pymax 0 (q - m))) c.vals c.qm

/-- the `total_length` of `quantize_to_fit` for one candidate index -/
def totalLength (q : Int) (sets : List Comp) (align : Int) : Int :=
  (sets.map (fun c => pydiv (coeffsBits (quantizeCoeffs q c) + align - 1) align * align)).sum

def fits (target : Int) (sets : List Comp) (align : Int) (q : Int) : Bool :=
  decide (totalLength q sets align ≤ target)

/-- `quantize_to_fit`: the first index from `q` upwards that fits (at most `fuel` candidates) -/
def quantizeToFit (target : Int) (sets : List Comp) (align : Int) : Nat → Int → Option Int
  | 0, _ => none
  | fuel + 1, q => if fits target sets align q then some q else quantizeToFit target sets align fuel (q + 1)

structure SliceIn where
  y : Comp
  c1 : Comp
  c2 : Comp
  deriving Repr, Inhabited

structure HqSlice where
  qindex : Int
  yLen : Int
  c1Len : Int
  c2Len : Int
  deriving Repr, DecidableEq, Inhabited

/-- `make_transform_data_hq_lossless`: lengths at scaler 1, then the common scaler, then rescaling -/
def hqLossless (minScaler : Int) (slices : List SliceIn) : Int × List HqSlice :=
  let raw := slices.map (fun s => (hqLengthField s.y.vals 1, hqLengthField s.c1.vals 1, hqLengthField s.c2.vals 1))
  let maxLen := raw.foldl (fun m t => pymax m (pymax t.1 (pymax t.2.1 t.2.2))) 0
  let scaler := pymax 1 (pymax minScaler (pydiv (maxLen + 254) 255))
  (scaler, raw.map (fun t => { qindex := 0, yLen := pydiv (t.1 + scaler - 1) scaler,
                                c1Len := pydiv (t.2.1 + scaler - 1) scaler, c2Len := pydiv (t.2.2 + scaler - 1) scaler }))

/-- one slice of `make_transform_data_hq_lossy`; `totalLen` = slice_bytes of the slice -/
def hqLossySlice (fuel : Nat) (scaler minQ totalLen : Int) (s : SliceIn) : Option HqSlice :=
  match quantizeToFit (8 * scaler * totalLen) [s.y, s.c1, s.c2] (8 * scaler) fuel minQ with
  | none => none
  | some q =>
    let yl := hqLengthField (quantizeCoeffs q s.y) scaler
    let c1l := hqLengthField (quantizeCoeffs q s.c1) scaler
    some { qindex := q, yLen := yl, c1Len := c1l, c2Len := totalLen - yl - c1l }

def hqScaler (pictureBytes numSlices minScaler : Int) : Int :=
  pymax (get_safe_lossy_hq_slice_size_scaler pictureBytes numSlices) minScaler

def hqState (pictureBytes sx sy scaler : Int) : St :=
  { slices_x := sx, slice_bytes_numerator := pictureBytes - sx * sy * 4, slice_bytes_denominator := sx * sy * scaler }

/-- `make_transform_data_hq_lossy` (slices in raster order); `none` = InsufficientHQPictureBytesError -/
def hqLossy (fuel : Nat) (pictureBytes minQ minScaler : Int) (sx sy : Nat) (slices : List SliceIn) :
    Option (Int × List (Option HqSlice)) :=
  let n : Int := sx * sy
  if pictureBytes - n * 4 < 0 then none else
  let scaler := hqScaler pictureBytes n minScaler
  let st := hqState pictureBytes sx sy scaler
  some (scaler, (List.range (sx * sy)).zipWith (fun i s =>
    hqLossySlice fuel scaler minQ (slice_bytes st ((i % sx : Nat) : Int) ((i / sx : Nat) : Int)) s) slices)

def interleave : List Int → List Int → List Int
  | a :: as, b :: bs => a :: b :: interleave as bs
  | _, _ => []

/-- one slice of `make_transform_data_ld_lossy`: (qindex, slice_y_length); `none` =
    InsufficientLDPictureBytesError or the iteration budget ran out -/
def ldLossySlice (fuel : Nat) (minQ sliceBytes : Int) (s : SliceIn) : Option (Int × Int) :=
  let t := 8 * sliceBytes - 7
  let target := t - intlog2 t
  if target < 0 then none else
  let c : Comp := { vals := interleave s.c1.vals s.c2.vals, qm := interleave s.c1.qm s.c2.qm }
  match quantizeToFit target [s.y, c] 1 fuel minQ with
  | none => none
  | some q => some (q, coeffsBits (quantizeCoeffs q s.y))

def ldState (pictureBytes sx sy : Int) : St :=
  { slices_x := sx, slice_bytes_numerator := pictureBytes, slice_bytes_denominator := sx * sy }

end VC2.Model.SliceFit
