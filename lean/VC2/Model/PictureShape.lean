/-
  Hand-written executable model of the SHAPE and RANGE logic of the five synthetic picture generators
  (picture_generators.py: moving_sprite, static_sprite, linear_ramps, mid_gray, white_noise), of the
  pipeline they are piped through (progressive_to_pictures → xyz_to_native → from_xyz → from_444 →
  float_to_int_clipped) and of the numpy array operations these use, as far as array SIZES go:

    * `a[lo:hi]` and `a[first::2]` slice lengths,
    * assignment `dst[...] = src` / `dst += src`: per axis the lengths are equal or the source has
      length 1 (broadcast); anything else is numpy's ValueError = `none`,
    * np.repeat / np.zeros / np.empty shapes.

  A picture is represented by the (rows, columns) of its three components.  The floating-point colour
  arithmetic is NOT modelled: whatever it computes is rounded and then clipped by `clipToDepth`
  (PictureGen.lean), and for mid_gray / white_noise the sample values are integer expressions that are
  modelled exactly (`midGrayValue`, `noiseBound`).

  The coded size the output has to have is the GENERATED translation of the pseudocode's
  picture_dimensions (VC2.Gen.picture_dimensions) - the function compute_dimensions_and_depths calls.
-/
import VC2.Model.PictureGen
namespace VC2.Model.PictureShape
open VC2 VC2.Model.PictureGen

/-- length of `a[lo:hi]` on an axis of length `n` (non-negative bounds) -/
def sliceLen (n lo hi : Nat) : Nat := min hi n - min lo n

/-- numpy can store a source axis of length `src` into a destination axis of length `dst` -/
def assignable (dst src : Nat) : Bool := dst == src || src == 1

/-- a video format as far as the generators' sizes go -/
structure Fmt where
  width : Nat
  height : Nat
  cdf : Nat            -- color_diff_format_index: 0 = 4:4:4, 1 = 4:2:2, 2 = 4:2:0
  interlaced : Bool    -- source_sampling
  fields : Bool        -- picture_coding_mode = pictures_are_fields
  tff : Bool           -- top_field_first
  parNumer : Nat := 1  -- pixel aspect ratio
  parDenom : Nat := 1
  deriving Repr, DecidableEq, Inhabited

/-- (rows, columns) -/
abbrev Shape := Nat × Nat

/-- the three component shapes of a picture -/
structure PicShape where
  y : Shape
  c1 : Shape
  c2 : Shape
  deriving Repr, DecidableEq, Inhabited

/-! ### the sprite -/

/-- `read_and_adapt_pointer_sprite`: the 128×128 sprite, made square under the pixel aspect ratio;
    PIL refuses to resize to an empty image (`none`) -/
def spriteShape (f : Fmt) : Option Shape :=
  if f.parNumer ≠ f.parDenom then
    let w := 128 * f.parDenom / f.parNumer
    if w = 0 then none else some (128, w)
  else some (128, 128)

/-- the blit `picture[:sh, px:px+sw, :] = sprite[:sh, sx:sx+sw, :]` into a fresh frame_height × frame_width frame:
    the frame's shape, or `none` when numpy rejects the assignment -/
def blit (f : Fmt) (sprite : Shape) (sh px sx sw : Nat) : Option Shape :=
  let dstRows := sliceLen f.height 0 sh
  let dstCols := sliceLen f.width px (px + sw)
  let srcRows := sliceLen sprite.1 0 sh
  let srcCols := sliceLen sprite.2 sx (sx + sw)
  if assignable dstRows srcRows && assignable dstCols srcCols then some (f.height, f.width) else none

/-- one sample of `moving_sprite` at horizontal position `px ≥ 0` -/
def movingFrame (f : Fmt) (sprite : Shape) (px : Nat) : Option Shape :=
  let sw := min f.width sprite.2
  let sh := min f.height sprite.1
  -- `if px < 0` never holds; clip at the right edge, `sw = max(0, sw)`
  let sw := if px + sw > f.width then f.width - px else sw   -- `max(0, frame_width - px)`
  blit f sprite sh px 0 sw

/-- `moving_sprite`: `num_frames` frames' worth of samples, 16 (or 8, per field) pixels apart -/
def movingSpriteFrames (f : Fmt) (numFrames : Nat) : Option (List Shape) :=
  match spriteShape f with
  | none => none
  | some sprite =>
    let n := framesToSamples f.interlaced numFrames
    let step := 16 / (if f.interlaced then 2 else 1)
    (List.range n).mapM (fun k => movingFrame f sprite (k * step))

/-- `static_sprite`: one frame, yielded twice for interlaced sources -/
def staticSpriteFrames (f : Fmt) : Option (List Shape) :=
  match spriteShape f with
  | none => none
  | some sprite =>
    let sw := min f.width sprite.2
    let sh := min f.height sprite.1
    (blit f sprite sh 0 0 sw).map (fun s => List.replicate (framesToSamples f.interlaced 1) s)

/-- `linear_ramps`: four bands, each repeated `(height + 3) // 4` times, cut to `height` rows -/
def linearRampsFrames (f : Fmt) : List Shape :=
  List.replicate (framesToSamples f.interlaced 1) (sliceLen (4 * ((f.height + 3) / 4)) 0 f.height, f.width)

/-! ### frames → pictures → native components -/

/-- `progressive_to_pictures` on frames that all have the frame's width (row slicing keeps the
    columns; `interleave_fields` allocates `top.shape[1]` columns) -/
def framesToPictures (f : Fmt) (frames : List Shape) : Option (List Shape) :=
  (toPictures f.fields f.interlaced f.tff (frames.map (·.1))).map (fun hs => hs.map (fun h => (h, f.width)))

/-- `from_444` on a rows × cols chroma plane -/
def from444 (cdf : Nat) (s : Shape) : Option Shape :=
  let (h, w) := s
  if cdf = 0 then some (h, w)
  else if cdf = 1 then
    -- new = empty(h, w//2); new[:, :] = chroma[:, 0::2]; new += chroma[:, 1::2]
    if assignable (w / 2) (everyOther w 0) && assignable (w / 2) (everyOther w 1) then some (h, w / 2) else none
  else if cdf = 2 then
    let okRows := assignable (h / 2) (everyOther h 0) && assignable (h / 2) (everyOther h 1)
    let okCols := assignable (w / 2) (everyOther w 0) && assignable (w / 2) (everyOther w 1)
    if okRows && okCols then some (h / 2, w / 2) else none
  else none   -- (the function falls off its end: None, and float_to_int then fails)

/-- `from_xyz`: luma keeps the picture's shape, both colour-difference planes are subsampled -/
def toNative (f : Fmt) (s : Shape) : Option PicShape :=
  (from444 f.cdf s).map (fun c => { y := s, c1 := c, c2 := c })

/-- a piped generator: frames → pictures → components (`none` = an exception somewhere) -/
def pipeline (f : Fmt) (frames : Option (List Shape)) : Option (List PicShape) :=
  frames.bind (fun fr => (framesToPictures f fr).bind (fun ps => ps.mapM (toNative f)))

/-! ### the coded size (generated picture_dimensions) -/

def codedState (f : Fmt) : VC2.Gen.St :=
  VC2.Gen.picture_dimensions { (default : VC2.Gen.St) with picture_coding_mode := if f.fields then 1 else 0 }
    { (default : VC2.Gen.VP) with frame_width := f.width, frame_height := f.height, color_diff_format_index := f.cdf }

/-- what `compute_dimensions_and_depths` reports -/
def codedShape (f : Fmt) : PicShape :=
  let st := codedState f
  let c : Shape := (st.color_diff_height.toNat, st.color_diff_width.toNat)
  { y := (st.luma_height.toNat, st.luma_width.toNat), c1 := c, c2 := c }

/-! ### the five generators -/

inductive Generator where
  | movingSprite (numFrames : Nat)
  | staticSprite
  | linearRamps
  | midGray
  | whiteNoise (numFrames : Nat)
  deriving Repr, DecidableEq

/-- how many frames' worth of samples a generator draws (`num_frames`; one for the still generators) -/
def framesDrawn : Generator → Nat
  | .movingSprite n => n
  | .whiteNoise n => n
  | _ => 1

/-- the component shapes of every picture a generator yields, in order -/
def generate (g : Generator) (f : Fmt) : Option (List PicShape) :=
  match g with
  | .movingSprite n => pipeline f (movingSpriteFrames f n)
  | .staticSprite => pipeline f (staticSpriteFrames f)
  | .linearRamps => pipeline f (some (linearRampsFrames f))
  -- these two build their arrays from compute_dimensions_and_depths directly
  | .midGray => some (List.replicate (if f.fields then 2 else 1) (codedShape f))
  | .whiteNoise n => some (List.replicate (if f.fields then n * 2 else n) (codedShape f))

/-- the picture numbers attached to the `n` pictures: xyz_to_native enumerates, white_noise counts
    `range(num_pictures)`, mid_gray writes 0 (and 1) out by hand -/
def picNumbers (g : Generator) (f : Fmt) (n : Nat) : List Nat :=
  match g with
  | .midGray => if f.fields then [0, 1] else [0]
  | _ => List.range n

/-! ### sample values of the two integer generators -/

/-- `video_depth`: the component's bit depth from its excursion (generated intlog2) -/
def depthOf (excursion : Nat) : Int := VC2.Gen.intlog2 ((excursion : Int) + 1)

/-- mid_gray's sample `1 << (depth_bits - 1)`; Python raises for a negative shift count -/
def midGrayValue (depth : Int) : Option Int := if depth < 1 then none else some (2 ^ (depth - 1).toNat)

/-- white_noise draws from `randint(0, 1 << depth_bits)`: the half-open upper bound -/
def noiseBound (depth : Int) : Int := 2 ^ depth.toNat

/-- the property's regularity condition -/
def Regular (f : Fmt) : Prop :=
  f.cdf ≤ 2 ∧
  f.width % (if f.cdf = 0 then 1 else 2) = 0 ∧
  f.height % ((if f.cdf = 2 then 2 else 1) * (if f.interlaced || f.fields then 2 else 1)) = 0

instance (f : Fmt) : Decidable (Regular f) := by unfold Regular; infer_instance

end VC2.Model.PictureShape
