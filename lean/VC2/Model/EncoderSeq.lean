/-
  Hand-written executable model of the fragment layout produced by
  encoder/pictures.py make_fragment_parse_data_units: a first fragment without slices, then the
  slices in raster order in groups of `fragment_slice_count`.  (Closed form of the encoder's
  counter loop; tied to the code by exact comparison of the fragment headers.)
-/
namespace VC2.Model.EncoderSeq

/-- (fragment_slice_count, fragment_x_offset, fragment_y_offset) of the slice-bearing fragments
    starting at slice number `start`; `fuel` bounds the number of fragments -/
def fragsFrom (sx n fc : Nat) : Nat → Nat → List (Nat × Nat × Nat)
  | 0, _ => []
  | fuel + 1, start =>
    if start < n then (min fc (n - start), start % sx, start / sx) :: fragsFrom sx n fc fuel (start + fc) else []

/-- all fragments of one picture: the first has no slices -/
def fragmentLayout (sx sy fc : Nat) : List (Nat × Nat × Nat) :=
  (0, 0, 0) :: fragsFrom sx (sx * sy) fc (sx * sy) 0

end VC2.Model.EncoderSeq
