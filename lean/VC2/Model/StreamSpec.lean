/-
  The stream-structure RULES of C01, written down independently of the validator's mechanics:
  no byte positions, no optional state keys, no exception classes, no order of checks — only
  what the standard's rules say about a history of individually valid data units.  Executable
  (`conformant`), so that it can be (a) proved equivalent to the validator model `Stream.validate`
  (VC2/Proofs/StreamSpec.lean) and (b) compared with the Python reference acceptor that the C01
  failing-input search uses as its oracle (`vs` line protocol: `cs …`).
-/
import VC2.Model.Stream
namespace VC2.Model.StreamSpec
open VC2 VC2.Model.SymRe VC2.Model.Stream

/-- what the rules need to remember inside a sequence -/
structure Ctx where
  hdr : DUnit                      -- the sequence header that opened the sequence
  prevLen : Nat                    -- length of the previous data unit
  prevNext : Nat                   -- its next_parse_offset
  lastNum : Option Nat := none     -- last picture number
  npics : Nat := 0                 -- pictures (or fields) so far
  frag : Option (Nat × Nat) := none  -- open fragmented picture: (picture number, slices received)
  need : Int                       -- least major_version the units so far require
  generic : Matcher                -- progress through `sequence_header .* end_of_sequence`
  level : Matcher                  -- progress through the level's ordering pattern
  deriving Inhabited

def codeNeed (code : Nat) : Int := VC2.Gen.parse_code_version_implication code
def profileNeed (profile : Nat) : Int := VC2.Gen.profile_version_implication profile

/-- the previous unit's next_parse_offset is absent (0) or points exactly at this unit -/
def pendingOk (c : Ctx) : Bool := c.prevNext == 0 || c.prevNext == c.prevLen

/-- what a unit's own next_parse_offset must look like at the moment it is read -/
def immediateNext (u : DUnit) : Bool :=
  match u.kind with
  | .eos => u.next == 0
  | .picture | .fragment => u.next == 0 || decide (13 ≤ u.next)
  | .aux | .padding => u.next == u.len
  | .seqHdr => decide (13 ≤ u.next)

/-- consecutive picture numbers (mod 2^32); in field coding the first field of a frame is even -/
def numberOk (c : Ctx) (n : Nat) : Bool :=
  (match c.lastNum with | some last => n == (last + 1) % 4294967296 | none => true) &&
  !(c.hdr.pcm == 1 && c.npics % 2 == 0 && n % 2 != 0)

/-- pictures and fragments -/
def pictureOk (cfg : Config) (c : Ctx) (u : DUnit) : Bool :=
  match u.kind with
  | .picture => c.frag.isNone && numberOk c u.picNum
  | .fragment =>
    if u.sliceCount = 0 then c.frag.isNone && numberOk c u.picNum
    else match c.frag with
      | none => false
      | some (num, got) =>
        u.picNum == num && decide (got + u.sliceCount ≤ cfg.slicesX * cfg.slicesY) &&
        u.fx == got % cfg.slicesX && u.fy == got / cfg.slicesX
  | _ => true

/-- the rules for every data unit after the first of its sequence -/
def unitOk (cfg : Config) (c : Ctx) (u : DUnit) : Bool :=
  pendingOk c && u.prev == c.prevLen && immediateNext u &&
  profileAllows c.hdr.profile u.code && decide (codeNeed u.code ≤ (c.hdr.majorVersion : Int)) &&
  (u.kind != .seqHdr || u.hdrId == c.hdr.hdrId) &&
  pictureOk cfg c u

def nextFrag (cfg : Config) (c : Ctx) (u : DUnit) : Option (Nat × Nat) :=
  match u.kind with
  | .fragment =>
    if u.sliceCount = 0 then (if cfg.slicesX * cfg.slicesY = 0 then none else some (u.picNum, 0))
    else match c.frag with
      | none => none
      | some (num, got) => if got + u.sliceCount = cfg.slicesX * cfg.slicesY then none else some (num, got + u.sliceCount)
  | _ => c.frag

def startsPicture (u : DUnit) : Bool := u.kind == .picture || (u.kind == .fragment && u.sliceCount == 0)

def nextCtx (cfg : Config) (c : Ctx) (u : DUnit) (g l : Matcher) : Ctx :=
  { c with prevLen := u.len, prevNext := u.next, generic := g, level := l,
           need := pymax c.need (codeNeed u.code),
           lastNum := if startsPicture u then some u.picNum else c.lastNum,
           npics := if startsPicture u then c.npics + 1 else c.npics,
           frag := nextFrag cfg c u }

/-- the rules at the end of a sequence -/
def endOk (c : Ctx) : Bool :=
  c.generic.isComplete && c.level.isComplete && c.frag.isNone &&
  !(c.hdr.pcm == 1 && c.npics % 2 != 0) &&
  ((c.npics == 0 && c.hdr.majorVersion == 3) || decide ((c.hdr.majorVersion : Int) ≤ c.need))

/-- the first data unit of a sequence -/
def headOk (u : DUnit) : Bool :=
  u.kind == .seqHdr && u.prev == 0 && decide (13 ≤ u.next) && decide (profileNeed u.profile ≤ (u.majorVersion : Int))

def firstCtx (u : DUnit) (g l : Matcher) : Ctx :=
  { hdr := u, prevLen := u.len, prevNext := u.next, generic := g, level := l,
    need := pymax (pymax VC2.Gen.MINIMUM_MAJOR_VERSION (codeNeed u.code)) (profileNeed u.profile) }

/-- a whole stream: sequences back to back (`none` = between sequences) -/
def specRun (cfg : Config) : Option Ctx → List DUnit → Bool
  | none, [] => true
  | some _, [] => false
  | none, u :: rest =>
    match (Matcher.init false genericPattern).matchSymbol (codeName u.code),
          (Matcher.init false cfg.levelPattern).matchSymbol (codeName u.code) with
    | some g, some l => headOk u && specRun cfg (some (firstCtx u g l)) rest
    | _, _ => false
  | some c, u :: rest =>
    match c.generic.matchSymbol (codeName u.code), c.level.matchSymbol (codeName u.code) with
    | some g, some l =>
      unitOk cfg c u &&
      (if u.kind = .eos then endOk (nextCtx cfg c u g l) && specRun cfg none rest
       else specRun cfg (some (nextCtx cfg c u g l)) rest)
    | _, _ => false

def conformant (cfg : Config) (us : List DUnit) : Bool := specRun cfg none us

/-- the kind a parse code is dispatched as -/
def kindOfCode (code : Nat) : Option Kind :=
  if code = 0 then some .seqHdr else if code = 16 then some .eos else if code = 32 then some .aux
  else if code = 48 then some .padding else if code = 200 ∨ code = 232 then some .picture
  else if code = 204 ∨ code = 236 then some .fragment else none

/-- "individually valid" as far as the stream structure can see it -/
def unitWF (u : DUnit) : Bool := kindOfCode u.code == some u.kind && decide (13 ≤ u.len)

/-- byte-identical sequence headers carry the same parameters -/
def hdrAgree (u v : DUnit) : Bool :=
  !(u.kind == .seqHdr && v.kind == .seqHdr && u.hdrId == v.hdrId) ||
  (u.profile == v.profile && u.majorVersion == v.majorVersion && u.pcm == v.pcm)

/-- … within each sequence (the first unit of a sequence is the reference) -/
def hdrsAgree : Option DUnit → List DUnit → Bool
  | _, [] => true
  | none, u :: rest => hdrsAgree (if u.kind = .eos then none else some u) rest
  | some h, u :: rest => hdrAgree h u && hdrsAgree (if u.kind = .eos then none else some h) rest

end VC2.Model.StreamSpec
