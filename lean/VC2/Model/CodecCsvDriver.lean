/- Line-protocol front end for the codec-features CSV model (`cf` lines). -/
import VC2.Model.CodecCsv
import VC2.Model.FileFormatDriver
namespace VC2.Model.CodecCsv
open VC2.Model.FileFormat (fromHex)

def decodeCell (w : String) : Option String :=
  -- "x" ++ hex of the ASCII bytes
  match w.toList with
  | 'x' :: hex => (fromHex hex).map (fun bs => String.ofList (bs.map Char.ofNat))
  | _ => none

def showOpt {α : Type} (f : α → String) : Option α → String
  | none => "None"
  | some x => f x

def showInts (l : List Int) : String := ",".intercalate (l.map toString)

def showFeatures (f : Features) : String :=
  "|".intercalate [f.name, toString f.level, toString f.profile, toString f.pcm, toString f.wavelet,
    toString f.waveletHo, toString f.dwtDepth, toString f.dwtDepthHo, toString f.slicesX, toString f.slicesY,
    toString f.fragCount, toString f.lossless, toString f.base, showInts f.vp,
    showOpt toString f.pictureBytes, showOpt showInts f.qm]

/-- `cf <cell> <cell> … ; <cell> … ; …`  (one csv row per `;` group; cells hex-encoded) -/
def handleCf (ws : List String) : String :=
  let rows := VC2.Model.FileFormat.splitOn' ws ";"
  match rows.mapM (fun r => r.mapM decodeCell) with
  | none => "bad-op"
  | some rows =>
    match readCodecFeatures rows with
    | .ok fs => "OK " ++ " ;; ".intercalate (fs.map showFeatures)
    | .error (.invalid _) => "INVALID"
    | .error (.crash w) => "CRASH:" ++ w

/-- `ci <cell>` : pyInt, for the differential self-check of the int(str) contract on ASCII text -/
def handleCi (ws : List String) : String :=
  match ws with
  | [c] => match decodeCell c with
    | some s => showOpt toString (pyInt s)
    | none => "bad-op"
  | _ => "bad-op"

end VC2.Model.CodecCsv
