import VC2.Model.SlicePad
namespace VC2.Model.SlicePad
open VC2

def showBits (l : List Bool) : String := if l.isEmpty then "-" else String.ofList (l.map (fun b => if b then '1' else '0'))
def parseFiller (s : String) : Option (List Nat) := (s.splitOn ",").mapM (·.toNat?)

/-- `sp G n filler align` | `sp L sliceBytes luma zeros filler align` | `sp H scaler y c1 c2 min comp zeros filler align` -/
def handleSp (ws : List String) : String :=
  match ws with
  | ["G", n, f, a] =>
    match n.toNat?, parseFiller f, a.toInt? with
    | some n, some f, some a => if f.isEmpty then "bad-op" else showBits (filledPadding n f a)
    | _, _, _ => "bad-op"
  | ["L", sb, luma, z, f, a] =>
    match sb.toInt?, z.toNat?, parseFiller f with
    | some sb, some z, some f =>
      if f.isEmpty then "bad-op" else
      let r := ldFill sb (luma == "Y") z f (a == "1")
      s!"{r.yLen} {showBits r.padding}"
    | _, _, _ => "bad-op"
  | ["H", sc, y, c1, c2, mn, comp, z, f, a] =>
    match sc.toInt?, y.toInt?, c1.toInt?, c2.toInt?, mn.toInt?, comp.toNat?, z.toNat?, parseFiller f with
    | some sc, some y, some c1, some c2, some mn, some comp, some z, some f =>
      if f.isEmpty then "bad-op" else
      let r := hqFill sc y c1 c2 mn comp z f (a == "1")
      s!"{r.yLen},{r.c1Len},{r.c2Len} {showBits r.padding}"
    | _, _, _, _, _, _, _, _ => "bad-op"
  | _ => "bad-op"

end VC2.Model.SlicePad
