/- Line-protocol front end for the wavelet model (`wt` lines). -/
import VC2.Model.Wavelet
import VC2.Gen.Tables
import VC2.Gen.Kernels
namespace VC2.Model.Wavelet
open VC2 VC2.Gen

def vecOfList (l : List Int) : Vec := let a := l.toArray; ⟨fun i => a.getD i 0⟩
def listOfVec (n : Nat) (f : Vec) : List Int := (List.range n).map f.get

def showInts (l : List Int) : String := " ".intercalate (l.map toString)

def arrOfFlat (h w : Nat) (l : List Int) : Arr :=
  let a := l.toArray
  { h := h, w := w, f := fun y x => a.getD (y * w + x) 0 }

/-- materialise (so that nested closures are not re-evaluated exponentially) -/
def Arr.force (a : Arr) : Arr :=
  let data := ((List.range a.h).flatMap fun y => (List.range a.w).map fun x => a.f y x).toArray
  { h := a.h, w := a.w, f := fun y x => data.getD (y * a.w + x) 0 }

def showArr (a : Arr) : String :=
  s!"{a.h},{a.w}:" ++ showInts ((List.range a.h).flatMap fun y => (List.range a.w).map fun x => a.f y x)

def kindOf : Nat → Option LiftKind
  | 1 => some .evenAddOdd | 2 => some .evenSubOdd | 3 => some .oddAddEven | 4 => some .oddSubEven
  | _ => none

def filterOf (i : Nat) : Option Filter := (liftingFilters.find? (·.1 = i)).map (·.2)

/-- forced versions used for evaluation only (same functions, materialised between stages) -/
def dwtFullF (fv fho : Filter) : Nat → Arr → Arr × List (Arr × Arr × Arr)
  | 0, a => (a, [])
  | d + 1, a =>
    let (LL, HL, LH, HH) := vhAnalysis fv fho a.force
    let (dc, rest) := dwtFullF fv fho d LL.force
    (dc, rest ++ [(HL.force, LH.force, HH.force)])

def dwtHoF (fho : Filter) : Nat → Arr → Arr × List Arr
  | 0, a => (a, [])
  | d + 1, a =>
    let (L, H) := hAnalysis fho a.force
    let (dc, rest) := dwtHoF fho d L.force
    (dc, rest ++ [H.force])

def dwtF (fv fho : Filter) (dho d : Nat) (pic : Arr) : Coeffs :=
  let (a, full) := dwtFullF fv fho d pic
  let (dc, ho) := dwtHoF fho dho a
  { dc := dc, ho := ho, full := full }

def idwtF (fv fho : Filter) (c : Coeffs) : Arr :=
  let a := c.ho.foldl (fun dc H => (hSynthesis fho dc H).force) c.dc
  c.full.foldl (fun dc b => (vhSynthesis fv fho dc b.1 b.2.1 b.2.2).force) a

def showCoeffs (c : Coeffs) : String :=
  ";".intercalate ([showArr c.dc] ++ c.ho.map showArr ++
    c.full.flatMap fun b => [showArr b.1, showArr b.2.1, showArr b.2.2])

def parseIntsW (ws : List String) : Option (List Int) := ws.mapM (·.toInt?)

def handleWt (ws : List String) : String :=
  let (hd, tl) := ws.span (· != "|")
  match parseIntsW (tl.drop 1) with
  | none => "bad-op"
  | some vals =>
  match hd with
  | ["lift", k, L, D, S, taps] =>
    match k.toNat?.bind kindOf, L.toNat?, D.toInt?, S.toNat?, parseIntsW (taps.splitOn ",") with
    | some k, some L, some D, some S, some taps =>
      let st : Stage := { kind := k, L := L, D := D, taps := taps, S := S }
      showInts (listOfVec vals.length (lift st vals.length (vecOfList vals)))
    | _, _, _, _, _ => "bad-op"
  | ["syn", i] =>
    match i.toNat?.bind filterOf with
    | some flt => showInts (listOfVec vals.length (onedSynthesis flt vals.length (vecOfList vals)))
    | none => "bad-op"
  | ["ana", i] =>
    match i.toNat?.bind filterOf with
    | some flt => showInts (listOfVec vals.length (onedAnalysis flt vals.length (vecOfList vals)))
    | none => "bad-op"
  | ["dwt", wv, wvho, dho, d, h, w] =>
    match wv.toNat?.bind filterOf, wvho.toNat?.bind filterOf, dho.toNat?, d.toNat?, h.toNat?, w.toNat? with
    | some fv, some fho, some dho, some d, some h, some w =>
      showCoeffs (dwtF fv fho dho d (arrOfFlat h w vals))
    | _, _, _, _, _, _ => "bad-op"
  | ["rt", wv, wvho, dho, d, h, w] =>
    match wv.toNat?.bind filterOf, wvho.toNat?.bind filterOf, dho.toNat?, d.toNat?, h.toNat?, w.toNat? with
    | some fv, some fho, some dho, some d, some h, some w =>
      let st : St := { luma_width := w, luma_height := h, dwt_depth := d, dwt_depth_ho := dho }
      let top : Int := d + dho + 1
      let pw := (subband_width st top "Y").toNat
      let ph := (subband_height st top "Y").toNat
      let padded := (padAddition (arrOfFlat h w vals) ph pw).force
      let c := dwtF fv fho dho d padded
      let r := idwtF fv fho c
      showArr padded ++ ";" ++ showCoeffs c ++ ";" ++ showArr (padRemoval r h w)
    | _, _, _, _, _, _ => "bad-op"
  | _ => "bad-op"

end VC2.Model.Wavelet
