/- Line-protocol front end for the constraint-table model (`vs`, `ct`, `csv` lines). -/
import VC2.Model.Constraint
namespace VC2.Model.Constraint
open VC2

def sortInts (l : List Int) : List Int := (l.toArray.qsort (· < ·)).toList
def dedup [BEq α] : List α → List α
  | [] => []
  | x :: xs => if xs.contains x then dedup xs else x :: dedup xs

def showVSet (s : VSet) : String :=
  let vs := sortInts (dedup s.values)
  let rs := (dedup s.ranges).toArray.qsort (fun a b => a.1 < b.1 || (a.1 == b.1 && a.2 < b.2)) |>.toList
  "{" ++ ",".intercalate (vs.map toString) ++ ";" ++
    ",".intercalate (rs.map fun r => s!"({r.1},{r.2})") ++ "}"

def showVS : VS → String
  | .any => "ANY"
  | .set s => showVSet s

def VS.addValue : VS → Int → VS
  | .any, _ => .any
  | .set s, v => .set (s.addValue v)
def VS.addRange : VS → Int → Int → VS
  | .any, _, _ => .any
  | .set s, lo, hi => .set (s.addRange lo hi)

def ints (s : String) (sep : Char) : Option (List Int) := (s.splitOn (String.singleton sep)).mapM (·.toInt?)

/-- register machine over value sets -/
def vsOp (regs : Array VS) (op : String) : Array VS × Option String :=
  let arg := (op.drop 1).toString
  match op.front with
  | 'N' => (regs.push (.set {}), none)
  | 'A' => (regs.push .any, none)
  | 'V' => match ints arg ',' with
    | some [i, v] => (regs.modify i.toNat (·.addValue v), none)
    | _ => (regs, some "bad-op")
  | 'R' => match ints arg ',' with
    | some [i, lo, hi] => (regs.modify i.toNat (·.addRange lo hi), none)
    | _ => (regs, some "bad-op")
  | 'U' => match ints arg ',' with
    | some [i, j] => (regs.push ((regs.getD i.toNat .any).union (regs.getD j.toNat .any)), none)
    | _ => (regs, some "bad-op")
  | 'H' => match ints arg ',' with
    | some [i, v] => (regs, some (if (regs.getD i.toNat .any).contains v then "T" else "F"))
    | _ => (regs, some "bad-op")
  | 'D' => match ints arg ',' with
    | some [i, j] => (regs, some (if (regs.getD i.toNat .any).isDisjoint (regs.getD j.toNat .any) then "T" else "F"))
    | _ => (regs, some "bad-op")
  | 'L' => match arg.toNat? with
    | some i => (regs, some (showVS (regs.getD i .any)))
    | none => (regs, some "bad-op")
  | _ => (regs, some "bad-op")

def handleVs (ops : List String) : String :=
  let (_, outs) := ops.foldl (fun (st : Array VS × List String) op =>
    let (r, o) := vsOp st.1 op
    (r, match o with | some s => s :: st.2 | none => st.2)) (#[], [])
  " ".intercalate outs.reverse

/-- cell syntax: `any`, `DITTO`, `-` (empty), or comma separated `v` / `lo~hi` -/
def parseItem (s : String) : Option Item :=
  if s = "" then some .nothing else
  match s.splitOn "~" with
  | [a] => a.toInt?.map .value
  | [a, b] => match a.toInt?, b.toInt? with
    | some a, some b => some (.range a b)
    | _, _ => none
  | _ => none

def parseCellTok (s : String) : Option Cell :=
  if s = "any" then some .any
  else if s = "DITTO" then some .ditto
  else if s = "-" then some (.items [])
  else (s.splitOn ",").mapM parseItem |>.map .items

/-- rows `key:cell|cell|…` separated by `;` → table (list of columns) -/
def parseCsvRows (rows : List String) : Option Table := do
  let parsed ← rows.mapM fun row =>
    match row.splitOn ":" with
    | [k, cells] => do
      let cs ← (cells.splitOn "|").mapM parseCellTok
      pure (k, parseRow (.set {}) cs)
    | _ => none
  let ncols := parsed.foldl (fun n r => max n r.2.length) 0
  pure <| (List.range ncols).map fun i =>
    parsed.foldl (fun (col : Comb) r =>
      match r.2[i]? with
      | some v => (col.filter (·.1 != r.1)) ++ [(r.1, v)]   -- `out[i][key] = value` (later rows overwrite)
      | none => col) []

def showTable (t : Table) : String :=
  ";".intercalate (t.map fun c =>
    ",".intercalate ((c.toArray.qsort (fun a b => a.1 < b.1)).toList.map fun kv => kv.1 ++ "=" ++ showVS kv.2))

def parseAssign (ws : List String) : Option Assign :=
  ws.mapM fun w => match w.splitOn "=" with
    | [k, v] => v.toInt?.map (k, ·)
    | _ => none

/-- a table written out column by column (not through the CSV reader): `COL` opens a column, `key:cell` puts a value
    set under a key of the current column - so ANY column may lack ANY key -/
def parseDirect (ws : List String) : Option Table :=
  (ws.foldlM (fun (t : List Comb) w =>
    if w = "COL" then some ([] :: t) else
    match w.splitOn ":", t with
    | [k, cell], c :: rest => (parseCellTok cell).map fun ce => ((c.filter (·.1 != k)) ++ [(k, parseCell (.set {}) ce)]) :: rest
    | _, _ => none) []).map List.reverse

def answer (t : Option Table) (q : List String) : String :=
  match t, q with
  | some t, ["SHOW"] => showTable t
  | some t, "ALLOWED" :: kvs => match parseAssign kvs with
    | some a => if isAllowed t a then "T" else "F"
    | none => "bad-op"
  | some t, "VALUES" :: key :: kvs => match parseAssign kvs with
    | some a => showVS (allowedValuesFor t key a)
    | none => "bad-op"
  | some t, "SEQ" :: kvs => match parseAssign kvs with
    | some a => match assertSeq t [] a with
      | some r => "OK " ++ " ".intercalate (r.map fun kv => s!"{kv.1}={kv.2}")
      | none => "FAIL"
    | none => "bad-op"
  | _, _ => "bad-op"

def handleCt (ws : List String) : String :=
  let (hd, tl) := ws.span (· != "|")
  answer (parseCsvRows hd) (tl.drop 1)

def handleDt (ws : List String) : String :=
  let (hd, tl) := ws.span (· != "|")
  answer (parseDirect hd) (tl.drop 1)

end VC2.Model.Constraint
