/-
  Hand-written model of the error classification of scripts/vc2_bitstream_viewer.py:
  is_internal_error (which module the innermost relevant stack frame belongs to), the exit status
  decision of BitstreamViewer.run, and relative_to_abs_index.  The display code (formatting of
  values, offsets windows, status line) is NOT modelled.
-/
namespace VC2.Model.ViewerCli

/-- where a stack frame lives -/
inductive Frame | viewer | vc2 | other
  deriving Repr, DecidableEq, Inhabited

/-- `is_internal_error`: walk the stack outermost → innermost; the viewer's own frames set the
    flag, frames of bitstream/vc2.py clear it -/
def isInternalError (stack : List Frame) : Bool :=
  stack.foldl (fun flag f => match f with | .viewer => true | .vc2 => false | .other => flag) false

/-- how parsing ended -/
inductive Ending
  | finished | terminateSuccess | keyboardInterrupt | terminateError | eof
  | exception (stack : List Frame)
  deriving Repr, Inhabited

def exitStatus : Ending → Nat
  | .finished => 0
  | .terminateSuccess => 0
  | .keyboardInterrupt => 1
  | .terminateError => 2
  | .eof => 3
  | .exception stack => if isInternalError stack then 255 else 4

def relativeToAbsIndex (num length : Int) : Int := if num ≥ 0 then num else length + num

end VC2.Model.ViewerCli
