/-
  Python-semantics helpers used by the generated definitions (T1) and by the
  hand-written models.  Core Lean only (the driver executable links against this).
-/
namespace VC2

/-- Python `//` on ints (floor division). -/
@[inline] def pydiv (a b : Int) : Int := Int.fdiv a b
/-- Python `%` on ints (sign of the divisor). -/
@[inline] def pymod (a b : Int) : Int := Int.fmod a b
/-- Python `a << n` for `n ≥ 0` (the generated `_ok` predicate demands `n ≥ 0`). -/
@[inline] def shl (a n : Int) : Int := a * 2 ^ n.toNat
/-- Python `a >> n` for `n ≥ 0` (floor shift). -/
@[inline] def shr (a n : Int) : Int := Int.fdiv a (2 ^ n.toNat)
/-- Python `a ** n` for `n ≥ 0`. -/
@[inline] def pypow (a n : Int) : Int := a ^ n.toNat
/-- Python `int.bit_length()`. -/
def bitLength (n : Int) : Int :=
  if n = 0 then 0 else (Nat.log2 n.natAbs + 1 : Nat)
/-- Python `abs`. -/
@[inline] def pyabs (a : Int) : Int := if a < 0 then -a else a
@[inline] def pymin (a b : Int) : Int := if b < a then b else a
@[inline] def pymax (a b : Int) : Int := if b > a then b else a

/-- Python `&` on ints (two's complement on negatives; `-(n+1) = ~n`). -/
def pyand : Int → Int → Int
  | .ofNat a, .ofNat b => (a &&& b : Nat)
  | .ofNat a, .negSucc m => (a - (a &&& m) : Nat)
  | .negSucc n, .ofNat b => (b - (b &&& n) : Nat)
  | .negSucc n, .negSucc m => .negSucc (n ||| m)
/-- Python `|` on ints. -/
def pyor : Int → Int → Int
  | .ofNat a, .ofNat b => (a ||| b : Nat)
  | .ofNat a, .negSucc m => .negSucc (m - (m &&& a))
  | .negSucc n, .ofNat b => .negSucc (n - (n &&& b))
  | .negSucc n, .negSucc m => .negSucc (n &&& m)
/-- Python `^` on ints. -/
def pyxor : Int → Int → Int
  | .ofNat a, .ofNat b => (a ^^^ b : Nat)
  | .ofNat a, .negSucc m => .negSucc (a ^^^ m)
  | .negSucc n, .ofNat b => .negSucc (n ^^^ b)
  | .negSucc n, .negSucc m => (n ^^^ m : Nat)

theorem pydiv_pos (a b : Int) (h : 0 < b) : pydiv a b = a / b := by
  unfold pydiv; exact Int.fdiv_eq_ediv_of_nonneg a (Int.le_of_lt h)

theorem pymod_pos (a b : Int) (h : 0 < b) : pymod a b = a % b := by
  unfold pymod; exact Int.fmod_eq_emod_of_nonneg a (Int.le_of_lt h)

theorem pyabs_eq (a : Int) : pyabs a = (a.natAbs : Int) := by
  unfold pyabs; split <;> omega

theorem two_pow_pos (n : Nat) : (0 : Int) < 2 ^ n := by
  exact Int.pow_pos (by decide)

theorem shl_one_pos (n : Int) : 0 < shl 1 n := by
  unfold shl; simpa using two_pow_pos n.toNat

theorem pypow_two_pos (n : Int) : 0 < pypow 2 n := two_pow_pos _

theorem pypow_two_succ (n : Int) (h : 0 ≤ n) : pypow 2 (n + 1) = 2 * pypow 2 n := by
  unfold pypow
  have : (n + 1).toNat = n.toNat + 1 := by omega
  rw [this, Int.pow_succ]; omega

end VC2
