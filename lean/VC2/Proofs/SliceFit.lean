/- Helper lemmas and main proofs for C14 (slice budgets, smallest qindex, 8-bit length fields). Core Lean only. -/
import VC2.Model.SliceFit
import VC2.Props.C13
namespace VC2.Proofs.SliceFit
open VC2 VC2.Gen VC2.Model.SliceFit


theorem qtf_least (target : Int) (sets : List Comp) (align : Int) :
    ∀ (fuel : Nat) (q0 q : Int), quantizeToFit target sets align fuel q0 = some q →
      q0 ≤ q ∧ fits target sets align q = true ∧ ∀ q', q0 ≤ q' → q' < q → fits target sets align q' = false := by
  intro fuel
  induction fuel with
  | zero => intro q0 q h; cases h
  | succ fuel ih =>
    intro q0 q h
    simp only [quantizeToFit] at h
    by_cases hf : fits target sets align q0 = true
    · rw [if_pos hf] at h
      cases h
      exact ⟨Int.le_refl _, hf, fun q' h1 h2 => by omega⟩
    · rw [if_neg hf] at h
      obtain ⟨a, b, c⟩ := ih (q0 + 1) q h
      refine ⟨by omega, b, fun q' h1 h2 => ?_⟩
      by_cases he : q' = q0
      · subst he; simpa using hf
      · exact c q' (by omega) h2

theorem qtf_finds (target : Int) (sets : List Comp) (align : Int) :
    ∀ (fuel : Nat) (q0 q1 : Int), q0 ≤ q1 → q1 - q0 < fuel → fits target sets align q1 = true →
      ∃ q, quantizeToFit target sets align fuel q0 = some q := by
  intro fuel
  induction fuel with
  | zero => intro q0 q1 _ h _; omega
  | succ fuel ih =>
    intro q0 q1 h01 hf hfit
    simp only [quantizeToFit]
    by_cases hq : fits target sets align q0 = true
    · exact ⟨q0, by rw [if_pos hq]⟩
    · rw [if_neg hq]
      have : q0 ≠ q1 := by intro e; subst e; exact hq hfit
      exact ih (q0 + 1) q1 (by omega) (by omega) hfit

/-- ceil(t / s) ≤ 255 whenever 255·s ≥ t -/
theorem ceil_div_le_255 (t s : Int) (hs : 1 ≤ s) (h : t ≤ 255 * s) : pydiv (t + s - 1) s ≤ 255 := by
  rw [pydiv_pos _ _ (by omega)]
  have e : (255 + 1) * s = 255 * s + s := by rw [Int.add_mul]; omega
  have : t + s - 1 < (255 + 1) * s := by rw [e]; omega
  have := Int.ediv_lt_of_lt_mul (by omega : 0 < s) this
  omega

theorem ceil_div_nonneg (t s : Int) (hs : 1 ≤ s) (ht : 0 ≤ t) : 0 ≤ pydiv (t + s - 1) s := by
  rw [pydiv_pos _ _ (by omega)]
  exact Int.ediv_nonneg (by omega) (by omega)

theorem scaler_covers (m : Int) (hm : 0 ≤ m) : m ≤ 255 * pymax 1 (pydiv (m + 254) 255) := by
  rw [pydiv_pos _ _ (by decide)]
  unfold pymax
  split <;> omega

theorem segl_nonneg (v : Int) : 0 ≤ signed_exp_golomb_length v := by
  have key : ∀ w : Int, 0 ≤ exp_golomb_length w := by
    intro w
    unfold exp_golomb_length bitLength
    split
    · omega
    · split <;> omega
  unfold signed_exp_golomb_length
  have := key (pyabs v)
  simp only []
  split <;> omega

theorem sum_nonneg : ∀ (l : List Int), (∀ x ∈ l, 0 ≤ x) → 0 ≤ l.sum := by
  intro l; induction l with
  | nil => intro _; simp
  | cons a as ih => intro h; simp only [List.sum_cons]; have := h a List.mem_cons_self; have := ih (fun x hx => h x (List.mem_cons_of_mem _ hx)); omega

theorem coeffsBits_nonneg (l : List Int) : 0 ≤ coeffsBits l := by
  unfold coeffsBits
  apply sum_nonneg
  intro x hx
  obtain ⟨v, _, rfl⟩ := List.mem_map.1 hx
  exact segl_nonneg v

theorem hqLengthField_nonneg (l : List Int) (s : Int) (hs : 1 ≤ s) : 0 ≤ hqLengthField l s := by
  unfold hqLengthField
  have := coeffsBits_nonneg l
  have := ceil_div_nonneg (coeffsBits l) (8 * s) (by omega) this
  simpa using this

theorem foldl_max_ge (f : (Int × Int × Int) → Int) : ∀ (l : List (Int × Int × Int)) (m : Int),
    m ≤ l.foldl (fun m t => pymax m (f t)) m ∧ ∀ t ∈ l, f t ≤ l.foldl (fun m t => pymax m (f t)) m := by
  intro l
  induction l with
  | nil => intro m; simp
  | cons a as ih =>
    intro m
    have := ih (pymax m (f a))
    simp only [List.foldl_cons, List.mem_cons, forall_eq_or_imp]
    have h1 : m ≤ pymax m (f a) := by unfold pymax; split <;> omega
    have h2 : f a ≤ pymax m (f a) := by unfold pymax; split <;> omega
    exact ⟨by omega, by omega, this.2⟩

/-- **lossless HQ**: with the scaler the encoder chooses, every length field of every slice lies in
    [0, 255] and still covers the coded coefficients (scaler · field ≥ length in bytes) -/
theorem hqLossless_lengths_fit (minScaler : Int) (slices : List SliceIn) :
    let r := hqLossless minScaler slices
    1 ≤ r.1 ∧ minScaler ≤ r.1 ∧
    ∀ hs ∈ r.2, 0 ≤ hs.yLen ∧ hs.yLen ≤ 255 ∧ 0 ≤ hs.c1Len ∧ hs.c1Len ≤ 255 ∧ 0 ≤ hs.c2Len ∧ hs.c2Len ≤ 255 := by
  intro r
  have hr : r = hqLossless minScaler slices := rfl
  unfold hqLossless at hr
  simp only at hr
  generalize hraw : slices.map (fun s => (hqLengthField s.y.vals 1, hqLengthField s.c1.vals 1, hqLengthField s.c2.vals 1)) = raw at hr
  generalize hmax : raw.foldl (fun m t => pymax m (pymax t.1 (pymax t.2.1 t.2.2))) 0 = maxLen at hr
  have hfold := foldl_max_ge (fun t => pymax t.1 (pymax t.2.1 t.2.2)) raw 0
  rw [hmax] at hfold
  have hm0 : 0 ≤ maxLen := hfold.1
  have hcov := scaler_covers maxLen hm0
  generalize hsc : pymax 1 (pymax minScaler (pydiv (maxLen + 254) 255)) = scaler at hr
  have hs1 : 1 ≤ scaler := by rw [← hsc]; unfold pymax; split <;> omega
  have hsm : minScaler ≤ scaler := by rw [← hsc]; unfold pymax; split <;> split <;> omega
  have hsge : pymax 1 (pydiv (maxLen + 254) 255) ≤ scaler := by
    rw [← hsc]; unfold pymax; repeat' split <;> omega
  have hcov' : maxLen ≤ 255 * scaler := by omega
  rw [hr]
  refine ⟨hs1, hsm, ?_⟩
  intro hs hmem
  simp only [List.mem_map] at hmem
  obtain ⟨t, ht, rfl⟩ := hmem
  have hle := hfold.2 t ht
  have hraw0 : 0 ≤ t.1 ∧ 0 ≤ t.2.1 ∧ 0 ≤ t.2.2 := by
    rw [← hraw] at ht
    obtain ⟨s, _, rfl⟩ := List.mem_map.1 ht
    exact ⟨hqLengthField_nonneg _ 1 (by decide), hqLengthField_nonneg _ 1 (by decide), hqLengthField_nonneg _ 1 (by decide)⟩
  have b1 : t.1 ≤ maxLen := by unfold pymax at hle; repeat' split at hle <;> omega
  have b2 : t.2.1 ≤ maxLen := by unfold pymax at hle; repeat' split at hle <;> omega
  have b3 : t.2.2 ≤ maxLen := by unfold pymax at hle; repeat' split at hle <;> omega
  exact ⟨ceil_div_nonneg _ _ hs1 hraw0.1, ceil_div_le_255 _ _ hs1 (by omega),
         ceil_div_nonneg _ _ hs1 hraw0.2.1, ceil_div_le_255 _ _ hs1 (by omega),
         ceil_div_nonneg _ _ hs1 hraw0.2.2, ceil_div_le_255 _ _ hs1 (by omega)⟩

theorem totalLength_align1 (q : Int) (a b : Comp) :
    totalLength q [a, b] 1 = coeffsBits (quantizeCoeffs q a) + coeffsBits (quantizeCoeffs q b) := by
  unfold totalLength
  simp only [List.map_cons, List.map_nil, List.sum_cons, List.sum_nil]
  have e : ∀ x : Int, pydiv (x + 1 - 1) 1 * 1 = x := by
    intro x; rw [pydiv_pos _ _ (by decide)]; simp
  rw [e, e]; omega

/-- **low-delay slices**: the chosen index is the smallest one (from the requested minimum) whose
    luma and chroma coefficients fit the slice, and the luma length is non-negative and within the
    bits left after the qindex and length fields -/
theorem ld_slice_spec (fuel : Nat) (minQ sb : Int) (s : SliceIn) (q yl : Int)
    (h : ldLossySlice fuel minQ sb s = some (q, yl)) :
    minQ ≤ q ∧ 0 ≤ yl ∧ yl ≤ (8 * sb - 7) - intlog2 (8 * sb - 7) ∧
    fits ((8 * sb - 7) - intlog2 (8 * sb - 7))
      [s.y, { vals := interleave s.c1.vals s.c2.vals, qm := interleave s.c1.qm s.c2.qm }] 1 q = true ∧
    (∀ q', minQ ≤ q' → q' < q → fits ((8 * sb - 7) - intlog2 (8 * sb - 7))
      [s.y, { vals := interleave s.c1.vals s.c2.vals, qm := interleave s.c1.qm s.c2.qm }] 1 q' = false) := by
  unfold ldLossySlice at h
  simp only at h
  split at h
  · cases h
  · split at h
    · cases h
    · rename_i q0 hq
      simp at h
      obtain ⟨e1, e2⟩ := h; subst e1 e2
      obtain ⟨a, b, cmin⟩ := qtf_least _ _ _ fuel minQ q0 hq
      refine ⟨a, coeffsBits_nonneg _, ?_, b, cmin⟩
      have hb := b
      unfold fits at hb
      simp only [decide_eq_true_eq] at hb
      rw [totalLength_align1] at hb
      have := coeffsBits_nonneg (quantizeCoeffs q0 { vals := interleave s.c1.vals s.c2.vals, qm := interleave s.c1.qm s.c2.qm })
      omega

/-- **total high-quality slice data**: 4 bytes of fixed fields per slice plus scaler × the length
    budgets sum to picture_bytes, to within less than one scaler unit -/
theorem hq_total_bytes (pb : Int) (sx sy : Nat) (scaler : Int) (hsx : 1 ≤ sx) (hsy : 1 ≤ sy) (hs : 1 ≤ scaler)
    (hpb : (sx * sy : Nat) * 4 ≤ pb) :
    let n : Nat := sx * sy
    let st := hqState pb sx sy scaler
    let total := VC2.Proofs.Slices.sumTo (fun N => slice_bytes st ((N : Int) % st.slices_x) ((N : Int) / st.slices_x)) n
    pb - scaler < 4 * n + scaler * total ∧ 4 * (n : Int) + scaler * total ≤ pb := by
  intro n st total
  have hn : 0 < (n : Int) := by
    have : 0 < sx * sy := Nat.mul_pos hsx hsy
    show (0 : Int) < ((sx * sy : Nat) : Int); omega
  have hden : 0 < st.slice_bytes_denominator := by
    show 0 < (sx : Int) * sy * scaler
    have : (sx : Int) * sy = ((sx * sy : Nat) : Int) := (Int.natCast_mul sx sy).symm
    rw [this]; exact Int.mul_pos hn (by omega)
  have hsum := VC2.Props.C13.slice_bytes_sum st n hden (by show 1 ≤ (sx : Int); omega)
  have htot : total = (pb - n * 4) / scaler := by
    show VC2.Proofs.Slices.sumTo _ n = _
    rw [hsum]
    show (n : Int) * (pb - (sx : Int) * sy * 4) / ((sx : Int) * sy * scaler) = _
    have : (sx : Int) * sy = (n : Int) := (Int.natCast_mul sx sy).symm
    rw [this]
    exact Int.mul_ediv_mul_of_pos _ _ hn
  rw [htot]
  have h1 := Int.ediv_mul_le (pb - n * 4) (by omega : scaler ≠ 0)
  have h2 := Int.lt_ediv_add_one_mul_self (pb - n * 4) (by omega : 0 < scaler)
  have e : scaler * ((pb - ↑n * 4) / scaler) = (pb - ↑n * 4) / scaler * scaler := Int.mul_comm _ _
  rw [e]
  have e2 : ((pb - ↑n * 4) / scaler + 1) * scaler = (pb - ↑n * 4) / scaler * scaler + scaler := by
    rw [Int.add_mul]; omega
  rw [e2] at h2
  constructor <;> omega

/-- **high-quality lossy slices**: the chosen index is the smallest fitting one, the three length
    fields are non-negative, add up to the slice's budget, and the third still holds its coefficients -/
theorem hq_slice_spec (fuel : Nat) (scaler minQ totalLen : Int) (hs : 1 ≤ scaler) (s : SliceIn) (r : HqSlice)
    (h : hqLossySlice fuel scaler minQ totalLen s = some r) :
    minQ ≤ r.qindex ∧
    fits (8 * scaler * totalLen) [s.y, s.c1, s.c2] (8 * scaler) r.qindex = true ∧
    (∀ q', minQ ≤ q' → q' < r.qindex → fits (8 * scaler * totalLen) [s.y, s.c1, s.c2] (8 * scaler) q' = false) ∧
    0 ≤ r.yLen ∧ 0 ≤ r.c1Len ∧ hqLengthField (quantizeCoeffs r.qindex s.c2) scaler ≤ r.c2Len ∧ 0 ≤ r.c2Len ∧
    r.yLen + r.c1Len + r.c2Len = totalLen := by
  unfold hqLossySlice at h
  split at h
  · cases h
  · rename_i q hq
    simp at h; subst h
    obtain ⟨a, b, c⟩ := qtf_least _ _ _ fuel minQ q hq
    have hb := b
    unfold fits totalLength at hb
    simp only [decide_eq_true_eq, List.map_cons, List.map_nil, List.sum_cons, List.sum_nil] at hb
    have hy := hqLengthField_nonneg (quantizeCoeffs q s.y) scaler hs
    have hc1 := hqLengthField_nonneg (quantizeCoeffs q s.c1) scaler hs
    have hc2 := hqLengthField_nonneg (quantizeCoeffs q s.c2) scaler hs
    unfold hqLengthField at hy hc1 hc2 ⊢
    generalize pydiv (coeffsBits (quantizeCoeffs q s.y) + 8 * scaler - 1) (8 * scaler) = A at *
    generalize pydiv (coeffsBits (quantizeCoeffs q s.c1) + 8 * scaler - 1) (8 * scaler) = B at *
    generalize pydiv (coeffsBits (quantizeCoeffs q s.c2) + 8 * scaler - 1) (8 * scaler) = D at *
    have hsum : (A + B + D) * (8 * scaler) ≤ totalLen * (8 * scaler) := by
      have e1 : (A + B + D) * (8 * scaler) = A * (8 * scaler) + (B * (8 * scaler) + (D * (8 * scaler) + 0)) := by
        rw [Int.add_mul, Int.add_mul]; omega
      have e2 : totalLen * (8 * scaler) = 8 * scaler * totalLen := Int.mul_comm _ _
      rw [e1, e2]; exact hb
    have hle : A + B + D ≤ totalLen := Int.le_of_mul_le_mul_right hsum (by omega)
    refine ⟨a, b, c, hy, hc1, ?_, ?_, ?_⟩ <;> simp only <;> omega

/-- **8-bit length fields, lossy high quality**: with the scaler the encoder computes (or any
    larger one), every slice's length budget — hence each of its three length fields — is ≤ 255 -/
theorem hq_lossy_budget_le_255 (pb : Int) (sx sy : Nat) (minScaler : Int) (hsx : 1 ≤ sx) (hsy : 1 ≤ sy)
    (hpb : (sx * sy : Nat) * 4 ≤ pb) (x y : Int) :
    slice_bytes (hqState pb sx sy (hqScaler pb ((sx * sy : Nat) : Int) minScaler)) x y ≤ 255 := by
  have hn : 0 < ((sx * sy : Nat) : Int) := by have : 0 < sx * sy := Nat.mul_pos hsx hsy; omega
  generalize hnn : ((sx * sy : Nat) : Int) = n at *
  have hsxy : (sx : Int) * sy = n := by rw [← hnn]; exact (Int.natCast_mul sx sy).symm
  -- the scaler
  generalize hs : hqScaler pb n minScaler = s
  have hM : pb ≤ n * ((pb + n - 1) / n) := by
    have := Int.lt_ediv_add_one_mul_self (pb + n - 1) hn
    have e : ((pb + n - 1) / n + 1) * n = n * ((pb + n - 1) / n) + n := by rw [Int.add_mul, Int.mul_comm]; omega
    omega
  have hs255 : (pb + n - 1) / n - 4 ≤ 255 * s := by
    rw [← hs]
    unfold hqScaler get_safe_lossy_hq_slice_size_scaler
    simp only [pydiv_pos _ _ hn, pydiv_pos _ _ (by decide : (0 : Int) < 255)]
    unfold pymax
    repeat' split <;> omega
  have hs1 : 1 ≤ s := by
    rw [← hs]; unfold hqScaler get_safe_lossy_hq_slice_size_scaler
    simp only [pydiv_pos _ _ hn, pydiv_pos _ _ (by decide : (0 : Int) < 255)]
    unfold pymax
    repeat' split <;> omega
  -- numerator ≤ 255 · denominator
  have hND : pb - n * 4 ≤ 255 * (n * s) := by
    have h1 : n * ((pb + n - 1) / n - 4) ≤ n * (255 * s) := Int.mul_le_mul_of_nonneg_left hs255 (by omega)
    have e1 : n * ((pb + n - 1) / n - 4) = n * ((pb + n - 1) / n) - n * 4 := by rw [Int.mul_sub]
    have e2 : n * (255 * s) = 255 * (n * s) := by rw [← Int.mul_assoc, Int.mul_comm n 255, Int.mul_assoc]
    omega
  have hD : 0 < n * s := Int.mul_pos hn (by omega)
  unfold slice_bytes hqState
  simp only [hsxy]
  rw [pydiv_pos _ _ hD, pydiv_pos _ _ hD]
  generalize (y * ↑sx + x) = k
  generalize hNN : pb - n * 4 = N at *
  generalize hDD : n * s = D at *
  have a1 := Int.ediv_mul_le ((k + 1) * N) (by omega : D ≠ 0)
  have a2 := Int.lt_ediv_add_one_mul_self (k * N) hD
  have e3 : (k * N / D + 1) * D = k * N / D * D + D := by rw [Int.add_mul]; omega
  have e4 : (k + 1) * N = k * N + N := by rw [Int.add_mul]; omega
  -- (x - 1) · D < N ≤ 255 · D
  have key : ((k + 1) * N / D - k * N / D - 1) * D < 255 * D := by
    have e5 : ((k + 1) * N / D - k * N / D - 1) * D = (k + 1) * N / D * D - k * N / D * D - D := by
      rw [Int.sub_mul, Int.sub_mul]; omega
    omega
  have := Int.lt_of_mul_lt_mul_right key (by omega)
  omega

end VC2.Proofs.SliceFit
