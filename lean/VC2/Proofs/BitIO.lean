/-
  Lemmas about the BitIO model (C20).  Core Lean only.
-/
import VC2.Model.BitIO
import VC2.Gen.Kernels
namespace VC2.Proofs.BitIO
open VC2 VC2.Model.BitIO

/-! ### Reading outside a bounded block -/

/-- the reader sits in front of the suffix `suf` of its stream -/
def At (r : Reader) (pre suf : List Bool) : Prop := r.all = pre ++ suf ∧ r.pos = pre.length

theorem getElem_mid (pre : List Bool) (b : Bool) (suf : List Bool) :
    (pre ++ b :: suf)[pre.length]? = some b := by
  simp

theorem readBit_free (r : Reader) (pre suf : List Bool) (b : Bool)
    (h : At r pre (b :: suf)) (hr : r.rem = none) :
    ∃ r', r.readBit = .ok (b, r') ∧ At r' (pre ++ [b]) suf ∧ r'.rem = none := by
  refine ⟨{ r with pos := r.pos + 1 }, ?_, ?_, hr⟩
  · unfold Reader.readBit Reader.rawBit
    rw [hr]; simp only
    rw [h.1, h.2, getElem_mid]
  · constructor
    · simp [h.1]
    · simp [h.2]

theorem readBits_free (bs : List Bool) : ∀ (r : Reader) (pre suf : List Bool),
    At r pre (bs ++ suf) → r.rem = none →
    ∃ r', Reader.readBits bs.length r = .ok (bs, r') ∧ At r' (pre ++ bs) suf ∧ r'.rem = none := by
  induction bs with
  | nil => intro r pre suf h hr; exact ⟨r, rfl, by simpa using h, hr⟩
  | cons b bs ih =>
    intro r pre suf h hr
    obtain ⟨r1, e1, h1, hr1⟩ := readBit_free r pre (bs ++ suf) b h hr
    obtain ⟨r2, e2, h2, hr2⟩ := ih r1 (pre ++ [b]) suf h1 hr1
    refine ⟨r2, ?_, by simpa using h2, hr2⟩
    simp only [List.length_cons, Reader.readBits, e1, e2, bind, Except.bind, pure, Except.pure]

/-- value of `n` bits of `v`, most significant first -/
theorem readNbitsLoop_free (v : Nat) : ∀ (n : Nat) (r : Reader) (pre suf : List Bool) (acc : Nat),
    At r pre (nbitsOf v n ++ suf) → r.rem = none →
    ∃ r', Reader.readNbitsLoop n r acc = .ok (acc * 2 ^ n + v % 2 ^ n, r') ∧
      At r' (pre ++ nbitsOf v n) suf ∧ r'.rem = none := by
  intro n
  induction n with
  | zero =>
    intro r pre suf acc h hr
    refine ⟨r, ?_, by simpa [nbitsOf] using h, hr⟩
    simp [Reader.readNbitsLoop, Nat.mod_one]
  | succ i ih =>
    intro r pre suf acc h hr
    simp only [nbitsOf, List.cons_append] at h
    obtain ⟨r1, e1, h1, hr1⟩ := readBit_free r pre _ _ h hr
    obtain ⟨r2, e2, h2, hr2⟩ := ih r1 _ suf (acc * 2 + (if v.testBit i then 1 else 0)) h1 hr1
    refine ⟨r2, ?_, by simpa [nbitsOf] using h2, hr2⟩
    simp only [Reader.readNbitsLoop, e1, bind, Except.bind, e2]
    congr 2
    -- arithmetic: (acc*2 + bit i) * 2^i + v % 2^i = acc * 2^(i+1) + v % 2^(i+1)
    have hb : (if v.testBit i then 1 else 0) = v / 2 ^ i % 2 := by
      rw [Nat.testBit_eq_decide_div_mod_eq]
      have : v / 2 ^ i % 2 = 0 ∨ v / 2 ^ i % 2 = 1 := by omega
      rcases this with h | h <;> simp [h]
    rw [hb, Nat.pow_succ]
    have key : v % (2 ^ i * 2) = v / 2 ^ i % 2 * 2 ^ i + v % 2 ^ i := by
      rw [Nat.mod_mul, Nat.add_comm, Nat.mul_comm]
    rw [key, Nat.add_mul, Nat.mul_assoc, Nat.mul_comm 2 (2 ^ i)]
    omega

end VC2.Proofs.BitIO

namespace VC2.Proofs.BitIO
open VC2 VC2.Model.BitIO

theorem bit_eq (m i : Nat) : (if m.testBit i then 1 else 0) = m / 2 ^ i % 2 := by
  rw [Nat.testBit_eq_decide_div_mod_eq]
  have : m / 2 ^ i % 2 = 0 ∨ m / 2 ^ i % 2 = 1 := by omega
  rcases this with h | h <;> simp [h]

theorem shift_step (m j : Nat) : m / 2 ^ (j + 1) * 2 + m / 2 ^ j % 2 = m / 2 ^ j := by
  rw [Nat.pow_succ, ← Nat.div_div_eq_div_mul]
  omega

/-- the decoding loop run over the pairs of `m` below bit `j`, starting from the bits of
    `m` above `j`, ends with `m` itself -/
theorem readUintLoop_free (m : Nat) : ∀ (j : Nat) (r : Reader) (pre suf : List Bool) (fuel : Nat),
    At r pre (encPairs m j ++ true :: suf) → r.rem = none → j < fuel →
    ∃ r', Reader.readUintLoop fuel r (m / 2 ^ j) = .ok (m, r') ∧
      At r' (pre ++ encPairs m j ++ [true]) suf ∧ r'.rem = none := by
  intro j
  induction j with
  | zero =>
    intro r pre suf fuel h hr hf
    simp only [encPairs, List.nil_append] at h
    obtain ⟨r1, e1, h1, hr1⟩ := readBit_free r pre suf true h hr
    obtain ⟨f, rfl⟩ : ∃ f, fuel = f + 1 := ⟨fuel - 1, by omega⟩
    refine ⟨r1, ?_, by simpa [encPairs] using h1, hr1⟩
    simp [Reader.readUintLoop, e1, bind, Except.bind, pure, Except.pure]
  | succ i ih =>
    intro r pre suf fuel h hr hf
    simp only [encPairs, List.cons_append] at h
    obtain ⟨r1, e1, h1, hr1⟩ := readBit_free r pre _ false h hr
    obtain ⟨r2, e2, h2, hr2⟩ := readBit_free r1 _ _ _ h1 hr1
    obtain ⟨f, rfl⟩ : ∃ f, fuel = f + 1 := ⟨fuel - 1, by omega⟩
    obtain ⟨r3, e3, h3, hr3⟩ := ih r2 _ suf f h2 hr2 (by omega)
    refine ⟨r3, ?_, by simpa [encPairs, List.append_assoc] using h3, hr3⟩
    simp only [Reader.readUintLoop, e1, bind, Except.bind, e2, Bool.false_eq_true, if_false]
    rw [bit_eq, shift_step]; exact e3

theorem div_pow_log2 (m : Nat) (hm : 0 < m) : m / 2 ^ Nat.log2 m = 1 := by
  have h1 : 2 ^ Nat.log2 m ≤ m := Nat.log2_self_le (by omega)
  have h2 : m < 2 ^ (Nat.log2 m + 1) := Nat.lt_log2_self
  have hp : 0 < 2 ^ Nat.log2 m := Nat.two_pow_pos _
  rw [Nat.pow_succ] at h2
  have : m / 2 ^ Nat.log2 m < 2 := (Nat.div_lt_iff_lt_mul hp).2 (by omega)
  have : 1 ≤ m / 2 ^ Nat.log2 m := (Nat.le_div_iff_mul_le hp).2 (by omega)
  omega

theorem encPairs_length (m j : Nat) : (encPairs m j).length = 2 * j := by
  induction j with
  | zero => rfl
  | succ i ih => simp [encPairs, ih]; omega

theorem encodeUint_length (v : Nat) : (encodeUint v).length = 2 * Nat.log2 (v + 1) + 1 := by
  simp [encodeUint, encPairs_length]

theorem log2_le_length (v : Nat) : Nat.log2 (v + 1) < (encodeUint v).length := by
  rw [encodeUint_length]; omega

/-- `read_uint` decodes what `write_uint` writes, and stops right behind it -/
theorem readUint_free (v : Nat) (r : Reader) (pre suf : List Bool)
    (h : At r pre (encodeUint v ++ suf)) (hr : r.rem = none) :
    ∃ r', r.readUint = .ok ((v : Int), r') ∧ At r' (pre ++ encodeUint v) suf ∧ r'.rem = none := by
  have hfuel : Nat.log2 (v + 1) < r.fuel := by
    unfold Reader.fuel
    have := log2_le_length v
    have hl : r.all.length = pre.length + ((encodeUint v).length + suf.length) := by
      rw [h.1]; simp
    rw [hl, h.2]; omega
  have h' : At r pre (encPairs (v + 1) (Nat.log2 (v + 1)) ++ true :: suf) := by
    simpa [encodeUint, List.append_assoc] using h
  obtain ⟨r', e, h2, hr2⟩ := readUintLoop_free (v + 1) _ r pre suf _ h' hr hfuel
  rw [div_pow_log2 (v + 1) (by omega)] at e
  refine ⟨r', ?_, by simpa [encodeUint, List.append_assoc] using h2, hr2⟩
  simp only [Reader.readUint, e, bind, Except.bind, pure, Except.pure]
  congr 2; omega

theorem readSint_free (v : Int) (r : Reader) (pre suf : List Bool)
    (h : At r pre (encodeSint v ++ suf)) (hr : r.rem = none) :
    ∃ r', r.readSint = .ok (v, r') ∧ At r' (pre ++ encodeSint v) suf ∧ r'.rem = none := by
  unfold encodeSint at h ⊢
  by_cases h0 : v = 0
  · subst h0
    simp only [if_true, List.append_nil] at h ⊢
    obtain ⟨r1, e1, h1, hr1⟩ := readUint_free _ r pre suf h hr
    refine ⟨r1, ?_, h1, hr1⟩
    simp [Reader.readSint, e1, bind, Except.bind, pure, Except.pure]
  · simp only [h0, if_false, List.append_assoc, List.singleton_append] at h ⊢
    obtain ⟨r1, e1, h1, hr1⟩ := readUint_free _ r pre _ h hr
    obtain ⟨r2, e2, h2, hr2⟩ := readBit_free r1 _ suf _ h1 hr1
    refine ⟨r2, ?_, by simpa [List.append_assoc] using h2, hr2⟩
    have hne : ((v.natAbs : Nat) : Int) ≠ 0 := by omega
    simp only [Reader.readSint, e1, bind, Except.bind, ne_eq, hne, not_false_eq_true, if_true, e2,
      pure, Except.pure]
    congr 2
    by_cases hneg : v < 0
    · simp [hneg]; omega
    · simp [hneg]; omega

/-! ### Writing outside a bounded block -/

theorem writeBits_free : ∀ (bs : List Bool) (w : Writer), w.rem = none →
    w.writeBits bs = .ok { w with out := w.out ++ bs } := by
  intro bs
  induction bs with
  | nil => intro w _; simp [Writer.writeBits]
  | cons b bs ih =>
    intro w hw
    have e : w.writeBit b = .ok { w with out := w.out ++ [b] } := by
      unfold Writer.writeBit; rw [hw]
    simp only [Writer.writeBits, e, bind, Except.bind]
    rw [ih _ (by simpa using hw)]
    simp [List.append_assoc]

end VC2.Proofs.BitIO

namespace VC2.Proofs.BitIO
open VC2 VC2.Model.BitIO VC2.Gen

/-! ### Lengths -/

theorem bitLength_succ (v : Nat) : bitLength ((v : Int) + 1) = (Nat.log2 (v + 1) + 1 : Nat) := by
  unfold bitLength
  have h : ((v : Int) + 1) ≠ 0 := by omega
  have e : ((v : Int) + 1).natAbs = v + 1 := by omega
  simp [h, e]

theorem exp_golomb_length_eq (v : Nat) :
    exp_golomb_length (v : Int) = ((encodeUint v).length : Int) := by
  unfold exp_golomb_length
  have h : ¬ ((v : Int) < 0) := by omega
  simp only [h, if_false, bitLength_succ, encodeUint_length]
  omega

theorem encodeSint_length (v : Int) :
    ((encodeSint v).length : Int) = (encodeUint v.natAbs).length + (if v = 0 then 0 else 1) := by
  unfold encodeSint
  by_cases h : v = 0 <;> simp [h]

theorem signed_exp_golomb_length_eq (v : Int) :
    signed_exp_golomb_length v = ((encodeSint v).length : Int) := by
  unfold signed_exp_golomb_length
  rw [encodeSint_length, pyabs_eq, exp_golomb_length_eq]
  by_cases h : v = 0 <;> simp [h]

/-! ### Fuel is never exhausted -/

def remaining (r : Reader) : Nat := r.all.length - r.pos

theorem rawBit_remaining (r r' : Reader) (b : Bool) (h : r.rawBit = .ok (b, r')) :
    remaining r' < remaining r ∧ r'.all = r.all := by
  unfold Reader.rawBit at h
  cases hg : r.all[r.pos]? with
  | none => rw [hg] at h; cases h
  | some x =>
    rw [hg] at h
    have hlt : r.pos < r.all.length := by
      have := List.getElem?_eq_some_iff.1 hg; exact this.1
    injection h with h; injection h with _ h2
    subst h2; simp [remaining]; omega

theorem readBit_remaining (r r' : Reader) (b : Bool) (h : r.readBit = .ok (b, r')) :
    remaining r' ≤ remaining r ∧ (b = false → remaining r' < remaining r) ∧ r'.all = r.all := by
  unfold Reader.readBit at h
  cases hr : r.rem with
  | none =>
    rw [hr] at h; simp only at h
    have := rawBit_remaining r r' b h
    exact ⟨by omega, fun _ => this.1, this.2⟩
  | some n =>
    rw [hr] at h; simp only at h
    by_cases hn : n - 1 ≤ -1
    · rw [if_pos hn] at h
      injection h with h; injection h with h1 h2
      subst h2; subst h1
      exact ⟨by simp [remaining], by simp, rfl⟩
    · rw [if_neg hn] at h
      have := rawBit_remaining _ r' b h
      exact ⟨by simpa [remaining] using Nat.le_of_lt this.1, fun _ => by simpa [remaining] using this.1, this.2⟩

theorem readUintLoop_fuel : ∀ (fuel : Nat) (r : Reader) (v : Nat),
    remaining r < fuel → Reader.readUintLoop fuel r v ≠ .error .fuel := by
  intro fuel
  induction fuel with
  | zero => intro r v h; omega
  | succ f ih =>
    intro r v h
    unfold Reader.readUintLoop
    cases e1 : r.readBit with
    | error e =>
      simp only [bind, Except.bind]
      intro hc; injection hc with hc; subst hc
      -- readBit never yields a fuel error
      unfold Reader.readBit Reader.rawBit at e1
      cases hr : r.rem <;> rw [hr] at e1 <;> simp only at e1
      · split at e1 <;> cases e1
      · split at e1
        · cases e1
        · split at e1 <;> cases e1
    | ok p =>
      obtain ⟨b, r1⟩ := p
      simp only [bind, Except.bind]
      have m1 := readBit_remaining r r1 b e1
      cases b with
      | true => simp [pure, Except.pure]
      | false =>
        simp only [Bool.false_eq_true, if_false]
        cases e2 : r1.readBit with
        | error e =>
          simp only
          intro hc; injection hc with hc; subst hc
          unfold Reader.readBit Reader.rawBit at e2
          cases hr : r1.rem <;> rw [hr] at e2 <;> simp only at e2
          · split at e2 <;> cases e2
          · split at e2
            · cases e2
            · split at e2 <;> cases e2
        | ok p2 =>
          obtain ⟨b2, r2⟩ := p2
          simp only
          have m2 := readBit_remaining r1 r2 b2 e2
          exact ih r2 _ (by have := m1.2.1 rfl; omega)

/-- `read_uint` never fails for want of loop iterations: the model's fuel is adequate -/
theorem readUint_no_fuel_error (r : Reader) : r.readUint ≠ .error .fuel := by
  unfold Reader.readUint
  have := readUintLoop_fuel r.fuel r 1 (by unfold Reader.fuel remaining; omega)
  cases h : Reader.readUintLoop r.fuel r 1 with
  | error e => simp only [bind, Except.bind]; intro hc; injection hc with hc; subst hc; exact this h
  | ok p => simp [bind, Except.bind, pure, Except.pure]

end VC2.Proofs.BitIO

namespace VC2.Proofs.BitIO
open VC2 VC2.Model.BitIO

/-! ### The two readers agree inside bounded blocks -/

/-- simulation relation: same stream, same position, and the validator's `bits_left` is the
    bitstream reader's `bits_remaining` clamped at zero -/
def Sim (r : Reader) (d : DReader) : Prop :=
  r.all = d.all ∧ r.pos = d.pos ∧ ∃ n : Int, r.rem = some n ∧ d.bitsLeft = (if n < 0 then 0 else n)

/-- outcome agreement up to a relation on the successor states -/
def AgreeR (R : Reader → DReader → Prop) {α : Type}
    (a : Except IOErr (α × Reader)) (b : Except IOErr (α × DReader)) : Prop :=
  match a, b with
  | .ok (x, r'), .ok (y, d') => x = y ∧ R r' d'
  | .error e, .error e' => e = e'
  | _, _ => False

abbrev Agree {α : Type} := @AgreeR Sim α

/-- outside bounded blocks: same stream and position, reader not in a block -/
def Sim0 (r : Reader) (d : DReader) : Prop := r.all = d.all ∧ r.pos = d.pos ∧ r.rem = none
abbrev Agree0 {α : Type} := @AgreeR Sim0 α

theorem agree_bind {R : Reader → DReader → Prop} {α β : Type}
    (a : Except IOErr (α × Reader)) (b : Except IOErr (α × DReader))
    (f : α × Reader → Except IOErr (β × Reader)) (g : α × DReader → Except IOErr (β × DReader))
    (h : AgreeR R a b) (hk : ∀ x r d, R r d → AgreeR R (f (x, r)) (g (x, d))) :
    AgreeR R (a >>= f) (b >>= g) := by
  cases a with
  | error e =>
    cases b with
    | error e' => simpa [AgreeR, bind, Except.bind] using h
    | ok q => exact h.elim
  | ok p =>
    cases b with
    | error e' => exact h.elim
    | ok q =>
      obtain ⟨x, r⟩ := p; obtain ⟨y, d⟩ := q
      obtain ⟨hxy, hs⟩ := h
      subst hxy
      exact hk x r d hs

theorem sim_readBit (r : Reader) (d : DReader) (h : Sim r d) : Agree r.readBit d.readBitb := by
  obtain ⟨ha, hp, n, hn, hl⟩ := h
  unfold Reader.readBit DReader.readBitb
  rw [hn]; simp only
  by_cases hpos : n - 1 ≤ -1
  · have hz : d.bitsLeft = 0 := by rw [hl]; split <;> omega
    rw [if_pos hpos, if_pos hz]
    refine ⟨rfl, ha, hp, n - 1, rfl, ?_⟩
    rw [hz]; split <;> omega
  · have hnz : d.bitsLeft ≠ 0 := by rw [hl]; split <;> omega
    rw [if_neg hpos, if_neg hnz]
    unfold Reader.rawBit DReader.readBit
    simp only [ha, hp]
    cases hg : d.all[d.pos]? with
    | none => simp [AgreeR]
    | some b =>
      refine ⟨rfl, rfl, rfl, n - 1, rfl, ?_⟩
      simp only [hl]; split <;> split <;> omega

theorem sim_fuel (r : Reader) (d : DReader) (h : Sim r d) : r.fuel = d.fuel := by
  unfold Reader.fuel DReader.fuel; rw [h.1, h.2.1]

theorem sim_readUintLoop : ∀ (fuel : Nat) (r : Reader) (d : DReader) (v : Nat), Sim r d →
    Agree (Reader.readUintLoop fuel r v) (DReader.readUintLoop true fuel d v) := by
  intro fuel
  induction fuel with
  | zero => intro r d v _; simp [Reader.readUintLoop, DReader.readUintLoop, AgreeR]
  | succ f ih =>
    intro r d v h
    unfold Reader.readUintLoop DReader.readUintLoop
    simp only [if_true]
    apply agree_bind _ _ _ _ (sim_readBit r d h)
    intro b r1 d1 hs
    cases b with
    | true => exact ⟨rfl, hs⟩
    | false =>
      simp only [Bool.false_eq_true, if_false]
      apply agree_bind _ _ _ _ (sim_readBit r1 d1 hs)
      intro b2 r2 d2 hs2
      exact ih r2 d2 _ hs2

theorem sim_readUint (r : Reader) (d : DReader) (h : Sim r d) :
    Agree r.readUint (d.readUintG true) := by
  unfold Reader.readUint DReader.readUintG
  rw [sim_fuel r d h]
  apply agree_bind _ _ _ _ (sim_readUintLoop d.fuel r d 1 h)
  intro v r1 d1 hs
  exact ⟨rfl, hs⟩

theorem sim_readSint (r : Reader) (d : DReader) (h : Sim r d) :
    Agree r.readSint (d.readSintG true) := by
  unfold Reader.readSint DReader.readSintG
  apply agree_bind _ _ _ _ (sim_readUint r d h)
  intro v r1 d1 hs
  by_cases h0 : v = 0
  · simp only [h0, ne_eq, not_true_eq_false, if_false]; exact ⟨rfl, hs⟩
  · simp only [ne_eq, h0, not_false_eq_true, if_true]
    apply agree_bind _ _ _ _ (sim_readBit r1 d1 hs)
    intro b r2 d2 hs2
    exact ⟨rfl, hs2⟩

/-! ### … and outside them (un-bounded primitives of the validator's reader) -/

theorem sim0_readBit (r : Reader) (d : DReader) (h : Sim0 r d) : Agree0 r.readBit d.readBit := by
  obtain ⟨ha, hp, hn⟩ := h
  unfold Reader.readBit Reader.rawBit DReader.readBit
  rw [hn]; simp only [ha, hp]
  cases hg : d.all[d.pos]? with
  | none => simp [AgreeR]
  | some b => exact ⟨rfl, rfl, rfl, rfl⟩

theorem sim0_fuel (r : Reader) (d : DReader) (h : Sim0 r d) : r.fuel = d.fuel := by
  unfold Reader.fuel DReader.fuel; rw [h.1, h.2.1]

theorem sim0_readUintLoop : ∀ (fuel : Nat) (r : Reader) (d : DReader) (v : Nat), Sim0 r d →
    Agree0 (Reader.readUintLoop fuel r v) (DReader.readUintLoop false fuel d v) := by
  intro fuel
  induction fuel with
  | zero => intro r d v _; simp [Reader.readUintLoop, DReader.readUintLoop, AgreeR]
  | succ f ih =>
    intro r d v h
    unfold Reader.readUintLoop DReader.readUintLoop
    simp only [Bool.false_eq_true, if_false]
    apply agree_bind _ _ _ _ (sim0_readBit r d h)
    intro b r1 d1 hs
    cases b with
    | true => exact ⟨rfl, hs⟩
    | false =>
      simp only [Bool.false_eq_true, if_false]
      apply agree_bind _ _ _ _ (sim0_readBit r1 d1 hs)
      intro b2 r2 d2 hs2
      exact ih r2 d2 _ hs2

theorem sim0_readUint (r : Reader) (d : DReader) (h : Sim0 r d) :
    Agree0 r.readUint (d.readUintG false) := by
  unfold Reader.readUint DReader.readUintG
  rw [sim0_fuel r d h]
  apply agree_bind _ _ _ _ (sim0_readUintLoop d.fuel r d 1 h)
  intro v r1 d1 hs
  exact ⟨rfl, hs⟩

theorem sim0_readSint (r : Reader) (d : DReader) (h : Sim0 r d) :
    Agree0 r.readSint (d.readSintG false) := by
  unfold Reader.readSint DReader.readSintG
  apply agree_bind _ _ _ _ (sim0_readUint r d h)
  intro v r1 d1 hs
  by_cases h0 : v = 0
  · simp only [h0, ne_eq, not_true_eq_false, if_false]; exact ⟨rfl, hs⟩
  · simp only [ne_eq, h0, not_false_eq_true, if_true, Bool.false_eq_true, if_false]
    apply agree_bind _ _ _ _ (sim0_readBit r1 d1 hs)
    intro b r2 d2 hs2
    exact ⟨rfl, hs2⟩

theorem sim0_readNbitsLoop : ∀ (n : Nat) (r : Reader) (d : DReader) (v : Nat), Sim0 r d →
    Agree0 (Reader.readNbitsLoop n r v) (DReader.readNbitsLoop n d v) := by
  intro n
  induction n with
  | zero => intro r d v h; exact ⟨rfl, h⟩
  | succ i ih =>
    intro r d v h
    unfold Reader.readNbitsLoop DReader.readNbitsLoop
    apply agree_bind _ _ _ _ (sim0_readBit r d h)
    intro b r1 d1 hs
    exact ih r1 d1 _ hs

/-- `bits_left` never becomes negative when it starts non-negative -/
theorem readBitb_nonneg (d d' : DReader) (b : Bool) (h0 : 0 ≤ d.bitsLeft)
    (h : d.readBitb = .ok (b, d')) : 0 ≤ d'.bitsLeft ∧ d'.bitsLeft ≤ d.bitsLeft := by
  unfold DReader.readBitb at h
  by_cases hz : d.bitsLeft = 0
  · rw [if_pos hz] at h; injection h with h; injection h with _ h2; subst h2; omega
  · rw [if_neg hz] at h
    unfold DReader.readBit at h
    simp only at h
    split at h
    · cases h
    · injection h with h; injection h with _ h2; subst h2; simp; omega

end VC2.Proofs.BitIO
