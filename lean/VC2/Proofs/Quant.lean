/-
  Helper lemmas for C12 (quantisation).  Core Lean only.
-/
import VC2.Gen.Kernels
namespace VC2.Proofs.Quant
open VC2 VC2.Gen

/-- `2 ** (i // 4)` for `i ≥ 0` is a positive power of two. -/
theorem base_pos (i : Int) : 0 < pypow 2 (pydiv i 4) := pypow_two_pos _

theorem pydiv4 (i : Int) : pydiv i 4 = i / 4 := pydiv_pos i 4 (by decide)
theorem pymod4 (i : Int) : pymod i 4 = i % 4 := pymod_pos i 4 (by decide)

/-- the four branches of `quant_factor`, as functions of the base `b`. -/
def q0 (b : Int) : Int := 4 * b
def q1 (b : Int) : Int := (503829 * b + 52958) / 105917
def q2 (b : Int) : Int := (665857 * b + 58854) / 117708
def q3 (b : Int) : Int := (440253 * b + 32722) / 65444

theorem quant_factor_eq (i : Int) :
    quant_factor i =
      (if i % 4 = 0 then q0 (pypow 2 (i / 4))
       else if i % 4 = 1 then q1 (pypow 2 (i / 4))
       else if i % 4 = 2 then q2 (pypow 2 (i / 4))
       else q3 (pypow 2 (i / 4))) := by
  unfold quant_factor q0 q1 q2 q3
  simp only [pydiv4, pymod4, pydiv_pos _ 105917 (by decide), pydiv_pos _ 117708 (by decide),
    pydiv_pos _ 65444 (by decide)]
  have h3 : i % 4 = 0 ∨ i % 4 = 1 ∨ i % 4 = 2 ∨ i % 4 = 3 := by omega
  rcases h3 with h | h | h | h <;> simp [h]

theorem chain01 (b : Int) (hb : 1 ≤ b) : q0 b < q1 b := by
  unfold q0 q1
  by_cases h : b = 1
  · subst h; decide
  · omega
theorem chain12 (b : Int) (hb : 1 ≤ b) : q1 b < q2 b := by
  unfold q1 q2
  by_cases h : b = 1
  · subst h; decide
  · omega
theorem chain23 (b : Int) (hb : 1 ≤ b) : q2 b < q3 b := by
  unfold q2 q3
  by_cases h : b = 1
  · subst h; decide
  · omega
theorem chain30 (b : Int) (hb : 1 ≤ b) : q3 b < q0 (2 * b) := by
  unfold q3 q0
  by_cases h : b = 1
  · subst h; decide
  · omega

theorem pow_step (i : Int) (hi : 0 ≤ i) (h : i % 4 = 3) :
    pypow 2 ((i + 1) / 4) = 2 * pypow 2 (i / 4) := by
  have : (i + 1) / 4 = i / 4 + 1 := by omega
  rw [this]; exact pypow_two_succ _ (by omega)

theorem pow_same (i : Int) (h : i % 4 ≠ 3) : (i + 1) / 4 = i / 4 := by omega

/-- Reconstruction bound for a non-negative coefficient with an abstract factor/offset
    (indices ≥ 2: offset = (qf+1)/2, qf ≥ 6). -/
theorem recon_nonneg_generic (qf x : Int) (hqf : 6 ≤ qf) (hx : 0 ≤ x) :
    let q := (4 * x) / qf
    let m := if q = 0 then 0 else (q * qf + (qf + 1) / 2 + 2) / 4
    4 * (m - x) < qf ∧ 4 * (x - m) < qf ∧ 0 ≤ m ∧ (0 < q → 0 < m) := by
  intro q m
  have hpos : 0 < qf := by omega
  have h1 : q * qf ≤ 4 * x := Int.ediv_mul_le _ (by omega)
  have h2 : 4 * x < (q + 1) * qf := Int.lt_ediv_add_one_mul_self _ hpos
  have hq0 : 0 ≤ q := Int.ediv_nonneg (by omega) (by omega)
  have h3 : (q + 1) * qf = q * qf + qf := by rw [Int.add_mul]; omega
  by_cases hq : q = 0
  · simp only [m, hq, if_true]
    rw [hq] at h2
    omega
  · have hm : m = (q * qf + (qf + 1) / 2 + 2) / 4 := by simp only [m, hq, if_false]
    have hq1 : 1 ≤ q := by omega
    have h4 : qf ≤ q * qf := by
      have := Int.mul_le_mul_of_nonneg_right hq1 (Int.le_of_lt hpos)
      omega
    rw [hm]
    generalize q * qf = t at *
    omega

end VC2.Proofs.Quant

namespace VC2.Proofs.Quant
open VC2 VC2.Gen

theorem quant_factor_ge_4' (i : Int) : 4 ≤ quant_factor i := by
  rw [quant_factor_eq]
  have hb := base_pos i; rw [pydiv4] at hb
  generalize pypow 2 (i / 4) = b at hb
  unfold q0 q1 q2 q3
  split
  · omega
  · split
    · omega
    · split <;> omega

theorem sign_eq (a : Int) : sign a = if 0 < a then 1 else if a = 0 then 0 else -1 := by
  unfold sign
  by_cases h1 : a > 0
  · simp [h1]
  · by_cases h2 : a = 0
    · simp [h2]
    · have : a < 0 := by omega
      simp [h1, h2, this]

theorem forward_quant_nonneg (x i : Int) (hx : 0 ≤ x) :
    forward_quant x i = (4 * x) / quant_factor i := by
  unfold forward_quant
  have hq := quant_factor_ge_4' i
  have : pyabs x = x := by unfold pyabs; split <;> omega
  simp only [this, ge_iff_le, hx, if_true]
  exact pydiv_pos _ _ (by omega)

theorem forward_quant_neg (x i : Int) (hx : x < 0) :
    forward_quant x i = -((4 * (-x)) / quant_factor i) := by
  unfold forward_quant
  have hq := quant_factor_ge_4' i
  have : pyabs x = -x := by unfold pyabs; split <;> omega
  have h2 : ¬ (0 ≤ x) := by omega
  simp only [this, ge_iff_le, h2, if_false]
  rw [pydiv_pos _ _ (by omega)]

theorem inverse_quant_pos (q i : Int) (hq : 0 < q) :
    inverse_quant q i = (q * quant_factor i + quant_offset i + 2) / 4 := by
  unfold inverse_quant
  have : pyabs q = q := by unfold pyabs; split <;> omega
  have h2 : q ≠ 0 := by omega
  simp only [this, ne_eq, h2, not_false_eq_true, if_true, sign_eq, hq, pydiv4]
  omega

theorem inverse_quant_zero (i : Int) : inverse_quant 0 i = 0 := by
  unfold inverse_quant
  have : pyabs 0 = 0 := by decide
  simp [this, sign_eq]

theorem inverse_quant_negarg (q i : Int) (hq : 0 < q) :
    inverse_quant (-q) i = -((q * quant_factor i + quant_offset i + 2) / 4) := by
  unfold inverse_quant
  have : pyabs (-q) = q := by unfold pyabs; split <;> omega
  have h2 : q ≠ 0 := by omega
  have h3 : ¬ (0 < -q) := by omega
  have h4 : ¬ (-q = 0) := by omega
  simp only [this, ne_eq, h2, not_false_eq_true, if_true, sign_eq, h3, h4, if_false, pydiv4]
  omega

theorem quant_offset_eq (i : Int) :
    quant_offset i = if i = 0 then 1 else if i = 1 then 2 else (quant_factor i + 1) / 2 := by
  unfold quant_offset
  split
  · rfl
  · split
    · rfl
    · exact pydiv_pos _ 2 (by decide)

theorem qf_0 : quant_factor 0 = 4 := by decide
theorem qf_1 : quant_factor 1 = 5 := by decide

theorem qf_ge_6 (i : Int) (hi : 2 ≤ i) : 6 ≤ quant_factor i := by
  rw [quant_factor_eq]
  have hb := base_pos i; rw [pydiv4] at hb
  have h3 : i % 4 = 0 ∨ i % 4 = 1 ∨ i % 4 = 2 ∨ i % 4 = 3 := by omega
  rcases h3 with h | h | h | h
  · -- i ≥ 4, base ≥ 2
    have : 1 ≤ i / 4 := by omega
    have hb2 : 2 ≤ pypow 2 (i / 4) := by
      have e : i / 4 = (i / 4 - 1) + 1 := by omega
      rw [e, pypow_two_succ _ (by omega)]
      have := pypow_two_pos (i / 4 - 1)
      omega
    simp only [h, if_true]; unfold q0; omega
  · have : 1 ≤ i / 4 := by omega
    have hb2 : 2 ≤ pypow 2 (i / 4) := by
      have e : i / 4 = (i / 4 - 1) + 1 := by omega
      rw [e, pypow_two_succ _ (by omega)]
      have := pypow_two_pos (i / 4 - 1)
      omega
    simp only [h]; simp; unfold q1; omega
  · simp only [h]; simp; unfold q2; omega
  · simp only [h]; simp; unfold q3; omega

/-- reconstruction of a non-negative coefficient, every index ≥ 0 -/
theorem recon_nonneg (i x : Int) (hi : 0 ≤ i) (hx : 0 ≤ x) :
    let r := inverse_quant (forward_quant x i) i
    4 * (r - x) < quant_factor i ∧ 4 * (x - r) < quant_factor i ∧ 0 ≤ r ∧
      (r = 0 ∨ 0 < r) ∧ (i = 0 → r = x) := by
  intro r
  have hqf := quant_factor_ge_4' i
  have hq0 : 0 ≤ (4 * x) / quant_factor i := Int.ediv_nonneg (by omega) (by omega)
  have hr : r = inverse_quant ((4 * x) / quant_factor i) i := by
    simp only [r, forward_quant_nonneg x i hx]
  by_cases hq : (4 * x) / quant_factor i = 0
  · have hr0 : r = 0 := by rw [hr, hq, inverse_quant_zero]
    have h2 : 4 * x < ((4 * x) / quant_factor i + 1) * quant_factor i :=
      Int.lt_ediv_add_one_mul_self _ (by omega)
    rw [hq] at h2
    refine ⟨by omega, by omega, by omega, Or.inl hr0, ?_⟩
    intro h0; subst h0; rw [qf_0] at h2; omega
  · have hqpos : 0 < (4 * x) / quant_factor i := by omega
    rw [inverse_quant_pos _ _ hqpos] at hr
    by_cases h0 : i = 0
    · subst h0
      rw [qf_0] at hr hqpos
      rw [quant_offset_eq] at hr; simp at hr
      have : r = x := by omega
      refine ⟨by rw [qf_0]; omega, by rw [qf_0]; omega, by omega, by omega, fun _ => this⟩
    · by_cases h1 : i = 1
      · subst h1
        rw [qf_1] at hr hqpos ⊢
        rw [quant_offset_eq] at hr; simp at hr
        refine ⟨by omega, by omega, by omega, by omega, by omega⟩
      · have h6 := qf_ge_6 i (by omega)
        have g := recon_nonneg_generic (quant_factor i) x h6 hx
        simp only [hq, if_false] at g
        rw [quant_offset_eq] at hr; simp only [h0, h1, if_false] at hr
        rw [← hr] at g
        refine ⟨g.1, g.2.1, g.2.2.1, Or.inr (g.2.2.2 hqpos), fun h => absurd h h0⟩

theorem forward_quant_neg_sym (x i : Int) (hx : x < 0) :
    forward_quant x i = -(forward_quant (-x) i) := by
  rw [forward_quant_neg x i hx, forward_quant_nonneg (-x) i (by omega)]

theorem inverse_quant_odd (q i : Int) : inverse_quant (-q) i = -(inverse_quant q i) := by
  by_cases h : 0 < q
  · rw [inverse_quant_negarg q i h, inverse_quant_pos q i h]
  · by_cases h0 : q = 0
    · subst h0; simp [inverse_quant_zero]
    · have hp : 0 < -q := by omega
      have := inverse_quant_negarg (-q) i hp
      rw [Int.neg_neg] at this
      rw [this, inverse_quant_pos (-q) i hp]; omega

end VC2.Proofs.Quant

namespace VC2.Proofs.Quant
open VC2 VC2.Gen

/-- dequantised value of 1 as a function of the factor (indices ≥ 2) -/
def f1 (qf : Int) : Int := (qf + (qf + 1) / 2 + 2) / 4

theorem iq1_eq (i : Int) (hi : 2 ≤ i) : inverse_quant 1 i = f1 (quant_factor i) := by
  rw [inverse_quant_pos 1 i (by decide), quant_offset_eq]
  have h0 : ¬ i = 0 := by omega
  have h1 : ¬ i = 1 := by omega
  simp only [h0, h1, if_false, f1]; omega

theorem f1chain01 (b : Int) (hb : 4 ≤ b) : f1 (q0 b) < f1 (q1 b) := by
  unfold f1 q0 q1; omega
theorem f1chain12 (b : Int) (hb : 4 ≤ b) : f1 (q1 b) < f1 (q2 b) := by
  unfold f1 q1 q2; omega
theorem f1chain23 (b : Int) (hb : 4 ≤ b) : f1 (q2 b) < f1 (q3 b) := by
  unfold f1 q2 q3; omega
theorem f1chain30 (b : Int) (hb : 4 ≤ b) : f1 (q3 b) < f1 (q0 (2 * b)) := by
  unfold f1 q3 q0; omega

theorem base_ge_4 (i : Int) (hi : 8 ≤ i) : 4 ≤ pypow 2 (i / 4) := by
  have e : i / 4 = ((i / 4 - 2) + 1) + 1 := by omega
  rw [e, pypow_two_succ _ (by omega), pypow_two_succ _ (by omega)]
  have := pypow_two_pos (i / 4 - 2)
  omega

end VC2.Proofs.Quant
