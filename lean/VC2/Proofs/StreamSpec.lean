/- Equivalence of the validator model (`Stream.run`) and the rule-level specification
   (`StreamSpec.specRun`).  Helper lemmas; the property theorem is in Props/C01History.lean. -/
import VC2.Props.C01
import VC2.Model.StreamSpec
namespace VC2.Proofs.StreamSpec
open VC2 VC2.Model.SymRe VC2.Model.Stream VC2.Model.StreamSpec VC2.Proofs.Stream

/-! ### individually valid units -/

theorem wf_cases (u : DUnit) (h : unitWF u = true) : 13 ≤ u.len ∧
    ((u.code = 0 ∧ u.kind = .seqHdr) ∨ (u.code = 16 ∧ u.kind = .eos) ∨ (u.code = 32 ∧ u.kind = .aux) ∨
     (u.code = 48 ∧ u.kind = .padding) ∨ (u.code = 200 ∧ u.kind = .picture) ∨ (u.code = 232 ∧ u.kind = .picture) ∨
     (u.code = 204 ∧ u.kind = .fragment) ∨ (u.code = 236 ∧ u.kind = .fragment)) := by
  unfold unitWF kindOfCode at h
  simp only [Bool.and_eq_true, beq_iff_eq, decide_eq_true_eq] at h
  refine ⟨h.2, ?_⟩
  have h1 := h.1
  split at h1
  · left; exact ⟨by assumption, (Option.some.inj h1).symm⟩
  split at h1
  · right; left; exact ⟨by assumption, (Option.some.inj h1).symm⟩
  split at h1
  · right; right; left; exact ⟨by assumption, (Option.some.inj h1).symm⟩
  split at h1
  · right; right; right; left; exact ⟨by assumption, (Option.some.inj h1).symm⟩
  split at h1
  · rename_i hc
    have hk : u.kind = .picture := (Option.some.inj h1).symm
    rcases hc with hc | hc
    · right; right; right; right; left; exact ⟨hc, hk⟩
    · right; right; right; right; right; left; exact ⟨hc, hk⟩
  split at h1
  · rename_i hc
    have hk : u.kind = .fragment := (Option.some.inj h1).symm
    rcases hc with hc | hc
    · right; right; right; right; right; right; left; exact ⟨hc, hk⟩
    · right; right; right; right; right; right; right; exact ⟨hc, hk⟩
  · cases h1

/-- the facts about a valid unit's parse code that the validator consults -/
structure CodeFacts (u : DUnit) : Prop where
  len : 13 ≤ u.len
  eos : u.code = 16 ↔ u.kind = .eos
  hdr : u.code = 0 ↔ u.kind = .seqHdr
  pic : isPicture u.code = true ↔ u.kind = .picture
  frag : isFragment u.code = true ↔ u.kind = .fragment
  name_hdr : codeName u.code = "sequence_header" ↔ u.kind = .seqHdr

theorem codeFacts (u : DUnit) (h : unitWF u = true) : CodeFacts u := by
  obtain ⟨hl, hc⟩ := wf_cases u h
  rcases hc with ⟨c, k⟩ | ⟨c, k⟩ | ⟨c, k⟩ | ⟨c, k⟩ | ⟨c, k⟩ | ⟨c, k⟩ | ⟨c, k⟩ | ⟨c, k⟩ <;>
    exact ⟨hl, by rw [c, k]; decide, by rw [c, k]; decide, by rw [c, k]; decide, by rw [c, k]; decide,
      by rw [c, k]; decide⟩

/-! ### the relation between validator state and rule context -/

structure Rel (cfg : Config) (s : VState) (c : Ctx) : Prop where
  pos_ge : c.prevLen ≤ s.pos
  lastPI : s.lastPI = some (s.pos - c.prevLen)
  nextOff : s.nextOff = some c.prevNext
  generic : s.generic = c.generic
  level : s.level = some c.level
  profile : s.profile = some c.hdr.profile
  mv : s.majorVersion = some c.hdr.majorVersion
  pcm : s.pcm = some c.hdr.pcm
  lastHdr : s.lastHdr = some c.hdr.hdrId
  expected : s.expectedVersion = some c.need
  need_ge : profileNeed c.hdr.profile ≤ c.need
  hdr_ok : profileNeed c.hdr.profile ≤ (c.hdr.majorVersion : Int)
  hdr_kind : c.hdr.kind = .seqHdr
  lastNum : s.lastPicNum = c.lastNum
  npics : s.numPics = c.npics
  frag : match c.frag with
    | none => s.fragRemaining = 0
    | some (num, got) =>
      s.fragRemaining = cfg.slicesX * cfg.slicesY - got ∧ got < cfg.slicesX * cfg.slicesY ∧
      s.fragReceived = some got ∧ c.lastNum = some num ∧ s.slicesX = some cfg.slicesX ∧
      s.slicesY = some cfg.slicesY ∧ s.initFragOffset ≠ none

/-- what a successful `parse_info` leaves behind, exactly -/
theorem parseInfo_ok' (s s1 : VState) (u : DUnit) (h : parseInfo s u = .ok s1) :
    ∃ g lvl, s.generic.matchSymbol (codeName u.code) = some g ∧
      levelStep s.level (codeName u.code) = .ok lvl ∧
      s1 = { s with generic := g, level := lvl,
                    expectedVersion := some (pymax (s.expectedVersion.getD VC2.Gen.MINIMUM_MAJOR_VERSION)
                      (VC2.Gen.parse_code_version_implication u.code)),
                    nextOff := some u.next, lastPI := some s.pos } := by
  unfold parseInfo at h
  simp only [bind_ok, guardRej_ok, pure_ok, matchOrRej_ok] at h
  obtain ⟨_, _, g, hg, lvl, hl, _, _, _, _, _, _, _, _, _, _, _, _, _, _, h⟩ := h
  exact ⟨g, lvl, hg, hl, h.symm⟩

theorem levelStep_some (lm : Matcher) (name : String) (lvl : Option Matcher) :
    levelStep (some lm) name = .ok lvl ↔ ∃ l, lm.matchSymbol name = some l ∧ lvl = some l := by
  unfold levelStep
  simp only [bind_ok, matchOrRej_ok, pure_ok]
  constructor
  · rintro ⟨l, h1, h2⟩; exact ⟨l, h1, h2.symm⟩
  · rintro ⟨l, h1, h2⟩; exact ⟨l, h1, h2.symm⟩

/-- the checks of `parse_info` that do not depend on the kind of unit, in rule terms -/
def piOk (c : Ctx) (u : DUnit) : Bool :=
  pendingOk c && u.prev == c.prevLen &&
  profileAllows c.hdr.profile u.code && decide (codeNeed u.code ≤ (c.hdr.majorVersion : Int)) &&
  (match u.kind with
   | .eos => u.next == 0
   | .picture | .fragment => u.next == 0 || decide (13 ≤ u.next)
   | _ => decide (13 ≤ u.next))

theorem parseInfo_iff (cfg : Config) (s : VState) (c : Ctx) (u : DUnit) (hr : Rel cfg s c) (hw : unitWF u = true)
    (s1 : VState) :
    parseInfo s u = .ok s1 ↔
      ∃ g l, c.generic.matchSymbol (codeName u.code) = some g ∧ c.level.matchSymbol (codeName u.code) = some l ∧
        piOk c u = true ∧
        s1 = { s with generic := g, level := some l, expectedVersion := some (pymax c.need (codeNeed u.code)),
                      nextOff := some u.next, lastPI := some s.pos } := by
  have cf := codeFacts u hw
  constructor
  · intro h
    obtain ⟨g, lvl, hg, hl, hs1⟩ := parseInfo_ok' s s1 u h
    rw [hr.level, levelStep_some] at hl
    obtain ⟨l, hl1, hl2⟩ := hl
    have hex := (VC2.Props.C01.parse_info_accepts_iff s u).1 ⟨s1, h⟩
    obtain ⟨h1, _, _, h4, h5, h6, h7, h8, _, h10⟩ := hex
    refine ⟨g, l, by rw [← hr.generic]; exact hg, hl1, ?_, ?_⟩
    · unfold piOk pendingOk
      have hp : (c.prevNext == 0 || c.prevNext == c.prevLen) = true := by
        rw [hr.nextOff, hr.lastPI] at h1
        rcases h1 with h1 | h1 | ⟨last, h1, h2⟩
        · cases h1
        · simp at h1; simp [h1]
        · simp at h1 h2
          have := hr.pos_ge
          have : c.prevNext = c.prevLen := by omega
          simp [this]
      have hprev : (u.prev == c.prevLen) = true := by
        have := h10 _ hr.lastPI
        have := hr.pos_ge
        simp; omega
      have hprof := h4 _ hr.profile
      have hver : codeNeed u.code ≤ (c.hdr.majorVersion : Int) := by
        rw [hr.mv] at h5; simp at h5; exact h5
      simp only [hp, hprev, hprof, hver, decide_true, Bool.true_and]
      cases hk : u.kind with
      | eos => simp; exact h6 (cf.eos.2 hk)
      | picture => simp; omega
      | fragment => simp; omega
      | aux =>
        simp
        have : u.next ≠ 0 := by
          intro h0
          rcases h7 h0 with a | a | a
          · have := cf.eos.1 a; rw [hk] at this; cases this
          · have := cf.pic.1 a; rw [hk] at this; cases this
          · have := cf.frag.1 a; rw [hk] at this; cases this
        omega
      | padding =>
        simp
        have : u.next ≠ 0 := by
          intro h0
          rcases h7 h0 with a | a | a
          · have := cf.eos.1 a; rw [hk] at this; cases this
          · have := cf.pic.1 a; rw [hk] at this; cases this
          · have := cf.frag.1 a; rw [hk] at this; cases this
        omega
      | seqHdr =>
        simp
        have : u.next ≠ 0 := by
          intro h0
          rcases h7 h0 with a | a | a
          · have := cf.eos.1 a; rw [hk] at this; cases this
          · have := cf.pic.1 a; rw [hk] at this; cases this
          · have := cf.frag.1 a; rw [hk] at this; cases this
        omega
    · rw [hs1, hl2, hr.expected]; rfl
  · rintro ⟨g, l, hg, hl, hpi, hs1⟩
    unfold piOk pendingOk at hpi
    simp only [Bool.and_eq_true, Bool.or_eq_true, beq_iff_eq, decide_eq_true_eq] at hpi
    obtain ⟨⟨⟨⟨hp, hprev⟩, hprof⟩, hver⟩, hnext⟩ := hpi
    have hex : ∃ s1, parseInfo s u = .ok s1 := by
      refine (VC2.Props.C01.parse_info_accepts_iff s u).2 ⟨?_, ?_, ?_, ?_, ?_, ?_, ?_, ?_, ?_, ?_⟩
      · rw [hr.nextOff, hr.lastPI]
        rcases hp with hp | hp
        · right; left; rw [hp]
        · right; right; refine ⟨_, rfl, ?_⟩
          have := hr.pos_ge
          congr 1; omega
      · rw [hr.generic, hg]; rfl
      · intro lm hlm; rw [hr.level] at hlm; cases hlm; rw [hl]; rfl
      · intro p hp'; rw [hr.profile] at hp'; cases hp'; exact hprof
      · rw [hr.mv]; simp; exact hver
      · intro hc; have hk := cf.eos.1 hc; rw [hk] at hnext; simpa using hnext
      · intro h0
        cases hk : u.kind with
        | eos => left; exact cf.eos.2 hk
        | picture => right; left; exact cf.pic.2 hk
        | fragment => right; right; exact cf.frag.2 hk
        | aux => rw [hk] at hnext; simp at hnext; omega
        | padding => rw [hk] at hnext; simp at hnext; omega
        | seqHdr => rw [hk] at hnext; simp at hnext; omega
      · cases hk : u.kind <;> rw [hk] at hnext <;> simp at hnext <;> omega
      · intro hl'; rw [hr.lastPI] at hl'; cases hl'
      · intro last hl'; rw [hr.lastPI] at hl'; cases hl'
        have := hr.pos_ge; omega
    obtain ⟨s1', h⟩ := hex
    obtain ⟨g', lvl, hg', hl', hs1'⟩ := parseInfo_ok' s s1' u h
    rw [hr.level, levelStep_some] at hl'
    obtain ⟨l', hl1, hl2⟩ := hl'
    rw [hr.generic, hg] at hg'; cases hg'
    rw [hl] at hl1; cases hl1
    rw [h, hs1', hs1, hl2, hr.expected]; rfl

/-- the state `parse_info` leaves, as a function -/
def afterPI (s : VState) (c : Ctx) (u : DUnit) (g l : Matcher) : VState :=
  { s with generic := g, level := some l, expectedVersion := some (pymax c.need (codeNeed u.code)),
           nextOff := some u.next, lastPI := some s.pos }

theorem frag_none_iff (cfg : Config) (s : VState) (c : Ctx) (hr : Rel cfg s c) :
    s.fragRemaining = 0 ↔ c.frag = none := by
  have := hr.frag
  cases hf : c.frag with
  | none => rw [hf] at this; simp [this]
  | some p =>
    obtain ⟨num, got⟩ := p
    rw [hf] at this; simp only at this
    constructor
    · intro h; omega
    · intro h; cases h

theorem numberOk_iff (cfg : Config) (s : VState) (c : Ctx) (hr : Rel cfg s c) (n : Nat) (s1 : VState)
    (h1 : s1.lastPicNum = s.lastPicNum) (h2 : s1.pcm = s.pcm) (h3 : s1.numPics = s.numPics) :
    (∃ s2, pictureNumberCheck s1 n = .ok s2) ↔ numberOk c n = true := by
  rw [VC2.Props.C01.picture_number_accepts_iff, h1, h2, h3, hr.lastNum, hr.pcm, hr.npics]
  unfold numberOk
  constructor
  · rintro ⟨a, pcm, hp, b⟩
    cases hp
    simp only [Bool.and_eq_true, Bool.not_eq_true', Bool.and_eq_false_imp, beq_iff_eq, bne_iff_ne]
    constructor
    · cases hl : c.lastNum with
      | none => rfl
      | some last => simp [a last hl]
    · intro x; by_cases z : n % 2 = 0
      · simp [z]
      · exact absurd ⟨x.1, x.2, z⟩ b
  · intro h
    simp only [Bool.and_eq_true, Bool.not_eq_true', Bool.and_eq_false_imp, beq_iff_eq, bne_iff_ne] at h
    refine ⟨?_, _, rfl, ?_⟩
    · intro last hl; rw [hl] at h; simpa using h.1
    · rintro ⟨x, y, z⟩; have := h.2 ⟨x, y⟩; simp at this; exact z this

theorem le_pymax_left (a b : Int) : a ≤ pymax a b := by unfold pymax; split <;> omega
theorem pymax_eq_left (a b : Int) (h : b ≤ a) : pymax a b = a := by unfold pymax; split <;> omega

def hdrRule (c : Ctx) (u : DUnit) : Bool := u.kind != .seqHdr || u.hdrId == c.hdr.hdrId

/-- the part of `Rel` that the payload of a unit does not touch, re-established after a step whose
    payload leaves the picture bookkeeping alone -/
theorem rel_after_plain (cfg : Config) (s : VState) (c : Ctx) (u : DUnit) (g l : Matcher) (hr : Rel cfg s c)
    (hk : u.kind ≠ .fragment) (hk2 : u.kind ≠ .picture) :
    Rel cfg { afterPI s c u g l with pos := s.pos + u.len } (nextCtx cfg c u g l) := by
  have hsp : startsPicture u = false := by
    unfold startsPicture; cases hk' : u.kind <;> simp_all
  have hnf : nextFrag cfg c u = c.frag := by
    unfold nextFrag; cases hk' : u.kind <;> simp_all
  refine ⟨?_, ?_, rfl, rfl, rfl, hr.profile, hr.mv, hr.pcm, hr.lastHdr, rfl, ?_, hr.hdr_ok, hr.hdr_kind, ?_, ?_, ?_⟩
  · show u.len ≤ s.pos + u.len; omega
  · show some s.pos = some (s.pos + u.len - u.len); congr 1; omega
  · show profileNeed c.hdr.profile ≤ pymax c.need (codeNeed u.code)
    exact Int.le_trans hr.need_ge (le_pymax_left _ _)
  · show s.lastPicNum = if startsPicture u then some u.picNum else c.lastNum
    rw [hsp]; exact hr.lastNum
  · show s.numPics = if startsPicture u then c.npics + 1 else c.npics
    rw [hsp]; exact hr.npics
  · show match nextFrag cfg c u with | none => _ | some (num, got) => _
    rw [hnf]
    have := hr.frag
    cases hf : c.frag with
    | none => rw [hf] at this; exact this
    | some p =>
      obtain ⟨num, got⟩ := p
      rw [hf] at this
      simp only [nextCtx, hsp] at *
      exact this

theorem payload_plain (cfg : Config) (s1 : VState) (u : DUnit) (hk : u.kind = .aux ∨ u.kind = .padding) :
    payload cfg s1 u = .ok s1 := by
  unfold payload; rcases hk with hk | hk <;> rw [hk] <;> rfl

theorem headerPayload_iff (cfg : Config) (s : VState) (c : Ctx) (u : DUnit) (g l : Matcher) (hr : Rel cfg s c)
    (hk : u.kind = .seqHdr) (hag : hdrAgree c.hdr u = true) (s2 : VState) :
    payload cfg (afterPI s c u g l) u = .ok s2 ↔ (u.hdrId = c.hdr.hdrId ∧ s2 = afterPI s c u g l) := by
  unfold payload; rw [hk]; simp only
  unfold headerPayload levelInit afterPI
  simp only [bind_ok, guardRej_ok, pure_ok]
  have hagree : u.hdrId = c.hdr.hdrId → u.profile = c.hdr.profile ∧ u.majorVersion = c.hdr.majorVersion ∧ u.pcm = c.hdr.pcm := by
    intro hid
    unfold hdrAgree at hag
    simp only [hr.hdr_kind, hk, hid, beq_self_eq_true, Bool.and_self, Bool.not_true, Bool.false_or,
      Bool.and_eq_true, beq_iff_eq] at hag
    exact ⟨hag.1.1.symm, hag.1.2.symm, hag.2.symm⟩
  constructor
  · rintro ⟨_, h1, lm, hlm, _, h2, h3⟩
    have hid : u.hdrId = c.hdr.hdrId := by
      rw [hr.lastHdr] at h2; simp at h2; exact h2.symm
    obtain ⟨a, b, d⟩ := hagree hid
    refine ⟨hid, ?_⟩
    cases hlm
    rw [← h3, a, b, d, hid]
    have e : pymax (pymax c.need (codeNeed u.code)) (VC2.Gen.profile_version_implication (c.hdr.profile : Int))
        = pymax c.need (codeNeed u.code) :=
      pymax_eq_left _ _ (Int.le_trans hr.need_ge (le_pymax_left _ _))
    simp only [Option.getD_some, e, hr.mv, hr.profile, hr.pcm, hr.lastHdr]
  · rintro ⟨hid, hs2⟩
    obtain ⟨a, b, d⟩ := hagree hid
    refine ⟨(), ?_, l, rfl, (), ?_, ?_⟩
    · rw [a, b]; simp; exact hr.hdr_ok
    · rw [hr.lastHdr, hid]; simp
    · rw [hs2, a, b, d, hid]
      have e : pymax (pymax c.need (codeNeed u.code)) (VC2.Gen.profile_version_implication (c.hdr.profile : Int))
          = pymax c.need (codeNeed u.code) :=
        pymax_eq_left _ _ (Int.le_trans hr.need_ge (le_pymax_left _ _))
      simp only [Option.getD_some, e]
      rw [← hr.mv, ← hr.profile, ← hr.pcm, ← hr.lastHdr]

theorem afterPI_fields (s : VState) (c : Ctx) (u : DUnit) (g l : Matcher) :
    (afterPI s c u g l).lastPicNum = s.lastPicNum ∧ (afterPI s c u g l).pcm = s.pcm ∧
    (afterPI s c u g l).numPics = s.numPics ∧ (afterPI s c u g l).fragRemaining = s.fragRemaining := ⟨rfl, rfl, rfl, rfl⟩

/-- a whole picture -/
theorem picturePayload_iff (cfg : Config) (s : VState) (c : Ctx) (u : DUnit) (g l : Matcher) (hr : Rel cfg s c)
    (hk : u.kind = .picture) (s2 : VState) :
    payload cfg (afterPI s c u g l) u = .ok s2 ↔
      (c.frag = none ∧ numberOk c u.picNum = true ∧
       s2 = { afterPI s c u g l with lastPicNum := some u.picNum, numPics := s.numPics + 1, slicesX := some cfg.slicesX, slicesY := some cfg.slicesY, decoded := s.decoded ++ [u.picNum] }) := by
  unfold payload; rw [hk]; simp only [bind_ok, guardRej_ok, pure_ok]
  have hnum := numberOk_iff cfg s c hr u.picNum (afterPI s c u g l) rfl rfl rfl
  constructor
  · rintro ⟨_, h1, s', h2, h3⟩
    have hf : c.frag = none := (frag_none_iff cfg s c hr).1 (by simpa [afterPI] using h1)
    refine ⟨hf, hnum.1 ⟨s', h2⟩, ?_⟩
    rw [pictureNumberCheck_ok _ _ _ h2] at h3
    rw [← h3]; rfl
  · rintro ⟨hf, hn, hs2⟩
    obtain ⟨s', h2⟩ := hnum.2 hn
    refine ⟨(), ?_, s', h2, ?_⟩
    · have := (frag_none_iff cfg s c hr).2 hf; simp [afterPI, this]
    · rw [pictureNumberCheck_ok _ _ _ h2, hs2]; rfl

/-- the first fragment (no slices) of a fragmented picture -/
theorem fragment0Payload_iff (cfg : Config) (s : VState) (c : Ctx) (u : DUnit) (g l : Matcher) (hr : Rel cfg s c)
    (hk : u.kind = .fragment) (h0 : u.sliceCount = 0) (s2 : VState) :
    payload cfg (afterPI s c u g l) u = .ok s2 ↔
      (c.frag = none ∧ numberOk c u.picNum = true ∧
       s2 = { afterPI s c u g l with lastPicNum := some u.picNum, numPics := s.numPics + 1, initFragOffset := some s.pos, slicesX := some cfg.slicesX, slicesY := some cfg.slicesY, fragReceived := some 0, fragRemaining := cfg.slicesX * cfg.slicesY }) := by
  unfold payload; rw [hk]; simp only [h0, if_true, bind_ok, guardRej_ok, pure_ok]
  have hnum := numberOk_iff cfg s c hr u.picNum (afterPI s c u g l) rfl rfl rfl
  constructor
  · rintro ⟨_, h1, s', h2, h3⟩
    have hf : c.frag = none := (frag_none_iff cfg s c hr).1 (by simpa [afterPI] using h1)
    refine ⟨hf, hnum.1 ⟨s', h2⟩, ?_⟩
    rw [pictureNumberCheck_ok _ _ _ h2] at h3
    rw [← h3]; rfl
  · rintro ⟨hf, hn, hs2⟩
    obtain ⟨s', h2⟩ := hnum.2 hn
    refine ⟨(), ?_, s', h2, ?_⟩
    · have := (frag_none_iff cfg s c hr).2 hf; simp [afterPI, this]
    · rw [pictureNumberCheck_ok _ _ _ h2, hs2]; rfl

/-- a fragment carrying slices -/
theorem dataPayload_iff (cfg : Config) (s : VState) (c : Ctx) (u : DUnit) (g l : Matcher) (hr : Rel cfg s c)
    (hk : u.kind = .fragment) (h0 : u.sliceCount ≠ 0) (s2 : VState) :
    payload cfg (afterPI s c u g l) u = .ok s2 ↔
      ∃ num got, c.frag = some (num, got) ∧ u.picNum = num ∧ got + u.sliceCount ≤ cfg.slicesX * cfg.slicesY ∧
        u.fx = got % cfg.slicesX ∧ u.fy = got / cfg.slicesX ∧
        s2 = { afterPI s c u g l with fragReceived := some (got + u.sliceCount), fragRemaining := cfg.slicesX * cfg.slicesY - got - u.sliceCount, decoded := if decide (got + u.sliceCount = cfg.slicesX * cfg.slicesY) then s.decoded ++ [u.picNum] else s.decoded } := by
  unfold payload; rw [hk]; simp only [h0, if_false]
  have hfr := hr.frag
  constructor
  · intro h
    obtain ⟨received, sx, hrec, hsx, hsx0, hle, hne, hs2⟩ := dataFragment_ok _ _ _ h
    have hacc := (VC2.Props.C01.data_fragment_accepts_iff _ u).1 ⟨s2, h⟩
    obtain ⟨_, hlast, _, received', sx', hrec', hsx', _, hfx, hfy⟩ := hacc
    cases hf : c.frag with
    | none =>
      rw [hf] at hfr; simp only at hfr
      exact absurd hfr (by simpa [afterPI] using hne)
    | some p =>
      obtain ⟨num, got⟩ := p
      rw [hf] at hfr; simp only at hfr
      obtain ⟨f1, f2, f3, f4, f5, f6, f7⟩ := hfr
      have e1 : got = received := by
        have : (afterPI s c u g l).fragReceived = s.fragReceived := rfl
        rw [this, f3] at hrec; exact (Option.some.inj hrec)
      have e1' : got = received' := by
        have : (afterPI s c u g l).fragReceived = s.fragReceived := rfl
        rw [this, f3] at hrec'; exact (Option.some.inj hrec')
      have e2 : cfg.slicesX = sx := by
        have : (afterPI s c u g l).slicesX = s.slicesX := rfl
        rw [this, f5] at hsx; exact (Option.some.inj hsx)
      have e2' : cfg.slicesX = sx' := by
        have : (afterPI s c u g l).slicesX = s.slicesX := rfl
        rw [this, f5] at hsx'; exact (Option.some.inj hsx')
      subst e1 e1' e2 e2'
      have hrem : (afterPI s c u g l).fragRemaining = cfg.slicesX * cfg.slicesY - got := f1
      refine ⟨num, got, rfl, ?_, ?_, hfx, hfy, ?_⟩
      · have : (afterPI s c u g l).lastPicNum = s.lastPicNum := rfl
        rw [this, hr.lastNum, f4] at hlast; exact (Option.some.inj hlast).symm
      · rw [hrem] at hle; omega
      · rw [hs2, hrem]
        have : (afterPI s c u g l).slicesY = s.slicesY := rfl
        rw [this, f6]; rfl
  · rintro ⟨num, got, hf, hnum, hle, hfx, hfy, hs2⟩
    rw [hf] at hfr; simp only at hfr
    obtain ⟨f1, f2, f3, f4, f5, f6, f7⟩ := hfr
    have hsx0 : cfg.slicesX ≠ 0 := by
      intro h; rw [h, Nat.zero_mul] at f2; omega
    have hex : ∃ s2, dataFragment (afterPI s c u g l) u = .ok s2 := by
      refine (VC2.Props.C01.data_fragment_accepts_iff _ u).2 ⟨?_, ?_, ?_, got, cfg.slicesX, f3, f5, hsx0, hfx, hfy⟩
      · show s.fragRemaining ≠ 0; omega
      · show s.lastPicNum = some u.picNum; rw [hr.lastNum, f4, hnum]
      · show u.sliceCount ≤ s.fragRemaining; omega
    obtain ⟨s2', h⟩ := hex
    obtain ⟨received, sx, hrec, hsx, _, _, _, hs2'⟩ := dataFragment_ok _ _ _ h
    have e1 : got = received := by
      have : (afterPI s c u g l).fragReceived = s.fragReceived := rfl
      rw [this, f3] at hrec; exact (Option.some.inj hrec)
    have e2 : cfg.slicesX = sx := by
      have : (afterPI s c u g l).slicesX = s.slicesX := rfl
      rw [this, f5] at hsx; exact (Option.some.inj hsx)
    subst e1 e2
    rw [h, hs2', hs2]
    have hrem : (afterPI s c u g l).fragRemaining = cfg.slicesX * cfg.slicesY - got := f1
    have : (afterPI s c u g l).slicesY = s.slicesY := rfl
    rw [hrem, this, f6]; rfl

/-- one non-final data unit: the payload is accepted exactly when the header-identity and picture
    rules hold, and then the relation is re-established for the next unit -/
theorem payload_step (cfg : Config) (s : VState) (c : Ctx) (u : DUnit) (g l : Matcher) (hr : Rel cfg s c)
    (hw : unitWF u = true) (hne : u.kind ≠ .eos) (hag : hdrAgree c.hdr u = true) :
    (∀ s2, payload cfg (afterPI s c u g l) u = .ok s2 →
        hdrRule c u = true ∧ pictureOk cfg c u = true ∧
        Rel cfg { s2 with pos := s.pos + u.len } (nextCtx cfg c u g l)) ∧
    (hdrRule c u = true → pictureOk cfg c u = true → ∃ s2, payload cfg (afterPI s c u g l) u = .ok s2) := by
  have needge : profileNeed c.hdr.profile ≤ pymax c.need (codeNeed u.code) :=
    Int.le_trans hr.need_ge (le_pymax_left _ _)
  have hposge : u.len ≤ s.pos + u.len := by omega
  have hlast : (some s.pos : Option Nat) = some (s.pos + u.len - u.len) := by congr 1; omega
  cases hk : u.kind with
  | eos => exact absurd hk hne
  | aux =>
    refine ⟨fun s2 h => ?_, fun _ _ => ⟨_, payload_plain cfg _ u (Or.inl hk)⟩⟩
    rw [payload_plain cfg _ u (Or.inl hk)] at h
    cases h
    exact ⟨by simp [hdrRule, hk], by simp [pictureOk, hk],
      rel_after_plain cfg s c u g l hr (by rw [hk]; simp) (by rw [hk]; simp)⟩
  | padding =>
    refine ⟨fun s2 h => ?_, fun _ _ => ⟨_, payload_plain cfg _ u (Or.inr hk)⟩⟩
    rw [payload_plain cfg _ u (Or.inr hk)] at h
    cases h
    exact ⟨by simp [hdrRule, hk], by simp [pictureOk, hk],
      rel_after_plain cfg s c u g l hr (by rw [hk]; simp) (by rw [hk]; simp)⟩
  | seqHdr =>
    have hiff := headerPayload_iff cfg s c u g l hr hk hag
    refine ⟨fun s2 h => ?_, fun h1 _ => ?_⟩
    · obtain ⟨hid, hs2⟩ := (hiff s2).1 h
      subst hs2
      exact ⟨by simp [hdrRule, hid], by simp [pictureOk, hk],
        rel_after_plain cfg s c u g l hr (by rw [hk]; simp) (by rw [hk]; simp)⟩
    · have hid : u.hdrId = c.hdr.hdrId := by simpa [hdrRule, hk] using h1
      exact ⟨_, (hiff _).2 ⟨hid, rfl⟩⟩
  | picture =>
    have hiff := picturePayload_iff cfg s c u g l hr hk
    have hsp : startsPicture u = true := by simp [startsPicture, hk]
    have hnf : nextFrag cfg c u = c.frag := by simp [nextFrag, hk]
    refine ⟨fun s2 h => ?_, fun _ h2 => ?_⟩
    · obtain ⟨hf, hn, hs2⟩ := (hiff s2).1 h
      subst hs2
      refine ⟨by simp [hdrRule, hk], by simp [pictureOk, hk, hf, hn], ?_⟩
      refine ⟨hposge, hlast, rfl, rfl, rfl, hr.profile, hr.mv, hr.pcm, hr.lastHdr, rfl, needge, hr.hdr_ok, hr.hdr_kind, ?_, ?_, ?_⟩
      · show some u.picNum = if startsPicture u then some u.picNum else c.lastNum
        rw [hsp]; rfl
      · show s.numPics + 1 = if startsPicture u then c.npics + 1 else c.npics
        rw [hsp, hr.npics]; rfl
      · show match nextFrag cfg c u with | none => _ | some (num, got) => _
        rw [hnf, hf]; exact (frag_none_iff cfg s c hr).2 hf
    · simp only [pictureOk, hk, Bool.and_eq_true, Option.isNone_iff_eq_none] at h2
      exact ⟨_, (hiff _).2 ⟨h2.1, h2.2, rfl⟩⟩
  | fragment =>
    by_cases h0 : u.sliceCount = 0
    · have hiff := fragment0Payload_iff cfg s c u g l hr hk h0
      have hsp : startsPicture u = true := by simp [startsPicture, hk, h0]
      refine ⟨fun s2 h => ?_, fun _ h2 => ?_⟩
      · obtain ⟨hf, hn, hs2⟩ := (hiff s2).1 h
        subst hs2
        refine ⟨by simp [hdrRule, hk], by simp [pictureOk, hk, h0, hf, hn], ?_⟩
        refine ⟨hposge, hlast, rfl, rfl, rfl, hr.profile, hr.mv, hr.pcm, hr.lastHdr, rfl, needge, hr.hdr_ok, hr.hdr_kind, ?_, ?_, ?_⟩
        · show some u.picNum = if startsPicture u then some u.picNum else c.lastNum
          rw [hsp]; rfl
        · show s.numPics + 1 = if startsPicture u then c.npics + 1 else c.npics
          rw [hsp, hr.npics]; rfl
        · show match nextFrag cfg c u with | none => _ | some (num, got) => _
          simp only [nextFrag, hk, h0, if_true]
          by_cases hz : cfg.slicesX * cfg.slicesY = 0
          · rw [if_pos hz]; exact hz
          · rw [if_neg hz]
            refine ⟨rfl, by omega, rfl, ?_, trivial, trivial, by simp⟩
            show (if startsPicture u then some u.picNum else c.lastNum) = some u.picNum
            rw [hsp]; rfl
      · simp only [pictureOk, hk, h0, if_true, Bool.and_eq_true, Option.isNone_iff_eq_none] at h2
        exact ⟨_, (hiff _).2 ⟨h2.1, h2.2, rfl⟩⟩
    · have hiff := dataPayload_iff cfg s c u g l hr hk h0
      have hsp : startsPicture u = false := by simp [startsPicture, hk, h0]
      refine ⟨fun s2 h => ?_, fun _ h2 => ?_⟩
      · obtain ⟨num, got, hf, hnum, hle, hfx, hfy, hs2⟩ := (hiff s2).1 h
        subst hs2
        have hfr := hr.frag
        rw [hf] at hfr; simp only at hfr
        obtain ⟨f1, f2, f3, f4, f5, f6, f7⟩ := hfr
        refine ⟨by simp [hdrRule, hk], by simp [pictureOk, hk, h0, hf, hnum, hle, hfx, hfy], ?_⟩
        refine ⟨hposge, hlast, rfl, rfl, rfl, hr.profile, hr.mv, hr.pcm, hr.lastHdr, rfl, needge, hr.hdr_ok, hr.hdr_kind, ?_, ?_, ?_⟩
        · show s.lastPicNum = if startsPicture u then some u.picNum else c.lastNum
          rw [hsp]; exact hr.lastNum
        · show s.numPics = if startsPicture u then c.npics + 1 else c.npics
          rw [hsp]; exact hr.npics
        · show match nextFrag cfg c u with | none => _ | some (num, got) => _
          simp only [nextFrag, hk, h0, if_false, hf]
          by_cases hz : got + u.sliceCount = cfg.slicesX * cfg.slicesY
          · rw [if_pos hz]; show cfg.slicesX * cfg.slicesY - got - u.sliceCount = 0; omega
          · rw [if_neg hz]
            refine ⟨?_, by omega, rfl, ?_, f5, f6, f7⟩
            · show cfg.slicesX * cfg.slicesY - got - u.sliceCount = cfg.slicesX * cfg.slicesY - (got + u.sliceCount); omega
            · show (if startsPicture u then some u.picNum else c.lastNum) = some num
              rw [hsp]; exact f4
      · simp only [pictureOk, hk, h0, if_false] at h2
        cases hf : c.frag with
        | none => rw [hf] at h2; cases h2
        | some p =>
          obtain ⟨num, got⟩ := p
          rw [hf] at h2
          simp only [Bool.and_eq_true, beq_iff_eq, decide_eq_true_eq] at h2
          exact ⟨_, (hiff _).2 ⟨num, got, hf, h2.1.1.1, h2.1.1.2, h2.1.2, h2.2, rfl⟩⟩

/-- the end of a sequence -/
theorem endOfSequence_iff (cfg : Config) (s : VState) (c : Ctx) (u : DUnit) (g l : Matcher) (hr : Rel cfg s c)
    (hk : u.kind = .eos) :
    endOfSequence (afterPI s c u g l) = .ok () ↔ endOk (nextCtx cfg c u g l) = true := by
  rw [VC2.Props.C01.end_of_sequence_accepts_iff]
  have hsp : startsPicture u = false := by simp [startsPicture, hk]
  have hnf : nextFrag cfg c u = c.frag := by simp [nextFrag, hk]
  have hfn := frag_none_iff cfg s c hr
  unfold endOk
  simp only [nextCtx, hsp, hnf, Bool.and_eq_true, Bool.or_eq_true, Bool.not_eq_true', Bool.and_eq_false_imp,
    beq_iff_eq, bne_iff_ne, decide_eq_true_eq, Option.isNone_iff_eq_none, Bool.false_eq_true, if_false]
  constructor
  · rintro ⟨h1, h2, h3, pcm, mv, hp, hm, h4, h5⟩
    have e1 : pcm = c.hdr.pcm := by
      have : (afterPI s c u g l).pcm = s.pcm := rfl
      rw [this, hr.pcm] at hp; exact (Option.some.inj hp).symm
    have e2 : mv = c.hdr.majorVersion := by
      have : (afterPI s c u g l).majorVersion = s.majorVersion := rfl
      rw [this, hr.mv] at hm; exact (Option.some.inj hm).symm
    subst e1 e2
    refine ⟨⟨⟨⟨h1, h2 l rfl⟩, hfn.1 h3⟩, ?_⟩, ?_⟩
    · intro hp1
      have : (afterPI s c u g l).numPics = c.npics := hr.npics
      rw [this] at h4
      by_cases hz : c.npics % 2 = 0
      · simp [hz]
      · exact absurd ⟨hp1, hz⟩ h4
    · have : (afterPI s c u g l).numPics = c.npics := hr.npics
      rw [this] at h5
      rcases h5 with h5 | h5
      · left; exact h5
      · right
        have : (afterPI s c u g l).expectedVersion = some (pymax c.need (codeNeed u.code)) := rfl
        rw [this] at h5; simp at h5; exact h5
  · rintro ⟨⟨⟨⟨h1, h2⟩, h3⟩, h4⟩, h5⟩
    refine ⟨h1, ?_, hfn.2 h3, c.hdr.pcm, c.hdr.majorVersion, hr.pcm, hr.mv, ?_, ?_⟩
    · intro lm hlm; cases hlm; exact h2
    · have : (afterPI s c u g l).numPics = c.npics := hr.npics
      rw [this]
      rintro ⟨a, b⟩
      have := h4 a
      simp at this; exact b this
    · have : (afterPI s c u g l).numPics = c.npics := hr.npics
      rw [this]
      rcases h5 with h5 | h5
      · left; exact h5
      · right
        have : (afterPI s c u g l).expectedVersion = some (pymax c.need (codeNeed u.code)) := rfl
        rw [this]; simp; exact h5

theorem le_pymax_right (a b : Int) : b ≤ pymax a b := by unfold pymax; split <;> omega

theorem levelStep_none (name : String) (lvl : Option Matcher) : levelStep none name = .ok lvl ↔ lvl = none := by
  unfold levelStep; simp only [pure_ok]; exact eq_comm

/-- the first data unit of a sequence, from the fresh state -/
theorem first_step (cfg : Config) (p : Nat) (d : List Nat) (u : DUnit) (hw : unitWF u = true) :
    (∀ s1, parseInfo (VState.fresh p d) u = .ok s1 →
      u.kind = .seqHdr ∧ ∃ g, (Matcher.init false genericPattern).matchSymbol (codeName u.code) = some g ∧
        ∀ s2, payload cfg s1 u = .ok s2 →
          ∃ l, (Matcher.init false cfg.levelPattern).matchSymbol (codeName u.code) = some l ∧ headOk u = true ∧
            Rel cfg { s2 with pos := p + u.len } (firstCtx u g l)) ∧
    (∀ g l, (Matcher.init false genericPattern).matchSymbol (codeName u.code) = some g →
      (Matcher.init false cfg.levelPattern).matchSymbol (codeName u.code) = some l → headOk u = true →
      ∃ s1 s2, parseInfo (VState.fresh p d) u = .ok s1 ∧ payload cfg s1 u = .ok s2) := by
  have cf := codeFacts u hw
  constructor
  · intro s1 h
    obtain ⟨g, lvl, hg, hl, hs1⟩ := parseInfo_ok' _ s1 u h
    have hg' : (Matcher.init false genericPattern).matchSymbol (codeName u.code) = some g := hg
    have hname := generic_first _ g hg'
    have hk : u.kind = .seqHdr := cf.name_hdr.1 hname
    have hc : u.code = 0 := cf.hdr.2 hk
    have hlv : lvl = none := (levelStep_none _ _).1 hl
    have hex := (VC2.Props.C01.parse_info_accepts_iff _ u).1 ⟨s1, h⟩
    obtain ⟨_, _, _, _, _, _, h7, h8, h9, _⟩ := hex
    refine ⟨hk, g, hg', ?_⟩
    intro s2 h2
    unfold payload at h2; rw [hk] at h2; simp only at h2
    unfold headerPayload levelInit at h2
    rw [hs1, hlv] at h2
    simp only [bind_ok, guardRej_ok, pure_ok, getOrCrash_ok] at h2
    obtain ⟨_, h21, lm, hlm, _, _, h23⟩ := h2
    have hname' : codeName u.code = "sequence_header" := hname
    refine ⟨lm, by rw [hname']; exact hlm, ?_, ?_⟩
    · unfold headOk
      have hp0 : u.prev = 0 := h9 rfl
      have hn : 13 ≤ u.next := by
        have : u.next ≠ 0 := by
          intro h0
          rcases h7 h0 with a | a | a
          · rw [hc] at a; cases a
          · have := cf.pic.1 a; rw [hk] at this; cases this
          · have := cf.frag.1 a; rw [hk] at this; cases this
        omega
      have hv : profileNeed u.profile ≤ (u.majorVersion : Int) := by simpa [profileNeed] using h21
      simp [hk, hp0, hn, hv]
    · rw [← h23]
      refine ⟨?_, ?_, rfl, rfl, rfl, rfl, rfl, rfl, rfl, rfl, ?_, ?_, hk, rfl, rfl, rfl⟩
      · show u.len ≤ p + u.len; omega
      · show some p = some (p + u.len - u.len); congr 1; omega
      · exact le_pymax_right _ _
      · show profileNeed u.profile ≤ (u.majorVersion : Int)
        simpa [profileNeed] using h21
  · intro g l hg hl hh
    unfold headOk at hh
    simp only [Bool.and_eq_true, beq_iff_eq, decide_eq_true_eq] at hh
    obtain ⟨⟨⟨hk, hp0⟩, hn⟩, hv⟩ := hh
    have hc : u.code = 0 := cf.hdr.2 hk
    have hex : ∃ s1, parseInfo (VState.fresh p d) u = .ok s1 := by
      refine (VC2.Props.C01.parse_info_accepts_iff _ u).2 ⟨Or.inl rfl, ?_, ?_, ?_, ?_, ?_, ?_, ?_, ?_, ?_⟩
      · show ((Matcher.init false genericPattern).matchSymbol (codeName u.code)).isSome = true
        rw [hg]; rfl
      · intro lm hlm; cases hlm
      · intro q hq; cases hq
      · rw [hc]; show ¬ (VC2.Gen.MINIMUM_MAJOR_VERSION < VC2.Gen.parse_code_version_implication ((0 : Nat) : Int)); decide
      · intro h16; rw [hc] at h16; cases h16
      · intro h0; omega
      · right; exact hn
      · intro _; exact hp0
      · intro last hlast; cases hlast
    obtain ⟨s1, h⟩ := hex
    obtain ⟨g', lvl, hg', hl', hs1⟩ := parseInfo_ok' _ s1 u h
    have hlv : lvl = none := (levelStep_none _ _).1 hl'
    have hex2 : ∃ s2, payload cfg s1 u = .ok s2 := by
      unfold payload; rw [hk]; simp only
      unfold headerPayload levelInit
      rw [hs1, hlv]
      simp only [bind_ok, guardRej_ok, pure_ok, getOrCrash_ok]
      have hname : codeName u.code = "sequence_header" := cf.name_hdr.2 hk
      refine ⟨_, (), ?_, l, by rw [← hname]; exact hl, (), rfl, rfl⟩
      simpa [profileNeed] using hv
    obtain ⟨s2, h2⟩ := hex2
    exact ⟨s1, s2, h, h2⟩

theorem unitOk_iff (cfg : Config) (c : Ctx) (u : DUnit) (hlen : 13 ≤ u.len) :
    unitOk cfg c u = true ↔
      (piOk c u = true ∧ ¬ ((u.kind = .aux ∨ u.kind = .padding) ∧ u.next ≠ u.len) ∧
       hdrRule c u = true ∧ pictureOk cfg c u = true) := by
  unfold unitOk piOk immediateNext hdrRule
  cases hk : u.kind <;>
    simp only [Bool.and_eq_true, Bool.or_eq_true, beq_iff_eq, decide_eq_true_eq, bne_iff_ne, ne_eq,
      reduceCtorEq, not_false_eq_true, not_true_eq_false, true_and, and_true, false_or, or_false, true_or, or_true,
      false_and, Decidable.not_not] <;>
    grind

theorem specRun_some_cons (cfg : Config) (c : Ctx) (u : DUnit) (rest : List DUnit) :
    specRun cfg (some c) (u :: rest) = true ↔
      ∃ g l, c.generic.matchSymbol (codeName u.code) = some g ∧ c.level.matchSymbol (codeName u.code) = some l ∧
        unitOk cfg c u = true ∧
        (if u.kind = .eos then endOk (nextCtx cfg c u g l) = true ∧ specRun cfg none rest = true
         else specRun cfg (some (nextCtx cfg c u g l)) rest = true) := by
  conv => lhs; unfold specRun
  cases hg : c.generic.matchSymbol (codeName u.code) with
  | none => simp
  | some g =>
    cases hl : c.level.matchSymbol (codeName u.code) with
    | none => simp
    | some l =>
      simp only [Bool.and_eq_true, Option.some.injEq, exists_and_left, exists_eq_left']
      by_cases hk : u.kind = .eos <;> simp [hk]

theorem specRun_none_cons (cfg : Config) (u : DUnit) (rest : List DUnit) :
    specRun cfg none (u :: rest) = true ↔
      ∃ g l, (Matcher.init false genericPattern).matchSymbol (codeName u.code) = some g ∧
        (Matcher.init false cfg.levelPattern).matchSymbol (codeName u.code) = some l ∧
        headOk u = true ∧ specRun cfg (some (firstCtx u g l)) rest = true := by
  conv => lhs; unfold specRun
  cases hg : (Matcher.init false genericPattern).matchSymbol (codeName u.code) with
  | none => simp
  | some g =>
    cases hl : (Matcher.init false cfg.levelPattern).matchSymbol (codeName u.code) with
    | none => simp
    | some l => simp

/-- **the validator model accepts exactly the histories the rules accept** -/
theorem run_spec (cfg : Config) : ∀ (us : List DUnit), (∀ u ∈ us, unitWF u = true) →
    (∀ p d, hdrsAgree none us = true → ((run cfg (VState.fresh p d) us).1 = .ok ↔ specRun cfg none us = true)) ∧
    (∀ s c, Rel cfg s c → hdrsAgree (some c.hdr) us = true →
      ((run cfg s us).1 = .ok ↔ specRun cfg (some c) us = true)) := by
  intro us
  induction us with
  | nil =>
    intro _
    constructor
    · intro p d _; simp [run, VState.fresh, specRun]
    · intro s c hr _
      simp only [run, hr.lastPI, specRun]
      cases hc : checkLastNext s with
      | ok _ => simp
      | error v => simp [VC2.Proofs.Stream.toVerdict_ne_ok v]
  | cons u rest ih =>
    intro hwf
    have hwu : unitWF u = true := hwf u List.mem_cons_self
    have cf := codeFacts u hwu
    have ihr := ih (fun v hv => hwf v (List.mem_cons_of_mem _ hv))
    obtain ⟨ih0, ih1⟩ := ihr
    constructor
    · -- between sequences
      intro p d hag
      rw [run_cons, specRun_none_cons]
      obtain ⟨f1, f2⟩ := first_step cfg p d u hwu
      have hagr : u.kind = .seqHdr → hdrsAgree (some u) rest = true := by
        intro hk
        unfold hdrsAgree at hag
        rw [if_neg (by rw [hk]; simp)] at hag
        exact hag
      constructor
      · intro h
        cases hp : parseInfo (VState.fresh p d) u with
        | error e => rw [hp] at h; exact absurd h (toVerdict_ne_ok e)
        | ok s1 =>
          rw [hp] at h; simp only at h
          obtain ⟨hk, g, hg, hnext⟩ := f1 s1 hp
          have hne : u.kind ≠ .eos := by rw [hk]; simp
          rw [if_neg hne] at h
          have hnd : ¬ ((u.kind = .aux ∨ u.kind = .padding) ∧ u.next ≠ u.len) := by rw [hk]; simp
          rw [if_neg hnd] at h
          cases hpl : payload cfg s1 u with
          | error e => rw [hpl] at h; exact absurd h (toVerdict_ne_ok e)
          | ok s2 =>
            rw [hpl] at h; simp only at h
            obtain ⟨l, hl, hh, hrel⟩ := hnext s2 hpl
            exact ⟨g, l, hg, hl, hh, (ih1 _ _ hrel (hagr hk)).1 h⟩
      · rintro ⟨g, l, hg, hl, hh, hs⟩
        obtain ⟨s1, s2, hp, hpl⟩ := f2 g l hg hl hh
        obtain ⟨hk, g', hg', hnext⟩ := f1 s1 hp
        rw [hg] at hg'; cases hg'
        obtain ⟨l', hl', _, hrel⟩ := hnext s2 hpl
        rw [hl] at hl'; cases hl'
        have hne : u.kind ≠ .eos := by rw [hk]; simp
        have hnd : ¬ ((u.kind = .aux ∨ u.kind = .padding) ∧ u.next ≠ u.len) := by rw [hk]; simp
        rw [hp]; simp only
        rw [if_neg hne, if_neg hnd, hpl]; simp only
        exact (ih1 _ _ hrel (hagr hk)).2 hs
    · -- inside a sequence
      intro s c hr hagc
      rw [run_cons, specRun_some_cons]
      unfold hdrsAgree at hagc
      simp only [Bool.and_eq_true] at hagc
      have hagu : hdrAgree c.hdr u = true := hagc.1
      have hagr : u.kind ≠ .eos → hdrsAgree (some c.hdr) rest = true := by
        intro hk; have := hagc.2; rw [if_neg hk] at this; exact this
      have hag0 : u.kind = .eos → hdrsAgree none rest = true := by
        intro hk; have := hagc.2; rw [if_pos hk] at this; exact this
      have huo := unitOk_iff cfg c u cf.len
      constructor
      · intro h
        cases hp : parseInfo s u with
        | error e => rw [hp] at h; exact absurd h (toVerdict_ne_ok e)
        | ok s1 =>
          rw [hp] at h; simp only at h
          obtain ⟨g, l, hg, hl, hpi, hs1⟩ := (parseInfo_iff cfg s c u hr hwu s1).1 hp
          have hs1' : s1 = afterPI s c u g l := hs1
          refine ⟨g, l, hg, hl, ?_⟩
          by_cases hk : u.kind = .eos
          · rw [if_pos hk] at h
            cases he : endOfSequence s1 with
            | error e => rw [he] at h; exact absurd h (toVerdict_ne_ok e)
            | ok x =>
              rw [he] at h; simp only at h
              rw [hs1'] at he
              have hend := (endOfSequence_iff cfg s c u g l hr hk).1 he
              refine ⟨huo.2 ⟨hpi, by rw [hk]; simp, by simp [hdrRule, hk], by simp [pictureOk, hk]⟩, ?_⟩
              rw [if_pos hk]
              exact ⟨hend, (ih0 _ _ (hag0 hk)).1 h⟩
          · rw [if_neg hk] at h
            by_cases hd : (u.kind = .aux ∨ u.kind = .padding) ∧ u.next ≠ u.len
            · rw [if_pos hd] at h; cases h
            · rw [if_neg hd] at h
              cases hpl : payload cfg s1 u with
              | error e => rw [hpl] at h; exact absurd h (toVerdict_ne_ok e)
              | ok s2 =>
                rw [hpl] at h; simp only at h
                rw [hs1'] at hpl
                obtain ⟨hh, hpic, hrel⟩ := (payload_step cfg s c u g l hr hwu hk hagu).1 s2 hpl
                refine ⟨huo.2 ⟨hpi, hd, hh, hpic⟩, ?_⟩
                rw [if_neg hk]
                exact (ih1 _ _ hrel (hagr hk)).1 h
      · rintro ⟨g, l, hg, hl, hu, hrest⟩
        obtain ⟨hpi, hd, hh, hpic⟩ := huo.1 hu
        have hp : parseInfo s u = .ok (afterPI s c u g l) :=
          (parseInfo_iff cfg s c u hr hwu _).2 ⟨g, l, hg, hl, hpi, rfl⟩
        rw [hp]; simp only
        by_cases hk : u.kind = .eos
        · rw [if_pos hk] at hrest ⊢
          have he := (endOfSequence_iff cfg s c u g l hr hk).2 hrest.1
          rw [he]; simp only
          exact (ih0 _ _ (hag0 hk)).2 hrest.2
        · rw [if_neg hk] at hrest ⊢
          rw [if_neg hd]
          obtain ⟨s2, hpl⟩ := (payload_step cfg s c u g l hr hwu hk hagu).2 hh hpic
          obtain ⟨_, _, hrel⟩ := (payload_step cfg s c u g l hr hwu hk hagu).1 s2 hpl
          rw [hpl]; simp only
          exact (ih1 _ _ hrel (hagr hk)).2 hrest

end VC2.Proofs.StreamSpec
