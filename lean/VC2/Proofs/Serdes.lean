/- Helper lemmas for C21/C06: the serialiser/deserialiser framework round trip.  Core Lean only. -/
import VC2.Model.SerdesCodec
import VC2.Props.C20
namespace VC2.Proofs.Serdes
open VC2 VC2.Model.Serdes VC2.Model.BitIO


def Disj (d acc : Dict) : Prop := ∀ k, d.has k = true → acc.has k = false

theorem get?_has (d : Dict) (t : String) (v : Val) (h : d.get? t = some v) : d.has t = true := by
  unfold Dict.get? at h
  unfold Dict.has
  cases hf : d.find? (·.1 == t) with
  | none => rw [hf] at h; cases h
  | some x =>
    have := List.find?_some hf
    have hm := List.mem_of_find?_eq_some hf
    rw [List.any_eq_true]; exact ⟨x, hm, this⟩

theorem has_append (d : Dict) (t k : String) (v : Val) : (d ++ [(t, v)]).has k = (d.has k || t == k) := by
  simp [Dict.has, List.any_append]

theorem has_erase (d : Dict) (t k : String) : (d.erase t).has k = (d.has k && k != t) := by
  unfold Dict.has Dict.erase
  induction d with
  | nil => simp
  | cons x xs ih =>
    rw [List.filter_cons]
    by_cases hx : (x.1 != t) = true
    · rw [if_pos hx, List.any_cons, List.any_cons, ih]
      by_cases hk : x.1 = k
      · subst hk; simp [hx]
      · have : (x.1 == k) = false := by simpa using hk
        simp [this]
    · rw [if_neg hx, List.any_cons, ih]
      have hxt : x.1 = t := by simpa using hx
      by_cases hk : x.1 = k
      · have : k = t := by rw [← hk, hxt]
        subst this; simp
      · have : (x.1 == k) = false := by simpa using hk
        simp [this]

theorem disj_consume (d acc : Dict) (t : String) (v w : Val) (hd : Disj d acc) (hg : d.get? t = some w) :
    acc.has t = false ∧ Disj (d.erase t) (acc ++ [(t, v)]) := by
  refine ⟨hd t (get?_has d t w hg), ?_⟩
  intro k hk
  rw [has_erase] at hk
  simp only [Bool.and_eq_true] at hk
  rw [has_append, hd k hk.1]
  have : (t == k) = false := by
    have := hk.2; simp at this ⊢; exact fun h => this h.symm
  simp [this]

theorem disj_fetch (d acc : Dict) (t : String) (dflt v w : Val) (hd : Disj d acc) (hg : fetch d acc t dflt = some w) :
    acc.has t = false ∧ Disj (d.erase t) (acc ++ [(t, v)]) := by
  unfold fetch at hg
  cases hq : d.get? t with
  | some x => exact disj_consume d acc t v x hd hq
  | none =>
    rw [hq] at hg; simp only at hg
    cases ha : acc.has t with
    | true => rw [ha] at hg; simp at hg
    | false =>
      refine ⟨rfl, ?_⟩
      intro k hk
      rw [has_erase] at hk
      simp only [Bool.and_eq_true] at hk
      rw [has_append, hd k hk.1]
      have : (t == k) = false := by
        have := hk.2; simp at this ⊢; exact fun h => this h.symm
      simp [this]

def Sound (C : Codec) : Prop := ∀ k v b rest, C.enc k v = some b → C.dec k (b ++ rest) = some (v, rest)

variable (C : Codec)

theorem serPrims_des (hS : Sound C) : ∀ (ks : List Prim) (vs : List Val) (b : List Bool), serPrims C ks vs = some b →
    ∀ rest, desPrims C ks (b ++ rest) = some (vs, rest)
  | [], [], b, h, rest => by simp [serPrims] at h; subst h; rfl
  | [], _ :: _, b, h, rest => by simp [serPrims] at h
  | k :: ks, [], b, h, rest => by simp [serPrims] at h
  | k :: ks, v :: vs, b, h, rest => by
    cases v with
    | leaf x =>
      simp only [serPrims] at h
      cases he : C.enc k x with
      | none => rw [he] at h; simp at h
      | some b1 =>
        cases hr : serPrims C ks vs with
        | none => rw [he, hr] at h; simp at h
        | some bs =>
          rw [he, hr] at h; simp at h; subst h
          simp only [desPrims, List.append_assoc]
          rw [hS k x b1 (bs ++ rest) he]
          simp only
          rw [serPrims_des hS ks vs bs hr rest]
    | dict _ => simp [serPrims] at h
    | list _ => simp [serPrims] at h

theorem len_sub (b rest : List Bool) : (b ++ rest).length - rest.length = b.length := by simp

mutual
theorem serStmt_des (hS : Sound C) : ∀ (s : Stmt) (pos : Nat) (d acc : Dict) (b : List Bool) (acc' d' : Dict),
    serStmt C pos s d acc = some (b, acc', d') → Disj d acc →
    ∀ rest, desStmt C pos s acc (b ++ rest) = some (acc', rest) ∧ Disj d' acc'
  | .prim t k, pos, d, acc, b, acc', d', h, hd, rest => by
    simp only [serStmt] at h
    split at h
    · rename_i v hg
      cases he : C.enc k v with
      | none => rw [he] at h; cases h
      | some b1 =>
        rw [he] at h; simp at h
        obtain ⟨h1, h2, h3⟩ := h; subst h1 h2 h3
        have ⟨hn, hdj⟩ := disj_consume d acc t (.leaf v) _ hd hg
        simp only [desStmt, hn, Bool.false_eq_true, if_false, hS k v b1 rest he]
        exact ⟨trivial, hdj⟩
    · cases h
  | .primList t ks, pos, d, acc, b, acc', d', h, hd, rest => by
    simp only [serStmt] at h
    split at h
    · rename_i vs hg
      cases he : serPrims C ks vs with
      | none => rw [he] at h; cases h
      | some b1 =>
        rw [he] at h; simp at h
        obtain ⟨h1, h2, h3⟩ := h; subst h1 h2 h3
        have ⟨hn, hdj⟩ := disj_fetch d acc t _ (.list vs) _ hd hg
        simp only [desStmt, hn, Bool.false_eq_true, if_false, serPrims_des C hS ks vs b1 he rest]
        exact ⟨trivial, hdj⟩
    · cases h
  | .sub t body, pos, d, acc, b, acc', d', h, hd, rest => by
    simp only [serStmt] at h
    split at h
    · rename_i dsub hg
      split at h
      · rename_i b1 used hb
        simp at h
        obtain ⟨h1, h2, h3⟩ := h; subst h1 h2 h3
        have ⟨hn, hdj⟩ := disj_fetch d acc t _ (.dict used) _ hd hg
        have ih := serBody_des hS body pos dsub [] b1 used [] hb (by intro k _; rfl) rest
        simp only [desStmt, hn, Bool.false_eq_true, if_false, ih.1]
        exact ⟨trivial, hdj⟩
      · cases h
    · cases h
  | .subList t bodies, pos, d, acc, b, acc', d', h, hd, rest => by
    simp only [serStmt] at h
    split at h
    · rename_i vs hg
      cases hb : serBodies C pos bodies vs with
      | none => rw [hb] at h; cases h
      | some r =>
        obtain ⟨b1, used⟩ := r
        rw [hb] at h; simp at h
        obtain ⟨h1, h2, h3⟩ := h; subst h1 h2 h3
        have ⟨hn, hdj⟩ := disj_fetch d acc t _ (.list used) _ hd hg
        have ih := serBodies_des hS bodies pos vs b1 used hb rest
        simp only [desStmt, hn, Bool.false_eq_true, if_false, ih]
        exact ⟨trivial, hdj⟩
    · cases h
  | .block t len body, pos, d, acc, b, acc', d', h, hd, rest => by
    simp only [serStmt] at h
    cases hb : serBody C pos body d acc with
    | none => rw [hb] at h; cases h
    | some r =>
      obtain ⟨b1, acc1, d1⟩ := r
      rw [hb] at h; simp only at h
      split at h
      · rename_i hle
        split at h
        · rename_i p hg
          split at h
          · rename_i hp
            simp at h
            obtain ⟨h1, h2, h3⟩ := h; subst h1 h2 h3
            have ih := serBody_des hS body pos d acc b1 acc1 d1 hb hd p
            have ⟨hn, hdj⟩ := disj_consume d1 acc1 t (.leaf (.bits p)) _ ih.2 hg
            have hlen : (b1 ++ p).length = len := by simp; omega
            have htake : (b1 ++ p ++ rest).take len = b1 ++ p := by
              rw [← hlen]; exact List.take_left' rfl
            have hdrop : (b1 ++ p ++ rest).drop len = rest := by
              rw [← hlen]; exact List.drop_left' rfl
            have hge : ¬ (b1 ++ p ++ rest).length < len := by simp; omega
            simp only [desStmt, hge, if_false, htake, ih.1, hn, Bool.false_eq_true, hdrop]
            exact ⟨trivial, hdj⟩
          · cases h
        · cases h
      · cases h
  | .align t, pos, d, acc, b, acc', d', h, hd, rest => by
    simp only [serStmt] at h
    split at h
    · rename_i p hg
      split at h
      · rename_i hp
        simp at h
        obtain ⟨h1, h2, h3⟩ := h; subst h1 h2 h3
        have ⟨hn, hdj⟩ := disj_consume d acc t (.leaf (.bits p)) _ hd hg
        have hge : ¬ (p ++ rest).length < alignBits pos := by simp; omega
        have htake : (p ++ rest).take (alignBits pos) = p := by rw [← hp]; exact List.take_left' rfl
        have hdrop : (p ++ rest).drop (alignBits pos) = rest := by rw [← hp]; exact List.drop_left' rfl
        simp only [desStmt, hn, Bool.false_eq_true, if_false, hge, htake, hdrop]
        exact ⟨trivial, hdj⟩
      · cases h
    · cases h
  | .computed t v, pos, d, acc, b, acc', d', h, hd, rest => by
    simp only [serStmt] at h
    split at h
    · cases h
    · rename_i hfresh
      simp at h
      obtain ⟨h1, h2, h3⟩ := h; subst h1 h2 h3
      have hacc : acc.has t = false := by simpa using hfresh
      simp only [desStmt, hacc, Bool.false_eq_true, if_false, List.nil_append]
      refine ⟨trivial, ?_⟩
      intro k hk
      rw [has_erase] at hk
      simp only [Bool.and_eq_true] at hk
      rw [has_append, hd k hk.1]
      have : (t == k) = false := by
        have := hk.2; simp at this ⊢; exact fun h => this h.symm
      simp [this]
theorem serBody_des (hS : Sound C) : ∀ (body : List Stmt) (pos : Nat) (d acc : Dict) (b : List Bool) (acc' d' : Dict),
    serBody C pos body d acc = some (b, acc', d') → Disj d acc →
    ∀ rest, desBody C pos body acc (b ++ rest) = some (acc', rest) ∧ Disj d' acc'
  | [], pos, d, acc, b, acc', d', h, hd, rest => by
    simp [serBody] at h
    obtain ⟨h1, h2, h3⟩ := h; subst h1 h2 h3
    exact ⟨rfl, hd⟩
  | s :: ss, pos, d, acc, b, acc', d', h, hd, rest => by
    simp only [serBody] at h
    cases h1 : serStmt C pos s d acc with
    | none => rw [h1] at h; cases h
    | some r =>
      obtain ⟨b1, acc1, d1⟩ := r
      rw [h1] at h; simp only at h
      cases h2 : serBody C (pos + b1.length) ss d1 acc1 with
      | none => rw [h2] at h; cases h
      | some r2 =>
        obtain ⟨bs, acc2, d2⟩ := r2
        rw [h2] at h; simp at h
        obtain ⟨e1, e2, e3⟩ := h; subst e1 e2 e3
        have i1 := serStmt_des hS s pos d acc b1 acc1 d1 h1 hd (bs ++ rest)
        have i2 := serBody_des hS ss (pos + b1.length) d1 acc1 bs acc2 d2 h2 i1.2 rest
        simp only [desBody, List.append_assoc, i1.1]
        have : (b1 ++ (bs ++ rest)).length - (bs ++ rest).length = b1.length := len_sub b1 (bs ++ rest)
        rw [this]
        exact i2
theorem serBodies_des (hS : Sound C) : ∀ (bodies : List (List Stmt)) (pos : Nat) (vs : List Val) (b : List Bool) (useds : List Val),
    serBodies C pos bodies vs = some (b, useds) →
    ∀ rest, desBodies C pos bodies (b ++ rest) = some (useds, rest)
  | [], pos, [], b, useds, h, rest => by
    simp [serBodies] at h; obtain ⟨h1, h2⟩ := h; subst h1 h2; rfl
  | [], pos, _ :: _, b, useds, h, rest => by simp [serBodies] at h
  | body :: bodies, pos, [], b, useds, h, rest => by
    simp only [serBodies] at h
    split at h
    · rename_i b1 used hb
      cases h2 : serBodies C (pos + b1.length) bodies [] with
      | none => rw [h2] at h; cases h
      | some r =>
        obtain ⟨bs, us⟩ := r
        rw [h2] at h; simp at h
        obtain ⟨e1, e2⟩ := h; subst e1 e2
        have i1 := serBody_des hS body pos [] [] b1 used [] hb (by intro k _; rfl) (bs ++ rest)
        have i2 := serBodies_des hS bodies (pos + b1.length) [] bs us h2 rest
        simp only [desBodies, List.append_assoc, i1.1]
        have : (b1 ++ (bs ++ rest)).length - (bs ++ rest).length = b1.length := len_sub b1 (bs ++ rest)
        rw [this, i2]
    · cases h
  | body :: bodies, pos, v :: vs, b, useds, h, rest => by
    cases v with
    | leaf _ => simp [serBodies] at h
    | list _ => simp [serBodies] at h
    | dict d =>
      simp only [serBodies] at h
      split at h
      · rename_i b1 used hb
        cases h2 : serBodies C (pos + b1.length) bodies vs with
        | none => rw [h2] at h; cases h
        | some r =>
          obtain ⟨bs, us⟩ := r
          rw [h2] at h; simp at h
          obtain ⟨e1, e2⟩ := h; subst e1 e2
          have i1 := serBody_des hS body pos d [] b1 used [] hb (by intro k _; rfl) (bs ++ rest)
          have i2 := serBodies_des hS bodies (pos + b1.length) vs bs us h2 rest
          simp only [desBodies, List.append_assoc, i1.1]
          have : (b1 ++ (bs ++ rest)).length - (bs ++ rest).length = b1.length := len_sub b1 (bs ++ rest)
          rw [this, i2]
      · cases h
end

open VC2.Props.C20 in
theorem nbits_sound (n : Nat) (v : Int) (b rest : List Bool)
    (h : (match ({} : Writer).writeNbits n v with | .ok w => some w.out | .error _ => none) = some b) :
    (match ({ all := b ++ rest, pos := 0 } : Reader).readNbits n with
      | .ok (x, r') => some (Leaf.int x, (b ++ rest).drop r'.pos) | .error _ => none) = some (Leaf.int v, rest) := by
  by_cases hr : v < 0 ∨ bitLength v > n
  · have := (out_of_range_rejected ({} : Writer)).2.1 n v hr
    rw [this] at h; cases h
  · have hv : 0 ≤ v := by omega
    have hf : bitLength v ≤ n := by omega
    obtain ⟨bits, hl, hw, ⟨r', hrd, hp⟩, _⟩ := nbits_roundtrip n v hv hf [] rest 0
    have hw' : ({} : Writer).writeNbits n v = .ok { out := bits } := by simpa using hw
    rw [hw'] at h; simp at h; subst h
    have : (readerAt [] bits rest) = ({ all := bits ++ rest, pos := 0 } : Reader) := by simp [readerAt]
    rw [this] at hrd
    rw [hrd]; simp only
    have hp' : r'.pos = bits.length := by simpa [hl] using hp
    rw [hp', List.drop_left]
    have : ((v.toNat : Nat) : Int) = v := Int.toNat_of_nonneg hv
    rw [this]

open VC2.Props.C20 in
theorem bitarray_sound (n : Nat) (l b rest : List Bool) (hl : l.length = n)
    (h : (match ({} : Writer).writeBitarray n l with | .ok w => some w.out | .error _ => none) = some b) :
    (match Reader.readBits n ({ all := b ++ rest, pos := 0 } : Reader) with
      | .ok (x, r') => some (Leaf.bits x, (b ++ rest).drop r'.pos) | .error _ => none) = some (Leaf.bits l, rest) := by
  have := bitarray_roundtrip n l (by omega) [] rest
  simp only [hl, Nat.sub_self, List.replicate_zero, List.append_nil, List.nil_append, List.length_nil, Nat.zero_add] at this
  obtain ⟨hw, r', hrd, hp⟩ := this
  have hw' : ({} : Writer).writeBitarray n l = .ok { out := l } := by simpa using hw
  rw [hw'] at h; simp at h; subst h
  have e : (readerAt [] l rest) = ({ all := l ++ rest, pos := 0 } : Reader) := by simp [readerAt]
  rw [e] at hrd
  rw [hrd]; simp only
  rw [hp, ← hl, List.drop_left]

theorem bool_sound (v b' : Bool) (b rest : List Bool)
    (h : (match ({} : Writer).writeBit v with | .ok w => some w.out | .error _ => none) = some b) :
    (match ({ all := b ++ rest, pos := 0 } : Reader).readBit with
      | .ok (x, r') => some (Leaf.bool x, (b ++ rest).drop r'.pos) | .error _ => none) = some (Leaf.bool v, rest) := by
  simp [Writer.writeBit] at h; subst h
  simp [Reader.readBit, Reader.rawBit]

open VC2.Props.C20 in
theorem uint_sound (v : Int) (b rest : List Bool)
    (h : (match ({} : Writer).writeUint v with | .ok w => some w.out | .error _ => none) = some b) :
    (match ({ all := b ++ rest, pos := 0 } : Reader).readUint with
      | .ok (x, r') => some (Leaf.int x, (b ++ rest).drop r'.pos) | .error _ => none) = some (Leaf.int v, rest) := by
  by_cases hv : v < 0
  · have := (out_of_range_rejected ({} : Writer)).1 v hv
    rw [this] at h; cases h
  · obtain ⟨bits, hw, _, ⟨r', hrd, hp, _⟩, _⟩ := uint_roundtrip v (by omega) [] rest 0
    have hw' : ({} : Writer).writeUint v = .ok { out := bits } := by simpa using hw
    rw [hw'] at h; simp at h; subst h
    have e : (readerAt [] bits rest) = ({ all := bits ++ rest, pos := 0 } : Reader) := by simp [readerAt]
    rw [e] at hrd
    rw [hrd]; simp only
    have hp' : r'.pos = bits.length := by simpa using hp
    rw [hp', List.drop_left]

open VC2.Props.C20 in
theorem sint_sound (v : Int) (b rest : List Bool)
    (h : (match ({} : Writer).writeSint v with | .ok w => some w.out | .error _ => none) = some b) :
    (match ({ all := b ++ rest, pos := 0 } : Reader).readSint with
      | .ok (x, r') => some (Leaf.int x, (b ++ rest).drop r'.pos) | .error _ => none) = some (Leaf.int v, rest) := by
  obtain ⟨bits, hw, _, ⟨r', hrd, hp⟩, _⟩ := sint_roundtrip v [] rest 0
  have hw' : ({} : Writer).writeSint v = .ok { out := bits } := by simpa using hw
  rw [hw'] at h; simp at h; subst h
  have e : (readerAt [] bits rest) = ({ all := bits ++ rest, pos := 0 } : Reader) := by simp [readerAt]
  rw [e] at hrd
  rw [hrd]; simp only
  have hp' : r'.pos = bits.length := by simpa using hp
  rw [hp', List.drop_left]

/-- the C20 codec is a prefix code: whatever follows, reading returns the value written -/
theorem bitCodec_sound : ∀ k v b rest, bitCodec.enc k v = some b → bitCodec.dec k (b ++ rest) = some (v, rest) := by
  intro k v b rest h
  simp only [bitCodec, encBits, decBits] at h ⊢
  cases k with
  | bool => cases v with
    | bool x => exact bool_sound x x b rest h
    | int _ => cases h
    | bits _ => cases h
    | bytes _ => cases h
  | nbits n => cases v with
    | int x => exact nbits_sound n x b rest h
    | bool _ => cases h
    | bits _ => cases h
    | bytes _ => cases h
  | uintLit n => cases v with
    | int x => exact nbits_sound (8 * n) x b rest h
    | bool _ => cases h
    | bits _ => cases h
    | bytes _ => cases h
  | bitarray n => cases v with
    | bits l =>
      simp only at h
      split at h
      · rename_i hl; exact bitarray_sound n l b rest hl h
      · cases h
    | bool _ => cases h
    | int _ => cases h
    | bytes _ => cases h
  | bytes n => cases v with
    | bits l =>
      simp only at h
      split at h
      · rename_i hl; exact bitarray_sound (8 * n) l b rest hl h
      · cases h
    | bool _ => cases h
    | int _ => cases h
    | bytes _ => cases h
  | uint => cases v with
    | int x => exact uint_sound x b rest h
    | bool _ => cases h
    | bits _ => cases h
    | bytes _ => cases h
  | sint => cases v with
    | int x => exact sint_sound x b rest h
    | bool _ => cases h
    | bits _ => cases h
    | bytes _ => cases h

end VC2.Proofs.Serdes
