/- Helper lemmas for C21/C06: the serialiser/deserialiser framework round trip.  Core Lean only. -/
import VC2.Model.SerdesCodec
import VC2.Props.C20
namespace VC2.Proofs.Serdes
open VC2 VC2.Model.Serdes VC2.Model.BitIO


def Disj (d acc : Dict) : Prop := ∀ k, d.has k = true → acc.has k = false

theorem get?_has (d : Dict) (t : String) (v : Val) (h : d.get? t = some v) : d.has t = true := by
  unfold Dict.get? at h
  unfold Dict.has
  cases hf : d.find? (·.1 == t) with
  | none => rw [hf] at h; cases h
  | some x =>
    have := List.find?_some hf
    have hm := List.mem_of_find?_eq_some hf
    rw [List.any_eq_true]; exact ⟨x, hm, this⟩

theorem has_append (d : Dict) (t k : String) (v : Val) : (d ++ [(t, v)]).has k = (d.has k || t == k) := by
  simp [Dict.has, List.any_append]

theorem has_erase (d : Dict) (t k : String) : (d.erase t).has k = (d.has k && k != t) := by
  unfold Dict.has Dict.erase
  induction d with
  | nil => simp
  | cons x xs ih =>
    rw [List.filter_cons]
    by_cases hx : (x.1 != t) = true
    · rw [if_pos hx, List.any_cons, List.any_cons, ih]
      by_cases hk : x.1 = k
      · subst hk; simp [hx]
      · have : (x.1 == k) = false := by simpa using hk
        simp [this]
    · rw [if_neg hx, List.any_cons, ih]
      have hxt : x.1 = t := by simpa using hx
      by_cases hk : x.1 = k
      · have : k = t := by rw [← hk, hxt]
        subst this; simp
      · have : (x.1 == k) = false := by simpa using hk
        simp [this]

theorem disj_consume (d acc : Dict) (t : String) (v w : Val) (hd : Disj d acc) (hg : d.get? t = some w) :
    acc.has t = false ∧ Disj (d.erase t) (acc ++ [(t, v)]) := by
  refine ⟨hd t (get?_has d t w hg), ?_⟩
  intro k hk
  rw [has_erase] at hk
  simp only [Bool.and_eq_true] at hk
  rw [has_append, hd k hk.1]
  have : (t == k) = false := by
    have := hk.2; simp at this ⊢; exact fun h => this h.symm
  simp [this]

theorem disj_fetch (d acc : Dict) (t : String) (dflt v w : Val) (hd : Disj d acc) (hg : fetch d acc t dflt = some w) :
    acc.has t = false ∧ Disj (d.erase t) (acc ++ [(t, v)]) := by
  unfold fetch at hg
  cases hq : d.get? t with
  | some x => exact disj_consume d acc t v x hd hq
  | none =>
    rw [hq] at hg; simp only at hg
    cases ha : acc.has t with
    | true => rw [ha] at hg; simp at hg
    | false =>
      refine ⟨rfl, ?_⟩
      intro k hk
      rw [has_erase] at hk
      simp only [Bool.and_eq_true] at hk
      rw [has_append, hd k hk.1]
      have : (t == k) = false := by
        have := hk.2; simp at this ⊢; exact fun h => this h.symm
      simp [this]

def Sound (C : Codec) : Prop := ∀ k v b rest, C.enc k v = some b → C.dec k (b ++ rest) = some (v, rest)

/-- the 1-bits at the end of a code word are at most `virt k` -/
def OnesBound (C : Codec) : Prop :=
  ∀ k v b n, C.enc k v = some b → (b.drop n).all id = true → (b.drop n).length ≤ C.virt k

/-- `real` is what is left of the written bits `b` (followed by `rest`) when a bounded block ends
    after the first `n` of them: the bits past the end are all 1 and are not stored -/
def Cut (b real rest : List Bool) : Prop :=
  ∃ n, n ≤ b.length ∧ real = b.take n ++ rest ∧ (b.drop n).all id = true ∧ (n < b.length → rest = [])

/-- outside a block the written bits are all there; inside a block they may be cut -/
def RealOf (blk : Bool) (b real rest : List Bool) : Prop :=
  if blk then Cut b real rest else real = b ++ rest

theorem cut_whole (b rest : List Bool) : Cut b (b ++ rest) rest :=
  ⟨b.length, Nat.le_refl _, by simp, by simp, fun h => absurd h (Nat.lt_irrefl _)⟩

theorem realOf_whole (blk : Bool) (b rest : List Bool) : RealOf blk b (b ++ rest) rest := by
  unfold RealOf; split
  · exact cut_whole b rest
  · rfl

theorem realOf_nil (blk : Bool) (real rest : List Bool) (h : RealOf blk [] real rest) : real = rest := by
  unfold RealOf at h; split at h
  · obtain ⟨n, _, h2, _, _⟩ := h; simpa using h2
  · simpa using h

theorem all_id_append (a b : List Bool) : (a ++ b).all id = true ↔ a.all id = true ∧ b.all id = true := by
  simp [List.all_append]

/-- splitting what is left of `b1 ++ b2` into what is left of `b1` and what is left of `b2` -/
theorem realOf_append (blk : Bool) (b1 b2 real rest : List Bool) (h : RealOf blk (b1 ++ b2) real rest) :
    ∃ mid, RealOf blk b1 real mid ∧ RealOf blk b2 mid rest ∧
      (blk = false → real.length - mid.length = b1.length) := by
  unfold RealOf at *
  cases blk with
  | false =>
    simp only [Bool.false_eq_true, if_false] at *
    exact ⟨b2 ++ rest, by rw [h, List.append_assoc], rfl, fun _ => by rw [h]; simp⟩
  | true =>
    simp only [if_true] at *
    obtain ⟨n, hn, hreal, hall, hrest⟩ := h
    by_cases hc : b1.length ≤ n
    · -- the cut is inside (or after) b2
      refine ⟨b2.take (n - b1.length) ++ rest, ⟨b1.length, Nat.le_refl _, ?_, by simp, fun h => absurd h (Nat.lt_irrefl _)⟩,
        ⟨n - b1.length, by simp at hn; omega, rfl, ?_, ?_⟩, fun h => by cases h⟩
      · rw [hreal, List.take_append]; simp [List.take_of_length_le hc, List.append_assoc]
      · rw [List.drop_append] at hall
        simp [List.drop_of_length_le hc] at hall
        simpa using hall
      · intro hlt; apply hrest; simp; omega
    · -- the cut is inside b1: everything after it is 1s
      have hlt : n < b1.length := by omega
      have hr : rest = [] := hrest (by simp; omega)
      rw [List.drop_append, all_id_append] at hall
      have h0 : n - b1.length = 0 := by omega
      rw [h0, List.drop_zero] at hall
      refine ⟨[], ⟨n, by omega, ?_, hall.1, fun _ => rfl⟩, ⟨0, by omega, by simp [hr], by simpa using hall.2, fun _ => hr⟩,
        fun h => by cases h⟩
      rw [hreal, hr, List.take_append]; simp [h0]

theorem all_true_eq_replicate : ∀ (l : List Bool), l.all id = true → l = List.replicate l.length true
  | [], _ => rfl
  | x :: xs, h => by
    simp only [List.all_cons, Bool.and_eq_true, id] at h
    rw [List.length_cons, List.replicate_succ, h.1, ← all_true_eq_replicate xs h.2]

variable (C : Codec)

/-- one primitive: what the serialiser wrote is read back, also when the block ended inside it -/
theorem decPrim_sound (hS : Sound C) (hO : OnesBound C) (blk : Bool) (k : Prim) (v : Leaf) (b real rest : List Bool)
    (he : C.enc k v = some b) (hr : RealOf blk b real rest) : decPrim C blk k real = some (v, rest) := by
  unfold RealOf at hr
  cases blk with
  | false =>
    simp only [Bool.false_eq_true, if_false] at hr
    simp only [decPrim, Bool.false_eq_true, if_false, hr, hS k v b rest he]
  | true =>
    simp only [if_true] at hr
    obtain ⟨n, hn, hreal, hall, hrest⟩ := hr
    simp only [decPrim, if_true]
    by_cases hc : n = b.length
    · subst hc
      rw [hreal, List.take_length, List.append_assoc, hS k v b _ he]
      simp
    · have hr0 : rest = [] := hrest (by omega)
      have hbound := hO k v b n he hall
      have htail := all_true_eq_replicate _ hall
      generalize hm : (b.drop n).length = m at hbound htail
      have hbeq : b = b.take n ++ List.replicate m true := by
        conv => lhs; rw [← List.take_append_drop n b]
        rw [htail]
      have e : real ++ List.replicate (C.virt k) true = b ++ List.replicate (C.virt k - m) true := by
        rw [hreal, hr0, List.append_nil]
        conv => rhs; rw [hbeq]
        rw [List.append_assoc, List.replicate_append_replicate]
        congr 2; omega
      rw [e, hS k v b _ he]
      simp [hr0]

theorem serPrims_des (hS : Sound C) (hO : OnesBound C) (blk : Bool) : ∀ (ks : List Prim) (vs : List Val) (b : List Bool),
    serPrims C ks vs = some b → ∀ real rest, RealOf blk b real rest → desPrims C blk ks real = some (vs, rest)
  | [], [], b, h, real, rest, hr => by
    simp [serPrims] at h; subst h
    rw [realOf_nil blk real rest hr]; rfl
  | [], _ :: _, b, h, _, _, _ => by simp [serPrims] at h
  | k :: ks, [], b, h, _, _, _ => by simp [serPrims] at h
  | k :: ks, v :: vs, b, h, real, rest, hr => by
    cases v with
    | leaf x =>
      simp only [serPrims] at h
      cases he : C.enc k x with
      | none => rw [he] at h; simp at h
      | some b1 =>
        cases hp : serPrims C ks vs with
        | none => rw [he, hp] at h; simp at h
        | some bs =>
          rw [he, hp] at h; simp at h; subst h
          obtain ⟨mid, h1, h2, _⟩ := realOf_append blk b1 bs real rest hr
          simp only [desPrims]
          rw [decPrim_sound C hS hO blk k x b1 real mid he h1]
          simp only
          rw [serPrims_des hS hO blk ks vs bs hp mid rest h2]
    | dict _ => simp [serPrims] at h
    | list _ => simp [serPrims] at h

theorem len_sub (b rest : List Bool) : (b ++ rest).length - rest.length = b.length := by simp

mutual
theorem serStmt_des (hS : Sound C) (hO : OnesBound C) : ∀ (s : Stmt) (blk : Bool) (pos : Nat) (d acc : Dict) (b : List Bool) (acc' d' : Dict),
    serStmt C blk pos s d acc = some (b, acc', d') → Disj d acc →
    (∀ real rest, RealOf blk b real rest → desStmt C blk pos s acc real = some (acc', rest)) ∧ Disj d' acc'
  | .prim t k, blk, pos, d, acc, b, acc', d', h, hd => by
    simp only [serStmt] at h
    split at h
    · rename_i v hg
      cases he : C.enc k v with
      | none => rw [he] at h; cases h
      | some b1 =>
        rw [he] at h; simp at h
        obtain ⟨h1, h2, h3⟩ := h; subst h1 h2 h3
        have ⟨hn, hdj⟩ := disj_consume d acc t (.leaf v) _ hd hg
        refine ⟨fun real rest hr => ?_, hdj⟩
        simp only [desStmt, hn, Bool.false_eq_true, if_false, decPrim_sound C hS hO blk k v b1 real rest he hr]
    · cases h
  | .primList t ks, blk, pos, d, acc, b, acc', d', h, hd => by
    simp only [serStmt] at h
    split at h
    · rename_i vs hg
      cases he : serPrims C ks vs with
      | none => rw [he] at h; cases h
      | some b1 =>
        rw [he] at h; simp at h
        obtain ⟨h1, h2, h3⟩ := h; subst h1 h2 h3
        have ⟨hn, hdj⟩ := disj_fetch d acc t _ (.list vs) _ hd hg
        refine ⟨fun real rest hr => ?_, hdj⟩
        simp only [desStmt, hn, Bool.false_eq_true, if_false, serPrims_des C hS hO blk ks vs b1 he real rest hr]
    · cases h
  | .sub t body, blk, pos, d, acc, b, acc', d', h, hd => by
    simp only [serStmt] at h
    split at h
    · rename_i dsub hg
      split at h
      · rename_i b1 used hb
        simp at h
        obtain ⟨h1, h2, h3⟩ := h; subst h1 h2 h3
        have ⟨hn, hdj⟩ := disj_fetch d acc t _ (.dict used) _ hd hg
        have ih := serBody_des hS hO body blk pos dsub [] b1 used [] hb (by intro k _; rfl)
        refine ⟨fun real rest hr => ?_, hdj⟩
        simp only [desStmt, hn, Bool.false_eq_true, if_false, ih.1 real rest hr]
      · cases h
    · cases h
  | .subList t bodies, blk, pos, d, acc, b, acc', d', h, hd => by
    simp only [serStmt] at h
    split at h
    · rename_i vs hg
      cases hb : serBodies C blk pos bodies vs with
      | none => rw [hb] at h; cases h
      | some r =>
        obtain ⟨b1, used⟩ := r
        rw [hb] at h; simp at h
        obtain ⟨h1, h2, h3⟩ := h; subst h1 h2 h3
        have ⟨hn, hdj⟩ := disj_fetch d acc t _ (.list used) _ hd hg
        have ih := serBodies_des hS hO bodies blk pos vs b1 used hb
        refine ⟨fun real rest hr => ?_, hdj⟩
        simp only [desStmt, hn, Bool.false_eq_true, if_false, ih real rest hr]
    · cases h
  | .block t len body, true, pos, d, acc, b, acc', d', h, hd => by simp [serStmt] at h
  | .block t len body, false, pos, d, acc, b, acc', d', h, hd => by
    simp only [serStmt] at h
    cases hb : serBody C true pos body d acc with
    | none => rw [hb] at h; cases h
    | some r =>
      obtain ⟨b1, acc1, d1⟩ := r
      rw [hb] at h; simp only at h
      split at h
      · rename_i hones
        split at h
        · rename_i p hg
          split at h
          · rename_i hp
            simp at h
            obtain ⟨h1, h2, h3⟩ := h; subst h1 h2 h3
            have ih := serBody_des hS hO body true pos d acc b1 acc1 d1 hb hd
            have ⟨hn, hdj⟩ := disj_consume d1 acc1 t (.leaf (.bits p)) _ ih.2 hg
            refine ⟨fun real rest hr => ?_, hdj⟩
            unfold RealOf at hr
            simp only [Bool.false_eq_true, if_false] at hr
            subst hr
            have hlen : (b1.take len ++ p).length = len := by
              simp only [List.length_append, List.length_take]; omega
            have htake : (b1.take len ++ p ++ rest).take len = b1.take len ++ p := List.take_left' hlen
            have hdrop : (b1.take len ++ p ++ rest).drop len = rest := List.drop_left' hlen
            have hge : ¬ (b1.take len ++ p ++ rest).length < len := by
              simp only [List.length_append, List.length_take]; omega
            have hcut : RealOf true b1 (b1.take len ++ p) p := by
              unfold RealOf; simp only [if_true]
              by_cases hc : b1.length ≤ len
              · refine ⟨b1.length, Nat.le_refl _, ?_, by simp, fun h => absurd h (Nat.lt_irrefl _)⟩
                rw [List.take_length, List.take_of_length_le hc]
              · have hp0 : p = [] := List.eq_nil_of_length_eq_zero (by omega)
                exact ⟨len, by omega, rfl, hones, fun _ => hp0⟩
            simp only [desStmt, hge, if_false, htake, ih.1 _ _ hcut, hn, Bool.false_eq_true, hdrop]
          · cases h
        · cases h
      · cases h
  | .align t, true, pos, d, acc, b, acc', d', h, hd => by simp [serStmt] at h
  | .align t, false, pos, d, acc, b, acc', d', h, hd => by
    simp only [serStmt] at h
    split at h
    · rename_i p hg
      split at h
      · rename_i hp
        simp at h
        obtain ⟨h1, h2, h3⟩ := h; subst h1 h2 h3
        have ⟨hn, hdj⟩ := disj_consume d acc t (.leaf (.bits p)) _ hd hg
        refine ⟨fun real rest hr => ?_, hdj⟩
        unfold RealOf at hr
        simp only [Bool.false_eq_true, if_false] at hr
        subst hr
        have hge : ¬ (p ++ rest).length < alignBits pos := by simp; omega
        have htake : (p ++ rest).take (alignBits pos) = p := by rw [← hp]; exact List.take_left' rfl
        have hdrop : (p ++ rest).drop (alignBits pos) = rest := by rw [← hp]; exact List.drop_left' rfl
        simp only [desStmt, hn, Bool.false_eq_true, if_false, hge, htake, hdrop]
      · cases h
    · cases h
  | .computed t v, blk, pos, d, acc, b, acc', d', h, hd => by
    simp only [serStmt] at h
    split at h
    · cases h
    · rename_i hfresh
      simp at h
      obtain ⟨h1, h2, h3⟩ := h; subst h1 h2 h3
      have hacc : acc.has t = false := by simpa using hfresh
      refine ⟨fun real rest hr => ?_, ?_⟩
      · rw [realOf_nil blk real rest hr]
        simp only [desStmt, hacc, Bool.false_eq_true, if_false]
      · intro k hk
        rw [has_erase] at hk
        simp only [Bool.and_eq_true] at hk
        rw [has_append, hd k hk.1]
        have : (t == k) = false := by
          have := hk.2; simp at this ⊢; exact fun h => this h.symm
        simp [this]
theorem serBody_des (hS : Sound C) (hO : OnesBound C) : ∀ (body : List Stmt) (blk : Bool) (pos : Nat) (d acc : Dict) (b : List Bool) (acc' d' : Dict),
    serBody C blk pos body d acc = some (b, acc', d') → Disj d acc →
    (∀ real rest, RealOf blk b real rest → desBody C blk pos body acc real = some (acc', rest)) ∧ Disj d' acc'
  | [], blk, pos, d, acc, b, acc', d', h, hd => by
    simp [serBody] at h
    obtain ⟨h1, h2, h3⟩ := h; subst h1 h2 h3
    refine ⟨fun real rest hr => ?_, hd⟩
    rw [realOf_nil blk real rest hr]; rfl
  | s :: ss, blk, pos, d, acc, b, acc', d', h, hd => by
    simp only [serBody] at h
    cases h1 : serStmt C blk pos s d acc with
    | none => rw [h1] at h; cases h
    | some r =>
      obtain ⟨b1, acc1, d1⟩ := r
      rw [h1] at h; simp only at h
      cases h2 : serBody C blk (if blk then pos else pos + b1.length) ss d1 acc1 with
      | none => rw [h2] at h; cases h
      | some r2 =>
        obtain ⟨bs, acc2, d2⟩ := r2
        rw [h2] at h; simp at h
        obtain ⟨e1, e2, e3⟩ := h; subst e1 e2 e3
        have i1 := serStmt_des hS hO s blk pos d acc b1 acc1 d1 h1 hd
        have i2 := serBody_des hS hO ss blk (if blk then pos else pos + b1.length) d1 acc1 bs acc2 d2 h2 i1.2
        refine ⟨fun real rest hr => ?_, i2.2⟩
        obtain ⟨mid, r1, r2, hl⟩ := realOf_append blk b1 bs real rest hr
        simp only [desBody, i1.1 real mid r1]
        have hpos : (if blk then pos else pos + (real.length - mid.length)) = (if blk then pos else pos + b1.length) := by
          cases blk with
          | true => rfl
          | false => simp only [Bool.false_eq_true, if_false]; rw [hl rfl]
        rw [hpos]
        exact i2.1 mid rest r2
theorem serBodies_des (hS : Sound C) (hO : OnesBound C) : ∀ (bodies : List (List Stmt)) (blk : Bool) (pos : Nat) (vs : List Val) (b : List Bool) (useds : List Val),
    serBodies C blk pos bodies vs = some (b, useds) →
    ∀ real rest, RealOf blk b real rest → desBodies C blk pos bodies real = some (useds, rest)
  | [], blk, pos, [], b, useds, h, real, rest, hr => by
    simp [serBodies] at h; obtain ⟨h1, h2⟩ := h; subst h1 h2
    rw [realOf_nil blk real rest hr]; rfl
  | [], blk, pos, _ :: _, b, useds, h, _, _, _ => by simp [serBodies] at h
  | body :: bodies, blk, pos, [], b, useds, h, real, rest, hr => by
    simp only [serBodies] at h
    split at h
    · rename_i b1 used hb
      cases h2 : serBodies C blk (if blk then pos else pos + b1.length) bodies [] with
      | none => rw [h2] at h; cases h
      | some r =>
        obtain ⟨bs, us⟩ := r
        rw [h2] at h; simp at h
        obtain ⟨e1, e2⟩ := h; subst e1 e2
        have i1 := serBody_des hS hO body blk pos [] [] b1 used [] hb (by intro k _; rfl)
        obtain ⟨mid, r1, r2, hl⟩ := realOf_append blk b1 bs real rest hr
        have hpos : (if blk then pos else pos + (real.length - mid.length)) = (if blk then pos else pos + b1.length) := by
          cases blk with
          | true => rfl
          | false => simp only [Bool.false_eq_true, if_false]; rw [hl rfl]
        have i2 := serBodies_des hS hO bodies blk (if blk then pos else pos + b1.length) [] bs us h2 mid rest r2
        simp only [desBodies, i1.1 real mid r1, hpos, i2]
    · cases h
  | body :: bodies, blk, pos, v :: vs, b, useds, h, real, rest, hr => by
    cases v with
    | leaf _ => simp [serBodies] at h
    | list _ => simp [serBodies] at h
    | dict d =>
      simp only [serBodies] at h
      split at h
      · rename_i b1 used hb
        cases h2 : serBodies C blk (if blk then pos else pos + b1.length) bodies vs with
        | none => rw [h2] at h; cases h
        | some r =>
          obtain ⟨bs, us⟩ := r
          rw [h2] at h; simp at h
          obtain ⟨e1, e2⟩ := h; subst e1 e2
          have i1 := serBody_des hS hO body blk pos d [] b1 used [] hb (by intro k _; rfl)
          obtain ⟨mid, r1, r2, hl⟩ := realOf_append blk b1 bs real rest hr
          have hpos : (if blk then pos else pos + (real.length - mid.length)) = (if blk then pos else pos + b1.length) := by
            cases blk with
            | true => rfl
            | false => simp only [Bool.false_eq_true, if_false]; rw [hl rfl]
          have i2 := serBodies_des hS hO bodies blk (if blk then pos else pos + b1.length) vs bs us h2 mid rest r2
          simp only [desBodies, i1.1 real mid r1, hpos, i2]
      · cases h
end

open VC2.Props.C20 in
theorem nbits_sound (n : Nat) (v : Int) (b rest : List Bool)
    (h : (match ({} : Writer).writeNbits n v with | .ok w => some w.out | .error _ => none) = some b) :
    (match ({ all := b ++ rest, pos := 0 } : Reader).readNbits n with
      | .ok (x, r') => some (Leaf.int x, (b ++ rest).drop r'.pos) | .error _ => none) = some (Leaf.int v, rest) := by
  by_cases hr : v < 0 ∨ bitLength v > n
  · have := (out_of_range_rejected ({} : Writer)).2.1 n v hr
    rw [this] at h; cases h
  · have hv : 0 ≤ v := by omega
    have hf : bitLength v ≤ n := by omega
    obtain ⟨bits, hl, hw, ⟨r', hrd, hp⟩, _⟩ := nbits_roundtrip n v hv hf [] rest 0
    have hw' : ({} : Writer).writeNbits n v = .ok { out := bits } := by simpa using hw
    rw [hw'] at h; simp at h; subst h
    have : (readerAt [] bits rest) = ({ all := bits ++ rest, pos := 0 } : Reader) := by simp [readerAt]
    rw [this] at hrd
    rw [hrd]; simp only
    have hp' : r'.pos = bits.length := by simpa [hl] using hp
    rw [hp', List.drop_left]
    have : ((v.toNat : Nat) : Int) = v := Int.toNat_of_nonneg hv
    rw [this]

open VC2.Props.C20 in
theorem bitarray_sound (n : Nat) (l b rest : List Bool) (hl : l.length = n)
    (h : (match ({} : Writer).writeBitarray n l with | .ok w => some w.out | .error _ => none) = some b) :
    (match Reader.readBits n ({ all := b ++ rest, pos := 0 } : Reader) with
      | .ok (x, r') => some (Leaf.bits x, (b ++ rest).drop r'.pos) | .error _ => none) = some (Leaf.bits l, rest) := by
  have := bitarray_roundtrip n l (by omega) [] rest
  simp only [hl, Nat.sub_self, List.replicate_zero, List.append_nil, List.nil_append, List.length_nil, Nat.zero_add] at this
  obtain ⟨hw, r', hrd, hp⟩ := this
  have hw' : ({} : Writer).writeBitarray n l = .ok { out := l } := by simpa using hw
  rw [hw'] at h; simp at h; subst h
  have e : (readerAt [] l rest) = ({ all := l ++ rest, pos := 0 } : Reader) := by simp [readerAt]
  rw [e] at hrd
  rw [hrd]; simp only
  rw [hp, ← hl, List.drop_left]

theorem bool_sound (v b' : Bool) (b rest : List Bool)
    (h : (match ({} : Writer).writeBit v with | .ok w => some w.out | .error _ => none) = some b) :
    (match ({ all := b ++ rest, pos := 0 } : Reader).readBit with
      | .ok (x, r') => some (Leaf.bool x, (b ++ rest).drop r'.pos) | .error _ => none) = some (Leaf.bool v, rest) := by
  simp [Writer.writeBit] at h; subst h
  simp [Reader.readBit, Reader.rawBit]

open VC2.Props.C20 in
theorem uint_sound (v : Int) (b rest : List Bool)
    (h : (match ({} : Writer).writeUint v with | .ok w => some w.out | .error _ => none) = some b) :
    (match ({ all := b ++ rest, pos := 0 } : Reader).readUint with
      | .ok (x, r') => some (Leaf.int x, (b ++ rest).drop r'.pos) | .error _ => none) = some (Leaf.int v, rest) := by
  by_cases hv : v < 0
  · have := (out_of_range_rejected ({} : Writer)).1 v hv
    rw [this] at h; cases h
  · obtain ⟨bits, hw, _, ⟨r', hrd, hp, _⟩, _⟩ := uint_roundtrip v (by omega) [] rest 0
    have hw' : ({} : Writer).writeUint v = .ok { out := bits } := by simpa using hw
    rw [hw'] at h; simp at h; subst h
    have e : (readerAt [] bits rest) = ({ all := bits ++ rest, pos := 0 } : Reader) := by simp [readerAt]
    rw [e] at hrd
    rw [hrd]; simp only
    have hp' : r'.pos = bits.length := by simpa using hp
    rw [hp', List.drop_left]

open VC2.Props.C20 in
theorem sint_sound (v : Int) (b rest : List Bool)
    (h : (match ({} : Writer).writeSint v with | .ok w => some w.out | .error _ => none) = some b) :
    (match ({ all := b ++ rest, pos := 0 } : Reader).readSint with
      | .ok (x, r') => some (Leaf.int x, (b ++ rest).drop r'.pos) | .error _ => none) = some (Leaf.int v, rest) := by
  obtain ⟨bits, hw, _, ⟨r', hrd, hp⟩, _⟩ := sint_roundtrip v [] rest 0
  have hw' : ({} : Writer).writeSint v = .ok { out := bits } := by simpa using hw
  rw [hw'] at h; simp at h; subst h
  have e : (readerAt [] bits rest) = ({ all := bits ++ rest, pos := 0 } : Reader) := by simp [readerAt]
  rw [e] at hrd
  rw [hrd]; simp only
  have hp' : r'.pos = bits.length := by simpa using hp
  rw [hp', List.drop_left]

/-- the C20 codec is a prefix code: whatever follows, reading returns the value written -/
theorem bitCodec_sound : ∀ k v b rest, bitCodec.enc k v = some b → bitCodec.dec k (b ++ rest) = some (v, rest) := by
  intro k v b rest h
  simp only [bitCodec, encBits, decBits] at h ⊢
  cases k with
  | bool => cases v with
    | bool x => exact bool_sound x x b rest h
    | int _ => cases h
    | bits _ => cases h
    | bytes _ => cases h
  | nbits n => cases v with
    | int x => exact nbits_sound n x b rest h
    | bool _ => cases h
    | bits _ => cases h
    | bytes _ => cases h
  | uintLit n => cases v with
    | int x => exact nbits_sound (8 * n) x b rest h
    | bool _ => cases h
    | bits _ => cases h
    | bytes _ => cases h
  | bitarray n => cases v with
    | bits l =>
      simp only at h
      split at h
      · rename_i hl; exact bitarray_sound n l b rest hl h
      · cases h
    | bool _ => cases h
    | int _ => cases h
    | bytes _ => cases h
  | bytes n => cases v with
    | bits l =>
      simp only at h
      split at h
      · rename_i hl; exact bitarray_sound (8 * n) l b rest hl h
      · cases h
    | bool _ => cases h
    | int _ => cases h
    | bytes _ => cases h
  | uint => cases v with
    | int x => exact uint_sound x b rest h
    | bool _ => cases h
    | bits _ => cases h
    | bytes _ => cases h
  | sint => cases v with
    | int x => exact sint_sound x b rest h
    | bool _ => cases h
    | bits _ => cases h
    | bytes _ => cases h

end VC2.Proofs.Serdes
