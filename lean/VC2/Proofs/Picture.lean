/- Helper lemmas for C04/C09: DC prediction inverse, offset and clip.  Core Lean only. -/
import VC2.Model.Picture
import VC2.Prelude
namespace VC2.Proofs.Picture
open VC2 VC2.Model.Picture


/-- the prediction at (y, x) only reads positions strictly before (y, x) in raster order, in rows
    y and y-1: two arrays that agree there give the same prediction -/
theorem pred_congr (f g : Arr) (y x : Nat)
    (h1 : x > 0 → f y (x - 1) = g y (x - 1))
    (h2 : y > 0 → ∀ x', x' ≤ x → f (y - 1) x' = g (y - 1) x') : pred f y x = pred g y x := by
  unfold pred
  by_cases hx : x > 0 <;> by_cases hy : y > 0
  · simp only [hx, hy, and_self, if_true]
    rw [h1 hx, h2 hy (x - 1) (by omega), h2 hy x (Nat.le_refl _)]
  · have hy0 : y = 0 := by omega
    subst hy0
    simp only [hx, Nat.lt_irrefl, and_false, if_false, and_self, if_true]
    exact h1 hx
  · have hx0 : x = 0 := by omega
    subst hx0
    simp only [Nat.lt_irrefl, false_and, if_false, hy, and_self, if_true]
    exact h2 hy 0 (Nat.le_refl _)
  · simp [hx, hy]

/-- encoder, one row: positions x < n of row y hold `f - pred f`, everything else is untouched -/
theorem encRow_spec (y : Nat) : ∀ (n : Nat) (f : Arr) (y' x' : Nat),
    encRow y n f y' x' = if y' = y ∧ x' < n then f y' x' - pred f y' x' else f y' x' := by
  intro n
  induction n with
  | zero => intro f y' x'; simp [encRow]
  | succ n ih =>
    intro f y' x'
    simp only [encRow]
    rw [ih]
    by_cases hy : y' = y
    · subst hy
      by_cases hlt : x' < n
      · have hne : ¬ (y' = y' ∧ x' = n) := by omega
        simp only [hlt, and_self, if_true, show x' < n + 1 by omega]
        have hp : pred (encStep f y' n) y' x' = pred f y' x' := by
          apply pred_congr
          · intro _; simp [encStep, upd]; omega
          · intro hy0 x'' _; simp [encStep, upd]; omega
        rw [hp]; simp [encStep, upd]; intro h; omega
      · by_cases heq : x' = n
        · subst heq
          simp [encStep, upd]
        · have : ¬ x' < n + 1 := by omega
          simp [hlt, this, encStep, upd, heq]
    · simp [hy, encStep, upd]

/-- encoder, rows n-1 … 0 done: rows y < n hold `f - pred f` for x < w -/
theorem encRows_spec (w : Nat) : ∀ (n : Nat) (f : Arr) (y' x' : Nat),
    encRows w n f y' x' = if y' < n ∧ x' < w then f y' x' - pred f y' x' else f y' x' := by
  intro n
  induction n with
  | zero => intro f y' x'; simp [encRows]
  | succ n ih =>
    intro f y' x'
    simp only [encRows]
    rw [ih]
    by_cases hlt : y' < n
    · by_cases hx : x' < w
      · simp only [hlt, hx, and_self, if_true, show y' < n + 1 by omega]
        -- row n was processed first; rows y' < n only read rows y' and y'-1, both < n
        have hp : pred (encRow n w f) y' x' = pred f y' x' := by
          apply pred_congr
          · intro _; rw [encRow_spec]; have : ¬ (y' = n ∧ x' - 1 < w) := by omega
            simp [this]
          · intro _ x'' _; rw [encRow_spec]; have : ¬ (y' - 1 = n ∧ x'' < w) := by omega
            simp [this]
        rw [hp, encRow_spec]
        have : ¬ (y' = n ∧ x' < w) := by omega
        simp [this]
      · have h1 : ¬ (y' < n ∧ x' < w) := by omega
        have h2 : ¬ (y' < n + 1 ∧ x' < w) := by omega
        simp only [h1, h2, if_false]
        rw [encRow_spec]; have : ¬ (y' = n ∧ x' < w) := by omega
        simp [this]
    · have h1 : ¬ (y' < n ∧ x' < w) := by omega
      simp only [h1, if_false]
      rw [encRow_spec]
      by_cases h : y' = n ∧ x' < w
      · have : y' < n + 1 ∧ x' < w := by omega
        simp [h, this]
      · have : ¬ (y' < n + 1 ∧ x' < w) := by omega
        simp [h, this]

/-- decoder applied to the encoder's output `E` of `f`: after x < n of row y (rows < y complete),
    the processed positions hold `f`, the others still `E` -/
def DecInv (w : Nat) (f E : Arr) (y n : Nat) (g : Arr) : Prop :=
  ∀ y' x', g y' x' = if (y' < y ∧ x' < w) ∨ (y' = y ∧ x' < n) then f y' x' else E y' x'

theorem decRow_inv (w h : Nat) (f E : Arr)
    (hE : ∀ y' x', E y' x' = if y' < h ∧ x' < w then f y' x' - pred f y' x' else f y' x')
    (y : Nat) (hy : y < h) : ∀ (n : Nat), n ≤ w → ∀ g, DecInv w f E y 0 g → DecInv w f E y n (decRow y n g) := by
  intro n
  induction n with
  | zero => intro _ g hg; exact hg
  | succ n ih =>
    intro hn g hg
    have hprev := ih (by omega) g hg
    intro y' x'
    simp only [decRow, decStep, upd]
    by_cases hpos : y' = y ∧ x' = n
    · obtain ⟨e1, e2⟩ := hpos; subst e1 e2
      rw [if_pos ⟨rfl, rfl⟩]
      have hcur : decRow y' x' g y' x' = E y' x' := by
        rw [hprev y' x', if_neg (by omega)]
      have hp : pred (decRow y' x' g) y' x' = pred f y' x' := by
        apply pred_congr
        · intro hx; rw [hprev, if_pos (by omega)]
        · intro hy0 x'' hx''; rw [hprev, if_pos (by omega)]
      rw [hcur, hp, hE, if_pos (by omega), if_pos (by omega)]
      omega
    · rw [if_neg hpos, hprev y' x']
      by_cases hc : (y' < y ∧ x' < w) ∨ (y' = y ∧ x' < n)
      · rw [if_pos hc, if_pos (by omega)]
      · rw [if_neg hc, if_neg (by omega)]

theorem decRows_inv (w h : Nat) (f E : Arr)
    (hE : ∀ y' x', E y' x' = if y' < h ∧ x' < w then f y' x' - pred f y' x' else f y' x') :
    ∀ (n : Nat), n ≤ h → DecInv w f E n 0 (decRows w n E) := by
  intro n
  induction n with
  | zero => intro _ y' x'; simp [decRows]
  | succ n ih =>
    intro hn
    have h1 := decRow_inv w h f E hE n (by omega) w (Nat.le_refl _) (decRows w n E) (ih (by omega))
    intro y' x'
    simp only [decRows]
    rw [h1 y' x']
    by_cases hc : (y' < n ∧ x' < w) ∨ (y' = n ∧ x' < w)
    · rw [if_pos hc, if_pos (by omega)]
    · rw [if_neg hc, if_neg (by omega)]

/-- **DC prediction is undone exactly**: for every band (any width, height and integer contents)
    the decoder's dc_prediction applied to the encoder's apply_dc_prediction returns the band -/
theorem dcPrediction_applyDcPrediction (w h : Nat) (f : Arr) :
    ∀ y x, dcPrediction w h (applyDcPrediction w h f) y x = f y x := by
  intro y x
  unfold dcPrediction applyDcPrediction
  have hE := encRows_spec w h f
  have := decRows_inv w h f (encRows w h f) hE h (Nat.le_refl _) y x
  rw [this]
  by_cases hc : (y < h ∧ x < w) ∨ (y = h ∧ x < 0)
  · rw [if_pos hc]
  · rw [if_neg hc, hE, if_neg (by omega)]

theorem half_pos (d : Nat) : 0 < half d := by unfold half; exact Int.pow_pos (by decide)

theorem two_half (d : Nat) (hd : 1 ≤ d) : (2 : Int) ^ d = 2 * half d := by
  unfold half
  have : d = (d - 1) + 1 := by omega
  conv => lhs; rw [this, Int.pow_succ]
  omega

theorem clip_in_range (d : Nat) (v : Int) (h1 : -(half d) ≤ v) (h2 : v ≤ half d - 1) : clipSample d v = v := by
  unfold clipSample VC2.Gen.clip pymin pymax
  split <;> split <;> omega

theorem clip_range (d : Nat) (v : Int) : -(half d) ≤ clipSample d v ∧ clipSample d v ≤ half d - 1 := by
  have := half_pos d
  unfold clipSample VC2.Gen.clip pymin pymax
  split <;> split <;> omega

end VC2.Proofs.Picture
