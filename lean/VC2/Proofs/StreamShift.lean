/-
  Shift invariance of the stream-structure model: only differences of byte offsets are ever
  observed, and the list of already decoded pictures is only appended to.  (Used by C10.)
-/
import VC2.Proofs.Stream
namespace VC2.Proofs.Stream
open VC2 VC2.Model.SymRe VC2.Model.Stream


def shiftS (p : Nat) (d : List Nat) (s : VState) : VState :=
  { s with pos := s.pos + p, lastPI := s.lastPI.map (· + p), initFragOffset := s.initFragOffset.map (· + p),
           decoded := d ++ s.decoded }

def mapOk {α β : Type} (f : α → β) : M α → M β
  | .ok a => .ok (f a)
  | .error e => .error e

theorem mapOk_bind {α β γ : Type} (m : M α) (k : α → M β) (f : β → γ) :
    mapOk f (m >>= k) = m >>= fun a => mapOk f (k a) := by cases m <;> rfl
theorem mapOk_pure {α β : Type} (x : α) (f : α → β) : mapOk f (pure x : M α) = pure (f x) := rfl

theorem checkLastNext_shift (p : Nat) (d : List Nat) (s : VState) :
    checkLastNext (shiftS p d s) = checkLastNext s := by
  unfold checkLastNext shiftS
  cases hn : s.nextOff with
  | none => simp [hn]
  | some n =>
    simp only [hn]
    cases hl : s.lastPI with
    | none => simp [getOrCrash, crash, bind, Except.bind]
    | some last =>
      simp only [Option.map_some, getOrCrash]
      have : s.pos + p - (last + p) = s.pos - last := by omega
      simp [this]

theorem parseInfo_shift (p : Nat) (d : List Nat) (s : VState) (u : DUnit) :
    parseInfo (shiftS p d s) u = mapOk (shiftS p d) (parseInfo s u) := by
  unfold parseInfo
  rw [checkLastNext_shift]
  simp only [mapOk_bind, mapOk_pure]
  cases hl : s.lastPI with
  | none => simp only [shiftS, hl, Option.map_none]; rfl
  | some last =>
    have : s.pos + p - (last + p) = s.pos - last := by omega
    simp only [shiftS, hl, Option.map_some, this]

theorem pictureNumberCheck_shift (p : Nat) (d : List Nat) (s : VState) (n : Nat) :
    pictureNumberCheck (shiftS p d s) n = mapOk (shiftS p d) (pictureNumberCheck s n) := by
  unfold pictureNumberCheck
  simp only [mapOk_bind, mapOk_pure]
  rfl

theorem headerPayload_shift (cfg : Config) (p : Nat) (d : List Nat) (s : VState) (u : DUnit) :
    headerPayload cfg (shiftS p d s) u = mapOk (shiftS p d) (headerPayload cfg s u) := by
  unfold headerPayload
  simp only [mapOk_bind, mapOk_pure]
  rfl

theorem mapOk_ite {α β : Type} (c : Prop) [Decidable c] (a b : M α) (f : α → β) :
    mapOk f (if c then a else b) = if c then mapOk f a else mapOk f b := by split <;> rfl
theorem mapOk_rej {α β : Type} (cls : String) (f : α → β) : mapOk f (rej cls : M α) = rej cls := rfl
theorem mapOk_crash {α β : Type} (w : String) (f : α → β) : mapOk f (crash w : M α) = crash w := rfl

theorem getOrCrash_map {β : Type} (x : Option Nat) (f : Nat → Nat) (w : String) (k : M β) :
    (getOrCrash (x.map f) w >>= fun _ => k) = (getOrCrash x w >>= fun _ => k) := by
  cases x <;> rfl

theorem dataFragment_shift (p : Nat) (d : List Nat) (s : VState) (u : DUnit) :
    dataFragment (shiftS p d s) u = mapOk (shiftS p d) (dataFragment s u) := by
  unfold dataFragment
  simp only [mapOk_bind, mapOk_pure, mapOk_ite, mapOk_rej, mapOk_crash]
  have hd : ∀ (c : Bool) (n : Nat), d ++ (if c = true then s.decoded ++ [n] else s.decoded) =
      if c = true then (d ++ s.decoded) ++ [n] else d ++ s.decoded := by
    intro c n; cases c <;> simp
  simp only [shiftS, getOrCrash_map, hd]
  rfl

theorem payload_shift (cfg : Config) (p : Nat) (d : List Nat) (s : VState) (u : DUnit) :
    payload cfg (shiftS p d s) u = mapOk (shiftS p d) (payload cfg s u) := by
  have hfr : (shiftS p d s).fragRemaining = s.fragRemaining := rfl
  unfold payload
  cases u.kind with
  | seqHdr => exact headerPayload_shift cfg p d s u
  | picture =>
    simp only [pictureNumberCheck_shift, mapOk_bind, mapOk_pure, hfr]
    cases guardRej (s.fragRemaining != 0) "PictureInterleavedWithFragmentedPicture" with
    | error e => rfl
    | ok _ =>
      cases pictureNumberCheck s u.picNum with
      | error e => rfl
      | ok s1 => simp [mapOk, shiftS, bind, Except.bind, pure, Except.pure]
  | fragment =>
    simp only
    split
    · simp only [pictureNumberCheck_shift, mapOk_bind, mapOk_pure, hfr]
      cases guardRej (s.fragRemaining != 0) "FragmentedPictureRestarted" with
      | error e => rfl
      | ok _ =>
        cases pictureNumberCheck s u.picNum with
        | error e => rfl
        | ok s1 => simp [mapOk, shiftS, bind, Except.bind, pure, Except.pure]
    · exact dataFragment_shift p d s u
  | aux => rfl
  | padding => rfl
  | eos => rfl

theorem endOfSequence_shift (p : Nat) (d : List Nat) (s : VState) :
    endOfSequence (shiftS p d s) = endOfSequence s := rfl

theorem fresh_shift (p q : Nat) (d e : List Nat) :
    shiftS p d (VState.fresh q e) = VState.fresh (q + p) (d ++ e) := rfl

/-- shifting all offsets and prepending already-decoded pictures changes nothing else -/
theorem run_shift (cfg : Config) (p : Nat) (d : List Nat) : ∀ (us : List DUnit) (s : VState),
    run cfg (shiftS p d s) us = ((run cfg s us).1, d ++ (run cfg s us).2) := by
  intro us
  induction us with
  | nil =>
    intro s
    unfold run
    have : (shiftS p d s).lastPI.isNone = s.lastPI.isNone := by cases h : s.lastPI <;> simp [shiftS, h]
    rw [this, checkLastNext_shift]
    split
    · rfl
    · cases checkLastNext s with
      | ok _ => rfl
      | error v => rfl
  | cons u rest ih =>
    intro s
    rw [run_cons, run_cons, parseInfo_shift]
    cases hp : parseInfo s u with
    | error e => rfl
    | ok s1 =>
      simp only [mapOk]
      by_cases heos : u.kind = .eos
      · simp only [if_pos heos, endOfSequence_shift]
        cases he : endOfSequence s1 with
        | error e => rfl
        | ok _ =>
          simp only
          have := ih (VState.fresh (s.pos + u.len) s1.decoded)
          rw [fresh_shift] at this
          have e1 : (shiftS p d s).pos + u.len = s.pos + u.len + p := by simp [shiftS]; omega
          rw [e1]
          exact this
      · simp only [if_neg heos]
        by_cases hd : (u.kind = .aux ∨ u.kind = .padding) ∧ u.next ≠ u.len
        · simp only [if_pos hd]; rfl
        · simp only [if_neg hd, payload_shift]
          cases hpl : payload cfg s1 u with
          | error e => rfl
          | ok s2 =>
            simp only [mapOk]
            have := ih { s2 with pos := s.pos + u.len }
            have e1 : { shiftS p d s2 with pos := (shiftS p d s).pos + u.len } =
                shiftS p d { s2 with pos := s.pos + u.len } := by
              simp [shiftS]; omega
            rw [e1]
            exact this

end VC2.Proofs.Stream
