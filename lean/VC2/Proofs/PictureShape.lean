import VC2.Model.PictureShape
import VC2.Props.C22
import VC2.Proofs.SlicePad
namespace VC2.Proofs.PictureShape
open VC2 VC2.Model.PictureGen VC2.Model.PictureShape

def codedRows (f : Fmt) : Nat := if f.fields then f.height / 2 else f.height

theorem codedShape_eq (f : Fmt) (hc : f.cdf ≤ 2) :
    codedShape f =
      { y := (codedRows f, f.width),
        c1 := ((if f.cdf = 2 then f.height / 2 else f.height) / (if f.fields then 2 else 1), if f.cdf = 0 then f.width else f.width / 2),
        c2 := ((if f.cdf = 2 then f.height / 2 else f.height) / (if f.fields then 2 else 1), if f.cdf = 0 then f.width else f.width / 2) } := by
  obtain h | h | h : f.cdf = 0 ∨ f.cdf = 1 ∨ f.cdf = 2 := by omega
  all_goals
    cases hf : f.fields <;>
    simp [codedShape, codedState, codedRows, VC2.Gen.picture_dimensions, h, hf, pydiv_pos] <;> omega

theorem mapM_replicate {α β : Type} (g : α → Option β) (a : α) (c : β) (h : g a = some c) (n : Nat) :
    (List.replicate n a).mapM g = some (List.replicate n c) := by
  induction n with
  | zero => rfl
  | succ n ih => simp [List.replicate_succ, List.mapM_cons, h, ih]

/-- a picture with the coded number of rows and the frame's width converts to exactly the coded shape -/
theorem toNative_coded (f : Fmt) (hr : Regular f) : toNative f (codedRows f, f.width) = some (codedShape f) := by
  obtain ⟨hc, hw, hh⟩ := hr
  rw [codedShape_eq f hc]
  obtain h | h | h : f.cdf = 0 ∨ f.cdf = 1 ∨ f.cdf = 2 := by omega
  all_goals
    cases hf : f.fields <;> cases hi : f.interlaced <;>
    simp [h, hf, hi] at hw hh <;>
    simp [toNative, from444, codedRows, assignable, everyOther, h, hf] <;> omega


/-- frames of the frame's size, as many as `frames` frames' worth of samples, come out of the pipe as
    `frames` (or, for fields, `2·frames`) pictures of exactly the coded shape -/
theorem pipeline_regular (f : Fmt) (hr : Regular f) (frames : Nat) :
    pipeline f (some (List.replicate (framesToSamples f.interlaced frames) (f.height, f.width))) =
      some (List.replicate (if f.fields then 2 * frames else frames) (codedShape f)) := by
  have hn := toNative_coded f hr
  obtain ⟨hc, hw, hh⟩ := hr
  unfold pipeline framesToPictures
  simp only [Option.bind_some, List.map_replicate]
  by_cases hp : f.fields = false ∧ f.interlaced = false
  · obtain ⟨hf, hi⟩ := hp
    simp only [toPictures, framesToSamples, hf, hi, codedRows] at hn ⊢
    have hn' : toNative f (f.height, f.width) = some (codedShape f) := by simpa using hn
    simp [mapM_replicate _ _ _ hn']
  · have he : f.height % 2 = 0 := by
      have : (f.interlaced || f.fields) = true := by
        cases hf : f.fields <;> cases hi : f.interlaced <;> simp_all
      rw [this] at hh
      simp only [if_true] at hh
      split at hh <;> omega
    rw [VC2.Props.C22.pictures_count_and_height f.fields f.interlaced f.tff frames f.height he]
    cases hf : f.fields
    · have hn' : toNative f (f.height, f.width) = some (codedShape f) := by simpa [hf, codedRows] using hn
      simp [mapM_replicate _ _ _ hn']
    · have hn' : toNative f (f.height / 2, f.width) = some (codedShape f) := by simpa [hf, codedRows] using hn
      simp [mapM_replicate _ _ _ hn']


theorem movingFrame_ok (f : Fmt) (sprite : Shape) (px : Nat) : movingFrame f sprite px = some (f.height, f.width) := by
  unfold movingFrame blit sliceLen assignable
  simp only []
  split <;> (rw [if_pos]; simp; omega)

theorem static_blit_ok (f : Fmt) (sprite : Shape) :
    blit f sprite (min f.height sprite.1) 0 0 (min f.width sprite.2) = some (f.height, f.width) := by
  unfold blit sliceLen assignable
  rw [if_pos]; simp

theorem mapM_const {α β : Type} (g : α → Option β) (c : β) (l : List α) (h : ∀ a, g a = some c) :
    l.mapM g = some (List.replicate l.length c) := by
  induction l with
  | nil => rfl
  | cons a l ih => simp [List.mapM_cons, h, ih, List.replicate_succ]

theorem ramps_rows (h : Nat) : sliceLen (4 * ((h + 3) / 4)) 0 h = h := by
  unfold sliceLen; omega

theorem generate_regular (g : Generator) (f : Fmt) (hr : Regular f) (hs : (spriteShape f).isSome) :
    generate g f = some (List.replicate (if f.fields then 2 * framesDrawn g else framesDrawn g) (codedShape f)) := by
  obtain ⟨sprite, hsp⟩ := Option.isSome_iff_exists.mp hs
  cases g with
  | movingSprite n =>
    simp only [generate, movingSpriteFrames, hsp, framesDrawn]
    rw [mapM_const _ (f.height, f.width) _ (fun k => movingFrame_ok f sprite _), List.length_range]
    exact pipeline_regular f hr n
  | staticSprite =>
    simp only [generate, staticSpriteFrames, hsp, framesDrawn, static_blit_ok, Option.map_some]
    exact pipeline_regular f hr 1
  | linearRamps =>
    simp only [generate, linearRampsFrames, framesDrawn, ramps_rows]
    exact pipeline_regular f hr 1
  | midGray => simp [generate, framesDrawn]
  | whiteNoise n => simp [generate, framesDrawn, Nat.mul_comm]


/-! ### sample values -/

theorem depth_pos (exc : Nat) (h : 1 ≤ exc) : 1 ≤ depthOf exc := by
  unfold depthOf
  obtain ⟨k, hk, _, _, h2⟩ := VC2.Proofs.SlicePad.intlog2_facts (exc + 1) (by omega)
  have := h2 (by omega)
  have e : ((exc : Int) + 1) = ((exc + 1 : Nat) : Int) := by omega
  rw [e, hk]; omega

end VC2.Proofs.PictureShape
