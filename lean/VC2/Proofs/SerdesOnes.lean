/- The 1-bits at the end of a code word of the C20 bit codec are at most `virtBits k`: what a value
   may take from beyond the end of a bounded block (C21/C06 with the bounded-block semantics). -/
import VC2.Proofs.ExpGolombCanon
namespace VC2.Proofs.Serdes
open VC2 VC2.Model.Serdes VC2.Model.BitIO VC2.Proofs.BitIO

theorem nbitsOf_length (v : Nat) : ∀ n, (nbitsOf v n).length = n
  | 0 => rfl
  | n + 1 => by simp [nbitsOf, nbitsOf_length v n]

theorem encPairs_all_true (m : Nat) : ∀ j, (encPairs m j ++ [true]).all id = true → j = 0
  | 0, _ => rfl
  | j + 1, h => by simp [encPairs] at h

theorem encPairs_ones (m : Nat) : ∀ (j n : Nat), ((encPairs m j ++ [true]).drop n).all id = true →
    ((encPairs m j ++ [true]).drop n).length ≤ 2
  | 0, n, _ => by simp [encPairs]; omega
  | j + 1, 0, h => by simp [encPairs] at h
  | j + 1, 1, h => by
    simp only [encPairs, List.cons_append, List.drop_succ_cons, List.drop_zero, List.all_cons, Bool.and_eq_true] at h
    have := encPairs_all_true m j h.2
    subst this
    simp [encPairs]
  | j + 1, n + 2, h => by
    simp only [encPairs, List.cons_append, List.drop_succ_cons] at h ⊢
    exact encPairs_ones m j n h

theorem encodeUint_ones (v n : Nat) (h : ((encodeUint v).drop n).all id = true) : ((encodeUint v).drop n).length ≤ 2 :=
  encPairs_ones _ _ n h

theorem encodeSint_ones (v : Int) (n : Nat) (h : ((encodeSint v).drop n).all id = true) :
    ((encodeSint v).drop n).length ≤ 3 := by
  unfold encodeSint at h ⊢
  rw [List.drop_append] at h ⊢
  rw [all_id_append] at h
  have h1 := encodeUint_ones v.natAbs n h.1
  simp only [List.length_append]
  have h2 : (List.drop (n - (encodeUint v.natAbs).length) (if v = 0 then [] else [decide (v < 0)])).length ≤ 1 := by
    split <;> simp <;> omega
  omega

theorem writeBits_out (bs : List Bool) : ({} : Writer).writeBits bs = .ok { out := bs } := by
  have := writeBits_free bs ({} : Writer) rfl
  simpa using this

theorem writeNbits_out (n : Nat) (x : Int) (w' : Writer) (h : ({} : Writer).writeNbits (n : Int) x = .ok w') :
    w'.out.length = n := by
  unfold Writer.writeNbits at h
  split at h
  · cases h
  · rw [writeBits_out] at h
    cases h
    simp [nbitsOf_length]

theorem writeBitarray_out (n : Nat) (l : List Bool) (w' : Writer) (h : ({} : Writer).writeBitarray (n : Int) l = .ok w')
    (hl : l.length = n) : w'.out.length = n := by
  unfold Writer.writeBitarray at h
  split at h
  · cases h
  · rw [writeBits_out] at h
    cases h
    simp [hl]

theorem bitCodec_onesBound : OnesBound bitCodec := by
  intro k v b n he hall
  have hle : (b.drop n).length ≤ b.length := by simp
  cases k with
  | bool =>
    cases v with
    | bool x =>
      simp [bitCodec, encBits, Writer.writeBit] at he
      subst he
      simp [bitCodec, virtBits]
    | _ => simp [bitCodec, encBits] at he
  | nbits w =>
    cases v with
    | int x =>
      simp only [bitCodec, encBits] at he
      cases hw : ({} : Writer).writeNbits (w : Int) x with
      | error e => simp [hw] at he
      | ok w' =>
        simp [hw] at he; subst he
        have := writeNbits_out w x w' hw
        simp only [bitCodec, virtBits]; omega
    | _ => simp [bitCodec, encBits] at he
  | uintLit w =>
    cases v with
    | int x =>
      simp only [bitCodec, encBits] at he
      have e8 : ((8 * w : Nat) : Int) = 8 * (w : Int) := by omega
      cases hw : ({} : Writer).writeNbits ((8 * w : Nat) : Int) x with
      | error e => rw [e8] at hw; simp [hw] at he
      | ok w' =>
        have hw2 := hw
        rw [e8] at hw2
        simp [hw2] at he; subst he
        have := writeNbits_out (8 * w) x w' hw
        simp only [bitCodec, virtBits]; omega
    | _ => simp [bitCodec, encBits] at he
  | bitarray w =>
    cases v with
    | bits l =>
      simp only [bitCodec, encBits] at he
      by_cases hl : l.length = w
      · simp only [hl, if_true] at he
        cases hw : ({} : Writer).writeBitarray (w : Int) l with
        | error e => simp [hw] at he
        | ok w' =>
          simp [hw] at he; subst he
          have := writeBitarray_out w l w' hw hl
          simp only [bitCodec, virtBits]; omega
      · simp [hl] at he
    | _ => simp [bitCodec, encBits] at he
  | bytes w =>
    cases v with
    | bits l =>
      simp only [bitCodec, encBits] at he
      by_cases hl : l.length = 8 * w
      · simp only [hl, if_true] at he
        have e8 : ((8 * w : Nat) : Int) = 8 * (w : Int) := by omega
        cases hw : ({} : Writer).writeBitarray ((8 * w : Nat) : Int) l with
        | error e => rw [e8] at hw; simp [hw] at he
        | ok w' =>
          have hw2 := hw
          rw [e8] at hw2
          simp [hw2] at he; subst he
          have := writeBitarray_out (8 * w) l w' hw hl
          simp only [bitCodec, virtBits]; omega
      · simp [hl] at he
    | _ => simp [bitCodec, encBits] at he
  | uint =>
    cases v with
    | int x =>
      simp only [bitCodec, encBits] at he
      by_cases hx : x < 0
      · simp [Writer.writeUint, hx] at he
      · have : x = ((x.toNat : Nat) : Int) := by omega
        rw [this, writeUint_fresh] at he
        simp at he; subst he
        exact encodeUint_ones _ n hall
    | _ => simp [bitCodec, encBits] at he
  | sint =>
    cases v with
    | int x =>
      simp only [bitCodec, encBits] at he
      rw [writeSint_fresh] at he
      simp at he; subst he
      exact encodeSint_ones _ n hall

    | _ => simp [bitCodec, encBits] at he
end VC2.Proofs.Serdes
