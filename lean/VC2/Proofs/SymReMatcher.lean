/-
  C18, part B: the executable matcher (node lists, iterated ε-closure) computes exactly the
  relational semantics of the automaton.  Core Lean only.
-/
import VC2.Proofs.SymRe
namespace VC2.Proofs.SymRe
open VC2 VC2.Model.SymRe

/-- input letters: a real data-unit name, or the end marker -/
inductive Sym
  | real (a : String)
  | endm
  deriving DecidableEq, Repr

/-- label `l` matches a letter: `follow(a) ∪ follow(".")` for real symbols, `follow("")` for the end -/
def mrel (l : String) : Sym → Prop
  | .real a => labelMatches l a = true
  | .endm => l = END

abbrev EpsStar (es : List Edge) (p q : Nat) : Prop := Path mrel es p ([] : List Sym) q

/-! ### list-as-set helpers -/

theorem mem_insertNew (l : List Nat) (x y : Nat) : y ∈ insertNew l x ↔ y ∈ l ∨ y = x := by
  unfold insertNew
  by_cases h : l.contains x = true
  · rw [if_pos h]
    constructor
    · exact Or.inl
    · rintro (h1 | h1)
      · exact h1
      · subst h1; simpa using h
  · rw [if_neg h]; simp

theorem mem_unionNew (m : List Nat) : ∀ (l : List Nat) (y : Nat), y ∈ unionNew l m ↔ y ∈ l ∨ y ∈ m := by
  induction m with
  | nil => intro l y; simp [unionNew]
  | cons x m ih =>
    intro l y
    simp only [unionNew, List.foldl_cons] at ih ⊢
    rw [ih, mem_insertNew]
    simp only [List.mem_cons]
    constructor
    · rintro ((h | h) | h)
      · exact Or.inl h
      · exact Or.inr (Or.inl h)
      · exact Or.inr (Or.inr h)
    · rintro (h | h | h)
      · exact Or.inl (Or.inl h)
      · exact Or.inl (Or.inr h)
      · exact Or.inr h

theorem mem_epsSucc_aux (S : List Nat) (es : List Edge) : ∀ (acc : List Nat) (y : Nat),
    y ∈ es.foldl (fun acc e =>
      if e.lbl.isNone then
        let acc := if S.contains e.src then insertNew acc e.dst else acc
        if false && S.contains e.dst then insertNew acc e.src else acc
      else acc) acc ↔
    y ∈ acc ∨ ∃ e ∈ es, e.lbl = none ∧ e.src ∈ S ∧ e.dst = y := by
  induction es with
  | nil => intro acc y; simp
  | cons e es ih =>
    intro acc y
    simp only [List.foldl_cons, ih, List.mem_cons]
    cases hl : e.lbl with
    | some l =>
      simp only [Option.isNone_some, Bool.false_eq_true, if_false]
      constructor
      · rintro (h | ⟨e', he', h⟩)
        · exact Or.inl h
        · exact Or.inr ⟨e', Or.inr he', h⟩
      · rintro (h | ⟨e', he' | he', h⟩)
        · exact Or.inl h
        · subst he'; rw [hl] at h; cases h.1
        · exact Or.inr ⟨e', he', h⟩
    | none =>
      simp only [Option.isNone_none, if_true, Bool.false_and, Bool.false_eq_true, if_false]
      by_cases hs : S.contains e.src = true
      · rw [if_pos hs, mem_insertNew]
        have hs' : e.src ∈ S := by simpa using hs
        constructor
        · rintro ((h | h) | ⟨e', he', h⟩)
          · exact Or.inl h
          · exact Or.inr ⟨e, Or.inl rfl, hl, hs', h.symm⟩
          · exact Or.inr ⟨e', Or.inr he', h⟩
        · rintro (h | ⟨e', he' | he', h⟩)
          · exact Or.inl (Or.inl h)
          · subst he'; exact Or.inl (Or.inr h.2.2.symm)
          · exact Or.inr ⟨e', he', h⟩
      · rw [if_neg hs]
        have hs' : ¬ e.src ∈ S := by simpa using hs
        constructor
        · rintro (h | ⟨e', he', h⟩)
          · exact Or.inl h
          · exact Or.inr ⟨e', Or.inr he', h⟩
        · rintro (h | ⟨e', he' | he', h⟩)
          · exact Or.inl h
          · subst he'; exact absurd h.2.1 hs'
          · exact Or.inr ⟨e', he', h⟩

theorem mem_expand (es : List Edge) (S : List Nat) (y : Nat) :
    y ∈ expand false es S ↔ y ∈ S ∨ ∃ e ∈ es, e.lbl = none ∧ e.src ∈ S ∧ e.dst = y := by
  unfold expand epsSucc
  rw [mem_unionNew, mem_epsSucc_aux]
  simp

theorem iter_succ' {α : Type} (f : α → α) : ∀ (k : Nat) (x : α), iter f (k + 1) x = f (iter f k x) := by
  intro k
  induction k with
  | zero => intro x; rfl
  | succ k ih => intro x; simp only [iter] at ih ⊢; exact ih (f x)

/-! ### counting argument: `numNodes` rounds reach the fixpoint -/

def cnt (p : Nat → Bool) : Nat → Nat
  | 0 => 0
  | n + 1 => cnt p n + (if p n then 1 else 0)

theorem cnt_le (p : Nat → Bool) : ∀ n, cnt p n ≤ n := by
  intro n; induction n with
  | zero => simp [cnt]
  | succ n ih => simp only [cnt]; split <;> omega

theorem cnt_mono (p p' : Nat → Bool) : ∀ n, (∀ x, x < n → p x = true → p' x = true) → cnt p n ≤ cnt p' n := by
  intro n; induction n with
  | zero => intro _; simp [cnt]
  | succ n ih =>
    intro h
    have := ih (fun x hx => h x (by omega))
    simp only [cnt]
    by_cases hp : p n = true
    · have := h n (by omega) hp; simp [hp, this]; omega
    · simp only [hp, Bool.false_eq_true, if_false]; split <;> omega

theorem cnt_strict (p p' : Nat → Bool) : ∀ n, (∀ x, x < n → p x = true → p' x = true) →
    (∃ x, x < n ∧ p' x = true ∧ p x = false) → cnt p n < cnt p' n := by
  intro n; induction n with
  | zero => intro _ ⟨x, hx, _⟩; omega
  | succ n ih =>
    intro h ⟨x, hx, hx1, hx2⟩
    simp only [cnt]
    have hm := cnt_mono p p' n (fun y hy => h y (by omega))
    by_cases hxn : x = n
    · subst hxn; simp [hx1, hx2]; omega
    · have := ih (fun y hy => h y (by omega)) ⟨x, by omega, hx1, hx2⟩
      by_cases hp : p n = true
      · have := h n (by omega) hp; simp [hp, this]; omega
      · simp only [hp, Bool.false_eq_true, if_false]; split <;> omega

/-- node lists whose members are all below `N` and an edge list with endpoints below `N` -/
structure Bounded (es : List Edge) (N : Nat) : Prop where
  edges : ∀ e ∈ es, e.src < N ∧ e.dst < N

def T (es : List Edge) (S : List Nat) (k : Nat) : List Nat := iter (expand false es) k S

theorem T_succ (es : List Edge) (S : List Nat) (k : Nat) : T es S (k + 1) = expand false es (T es S k) :=
  iter_succ' _ k S

theorem T_mono (es : List Edge) (S : List Nat) (k : Nat) (y : Nat) (h : y ∈ T es S k) : y ∈ T es S (k + 1) := by
  rw [T_succ, mem_expand]; exact Or.inl h

theorem T_bounded (es : List Edge) (N : Nat) (hb : Bounded es N) (S : List Nat) (hS : ∀ x ∈ S, x < N) :
    ∀ k y, y ∈ T es S k → y < N := by
  intro k
  induction k with
  | zero => intro y hy; exact hS y hy
  | succ k ih =>
    intro y hy
    rw [T_succ, mem_expand] at hy
    rcases hy with h | ⟨e, he, _, _, h⟩
    · exact ih y h
    · rw [← h]; exact (hb.edges e he).2

def Closed (es : List Edge) (X : List Nat) : Prop := ∀ y, y ∈ expand false es X → y ∈ X

theorem closed_or_grows (es : List Edge) (N : Nat) (hb : Bounded es N) (S : List Nat)
    (hS : ∀ x ∈ S, x < N) : ∀ k,
    (∃ j, j ≤ k ∧ Closed es (T es S j)) ∨
      k + cnt (fun x => (T es S 0).contains x) N ≤ cnt (fun x => (T es S k).contains x) N := by
  intro k
  induction k with
  | zero => right; omega
  | succ k ih =>
    rcases ih with ⟨j, hj, hc⟩ | hgrow
    · exact Or.inl ⟨j, by omega, hc⟩
    · by_cases hc : Closed es (T es S k)
      · exact Or.inl ⟨k, by omega, hc⟩
      · right
        have : ∃ y, y ∈ expand false es (T es S k) ∧ ¬ y ∈ T es S k := by
          apply Classical.byContradiction
          intro hn
          apply hc
          intro y hy
          apply Classical.byContradiction
          intro hny; exact hn ⟨y, hy, hny⟩
        obtain ⟨y, hy1, hy2⟩ := this
        have hyN : y < N := T_bounded es N hb S hS (k + 1) y (by rw [T_succ]; exact hy1)
        have := cnt_strict (fun x => (T es S k).contains x) (fun x => (T es S (k + 1)).contains x) N
          (by intro x _ hx; simp only [List.contains_iff_mem] at hx ⊢; exact T_mono es S k x hx)
          ⟨y, hyN, by simp only [List.contains_iff_mem]; rw [T_succ]; exact hy1, by simpa using hy2⟩
        omega

theorem closed_stable (es : List Edge) (S : List Nat) (j : Nat) (hc : Closed es (T es S j)) :
    ∀ i y, y ∈ T es S (j + i) ↔ y ∈ T es S j := by
  intro i
  induction i with
  | zero => intro y; rfl
  | succ i ih =>
    intro y
    have e : j + (i + 1) = (j + i) + 1 := by omega
    rw [e, T_succ, mem_expand]
    constructor
    · rintro (h | ⟨ed, hed, hl, hs, hd⟩)
      · exact (ih y).1 h
      · exact hc y ((mem_expand es _ y).2 (Or.inr ⟨ed, hed, hl, (ih _).1 hs, hd⟩))
    · intro h; exact Or.inl ((ih y).2 h)

theorem closed_contains_path (es : List Edge) (X : List Nat) (hc : Closed es X) {p q : Nat}
    {w : List Sym} (hp : Path mrel es p w q) : w = [] → p ∈ X → q ∈ X := by
  induction hp with
  | nil q => exact fun _ => id
  | eps he _ ih =>
    intro hw hx
    exact ih hw (hc _ ((mem_expand es X _).2 (Or.inr ⟨_, he, rfl, hx, rfl⟩)))
  | step _ _ _ _ => intro hw; cases hw

theorem closed_contains_reach (es : List Edge) (X : List Nat) (hc : Closed es X) {p q : Nat}
    (hp : EpsStar es p q) : p ∈ X → q ∈ X := closed_contains_path es X hc hp rfl

/-- everything in the computed closure is ε-reachable from the seed … -/
theorem closure_sound (es : List Edge) (S : List Nat) : ∀ k y, y ∈ T es S k → ∃ x ∈ S, EpsStar es x y := by
  intro k
  induction k with
  | zero => intro y hy; exact ⟨y, hy, .nil y⟩
  | succ k ih =>
    intro y hy
    rw [T_succ, mem_expand] at hy
    rcases hy with h | ⟨e, he, hl, hs, hd⟩
    · exact ih y h
    · obtain ⟨x, hx, hp⟩ := ih _ hs
      refine ⟨x, hx, ?_⟩
      have : Path mrel es e.src ([] : List Sym) y := by
        rw [← hd]
        exact Path.single_eps mrel (by cases e; simp_all)
      simpa using hp.trans mrel this

/-- … and `N` rounds find everything that is (pigeonhole) -/
theorem closure_complete (es : List Edge) (N : Nat) (hb : Bounded es N) (S : List Nat)
    (hS : ∀ x ∈ S, x < N) {x y : Nat} (hx : x ∈ S) (hp : EpsStar es x y) : y ∈ T es S N := by
  rcases closed_or_grows es N hb S hS N with ⟨j, hj, hc⟩ | hgrow
  · have hst := closed_stable es S j hc (N - j)
    have e : j + (N - j) = N := by omega
    rw [e] at hst
    rw [hst]
    apply closed_contains_reach es _ hc hp
    -- x ∈ T_j since T_0 ⊆ T_j
    have : ∀ k, x ∈ T es S k := by
      intro k; induction k with
      | zero => exact hx
      | succ k ih => exact T_mono es S k x ih
    exact this j
  · -- impossible: the count would exceed N
    have h0 : 1 ≤ cnt (fun z => (T es S 0).contains z) N := by
      have := cnt_strict (fun _ => false) (fun z => (T es S 0).contains z) N (by intro _ _ h; cases h)
        ⟨x, hS x hx, by simpa [T, iter] using hx, rfl⟩
      omega
    have := cnt_le (fun z => (T es S N).contains z) N
    omega

theorem mem_closure (es : List Edge) (N : Nat) (hb : Bounded es N) (S : List Nat)
    (hS : ∀ x ∈ S, x < N) (y : Nat) :
    y ∈ closure false es N S ↔ ∃ x ∈ S, EpsStar es x y :=
  ⟨closure_sound es S N y, fun ⟨_, hx, hp⟩ => closure_complete es N hb S hS hx hp⟩

theorem mem_stepOn_aux (S : List Nat) (p : String → Bool) (es : List Edge) : ∀ (acc : List Nat) (y : Nat),
    y ∈ es.foldl (stepFn S p) acc ↔
    y ∈ acc ∨ ∃ e ∈ es, ∃ l, e.lbl = some l ∧ p l = true ∧ e.src ∈ S ∧ e.dst = y := by
  induction es with
  | nil => intro acc y; simp
  | cons e es ih =>
    intro acc y
    simp only [List.foldl_cons, ih, List.mem_cons]
    unfold stepFn
    cases hl : e.lbl with
    | none =>
      simp only
      constructor
      · rintro (h | ⟨e', he', h⟩)
        · exact Or.inl h
        · exact Or.inr ⟨e', Or.inr he', h⟩
      · rintro (h | ⟨e', he' | he', l, h⟩)
        · exact Or.inl h
        · subst he'; rw [hl] at h; cases h.1
        · exact Or.inr ⟨e', he', l, h⟩
    | some l =>
      simp only
      by_cases hc : (p l && S.contains e.src) = true
      · rw [if_pos hc, mem_insertNew]
        simp only [Bool.and_eq_true, List.contains_iff_mem] at hc
        constructor
        · rintro ((h | h) | ⟨e', he', h⟩)
          · exact Or.inl h
          · exact Or.inr ⟨e, Or.inl rfl, l, hl, hc.1, hc.2, h.symm⟩
          · exact Or.inr ⟨e', Or.inr he', h⟩
        · rintro (h | ⟨e', he' | he', l', h⟩)
          · exact Or.inl (Or.inl h)
          · subst he'; exact Or.inl (Or.inr h.2.2.2.symm)
          · exact Or.inr ⟨e', he', l', h⟩
      · rw [if_neg hc]
        simp only [Bool.and_eq_true, List.contains_iff_mem, not_and] at hc
        constructor
        · rintro (h | ⟨e', he', h⟩)
          · exact Or.inl h
          · exact Or.inr ⟨e', Or.inr he', h⟩
        · rintro (h | ⟨e', he' | he', l', h⟩)
          · exact Or.inl h
          · subst he'
            rw [hl] at h
            have : l' = l := by have := h.1; injection this with this; exact this.symm
            subst this
            exact absurd h.2.2.1 (hc h.2.1)
          · exact Or.inr ⟨e', he', l', h⟩

theorem mem_stepOn (es : List Edge) (S : List Nat) (p : String → Bool) (y : Nat) :
    y ∈ stepOn es S p ↔ ∃ e ∈ es, ∃ l, e.lbl = some l ∧ p l = true ∧ e.src ∈ S ∧ e.dst = y := by
  unfold stepOn; rw [mem_stepOn_aux]; simp

end VC2.Proofs.SymRe

namespace VC2.Proofs.SymRe
open VC2 VC2.Model.SymRe

/-! ### relational semantics of successive `match_symbol` calls -/

/-- one `match_symbol a`: ε-moves, then one edge whose label accepts `a` -/
def StepRel (es : List Edge) (q0 : Nat) (a : String) (q : Nat) : Prop :=
  ∃ q1, EpsStar es q0 q1 ∧ ∃ e ∈ es, e.src = q1 ∧ e.dst = q ∧ ∃ l, e.lbl = some l ∧ labelMatches l a = true

def ReachFrom (es : List Edge) : Nat → List String → Nat → Prop
  | q0, [], q => q = q0
  | q0, a :: w, q => ∃ q', StepRel es q0 a q' ∧ ReachFrom es q' w q

theorem reachFrom_path (es : List Edge) : ∀ (w : List String) (q0 q : Nat),
    ReachFrom es q0 w q → Path mrel es q0 (w.map Sym.real) q := by
  intro w
  induction w with
  | nil => intro q0 q h; simp only [ReachFrom] at h; subst h; exact .nil _
  | cons a w ih =>
    intro q0 q h
    obtain ⟨q', ⟨q1, he, e, hmem, hs, hd, l, hl, hm⟩, hr⟩ := h
    have p2 : Path mrel es q1 (Sym.real a :: w.map Sym.real) q := by
      refine .step (s := l) (q := q') ?_ hm (ih q' q hr)
      cases e; simp_all
    simpa using he.trans mrel p2

theorem path_cons_inv (es : List Edge) {p r : Nat} {w : List Sym} (hp : Path mrel es p w r) :
    ∀ (x : Sym) (u : List Sym), w = x :: u →
    ∃ p', EpsStar es p p' ∧ ∃ e ∈ es, e.src = p' ∧ (∃ l, e.lbl = some l ∧ mrel l x) ∧ Path mrel es e.dst u r := by
  induction hp with
  | nil q => intro x u h; cases h
  | eps he _ ih =>
    intro x u h
    obtain ⟨p', hp', rest⟩ := ih x u h
    exact ⟨p', .eps he hp', rest⟩
  | @step p q r s a w he hm hrest _ =>
    intro x u h
    injection h with h1 h2
    subst h1; subst h2
    exact ⟨p, .nil _, ⟨p, some s, q⟩, he, rfl, ⟨s, rfl, hm⟩, hrest⟩

theorem path_reachFrom (es : List Edge) : ∀ (w : List String) (q0 qf : Nat) (v : List Sym),
    Path mrel es q0 (w.map Sym.real ++ v) qf → ∃ q, ReachFrom es q0 w q ∧ Path mrel es q v qf := by
  intro w
  induction w with
  | nil => intro q0 qf v h; exact ⟨q0, rfl, by simpa using h⟩
  | cons a w ih =>
    intro q0 qf v h
    obtain ⟨p', hp', e, hmem, hs, ⟨l, hl, hm⟩, hrest⟩ :=
      path_cons_inv es h (Sym.real a) (w.map Sym.real ++ v) (by simp)
    obtain ⟨q, hq, hqv⟩ := ih e.dst qf v hrest
    exact ⟨q, ⟨e.dst, ⟨p', hp', e, hmem, hs, rfl, l, hl, hm⟩, hq⟩, hqv⟩

/-! ### the executable matcher computes it -/

/-- invariant of a well-formed matcher: directed ε-edges, a fragment with nodes below `next` -/
structure MOk (mt : Matcher) : Prop where
  dir : mt.bidir = false
  bounded : Bounded mt.frag.edges mt.frag.next
  cur : ∀ x ∈ mt.cur, x < mt.frag.next
  nonempty : mt.cur ≠ []

theorem mem_closed (mt : Matcher) (ok : MOk mt) (y : Nat) :
    y ∈ mt.closed ↔ ∃ x ∈ mt.cur, EpsStar mt.frag.edges x y := by
  unfold Matcher.closed; rw [ok.dir]
  exact mem_closure _ _ ok.bounded _ ok.cur y

theorem matchSymbol_spec (mt : Matcher) (ok : MOk mt) (a : String) :
    (∀ mt', mt.matchSymbol a = some mt' →
      MOk mt' ∧ mt'.frag = mt.frag ∧ ∀ q, q ∈ mt'.cur ↔ ∃ q0 ∈ mt.cur, StepRel mt.frag.edges q0 a q) ∧
    (mt.matchSymbol a = none ↔ ¬ ∃ q0 ∈ mt.cur, ∃ q, StepRel mt.frag.edges q0 a q) := by
  have key : ∀ q, q ∈ stepOn mt.frag.edges mt.closed (fun l => labelMatches l a) ↔
      ∃ q0 ∈ mt.cur, StepRel mt.frag.edges q0 a q := by
    intro q
    rw [mem_stepOn]
    constructor
    · rintro ⟨e, he, l, hl, hm, hs, hd⟩
      obtain ⟨x, hx, hp⟩ := (mem_closed mt ok _).1 hs
      exact ⟨x, hx, e.src, hp, e, he, rfl, hd, l, hl, hm⟩
    · rintro ⟨q0, hq0, q1, hp, e, he, hs, hd, l, hl, hm⟩
      exact ⟨e, he, l, hl, hm, (mem_closed mt ok _).2 ⟨q0, hq0, by rw [hs]; exact hp⟩, hd⟩
  unfold Matcher.matchSymbol
  simp only
  constructor
  · intro mt' h
    split at h
    · cases h
    · injection h with h; subst h
      rename_i hne
      refine ⟨⟨ok.dir, ok.bounded, ?_, ?_⟩, rfl, key⟩
      · intro x hx
        obtain ⟨e, he, _, _, _, _, hd⟩ := (mem_stepOn _ _ _ _).1 hx
        rw [← hd]; exact (ok.bounded.edges e he).2
      · intro hemp; apply hne; simp only at hemp; rw [hemp]; rfl
  · constructor
    · intro h
      split at h
      · rename_i hemp
        rintro ⟨q0, hq0, q, hq⟩
        have := (key q).2 ⟨q0, hq0, hq⟩
        rw [List.isEmpty_iff] at hemp
        rw [hemp] at this; cases this
      · cases h
    · intro h
      split
      · rfl
      · rename_i hne
        exfalso; apply h
        cases hs : stepOn mt.frag.edges mt.closed (fun l => labelMatches l a) with
        | nil => rw [hs] at hne; simp at hne
        | cons q _ =>
          obtain ⟨q0, hq0, hq⟩ := (key q).1 (by rw [hs]; exact List.mem_cons_self)
          exact ⟨q0, hq0, q, hq⟩

theorem run_spec : ∀ (w : List String) (mt : Matcher), MOk mt →
    (∀ mt', mt.run w = some mt' →
      MOk mt' ∧ mt'.frag = mt.frag ∧ ∀ q, q ∈ mt'.cur ↔ ∃ q0 ∈ mt.cur, ReachFrom mt.frag.edges q0 w q) ∧
    (mt.run w = none ↔ ¬ ∃ q0 ∈ mt.cur, ∃ q, ReachFrom mt.frag.edges q0 w q) := by
  intro w
  induction w with
  | nil =>
    intro mt ok
    constructor
    · intro mt' h
      simp only [Matcher.run] at h; injection h with h; subst h
      exact ⟨ok, rfl, fun q => ⟨fun hq => ⟨q, hq, rfl⟩, fun ⟨q0, hq0, h⟩ => by simp only [ReachFrom] at h; rw [h]; exact hq0⟩⟩
    · simp only [Matcher.run]
      constructor
      · intro h; cases h
      · intro h
        exfalso
        cases hc : mt.cur with
        | nil => exact ok.nonempty hc
        | cons x _ => exact h ⟨x, by rw [hc]; exact List.mem_cons_self, x, rfl⟩
  | cons a w ih =>
    intro mt ok
    have ⟨s1, s2⟩ := matchSymbol_spec mt ok a
    simp only [Matcher.run]
    cases hm : mt.matchSymbol a with
    | none =>
      simp only [Option.bind_none]
      constructor
      · intro mt' h; cases h
      · constructor
        · intro _
          rintro ⟨q0, hq0, q, q', hstep, _⟩
          exact (s2.1 hm) ⟨q0, hq0, q', hstep⟩
        · intro _; trivial
    | some mt1 =>
      simp only [Option.bind_some]
      obtain ⟨ok1, hf1, hc1⟩ := s1 mt1 hm
      have ⟨r1, r2⟩ := ih mt1 ok1
      rw [hf1] at r1 r2
      constructor
      · intro mt' h
        obtain ⟨ok', hf', hc'⟩ := r1 mt' h
        refine ⟨ok', hf', ?_⟩
        intro q
        rw [hc']
        constructor
        · rintro ⟨q1, hq1, hr⟩
          obtain ⟨q0, hq0, hstep⟩ := (hc1 q1).1 hq1
          exact ⟨q0, hq0, q1, hstep, hr⟩
        · rintro ⟨q0, hq0, q1, hstep, hr⟩
          exact ⟨q1, (hc1 q1).2 ⟨q0, hq0, hstep⟩, hr⟩
      · rw [r2]
        constructor
        · intro h
          rintro ⟨q0, hq0, q, q1, hstep, hr⟩
          exact h ⟨q1, (hc1 q1).2 ⟨q0, hq0, hstep⟩, q, hr⟩
        · intro h
          rintro ⟨q1, hq1, q, hr⟩
          obtain ⟨q0, hq0, hstep⟩ := (hc1 q1).1 hq1
          exact h ⟨q0, hq0, q, q1, hstep, hr⟩

end VC2.Proofs.SymRe
