/-
  Lemmas for C01/C02/C10 on the stream-structure model.
-/
import VC2.Model.Stream
import VC2.Props.C18
namespace VC2.Proofs.Stream
open VC2 VC2.Model.SymRe VC2.Model.Stream VC2.Proofs.SymRe VC2.Props.C18

def IsCrash : Verdict → Prop
  | .crash _ => True
  | _ => False

theorem find_map_mem (l : List (Nat × String)) (c : Nat) (name : String)
    (h : (l.find? (fun p => p.1 == c)).map (·.2) = some name) : (c, name) ∈ l := by
  cases hf : l.find? (fun p => p.1 == c) with
  | none => rw [hf] at h; cases h
  | some p =>
    rw [hf] at h
    have hm := List.mem_of_find?_eq_some hf
    have hp := List.find?_some hf
    simp only [Option.map_some, Option.some.injEq] at h
    simp only [beq_iff_eq] at hp
    obtain ⟨a, b⟩ := p
    simp only at h hp
    subst h; subst hp; exact hm

theorem table_seqHdr : ∀ p ∈ VC2.Gen.parseCodeNames, p.2 = "sequence_header" → p.1 = 0 := by decide

theorem codeName_seqHdr (c : Nat) (h : codeName c = "sequence_header") : c = 0 := by
  unfold codeName at h
  cases hf : (VC2.Gen.parseCodeNames.find? (fun p => p.1 == c)).map (·.2) with
  | none => rw [hf] at h; simp at h
  | some name =>
    rw [hf] at h
    simp only [Option.getD_some] at h
    subst h
    exact table_seqHdr _ (find_map_mem _ c _ hf) rfl

theorem lang_cat_inv {Sy : Type} {m : String → Sy → Prop} {a b : Ast} {w : List Sy}
    (h : Lang m (.cat a b) w) : ∃ u v, w = u ++ v ∧ Lang m a u ∧ Lang m b v := by
  generalize hr : Ast.cat a b = r at h
  cases h with
  | cat h1 h2 => injection hr with e1 e2; subst e1; subst e2; exact ⟨_, _, rfl, h1, h2⟩
  | _ => cases hr

theorem lang_sym_inv {Sy : Type} {m : String → Sy → Prop} {s : String} {w : List Sy}
    (h : Lang m (.sym s) w) : ∃ a, w = [a] ∧ m s a := by
  generalize hr : Ast.sym s = r at h
  cases h with
  | sym hm => injection hr with e1; subst e1; exact ⟨_, rfl, hm⟩
  | _ => cases hr

/-- the generic pattern `sequence_header .* end_of_sequence` admits only a sequence header first -/
theorem generic_first (name : String) (g : Matcher)
    (h : (Matcher.init false genericPattern).matchSymbol name = some g) : name = "sequence_header" := by
  have hrun : ((Matcher.init false genericPattern).run [name]).isSome = true := by
    simp [Matcher.run, h]
  obtain ⟨v, hv⟩ := (accepts_iff_prefix genericPattern [name]).1 hrun
  unfold genericPattern at hv
  obtain ⟨u, w, heq, hu, _⟩ := lang_cat_inv hv
  obtain ⟨x, hx, hm⟩ := lang_sym_inv hu
  subst hx
  simp only [reals, List.map_cons, List.map_nil, List.singleton_append, List.cons_append,
    List.nil_append, List.cons.injEq] at heq
  obtain ⟨hx, _⟩ := heq
  subst hx
  simp only [mrel, labelMatches, Bool.or_eq_true, beq_iff_eq] at hm
  rcases hm with hm | hm
  · exact hm.symm
  · exact absurd hm (by decide)

end VC2.Proofs.Stream

namespace VC2.Proofs.Stream
open VC2 VC2.Model.SymRe VC2.Model.Stream VC2.Proofs.SymRe VC2.Props.C18

/-! ### reasoning principles for the `Except Verdict` monad -/

theorem bind_ok {α β : Type} (m : M α) (f : α → M β) (y : β) :
    (m >>= f) = .ok y ↔ ∃ x, m = .ok x ∧ f x = .ok y := by
  cases m with
  | error e => simp [bind, Except.bind]
  | ok x => simp [bind, Except.bind]

theorem bind_err {α β : Type} (m : M α) (f : α → M β) (e : Err) :
    (m >>= f) = .error e ↔ m = .error e ∨ ∃ x, m = .ok x ∧ f x = .error e := by
  cases m with
  | error e' => simp [bind, Except.bind]
  | ok x => simp [bind, Except.bind]

theorem guardRej_ok (c : Bool) (cls : String) (x : Unit) : guardRej c cls = .ok x ↔ c = false := by
  unfold guardRej rej; cases c <;> simp [pure, Except.pure]

theorem guardRej_err (c : Bool) (cls : String) (e : Err) :
    guardRej c cls = .error e ↔ c = true ∧ e = .reject cls := by
  unfold guardRej rej; cases c <;> simp [pure, Except.pure]; exact eq_comm

theorem getOrCrash_ok {α : Type} (x : Option α) (w : String) (v : α) :
    getOrCrash x w = .ok v ↔ x = some v := by
  unfold getOrCrash crash; cases x <;> simp [pure, Except.pure]

theorem getOrCrash_err {α : Type} (x : Option α) (w : String) (e : Err) :
    getOrCrash x w = .error e ↔ x = none ∧ e = .crash w := by
  unfold getOrCrash crash; cases x <;> simp [pure, Except.pure]; exact eq_comm

theorem matchOrRej_ok (m : Matcher) (name cls : String) (g : Matcher) :
    matchOrRej m name cls = .ok g ↔ m.matchSymbol name = some g := by
  unfold matchOrRej rej; cases m.matchSymbol name <;> simp [pure, Except.pure]

theorem matchOrRej_err (m : Matcher) (name cls : String) (e : Err) :
    matchOrRej m name cls = .error e → e = .reject cls := by
  unfold matchOrRej rej; cases m.matchSymbol name <;> simp [pure, Except.pure]; exact eq_comm.mp

theorem pure_ok {α : Type} (x y : α) : (pure x : M α) = .ok y ↔ x = y := by simp [pure, Except.pure]
theorem pure_err {α : Type} (x : α) (e : Err) : (pure x : M α) = .error e ↔ False := by
  simp [pure, Except.pure]
theorem rej_err {α : Type} (cls : String) (e : Err) : (rej cls : M α) = .error e ↔ e = .reject cls := by
  unfold rej; simp; exact eq_comm
theorem rej_ok {α : Type} (cls : String) (y : α) : (rej cls : M α) = .ok y ↔ False := by unfold rej; simp
theorem crash_err {α : Type} (w : String) (e : Err) : (crash w : M α) = .error e ↔ e = .crash w := by
  unfold crash; simp; exact eq_comm
theorem crash_ok {α : Type} (w : String) (y : α) : (crash w : M α) = .ok y ↔ False := by unfold crash; simp

/-- the check of the previous next_parse_offset can only crash when no parse_info has been seen -/
theorem checkLastNext_crash (s : VState) (w : String) (h : checkLastNext s = .error (.crash w)) : s.lastPI = none := by
  unfold checkLastNext at h
  cases hn : s.nextOff with
  | none => rw [hn] at h; simp [pure_err] at h
  | some n =>
    rw [hn] at h
    simp only at h
    split at h
    · simp [pure_err] at h
    · simp only [bind_err, getOrCrash_err, guardRej_err, getOrCrash_ok] at h
      rcases h with h | ⟨_, _, h⟩
      · exact h.1
      · cases h.2

/-- a crash of `parse_info` can only be the `int - None` of the next-offset check -/
theorem parseInfo_crash (s : VState) (u : DUnit) (w : String)
    (h : parseInfo s u = .error (.crash w)) : s.nextOff.isSome = true ∧ s.lastPI = none := by
  unfold parseInfo at h
  simp only [bind_err, bind_ok, guardRej_err, guardRej_ok, pure_err, levelStep] at h
  rcases h with h | ⟨_, _, h⟩
  · unfold checkLastNext at h
    cases hn : s.nextOff with
    | none => rw [hn] at h; simp [pure_err] at h
    | some n =>
      rw [hn] at h
      simp only at h
      split at h
      · simp [pure_err] at h
      · simp only [bind_err, getOrCrash_err, guardRej_err, getOrCrash_ok] at h
        rcases h with h | ⟨_, _, h⟩
        · exact ⟨rfl, h.1⟩
        · cases h.2
  · rcases h with h | ⟨_, _, h⟩
    · have := matchOrRej_err _ _ _ _ h; cases this
    · rcases h with h | ⟨_, _, h⟩
      · cases hl : s.level with
        | none => rw [hl] at h; simp [pure_err] at h
        | some lm =>
          rw [hl] at h
          simp only [bind_err, pure_err] at h
          rcases h with h | ⟨_, _, h⟩
          · have := matchOrRej_err _ _ _ _ h; cases this
          · exact h.elim
      · simp only [Err.reject.injEq, reduceCtorEq, and_false, false_or, exists_const, exists_false,
          or_false, false_and] at h

/-- what a successful `parse_info` leaves behind -/
theorem parseInfo_ok (s s1 : VState) (u : DUnit) (h : parseInfo s u = .ok s1) :
    ∃ g lvl ev, s.generic.matchSymbol (codeName u.code) = some g ∧
      s1 = { s with generic := g, level := lvl, expectedVersion := ev, nextOff := some u.next,
                    lastPI := some s.pos } := by
  unfold parseInfo at h
  simp only [bind_ok, guardRej_ok, pure_ok, matchOrRej_ok] at h
  obtain ⟨_, _, g, hg, lvl, _, _, _, _, _, _, _, _, _, _, _, _, _, _, _, h⟩ := h
  exact ⟨g, lvl, _, hg, h.symm⟩

theorem pictureNumberCheck_crash (s : VState) (n : Nat) (w : String)
    (h : pictureNumberCheck s n = .error (.crash w)) : s.pcm = none := by
  unfold pictureNumberCheck at h
  simp only [bind_err, bind_ok, guardRej_err, guardRej_ok, getOrCrash_err, getOrCrash_ok, pure_err] at h
  rcases h with h | ⟨_, _, h⟩
  · cases h.2
  · rcases h with h | ⟨_, _, h⟩
    · exact h.1
    · rcases h with h | ⟨_, _, h⟩
      · cases h.2
      · exact h.elim

theorem pictureNumberCheck_ok (s s1 : VState) (n : Nat) (h : pictureNumberCheck s n = .ok s1) :
    s1 = { s with lastPicNum := some n, numPics := s.numPics + 1 } := by
  unfold pictureNumberCheck at h
  simp only [bind_ok, guardRej_ok, getOrCrash_ok, pure_ok] at h
  obtain ⟨_, _, _, _, _, _, h⟩ := h
  exact h.symm

theorem headerPayload_crash (cfg : Config) (s : VState) (u : DUnit) (w : String)
    (h : headerPayload cfg s u = .error (.crash w)) :
    s.level = none ∧ (Matcher.init false cfg.levelPattern).matchSymbol "sequence_header" = none := by
  unfold headerPayload at h
  simp only [bind_err, bind_ok, guardRej_err, guardRej_ok, pure_err] at h
  rcases h with h | ⟨_, _, h⟩
  · cases h.2
  · rcases h with h | ⟨_, _, h⟩
    · unfold levelInit at h
      cases hl : s.level with
      | some lm => rw [hl] at h; simp [pure_err] at h
      | none =>
        rw [hl] at h
        simp only [getOrCrash_err] at h
        exact ⟨rfl, h.1⟩
    · rcases h with h | ⟨_, _, h⟩
      · cases h.2
      · exact h.elim

theorem headerPayload_ok (cfg : Config) (s s1 : VState) (u : DUnit) (h : headerPayload cfg s u = .ok s1) :
    s1.pcm = some u.pcm ∧ s1.majorVersion = some u.majorVersion ∧ s1.level.isSome = true ∧
    s1.lastPI = s.lastPI ∧ s1.nextOff = s.nextOff ∧ s1.lastPicNum = s.lastPicNum ∧
    s1.fragRemaining = s.fragRemaining ∧ s1.fragReceived = s.fragReceived ∧
    s1.initFragOffset = s.initFragOffset ∧ s1.slicesX = s.slicesX ∧ s1.slicesY = s.slicesY ∧
    s1.decoded = s.decoded ∧ s1.numPics = s.numPics ∧ s1.pos = s.pos := by
  unfold headerPayload at h
  simp only [bind_ok, guardRej_ok, pure_ok] at h
  obtain ⟨_, _, lvl, _, _, _, h⟩ := h
  subst h
  simp

theorem dataFragment_crash (s : VState) (u : DUnit) (w : String)
    (h : dataFragment s u = .error (.crash w)) :
    s.fragRemaining ≠ 0 ∧
      (s.lastPicNum = none ∨ s.initFragOffset = none ∨ s.fragReceived = none ∨ s.slicesX = none ∨
        s.slicesX = some 0) := by
  unfold dataFragment at h
  simp only [bind_err, bind_ok, guardRej_err, guardRej_ok, getOrCrash_err, getOrCrash_ok] at h
  rcases h with h | ⟨_, hrem, h⟩
  · cases h.2
  · have hne : s.fragRemaining ≠ 0 := by simpa using hrem
    refine ⟨hne, ?_⟩
    rcases h with h | ⟨last, hlast, h⟩
    · exact Or.inl h.1
    · rcases h with h | ⟨_, _, h⟩
      · cases h.2
      · split at h
        · simp only [bind_err, bind_ok, getOrCrash_err, getOrCrash_ok, rej_err] at h
          rcases h with h | ⟨_, _, h⟩
          · exact Or.inr (Or.inl h.1)
          · rcases h with h | ⟨_, _, h⟩
            · exact Or.inr (Or.inr (Or.inl h.1))
            · cases h
        · simp only [bind_err, bind_ok, getOrCrash_err, getOrCrash_ok] at h
          rcases h with h | ⟨received, _, h⟩
          · exact Or.inr (Or.inr (Or.inl h.1))
          · rcases h with h | ⟨sx, hsx, h⟩
            · exact Or.inr (Or.inr (Or.inr (Or.inl h.1)))
            · split at h
              · rename_i h0; subst h0; exact Or.inr (Or.inr (Or.inr (Or.inr hsx)))
              · split at h
                · simp only [bind_err, bind_ok, getOrCrash_err, getOrCrash_ok, rej_err] at h
                  rcases h with h | ⟨_, _, h⟩
                  · exact Or.inr (Or.inl h.1)
                  · cases h
                · simp [pure_err] at h

theorem dataFragment_ok (s s1 : VState) (u : DUnit) (h : dataFragment s u = .ok s1) :
    ∃ received sx, s.fragReceived = some received ∧ s.slicesX = some sx ∧ sx ≠ 0 ∧
      u.sliceCount ≤ s.fragRemaining ∧ s.fragRemaining ≠ 0 ∧
      s1 = { s with fragReceived := some (received + u.sliceCount),
                    fragRemaining := s.fragRemaining - u.sliceCount,
                    decoded := if decide (received + u.sliceCount = sx * (s.slicesY.getD 0))
                               then s.decoded ++ [u.picNum] else s.decoded } := by
  unfold dataFragment at h
  simp only [bind_ok, guardRej_ok, getOrCrash_ok] at h
  obtain ⟨_, hrem, last, _, _, _, h⟩ := h
  have hne : s.fragRemaining ≠ 0 := by simpa using hrem
  split at h
  · simp only [bind_ok, getOrCrash_ok, rej_ok] at h
    obtain ⟨_, _, _, _, h⟩ := h; exact h.elim
  · rename_i hle
    simp only [bind_ok, getOrCrash_ok] at h
    obtain ⟨received, hr, sx, hsx, h⟩ := h
    split at h
    · simp [crash_ok] at h
    · rename_i hsx0
      split at h
      · simp only [bind_ok, getOrCrash_ok, rej_ok] at h
        obtain ⟨_, _, h⟩ := h; exact h.elim
      · simp only [pure_ok] at h
        exact ⟨received, sx, hr, hsx, hsx0, by omega, hne, h.symm⟩

theorem endOfSequence_crash (s : VState) (w : String) (h : endOfSequence s = .error (.crash w)) :
    s.pcm = none ∨ s.majorVersion = none := by
  unfold endOfSequence at h
  simp only [bind_err, bind_ok, guardRej_err, guardRej_ok, getOrCrash_err, getOrCrash_ok] at h
  rcases h with h | ⟨_, _, h⟩
  · cases h.2
  · rcases h with h | ⟨_, _, h⟩
    · cases h.2
    · rcases h with h | ⟨_, _, h⟩
      · cases h.2
      · rcases h with h | ⟨_, _, h⟩
        · exact Or.inl h.1
        · rcases h with h | ⟨_, _, h⟩
          · cases h.2
          · rcases h with h | ⟨_, _, h⟩
            · exact Or.inr h.1
            · cases h.2

/-! ### the definedness invariant -/

/-- a unit with the sequence-header parse code is dispatched as a sequence header -/
def KindOk (u : DUnit) : Prop := u.code = 0 → u.kind = .seqHdr

structure Inv (s : VState) : Prop where
  nl : s.nextOff.isSome = true → s.lastPI.isSome = true
  fresh : s.lastPI = none → s.generic = Matcher.init false genericPattern
  started : s.lastPI.isSome = true → s.pcm.isSome = true ∧ s.majorVersion.isSome = true
  frag : s.fragRemaining ≠ 0 →
    s.lastPicNum.isSome = true ∧ s.initFragOffset.isSome = true ∧ s.fragReceived.isSome = true ∧
    ∃ sx, s.slicesX = some sx ∧ sx ≠ 0

theorem inv_fresh (p : Nat) (d : List Nat) : Inv (VState.fresh p d) :=
  ⟨fun h => by simp [VState.fresh] at h, fun _ => rfl, fun h => by simp [VState.fresh] at h,
   fun h => by simp [VState.fresh] at h⟩

theorem first_is_header (s s1 : VState) (u : DUnit) (hi : Inv s) (hl : s.lastPI = none)
    (hp : parseInfo s u = .ok s1) (hk : KindOk u) : u.kind = .seqHdr := by
  obtain ⟨g, _, _, hg, _⟩ := parseInfo_ok s s1 u hp
  rw [hi.fresh hl] at hg
  exact hk (codeName_seqHdr _ (generic_first _ g hg))

theorem payload_crash_free (cfg : Config) (s s1 : VState) (u : DUnit) (w : String)
    (hlevel : (Matcher.init false cfg.levelPattern).matchSymbol "sequence_header" ≠ none)
    (hi : Inv s) (hp : parseInfo s u = .ok s1) (hk : KindOk u) :
    payload cfg s1 u ≠ .error (.crash w) := by
  obtain ⟨g, lvl, ev, hg, hs1⟩ := parseInfo_ok s s1 u hp
  have hpcm : u.kind ≠ .seqHdr → s1.pcm.isSome = true := by
    intro hne
    cases hl : s.lastPI with
    | none => exact absurd (first_is_header s s1 u hi hl hp hk) hne
    | some _ => rw [hs1]; exact (hi.started (by rw [hl]; rfl)).1
  have hfrag : s1.fragRemaining ≠ 0 →
      s1.lastPicNum.isSome = true ∧ s1.initFragOffset.isSome = true ∧ s1.fragReceived.isSome = true ∧
      ∃ sx, s1.slicesX = some sx ∧ sx ≠ 0 := by
    rw [hs1]; exact hi.frag
  intro hc
  unfold payload at hc
  cases hkind : u.kind with
  | seqHdr =>
    rw [hkind] at hc; simp only at hc
    exact hlevel (headerPayload_crash cfg s1 u w hc).2
  | picture =>
    rw [hkind] at hc
    simp only [bind_err, bind_ok, guardRej_err, guardRej_ok, pure_err] at hc
    rcases hc with hc | ⟨_, _, hc⟩
    · cases hc.2
    · rcases hc with hc | ⟨_, _, hc⟩
      · have := pictureNumberCheck_crash s1 _ w hc
        have := hpcm (by rw [hkind]; decide)
        simp_all
      · exact hc.elim
  | fragment =>
    rw [hkind] at hc
    simp only at hc
    split at hc
    · simp only [bind_err, bind_ok, guardRej_err, guardRej_ok, pure_err] at hc
      rcases hc with hc | ⟨_, _, hc⟩
      · cases hc.2
      · rcases hc with hc | ⟨_, _, hc⟩
        · have := pictureNumberCheck_crash s1 _ w hc
          have := hpcm (by rw [hkind]; decide)
          simp_all
        · exact hc.elim
    · obtain ⟨hne, hbad⟩ := dataFragment_crash s1 u w hc
      obtain ⟨h1, h2, h3, sx, h4, h5⟩ := hfrag hne
      rcases hbad with h | h | h | h | h
      · rw [h] at h1; cases h1
      · rw [h] at h2; cases h2
      · rw [h] at h3; cases h3
      · rw [h] at h4; cases h4
      · rw [h] at h4; injection h4 with h4; exact h5 h4.symm
  | aux => rw [hkind] at hc; simp [pure_err] at hc
  | padding => rw [hkind] at hc; simp [pure_err] at hc
  | eos => rw [hkind] at hc; simp [pure_err] at hc

theorem payload_inv (cfg : Config) (s s1 s2 : VState) (u : DUnit) (p : Nat)
    (hi : Inv s) (hp : parseInfo s u = .ok s1) (hk : KindOk u) (hpl : payload cfg s1 u = .ok s2) :
    Inv { s2 with pos := p } := by
  obtain ⟨g, lvl, ev, hg, hs1⟩ := parseInfo_ok s s1 u hp
  have h1last : s1.lastPI = some s.pos := by rw [hs1]
  have h1next : s1.nextOff = some u.next := by rw [hs1]
  have hfrag1 : s1.fragRemaining ≠ 0 →
      s1.lastPicNum.isSome = true ∧ s1.initFragOffset.isSome = true ∧ s1.fragReceived.isSome = true ∧
      ∃ sx, s1.slicesX = some sx ∧ sx ≠ 0 := by
    rw [hs1]; exact hi.frag
  have hstarted1 : u.kind ≠ .seqHdr → s1.pcm.isSome = true ∧ s1.majorVersion.isSome = true := by
    intro hne
    cases hl : s.lastPI with
    | none => exact absurd (first_is_header s s1 u hi hl hp hk) hne
    | some _ => rw [hs1]; exact hi.started (by rw [hl]; rfl)
  unfold payload at hpl
  cases hkind : u.kind with
  | seqHdr =>
    rw [hkind] at hpl; simp only at hpl
    have e := headerPayload_ok cfg s1 s2 u hpl
    refine ⟨?_, ?_, ?_, ?_⟩
    · intro _; simp only; rw [e.2.2.2.1, h1last]; rfl
    · intro hl; simp only at hl; rw [e.2.2.2.1, h1last] at hl; cases hl
    · intro _; simp only; rw [e.1, e.2.1]; exact ⟨rfl, rfl⟩
    · simp only; rw [e.2.2.2.2.2.2.1, e.2.2.2.2.2.1, e.2.2.2.2.2.2.2.1, e.2.2.2.2.2.2.2.2.1, e.2.2.2.2.2.2.2.2.2.1]
      exact hfrag1
  | picture =>
    rw [hkind] at hpl
    simp only [bind_ok, guardRej_ok, pure_ok] at hpl
    obtain ⟨_, hrem, s', hs', hs2⟩ := hpl
    have e := pictureNumberCheck_ok s1 s' _ hs'
    have hst := hstarted1 (by rw [hkind]; decide)
    subst hs2; subst e
    refine ⟨?_, ?_, ?_, ?_⟩
    · intro _; simp only; rw [h1last]; rfl
    · intro hl; simp only at hl; rw [h1last] at hl; cases hl
    · intro _; exact hst
    · intro hne; simp only at hne; exact absurd (by simpa using hrem) hne
  | fragment =>
    rw [hkind] at hpl
    simp only at hpl
    have hst := hstarted1 (by rw [hkind]; decide)
    split at hpl
    · simp only [bind_ok, guardRej_ok, pure_ok] at hpl
      obtain ⟨_, hrem, s', hs', hs2⟩ := hpl
      have e := pictureNumberCheck_ok s1 s' _ hs'
      subst hs2; subst e
      refine ⟨?_, ?_, ?_, ?_⟩
      · intro _; simp only; rw [h1last]; rfl
      · intro hl; simp only at hl; rw [h1last] at hl; cases hl
      · intro _; exact hst
      · intro hne; simp only at hne ⊢
        refine ⟨rfl, rfl, rfl, cfg.slicesX, rfl, ?_⟩
        intro h0; apply hne; rw [h0]; simp
    · obtain ⟨received, sx, hr, hsx, hsx0, hle, hne1, hs2⟩ := dataFragment_ok s1 s2 u hpl
      subst hs2
      obtain ⟨f1, f2, f3, sx', f4, f5⟩ := hfrag1 hne1
      refine ⟨?_, ?_, ?_, ?_⟩
      · intro _; simp only; rw [h1last]; rfl
      · intro hl; simp only at hl; rw [h1last] at hl; cases hl
      · intro _; exact hst
      · intro _; simp only
        exact ⟨f1, f2, rfl, sx', f4, f5⟩
  | aux =>
    rw [hkind] at hpl; simp only [pure_ok] at hpl; subst hpl
    have hst := hstarted1 (by rw [hkind]; decide)
    exact ⟨(fun _ => by simp only; rw [h1last]; rfl), (fun hl => by simp only at hl; rw [h1last] at hl; cases hl),
      fun _ => hst, hfrag1⟩
  | padding =>
    rw [hkind] at hpl; simp only [pure_ok] at hpl; subst hpl
    have hst := hstarted1 (by rw [hkind]; decide)
    exact ⟨(fun _ => by simp only; rw [h1last]; rfl), (fun hl => by simp only at hl; rw [h1last] at hl; cases hl),
      fun _ => hst, hfrag1⟩
  | eos =>
    rw [hkind] at hpl; simp only [pure_ok] at hpl; subst hpl
    have hst := hstarted1 (by rw [hkind]; decide)
    exact ⟨(fun _ => by simp only; rw [h1last]; rfl), (fun hl => by simp only at hl; rw [h1last] at hl; cases hl),
      fun _ => hst, hfrag1⟩

/-- **the validator model never fails with a non-conformance exception** -/
theorem run_no_crash (cfg : Config)
    (hlevel : (Matcher.init false cfg.levelPattern).matchSymbol "sequence_header" ≠ none) :
    ∀ (us : List DUnit) (s : VState), (∀ u ∈ us, KindOk u) → Inv s → ¬ IsCrash (run cfg s us).1 := by
  intro us
  induction us with
  | nil =>
    intro s _ _
    unfold run
    split
    · simp [IsCrash]
    · rename_i hl
      cases hc : checkLastNext s with
      | ok _ => simp [IsCrash]
      | error v =>
        cases v with
        | reject c => simp [IsCrash, Err.toVerdict]
        | crash w => exact absurd (checkLastNext_crash s w hc) (by intro e; rw [e] at hl; exact hl rfl)
  | cons u rest ih =>
    intro s hk hi
    have hku := hk u List.mem_cons_self
    have hkr : ∀ x ∈ rest, KindOk x := fun x hx => hk x (List.mem_cons_of_mem _ hx)
    unfold run
    cases hp : parseInfo s u with
    | error v =>
      simp only
      intro hc
      cases v with
      | crash w =>
        obtain ⟨h1, h2⟩ := parseInfo_crash s u w hp
        have := hi.nl h1; rw [h2] at this; cases this
      | reject c => exact hc
    | ok s1 =>
      simp only
      obtain ⟨g, lvl, ev, hg, hs1⟩ := parseInfo_ok s s1 u hp
      split
      · -- end of sequence
        rename_i heos
        cases he : endOfSequence s1 with
        | error v =>
          simp only
          intro hc
          cases v with
          | crash w =>
            have hst : s1.pcm.isSome = true ∧ s1.majorVersion.isSome = true := by
              cases hl : s.lastPI with
              | none => have := first_is_header s s1 u hi hl hp hku; rw [heos] at this; cases this
              | some _ => rw [hs1]; exact hi.started (by rw [hl]; rfl)
            rcases endOfSequence_crash s1 w he with h | h
            · rw [h] at hst; cases hst.1
            · rw [h] at hst; cases hst.2
          | reject c => exact hc
        | ok _ => simp only; exact ih _ hkr (inv_fresh _ _)
      · split
        · simp [IsCrash]
        · cases hpl : payload cfg s1 u with
          | error v =>
            simp only
            intro hc
            cases v with
            | crash w => exact payload_crash_free cfg s s1 u w hlevel hi hp hku hpl
            | reject c => exact hc
          | ok s2 =>
            simp only
            exact ih _ hkr (payload_inv cfg s s1 s2 u _ hi hp hku hpl)

/-! ### compositionality (C10) -/

def totalLen (us : List DUnit) : Nat := (us.map (·.len)).sum

/-- at a sequence boundary the state is exactly the fresh state -/
def AtBoundary (s : VState) : Prop := s.lastPI = none → s = VState.fresh s.pos s.decoded

theorem payload_lastPI (cfg : Config) (s1 s2 : VState) (u : DUnit) (h : payload cfg s1 u = .ok s2) :
    s2.lastPI = s1.lastPI ∧ s2.pos = s1.pos := by
  unfold payload at h
  cases hkind : u.kind with
  | seqHdr =>
    rw [hkind] at h; simp only at h
    have e := headerPayload_ok cfg s1 s2 u h
    exact ⟨e.2.2.2.1, e.2.2.2.2.2.2.2.2.2.2.2.2.2⟩
  | picture =>
    rw [hkind] at h
    simp only [bind_ok, guardRej_ok, pure_ok] at h
    obtain ⟨_, _, s', hs', hs2⟩ := h
    have e := pictureNumberCheck_ok s1 s' _ hs'
    subst hs2; subst e; exact ⟨rfl, rfl⟩
  | fragment =>
    rw [hkind] at h
    simp only at h
    split at h
    · simp only [bind_ok, guardRej_ok, pure_ok] at h
      obtain ⟨_, _, s', hs', hs2⟩ := h
      have e := pictureNumberCheck_ok s1 s' _ hs'
      subst hs2; subst e; exact ⟨rfl, rfl⟩
    · obtain ⟨_, _, _, _, _, _, _, hs2⟩ := dataFragment_ok s1 s2 u h
      subst hs2; exact ⟨rfl, rfl⟩
  | aux => rw [hkind] at h; simp only [pure_ok] at h; subst h; exact ⟨rfl, rfl⟩
  | padding => rw [hkind] at h; simp only [pure_ok] at h; subst h; exact ⟨rfl, rfl⟩
  | eos => rw [hkind] at h; simp only [pure_ok] at h; subst h; exact ⟨rfl, rfl⟩

theorem toVerdict_ne_ok (e : Err) : e.toVerdict ≠ .ok := by cases e <;> simp [Err.toVerdict]

theorem run_cons (cfg : Config) (s : VState) (u : DUnit) (rest : List DUnit) :
    run cfg s (u :: rest) =
      match parseInfo s u with
      | .error v => (v.toVerdict, s.decoded)
      | .ok s1 =>
        if u.kind = .eos then
          match endOfSequence s1 with
          | .error v => (v.toVerdict, s1.decoded)
          | .ok () => run cfg (VState.fresh (s.pos + u.len) s1.decoded) rest
        else if (u.kind = .aux ∨ u.kind = .padding) ∧ u.next ≠ u.len then (.desync, s1.decoded)
        else
          match payload cfg s1 u with
          | .error v => (v.toVerdict, s1.decoded)
          | .ok s2 => run cfg { s2 with pos := s.pos + u.len } rest := by
  conv => lhs; unfold run
  cases parseInfo s u with
  | error v => rfl
  | ok s1 =>
    simp only
    split
    · cases endOfSequence s1 <;> rfl
    · split
      · rfl
      · cases payload cfg s1 u <;> rfl

/-- if a prefix is accepted (it ends at a sequence boundary), the rest is validated from a fresh
    state: sequences are validated independently -/
theorem run_append_ok (cfg : Config) : ∀ (us1 : List DUnit) (s : VState) (us2 : List DUnit),
    AtBoundary s → (run cfg s us1).1 = .ok →
    run cfg s (us1 ++ us2) = run cfg (VState.fresh (s.pos + totalLen us1) (run cfg s us1).2) us2 := by
  intro us1
  induction us1 with
  | nil =>
    intro s us2 hb h
    have hl : s.lastPI = none := by
      unfold run at h
      split at h
      · rename_i hl; simpa using hl
      · cases hc : checkLastNext s with
        | ok _ => rw [hc] at h; cases h
        | error v => rw [hc] at h; exact absurd h (toVerdict_ne_ok v)
    have e : (run cfg s []).2 = s.decoded := by unfold run; simp [hl]
    simp only [List.nil_append, totalLen, List.map_nil, List.sum_nil, Nat.add_zero]
    rw [e, ← hb hl]
  | cons u rest ih =>
    intro s us2 hb h
    have hlen : s.pos + totalLen (u :: rest) = (s.pos + u.len) + totalLen rest := by
      simp [totalLen]; omega
    rw [List.cons_append, run_cons cfg s u (rest ++ us2)]
    rw [run_cons] at h
    have hres := run_cons cfg s u rest
    cases hp : parseInfo s u with
    | error v => rw [hp] at h; simp only at h; exact absurd h (toVerdict_ne_ok v)
    | ok s1 =>
      rw [hp] at h hres
      simp only at h hres ⊢
      obtain ⟨g, lvl, ev, hg, hs1⟩ := parseInfo_ok s s1 u hp
      by_cases heos : u.kind = .eos
      · rw [if_pos heos] at h hres ⊢
        cases he : endOfSequence s1 with
        | error v => rw [he] at h; simp only at h; exact absurd h (toVerdict_ne_ok v)
        | ok _ =>
          rw [he] at h hres; simp only at h hres ⊢
          rw [ih (VState.fresh (s.pos + u.len) s1.decoded) us2 (fun _ => rfl) h, hlen, hres]
          rfl
      · rw [if_neg heos] at h hres ⊢
        by_cases hd : (u.kind = .aux ∨ u.kind = .padding) ∧ u.next ≠ u.len
        · rw [if_pos hd] at h; cases h
        · rw [if_neg hd] at h hres ⊢
          cases hpl : payload cfg s1 u with
          | error v => rw [hpl] at h; simp only at h; exact absurd h (toVerdict_ne_ok v)
          | ok s2 =>
            rw [hpl] at h hres; simp only at h hres ⊢
            have hl2 := payload_lastPI cfg s1 s2 u hpl
            have hb2 : AtBoundary { s2 with pos := s.pos + u.len } := by
              intro hl; simp only at hl; rw [hl2.1, hs1] at hl; cases hl
            rw [ih { s2 with pos := s.pos + u.len } us2 hb2 h, hlen, hres]

/-- an error raised while reading a unit is not affected by what follows -/
theorem run_append_err (cfg : Config) : ∀ (us1 : List DUnit) (s : VState) (us2 : List DUnit) (v : Verdict),
    (run cfg s us1).1 = v → v ≠ .ok → v ≠ .reject "UnexpectedEndOfStream" →
    run cfg s (us1 ++ us2) = run cfg s us1 := by
  intro us1
  induction us1 with
  | nil =>
    intro s us2 v h h1 h2
    unfold run at h
    split at h
    · exact absurd h.symm h1
    · -- the error is the next-offset check at the top of `parse_info`: the next unit meets it too
      cases hc : checkLastNext s with
      | ok _ => rw [hc] at h; exact absurd h.symm h2
      | error e =>
        cases us2 with
        | nil => rfl
        | cons u rest =>
          rename_i hl
          simp only [List.nil_append]
          have hp : parseInfo s u = .error e := by unfold parseInfo; rw [hc]; rfl
          rw [run_cons, hp]
          unfold run
          rw [if_neg hl, hc]
  | cons u rest ih =>
    intro s us2 v h h1 h2
    rw [List.cons_append, run_cons cfg s u (rest ++ us2), run_cons cfg s u rest]
    rw [run_cons] at h
    cases hp : parseInfo s u with
    | error e => rfl
    | ok s1 =>
      rw [hp] at h
      simp only at h ⊢
      by_cases heos : u.kind = .eos
      · simp only [if_pos heos] at h ⊢
        cases he : endOfSequence s1 with
        | error e => rfl
        | ok _ =>
          rw [he] at h; simp only at h ⊢
          exact ih _ us2 v h h1 h2
      · simp only [if_neg heos] at h ⊢
        by_cases hd : (u.kind = .aux ∨ u.kind = .padding) ∧ u.next ≠ u.len
        · simp only [if_pos hd]
        · simp only [if_neg hd] at h ⊢
          cases hpl : payload cfg s1 u with
          | error e => rfl
          | ok s2 =>
            rw [hpl] at h; simp only at h ⊢
            exact ih _ us2 v h h1 h2

/-! ### exact characterisations used by the C01 step theorems -/

theorem checkLastNext_ok (s : VState) (x : Unit) : checkLastNext s = .ok x ↔
    (s.nextOff = none ∨ s.nextOff = some 0 ∨
          ∃ last, s.lastPI = some last ∧ s.nextOff = some (s.pos - last)) := by
  unfold checkLastNext
  cases hn : s.nextOff with
  | none => simp [pure_ok]
  | some n =>
    simp only
    split
    · rename_i h0; subst h0; simp [pure_ok]
    · rename_i h0
      simp only [bind_ok, getOrCrash_ok, guardRej_ok]
      constructor
      · rintro ⟨last, hl, hg⟩
        refine Or.inr (Or.inr ⟨last, hl, ?_⟩)
        simp at hg; rw [hg]
      · rintro (h | h | ⟨last, hl, h⟩)
        · cases h
        · simp at h; exact absurd h h0
        · refine ⟨last, hl, ?_⟩
          simp at h; simp [h]

theorem levelStep_ok (lvl : Option Matcher) (name : String) :
    (∃ l, levelStep lvl name = .ok l) ↔ (∀ lm, lvl = some lm → (lm.matchSymbol name).isSome = true) := by
  unfold levelStep
  cases lvl with
  | none => simp [pure_ok]
  | some lm =>
    simp only [bind_ok, matchOrRej_ok, pure_ok]
    constructor
    · rintro ⟨l, g, hg, _⟩ lm' h; cases h; simp [hg]
    · intro h
      have := h lm rfl
      cases hm : lm.matchSymbol name with
      | none => rw [hm] at this; cases this
      | some g => exact ⟨some g, g, rfl, rfl⟩


end VC2.Proofs.Stream
