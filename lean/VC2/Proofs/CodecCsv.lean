/- Helper lemmas and the domain predicate for C28 (codec-features CSV reading).  Core Lean only. -/
import VC2.Model.CodecCsv
namespace VC2.Proofs.CodecCsv
open VC2 VC2.Model.CodecCsv


theorem bind_ok {α β : Type} (m : M α) (f : α → M β) (y : β) :
    (m >>= f) = .ok y ↔ ∃ x, m = .ok x ∧ f x = .ok y := by
  cases m <;> simp [bind, Except.bind]
theorem bind_crash {α β : Type} (m : M α) (f : α → M β) (w : String) :
    (m >>= f) = .error (.crash w) ↔ m = .error (.crash w) ∨ ∃ x, m = .ok x ∧ f x = .error (.crash w) := by
  cases m <;> simp [bind, Except.bind]

theorem pop_ok {α : Type} (col col' : Column) (field : String) (parser : String → P α) (dflt : Option α) (v : α)
    (h : pop col field parser dflt = .ok (v, col')) : (∃ s, parser s = some v) ∨ dflt = some v := by
  unfold pop at h
  cases hg : col.get? field with
  | none => rw [hg] at h; cases h
  | some value =>
    rw [hg] at h
    simp only at h
    cases dflt with
    | none =>
      simp only at h
      cases hp : parser value with
      | none => rw [hp] at h; cases h
      | some x => rw [hp] at h; simp at h; exact Or.inl ⟨value, by rw [hp, h.1]⟩
    | some d =>
      simp only at h
      split at h
      · simp at h; exact Or.inr (by rw [h.1])
      · cases hp : parser value with
        | none => rw [hp] at h; cases h
        | some x => rw [hp] at h; simp at h; exact Or.inl ⟨value, by rw [hp, h.1]⟩

theorem pop_no_crash {α : Type} (col : Column) (field : String) (parser : String → P α) (dflt : Option α) (w : String) :
    pop col field parser dflt ≠ .error (.crash w) := by
  unfold pop
  cases col.get? field with
  | none => simp
  | some value =>
    simp only
    cases dflt with
    | none => simp only; cases parser value <;> simp
    | some d =>
      simp only
      split
      · simp
      · cases parser value <;> simp

theorem parseIntAtLeast_ge (m : Int) (s : String) (v : Int) (h : parseIntAtLeast m s = some v) : m ≤ v := by
  unfold parseIntAtLeast at h
  cases hp : pyInt s with
  | none => rw [hp] at h; cases h
  | some x =>
    rw [hp] at h; simp only at h
    split at h
    · cases h
    · simp at h; omega

def IsMember (enum : String) (v : Int) : Prop := (members enum).any (·.2 == v) = true

theorem parseIntEnum_member (e s : String) (v : Int) (h : parseIntEnum e s = some v) : IsMember e v := by
  unfold parseIntEnum at h
  simp only at h
  split at h
  · split at h
    · simp at h; rename_i hm; rw [← h]; exact hm
    · cases h
  · cases h

theorem takeInts_length : ∀ (n : Nat) (ts : List String) (vs : List Int) (rest : List String),
    takeInts n ts = some (vs, rest) → vs.length = n := by
  intro n
  induction n with
  | zero => intro ts vs rest h; simp [takeInts] at h; rw [h.1]; rfl
  | succ n ih =>
    intro ts vs rest h
    cases ts with
    | nil => simp [takeInts] at h
    | cons t ts =>
      simp only [takeInts] at h
      cases hp : pyInt t with
      | none => rw [hp] at h; simp at h
      | some v =>
        rw [hp] at h
        cases ht : takeInts n ts with
        | none => rw [ht] at h; simp at h
        | some r =>
          obtain ⟨vs', rest'⟩ := r
          rw [ht] at h; simp at h
          rw [← h.1]; simp [ih ts vs' rest' ht]

theorem parseQuantMatrix_length (d dh : Int) (s : String) (m : List Int)
    (h : parseQuantMatrix d dh s = some m) : m.length = qmLength d dh := by
  unfold parseQuantMatrix at h
  split at h
  · rename_i vs heq; simp at h; rw [← h]; exact takeInts_length _ _ _ _ heq
  · cases h

def kindOk : VpKind → Int → Bool
  | .min m, v => decide (m ≤ v)
  | .enum e, v => (members e).any (·.2 == v)
  | .bool, v => v == 0 || v == 1

def vpOk : List (String × VpKind) → List Int → Bool
  | [], [] => true
  | (_, k) :: fs, v :: vs => kindOk k v && vpOk fs vs
  | _, _ => false

theorem vpParser_ok (k : VpKind) (s : String) (v : Int) (h : vpParser k s = some v) : kindOk k v = true := by
  cases k with
  | min m => simp only [vpParser] at h; simp [kindOk, parseIntAtLeast_ge m s v h]
  | «enum» e => simp only [vpParser] at h; exact parseIntEnum_member e s v h
  | bool =>
    simp only [vpParser] at h
    cases hb : parseBool s with
    | none => rw [hb] at h; cases h
    | some b => rw [hb] at h; cases b <;> simp at h <;> simp [kindOk, ← h]

theorem popVp_ok : ∀ (fs : List (String × VpKind)) (ds : List Int) (col : Column) (vs : List Int) (col' : Column),
    popVp fs ds col = .ok (vs, col') → vpOk fs ds = true → vpOk fs vs = true := by
  intro fs
  induction fs with
  | nil => intro ds col vs col' h _; simp [popVp] at h; rw [h.1]; rfl
  | cons f fs ih =>
    intro ds col vs col' h hd
    obtain ⟨fname, k⟩ := f
    cases ds with
    | nil => simp [vpOk] at hd
    | cons d ds =>
      simp only [popVp, bind_ok] at h
      obtain ⟨⟨v, c1⟩, hp, ⟨⟨vs', c2⟩, hr, hfin⟩⟩ := h
      simp [pure, Except.pure] at hfin
      simp only [vpOk, Bool.and_eq_true] at hd
      rw [← hfin.1]
      simp only [vpOk, Bool.and_eq_true]
      refine ⟨?_, ih ds c1 vs' c2 hr hd.2⟩
      rcases pop_ok col c1 fname (vpParser k) (some d) v hp with ⟨s, hs⟩ | hdf
      · exact vpParser_ok k s v hs
      · simp at hdf; rw [← hdf]; exact hd.1

theorem popVp_no_crash : ∀ (fs : List (String × VpKind)) (ds : List Int) (col : Column) (w : String),
    fs.length ≤ ds.length → popVp fs ds col ≠ .error (.crash w) := by
  intro fs
  induction fs with
  | nil => intro ds col w _; simp [popVp]
  | cons f fs ih =>
    intro ds col w hl
    obtain ⟨fname, k⟩ := f
    cases ds with
    | nil => simp at hl
    | cons d ds =>
      simp only [popVp]
      intro hc
      rw [bind_crash] at hc
      rcases hc with hc | ⟨⟨v, c1⟩, _, hc⟩
      · exact pop_no_crash _ _ _ _ _ hc
      · rw [bind_crash] at hc
        rcases hc with hc | ⟨_, _, hc⟩
        · exact ih ds c1 w (by simp at hl; omega) hc
        · simp [pure, Except.pure] at hc

/-- the documented domain of one configuration -/
structure InDomain (f : Features) : Prop where
  level : IsMember "Levels" f.level
  profile : IsMember "Profiles" f.profile
  pcm : IsMember "PictureCodingModes" f.pcm
  wavelet : IsMember "WaveletFilters" f.wavelet
  waveletHo : IsMember "WaveletFilters" f.waveletHo
  base : IsMember "BaseVideoFormats" f.base
  dwtDepth : 0 ≤ f.dwtDepth
  dwtDepthHo : 0 ≤ f.dwtDepthHo
  slicesX : 1 ≤ f.slicesX
  slicesY : 1 ≤ f.slicesY
  fragCount : 0 ≤ f.fragCount
  vp : vpOk vpFields f.vp = true
  pictureBytes : (f.lossless = true ↔ f.pictureBytes = none) ∧ ∀ pb, f.pictureBytes = some pb → 1 ≤ pb
  qm : ∀ m, f.qm = some m → m.length = qmLength f.dwtDepth f.dwtDepthHo

/-- obligations on the GENERATED tables: every base video format has defaults, and they are in domain -/
def TablesOk : Prop :=
  ((members "BaseVideoFormats").all (fun m => VC2.Gen.sourceDefaults.any (·.1 == m.2)) = true) ∧
  (VC2.Gen.sourceDefaults.all (fun d => vpOk vpFields d.2) = true)

theorem tables_ok : TablesOk := by
  constructor <;> decide +kernel

theorem defaults_ok (base : Int) (d : Int × List Int) (h : VC2.Gen.sourceDefaults.find? (·.1 == base) = some d) :
    vpOk vpFields d.2 = true := by
  have hm := List.mem_of_find?_eq_some h
  have := tables_ok.2
  rw [List.all_eq_true] at this
  exact this d hm

theorem defaults_exist (base : Int) (hb : IsMember "BaseVideoFormats" base) :
    ∃ d, VC2.Gen.sourceDefaults.find? (·.1 == base) = some d := by
  have := tables_ok.1
  rw [List.all_eq_true] at this
  unfold IsMember at hb
  rw [List.any_eq_true] at hb
  obtain ⟨m, hm, hv⟩ := hb
  have h2 := this m hm
  rw [List.any_eq_true] at h2
  obtain ⟨d, hd, hd2⟩ := h2
  have hv' : m.2 = base := by simpa using hv
  rw [hv'] at hd2
  cases hf : VC2.Gen.sourceDefaults.find? (·.1 == base) with
  | some x => exact ⟨x, rfl⟩
  | none =>
    rw [List.find?_eq_none] at hf
    exact absurd hd2 (hf d hd)

theorem parseColumn_in_domain (name : String) (col : Column) (f : Features)
    (h : parseColumn name col = .ok f) : InDomain f ∧ f.name = name := by
  unfold parseColumn at h
  simp only [bind_ok] at h
  obtain ⟨⟨level, c1⟩, h1, ⟨profile, c2⟩, h2, ⟨pcm, c3⟩, h3, ⟨wavelet, c4⟩, h4, ⟨waveletHo, c5⟩, h5,
    ⟨dwtDepth, c6⟩, h6, ⟨dwtDepthHo, c7⟩, h7, ⟨slicesX, c8⟩, h8, ⟨slicesY, c9⟩, h9, ⟨fragCount, c10⟩, h10,
    ⟨lossless, c11⟩, h11, ⟨base, c12⟩, h12, defaults, hdef, ⟨vp, c13⟩, hvp, ⟨pb, c14⟩, hpb, ⟨qm, c15⟩, hqm,
    _, _, hfin⟩ := h
  have enumOf : ∀ {c c' : Column} {fld e : String} {v : Int},
      pop c fld (parseIntEnum e) none = .ok (v, c') → IsMember e v := by
    intro c c' fld e v hp
    rcases pop_ok _ _ _ _ _ _ hp with ⟨s, hs⟩ | hd
    · exact parseIntEnum_member e s v hs
    · cases hd
  have minOf : ∀ {c c' : Column} {fld : String} {m v : Int},
      pop c fld (parseIntAtLeast m) none = .ok (v, c') → m ≤ v := by
    intro c c' fld m v hp
    rcases pop_ok _ _ _ _ _ _ hp with ⟨s, hs⟩ | hd
    · exact parseIntAtLeast_ge m s v hs
    · cases hd
  simp only [pure, Except.pure, Except.ok.injEq] at hfin
  subst hfin
  have hdefok : vpOk vpFields defaults = true := by
    unfold lookupDefaults at hdef
    split at hdef
    · rename_i d hd; simp only [Except.ok.injEq] at hdef; subst hdef; exact defaults_ok base d hd
    · cases hdef
  refine ⟨⟨enumOf h1, enumOf h2, enumOf h3, enumOf h4, enumOf h5, enumOf h12, minOf h6, minOf h7, minOf h8,
    minOf h9, minOf h10, popVp_ok _ _ _ _ _ hvp hdefok, ?_, ?_⟩, rfl⟩
  · unfold popPictureBytes at hpb
    simp only at hpb ⊢
    split at hpb
    · rename_i hl
      split at hpb
      · cases hpb
      · simp only [Except.ok.injEq, Prod.mk.injEq] at hpb
        rw [← hpb.1]
        exact ⟨⟨fun _ => rfl, fun _ => hl⟩, fun pb h => by cases h⟩
    · rename_i hl
      split at hpb
      · rename_i pbv cc hp
        simp only [Except.ok.injEq, Prod.mk.injEq] at hpb
        rw [← hpb.1]
        refine ⟨⟨fun h => absurd h hl, fun h => by cases h⟩, fun x hx => ?_⟩
        simp at hx; rw [← hx]; exact minOf hp
      · cases hpb
  · intro m hm
    simp only at hm
    rcases pop_ok _ _ _ _ _ _ hqm with ⟨s, hs⟩ | hd
    · rw [hm] at hs
      cases hq : parseQuantMatrix dwtDepth dwtDepthHo s with
      | none => rw [hq] at hs; cases hs
      | some mm =>
        rw [hq] at hs; simp at hs; rw [← hs]
        exact parseQuantMatrix_length _ _ _ _ hq
    · rw [hm] at hd; cases hd

theorem vpOk_length : ∀ (fs : List (String × VpKind)) (vs : List Int), vpOk fs vs = true → fs.length = vs.length := by
  intro fs
  induction fs with
  | nil => intro vs h; cases vs with
    | nil => rfl
    | cons _ _ => simp [vpOk] at h
  | cons f fs ih =>
    intro vs h
    cases vs with
    | nil => simp [vpOk] at h
    | cons v vs =>
      obtain ⟨n, k⟩ := f
      simp only [vpOk, Bool.and_eq_true] at h
      simp [ih vs h.2]

theorem popPictureBytes_no_crash (l : Bool) (col : Column) (w : String) :
    popPictureBytes l col ≠ .error (.crash w) := by
  unfold popPictureBytes
  split
  · split <;> simp
  · intro h
    split at h
    · cases h
    · rename_i e he
      simp only [Except.error.injEq] at h
      subst h
      exact pop_no_crash _ _ _ _ _ he

theorem parseColumn_no_crash (name : String) (col : Column) (w : String) :
    parseColumn name col ≠ .error (.crash w) := by
  intro h
  unfold parseColumn at h
  -- peel the pops one at a time: a pop never crashes
  repeat (
    rw [bind_crash] at h
    rcases h with h | ⟨⟨_, _⟩, _, h⟩
    · exact pop_no_crash _ _ _ _ _ h
    simp only at h)
  rename_i base cb hbase
  have hmem : IsMember "BaseVideoFormats" base := by
    rcases pop_ok _ _ _ _ _ _ hbase with ⟨s, hs⟩ | hd
    · exact parseIntEnum_member _ s base hs
    · cases hd
  obtain ⟨d, hd⟩ := defaults_exist base hmem
  have hdl : lookupDefaults base = .ok d.2 := by unfold lookupDefaults; rw [hd]
  rw [hdl] at h
  simp only [bind, Except.bind] at h
  have hlen := vpOk_length _ _ (defaults_ok base d hd)
  cases hvp : popVp vpFields d.2 cb with
  | error e =>
    rw [hvp] at h; simp only [Except.error.injEq] at h; subst h
    exact popVp_no_crash _ _ _ _ (by omega) hvp
  | ok r =>
    rw [hvp] at h; simp only at h
    cases hpb : popPictureBytes _ r.2 with
    | error e =>
      rw [hpb] at h; simp only [Except.error.injEq] at h; subst h
      exact popPictureBytes_no_crash _ _ _ hpb
    | ok r2 =>
      rw [hpb] at h; simp only at h
      cases hq : pop r2.2 "quantization_matrix" (fun s => Option.map some (parseQuantMatrix _ _ s)) (some none) with
      | error e =>
        rw [hq] at h; simp only [Except.error.injEq] at h; subst h
        exact pop_no_crash _ _ _ _ _ hq
      | ok r3 =>
        rw [hq] at h; simp only at h
        unfold checkEmpty at h
        by_cases hc : (!List.isEmpty r3.2) = true
        · simp [hc] at h
        · simp [hc, pure, Except.pure] at h

/-- the column loop: everything returned is in its domain, under distinct names; never a crash -/
theorem readColumns_spec : ∀ (cols : List Column) (i : Nat) (out : List Features),
    (∀ f ∈ out, InDomain f) → (out.map (·.name)).Nodup →
    (∀ w, readColumns cols i out ≠ .error (.crash w)) ∧
    (∀ fs, readColumns cols i out = .ok fs → (∀ f ∈ fs, InDomain f) ∧ (fs.map (·.name)).Nodup) := by
  intro cols
  induction cols with
  | nil => intro i out h1 h2; simp [readColumns]; exact ⟨h1, h2⟩
  | cons col rest ih =>
    intro i out h1 h2
    unfold readColumns
    split
    · exact ih (i + 1) out h1 h2
    · generalize nameOf col i = nc
      split
      · simp
      · rename_i hnew
        cases hp : parseColumn nc.1 nc.2 with
        | error e =>
          simp only
          refine ⟨fun w hw => ?_, fun fs hfs => by cases hfs⟩
          simp only [Except.error.injEq] at hw; subst hw
          exact parseColumn_no_crash _ _ _ hp
        | ok f =>
          simp only
          obtain ⟨hd, hn⟩ := parseColumn_in_domain _ _ f hp
          apply ih
          · intro g hg
            rcases List.mem_append.1 hg with hg | hg
            · exact h1 g hg
            · simp at hg; subst hg; exact hd
          · rw [List.map_append, List.nodup_append]
            refine ⟨h2, by simp, ?_⟩
            intro a ha b hb
            simp at hb; subst hb
            intro hab
            apply hnew
            rw [List.any_eq_true]
            obtain ⟨g, hg, hgn⟩ := List.mem_map.1 ha
            exact ⟨g, hg, by simp [hgn, hab, hn]⟩

end VC2.Proofs.CodecCsv
