/- Helper lemmas for C07 (automatic field filling).  Core Lean only. -/
import VC2.Model.Autofill
namespace VC2.Proofs.Autofill
open VC2 VC2.Model.Autofill


/-! picture numbers -/
theorem numberFrom_length : ∀ (us : List AUnit) (last : Nat), (numberFrom last us).length = us.length := by
  intro us; induction us with
  | nil => intro _; rfl
  | cons u us ih => intro last; simp [numberFrom, ih]

/-- explicit numbers are kept; every other field of every unit is untouched -/
theorem numberStep_preserves (last : Nat) (u : AUnit) :
    ((numberStep last u).1).code = u.code ∧ (∀ n, u.picNum = some n → ((numberStep last u).1).picNum = some n) ∧
    { (numberStep last u).1 with picNum := u.picNum } = u := by
  unfold numberStep
  split
  · refine ⟨rfl, ?_, rfl⟩
    intro n hn; simp [hn]
  · exact ⟨rfl, fun n hn => hn, rfl⟩

/-- an AUTO number: previous + 1 (mod 2^32) for a picture or a first fragment, the previous number
    for a continuation fragment -/
theorem numberStep_auto (last : Nat) (u : AUnit) (hp : u.picNum = none)
    (hk : (isPictureCode u.code || isFragmentCode u.code) = true) :
    (numberStep last u).1.picNum =
      some (if (isPictureCode u.code || u.sliceCount.getD VC2.Gen.default_fragment_slice_count == 0) = true then (last + 1) % M32 else last) ∧
    (numberStep last u).2 =
      (if (isPictureCode u.code || u.sliceCount.getD VC2.Gen.default_fragment_slice_count == 0) = true then (last + 1) % M32 else last) := by
  unfold numberStep
  simp [hk, hp]

theorem numberStep_other (last : Nat) (u : AUnit)
    (hk : (isPictureCode u.code || isFragmentCode u.code) = false) : numberStep last u = (u, last) := by
  unfold numberStep; simp [hk]

theorem numberStep_explicit (last : Nat) (u : AUnit) (n : Nat) (hp : u.picNum = some n)
    (hk : (isPictureCode u.code || isFragmentCode u.code) = true) : (numberStep last u).2 = n := by
  unfold numberStep; simp [hk, hp]

/-- closed form: `k` consecutive AUTO pictures after `last` are numbered last+1, last+2, … mod 2^32 -/
theorem auto_run : ∀ (us : List AUnit) (last : Nat),
    (∀ u ∈ us, isPictureCode u.code = true ∧ u.picNum = none) →
    ∀ j (hj : j < us.length), ((numberFrom last us)[j]'(by rw [numberFrom_length]; exact hj)).picNum
      = some ((last + j + 1) % M32) := by
  intro us
  induction us with
  | nil => intro _ _ j hj; cases hj
  | cons u us ih =>
    intro last h j hj
    have hu := h u List.mem_cons_self
    have hk : (isPictureCode u.code || isFragmentCode u.code) = true := by simp [hu.1]
    have hs := numberStep_auto last u hu.2 hk
    simp only [hu.1, Bool.true_or, if_true] at hs
    cases j with
    | zero => simp only [numberFrom, List.getElem_cons_zero]; rw [hs.1]
    | succ j =>
      simp only [numberFrom, List.getElem_cons_succ]
      have := ih ((numberStep last u).2) (fun x hx => h x (List.mem_cons_of_mem _ hx)) j (by simpa using hj)
      rw [this, hs.2]
      congr 1
      unfold M32; omega

/-! major version -/
theorem pymax_ge_left (a b : Int) : a ≤ pymax a b := by unfold pymax; split <;> omega
theorem pymax_ge_right (a b : Int) : b ≤ pymax a b := by unfold pymax; split <;> omega
theorem pymax_cases (a b : Int) : pymax a b = a ∨ pymax a b = b := by unfold pymax; split <;> simp

theorem foldl_max_ge : ∀ (us : List AUnit) (v : Int),
    v ≤ us.foldl (fun v u => pymax v (unitVersion u)) v ∧
    ∀ u ∈ us, unitVersion u ≤ us.foldl (fun v u => pymax v (unitVersion u)) v := by
  intro us
  induction us with
  | nil => intro v; simp
  | cons u us ih =>
    intro v
    have := ih (pymax v (unitVersion u))
    simp only [List.foldl_cons, List.mem_cons, forall_eq_or_imp]
    refine ⟨Int.le_trans (pymax_ge_left _ _) this.1, Int.le_trans (pymax_ge_right _ _) this.1, this.2⟩

theorem foldl_max_attained : ∀ (us : List AUnit) (v : Int),
    us.foldl (fun v u => pymax v (unitVersion u)) v = v ∨
    ∃ u ∈ us, us.foldl (fun v u => pymax v (unitVersion u)) v = unitVersion u := by
  intro us
  induction us with
  | nil => intro v; simp
  | cons u us ih =>
    intro v
    simp only [List.foldl_cons]
    rcases ih (pymax v (unitVersion u)) with h | ⟨w, hw, h⟩
    · rcases pymax_cases v (unitVersion u) with h2 | h2
      · left; rw [h, h2]
      · right; exact ⟨u, List.mem_cons_self, by rw [h, h2]⟩
    · right; exact ⟨w, List.mem_cons_of_mem _ hw, h⟩

theorem versionFill_length (mv : Int) : ∀ (us : List AUnit) (a : Bool), (versionFill mv a us).length = us.length := by
  intro us; induction us with
  | nil => intro _; rfl
  | cons u us ih => intro a; simp [versionFill, ih]

/-- what the second pass may change in a unit: only the AUTO major_version of a sequence header
    (set to `mv`) and the extended transform parameters of a picture -/
def VersionRel (mv : Int) (u v : AUnit) : Prop :=
  v.code = u.code ∧ v.next = u.next ∧ v.prev = u.prev ∧ v.len = u.len ∧ v.dataLen = u.dataLen ∧
  v.picNum = u.picNum ∧ v.sliceCount = u.sliceCount ∧
  (u.code = 0 → ∀ h, u.hdr = some h →
    ∃ h', v.hdr = some h' ∧ h'.majorVersion = some (h.majorVersion.getD mv.toNat) ∧
      { h' with majorVersion := h.majorVersion } = h)

theorem versionStep_spec (mv : Int) (a : Bool) (u : AUnit) : VersionRel mv u (versionStep mv a u).1 := by
  unfold VersionRel versionStep
  split
  · cases hh : u.hdr with
    | none => exact ⟨rfl, rfl, rfl, rfl, rfl, rfl, rfl, fun _ h e => by cases e⟩
    | some h =>
      simp only
      split
      · rename_i hm
        refine ⟨rfl, rfl, rfl, rfl, rfl, rfl, rfl, fun _ h' e => ?_⟩
        cases e
        have hm' : h.majorVersion = none := by simpa using hm
        exact ⟨_, rfl, by simp [hm'], by simp [← hm']⟩
      · rename_i hm
        refine ⟨rfl, rfl, rfl, rfl, rfl, rfl, rfl, fun _ h' e => ?_⟩
        cases e
        cases hx : h.majorVersion with
        | none => simp [hx] at hm
        | some x => exact ⟨h, hh, by simp [hx], by rw [← hx]⟩
  · rename_i hc
    have hc' : u.code ≠ 0 := by simpa using hc
    split <;> exact ⟨rfl, rfl, rfl, rfl, rfl, rfl, rfl, fun e => absurd e hc'⟩

theorem versionFill_spec (mv : Int) : ∀ (us : List AUnit) (a : Bool) (i : Nat) (hi : i < us.length),
    VersionRel mv us[i] ((versionFill mv a us)[i]'(by rw [versionFill_length]; exact hi)) := by
  intro us
  induction us with
  | nil => intro _ i hi; cases hi
  | cons u us ih =>
    intro a i hi
    cases i with
    | zero => simp only [versionFill, List.getElem_cons_zero]; exact versionStep_spec mv a u
    | succ i =>
      simp only [versionFill, List.getElem_cons_succ]
      exact ih _ i (by simpa using hi)

/-- a transform whose version implication is below 3 uses no extended transform feature: removing
    its extended transform parameters changes nothing that is decoded -/
theorem tpVersion_lt3 (t : TP) (h : tpVersion t < 3) :
    t.who = t.w ∧ t.dho = 0 := by
  unfold tpVersion VC2.Gen.wavelet_transform_version_implication at h
  split at h
  · omega
  · rename_i h0
    split at h
    · omega
    · rename_i h1
      constructor
      · have : ((t.w : Nat) : Int) = ((t.who : Nat) : Int) := Decidable.not_not.1 h1
        omega
      · have : ((t.dho : Nat) : Int) = 0 := Decidable.not_not.1 h0
        omega

/-! offsets -/
theorem offsetsFrom_length : ∀ (us : List AUnit) (p : Option Nat), (offsetsFrom p us).length = us.length := by
  intro us; induction us with
  | nil => intro _; rfl
  | cons u us ih => intro p; simp [offsetsFrom, ih]

def prevLenAt (p : Option Nat) (us : List AUnit) (i : Nat) : Option Nat :=
  match i with
  | 0 => p
  | i + 1 => (us[i]?).map (·.len)

theorem offsets_spec : ∀ (us : List AUnit) (p : Option Nat) (i : Nat) (hi : i < us.length),
    ((offsetsFrom p us)[i]'(by rw [offsetsFrom_length]; exact hi)).next = some (match us[i].next with
      | some n => n
      | none => if us[i].code == 0x20 || us[i].code == 0x30 then 13 + us[i].dataLen
                else if i + 1 = us.length then 0 else us[i].len) ∧
    ((offsetsFrom p us)[i]'(by rw [offsetsFrom_length]; exact hi)).prev = some (match us[i].prev with
      | some q => q
      | none => (prevLenAt p us i).getD 0) ∧
    { (offsetsFrom p us)[i]'(by rw [offsetsFrom_length]; exact hi) with next := us[i].next, prev := us[i].prev } = us[i] := by
  intro us
  induction us with
  | nil => intro _ i hi; cases hi
  | cons u us ih =>
    intro p i hi
    cases i with
    | zero =>
      simp only [offsetsFrom, List.getElem_cons_zero, prevLenAt, List.length_cons]
      refine ⟨?_, rfl, trivial⟩
      cases u.next with
      | some n => rfl
      | none =>
        simp only
        split
        · rfl
        · cases us with
          | nil => simp
          | cons _ _ => simp
    | succ i =>
      have hi' : i < us.length := by simpa using hi
      have := ih (some u.len) i hi'
      simp only [offsetsFrom, List.getElem_cons_succ, List.length_cons]
      obtain ⟨h1, h2, h3⟩ := this
      refine ⟨?_, ?_, h3⟩
      · rw [h1]; congr 1
        cases (us[i]).next with
        | some n => rfl
        | none => simp only [Nat.add_right_cancel_iff]
      · rw [h2]; congr 1
        cases (us[i]).prev with
        | some q => rfl
        | none =>
          simp only
          cases i with
          | zero => simp [prevLenAt]
          | succ i => simp [prevLenAt]

theorem numberFrom_preserves : ∀ (us : List AUnit) (last : Nat) (i : Nat) (hi : i < us.length),
    let v := (numberFrom last us)[i]'(by rw [numberFrom_length]; exact hi)
    (∀ n, us[i].picNum = some n → v.picNum = some n) ∧ { v with picNum := us[i].picNum } = us[i] := by
  intro us
  induction us with
  | nil => intro _ i hi; cases hi
  | cons u us ih =>
    intro last i hi
    cases i with
    | zero =>
      simp only [numberFrom, List.getElem_cons_zero]
      exact ⟨(numberStep_preserves last u).2.1, (numberStep_preserves last u).2.2⟩
    | succ i =>
      simp only [numberFrom, List.getElem_cons_succ]
      exact ih _ i (by simpa using hi)

theorem autofillSeq_length (seq : List AUnit) : (autofillSeq seq).length = seq.length := by
  unfold autofillSeq autofillOffsets autofillMajorVersion autofillPictureNumbers
  rw [offsetsFrom_length, versionFill_length, numberFrom_length]

/-- every explicitly supplied value survives the three passes -/
theorem autofillSeq_preserves (seq : List AUnit) (i : Nat) (hi : i < seq.length) :
    let v := (autofillSeq seq)[i]'(by rw [autofillSeq_length]; exact hi)
    let u := seq[i]
    v.code = u.code ∧ v.len = u.len ∧ v.dataLen = u.dataLen ∧ v.sliceCount = u.sliceCount ∧
    (∀ n, u.picNum = some n → v.picNum = some n) ∧
    (∀ n, u.next = some n → v.next = some n) ∧
    (∀ n, u.prev = some n → v.prev = some n) ∧
    (u.code = 0 → ∀ h n, u.hdr = some h → h.majorVersion = some n →
      ∃ h', v.hdr = some h' ∧ h'.majorVersion = some n ∧ { h' with majorVersion := h.majorVersion } = h) := by
  intro v u
  have h1 := numberFrom_preserves seq (M32 - 1) i hi
  have hl1 : i < (autofillPictureNumbers seq).length := by
    unfold autofillPictureNumbers; rw [numberFrom_length]; exact hi
  have hl2 : i < (autofillMajorVersion (autofillPictureNumbers seq)).length := by
    unfold autofillMajorVersion; rw [versionFill_length]; exact hl1
  have h2 : VersionRel (requiredVersion (autofillPictureNumbers seq)) (autofillPictureNumbers seq)[i]
      ((autofillMajorVersion (autofillPictureNumbers seq))[i]'hl2) :=
    versionFill_spec (requiredVersion (autofillPictureNumbers seq)) (autofillPictureNumbers seq) false i hl1
  have h3 := offsets_spec (autofillMajorVersion (autofillPictureNumbers seq)) none i hl2
  -- name the intermediate units
  have e1 : (autofillPictureNumbers seq)[i] = (numberFrom (M32 - 1) seq)[i]'(by rw [numberFrom_length]; exact hi) := rfl
  obtain ⟨n1, n2⟩ := h1
  obtain ⟨c2, x2, p2, l2, d2, pn2, sc2, hd2⟩ := h2
  obtain ⟨o1, o2, o3⟩ := h3
  have hv : v = (offsetsFrom none (autofillMajorVersion (autofillPictureNumbers seq)))[i]'(by
      rw [offsetsFrom_length]; exact hl2) := rfl
  set_option maxRecDepth 2000 in
  have fields := congrArg (fun (w : AUnit) => (w.code, w.len, w.dataLen, w.sliceCount, w.picNum, w.hdr)) o3
  simp only at fields
  have fields1 := congrArg (fun (w : AUnit) => (w.code, w.len, w.dataLen, w.sliceCount, w.next, w.prev, w.hdr)) n2
  simp only at fields1
  simp only [Prod.mk.injEq] at fields fields1
  obtain ⟨f1, f2, f3, f4, f5, f6⟩ := fields
  obtain ⟨g1, g2, g3, g4, g5, g6, g7⟩ := fields1
  rw [← hv] at f1 f2 f3 f4 f5 f6 o1 o2
  rw [← e1] at g1 g2 g3 g4 g5 g6 g7 n1
  refine ⟨by rw [f1, c2, g1], by rw [f2, l2, g2], by rw [f3, d2, g3], by rw [f4, sc2, g4], ?_, ?_, ?_, ?_⟩
  · intro n hn; rw [f5, pn2]; exact n1 n hn
  · intro n hn; rw [o1, x2, g5, hn]
  · intro n hn; rw [o2, p2, g6, hn]
  · intro hc h n hh hm
    have hc' : (autofillPictureNumbers seq)[i].code = 0 := by rw [g1]; exact hc
    obtain ⟨h', a1, a2, a3⟩ := hd2 hc' h (by rw [g7]; exact hh)
    exact ⟨h', by rw [f6]; exact a1, by rw [a2, hm]; rfl, a3⟩

end VC2.Proofs.Autofill
