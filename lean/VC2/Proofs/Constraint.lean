/-
  Lemmas for C17 (constraint tables).  Core Lean only.
-/
import VC2.Model.Constraint
namespace VC2.Proofs.Constraint
open VC2 VC2.Model.Constraint

theorem inRange_iff (v : Int) (r : Int × Int) : inRange v r = true ↔ r.1 ≤ v ∧ v ≤ r.2 := by
  simp [inRange]

theorem contains_iff (s : VSet) (x : Int) :
    s.contains x = true ↔ x ∈ s.values ∨ ∃ r ∈ s.ranges, inRange x r = true := by
  simp [VSet.contains, List.any_eq_true]

theorem contains_addValue (s : VSet) (v x : Int) :
    (s.addValue v).contains x = true ↔ s.contains x = true ∨ x = v := by
  unfold VSet.addValue
  by_cases h : s.contains v = true
  · rw [if_pos h]
    constructor
    · exact Or.inl
    · rintro (h1 | h1)
      · exact h1
      · subst h1; exact h
  · rw [if_neg h]
    simp only [contains_iff, List.mem_cons]
    constructor
    · rintro ((h1 | h1) | h1)
      · exact Or.inr h1
      · exact Or.inl (Or.inl h1)
      · exact Or.inl (Or.inr h1)
    · rintro ((h1 | h1) | h1)
      · exact Or.inl (Or.inr h1)
      · exact Or.inr h1
      · exact Or.inl (Or.inl h1)

/-- the merged interval is exactly the union of the new interval and the removed ones,
    and only existing ranges are removed -/
theorem mergeLoop_spec : ∀ (rs : List (Int × Int)) (lo hi : Int),
    (∀ x, inRange x ((mergeLoop rs lo hi).1, (mergeLoop rs lo hi).2.1) = true ↔
      (inRange x (lo, hi) = true ∨ ∃ r ∈ (mergeLoop rs lo hi).2.2, inRange x r = true)) ∧
    (∀ r ∈ (mergeLoop rs lo hi).2.2, r ∈ rs) ∧
    ((mergeLoop rs lo hi).1 ≤ lo ∧ hi ≤ (mergeLoop rs lo hi).2.1) := by
  intro rs
  induction rs with
  | nil => intro lo hi; simp [mergeLoop]
  | cons r rest ih =>
    intro lo hi
    obtain ⟨olo, ohi⟩ := r
    simp only [mergeLoop]
    by_cases hov : lo ≤ ohi ∧ olo ≤ hi
    · rw [if_pos hov]
      have ⟨a, b, c⟩ := ih (if olo < lo then olo else lo) (if ohi > hi then ohi else hi)
      refine ⟨?_, ?_, ?_⟩
      · intro x
        simp only
        rw [a x]
        simp only [inRange_iff, List.mem_cons]
        constructor
        · rintro (h | ⟨r, hr, hx⟩)
          · by_cases hx : lo ≤ x ∧ x ≤ hi
            · exact Or.inl hx
            · right; refine ⟨(olo, ohi), Or.inl rfl, ?_⟩
              simp only [inRange_iff]
              split at h <;> split at h <;> omega
          · exact Or.inr ⟨r, Or.inr hr, hx⟩
        · rintro (h | ⟨r, hr | hr, hx⟩)
          · left; split <;> split <;> omega
          · subst hr; simp only [inRange_iff] at hx
            left; split <;> split <;> omega
          · exact Or.inr ⟨r, hr, hx⟩
      · intro r hr
        simp only [List.mem_cons] at hr ⊢
        rcases hr with hr | hr
        · exact Or.inl hr
        · exact Or.inr (b r hr)
      · simp only
        constructor
        · have := c.1; split at this <;> omega
        · have := c.2; split at this <;> omega
    · rw [if_neg hov]
      have ⟨a, b, c⟩ := ih lo hi
      exact ⟨a, fun r hr => List.mem_cons_of_mem _ (b r hr), c⟩

theorem contains_addRange (s : VSet) (lo hi x : Int) :
    (s.addRange lo hi).contains x = true ↔ s.contains x = true ∨ inRange x (lo, hi) = true := by
  have ⟨a, b, _⟩ := mergeLoop_spec s.ranges lo hi
  simp only [contains_iff, VSet.addRange, List.mem_filter, List.mem_append, List.mem_singleton]
  constructor
  · rintro (⟨hx, hnot⟩ | ⟨r, (⟨hr, _⟩ | hr), hxr⟩)
    · exact Or.inl (Or.inl hx)
    · exact Or.inl (Or.inr ⟨r, hr, hxr⟩)
    · subst hr
      rcases (a x).1 hxr with h | ⟨r', hr', hx'⟩
      · exact Or.inr h
      · exact Or.inl (Or.inr ⟨r', b r' hr', hx'⟩)
  · rintro ((hx | ⟨r, hr, hxr⟩) | h)
    · by_cases hin : inRange x (lo, hi) = true
      · exact Or.inr ⟨_, Or.inr rfl, (a x).2 (Or.inl hin)⟩
      · left; refine ⟨hx, ?_⟩
        simp only [inRange_iff] at hin
        simp only [Bool.not_eq_true', Bool.and_eq_false_imp, decide_eq_true_eq, decide_eq_false_iff_not]
        intro h1 h2; exact hin ⟨h1, h2⟩
    · by_cases hrem : (mergeLoop s.ranges lo hi).2.2.contains r = true
      · have : r ∈ (mergeLoop s.ranges lo hi).2.2 := by simpa using hrem
        exact Or.inr ⟨_, Or.inr rfl, (a x).2 (Or.inr ⟨r, this, hxr⟩)⟩
      · exact Or.inr ⟨r, Or.inl ⟨hr, by simpa using hrem⟩, hxr⟩
    · exact Or.inr ⟨_, Or.inr rfl, (a x).2 (Or.inl h)⟩

theorem contains_foldl_addValue (vs : List Int) : ∀ (s : VSet) (x : Int),
    (vs.foldl VSet.addValue s).contains x = true ↔ s.contains x = true ∨ x ∈ vs := by
  induction vs with
  | nil => intro s x; simp
  | cons v vs ih =>
    intro s x
    simp only [List.foldl_cons, ih, contains_addValue, List.mem_cons]
    constructor
    · rintro ((h | h) | h)
      · exact Or.inl h
      · exact Or.inr (Or.inl h)
      · exact Or.inr (Or.inr h)
    · rintro (h | h | h)
      · exact Or.inl (Or.inl h)
      · exact Or.inl (Or.inr h)
      · exact Or.inr h

theorem contains_foldl_addRange (rs : List (Int × Int)) : ∀ (s : VSet) (x : Int),
    (rs.foldl (fun o r => o.addRange r.1 r.2) s).contains x = true ↔
      s.contains x = true ∨ ∃ r ∈ rs, inRange x r = true := by
  induction rs with
  | nil => intro s x; simp
  | cons r rs ih =>
    intro s x
    simp only [List.foldl_cons, ih, contains_addRange, List.mem_cons]
    constructor
    · rintro ((h | h) | ⟨r', hr', h⟩)
      · exact Or.inl h
      · exact Or.inr ⟨r, Or.inl rfl, h⟩
      · exact Or.inr ⟨r', Or.inr hr', h⟩
    · rintro (h | ⟨r', hr' | hr', h⟩)
      · exact Or.inl (Or.inl h)
      · subst hr'; exact Or.inl (Or.inr h)
      · exact Or.inr ⟨r', hr', h⟩

theorem contains_empty (x : Int) : ({} : VSet).contains x = false := by simp [VSet.contains]

theorem contains_union (a b : VSet) (x : Int) :
    (a.union b).contains x = true ↔ a.contains x = true ∨ b.contains x = true := by
  unfold VSet.union
  simp only []
  rw [contains_foldl_addRange, contains_foldl_addRange, contains_foldl_addValue, contains_foldl_addValue,
    contains_iff a, contains_iff b]
  have e : ¬ (({} : VSet).contains x = true) := by simp [contains_empty]
  constructor
  · rintro ((((h | h) | h) | h) | h)
    · exact absurd h e
    · exact Or.inl (Or.inl h)
    · exact Or.inr (Or.inl h)
    · exact Or.inl (Or.inr h)
    · exact Or.inr (Or.inr h)
  · rintro ((h | h) | (h | h))
    · exact Or.inl (Or.inl (Or.inl (Or.inr h)))
    · exact Or.inl (Or.inr h)
    · exact Or.inl (Or.inl (Or.inr h))
    · exact Or.inr h

theorem vs_contains_union (a b : VS) (x : Int) :
    (a.union b).contains x = true ↔ a.contains x = true ∨ b.contains x = true := by
  cases a <;> cases b <;> simp [VS.union, VS.contains, contains_union]

/-! ### well-formed ranges and disjointness -/

def VSet.WF (s : VSet) : Prop := ∀ r ∈ s.ranges, r.1 ≤ r.2

theorem wf_addValue (s : VSet) (v : Int) (h : VSet.WF s) : VSet.WF (s.addValue v) := by
  unfold VSet.addValue; split
  · exact h
  · exact h

theorem wf_addRange (s : VSet) (lo hi : Int) (h : VSet.WF s) (hr : lo ≤ hi) : VSet.WF (s.addRange lo hi) := by
  have ⟨_, _, c⟩ := mergeLoop_spec s.ranges lo hi
  intro r hmem
  simp only [VSet.addRange, List.mem_append, List.mem_filter, List.mem_singleton] at hmem
  rcases hmem with ⟨hm, _⟩ | hm
  · exact h r hm
  · subst hm; simp only; omega

theorem isDisjoint_correct (a b : VSet) (ha : VSet.WF a) (hb : VSet.WF b) :
    a.isDisjoint b = true ↔ ¬ ∃ x, a.contains x = true ∧ b.contains x = true := by
  unfold VSet.isDisjoint
  simp only [Bool.and_eq_true, Bool.not_eq_true', List.any_eq_false, Bool.or_eq_true, not_or,
    Bool.not_eq_true]
  constructor
  · rintro ⟨⟨⟨h1, h2⟩, h3⟩, h4⟩ ⟨x, hxa, hxb⟩
    rcases (contains_iff a x).1 hxa with hva | ⟨ra, hra, hxra⟩
    · have := h1 x hva; rw [hxb] at this; cases this
    · rcases (contains_iff b x).1 hxb with hvb | ⟨rb, hrb, hxrb⟩
      · have := h2 x hvb; rw [hxa] at this; cases this
      · simp only [inRange_iff] at hxra hxrb
        by_cases hc : rb.1 ≤ ra.1
        · have : b.contains ra.1 = true :=
            (contains_iff b ra.1).2 (Or.inr ⟨rb, hrb, by simp only [inRange_iff]; omega⟩)
          have h := (h3 ra hra).1; rw [this] at h; cases h
        · have : a.contains rb.1 = true :=
            (contains_iff a rb.1).2 (Or.inr ⟨ra, hra, by simp only [inRange_iff]; omega⟩)
          have h := (h4 rb hrb).1; rw [this] at h; cases h
  · intro hno
    have key : ∀ x, a.contains x = true → b.contains x = false := by
      intro x hx
      cases hb' : b.contains x with
      | false => rfl
      | true => exact absurd ⟨x, hx, hb'⟩ hno
    have key' : ∀ x, b.contains x = true → a.contains x = false := by
      intro x hx
      cases ha' : a.contains x with
      | false => rfl
      | true => exact absurd ⟨x, ha', hx⟩ hno
    refine ⟨⟨⟨?_, ?_⟩, ?_⟩, ?_⟩
    · intro v hv; exact key v ((contains_iff a v).2 (Or.inl hv))
    · intro v hv; exact key' v ((contains_iff b v).2 (Or.inl hv))
    · intro r hr
      have := ha r hr
      exact ⟨key r.1 ((contains_iff a r.1).2 (Or.inr ⟨r, hr, by simp only [inRange_iff]; omega⟩)),
             key r.2 ((contains_iff a r.2).2 (Or.inr ⟨r, hr, by simp only [inRange_iff]; omega⟩))⟩
    · intro r hr
      have := hb r hr
      exact ⟨key' r.1 ((contains_iff b r.1).2 (Or.inr ⟨r, hr, by simp only [inRange_iff]; omega⟩)),
             key' r.2 ((contains_iff b r.2).2 (Or.inr ⟨r, hr, by simp only [inRange_iff]; omega⟩))⟩

end VC2.Proofs.Constraint

namespace VC2.Proofs.Constraint
open VC2 VC2.Model.Constraint

/-! ### Tables -/

theorem contains_foldl_union (f : Comb → VS) (v : Int) : ∀ (cs : List Comb) (init : VS),
    (cs.foldl (fun out c => out.union (f c)) init).contains v = true ↔
      init.contains v = true ∨ ∃ c ∈ cs, (f c).contains v = true := by
  intro cs
  induction cs with
  | nil => intro init; simp
  | cons c cs ih =>
    intro init
    simp only [List.foldl_cons, ih, vs_contains_union, List.mem_cons]
    constructor
    · rintro ((h | h) | ⟨c', hc', h⟩)
      · exact Or.inl h
      · exact Or.inr ⟨c, Or.inl rfl, h⟩
      · exact Or.inr ⟨c', Or.inr hc', h⟩
    · rintro (h | ⟨c', hc' | hc', h⟩)
      · exact Or.inl (Or.inl h)
      · subst hc'; exact Or.inl (Or.inr h)
      · exact Or.inr ⟨c', hc', h⟩

theorem getD_contains (c : Comb) (key : Key) (v : Int) :
    ((c.get? key).getD (.set {})).contains v = c.admits (key, v) := by
  unfold Comb.admits
  cases c.get? key with
  | none => simp [VS.contains, contains_empty]
  | some s => rfl

theorem isAllowed_iff (t : Table) (values : Assign) :
    isAllowed t values = true ↔ ∃ c ∈ t, (values.all c.admits || c.isEmpty) = true := by
  unfold isAllowed filterTable
  constructor
  · intro h
    cases hf : t.filter (fun c => values.all c.admits || c.isEmpty) with
    | nil => rw [hf] at h; simp at h
    | cons c cs =>
      have : c ∈ t.filter (fun c => values.all c.admits || c.isEmpty) := by rw [hf]; exact List.mem_cons_self
      rw [List.mem_filter] at this
      exact ⟨c, this.1, this.2⟩
  · rintro ⟨c, hc, hp⟩
    have : c ∈ t.filter (fun c => values.all c.admits || c.isEmpty) := List.mem_filter.2 ⟨hc, hp⟩
    cases hf : t.filter (fun c => values.all c.admits || c.isEmpty) with
    | nil => rw [hf] at this; cases this
    | cons _ _ => simp

/-- no catch-all (empty) column -/
def NoCatchAll (t : Table) : Prop := ∀ c ∈ t, c.isEmpty = false

/-- `allowed_values_for` contains `v` exactly when adding `key ↦ v` gives an allowed combination -/
theorem allowed_values_iff (t : Table) (key : Key) (values : Assign) (v : Int) (hnc : NoCatchAll t) :
    (allowedValuesFor t key values).contains v = true ↔ isAllowed t (values ++ [(key, v)]) = true := by
  unfold allowedValuesFor
  rw [contains_foldl_union, isAllowed_iff]
  have he : (VS.set {}).contains v = false := by simp [VS.contains, contains_empty]
  simp only [he, getD_contains, filterTable, List.mem_filter, false_or, Bool.false_eq_true]
  constructor
  · rintro ⟨c, ⟨hc, hp⟩, hadm⟩
    refine ⟨c, hc, ?_⟩
    rw [hnc c hc] at hp ⊢
    simp only [Bool.or_false, List.all_append, List.all_cons, List.all_nil, Bool.and_true,
      Bool.and_eq_true] at hp ⊢
    exact ⟨hp, hadm⟩
  · rintro ⟨c, hc, hp⟩
    rw [hnc c hc] at hp
    simp only [Bool.or_false, List.all_append, List.all_cons, List.all_nil, Bool.and_true,
      Bool.and_eq_true] at hp
    exact ⟨c, ⟨hc, by rw [hnc c hc]; simpa using hp.1⟩, hp.2⟩

theorem set_fresh (a : Assign) (k : Key) (v : Int) (h : ∀ kv ∈ a, kv.1 ≠ k) :
    a.set k v = a ++ [(k, v)] := by
  unfold Assign.set
  have : a.any (fun kv => kv.1 == k) = false := by
    simp only [List.any_eq_false, beq_iff_eq]
    intro kv hkv; exact h kv hkv
  rw [this]; simp

/-- checking one value at a time (the validator's `assert_level_constraint`) succeeds exactly
    when every non-empty prefix of the sequence is an allowed combination -/
theorem assertSeq_iff (t : Table) (hnc : NoCatchAll t) : ∀ (kvs : List (Key × Int)) (cv : Assign),
    ((cv ++ kvs).map (·.1)).Nodup →
    ((assertSeq t cv kvs).isSome = true ↔
      ∀ n, 0 < n → n ≤ kvs.length → isAllowed t (cv ++ kvs.take n) = true) := by
  intro kvs
  induction kvs with
  | nil => intro cv _; simp [assertSeq]; intro n h1 h2; omega
  | cons kv rest ih =>
    intro cv hnd
    obtain ⟨k, v⟩ := kv
    have hfresh : ∀ x ∈ cv, x.1 ≠ k := by
      intro x hx heq
      rw [List.map_append, List.nodup_append] at hnd
      have := hnd.2.2 x.1 (List.mem_map_of_mem hx) k (by simp)
      exact this heq
    simp only [assertSeq, set_fresh cv k v hfresh]
    have hnd' : (((cv ++ [(k, v)]) ++ rest).map (·.1)).Nodup := by
      simpa [List.append_assoc] using hnd
    have ih' := ih (cv ++ [(k, v)]) hnd'
    by_cases hal : (allowedValuesFor t k cv).contains v = true
    · rw [if_pos hal, ih']
      have h1 := (allowed_values_iff t k cv v hnc).1 hal
      constructor
      · intro h n hn0 hn
        cases n with
        | zero => omega
        | succ m =>
          simp only [List.take_succ_cons]
          by_cases hm : m = 0
          · subst hm; simpa using h1
          · have := h m (by omega) (by simp at hn; omega)
            simpa [List.append_assoc] using this
      · intro h n hn0 hn
        have := h (n + 1) (by omega) (by simp; omega)
        simpa [List.take_succ_cons, List.append_assoc] using this
    · rw [if_neg hal]
      simp only [Option.isSome_none, Bool.false_eq_true, false_iff]
      intro h
      have := h 1 (by omega) (by simp)
      simp only [List.take_succ_cons, List.take_zero] at this
      exact hal ((allowed_values_iff t k cv v hnc).2 this)

theorem assertSeq_result (t : Table) : ∀ (kvs : List (Key × Int)) (cv r : Assign),
    ((cv ++ kvs).map (·.1)).Nodup → assertSeq t cv kvs = some r → r = cv ++ kvs := by
  intro kvs
  induction kvs with
  | nil => intro cv r _ h; simp [assertSeq] at h; simp [h]
  | cons kv rest ih =>
    intro cv r hnd h
    obtain ⟨k, v⟩ := kv
    have hfresh : ∀ x ∈ cv, x.1 ≠ k := by
      intro x hx heq
      rw [List.map_append, List.nodup_append] at hnd
      exact hnd.2.2 x.1 (List.mem_map_of_mem hx) k (by simp) heq
    simp only [assertSeq, set_fresh cv k v hfresh] at h
    split at h
    · have := ih (cv ++ [(k, v)]) r (by simpa [List.append_assoc] using hnd) h
      simpa [List.append_assoc] using this
    · cases h

end VC2.Proofs.Constraint
