/- The quantisation-index search of `quantize_to_fit` terminates (C14): from some index on, every
   coefficient is quantised to zero, zero coefficients cost no bits, and nothing fits better. -/
import VC2.Proofs.SliceFit
import VC2.Proofs.Quant
namespace VC2.Proofs.SliceFit
open VC2 VC2.Gen VC2.Model.SliceFit VC2.Proofs.Quant

/-- `quant_factor(i) ≥ 4 · 2^(i // 4)` -/
theorem quant_factor_ge_base (i : Int) : 4 * pypow 2 (i / 4) ≤ quant_factor i := by
  rw [quant_factor_eq]
  have hb := base_pos i; rw [pydiv4] at hb
  generalize pypow 2 (i / 4) = b at hb
  unfold q0 q1 q2 q3
  split
  · omega
  · split
    · omega
    · split <;> omega

/-- a coefficient smaller than `2^(i // 4)` is quantised to zero by index `i` -/
theorem forward_quant_zero (v i : Int) (h : (v.natAbs : Int) < pypow 2 (i / 4)) : forward_quant v i = 0 := by
  have hq := quant_factor_ge_base i
  by_cases hv : 0 ≤ v
  · rw [forward_quant_nonneg v i hv]
    have : (v.natAbs : Int) = v := by omega
    exact Int.ediv_eq_zero_of_lt (by omega) (by omega)
  · rw [forward_quant_neg v i (by omega)]
    have : (v.natAbs : Int) = -v := by omega
    rw [Int.ediv_eq_zero_of_lt (by omega) (by omega)]; rfl

theorem natAbs_lt_pypow (v : Int) (k : Int) (hk : (v.natAbs : Int) ≤ k) : (v.natAbs : Int) < pypow 2 k := by
  unfold pypow
  have h1 : v.natAbs < 2 ^ v.natAbs := Nat.lt_two_pow_self
  have h2 : 2 ^ v.natAbs ≤ 2 ^ k.toNat := Nat.pow_le_pow_right (by omega) (by omega)
  have : ((2 : Int) ^ k.toNat) = ((2 ^ k.toNat : Nat) : Int) := by norm_cast
  rw [this]; omega

/-- from this index on, every coefficient of the component is quantised to zero -/
def compBound : List Int → List Int → Int
  | v :: vs, m :: ms => pymax (m + 4 * v.natAbs) (compBound vs ms)
  | _, _ => 0

theorem compBound_nonneg : ∀ (vs ms : List Int), 0 ≤ compBound vs ms
  | [], _ => by simp [compBound]
  | _ :: _, [] => by simp [compBound]
  | v :: vs, m :: ms => by
    simp only [compBound]; have := compBound_nonneg vs ms; unfold pymax; split <;> omega

theorem quantize_all_zero : ∀ (vs ms : List Int) (q : Int), compBound vs ms ≤ q →
    ∀ x ∈ List.zipWith (fun v m => forward_quant v (pymax 0 (q - m))) vs ms, x = 0
  | [], _, _, _ => by simp
  | _ :: _, [], _, _ => by simp
  | v :: vs, m :: ms, q, h => by
    simp only [compBound] at h
    have h1 : m + 4 * (v.natAbs : Int) ≤ q := by unfold pymax at h; split at h <;> omega
    have h2 : compBound vs ms ≤ q := by unfold pymax at h; split at h <;> omega
    intro x hx
    simp only [List.zipWith_cons_cons, List.mem_cons] at hx
    rcases hx with hx | hx
    · rw [hx]
      apply forward_quant_zero
      apply natAbs_lt_pypow
      unfold pymax; split <;> omega
    · exact quantize_all_zero vs ms q h2 x hx

theorem dropWhile_all (l : List Int) (h : ∀ x ∈ l, x = 0) : l.dropWhile (· == 0) = [] := by
  induction l with
  | nil => rfl
  | cons a as ih =>
    have ha : a = 0 := h a List.mem_cons_self
    rw [List.dropWhile_cons, ha]
    simp only [beq_self_eq_true, if_true]
    exact ih (fun x hx => h x (List.mem_cons_of_mem _ hx))

theorem strip_all_zero (l : List Int) (h : ∀ x ∈ l, x = 0) : stripTrailingZeros l = [] := by
  unfold stripTrailingZeros
  rw [dropWhile_all l.reverse (fun x hx => h x (List.mem_reverse.1 hx))]; rfl

theorem coeffsBits_all_zero (l : List Int) (h : ∀ x ∈ l, x = 0) : coeffsBits l = 0 := by
  unfold coeffsBits; rw [strip_all_zero l h]; rfl

def setsBound : List Comp → Int
  | [] => 0
  | c :: cs => pymax (compBound c.vals c.qm) (setsBound cs)

theorem totalLength_zero (align : Int) (ha : 1 ≤ align) : ∀ (sets : List Comp) (q : Int), setsBound sets ≤ q →
    totalLength q sets align = 0
  | [], q, _ => by simp [totalLength]
  | c :: cs, q, h => by
    simp only [setsBound] at h
    have h1 : compBound c.vals c.qm ≤ q := by unfold pymax at h; split at h <;> omega
    have h2 : setsBound cs ≤ q := by unfold pymax at h; split at h <;> omega
    have ih := totalLength_zero align ha cs q h2
    unfold totalLength at ih ⊢
    simp only [List.map_cons, List.sum_cons, ih]
    have hz : coeffsBits (quantizeCoeffs q c) = 0 := by
      apply coeffsBits_all_zero
      exact quantize_all_zero c.vals c.qm q h1
    rw [hz, pydiv_pos _ _ (by omega)]
    have : (0 + align - 1) / align = 0 := Int.ediv_eq_zero_of_lt (by omega) (by omega)
    rw [this]; omega

/-- **the index search terminates**: for every non-negative target and alignment ≥ 1 there is an index
    from which on everything fits, so `quantize_to_fit` returns after finitely many candidates -/
theorem qtf_terminates (target : Int) (sets : List Comp) (align : Int) (ht : 0 ≤ target) (ha : 1 ≤ align) (q0 : Int) :
    ∃ q, quantizeToFit target sets align ((pymax q0 (setsBound sets) - q0).toNat + 1) q0 = some q := by
  have hfit : fits target sets align (pymax q0 (setsBound sets)) = true := by
    unfold fits
    rw [totalLength_zero align ha sets _ (by unfold pymax; split <;> omega)]
    simpa using ht
  exact qtf_finds target sets align _ q0 (pymax q0 (setsBound sets)) (by unfold pymax; split <;> omega)
    (by have : q0 ≤ pymax q0 (setsBound sets) := by unfold pymax; split <;> omega
        omega) hfit

end VC2.Proofs.SliceFit
