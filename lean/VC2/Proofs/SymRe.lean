/-
  Lemmas for C18 (symbol regular expressions): Thompson construction soundness,
  completeness and trimness, generic in the letter-matching relation.  Core Lean only.
-/
import VC2.Model.SymRe
namespace VC2.Proofs.SymRe
open VC2 VC2.Model.SymRe

section Generic
variable {Sym : Type} (m : String → Sym → Prop)

/-- denotational language of a pattern; `m s a` = "label `s` matches letter `a`" -/
inductive Lang : Ast → List Sym → Prop
  | empty : Lang .empty []
  | sym {s : String} {a : Sym} : m s a → Lang (.sym s) [a]
  | cat {a b : Ast} {u v : List Sym} : Lang a u → Lang b v → Lang (.cat a b) (u ++ v)
  | altL {a b : Ast} {u : List Sym} : Lang a u → Lang (.alt a b) u
  | altR {a b : Ast} {u : List Sym} : Lang b u → Lang (.alt a b) u
  | starNil {e : Ast} : Lang (.star e) []
  | starCons {e : Ast} {u v : List Sym} : Lang e u → Lang (.star e) v → Lang (.star e) (u ++ v)

/-- runs of the automaton -/
inductive Path (es : List Edge) : Nat → List Sym → Nat → Prop
  | nil (q : Nat) : Path es q [] q
  | eps {p q r : Nat} {w : List Sym} : (⟨p, none, q⟩ : Edge) ∈ es → Path es q w r → Path es p w r
  | step {p q r : Nat} {s : String} {a : Sym} {w : List Sym} :
      (⟨p, some s, q⟩ : Edge) ∈ es → m s a → Path es q w r → Path es p (a :: w) r

theorem Path.mono {es es' : List Edge} (h : ∀ e ∈ es, e ∈ es') {p r : Nat} {w : List Sym}
    (hp : Path m es p w r) : Path m es' p w r := by
  induction hp with
  | nil q => exact .nil q
  | eps he _ ih => exact .eps (h _ he) ih
  | step he hm _ ih => exact .step (h _ he) hm ih

theorem Path.trans {es : List Edge} {p q r : Nat} {u v : List Sym}
    (h1 : Path m es p u q) (h2 : Path m es q v r) : Path m es p (u ++ v) r := by
  induction h1 with
  | nil q => simpa using h2
  | eps he _ ih => exact .eps he (ih h2)
  | step he hm _ ih => exact .step he hm (ih h2)

theorem Path.single_eps {es : List Edge} {p q : Nat} (h : (⟨p, none, q⟩ : Edge) ∈ es) :
    Path m es p ([] : List Sym) q := .eps h (.nil q)

/-! ### node ranges -/

theorem build_next_gt (r : Ast) : ∀ n, n < (build r n).next := by
  induction r with
  | empty => intro n; simp [build]
  | sym s => intro n; simp [build]
  | star e ih => intro n; simp only [build]; have := ih (n + 2); omega
  | cat a b iha ihb => intro n; simp only [build]; have := iha n; have := ihb (build a n).next; omega
  | alt a b iha ihb =>
    intro n; simp only [build]; have := iha (n + 2); have := ihb (build a (n + 2)).next; omega

def InRange (n k q : Nat) : Prop := n ≤ q ∧ q < k

theorem build_range (r : Ast) : ∀ n,
    InRange n (build r n).next (build r n).start ∧ InRange n (build r n).next (build r n).final ∧
    ∀ e ∈ (build r n).edges, InRange n (build r n).next e.src ∧ InRange n (build r n).next e.dst := by
  induction r with
  | empty => intro n; simp [build, InRange]
  | sym s => intro n; simp [build, InRange]
  | star e ih =>
    intro n
    have ⟨hs, hf, he⟩ := ih (n + 2)
    have hn := build_next_gt e (n + 2)
    unfold InRange at *
    simp only [build]
    refine ⟨by omega, by omega, ?_⟩
    intro ed hed
    simp only [List.mem_append, List.mem_cons, List.not_mem_nil, or_false] at hed
    rcases hed with h | h | h | h | h
    · have := he ed h; omega
    all_goals (subst h; simp only; omega)
  | cat a b iha ihb =>
    intro n
    have ⟨hsa, hfa, hea⟩ := iha n
    have ⟨hsb, hfb, heb⟩ := ihb (build a n).next
    have hna := build_next_gt a n
    have hnb := build_next_gt b (build a n).next
    unfold InRange at *
    simp only [build]
    refine ⟨by omega, by omega, ?_⟩
    intro ed hed
    simp only [List.mem_append, List.mem_cons, List.not_mem_nil, or_false] at hed
    rcases hed with (h | h) | h
    · have := hea ed h; omega
    · have := heb ed h; omega
    · subst h; simp only; omega
  | alt a b iha ihb =>
    intro n
    have ⟨hsa, hfa, hea⟩ := iha (n + 2)
    have ⟨hsb, hfb, heb⟩ := ihb (build a (n + 2)).next
    have hna := build_next_gt a (n + 2)
    have hnb := build_next_gt b (build a (n + 2)).next
    unfold InRange at *
    simp only [build]
    refine ⟨by omega, by omega, ?_⟩
    intro ed hed
    simp only [List.mem_append, List.mem_cons, List.not_mem_nil, or_false] at hed
    rcases hed with (h | h) | h | h | h | h
    · have := hea ed h; omega
    · have := heb ed h; omega
    all_goals (subst h; simp only; omega)

/-! ### completeness: every word of the language labels a start→final run -/

theorem cat_path (a b : Ast) (n : Nat) (u v : List Sym)
    (pa : Path m (build a n).edges (build a n).start u (build a n).final)
    (pb : Path m (build b (build a n).next).edges (build b (build a n).next).start v
            (build b (build a n).next).final) :
    Path m (build (.cat a b) n).edges (build (.cat a b) n).start (u ++ v) (build (.cat a b) n).final := by
  simp only [build]
  have pa' := pa.mono m (es' := (build a n).edges ++ (build b (build a n).next).edges ++
      [⟨(build a n).final, none, (build b (build a n).next).start⟩]) (by intro e he; simp [he])
  have pb' := pb.mono m (es' := (build a n).edges ++ (build b (build a n).next).edges ++
      [⟨(build a n).final, none, (build b (build a n).next).start⟩]) (by intro e he; simp [he])
  have pe : Path m ((build a n).edges ++ (build b (build a n).next).edges ++
      [⟨(build a n).final, none, (build b (build a n).next).start⟩])
      (build a n).final ([] : List Sym) (build b (build a n).next).start :=
    Path.single_eps m (by simp)
  have := (pa'.trans m pe).trans m pb'
  simpa using this

theorem altL_path (a b : Ast) (n : Nat) (u : List Sym)
    (pa : Path m (build a (n + 2)).edges (build a (n + 2)).start u (build a (n + 2)).final) :
    Path m (build (.alt a b) n).edges (build (.alt a b) n).start u (build (.alt a b) n).final := by
  simp only [build]
  have p := pa.mono m (es' := (build a (n + 2)).edges ++ (build b (build a (n + 2)).next).edges ++
      [⟨n, none, (build a (n + 2)).start⟩, ⟨n, none, (build b (build a (n + 2)).next).start⟩,
       ⟨(build a (n + 2)).final, none, n + 1⟩, ⟨(build b (build a (n + 2)).next).final, none, n + 1⟩])
      (by intro e he; simp [he])
  refine .eps (q := (build a (n + 2)).start) (by simp) ?_
  have := p.trans m (Path.single_eps m (p := (build a (n + 2)).final) (q := n + 1)
      (es := (build a (n + 2)).edges ++ (build b (build a (n + 2)).next).edges ++
      [⟨n, none, (build a (n + 2)).start⟩, ⟨n, none, (build b (build a (n + 2)).next).start⟩,
       ⟨(build a (n + 2)).final, none, n + 1⟩, ⟨(build b (build a (n + 2)).next).final, none, n + 1⟩]) (by simp))
  simpa using this

theorem altR_path (a b : Ast) (n : Nat) (u : List Sym)
    (pb : Path m (build b (build a (n + 2)).next).edges (build b (build a (n + 2)).next).start u
            (build b (build a (n + 2)).next).final) :
    Path m (build (.alt a b) n).edges (build (.alt a b) n).start u (build (.alt a b) n).final := by
  simp only [build]
  have p := pb.mono m (es' := (build a (n + 2)).edges ++ (build b (build a (n + 2)).next).edges ++
      [⟨n, none, (build a (n + 2)).start⟩, ⟨n, none, (build b (build a (n + 2)).next).start⟩,
       ⟨(build a (n + 2)).final, none, n + 1⟩, ⟨(build b (build a (n + 2)).next).final, none, n + 1⟩])
      (by intro e he; simp [he])
  refine .eps (q := (build b (build a (n + 2)).next).start) (by simp) ?_
  have := p.trans m (Path.single_eps m (p := (build b (build a (n + 2)).next).final) (q := n + 1)
      (es := (build a (n + 2)).edges ++ (build b (build a (n + 2)).next).edges ++
      [⟨n, none, (build a (n + 2)).start⟩, ⟨n, none, (build b (build a (n + 2)).next).start⟩,
       ⟨(build a (n + 2)).final, none, n + 1⟩, ⟨(build b (build a (n + 2)).next).final, none, n + 1⟩]) (by simp))
  simpa using this

/-- edges of `build (star e) n` -/
def starEdges (e : Ast) (n : Nat) : List Edge :=
  (build e (n + 2)).edges ++
    [⟨n, none, n + 1⟩, ⟨n, none, (build e (n + 2)).start⟩,
     ⟨(build e (n + 2)).final, none, (build e (n + 2)).start⟩, ⟨(build e (n + 2)).final, none, n + 1⟩]

theorem star_build (e : Ast) (n : Nat) :
    build (.star e) n = { start := n, final := n + 1, edges := starEdges e n, next := (build e (n + 2)).next } := rfl

/-- whatever the star's start node can do to reach the final node, the inner final node can do too -/
theorem star_reenter (e : Ast) (n : Nat) (w : List Sym)
    (hp : Path m (starEdges e n) n w (n + 1)) :
    Path m (starEdges e n) (build e (n + 2)).final w (n + 1) := by
  have rng := build_range e (n + 2)
  unfold InRange at rng
  cases hp with
  | eps he hrest =>
    simp only [starEdges, List.mem_append, List.mem_cons, List.not_mem_nil, or_false, Edge.mk.injEq] at he
    rcases he with he | he | he | he | he
    · have := (rng.2.2 _ he).1; simp at this; omega
    · obtain ⟨_, _, h3⟩ := he; subst h3
      exact .eps (q := n + 1) (by simp [starEdges]) hrest
    · obtain ⟨_, _, h3⟩ := he; subst h3
      exact .eps (q := (build e (n + 2)).start) (by simp [starEdges]) hrest
    · obtain ⟨h1, _, _⟩ := he; omega
    · obtain ⟨h1, _, _⟩ := he; omega
  | step he _ _ =>
    simp only [starEdges, List.mem_append, List.mem_cons, List.not_mem_nil, or_false, Edge.mk.injEq] at he
    rcases he with he | he | he | he | he
    · have := (rng.2.2 _ he).1; simp at this; omega
    all_goals (obtain ⟨_, h2, _⟩ := he; cases h2)

theorem star_cons_path (e : Ast) (n : Nat) (u v : List Sym)
    (pe : Path m (build e (n + 2)).edges (build e (n + 2)).start u (build e (n + 2)).final)
    (ps : Path m (starEdges e n) n v (n + 1)) :
    Path m (starEdges e n) n (u ++ v) (n + 1) := by
  have pe' := pe.mono m (es' := starEdges e n) (by intro e' he'; simp [starEdges, he'])
  exact .eps (q := (build e (n + 2)).start) (by simp [starEdges]) (pe'.trans m (star_reenter m e n v ps))

theorem build_complete (r : Ast) (w : List Sym) (h : Lang m r w) : ∀ (n : Nat),
    Path m (build r n).edges (build r n).start w (build r n).final := by
  induction h with
  | empty => intro n; exact .nil _
  | sym hm => intro n; exact .step (by simp [build]) hm (.nil _)
  | @cat a b u v _ _ iha ihb => intro n; exact cat_path m a b n u v (iha n) (ihb _)
  | @altL a b u _ ih => intro n; exact altL_path m a b n u (ih _)
  | @altR a b u _ ih => intro n; exact altR_path m a b n u (ih _)
  | @starNil e =>
    intro n; rw [star_build]
    exact .eps (q := n + 1) (by simp [starEdges]) (.nil _)
  | @starCons e u v _ _ ihe ihs =>
    intro n
    have hs := ihs n
    rw [star_build] at hs ⊢
    exact star_cons_path m e n u v (ihe _) hs

/-! ### soundness via right-language labelling -/

def LCat (A B : List Sym → Prop) : List Sym → Prop := fun w => ∃ u v, w = u ++ v ∧ A u ∧ B v

/-- the words accepted from node `q` of `build r n` when `K` is accepted after the fragment's final -/
def NodeLang : Ast → Nat → (List Sym → Prop) → Nat → List Sym → Prop
  | .empty, _, K, _, w => K w
  | .sym s, n, K, q, w => if q = n then ∃ a v, w = a :: v ∧ m s a ∧ K v else K w
  | .cat a b, n, K, q, w =>
    if q < (build a n).next then NodeLang a n (LCat (Lang m b) K) q w
    else NodeLang b (build a n).next K q w
  | .alt a b, n, K, q, w =>
    if q = n then LCat (Lang m (.alt a b)) K w
    else if q = n + 1 then K w
    else if q < (build a (n + 2)).next then NodeLang a (n + 2) K q w
    else NodeLang b (build a (n + 2)).next K q w
  | .star e, n, K, q, w =>
    if q = n then LCat (Lang m (.star e)) K w
    else if q = n + 1 then K w
    else NodeLang e (n + 2) (LCat (Lang m (.star e)) K) q w

theorem lcat_assoc_star (e : Ast) (K : List Sym → Prop) (w : List Sym)
    (h : LCat (Lang m e) (LCat (Lang m (.star e)) K) w) : LCat (Lang m (.star e)) K w := by
  obtain ⟨u, v, rfl, hu, v1, v2, rfl, hv1, hv2⟩ := h
  exact ⟨u ++ v1, v2, by simp, .starCons hu hv1, hv2⟩

theorem nodeLang_final (r : Ast) : ∀ (n : Nat) (K : List Sym → Prop) (w : List Sym),
    NodeLang m r n K (build r n).final w ↔ K w := by
  induction r with
  | empty => intro n K w; simp [NodeLang]
  | sym s => intro n K w; simp [NodeLang, build]
  | star e ih => intro n K w; simp [NodeLang, build]
  | alt a b iha ihb => intro n K w; simp [NodeLang, build]
  | cat a b iha ihb =>
    intro n K w
    have rb := build_range b (build a n).next
    unfold InRange at rb
    have : ¬ ((build (.cat a b) n).final < (build a n).next) := by simp only [build]; omega
    simp only [NodeLang, this, if_false]
    simpa [build] using ihb (build a n).next K w

theorem nodeLang_start (r : Ast) : ∀ (n : Nat) (K : List Sym → Prop) (w : List Sym),
    NodeLang m r n K (build r n).start w ↔ LCat (Lang m r) K w := by
  induction r with
  | empty =>
    intro n K w; simp only [NodeLang, LCat]
    constructor
    · intro h; exact ⟨[], w, by simp, .empty, h⟩
    · rintro ⟨u, v, rfl, hu, hv⟩; cases hu; simpa using hv
  | sym s =>
    intro n K w; simp only [NodeLang, build, if_true, LCat]
    constructor
    · rintro ⟨a, v, rfl, hm, hk⟩; exact ⟨[a], v, by simp, .sym hm, hk⟩
    · rintro ⟨u, v, rfl, hu, hv⟩; cases hu with | sym hm => exact ⟨_, v, by simp, hm, hv⟩
  | star e ih => intro n K w; simp [NodeLang, build]
  | alt a b iha ihb => intro n K w; simp [NodeLang, build]
  | cat a b iha ihb =>
    intro n K w
    have ra := build_range a n
    unfold InRange at ra
    have : (build (.cat a b) n).start < (build a n).next := by simp only [build]; omega
    simp only [NodeLang, this, if_true]
    have := iha n (LCat (Lang m b) K) w
    simp only [build]
    rw [this]
    constructor
    · rintro ⟨u, v, rfl, hu, v1, v2, rfl, hv1, hv2⟩
      exact ⟨u ++ v1, v2, by simp, .cat hu hv1, hv2⟩
    · rintro ⟨u, v, rfl, hu, hv⟩
      cases hu with
      | cat h1 h2 => exact ⟨_, _, by simp, h1, _, v, rfl, h2, hv⟩

/-- a labelling is respected by an edge set -/
def Respects (lab : Nat → List Sym → Prop) (es : List Edge) : Prop :=
  ∀ e ∈ es, match e.lbl with
    | none => ∀ w, lab e.dst w → lab e.src w
    | some s => ∀ a w, m s a → lab e.dst w → lab e.src (a :: w)

theorem respects_congr {lab lab' : Nat → List Sym → Prop} {es : List Edge}
    (h : Respects m lab es)
    (hc : ∀ e ∈ es, (∀ w, lab e.src w ↔ lab' e.src w) ∧ (∀ w, lab e.dst w ↔ lab' e.dst w)) :
    Respects m lab' es := by
  intro e he
  have := h e he
  have ⟨c1, c2⟩ := hc e he
  cases hl : e.lbl with
  | none => rw [hl] at this; simp only at this ⊢; intro w hw; exact (c1 w).1 (this w ((c2 w).2 hw))
  | some s =>
    rw [hl] at this; simp only at this ⊢
    intro a w hm hw; exact (c1 _).1 (this a w hm ((c2 w).2 hw))

theorem sound_of_respects {lab : Nat → List Sym → Prop} {es : List Edge} (h : Respects m lab es)
    {p q : Nat} {w : List Sym} (hp : Path m es p w q) : ∀ v, lab q v → lab p (w ++ v) := by
  induction hp with
  | nil q => intro v hv; simpa using hv
  | eps he _ ih =>
    intro v hv
    have := h _ he; simp only at this
    exact this _ (ih v hv)
  | step he hm _ ih =>
    intro v hv
    have := h _ he; simp only at this
    exact this _ _ hm (ih v hv)

theorem build_respects (r : Ast) : ∀ (n : Nat) (K : List Sym → Prop),
    Respects m (NodeLang m r n K) (build r n).edges := by
  induction r with
  | empty => intro n K e he; simp [build] at he
  | sym s =>
    intro n K e he
    simp only [build, List.mem_singleton] at he
    subst he
    simp only [NodeLang, if_true]
    intro a w hm hw
    have : ¬ (n + 1 = n) := by omega
    simp only [this, if_false] at hw
    exact ⟨a, w, rfl, hm, hw⟩
  | cat a b iha ihb =>
    intro n K e he
    have ra := build_range a n
    have rb := build_range b (build a n).next
    have hna := build_next_gt a n
    unfold InRange at ra rb
    simp only [build, List.mem_append, List.mem_singleton] at he
    rcases he with (he | he) | he
    · -- an edge of the first fragment
      have hr := ra.2.2 e he
      have := iha n (LCat (Lang m b) K) e he
      have h1 : e.src < (build a n).next := hr.1.2
      have h2 : e.dst < (build a n).next := hr.2.2
      cases hl : e.lbl with
      | none => rw [hl] at this; simp only [NodeLang, h1, h2, if_true] at this ⊢; exact this
      | some s => rw [hl] at this; simp only [NodeLang, h1, h2, if_true] at this ⊢; exact this
    · have hr := rb.2.2 e he
      have := ihb (build a n).next K e he
      have h1 : ¬ (e.src < (build a n).next) := by omega
      have h2 : ¬ (e.dst < (build a n).next) := by omega
      cases hl : e.lbl with
      | none => rw [hl] at this; simp only [NodeLang, h1, h2, if_false] at this ⊢; exact this
      | some s => rw [hl] at this; simp only [NodeLang, h1, h2, if_false] at this ⊢; exact this
    · subst he
      simp only
      intro w hw
      have h1 : (build a n).final < (build a n).next := ra.2.1.2
      have h2 : ¬ ((build b (build a n).next).start < (build a n).next) := by omega
      simp only [NodeLang, h1, h2, if_true, if_false] at hw ⊢
      rw [nodeLang_final]
      exact (nodeLang_start m b _ K w).1 hw
  | alt a b iha ihb =>
    intro n K e he
    have ra := build_range a (n + 2)
    have rb := build_range b (build a (n + 2)).next
    have hna := build_next_gt a (n + 2)
    unfold InRange at ra rb
    simp only [build, List.mem_append, List.mem_cons, List.not_mem_nil, or_false] at he
    rcases he with (he | he) | he | he | he | he
    · have hr := ra.2.2 e he
      have := iha (n + 2) K e he
      have s1 : ¬ (e.src = n) := by omega
      have s2 : ¬ (e.src = n + 1) := by omega
      have s3 : e.src < (build a (n + 2)).next := hr.1.2
      have d1 : ¬ (e.dst = n) := by omega
      have d2 : ¬ (e.dst = n + 1) := by omega
      have d3 : e.dst < (build a (n + 2)).next := hr.2.2
      cases hl : e.lbl with
      | none => rw [hl] at this; simp only [NodeLang, s1, s2, s3, d1, d2, d3, if_true, if_false] at this ⊢; exact this
      | some s => rw [hl] at this; simp only [NodeLang, s1, s2, s3, d1, d2, d3, if_true, if_false] at this ⊢; exact this
    · have hr := rb.2.2 e he
      have := ihb (build a (n + 2)).next K e he
      have s1 : ¬ (e.src = n) := by omega
      have s2 : ¬ (e.src = n + 1) := by omega
      have s3 : ¬ (e.src < (build a (n + 2)).next) := by omega
      have d1 : ¬ (e.dst = n) := by omega
      have d2 : ¬ (e.dst = n + 1) := by omega
      have d3 : ¬ (e.dst < (build a (n + 2)).next) := by omega
      cases hl : e.lbl with
      | none => rw [hl] at this; simp only [NodeLang, s1, s2, s3, d1, d2, d3, if_true, if_false] at this ⊢; exact this
      | some s => rw [hl] at this; simp only [NodeLang, s1, s2, s3, d1, d2, d3, if_true, if_false] at this ⊢; exact this
    · subst he; simp only
      intro w hw
      have d1 : ¬ ((build a (n + 2)).start = n) := by omega
      have d2 : ¬ ((build a (n + 2)).start = n + 1) := by omega
      have d3 : (build a (n + 2)).start < (build a (n + 2)).next := ra.1.2
      simp only [NodeLang, d1, d2, d3, if_true, if_false] at hw ⊢
      obtain ⟨u, v, rfl, hu, hv⟩ := (nodeLang_start m a _ K w).1 hw
      exact ⟨u, v, rfl, .altL hu, hv⟩
    · subst he; simp only
      intro w hw
      have d1 : ¬ ((build b (build a (n + 2)).next).start = n) := by omega
      have d2 : ¬ ((build b (build a (n + 2)).next).start = n + 1) := by omega
      have d3 : ¬ ((build b (build a (n + 2)).next).start < (build a (n + 2)).next) := by omega
      simp only [NodeLang, d1, d2, d3, if_true, if_false] at hw ⊢
      obtain ⟨u, v, rfl, hu, hv⟩ := (nodeLang_start m b _ K w).1 hw
      exact ⟨u, v, rfl, .altR hu, hv⟩
    · subst he; simp only
      intro w hw
      have s1 : ¬ ((build a (n + 2)).final = n) := by omega
      have s2 : ¬ ((build a (n + 2)).final = n + 1) := by omega
      have s3 : (build a (n + 2)).final < (build a (n + 2)).next := ra.2.1.2
      have e1 : ¬ (n + 1 = n) := by omega
      simp only [NodeLang, s1, s2, s3, e1, if_true, if_false] at hw ⊢
      exact (nodeLang_final m a _ K w).2 hw
    · subst he; simp only
      intro w hw
      have s1 : ¬ ((build b (build a (n + 2)).next).final = n) := by omega
      have s2 : ¬ ((build b (build a (n + 2)).next).final = n + 1) := by omega
      have s3 : ¬ ((build b (build a (n + 2)).next).final < (build a (n + 2)).next) := by omega
      have e1 : ¬ (n + 1 = n) := by omega
      simp only [NodeLang, s1, s2, s3, e1, if_true, if_false] at hw ⊢
      exact (nodeLang_final m b _ K w).2 hw
  | star e ih =>
    intro n K ed he
    have re := build_range e (n + 2)
    unfold InRange at re
    simp only [build, List.mem_append, List.mem_cons, List.not_mem_nil, or_false] at he
    have e1 : ¬ (n + 1 = n) := by omega
    rcases he with he | he | he | he | he
    · have hr := re.2.2 ed he
      have := ih (n + 2) (LCat (Lang m (.star e)) K) ed he
      have s1 : ¬ (ed.src = n) := by omega
      have s2 : ¬ (ed.src = n + 1) := by omega
      have d1 : ¬ (ed.dst = n) := by omega
      have d2 : ¬ (ed.dst = n + 1) := by omega
      cases hl : ed.lbl with
      | none => rw [hl] at this; simp only [NodeLang, s1, s2, d1, d2, if_false] at this ⊢; exact this
      | some s => rw [hl] at this; simp only [NodeLang, s1, s2, d1, d2, if_false] at this ⊢; exact this
    · subst he; simp only
      intro w hw
      simp only [NodeLang, e1, if_true, if_false] at hw ⊢
      exact ⟨[], w, by simp, .starNil, hw⟩
    · subst he; simp only
      intro w hw
      have d1 : ¬ ((build e (n + 2)).start = n) := by omega
      have d2 : ¬ ((build e (n + 2)).start = n + 1) := by omega
      simp only [NodeLang, d1, d2, if_true, if_false] at hw ⊢
      exact lcat_assoc_star m e K w ((nodeLang_start m e _ _ w).1 hw)
    · subst he; simp only
      intro w hw
      have s1 : ¬ ((build e (n + 2)).final = n) := by omega
      have s2 : ¬ ((build e (n + 2)).final = n + 1) := by omega
      have d1 : ¬ ((build e (n + 2)).start = n) := by omega
      have d2 : ¬ ((build e (n + 2)).start = n + 1) := by omega
      simp only [NodeLang, s1, s2, d1, d2, if_false] at hw ⊢
      rw [nodeLang_final]
      exact lcat_assoc_star m e K w ((nodeLang_start m e _ _ w).1 hw)
    · subst he; simp only
      intro w hw
      have s1 : ¬ ((build e (n + 2)).final = n) := by omega
      have s2 : ¬ ((build e (n + 2)).final = n + 1) := by omega
      simp only [NodeLang, s1, s2, e1, if_true, if_false] at hw ⊢
      rw [nodeLang_final]
      exact ⟨[], w, by simp, .starNil, hw⟩

/-- **soundness**: a run from any node to the final node spells a word of that node's right language -/
theorem build_sound_from (r : Ast) (n q : Nat) (w : List Sym)
    (hp : Path m (build r n).edges q w (build r n).final) :
    NodeLang m r n (fun v => v = []) q w := by
  have := sound_of_respects m (build_respects m r n (fun v => v = [])) hp []
    ((nodeLang_final m r n _ []).2 rfl)
  simpa using this

theorem build_sound (r : Ast) (n : Nat) (w : List Sym)
    (hp : Path m (build r n).edges (build r n).start w (build r n).final) : Lang m r w := by
  have := (nodeLang_start m r n _ w).1 (build_sound_from m r n _ w hp)
  obtain ⟨u, v, rfl, hu, hv⟩ := this
  subst hv; simpa using hu

/-! ### trimness: every node of a fragment can reach its final node -/

theorem build_trim (hm : ∀ s : String, ∃ a : Sym, m s a) (r : Ast) : ∀ (n q : Nat),
    InRange n (build r n).next q → ∃ w, Path m (build r n).edges q w (build r n).final := by
  induction r with
  | empty =>
    intro n q hq; unfold InRange at hq; simp only [build] at hq ⊢
    have : q = n := by omega
    rw [this]; exact ⟨[], .nil _⟩
  | sym s =>
    intro n q hq; unfold InRange at hq; simp only [build] at hq ⊢
    obtain ⟨a, ha⟩ := hm s
    by_cases h : q = n
    · rw [h]; exact ⟨[a], .step (by simp) ha (.nil _)⟩
    · have : q = n + 1 := by omega
      rw [this]; exact ⟨[], .nil _⟩
  | cat a b iha ihb =>
    intro n q hq
    have ra := build_range a n
    have rb := build_range b (build a n).next
    unfold InRange at hq ra rb
    simp only [build] at hq
    obtain ⟨wb, pb⟩ := ihb (build a n).next (build b (build a n).next).start rb.1
    have pb' := pb.mono m (es' := (build (.cat a b) n).edges) (by intro e he; simp [build, he])
    by_cases h : q < (build a n).next
    · obtain ⟨wa, pa⟩ := iha n q ⟨hq.1, h⟩
      have pa' := pa.mono m (es' := (build (.cat a b) n).edges) (by intro e he; simp [build, he])
      have pe : Path m (build (.cat a b) n).edges (build a n).final ([] : List Sym)
          (build b (build a n).next).start := Path.single_eps m (by simp [build])
      exact ⟨wa ++ [] ++ wb, by simpa [build] using (pa'.trans m pe).trans m pb'⟩
    · obtain ⟨w, p⟩ := ihb (build a n).next q ⟨by omega, hq.2⟩
      exact ⟨w, by simpa [build] using p.mono m (es' := (build (.cat a b) n).edges) (by intro e he; simp [build, he])⟩
  | alt a b iha ihb =>
    intro n q hq
    have ra := build_range a (n + 2)
    have rb := build_range b (build a (n + 2)).next
    have hna := build_next_gt a (n + 2)
    unfold InRange at hq ra rb
    simp only [build] at hq
    have fin : (build (.alt a b) n).final = n + 1 := rfl
    have toFinalA : ∀ q w, Path m (build a (n + 2)).edges q w (build a (n + 2)).final →
        Path m (build (.alt a b) n).edges q (w ++ []) (n + 1) := by
      intro q w p
      exact (p.mono m (es' := (build (.alt a b) n).edges) (by intro e he; simp [build, he])).trans m
        (Path.single_eps m (by simp [build]))
    have toFinalB : ∀ q w, Path m (build b (build a (n + 2)).next).edges q w (build b (build a (n + 2)).next).final →
        Path m (build (.alt a b) n).edges q (w ++ []) (n + 1) := by
      intro q w p
      exact (p.mono m (es' := (build (.alt a b) n).edges) (by intro e he; simp [build, he])).trans m
        (Path.single_eps m (by simp [build]))
    by_cases h0 : q = n
    · rw [h0]
      obtain ⟨w, p⟩ := iha (n + 2) _ ra.1
      exact ⟨w ++ [], .eps (q := (build a (n + 2)).start) (by simp [build]) (toFinalA _ _ p)⟩
    · by_cases h1 : q = n + 1
      · rw [h1]; exact ⟨[], .nil _⟩
      · by_cases h : q < (build a (n + 2)).next
        · obtain ⟨w, p⟩ := iha (n + 2) q ⟨by omega, h⟩
          exact ⟨w ++ [], toFinalA _ _ p⟩
        · obtain ⟨w, p⟩ := ihb (build a (n + 2)).next q ⟨by omega, hq.2⟩
          exact ⟨w ++ [], toFinalB _ _ p⟩
  | star e ih =>
    intro n q hq
    have re := build_range e (n + 2)
    unfold InRange at hq re
    simp only [build] at hq
    by_cases h0 : q = n
    · rw [h0]; exact ⟨[], .eps (q := n + 1) (by simp [build]) (.nil _)⟩
    · by_cases h1 : q = n + 1
      · rw [h1]; exact ⟨[], .nil _⟩
      · obtain ⟨w, p⟩ := ih (n + 2) q ⟨by omega, hq.2⟩
        exact ⟨w ++ [], (p.mono m (es' := (build (.star e) n).edges) (by intro e' he; simp [build, he])).trans m
          (Path.single_eps m (by simp [build]))⟩

end Generic
end VC2.Proofs.SymRe
