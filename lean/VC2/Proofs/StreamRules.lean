/- `StreamSpec.conformant` is the conjunction of the eight independent rules of `StreamRules`. -/
import VC2.Model.StreamRules
namespace VC2.Proofs.StreamRules
open VC2 VC2.Model.SymRe VC2.Model.Stream VC2.Model.StreamSpec VC2.Model.StreamRules

/-- the rules inside a sequence, each started from its own part of the context -/
def rulesIn (cfg : Config) (c : Ctx) (us : List DUnit) : Bool :=
  shapeRule true us && offsetsRule (some (c.prevLen, c.prevNext)) us && headersRule (some c.hdr) us &&
  codesRule (some c.hdr) us && numbersRule (some (c.hdr, c.lastNum, c.npics)) us &&
  fragmentsRule cfg (some c.frag) us && versionRule (some (c.hdr, c.need, c.npics)) us &&
  patternsRule cfg (some (c.generic, c.level)) us

theorem spec_eq_rules (cfg : Config) : ∀ (us : List DUnit),
    specRun cfg none us = allRules cfg us ∧ ∀ c, specRun cfg (some c) us = rulesIn cfg c us := by
  intro us
  induction us with
  | nil =>
    refine ⟨by simp [specRun, allRules, shapeRule, offsetsRule, headersRule, codesRule, numbersRule, fragmentsRule, versionRule, patternsRule], ?_⟩
    intro c
    simp [specRun, rulesIn, shapeRule]
  | cons u rest ih =>
    obtain ⟨ih0, ih1⟩ := ih
    constructor
    · -- between sequences
      unfold allRules
      conv => lhs; unfold specRun
      simp only [shapeRule, offsetsRule, headersRule, codesRule, numbersRule, fragmentsRule, versionRule, patternsRule]
      cases hg : (Matcher.init false genericPattern).matchSymbol (codeName u.code) with
      | none => simp
      | some g =>
        cases hl : (Matcher.init false cfg.levelPattern).matchSymbol (codeName u.code) with
        | none => simp
        | some l =>
          simp only [ih1, rulesIn, firstCtx, headOk]
          rw [Bool.eq_iff_iff]
          simp only [Bool.and_eq_true, beq_iff_eq, decide_eq_true_eq]
          grind
    · intro c
      unfold rulesIn
      conv => lhs; unfold specRun
      simp only [shapeRule, offsetsRule, headersRule, codesRule, numbersRule, fragmentsRule, versionRule, patternsRule]
      cases hg : c.generic.matchSymbol (codeName u.code) with
      | none => simp
      | some g =>
        cases hl : c.level.matchSymbol (codeName u.code) with
        | none => simp
        | some l =>
          simp only [ih0, ih1, rulesIn, allRules, nextCtx, unitOk, pendingOk, pictureOk, numberOk, endOk, nextFrag]
          cases hk : u.kind <;> simp only [startsPicture, hk] <;>
            (rw [Bool.eq_iff_iff]; simp only [Bool.and_eq_true, Bool.or_eq_true, beq_iff_eq, decide_eq_true_eq, bne_iff_ne, ne_eq,
              reduceCtorEq, not_false_eq_true, not_true_eq_false, if_true, if_false, Bool.not_eq_true', Bool.true_and, Bool.and_true,
              Bool.false_or, Bool.or_false, Option.isNone_iff_eq_none]) <;>
            grind

end VC2.Proofs.StreamRules
