/- Helper lemmas for C23 (raw picture file format and comparison).  Core Lean only. -/
import VC2.Model.FileFormat
import VC2.Prelude
namespace VC2.Proofs.FileFormat
open VC2 VC2.Model.FileFormat


theorem packSample_length (n v : Nat) : (packSample n v).length = n := by
  induction n generalizing v with
  | zero => rfl
  | succ n ih => simp [packSample, ih]

/-- a sample of at most `d` bits written into `n ≥ ⌈d/8⌉` bytes is read back exactly -/
theorem unpack_pack : ∀ (n d v : Nat), v < 2 ^ d → d ≤ 8 * n → unpackSample d (packSample n v) = v := by
  intro n
  induction n with
  | zero =>
    intro d v hv hd
    have : d = 0 := by omega
    subst this
    simp at hv; subst hv; rfl
  | succ n ih =>
    intro d v hv hd
    simp only [packSample, unpackSample]
    split
    · rename_i h8
      have hv' : v / 256 < 2 ^ (d - 8) := by
        have : 2 ^ d = 2 ^ (d - 8) * 256 := by
          have : d = (d - 8) + 8 := by omega
          conv => lhs; rw [this, Nat.pow_add]
        rw [this] at hv
        exact Nat.div_lt_of_lt_mul (by rwa [Nat.mul_comm] at hv)
      rw [ih (d - 8) (v / 256) hv' (by omega)]
      omega
    · rename_i h8
      have hd8 : d < 8 := by omega
      have : 2 ^ d ≤ 256 := by
        have : (256 : Nat) = 2 ^ 8 := by decide
        rw [this]; exact Nat.pow_le_pow_right (by omega) (by omega)
      have hv256 : v < 256 := by omega
      rw [Nat.mod_eq_of_lt hv256, Nat.mod_eq_of_lt hv]

theorem two_pow_intlog2_ge (n : Nat) (hn : 1 ≤ n) : n ≤ 2 ^ (VC2.Gen.intlog2 (n : Int)).toNat := by
  unfold VC2.Gen.intlog2 bitLength
  by_cases h1 : n = 1
  · subst h1; simp
  · have hne : ((n : Int) - 1) ≠ 0 := by omega
    have hab : ((n : Int) - 1).natAbs = n - 1 := by omega
    simp only [hne, if_false, hab, Int.toNat_natCast]
    have := @Nat.lt_log2_self (n - 1)
    omega

theorem two_pow_intlog2_lt (n : Nat) (hn : 2 ≤ n) : 2 ^ (VC2.Gen.intlog2 (n : Int)).toNat < 2 * n := by
  unfold VC2.Gen.intlog2 bitLength
  have hne : ((n : Int) - 1) ≠ 0 := by omega
  have hab : ((n : Int) - 1).natAbs = n - 1 := by omega
  simp only [hne, if_false, hab, Int.toNat_natCast]
  have := Nat.log2_self_le (n := n - 1) (by omega)
  rw [Nat.pow_succ]; omega

/-- the file format's bytes per sample hold the whole sample … -/
theorem bytesPerSample_holds (d : Nat) (hd : 1 ≤ d) : d ≤ 8 * bytesPerSample d := by
  unfold bytesPerSample
  have := two_pow_intlog2_ge ((d + 7) / 8) (by omega)
  omega

/-- … are a power of two, and the least one that does -/
theorem bytesPerSample_least (d : Nat) (hd : 9 ≤ d) : 8 * bytesPerSample d < 2 * (d + 7) := by
  unfold bytesPerSample
  have := two_pow_intlog2_lt ((d + 7) / 8) (by omega)
  omega

theorem bytesPerSample_small (d : Nat) (hd : 1 ≤ d) (h8 : d ≤ 8) : bytesPerSample d = 1 := by
  unfold bytesPerSample
  have : (d + 7) / 8 = 1 := by omega
  rw [this]; decide

theorem chunk_flatMap {α β : Type} (n : Nat) (f : α → List β) (hf : ∀ x, (f x).length = n) :
    ∀ (xs : List α) (rest : List β), chunk n xs.length (xs.flatMap f ++ rest) = xs.map f := by
  intro xs
  induction xs with
  | nil => intro rest; rfl
  | cons x xs ih =>
    intro rest
    simp only [List.flatMap_cons, List.length_cons, chunk, List.map_cons, List.append_assoc]
    rw [List.take_left' (hf x), List.drop_left' (hf x), ih]

theorem flatMap_length_const {α β : Type} (n : Nat) (f : α → List β) (hf : ∀ x, (f x).length = n) :
    ∀ xs : List α, (xs.flatMap f).length = xs.length * n := by
  intro xs
  induction xs with
  | nil => simp
  | cons x xs ih => simp [List.flatMap_cons, ih, hf, Nat.succ_mul]; omega

/-- a picture component is well-formed for its dimensions: h rows of w samples below 2^depth -/
def PlaneOk (c : Dim) (rows : List (List Nat)) : Prop :=
  rows.length = c.h ∧ ∀ r ∈ rows, r.length = c.w ∧ ∀ v ∈ r, v < 2 ^ c.depth

theorem map_unpack_pack (c : Dim) (hd : 1 ≤ c.depth) (r : List Nat) (hr : ∀ v ∈ r, v < 2 ^ c.depth) :
    (r.map (packSample c.bps)).map (unpackSample c.depth) = r := by
  induction r with
  | nil => rfl
  | cons v vs ih =>
    simp only [List.map_cons]
    rw [unpack_pack c.bps c.depth v (hr v List.mem_cons_self) (bytesPerSample_holds c.depth hd),
      ih (fun x hx => hr x (List.mem_cons_of_mem _ hx))]

theorem readPlane_writePlane (c : Dim) (hd : 1 ≤ c.depth) (rows : List (List Nat)) (h : PlaneOk c rows)
    (rest : List Nat) : readPlane c (writePlane c rows ++ rest) = rows := by
  obtain ⟨hh, hrows⟩ := h
  unfold readPlane writePlane
  have hrowlen : ∀ r ∈ rows, (r.flatMap (packSample c.bps)).length = c.w * c.bps := by
    intro r hr
    rw [flatMap_length_const c.bps _ (fun v => packSample_length _ v), (hrows r hr).1]
  -- rows all have the same encoded length, but only for members: go by induction instead
  rw [← hh]
  clear hrowlen hh
  induction rows generalizing rest with
  | nil => rfl
  | cons r rs ih =>
    have hr := hrows r List.mem_cons_self
    have hlen : (r.flatMap (packSample c.bps)).length = c.w * c.bps := by
      rw [flatMap_length_const c.bps _ (fun v => packSample_length _ v), hr.1]
    simp only [List.flatMap_cons, List.length_cons, chunk, List.map_cons, List.append_assoc]
    rw [List.take_left' hlen, List.drop_left' hlen]
    have ih' := ih rest (fun x hx => hrows x (List.mem_cons_of_mem _ hx))
    rw [ih']
    congr 1
    have := chunk_flatMap c.bps (packSample c.bps) (fun v => packSample_length _ v) r []
    rw [List.append_nil, hr.1] at this
    rw [this]
    exact map_unpack_pack c hd r hr.2

theorem writePlane_length (c : Dim) (rows : List (List Nat)) (h : PlaneOk c rows) :
    (writePlane c rows).length = c.size := by
  obtain ⟨hh, hrows⟩ := h
  unfold writePlane Dim.size
  rw [← hh]
  clear hh
  induction rows with
  | nil => simp
  | cons r rs ih =>
    have hr := hrows r List.mem_cons_self
    simp only [List.flatMap_cons, List.length_append, List.length_cons]
    rw [ih (fun x hx => hrows x (List.mem_cons_of_mem _ hx)),
      flatMap_length_const c.bps _ (fun v => packSample_length _ v), hr.1]
    rw [Nat.succ_mul, Nat.add_mul]; omega

/-- the picture has one well-formed plane per component -/
def PictureOk : List Dim → List (List (List Nat)) → Prop
  | [], [] => True
  | c :: cs, p :: ps => 1 ≤ c.depth ∧ PlaneOk c p ∧ PictureOk cs ps
  | _, _ => False

theorem readPicture_writePicture : ∀ (cs : List Dim) (ps : List (List (List Nat))),
    PictureOk cs ps → readPicture cs (writePicture cs ps) = ps := by
  intro cs
  induction cs with
  | nil => intro ps h; cases ps with
    | nil => rfl
    | cons p ps => exact h.elim
  | cons c cs ih =>
    intro ps h
    cases ps with
    | nil => exact h.elim
    | cons p ps =>
      obtain ⟨hd, hp, hrest⟩ := h
      simp only [writePicture, readPicture]
      have hl := writePlane_length c p hp
      rw [List.take_left' hl, List.drop_left' hl, ih ps hrest]
      have := readPlane_writePlane c hd p hp []
      rw [List.append_nil] at this
      rw [this]

/-! ### comparison -/

theorem mul_self_nonneg' (d : Int) : 0 ≤ d * d := by
  rcases Int.le_total 0 d with h | h
  · exact Int.mul_nonneg h h
  · have := Int.mul_nonneg (Int.neg_nonneg_of_nonpos h) (Int.neg_nonneg_of_nonpos h)
    rwa [Int.neg_mul_neg] at this

theorem sum_sq_eq_zero : ∀ (ds : List Int), (ds.map (fun d => d * d)).sum = 0 ↔ ∀ d ∈ ds, d = 0 := by
  intro ds
  induction ds with
  | nil => simp
  | cons d ds ih =>
    simp only [List.map_cons, List.sum_cons, List.mem_cons, forall_eq_or_imp]
    have h1 : 0 ≤ d * d := mul_self_nonneg' d  
    have h2 : 0 ≤ (ds.map (fun d => d * d)).sum := by
      clear ih
      induction ds with
      | nil => simp
      | cons e es ihe => simp only [List.map_cons, List.sum_cons]; have := mul_self_nonneg' e; omega
    constructor
    · intro h
      have hd : d * d = 0 := by omega
      have hs : (ds.map (fun d => d * d)).sum = 0 := by omega
      exact ⟨by rcases Int.mul_eq_zero.1 hd with h | h <;> exact h, ih.1 hs⟩
    · rintro ⟨hd, hs⟩
      rw [hd, ih.2 hs]; rfl

theorem planeIdentical_iff (ds : List Int) : planeIdentical ds = true ↔ ∀ d ∈ ds, d = 0 := by
  unfold planeIdentical
  rw [beq_iff_eq]
  exact sum_sq_eq_zero ds

theorem countNonzero_zero_iff (ds : List Int) : countNonzero ds = 0 ↔ ∀ d ∈ ds, d = 0 := by
  unfold countNonzero
  rw [List.length_eq_zero_iff, List.filter_eq_nil_iff]
  simp

theorem deltas_zero_iff : ∀ (a b : List Int), a.length = b.length →
    ((∀ d ∈ deltas a b, d = 0) ↔ a = b) := by
  intro a
  induction a with
  | nil => intro b h; cases b with
    | nil => simp [deltas]
    | cons _ _ => simp at h
  | cons x xs ih =>
    intro b h
    cases b with
    | nil => simp at h
    | cons y ys =>
      simp only [List.length_cons, Nat.add_right_cancel_iff] at h
      simp only [deltas, List.zipWith_cons_cons, List.mem_cons, forall_eq_or_imp, List.cons.injEq]
      have := ih ys h
      unfold deltas at this
      rw [this]
      constructor
      · rintro ⟨h1, h2⟩; exact ⟨by omega, h2⟩
      · rintro ⟨h1, h2⟩; exact ⟨by omega, h2⟩

/-- the differing-pixel count is the number of positions whose samples differ -/
theorem countNonzero_deltas : ∀ (a b : List Int),
    countNonzero (deltas a b) = ((a.zip b).filter (fun p => p.1 ≠ p.2)).length := by
  intro a
  induction a with
  | nil => intro b; simp [deltas, countNonzero]
  | cons x xs ih =>
    intro b
    cases b with
    | nil => simp [deltas, countNonzero]
    | cons y ys =>
      have := ih ys
      unfold countNonzero deltas at this ⊢
      simp only [List.zipWith_cons_cons, List.zip_cons_cons, List.filter_cons]
      by_cases hxy : x = y
      · subst hxy; simp; simpa using this
      · have h1 : y - x ≠ 0 := by omega
        simp [h1, hxy]; simpa using this

end VC2.Proofs.FileFormat
