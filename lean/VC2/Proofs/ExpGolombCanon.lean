/- Canonicity of the interleaved exp-Golomb codes (C06): whatever bits `read_uint` / `read_sint`
   consume, `write_uint` / `write_sint` of the value read writes exactly those bits. -/
import VC2.Proofs.SerdesComplete
namespace VC2.Proofs.Serdes
open VC2 VC2.Model.Serdes VC2.Model.BitIO VC2.Proofs.BitIO

theorem readBit_inv (all : List Bool) (pos : Nat) (b : Bool) (r' : Reader)
    (h : ({ all := all, pos := pos } : Reader).readBit = .ok (b, r')) :
    all[pos]? = some b ∧ r' = { all := all, pos := pos + 1 } := by
  simp only [Reader.readBit, Reader.rawBit] at h
  cases hg : all[pos]? with
  | none => rw [hg] at h; cases h
  | some x =>
    rw [hg] at h; simp only at h
    injection h with h
    injection h with h1 h2
    exact ⟨by rw [h1], h2.symm⟩

theorem take_succ_of_getElem? (l : List Bool) (pos n : Nat) (b : Bool) (h : l[pos]? = some b) :
    (l.drop pos).take (n + 1) = b :: (l.drop (pos + 1)).take n := by
  obtain ⟨hlt, hb⟩ := List.getElem?_eq_some_iff.1 h
  rw [List.drop_eq_getElem_cons hlt, List.take_succ_cons, hb]

/-- the loop of `read_uint`, read backwards: the bits it consumed are the interleaved code of the
    value it returns, whose leading part is the accumulator it started from -/
theorem readUintLoop_canon : ∀ (fuel : Nat) (all : List Bool) (pos value v : Nat) (r' : Reader),
    Reader.readUintLoop fuel { all := all, pos := pos } value = .ok (v, r') →
    ∃ j, r' = { all := all, pos := pos + (2 * j + 1) } ∧
      (all.drop pos).take (2 * j + 1) = encPairs v j ++ [true] ∧ v / 2 ^ j = value := by
  intro fuel
  induction fuel with
  | zero => intro all pos value v r' h; simp [Reader.readUintLoop] at h
  | succ fuel ih =>
    intro all pos value v r' h
    simp only [Reader.readUintLoop, bind, Except.bind] at h
    cases h1 : ({ all := all, pos := pos } : Reader).readBit with
    | error e => rw [h1] at h; cases h
    | ok q =>
      obtain ⟨b, r1⟩ := q
      rw [h1] at h; simp only at h
      obtain ⟨g1, e1⟩ := readBit_inv all pos b r1 h1
      subst e1
      cases b with
      | true =>
        simp [pure, Except.pure] at h
        obtain ⟨hv, hr⟩ := h
        subst hv
        refine ⟨0, by rw [← hr], ?_, by simp⟩
        rw [take_succ_of_getElem? all pos 0 true g1]; simp [encPairs]
      | false =>
        simp only [Bool.false_eq_true, if_false] at h
        cases h2 : ({ all := all, pos := pos + 1 } : Reader).readBit with
        | error e => rw [h2] at h; cases h
        | ok q2 =>
          obtain ⟨b2, r2⟩ := q2
          rw [h2] at h; simp only at h
          obtain ⟨g2, e2⟩ := readBit_inv all (pos + 1) b2 r2 h2
          subst e2
          obtain ⟨j, hr, htake, hdiv⟩ := ih all (pos + 1 + 1) _ v r' h
          refine ⟨j + 1, by rw [hr]; congr 1; omega, ?_, ?_⟩
          · have e : 2 * (j + 1) + 1 = (2 * j + 1 + 1) + 1 := by omega
            rw [e, take_succ_of_getElem? all pos _ false g1, take_succ_of_getElem? all (pos + 1) _ b2 g2, htake]
            simp only [encPairs, List.cons_append, List.cons.injEq, true_and]
            refine ⟨?_, trivial⟩
            -- bit j of v is b2
            have hb := bit_eq v j
            rw [hdiv] at hb
            cases b2 <;> cases ht : v.testBit j <;> simp [ht] at hb ⊢ <;> omega
          · rw [Nat.pow_succ, ← Nat.div_div_eq_div_mul, hdiv]
            cases b2 <;> simp <;> omega

theorem log2_of_div (v j : Nat) (h : v / 2 ^ j = 1) : Nat.log2 v = j := by
  have hpos : 0 < 2 ^ j := Nat.two_pow_pos j
  have h1 : 2 ^ j ≤ v := by
    have := Nat.div_mul_le_self v (2 ^ j); rw [h] at this; omega
  have h2 : v < 2 ^ (j + 1) := by
    have := Nat.lt_succ_iff.2 (Nat.le_refl (v / 2 ^ j))
    rw [Nat.pow_succ]
    have := Nat.div_lt_iff_lt_mul (x := v) (y := 2) hpos
    omega
  have hv : v ≠ 0 := by omega
  have a := (Nat.le_log2 hv).2 h1
  have b := (Nat.log2_lt hv).2 h2
  omega

theorem writeUint_fresh (x : Nat) :
    (({} : Writer).writeUint (x : Int)) = .ok { out := encodeUint x, rem := none } := by
  unfold Writer.writeUint
  rw [if_neg (by omega), writeBits_free _ _ rfl]
  simp

/-- `read_uint` is canonical -/
theorem readUint_canon (bits : List Bool) (x : Int) (r' : Reader)
    (h : ({ all := bits, pos := 0 } : Reader).readUint = .ok (x, r')) :
    ∃ n : Nat, x = (n : Int) ∧ r' = { all := bits, pos := (encodeUint n).length } ∧
      bits = encodeUint n ++ bits.drop (encodeUint n).length := by
  simp only [Reader.readUint, bind, Except.bind] at h
  cases hl : Reader.readUintLoop ({ all := bits, pos := 0 } : Reader).fuel { all := bits, pos := 0 } 1 with
  | error e => rw [hl] at h; cases h
  | ok q =>
    obtain ⟨v, r1⟩ := q
    rw [hl] at h; simp [pure, Except.pure] at h
    obtain ⟨hx, hr⟩ := h
    obtain ⟨j, hr1, htake, hdiv⟩ := readUintLoop_canon _ bits 0 1 v r1 hl
    have hlog := log2_of_div v j hdiv
    have hv1 : 1 ≤ v := by
      have : 2 ^ j ≤ v := by
        have := Nat.div_mul_le_self v (2 ^ j); rw [hdiv] at this; omega
      have := Nat.two_pow_pos j; omega
    have henc : encodeUint (v - 1) = encPairs v j ++ [true] := by
      unfold encodeUint
      have : v - 1 + 1 = v := by omega
      rw [this, hlog]
    have hlen : (encodeUint (v - 1)).length = 2 * j + 1 := by
      rw [henc]; simp [encPairs_length]
    refine ⟨v - 1, by rw [← hx]; omega, ?_, ?_⟩
    · rw [← hr, hr1, hlen]; simp
    · rw [hlen]
      simp only [List.drop_zero] at htake
      rw [henc, ← htake, List.take_append_drop]

theorem bitCodec_complete_uint : CompleteAt bitCodec .uint := by
  intro bits v rest h
  simp only [bitCodec, decBits] at h
  cases hr : ({ all := bits, pos := 0 } : Reader).readUint with
  | error e => rw [hr] at h; cases h
  | ok q =>
    obtain ⟨x, r'⟩ := q
    rw [hr] at h; simp only [Option.some.injEq, Prod.mk.injEq] at h
    obtain ⟨hv, hrest⟩ := h
    obtain ⟨n, hx, hr', hbits⟩ := readUint_canon bits x r' hr
    refine ⟨encodeUint n, ?_, ?_⟩
    · subst hv; subst hx
      simp only [bitCodec, encBits, writeUint_fresh]
    · rw [← hrest, hr']; exact hbits

theorem writeSint_fresh (x : Int) :
    (({} : Writer).writeSint x) = .ok { out := encodeSint x, rem := none } := by
  unfold Writer.writeSint
  have e : pyabs x = ((x.natAbs : Nat) : Int) := by unfold pyabs; split <;> omega
  rw [e, writeUint_fresh]
  simp only [bind, Except.bind, encodeSint]
  by_cases hx : x = 0
  · simp [hx, pure, Except.pure]
  · simp only [hx, ne_eq, not_false_eq_true, if_true, if_false]
    unfold Writer.writeBit; simp

theorem bitCodec_complete_sint : CompleteAt bitCodec .sint := by
  intro bits v rest h
  simp only [bitCodec, decBits] at h
  cases hr : ({ all := bits, pos := 0 } : Reader).readSint with
  | error e => rw [hr] at h; cases h
  | ok q =>
    obtain ⟨x, r'⟩ := q
    rw [hr] at h; simp only [Option.some.injEq, Prod.mk.injEq] at h
    obtain ⟨hv, hrest⟩ := h
    subst hv
    simp only [Reader.readSint, bind, Except.bind] at hr
    cases hu : ({ all := bits, pos := 0 } : Reader).readUint with
    | error e => rw [hu] at hr; cases hr
    | ok q1 =>
      obtain ⟨u, r1⟩ := q1
      rw [hu] at hr; simp only at hr
      obtain ⟨n, hun, hr1, hbits⟩ := readUint_canon bits u r1 hu
      subst hun
      by_cases hn : (n : Int) = 0
      · rw [if_neg (by simpa using hn)] at hr
        simp [pure, Except.pure] at hr
        obtain ⟨e1, e2⟩ := hr
        have hn0 : n = 0 := by omega
        refine ⟨encodeSint x, by simp only [bitCodec, encBits, writeSint_fresh], ?_⟩
        rw [← hrest, ← e2, hr1, ← e1]
        simp only [encodeSint, hn0]
        simp
        rw [hn0] at hbits; simpa using hbits
      · rw [if_pos (by simpa using hn)] at hr
        subst hr1
        cases hb : ({ all := bits, pos := (encodeUint n).length } : Reader).readBit with
        | error e => rw [hb] at hr; cases hr
        | ok q2 =>
          obtain ⟨b, r2⟩ := q2
          rw [hb] at hr; simp [pure, Except.pure] at hr
          obtain ⟨e1, e2⟩ := hr
          obtain ⟨g, er2⟩ := readBit_inv bits _ b r2 hb
          refine ⟨encodeSint x, by simp only [bitCodec, encBits, writeSint_fresh], ?_⟩
          rw [← hrest, ← e2, er2]
          have hxabs : x.natAbs = n := by rw [← e1]; cases b <;> simp
          have hx0 : x ≠ 0 := by rw [← e1]; cases b <;> simp <;> omega
          have hsign : decide (x < 0) = b := by
            rw [← e1]; cases b <;> simp <;> omega
          simp only [encodeSint, hxabs, hx0, if_false, hsign]
          obtain ⟨hlt, hbb⟩ := List.getElem?_eq_some_iff.1 g
          conv => lhs; rw [hbits]
          rw [List.append_assoc]
          congr 1
          rw [List.drop_eq_getElem_cons hlt, hbb]
          rfl

end VC2.Proofs.Serdes
