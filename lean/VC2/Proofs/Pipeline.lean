/- The composed component pipeline is the identity at quantisation index 0 (C04). -/
import VC2.Model.Pipeline
import VC2.Props.C04
namespace VC2.Proofs.Pipeline
open VC2 VC2.Model.Wavelet VC2.Model.Picture VC2.Model.Pipeline

theorem mapAll_id (g : Int → Int) (hg : ∀ v, g v = v) (a : VC2.Model.Wavelet.Arr) : mapAll g a = a := by
  cases a with
  | mk h w f => simp only [mapAll]; congr; funext y x; exact hg _

theorem mapAll_comp (g1 g2 : Int → Int) (a : VC2.Model.Wavelet.Arr) : mapAll g1 (mapAll g2 a) = mapAll (fun v => g1 (g2 v)) a := rfl

theorem mapCoeffs_comp_id (g1 g2 : Int → Int) (hg : ∀ v, g1 (g2 v) = v) (c : Coeffs) :
    mapCoeffs g1 (mapCoeffs g2 c) = c := by
  cases c with
  | mk dc ho full =>
    simp only [mapCoeffs, List.map_map]
    congr
    · rw [mapAll_comp]; exact mapAll_id _ hg dc
    · conv => rhs; rw [← List.map_id ho]
      apply List.map_congr_left
      intro a _
      simp only [Function.comp]
      rw [mapAll_comp]; exact mapAll_id _ hg a
    · conv => rhs; rw [← List.map_id full]
      apply List.map_congr_left
      intro b _
      obtain ⟨b1, b2, b3⟩ := b
      simp only [Function.comp, id]
      rw [mapAll_comp, mapAll_comp, mapAll_comp, mapAll_id _ hg, mapAll_id _ hg, mapAll_id _ hg]

theorem onDc_inverse (c : Coeffs) : onDc dcPrediction (onDc applyDcPrediction c) = c := by
  cases c with
  | mk dc ho full =>
    cases dc with
    | mk h w f =>
      simp only [onDc]
      congr
      funext y x
      exact VC2.Props.C04.dc_prediction_inverse w h f y x

/-- **decode ∘ encode = identity at quantisation index 0**, for one component -/
theorem component_round_trip (depth : Nat) (hd : 1 ≤ depth) (fv fho : Filter) (dho d : Nat) (a : VC2.Model.Wavelet.Arr)
    (ph pw : Nat) (ld : Bool) (hh1 : 1 ≤ a.h) (hw1 : 1 ≤ a.w) (hph : a.h ≤ ph) (hpw : a.w ≤ pw)
    (hh : ph % 2 ^ d = 0) (hw : pw % 2 ^ (d + dho) = 0)
    (hrange : ∀ y x, y < a.h → x < a.w → 0 ≤ a.f y x ∧ a.f y x ≤ 2 ^ depth - 1) :
    (decodeComponent depth fv fho ld 0 a.h a.w (encodeComponent depth fv fho dho d ph pw ld 0 a)).Eq a := by
  unfold decodeComponent encodeComponent
  simp only
  rw [mapCoeffs_comp_id _ _ VC2.Props.C04.unquantised_coefficients_exact]
  have hc : (if ld = true then onDc dcPrediction
        (if ld = true then onDc applyDcPrediction (dwt fv fho dho d (padAddition (mapAll (removeOffsetSample depth) a) ph pw))
         else dwt fv fho dho d (padAddition (mapAll (removeOffsetSample depth) a) ph pw))
      else (if ld = true then onDc applyDcPrediction (dwt fv fho dho d (padAddition (mapAll (removeOffsetSample depth) a) ph pw))
         else dwt fv fho dho d (padAddition (mapAll (removeOffsetSample depth) a) ph pw)))
      = dwt fv fho dho d (padAddition (mapAll (removeOffsetSample depth) a) ph pw) := by
    cases ld
    · simp
    · simp only [if_true]; exact onDc_inverse _
  rw [hc]
  have ht := VC2.Props.C04.transform_inverse fv fho dho d (mapAll (removeOffsetSample depth) a) ph pw hh1 hw1 hph hpw hh hw
  obtain ⟨e1, e2, e3⟩ := ht
  refine ⟨e1, e2, ?_⟩
  intro y x hy hx
  have hy' : y < (padRemoval (idwt fv fho (dwt fv fho dho d (padAddition (mapAll (removeOffsetSample depth) a) ph pw))) (mapAll (removeOffsetSample depth) a).h (mapAll (removeOffsetSample depth) a).w).h := hy
  have hx' : x < (padRemoval (idwt fv fho (dwt fv fho dho d (padAddition (mapAll (removeOffsetSample depth) a) ph pw))) (mapAll (removeOffsetSample depth) a).h (mapAll (removeOffsetSample depth) a).w).w := hx
  have e := e3 y x hy' hx'
  show offsetSample depth (clipSample depth ((padRemoval (idwt fv fho (dwt fv fho dho d (padAddition (mapAll (removeOffsetSample depth) a) ph pw))) a.h a.w).f y x)) = a.f y x
  have e' : (padRemoval (idwt fv fho (dwt fv fho dho d (padAddition (mapAll (removeOffsetSample depth) a) ph pw))) a.h a.w).f y x
      = removeOffsetSample depth (a.f y x) := e
  rw [e']
  have hya : y < a.h := by
    have : (mapAll (removeOffsetSample depth) a).h = a.h := rfl
    rw [e1] at hy'; exact hy'
  have hxa : x < a.w := by rw [e2] at hx'; exact hx'
  obtain ⟨r0, r1⟩ := hrange y x hya hxa
  exact VC2.Props.C04.sample_pipeline_identity depth hd (a.f y x) r0 r1

end VC2.Proofs.Pipeline
