/-
  C19: soundness of the queue search `make_matching_sequence` (model: VC2.Model.SymRe.search).
-/
import VC2.Props.C18
namespace VC2.Proofs.SymRe
open VC2 VC2.Model.SymRe

theorem run_snoc : ∀ (w : List String) (mt : Matcher) (a : String),
    mt.run (w ++ [a]) = (mt.run w).bind (·.matchSymbol a) := by
  intro w
  induction w with
  | nil => intro mt a; simp [Matcher.run]
  | cons b w ih =>
    intro mt a
    simp only [List.cons_append, Matcher.run]
    cases mt.matchSymbol b with
    | none => simp
    | some mt1 => simp only [Option.bind_some]; exact ih mt1 a

/-- a symbol that is listed (itself or through the wildcard) is accepted -/
theorem accept_of_listed (p : Ast) (w : List String) (mt : Matcher)
    (hrun : (Matcher.init false p).run w = some mt) (a : String) (ha : a ≠ END)
    (hl : mt.validNext.contains a = true ∨ mt.validNext.contains WILDCARD = true) :
    (mt.matchSymbol a).isSome = true := by
  apply (VC2.Props.C18.valid_next_exact p w mt hrun a ha).1.1
  rcases hl with h | h
  · exact ⟨a, by simpa using h, by simp [labelMatches]⟩
  · exact ⟨WILDCARD, by simpa using h, by simp [labelMatches]⟩

/-- matcher states are exactly the result of running each pattern on `w` -/
def StatesOf (pats : List Ast) (w : List String) (ms : List Matcher) : Prop :=
  pats.map (fun p => (Matcher.init false p).run w) = ms.map some

theorem statesOf_step : ∀ (pats : List Ast) (w : List String) (ms : List Matcher) (a : String),
    StatesOf pats w ms → (∀ mt ∈ ms, (mt.matchSymbol a).isSome = true) →
    StatesOf pats (w ++ [a]) (stepAll ms a) := by
  intro pats
  induction pats with
  | nil =>
    intro w ms a h _
    cases ms with
    | nil => simp [StatesOf, stepAll]
    | cons _ _ => simp [StatesOf] at h
  | cons p ps ih =>
    intro w ms a h hacc
    cases ms with
    | nil => simp [StatesOf] at h
    | cons mt ms =>
      simp only [StatesOf, List.map_cons, List.cons.injEq] at h
      have h1 := ih w ms a h.2 (fun m hm => hacc m (List.mem_cons_of_mem _ hm))
      simp only [StatesOf, stepAll, List.map_cons, List.cons.injEq] at h1 ⊢
      refine ⟨?_, h1⟩
      rw [run_snoc, h.1]
      simp only [Option.bind_some]
      have := hacc mt List.mem_cons_self
      cases hm : mt.matchSymbol a with
      | none => rw [hm] at this; cases this
      | some mt' => simp

theorem mem_insertStr (acc : List String) (x y : String) : y ∈ insertStr acc x ↔ y ∈ acc ∨ y = x := by
  unfold insertStr
  by_cases h : acc.contains x = true
  · rw [if_pos h]
    constructor
    · exact Or.inl
    · rintro (h1 | h1)
      · exact h1
      · subst h1; simpa using h
  · rw [if_neg h]; simp

theorem mem_foldl_insertStr (xs : List String) : ∀ (acc : List String) (y : String),
    y ∈ xs.foldl insertStr acc ↔ y ∈ acc ∨ y ∈ xs := by
  induction xs with
  | nil => intro acc y; simp
  | cons x xs ih =>
    intro acc y
    simp only [List.foldl_cons, ih, mem_insertStr, List.mem_cons]
    constructor
    · rintro ((h | h) | h)
      · exact Or.inl h
      · exact Or.inr (Or.inl h)
      · exact Or.inr (Or.inr h)
    · rintro (h | h | h)
      · exact Or.inl (Or.inl h)
      · exact Or.inl (Or.inr h)
      · exact Or.inr h

theorem mem_insertSorted (x : String) : ∀ (l : List String) (y : String),
    y ∈ insertSorted x l ↔ y = x ∨ y ∈ l := by
  intro l
  induction l with
  | nil => intro y; simp [insertSorted]
  | cons z zs ih =>
    intro y
    simp only [insertSorted]
    split
    · simp
    · simp only [List.mem_cons, ih]
      constructor
      · rintro (h | h | h)
        · exact Or.inr (Or.inl h)
        · exact Or.inl h
        · exact Or.inr (Or.inr h)
      · rintro (h | h | h)
        · exact Or.inr (Or.inl h)
        · exact Or.inl h
        · exact Or.inr (Or.inr h)

theorem mem_sortStrs (l : List String) (y : String) : y ∈ sortStrs l ↔ y ∈ l := by
  unfold sortStrs
  induction l with
  | nil => simp
  | cons x xs ih => simp only [List.foldr_cons, mem_insertSorted, ih, List.mem_cons]

/-- what the candidate combination guarantees: every candidate is listed by every matcher
    (itself or through the wildcard), the wildcard survives only if every matcher lists it, and
    the end marker is never a candidate -/
def CandOk (ms : List Matcher) (cand : List String) : Prop :=
  (∀ c ∈ cand, ∀ m ∈ ms, m.validNext.contains c = true ∨ m.validNext.contains WILDCARD = true) ∧
  (WILDCARD ∈ cand → ∀ m ∈ ms, m.validNext.contains WILDCARD = true) ∧
  (∀ c ∈ cand, c ≠ END)

def candStep (cand : List String) (m : Matcher) : List String :=
  let syms := m.validNext.filter (· != END)
  if syms.contains WILDCARD && cand.contains WILDCARD then syms.foldl insertStr cand
  else if cand.contains WILDCARD then syms
  else if syms.contains WILDCARD then cand
  else cand.filter syms.contains

theorem candidates_eq (ms : List Matcher) : candidates ms = ms.foldl candStep [WILDCARD] := rfl

theorem wildcard_ne_end : WILDCARD ≠ END := by decide

theorem candStep_ok (done : List Matcher) (cand : List String) (m : Matcher)
    (h : CandOk done cand) : CandOk (done ++ [m]) (candStep cand m) := by
  obtain ⟨h1, h2, h3⟩ := h
  have hsyms : ∀ c, c ∈ m.validNext.filter (· != END) ↔ c ∈ m.validNext ∧ c ≠ END := by
    intro c; simp [List.mem_filter]
  unfold candStep
  simp only
  by_cases hs : (m.validNext.filter (· != END)).contains WILDCARD = true
  · have hsm : WILDCARD ∈ m.validNext := ((hsyms _).1 (by simpa using hs)).1
    by_cases hc : cand.contains WILDCARD = true
    · have hcm : WILDCARD ∈ cand := by simpa using hc
      simp only [hs, hc, Bool.and_self, if_true]
      refine ⟨?_, ?_, ?_⟩
      · intro c hcin m' hm'
        rw [List.mem_append, List.mem_singleton] at hm'
        rcases hm' with hm' | hm'
        · right; exact h2 hcm m' hm'
        · subst hm'; right; simpa using hsm
      · intro _ m' hm'
        rw [List.mem_append, List.mem_singleton] at hm'
        rcases hm' with hm' | hm'
        · exact h2 hcm m' hm'
        · subst hm'; simpa using hsm
      · intro c hcin
        rcases (mem_foldl_insertStr _ _ _).1 hcin with h | h
        · exact h3 c h
        · exact ((hsyms c).1 h).2
    · simp only [hs, hc, Bool.and_false, Bool.false_eq_true, if_false, if_true]
      refine ⟨?_, ?_, h3⟩
      · intro c hcin m' hm'
        rw [List.mem_append, List.mem_singleton] at hm'
        rcases hm' with hm' | hm'
        · exact h1 c hcin m' hm'
        · subst hm'; right; simpa using hsm
      · intro hw; exact absurd (by simpa using hw) hc
  · by_cases hc : cand.contains WILDCARD = true
    · have hcm : WILDCARD ∈ cand := by simpa using hc
      simp only [hs, hc, Bool.false_and, Bool.false_eq_true, if_false, if_true]
      refine ⟨?_, ?_, ?_⟩
      · intro c hcin m' hm'
        rw [List.mem_append, List.mem_singleton] at hm'
        rcases hm' with hm' | hm'
        · right; exact h2 hcm m' hm'
        · subst hm'; left; simpa using ((hsyms c).1 hcin).1
      · intro hw; exact absurd (by simpa using hw) hs
      · intro c hcin; exact ((hsyms c).1 hcin).2
    · simp only [hs, hc, Bool.false_and, Bool.false_eq_true, if_false]
      refine ⟨?_, ?_, ?_⟩
      · intro c hcin m' hm'
        rw [List.mem_filter] at hcin
        rw [List.mem_append, List.mem_singleton] at hm'
        rcases hm' with hm' | hm'
        · exact h1 c hcin.1 m' hm'
        · subst hm'; left
          have : c ∈ m'.validNext.filter (· != END) := by simpa using hcin.2
          simpa using ((hsyms c).1 this).1
      · intro hw; rw [List.mem_filter] at hw; exact absurd (by simpa using hw.1) hc
      · intro c hcin; rw [List.mem_filter] at hcin; exact h3 c hcin.1

theorem foldl_candStep_ok (ms : List Matcher) : ∀ (done : List Matcher) (cand : List String),
    CandOk done cand → CandOk (done ++ ms) (ms.foldl candStep cand) := by
  induction ms with
  | nil => intro done cand h; simpa using h
  | cons m ms ih =>
    intro done cand h
    have := ih (done ++ [m]) (candStep cand m) (candStep_ok done cand m h)
    simpa [List.append_assoc] using this

theorem candidates_ok (ms : List Matcher) : CandOk ms (candidates ms) := by
  have := foldl_candStep_ok ms [] [WILDCARD]
    ⟨fun _ _ _ hm => absurd hm (by simp), fun _ _ hm => absurd hm (by simp),
     fun c hc => by simp at hc; subst hc; exact wildcard_ne_end⟩
  simpa [candidates_eq] using this

/-- every symbol the expansion step tries is listed by every matcher, and is not the end marker -/
theorem ordered_ok (ms : List Matcher) (priority : List String) (hp : ∀ a ∈ priority, a ≠ END)
    (c : String) (hc : c ∈ orderCandidates (candidates ms) priority) :
    c ≠ END ∧ ∀ m ∈ ms, m.validNext.contains c = true ∨ m.validNext.contains WILDCARD = true := by
  obtain ⟨h1, h2, h3⟩ := candidates_ok ms
  unfold orderCandidates at hc
  simp only at hc
  -- membership in the ordered list implies membership in the (possibly substituted) candidate set
  by_cases hw : ((candidates ms).contains WILDCARD && !priority.isEmpty) = true
  · simp only [hw, if_true] at hc
    have hwm : WILDCARD ∈ candidates ms := by
      simp only [Bool.and_eq_true] at hw; simpa using hw.1
    have hall := h2 hwm
    have hin : c ∈ (candidates ms).filter (· != WILDCARD) ∨ c ∈ priority := by
      rw [List.mem_append] at hc
      rcases hc with hc | hc
      · rw [mem_foldl_insertStr] at hc
        rcases hc with hc | hc
        · cases hc
        · rw [List.mem_filter] at hc; exact Or.inr hc.1
      · rw [mem_sortStrs, List.mem_filter] at hc
        exact (mem_foldl_insertStr _ _ _).1 hc.1
    constructor
    · rcases hin with h | h
      · rw [List.mem_filter] at h; exact h3 c h.1
      · exact hp c h
    · intro m hm; right; exact hall m hm
  · simp only [hw, Bool.false_eq_true, if_false] at hc
    have hin : c ∈ candidates ms := by
      rw [List.mem_append] at hc
      rcases hc with hc | hc
      · rw [mem_foldl_insertStr] at hc
        rcases hc with hc | hc
        · cases hc
        · rw [List.mem_filter] at hc; simpa using hc.2
      · rw [mem_sortStrs, List.mem_filter] at hc; exact hc.1
    exact ⟨h3 c hin, h1 c hin⟩

/-- invariant of every queue entry -/
structure ItemOk (required : List String) (pats : List Ast) (it : Item) : Prop where
  embed : ∃ consumed, required = consumed ++ it.remaining ∧ consumed.Sublist it.soFar
  states : StatesOf pats it.soFar it.matchers

theorem matcher_of_states (pats : List Ast) (w : List String) (ms : List Matcher)
    (h : StatesOf pats w ms) : ∀ mt ∈ ms, ∃ p ∈ pats, (Matcher.init false p).run w = some mt := by
  induction pats generalizing ms with
  | nil =>
    cases ms with
    | nil => intro mt hm; cases hm
    | cons _ _ => simp [StatesOf] at h
  | cons p ps ih =>
    cases ms with
    | nil => simp [StatesOf] at h
    | cons m ms =>
      simp only [StatesOf, List.map_cons, List.cons.injEq] at h
      intro mt hm
      rw [List.mem_cons] at hm
      rcases hm with hm | hm
      · subst hm; exact ⟨p, List.mem_cons_self, h.1⟩
      · obtain ⟨p', hp', hr⟩ := ih ms h.2 mt hm
        exact ⟨p', List.mem_cons_of_mem _ hp', hr⟩

theorem states_of_pattern (pats : List Ast) (w : List String) (ms : List Matcher)
    (h : StatesOf pats w ms) : ∀ p ∈ pats, ∃ mt ∈ ms, (Matcher.init false p).run w = some mt := by
  induction pats generalizing ms with
  | nil => intro p hp; cases hp
  | cons p ps ih =>
    cases ms with
    | nil => simp [StatesOf] at h
    | cons m ms =>
      simp only [StatesOf, List.map_cons, List.cons.injEq] at h
      intro p' hp'
      rw [List.mem_cons] at hp'
      rcases hp' with hp' | hp'
      · subst hp'; exact ⟨m, List.mem_cons_self, h.1⟩
      · obtain ⟨mt, hmt, hr⟩ := ih ms h.2 p' hp'
        exact ⟨mt, List.mem_cons_of_mem _ hmt, hr⟩

/-- **soundness of the search**: whatever it returns embeds the required symbols (insertions only)
    and is a complete match of every pattern's matcher -/
theorem search_sound (required : List String) (pats : List Ast) (depthLimit : Nat)
    (priority : List String) (hreq : ∀ a ∈ required, a ≠ END) (hprio : ∀ a ∈ priority, a ≠ END) :
    ∀ (fuel : Nat) (queue : List Item), (∀ it ∈ queue, ItemOk required pats it) →
    ∀ l, search depthLimit priority fuel queue = some l →
      required.Sublist l ∧ ∃ ms, StatesOf pats l ms ∧ ∀ m ∈ ms, m.isComplete = true := by
  intro fuel
  induction fuel with
  | zero => intro queue _ l h; simp [search] at h
  | succ fuel ih =>
    intro queue hq l h
    cases queue with
    | nil => simp [search] at h
    | cons it queue =>
      have hit := hq it List.mem_cons_self
      have hrest : ∀ x ∈ queue, ItemOk required pats x := fun x hx => hq x (List.mem_cons_of_mem _ hx)
      -- the expansion step preserves the invariant
      have hexpq : ∀ x ∈ expandQueue priority it queue, ItemOk required pats x := by
        intro x hx
        unfold expandQueue at hx
        split at hx
        · exact hrest x hx
        · rw [List.mem_append] at hx
          rcases hx with hx | hx
          · exact hrest x hx
          · rw [List.mem_map] at hx
            obtain ⟨c, hc, rfl⟩ := hx
            obtain ⟨hcne, hlisted⟩ := ordered_ok it.matchers priority hprio c hc
            obtain ⟨consumed, he1, he2⟩ := hit.embed
            refine ⟨⟨consumed, he1, ?_⟩, ?_⟩
            · exact he2.trans (List.sublist_append_left _ _)
            · apply statesOf_step pats it.soFar it.matchers c hit.states
              intro mt hmt
              obtain ⟨p, _, hr⟩ := matcher_of_states pats it.soFar it.matchers hit.states mt hmt
              exact accept_of_listed p it.soFar mt hr c hcne (hlisted mt hmt)
      have hexp : ∀ l, search depthLimit priority fuel (expandQueue priority it queue) = some l →
          required.Sublist l ∧ ∃ ms, StatesOf pats l ms ∧ ∀ m ∈ ms, m.isComplete = true :=
        fun l hl => ih _ hexpq l hl
      simp only [search] at h
      split at h
      · -- no required symbols left
        rename_i hrem
        split at h
        · rename_i hall
          injection h with h; subst h
          obtain ⟨consumed, he1, he2⟩ := hit.embed
          rw [hrem, List.append_nil] at he1
          refine ⟨by rw [he1]; exact he2, it.matchers, hit.states, ?_⟩
          intro m hm
          exact (List.all_eq_true.1 hall) m hm
        · exact hexp l h
      · rename_i a rest hrem
        split at h
        · rename_i hall
          apply ih _ _ l h
          intro x hx
          rw [List.mem_append, List.mem_singleton] at hx
          rcases hx with hx | hx
          · exact hrest x hx
          · subst hx
            obtain ⟨consumed, he1, he2⟩ := hit.embed
            rw [hrem] at he1
            have ha : a ≠ END := hreq a (by rw [he1]; simp)
            refine ⟨⟨consumed ++ [a], by rw [he1]; simp, ?_⟩, ?_⟩
            · exact List.Sublist.append he2 (List.Sublist.refl _)
            · apply statesOf_step pats it.soFar it.matchers a hit.states
              intro mt hmt
              obtain ⟨p, _, hr⟩ := matcher_of_states pats it.soFar it.matchers hit.states mt hmt
              have := (List.all_eq_true.1 hall) mt hmt
              simp only [Bool.or_eq_true] at this
              exact accept_of_listed p it.soFar mt hr a ha this
        · exact hexp l h

end VC2.Proofs.SymRe
