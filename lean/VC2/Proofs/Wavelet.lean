/-
  Lemmas for C11 (wavelet transforms).  Core Lean only.
-/
import VC2.Model.Wavelet
namespace VC2.Proofs.Wavelet
open VC2 VC2.Model.Wavelet

theorem parity_le (k : LiftKind) : k.parity = 0 ∨ k.parity = 1 := by
  cases k <;> simp [LiftKind.parity]

/-- every position a lift reads has the parity it does NOT update, and is inside the array -/
theorem readPos_spec (p len n : Nat) (i : Int) (hp : p = 0 ∨ p = 1) (hev : len % 2 = 0) (h2 : 2 ≤ len) :
    readPos p len n i % 2 ≠ p ∧ readPos p len n i < len := by
  unfold readPos
  rcases hp with rfl | rfl
  · simp only [if_true]; omega
  · simp only [Nat.one_ne_zero, if_false]; omega

theorem tapSum_congr (f g : Vec) (p len n : Nat) (D : Int) (taps : List Int)
    (hp : p = 0 ∨ p = 1) (hev : len % 2 = 0) (h2 : 2 ≤ len)
    (hfg : ∀ j, j % 2 ≠ p → f.get j = g.get j) :
    ∀ cnt j, tapSum f p len n D taps cnt j = tapSum g p len n D taps cnt j := by
  intro cnt
  induction cnt with
  | zero => intro j; rfl
  | succ c ih =>
    intro j
    simp only [tapSum]
    rw [hfg _ (readPos_spec p len n (D + j) hp hev h2).1, ih]

theorem delta_congr (st : Stage) (f g : Vec) (len n : Nat) (hev : len % 2 = 0) (h2 : 2 ≤ len)
    (hfg : ∀ j, j % 2 ≠ st.kind.parity → f.get j = g.get j) :
    delta st f len n = delta st g len n := by
  unfold delta
  rw [tapSum_congr f g _ len n st.D st.taps (parity_le _) hev h2 hfg]

/-- specification of the sequential loop after `k` iterations -/
theorem lift_prefix_spec (st : Stage) (len : Nat) (f : Vec) (hev : len % 2 = 0) :
    ∀ k, k ≤ len / 2 →
      let g := (List.range k).foldl (liftStep st len) f
      (∀ j, j % 2 ≠ st.kind.parity → g.get j = f.get j) ∧
      (∀ m, m < k → g.get (2 * m + st.kind.parity) = f.get (2 * m + st.kind.parity) + st.kind.sgn * delta st f len m) ∧
      (∀ m, k ≤ m → g.get (2 * m + st.kind.parity) = f.get (2 * m + st.kind.parity)) := by
  intro k
  induction k with
  | zero => intro _; simp
  | succ k ih =>
    intro hk
    have ⟨a, b, c⟩ := ih (by omega)
    have h2 : 2 ≤ len := by omega
    have hp := parity_le st.kind
    simp only [List.range_succ, List.foldl_append, List.foldl_cons, List.foldl_nil]
    generalize hg : (List.range k).foldl (liftStep st len) f = g at a b c
    have hd : delta st g len k = delta st f len k := delta_congr st g f len k hev h2 a
    refine ⟨?_, ?_, ?_⟩
    · intro j hj
      simp only [liftStep, upd]
      have : j ≠ 2 * k + st.kind.parity := by omega
      simp only [this, if_false]; exact a j hj
    · intro m hm
      simp only [liftStep, upd]
      by_cases hmk : m = k
      · subst hmk; simp only [if_true]; rw [c m (Nat.le_refl _), hd]
      · have : 2 * m + st.kind.parity ≠ 2 * k + st.kind.parity := by omega
        simp only [this, if_false]; exact b m (by omega)
    · intro m hm
      simp only [liftStep, upd]
      have : 2 * m + st.kind.parity ≠ 2 * k + st.kind.parity := by omega
      simp only [this, if_false]; exact c m (by omega)

theorem lift_spec (st : Stage) (len : Nat) (f : Vec) (hev : len % 2 = 0) :
    (∀ j, j % 2 ≠ st.kind.parity → (lift st len f).get j = f.get j) ∧
    (∀ m, m < len / 2 → (lift st len f).get (2 * m + st.kind.parity)
        = f.get (2 * m + st.kind.parity) + st.kind.sgn * delta st f len m) ∧
    (∀ m, len / 2 ≤ m → (lift st len f).get (2 * m + st.kind.parity) = f.get (2 * m + st.kind.parity)) := by
  unfold lift; rw [Vec.memo_eq]
  exact lift_prefix_spec st len f hev (len / 2) (Nat.le_refl _)

theorem swap_parity (k : LiftKind) : k.swap.parity = k.parity := by cases k <;> rfl
theorem swap_sgn (k : LiftKind) : k.swap.sgn = -k.sgn := by cases k <;> rfl

theorem delta_swapped (st : Stage) (f : Vec) (len n : Nat) :
    delta st.swapped f len n = delta st f len n := by
  unfold delta Stage.swapped; simp only [swap_parity]

/-- **the analysis lift undoes the synthesis lift**, for every stage and every even-length array -/
theorem lift_inverse (st : Stage) (len : Nat) (f : Vec) (hev : len % 2 = 0) :
    lift st.swapped len (lift st len f) = f := by
  apply Vec.ext; funext j
  have ⟨a, b, c⟩ := lift_spec st len f hev
  have ⟨a', b', c'⟩ := lift_spec st.swapped len (lift st len f) hev
  have hp := parity_le st.kind
  have hpar : st.swapped.kind.parity = st.kind.parity := swap_parity _
  rw [hpar] at a' b' c'
  by_cases hj : j % 2 ≠ st.kind.parity
  · rw [a' j hj, a j hj]
  · have hj' : j % 2 = st.kind.parity := by omega
    have e : j = 2 * (j / 2) + st.kind.parity := by omega
    rw [e]
    by_cases hm : j / 2 < len / 2
    · rw [b' _ hm, b _ hm, delta_swapped]
      have h2 : 2 ≤ len := by omega
      rw [delta_congr st (lift st len f) f len (j / 2) hev h2 a]
      have : st.swapped.kind.sgn = -st.kind.sgn := swap_sgn _
      rw [this, Int.neg_mul]; omega
    · rw [c' _ (by omega), c _ (by omega)]

/-- and the other way round (synthesis undoes analysis) -/
theorem lift_inverse' (st : Stage) (len : Nat) (f : Vec) (hev : len % 2 = 0) :
    lift st len (lift st.swapped len f) = f := by
  have h := lift_inverse st.swapped len f hev
  have e : st.swapped.swapped = st := by
    cases st with | mk k L D t S => cases k <;> rfl
  rw [e] at h; exact h

/-- `oned_analysis` inverts `oned_synthesis` for every list of stages -/
theorem oned_roundtrip (flt : Filter) (len : Nat) (f : Vec) (hev : len % 2 = 0) :
    onedSynthesis flt len (onedAnalysis flt len f) = f := by
  unfold onedSynthesis onedAnalysis
  generalize flt.stages = ss
  induction ss generalizing f with
  | nil => rfl
  | cons s ss ih =>
    simp only [List.reverse_cons, List.foldl_append, List.foldl_cons, List.foldl_nil]
    rw [lift_inverse' s len _ hev]
    exact ih f

theorem oned_roundtrip' (flt : Filter) (len : Nat) (f : Vec) (hev : len % 2 = 0) :
    onedAnalysis flt len (onedSynthesis flt len f) = f := by
  unfold onedSynthesis onedAnalysis
  generalize flt.stages = ss
  induction ss generalizing f with
  | nil => rfl
  | cons s ss ih =>
    simp only [List.reverse_cons, List.foldl_append, List.foldl_cons, List.foldl_nil]
    rw [ih (lift s len f), lift_inverse s len f hev]

end VC2.Proofs.Wavelet

namespace VC2.Proofs.Wavelet
open VC2 VC2.Model.Wavelet

/-! ### 2-D building blocks (exact equalities of index functions) -/

theorem shift_roundtrip (s : Nat) (v : Int) (hs : 0 < s) : (v * 2 ^ s + 2 ^ (s - 1)) / 2 ^ s = v := by
  have hp : (0 : Int) < 2 ^ (s - 1) := Int.pow_pos (by decide)
  have e : (2 : Int) ^ s = 2 * 2 ^ (s - 1) := by
    have : s = (s - 1) + 1 := by omega
    rw [this, Int.pow_succ]; simp; omega
  rw [e]
  generalize (2 : Int) ^ (s - 1) = t at *
  have h1 : v * (2 * t) + t = t + (2 * t) * v := by rw [Int.mul_comm v]; omega
  rw [h1, Int.add_mul_ediv_left _ _ (by omega : (2 * t) ≠ 0)]
  have : t / (2 * t) = 0 := Int.ediv_eq_zero_of_lt (by omega) (by omega)
  omega

theorem shiftDown_shiftUp (s : Nat) (a : Arr) : shiftDown s (shiftUp s a) = a := by
  unfold shiftDown shiftUp
  by_cases hs : s > 0
  · simp only [hs, if_true, mapAll]
    cases a with | mk h w f =>
    simp only [Arr.mk.injEq, true_and]
    funext y x; exact shift_roundtrip s _ hs
  · simp [hs]

theorem mapRows_roundtrip (flt : Filter) (a : Arr) (hw : a.w % 2 = 0) :
    mapRows (onedSynthesis flt) (mapRows (onedAnalysis flt) a) = a := by
  have e : (mapRows (onedSynthesis flt) (mapRows (onedAnalysis flt) a)).f = a.f := by
    funext y
    rw [mapRows_f, mapRows_f]
    have : (mapRows (onedAnalysis flt) a).w = a.w := rfl
    rw [this, oned_roundtrip flt a.w ⟨a.f y⟩ hw]
  cases a with | mk h w f =>
  simp only [mapRows] at e ⊢
  simp only [Arr.mk.injEq, true_and]
  exact e

theorem mapCols_roundtrip (flt : Filter) (a : Arr) (hh : a.h % 2 = 0) :
    mapCols (onedSynthesis flt) (mapCols (onedAnalysis flt) a) = a := by
  have e : (mapCols (onedSynthesis flt) (mapCols (onedAnalysis flt) a)).f = a.f := by
    funext y x
    rw [mapCols_f]
    have hh' : (mapCols (onedAnalysis flt) a).h = a.h := rfl
    have : (⟨fun y' => (mapCols (onedAnalysis flt) a).f y' x⟩ : Vec) = onedAnalysis flt a.h ⟨fun y' => a.f y' x⟩ := by
      apply Vec.ext; funext y'; show (mapCols (onedAnalysis flt) a).f y' x = _; rw [mapCols_f]
    rw [this, hh', oned_roundtrip flt a.h _ hh]
  cases a with | mk h w f =>
  simp only [mapCols] at e ⊢
  simp only [Arr.mk.injEq, true_and]
  exact e

theorem vhInterleave_sub (t : Arr) (hh : t.h % 2 = 0) (hw : t.w % 2 = 0) :
    vhInterleave (sub t 0 0 (t.h / 2) (t.w / 2)) (sub t 0 1 (t.h / 2) (t.w / 2))
      (sub t 1 0 (t.h / 2) (t.w / 2)) (sub t 1 1 (t.h / 2) (t.w / 2)) = t := by
  cases t with | mk h w f =>
  simp only at hh hw
  simp only [vhInterleave, sub, Arr.mk.injEq]
  refine ⟨by omega, by omega, ?_⟩
  funext y x
  by_cases hy : y % 2 = 0 <;> by_cases hx : x % 2 = 0 <;> simp only [hy, hx, if_true, if_false] <;>
    congr 1 <;> omega

theorem hInterleave_split (t : Arr) (hw : t.w % 2 = 0) :
    hInterleave { h := t.h, w := t.w / 2, f := fun y x => t.f y (2 * x) }
      { h := t.h, w := t.w / 2, f := fun y x => t.f y (2 * x + 1) } = t := by
  cases t with | mk h w f =>
  simp only at hw
  simp only [hInterleave, Arr.mk.injEq, true_and]
  refine ⟨by omega, ?_⟩
  funext y x
  by_cases hx : x % 2 = 0 <;> simp only [hx, if_true, if_false] <;> congr 1 <;> omega

theorem dims_mapRows (g) (a : Arr) : (mapRows g a).h = a.h ∧ (mapRows g a).w = a.w := ⟨rfl, rfl⟩
theorem dims_mapCols (g) (a : Arr) : (mapCols g a).h = a.h ∧ (mapCols g a).w = a.w := ⟨rfl, rfl⟩
theorem dims_shiftUp (s : Nat) (a : Arr) : (shiftUp s a).h = a.h ∧ (shiftUp s a).w = a.w := by
  unfold shiftUp; split <;> exact ⟨rfl, rfl⟩

/-- one 2-D level: synthesis of the analysis is the identity (exactly) -/
theorem vh_roundtrip (fv fho : Filter) (a : Arr) (hh : a.h % 2 = 0) (hw : a.w % 2 = 0) :
    let b := vhAnalysis fv fho a
    vhSynthesis fv fho b.1 b.2.1 b.2.2.1 b.2.2.2 = a := by
  intro b
  simp only [b, vhAnalysis, vhSynthesis]
  have d1 := dims_shiftUp fho.shift a
  have hh' : (mapCols (onedAnalysis fv) (mapRows (onedAnalysis fho) (shiftUp fho.shift a))).h % 2 = 0 := by
    simp only [dims_mapCols, dims_mapRows, d1]; exact hh
  have hw' : (mapCols (onedAnalysis fv) (mapRows (onedAnalysis fho) (shiftUp fho.shift a))).w % 2 = 0 := by
    simp only [dims_mapCols, dims_mapRows, d1]; exact hw
  rw [vhInterleave_sub _ hh' hw']
  rw [mapCols_roundtrip fv _ (by simp only [dims_mapRows, d1]; exact hh)]
  rw [mapRows_roundtrip fho _ (by simp only [d1]; exact hw)]
  exact shiftDown_shiftUp _ _

/-- one horizontal-only level -/
theorem h_roundtrip (fho : Filter) (a : Arr) (hw : a.w % 2 = 0) :
    let b := hAnalysis fho a
    hSynthesis fho b.1 b.2 = a := by
  intro b
  simp only [b, hAnalysis, hSynthesis]
  have d1 := dims_shiftUp fho.shift a
  rw [hInterleave_split _ (by simp only [dims_mapRows, d1]; exact hw)]
  rw [mapRows_roundtrip fho _ (by simp only [d1]; exact hw)]
  exact shiftDown_shiftUp _ _

theorem vhAnalysis_dims (fv fho : Filter) (a : Arr) :
    let b := vhAnalysis fv fho a
    b.1.h = a.h / 2 ∧ b.1.w = a.w / 2 ∧ b.2.1.h = a.h / 2 ∧ b.2.1.w = a.w / 2 ∧
    b.2.2.1.h = a.h / 2 ∧ b.2.2.1.w = a.w / 2 ∧ b.2.2.2.h = a.h / 2 ∧ b.2.2.2.w = a.w / 2 := by
  have d1 := dims_shiftUp fho.shift a
  simp [vhAnalysis, sub, mapCols, mapRows, d1]

theorem hAnalysis_dims (fho : Filter) (a : Arr) :
    let b := hAnalysis fho a
    b.1.h = a.h ∧ b.1.w = a.w / 2 ∧ b.2.h = a.h ∧ b.2.w = a.w / 2 := by
  have d1 := dims_shiftUp fho.shift a
  simp [hAnalysis, mapRows, d1]

theorem dvd_half (n d : Nat) (h : n % 2 ^ (d + 1) = 0) : n % 2 = 0 ∧ (n / 2) % 2 ^ d = 0 := by
  rw [Nat.pow_succ] at h
  have h1 : n % 2 = 0 := by
    have := Nat.mod_mul_left_mod n (2 ^ d) 2
    rw [h] at this; simpa using this.symm
  refine ⟨h1, ?_⟩
  have : n = 2 ^ d * 2 * (n / (2 ^ d * 2)) := by
    have := Nat.div_add_mod n (2 ^ d * 2); omega
  generalize n / (2 ^ d * 2) = q at this
  subst this
  have e : 2 ^ d * 2 * q / 2 = 2 ^ d * q := by
    rw [Nat.mul_comm (2 ^ d) 2, Nat.mul_assoc, Nat.mul_div_cancel_left _ (by decide)]
  rw [e]; exact Nat.mul_mod_right _ _

/-- the `d` two-dimensional levels -/
theorem full_roundtrip (fv fho : Filter) : ∀ (d : Nat) (a : Arr), a.h % 2 ^ d = 0 → a.w % 2 ^ d = 0 →
    (dwtFull fv fho d a).2.foldl (fun dc b => vhSynthesis fv fho dc b.1 b.2.1 b.2.2) (dwtFull fv fho d a).1 = a := by
  intro d
  induction d with
  | zero => intro a _ _; rfl
  | succ d ih =>
    intro a hh hw
    have ⟨hh1, hh2⟩ := dvd_half a.h d hh
    have ⟨hw1, hw2⟩ := dvd_half a.w d hw
    have dims := vhAnalysis_dims fv fho a
    simp only [dwtFull, List.foldl_append, List.foldl_cons, List.foldl_nil]
    rw [ih (vhAnalysis fv fho a).1 (by rw [dims.1]; exact hh2) (by rw [dims.2.1]; exact hw2)]
    exact vh_roundtrip fv fho a hh1 hw1

/-- the `dho` horizontal-only levels -/
theorem ho_roundtrip (fho : Filter) : ∀ (d : Nat) (a : Arr), a.w % 2 ^ d = 0 →
    (dwtHo fho d a).2.foldl (fun dc H => hSynthesis fho dc H) (dwtHo fho d a).1 = a := by
  intro d
  induction d with
  | zero => intro a _; rfl
  | succ d ih =>
    intro a hw
    have ⟨hw1, hw2⟩ := dvd_half a.w d hw
    have dims := hAnalysis_dims fho a
    simp only [dwtHo, List.foldl_append, List.foldl_cons, List.foldl_nil]
    rw [ih (hAnalysis fho a).1 (by rw [dims.2.1]; exact hw2)]
    exact h_roundtrip fho a hw1

theorem dwtFull_dc_dims (fv fho : Filter) : ∀ (d : Nat) (a : Arr),
    (dwtFull fv fho d a).1.h = a.h / 2 ^ d ∧ (dwtFull fv fho d a).1.w = a.w / 2 ^ d := by
  intro d
  induction d with
  | zero => intro a; simp [dwtFull]
  | succ d ih =>
    intro a
    have dims := vhAnalysis_dims fv fho a
    simp only [dwtFull]
    rw [(ih _).1, (ih _).2, dims.1, dims.2.1, Nat.div_div_eq_div_mul, Nat.div_div_eq_div_mul, Nat.pow_succ,
      Nat.mul_comm 2]
    exact ⟨rfl, rfl⟩

theorem dwtHo_dc_dims (fho : Filter) : ∀ (d : Nat) (a : Arr),
    (dwtHo fho d a).1.h = a.h ∧ (dwtHo fho d a).1.w = a.w / 2 ^ d := by
  intro d
  induction d with
  | zero => intro a; simp [dwtHo]
  | succ d ih =>
    intro a
    have dims := hAnalysis_dims fho a
    simp only [dwtHo]
    rw [(ih _).1, (ih _).2, dims.1, dims.2.1, Nat.div_div_eq_div_mul, Nat.pow_succ, Nat.mul_comm 2]
    exact ⟨rfl, rfl⟩

theorem pow_dvd_div (n a b : Nat) (h : n % 2 ^ (a + b) = 0) : (n / 2 ^ a) % 2 ^ b = 0 := by
  rw [Nat.pow_add] at h
  have : n = 2 ^ a * 2 ^ b * (n / (2 ^ a * 2 ^ b)) := by
    have := Nat.div_add_mod n (2 ^ a * 2 ^ b); omega
  generalize n / (2 ^ a * 2 ^ b) = q at this
  subst this
  rw [Nat.mul_assoc, Nat.mul_div_cancel_left _ (Nat.two_pow_pos a)]
  exact Nat.mul_mod_right _ _

/-- **`idwt (dwt a) = a`** for every filter pair, every depth pair and every array whose
    dimensions are multiples of the transform scale -/
theorem idwt_dwt (fv fho : Filter) (dho d : Nat) (a : Arr)
    (hh : a.h % 2 ^ d = 0) (hw : a.w % 2 ^ (d + dho) = 0) :
    idwt fv fho (dwt fv fho dho d a) = a := by
  unfold idwt dwt
  simp only
  have hw' : a.w % 2 ^ d = 0 := by
    have := pow_dvd_div a.w 0 d (by simpa using (by
      rw [Nat.pow_add] at hw
      exact Nat.mod_eq_zero_of_dvd (Nat.dvd_trans (Nat.dvd_mul_right _ _) (Nat.dvd_of_mod_eq_zero hw))))
    simpa using this
  have dcd := dwtFull_dc_dims fv fho d a
  rw [ho_roundtrip fho dho _ (by rw [dcd.2]; exact pow_dvd_div a.w d dho hw)]
  exact full_roundtrip fv fho d a hh hw'

end VC2.Proofs.Wavelet

namespace VC2.Proofs.Wavelet
open VC2 VC2.Model.Wavelet

/-! ### Shapes of the forward transform's subbands -/

def dims3 (b : Arr × Arr × Arr) (h w : Nat) : Prop :=
  b.1.h = h ∧ b.1.w = w ∧ b.2.1.h = h ∧ b.2.1.w = w ∧ b.2.2.h = h ∧ b.2.2.w = w

theorem div_pow_succ (n k : Nat) : n / 2 / 2 ^ k = n / 2 ^ (k + 1) := by
  rw [Nat.div_div_eq_div_mul, Nat.pow_succ, Nat.mul_comm]

theorem dwtFull_shapes (fv fho : Filter) : ∀ (d : Nat) (a : Arr),
    (dwtFull fv fho d a).2.length = d ∧
    ∀ k (hk : k < (dwtFull fv fho d a).2.length),
      dims3 ((dwtFull fv fho d a).2[k]) (a.h / 2 ^ (d - k)) (a.w / 2 ^ (d - k)) := by
  intro d
  induction d with
  | zero => intro a; exact ⟨rfl, fun k hk => absurd hk (by simp [dwtFull])⟩
  | succ d ih =>
    intro a
    have dims := vhAnalysis_dims fv fho a
    have ⟨hl, hs⟩ := ih (vhAnalysis fv fho a).1
    simp only [dwtFull]
    refine ⟨by simp [hl], ?_⟩
    intro k hk
    simp only [List.length_append, List.length_cons, List.length_nil, hl] at hk
    by_cases hkd : k < d
    · rw [List.getElem_append_left (by rw [hl]; exact hkd)]
      have := hs k (by rw [hl]; exact hkd)
      rw [dims.1, dims.2.1, div_pow_succ, div_pow_succ] at this
      have e : d + 1 - k = d - k + 1 := by omega
      rw [e]; exact this
    · have hk' : k = d := by omega
      subst hk'
      rw [List.getElem_append_right (by rw [hl]; exact Nat.le_refl _)]
      simp only [hl, Nat.sub_self, List.getElem_cons_zero]
      have e : k + 1 - k = 1 := by omega
      rw [e]; simp only [Nat.pow_one]
      exact ⟨dims.2.2.1, dims.2.2.2.1, dims.2.2.2.2.1, dims.2.2.2.2.2.1, dims.2.2.2.2.2.2.1, dims.2.2.2.2.2.2.2⟩

theorem dwtHo_shapes (fho : Filter) : ∀ (d : Nat) (a : Arr),
    (dwtHo fho d a).2.length = d ∧
    ∀ k (hk : k < (dwtHo fho d a).2.length),
      ((dwtHo fho d a).2[k]).h = a.h ∧ ((dwtHo fho d a).2[k]).w = a.w / 2 ^ (d - k) := by
  intro d
  induction d with
  | zero => intro a; exact ⟨rfl, fun k hk => absurd hk (by simp [dwtHo])⟩
  | succ d ih =>
    intro a
    have dims := hAnalysis_dims fho a
    have ⟨hl, hs⟩ := ih (hAnalysis fho a).1
    simp only [dwtHo]
    refine ⟨by simp [hl], ?_⟩
    intro k hk
    simp only [List.length_append, List.length_cons, List.length_nil, hl] at hk
    by_cases hkd : k < d
    · rw [List.getElem_append_left (by rw [hl]; exact hkd)]
      have := hs k (by rw [hl]; exact hkd)
      rw [dims.1, dims.2.1, div_pow_succ] at this
      have e : d + 1 - k = d - k + 1 := by omega
      rw [e]; exact this
    · have hk' : k = d := by omega
      subst hk'
      rw [List.getElem_append_right (by rw [hl]; exact Nat.le_refl _)]
      simp only [hl, Nat.sub_self, List.getElem_cons_zero]
      have e : k + 1 - k = 1 := by omega
      rw [e]; simp only [Nat.pow_one]
      exact ⟨dims.2.2.1, dims.2.2.2⟩

/-! ### Padding -/

theorem pad_roundtrip (a : Arr) (ph pw : Nat) (hh : 1 ≤ a.h) (hw : 1 ≤ a.w) :
    (padRemoval (padAddition a ph pw) a.h a.w).Eq a := by
  refine ⟨?_, ?_, ?_⟩
  · simp [padRemoval, padAddition]; omega
  · simp [padRemoval, padAddition]; omega
  · intro y x hy hx
    simp only [padRemoval, padAddition] at hy hx ⊢
    have e1 : min y (a.h - 1) = y := by omega
    have e2 : min x (a.w - 1) = x := by omega
    rw [e1, e2]

end VC2.Proofs.Wavelet
