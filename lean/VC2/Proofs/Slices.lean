/-
  Helper lemmas for C13 (slice geometry).  Core Lean only.
-/
import VC2.Gen.Kernels
namespace VC2.Proofs.Slices
open VC2 VC2.Gen

/-! ### Abstract partition `f k = W * k / n` -/

/-- slice boundary as a pure function -/
def bound (W n k : Int) : Int := (W * k) / n

theorem bound_zero (W n : Int) : bound W n 0 = 0 := by simp [bound]

theorem bound_full (W n : Int) (hn : 0 < n) : bound W n n = W := by
  unfold bound; exact Int.mul_ediv_cancel W (by omega)

theorem bound_mono (W n a b : Int) (hW : 0 ≤ W) (hn : 0 < n) (hab : a ≤ b) :
    bound W n a ≤ bound W n b := by
  unfold bound
  exact Int.ediv_le_ediv hn (Int.mul_le_mul_of_nonneg_left hab hW)

theorem bound_nonneg (W n a : Int) (hW : 0 ≤ W) (hn : 0 < n) (ha : 0 ≤ a) : 0 ≤ bound W n a := by
  have := bound_mono W n 0 a hW hn ha
  rw [bound_zero] at this; exact this

/-- existence: every coordinate lies in some slice -/
theorem exists_slice_nat (f : Nat → Int) (x : Int) :
    ∀ n : Nat, f 0 ≤ x → x < f n → ∃ k, k < n ∧ f k ≤ x ∧ x < f (k + 1) := by
  intro n
  induction n with
  | zero => intro h0 hn; omega
  | succ m ih =>
    intro h0 hn
    by_cases h : x < f m
    · obtain ⟨k, hk, h1, h2⟩ := ih h0 h
      exact ⟨k, by omega, h1, h2⟩
    · exact ⟨m, by omega, by omega, hn⟩

theorem exists_slice (W n x : Int) (hn : 0 < n) (hx0 : 0 ≤ x) (hxW : x < W) :
    ∃ k, 0 ≤ k ∧ k < n ∧ bound W n k ≤ x ∧ x < bound W n (k + 1) := by
  have h := exists_slice_nat (fun k => bound W n k) x n.toNat
    (by simp [bound_zero]; exact hx0)
    (by
      have : ((n.toNat : Nat) : Int) = n := by omega
      simp only [this, bound_full W n hn]; exact hxW)
  obtain ⟨k, hk, h1, h2⟩ := h
  refine ⟨k, by omega, by omega, h1, ?_⟩
  have : ((k + 1 : Nat) : Int) = (k : Int) + 1 := by omega
  simpa [this] using h2

/-- uniqueness: slices are disjoint -/
theorem unique_slice (W n x k k' : Int) (hW : 0 ≤ W) (hn : 0 < n)
    (h1 : bound W n k ≤ x) (h2 : x < bound W n (k + 1))
    (h1' : bound W n k' ≤ x) (h2' : x < bound W n (k' + 1)) : k = k' := by
  by_cases hlt : k < k'
  · have := bound_mono W n (k + 1) k' hW hn (by omega); omega
  · by_cases hgt : k' < k
    · have := bound_mono W n (k' + 1) k hW hn (by omega); omega
    · omega

/-- if `n ∣ W` every slice has the same extent `W / n` -/
theorem equal_extents_of_dvd (W n k : Int) (hn : 0 < n) (hd : W % n = 0) :
    bound W n (k + 1) - bound W n k = W / n := by
  unfold bound
  have hW : W = n * (W / n) := by
    have := Int.mul_ediv_add_emod W n; omega
  generalize W / n = q at hW
  subst hW
  have e1 : n * q * (k + 1) = n * (q * (k + 1)) := by rw [Int.mul_assoc]
  have e2 : n * q * k = n * (q * k) := by rw [Int.mul_assoc]
  rw [e1, e2, Int.mul_ediv_cancel_left _ (by omega : n ≠ 0), Int.mul_ediv_cancel_left _ (by omega : n ≠ 0)]
  rw [Int.mul_add]; omega

/-- conversely, if every slice has the extent of slice 0 then `n ∣ W` -/
theorem dvd_of_equal_extents (W n : Int) (hn : 0 < n)
    (h : ∀ k, 0 ≤ k → k < n → bound W n (k + 1) - bound W n k = bound W n 1 - bound W n 0) :
    W % n = 0 := by
  have key : ∀ m : Nat, (m : Int) ≤ n → bound W n m = m * bound W n 1 := by
    intro m
    induction m with
    | zero => intro _; simp [bound_zero]
    | succ j ih =>
      intro hj
      have hjn : (j : Int) < n := by omega
      have := h j (by omega) hjn
      have ihj := ih (by omega)
      rw [bound_zero] at this
      have e : ((j + 1 : Nat) : Int) = (j : Int) + 1 := by omega
      rw [e, Int.add_mul]; omega
  have hfull := key n.toNat (by omega)
  have e : ((n.toNat : Nat) : Int) = n := by omega
  rw [e, bound_full W n hn] at hfull
  rw [hfull]; exact Int.mul_emod_right _ _

/-! ### Telescoping sum of low-delay slice sizes -/

def sumTo (g : Nat → Int) : Nat → Int
  | 0 => 0
  | n + 1 => sumTo g n + g n

theorem telescope (f : Nat → Int) (n : Nat) :
    sumTo (fun k => f (k + 1) - f k) n = f n - f 0 := by
  induction n with
  | zero => simp [sumTo]
  | succ m ih => simp [sumTo, ih]; omega

/-! ### Powers of two -/

theorem shl_one (n : Int) : shl 1 n = 2 ^ n.toNat := by simp [shl]

theorem shl_one_add (a b : Int) (ha : 0 ≤ a) (hb : 0 ≤ b) :
    shl 1 (a + b) = shl 1 a * shl 1 b := by
  simp only [shl_one]
  have : (a + b).toNat = a.toNat + b.toNat := by omega
  rw [this, Int.pow_add]

end VC2.Proofs.Slices

namespace VC2.Proofs.Slices
open VC2 VC2.Gen

/-! ### The generated geometry functions in closed form -/

def CompOk (c : String) : Prop := c = "Y" ∨ c = "C1" ∨ c = "C2"

def compW (st : St) (c : String) : Int := if c = "Y" then st.luma_width else st.color_diff_width
def compH (st : St) (c : String) : Int := if c = "Y" then st.luma_height else st.color_diff_height

/-- total transform depth in the horizontal direction -/
def depthW (st : St) : Int := st.dwt_depth_ho + st.dwt_depth

/-- `w` rounded up to a multiple of `2^D` (the padded picture size) -/
def padded (w D : Int) : Int := shl 1 D * ((w + shl 1 D - 1) / shl 1 D)

/-- exponent of the divisor applied at `level`, horizontally / vertically -/
def wexp (st : St) (level : Int) : Int :=
  if level = 0 then depthW st else depthW st - level + 1
def hexp (st : St) (level : Int) : Int :=
  if level = 0 then st.dwt_depth else if level ≤ st.dwt_depth_ho then st.dwt_depth
  else depthW st - level + 1

structure GeomOk (st : St) : Prop where
  d : 0 ≤ st.dwt_depth
  dho : 0 ≤ st.dwt_depth_ho
  sx : 1 ≤ st.slices_x
  sy : 1 ≤ st.slices_y

theorem subband_width_eq (st : St) (level : Int) (c : String) (hc : CompOk c) :
    subband_width st level c = padded (compW st c) (depthW st) / shl 1 (wexp st level) := by
  have hpos := shl_one_pos (depthW st)
  have hpos2 := shl_one_pos (depthW st - level + 1)
  unfold subband_width padded compW wexp depthW at *
  rcases hc with h | h | h <;> subst h <;> simp only [pydiv_pos _ _ hpos, pydiv_pos _ _ hpos2] <;>
    (by_cases h0 : level = 0
     · simp [h0]
     · by_cases h1 : level ≤ st.dwt_depth_ho
       · simp [h0, h1]
       · have h2 : level > st.dwt_depth_ho := by omega
         simp [h0, h1, h2])

theorem subband_height_eq (st : St) (level : Int) (c : String) (hc : CompOk c) :
    subband_height st level c = padded (compH st c) st.dwt_depth / shl 1 (hexp st level) := by
  have hpos := shl_one_pos st.dwt_depth
  have hpos2 := shl_one_pos (depthW st - level + 1)
  unfold subband_height padded compH hexp depthW at *
  rcases hc with h | h | h <;> subst h <;> simp only [pydiv_pos _ _ hpos, pydiv_pos _ _ hpos2] <;>
    (by_cases h0 : level = 0
     · simp [h0]
     · by_cases h1 : level ≤ st.dwt_depth_ho
       · simp [h0, h1]
       · have h2 : level > st.dwt_depth_ho := by omega
         simp [h0, h1, h2])

theorem subband_ok (st : St) (level : Int) (c : String) (hc : CompOk c) (g : GeomOk st)
    (hl0 : 0 ≤ level) (hl : level ≤ depthW st) :
    subband_width_ok st level c = true ∧ subband_height_ok st level c = true := by
  have hd := g.d; have hdho := g.dho
  have hpos := shl_one_pos (depthW st)
  have hpos2 := shl_one_pos (depthW st - level + 1)
  have hpos3 := shl_one_pos st.dwt_depth
  unfold depthW at *
  constructor
  · unfold subband_width_ok
    rcases hc with h | h | h <;> subst h <;>
      (by_cases h0 : level = 0
       · simp [h0]; omega
       · by_cases h1 : level ≤ st.dwt_depth_ho
         · simp [h0, h1]; omega
         · have h2 : level > st.dwt_depth_ho := by omega
           simp [h0, h1, h2]; omega)
  · unfold subband_height_ok
    rcases hc with h | h | h <;> subst h <;>
      (by_cases h0 : level = 0
       · simp [h0]; omega
       · by_cases h1 : level ≤ st.dwt_depth_ho
         · simp [h0, h1]; omega
         · have h2 : level > st.dwt_depth_ho := by omega
           simp [h0, h1, h2]; omega)

end VC2.Proofs.Slices
