/- Helper lemmas for C06: canonical codes (the reader accepts only what the writer writes).
   Imports the single Mathlib module Mathlib.Tactic.Ring. -/
import VC2.Proofs.Serdes
import Mathlib.Tactic.Ring
namespace VC2.Proofs.Serdes
open VC2 VC2.Model.Serdes VC2.Model.BitIO


/-- a codec whose reader accepts only what its writer writes: the bits consumed are exactly the
    encoding of the value returned -/
def CompleteAt (C : Codec) (k : Prim) : Prop :=
  ∀ bits v rest, C.dec k bits = some (v, rest) → ∃ used, C.enc k v = some used ∧ bits = used ++ rest

/-- deserialise-then-serialise for a sequence of primitive reads (a list target, or any straight
    run of fields): the serialiser reproduces exactly the bits the deserialiser consumed -/
theorem desPrims_ser (C : Codec) : ∀ (ks : List Prim) (bits : List Bool) (vs : List Val) (rest : List Bool),
    (∀ k ∈ ks, CompleteAt C k) → desPrims C ks bits = some (vs, rest) →
    ∃ used, serPrims C ks vs = some used ∧ bits = used ++ rest
  | [], bits, vs, rest, _, h => by
    simp [desPrims] at h; obtain ⟨h1, h2⟩ := h; subst h1 h2; exact ⟨[], rfl, rfl⟩
  | k :: ks, bits, vs, rest, hc, h => by
    simp only [desPrims] at h
    cases hd : C.dec k bits with
    | none => rw [hd] at h; cases h
    | some r =>
      obtain ⟨v, r1⟩ := r
      rw [hd] at h; simp only at h
      cases hr : desPrims C ks r1 with
      | none => rw [hr] at h; cases h
      | some q =>
        obtain ⟨vs', rest'⟩ := q
        rw [hr] at h; simp at h
        obtain ⟨e1, e2⟩ := h; subst e1 e2
        obtain ⟨u1, he, hb⟩ := hc k List.mem_cons_self bits v r1 hd
        obtain ⟨u2, hs, hb2⟩ := desPrims_ser C ks r1 vs' rest' (fun x hx => hc x (List.mem_cons_of_mem _ hx)) hr
        refine ⟨u1 ++ u2, ?_, by rw [hb, hb2, List.append_assoc]⟩
        simp [serPrims, he, hs]

theorem readBits_spec : ∀ (n : Nat) (all : List Bool) (pos : Nat) (l : List Bool) (r' : Reader),
    Reader.readBits n { all := all, pos := pos } = .ok (l, r') →
    l = (all.drop pos).take n ∧ l.length = n ∧ r' = { all := all, pos := pos + n } := by
  intro n
  induction n with
  | zero => intro all pos l r' h; simp [Reader.readBits] at h; obtain ⟨h1, h2⟩ := h; subst h1 h2; simp
  | succ n ih =>
    intro all pos l r' h
    simp only [Reader.readBits, Reader.readBit, Reader.rawBit, bind, Except.bind] at h
    cases hg : all[pos]? with
    | none => rw [hg] at h; cases h
    | some b =>
      rw [hg] at h; simp only at h
      cases hr : Reader.readBits n { all := all, pos := pos + 1 } with
      | error e => rw [hr] at h; cases h
      | ok q =>
        obtain ⟨bs, r2⟩ := q
        rw [hr] at h; simp [pure, Except.pure] at h
        obtain ⟨e1, e2⟩ := h; subst e1 e2
        obtain ⟨i1, i2, i3⟩ := ih all (pos + 1) bs r2 hr
        refine ⟨?_, by simp [i2], by rw [i3]; congr 1; omega⟩
        obtain ⟨hlt, hb⟩ := List.getElem?_eq_some_iff.1 hg
        rw [List.drop_eq_getElem_cons hlt, List.take_succ_cons, ← i1, hb]

def valOf : List Bool → Nat → Nat
  | [], acc => acc
  | b :: bs, acc => valOf bs (acc * 2 + (if b then 1 else 0))

theorem valOf_eq : ∀ (bs : List Bool) (acc : Nat), valOf bs acc = acc * 2 ^ bs.length + valOf bs 0 := by
  intro bs
  induction bs with
  | nil => intro acc; simp [valOf]
  | cons b bs ih =>
    intro acc
    simp only [valOf, List.length_cons]
    rw [ih (acc * 2 + _), ih (0 * 2 + _)]
    rw [Nat.pow_succ]
    cases b <;> simp <;> ring

theorem valOf_lt : ∀ (bs : List Bool), valOf bs 0 < 2 ^ bs.length := by
  intro bs
  induction bs with
  | nil => simp [valOf]
  | cons b bs ih =>
    simp only [valOf, List.length_cons]
    rw [valOf_eq, Nat.pow_succ]
    cases b <;> simp <;> omega

theorem nbitsOf_low (a w n : Nat) (hw : w < 2 ^ n) : ∀ i, i ≤ n → nbitsOf (2 ^ n * a + w) i = nbitsOf w i := by
  intro i
  induction i with
  | zero => intro _; rfl
  | succ i ih =>
    intro hi
    simp only [nbitsOf]
    rw [ih (by omega), Nat.testBit_two_pow_mul_add a hw i, if_pos (by omega)]

theorem nbitsOf_valOf : ∀ (bs : List Bool), nbitsOf (valOf bs 0) bs.length = bs := by
  intro bs
  induction bs with
  | nil => rfl
  | cons b bs ih =>
    simp only [valOf, List.length_cons, nbitsOf]
    rw [valOf_eq]
    have hlt := valOf_lt bs
    have e : (0 * 2 + if b = true then 1 else 0) * 2 ^ bs.length + valOf bs 0
        = 2 ^ bs.length * (if b = true then 1 else 0) + valOf bs 0 := by ring
    rw [e, Nat.testBit_two_pow_mul_add _ hlt, if_neg (by omega), Nat.sub_self,
      nbitsOf_low _ _ _ hlt _ (Nat.le_refl _), ih]
    cases b <;> simp

theorem readNbitsLoop_spec : ∀ (n : Nat) (all : List Bool) (pos acc v : Nat) (r' : Reader),
    Reader.readNbitsLoop n { all := all, pos := pos } acc = .ok (v, r') →
    v = valOf ((all.drop pos).take n) acc ∧ ((all.drop pos).take n).length = n ∧ r' = { all := all, pos := pos + n } := by
  intro n
  induction n with
  | zero => intro all pos acc v r' h; simp [Reader.readNbitsLoop] at h; obtain ⟨h1, h2⟩ := h; subst h1 h2; simp [valOf]
  | succ n ih =>
    intro all pos acc v r' h
    simp only [Reader.readNbitsLoop, Reader.readBit, Reader.rawBit, bind, Except.bind] at h
    cases hg : all[pos]? with
    | none => rw [hg] at h; cases h
    | some b =>
      rw [hg] at h; simp only at h
      obtain ⟨i1, i2, i3⟩ := ih all (pos + 1) _ v r' h
      obtain ⟨hlt, hb⟩ := List.getElem?_eq_some_iff.1 hg
      rw [List.drop_eq_getElem_cons hlt, List.take_succ_cons, hb]
      refine ⟨by simpa [valOf] using i1, by simp [i2], by rw [i3]; congr 1; omega⟩

/-- the fixed-width kinds of the C20 codec are canonical: the bits consumed are exactly what the
    writer writes for the value that was read -/
theorem bitCodec_complete_fixed (k : Prim)
    (hk : k = .bool ∨ (∃ n, k = .nbits n) ∨ (∃ n, k = .uintLit n) ∨ (∃ n, k = .bitarray n) ∨ (∃ n, k = .bytes n)) :
    CompleteAt bitCodec k := by
  have nb : ∀ (n : Nat) (bits : List Bool) (x : Nat) (r' : Reader),
      ({ all := bits, pos := 0 } : Reader).readNbits n = .ok (x, r') →
      ∃ used, (match ({} : Writer).writeNbits n x with | .ok w => some w.out | .error _ => none) = some used ∧
        bits = used ++ bits.drop r'.pos := by
    intro n bits x r' h
    unfold Reader.readNbits at h
    simp only [Int.toNat_natCast] at h
    obtain ⟨h1, h2, h3⟩ := readNbitsLoop_spec n bits 0 0 x r' h
    simp only [List.drop_zero] at h1 h2
    have hx : x = valOf (bits.take n) 0 := h1
    have hlt : x < 2 ^ n := by rw [hx]; have := valOf_lt (bits.take n); rwa [h2] at this
    have hfit : bitLength (x : Int) ≤ n := by
      unfold bitLength
      by_cases h0 : (x : Int) = 0
      · simp [h0]
      · simp only [h0, if_false]
        have hx0 : x ≠ 0 := by omega
        have : Nat.log2 x < n := (Nat.log2_lt hx0).2 hlt
        have e : (x : Int).natAbs = x := by omega
        rw [e]; omega
    refine ⟨bits.take n, ?_, ?_⟩
    · unfold Writer.writeNbits
      have : ¬ ((x : Int) < 0 ∨ bitLength (x : Int) > (n : Int)) := by omega
      simp only [this, if_false, Int.toNat_natCast]
      have hw := VC2.Proofs.BitIO.writeBits_free (nbitsOf x n) ({} : Writer) rfl
      rw [hw]; simp only [List.nil_append]
      rw [hx]
      have := nbitsOf_valOf (bits.take n)
      rw [h2] at this
      rw [this]
    · rw [h3]; simp
  intro bits v rest h
  rcases hk with rfl | ⟨n, rfl⟩ | ⟨n, rfl⟩ | ⟨n, rfl⟩ | ⟨n, rfl⟩ <;>
    simp only [bitCodec, decBits, encBits] at h ⊢
  · simp only [Reader.readBit, Reader.rawBit] at h
    cases hg : bits[0]? with
    | none => simp [hg] at h
    | some b =>
      simp [hg] at h
      obtain ⟨h1, h2⟩ := h; subst h1 h2
      cases bits with
      | nil => simp at hg
      | cons x xs => simp at hg; subst hg; exact ⟨[x], by simp [Writer.writeBit], by simp⟩
  · split at h
    · rename_i x r' hr
      simp at h; obtain ⟨h1, h2⟩ := h; subst h1 h2
      exact nb n bits x r' hr
    · cases h
  · split at h
    · rename_i x r' hr
      simp at h; obtain ⟨h1, h2⟩ := h; subst h1 h2
      exact nb (8 * n) bits x r' hr
    · cases h
  · split at h
    · rename_i l r' hr
      simp at h; obtain ⟨h1, h2⟩ := h; subst h1 h2
      obtain ⟨i1, i2, i3⟩ := readBits_spec n bits 0 l r' hr
      have hw := (VC2.Props.C20.bitarray_roundtrip n l (by omega) [] []).1
      simp only [i2, Nat.sub_self, List.replicate_zero, List.append_nil, List.nil_append] at hw
      have hw' : ({} : Writer).writeBitarray n l = .ok { out := l } := by simpa using hw
      refine ⟨l, by simp [i2, hw'], ?_⟩
      rw [i3, i1]; simp
    · cases h
  · split at h
    · rename_i l r' hr
      simp at h; obtain ⟨h1, h2⟩ := h; subst h1 h2
      obtain ⟨i1, i2, i3⟩ := readBits_spec (8 * n) bits 0 l r' hr
      have hw := (VC2.Props.C20.bitarray_roundtrip (8 * n) l (by omega) [] []).1
      simp only [i2, Nat.sub_self, List.replicate_zero, List.append_nil, List.nil_append] at hw
      have hw' : ({} : Writer).writeBitarray (8 * n : Nat) l = .ok { out := l } := by simpa using hw
      have hw'' : ({} : Writer).writeBitarray (8 * (n : Int)) l = .ok { out := l } := by
        have : ((8 * n : Nat) : Int) = 8 * (n : Int) := by omega
        rw [← this]; exact hw'
      refine ⟨l, by simp [i2, hw''], ?_⟩
      rw [i3, i1]; simp
    · cases h

end VC2.Proofs.Serdes
