/- Helper lemmas for C06: canonical codes (the reader accepts only what the writer writes).
   Imports the single Mathlib module Mathlib.Tactic.Ring. -/
import VC2.Proofs.Serdes
import Mathlib.Tactic.Ring
namespace VC2.Proofs.Serdes
open VC2 VC2.Model.Serdes VC2.Model.BitIO


/-- a codec whose reader accepts only what its writer writes: the bits consumed are exactly the
    encoding of the value returned -/
def CompleteAt (C : Codec) (k : Prim) : Prop :=
  ∀ bits v rest, C.dec k bits = some (v, rest) → ∃ used, C.enc k v = some used ∧ bits = used ++ rest

/-- joining what is left of `u1` and what is left of `u2` -/
theorem realOf_join (blk : Bool) (u1 u2 real mid rest : List Bool) (h1 : RealOf blk u1 real mid) (h2 : RealOf blk u2 mid rest) :
    RealOf blk (u1 ++ u2) real rest := by
  unfold RealOf at *
  cases blk with
  | false =>
    simp only [Bool.false_eq_true, if_false] at *
    rw [h1, h2, List.append_assoc]
  | true =>
    simp only [if_true] at *
    obtain ⟨n1, hn1, hr1, ha1, hz1⟩ := h1
    obtain ⟨n2, hn2, hr2, ha2, hz2⟩ := h2
    by_cases hc : n1 = u1.length
    · subst hc
      refine ⟨u1.length + n2, by simp; omega, ?_, ?_, ?_⟩
      · rw [hr1, hr2, List.take_length, List.take_append]
        simp [List.take_of_length_le (Nat.le_add_right _ _), List.append_assoc]
      · rw [List.drop_append]
        simp [List.drop_of_length_le (Nat.le_add_right u1.length n2)]
        simpa using ha2
      · intro hlt; apply hz2; simp at hlt; omega
    · have hm : mid = [] := hz1 (by omega)
      subst hm
      -- nothing real is left for u2: it lies past the end entirely (or is empty)
      have hrest : rest = [] := by
        have := congrArg List.length hr2
        simp at this
        exact List.eq_nil_of_length_eq_zero (by omega)
      have hu2 : u2.all id = true := by
        have hlen := congrArg List.length hr2
        simp at hlen
        have : u2.take n2 = [] := List.eq_nil_of_length_eq_zero (by simp; omega)
        have hd : u2.drop n2 = u2 := by
          conv => rhs; rw [← List.take_append_drop n2 u2, this]
          rfl
        rw [hd] at ha2; exact ha2
      refine ⟨n1, by simp; omega, ?_, ?_, fun _ => hrest⟩
      · rw [hr1, hrest, List.take_append]
        have : n1 - u1.length = 0 := by omega
        simp [this]
      · rw [List.drop_append, all_id_append]
        have : n1 - u1.length = 0 := by omega
        rw [this, List.drop_zero]
        exact ⟨ha1, hu2⟩

/-- one primitive, read backwards: the code of the value read is what was there — inside a block
    possibly cut off by the block end, the missing bits being 1s -/
theorem decPrim_complete (C : Codec) (k : Prim) (hC : CompleteAt C k) (blk : Bool) (real : List Bool) (v : Leaf) (rest : List Bool)
    (h : decPrim C blk k real = some (v, rest)) : ∃ used, C.enc k v = some used ∧ RealOf blk used real rest := by
  unfold decPrim at h
  cases blk with
  | false =>
    simp only [Bool.false_eq_true, if_false] at h
    obtain ⟨used, he, hb⟩ := hC real v rest h
    exact ⟨used, he, by unfold RealOf; simpa using hb⟩
  | true =>
    simp only [if_true] at h
    cases hd : C.dec k (real ++ List.replicate (C.virt k) true) with
    | none => rw [hd] at h; cases h
    | some q =>
      obtain ⟨v', rest'⟩ := q
      rw [hd] at h; simp at h
      obtain ⟨hv, hrest⟩ := h
      subst hv
      obtain ⟨used, he, hb⟩ := hC _ v' rest' hd
      refine ⟨used, he, ?_⟩
      unfold RealOf; simp only [if_true]
      rcases List.append_eq_append_iff.1 hb with ⟨a', h1, h2⟩ | ⟨c', h1, h2⟩
      · -- used = real ++ a', ones = a' ++ rest': the code runs past the end
        have ha : a'.all id = true := by
          have : (a' ++ rest').all id = true := by rw [← h2]; simp
          exact ((all_id_append _ _).1 this).1
        have hlen : rest'.length ≤ C.virt k := by
          have := congrArg List.length h2; simp at this; omega
        have hr : rest = [] := by
          rw [← hrest]; simp; omega
        by_cases ha0 : a' = []
        · subst ha0
          simp at h1 h2
          refine ⟨used.length, Nat.le_refl _, ?_, by simp, fun h => absurd h (Nat.lt_irrefl _)⟩
          rw [List.take_length, h1, hr]; simp
        · refine ⟨real.length, by rw [h1]; simp, ?_, ?_, fun _ => hr⟩
          · rw [h1, hr]; simp
          · rw [h1]; simp; simpa using ha
      · -- real = used ++ c', rest' = c' ++ ones: the code lies inside the block
        refine ⟨used.length, Nat.le_refl _, ?_, by simp, fun h => absurd h (Nat.lt_irrefl _)⟩
        rw [List.take_length, ← hrest, h2, h1]
        simp

/-- deserialise-then-serialise for a sequence of primitive reads (a list target, or any straight
    run of fields): the serialiser reproduces exactly the bits the deserialiser consumed -/
theorem desPrims_ser (C : Codec) (blk : Bool) : ∀ (ks : List Prim) (bits : List Bool) (vs : List Val) (rest : List Bool),
    (∀ k ∈ ks, CompleteAt C k) → desPrims C blk ks bits = some (vs, rest) →
    ∃ used, serPrims C ks vs = some used ∧ RealOf blk used bits rest
  | [], bits, vs, rest, _, h => by
    simp [desPrims] at h; obtain ⟨h1, h2⟩ := h; subst h1 h2
    exact ⟨[], rfl, by simpa using realOf_whole blk [] bits⟩
  | k :: ks, bits, vs, rest, hc, h => by
    simp only [desPrims] at h
    cases hd : decPrim C blk k bits with
    | none => rw [hd] at h; cases h
    | some r =>
      obtain ⟨v, r1⟩ := r
      rw [hd] at h; simp only at h
      cases hr : desPrims C blk ks r1 with
      | none => rw [hr] at h; cases h
      | some q =>
        obtain ⟨vs', rest'⟩ := q
        rw [hr] at h; simp at h
        obtain ⟨e1, e2⟩ := h; subst e1 e2
        obtain ⟨u1, he, hb⟩ := decPrim_complete C k (hc k List.mem_cons_self) blk bits v r1 hd
        obtain ⟨u2, hs, hb2⟩ := desPrims_ser C blk ks r1 vs' rest' (fun x hx => hc x (List.mem_cons_of_mem _ hx)) hr
        refine ⟨u1 ++ u2, ?_, realOf_join blk u1 u2 bits r1 rest' hb hb2⟩
        simp [serPrims, he, hs]

theorem readBits_spec : ∀ (n : Nat) (all : List Bool) (pos : Nat) (l : List Bool) (r' : Reader),
    Reader.readBits n { all := all, pos := pos } = .ok (l, r') →
    l = (all.drop pos).take n ∧ l.length = n ∧ r' = { all := all, pos := pos + n } := by
  intro n
  induction n with
  | zero => intro all pos l r' h; simp [Reader.readBits] at h; obtain ⟨h1, h2⟩ := h; subst h1 h2; simp
  | succ n ih =>
    intro all pos l r' h
    simp only [Reader.readBits, Reader.readBit, Reader.rawBit, bind, Except.bind] at h
    cases hg : all[pos]? with
    | none => rw [hg] at h; cases h
    | some b =>
      rw [hg] at h; simp only at h
      cases hr : Reader.readBits n { all := all, pos := pos + 1 } with
      | error e => rw [hr] at h; cases h
      | ok q =>
        obtain ⟨bs, r2⟩ := q
        rw [hr] at h; simp [pure, Except.pure] at h
        obtain ⟨e1, e2⟩ := h; subst e1 e2
        obtain ⟨i1, i2, i3⟩ := ih all (pos + 1) bs r2 hr
        refine ⟨?_, by simp [i2], by rw [i3]; congr 1; omega⟩
        obtain ⟨hlt, hb⟩ := List.getElem?_eq_some_iff.1 hg
        rw [List.drop_eq_getElem_cons hlt, List.take_succ_cons, ← i1, hb]

def valOf : List Bool → Nat → Nat
  | [], acc => acc
  | b :: bs, acc => valOf bs (acc * 2 + (if b then 1 else 0))

theorem valOf_eq : ∀ (bs : List Bool) (acc : Nat), valOf bs acc = acc * 2 ^ bs.length + valOf bs 0 := by
  intro bs
  induction bs with
  | nil => intro acc; simp [valOf]
  | cons b bs ih =>
    intro acc
    simp only [valOf, List.length_cons]
    rw [ih (acc * 2 + _), ih (0 * 2 + _)]
    rw [Nat.pow_succ]
    cases b <;> simp <;> ring

theorem valOf_lt : ∀ (bs : List Bool), valOf bs 0 < 2 ^ bs.length := by
  intro bs
  induction bs with
  | nil => simp [valOf]
  | cons b bs ih =>
    simp only [valOf, List.length_cons]
    rw [valOf_eq, Nat.pow_succ]
    cases b <;> simp <;> omega

theorem nbitsOf_low (a w n : Nat) (hw : w < 2 ^ n) : ∀ i, i ≤ n → nbitsOf (2 ^ n * a + w) i = nbitsOf w i := by
  intro i
  induction i with
  | zero => intro _; rfl
  | succ i ih =>
    intro hi
    simp only [nbitsOf]
    rw [ih (by omega), Nat.testBit_two_pow_mul_add a hw i, if_pos (by omega)]

theorem nbitsOf_valOf : ∀ (bs : List Bool), nbitsOf (valOf bs 0) bs.length = bs := by
  intro bs
  induction bs with
  | nil => rfl
  | cons b bs ih =>
    simp only [valOf, List.length_cons, nbitsOf]
    rw [valOf_eq]
    have hlt := valOf_lt bs
    have e : (0 * 2 + if b = true then 1 else 0) * 2 ^ bs.length + valOf bs 0
        = 2 ^ bs.length * (if b = true then 1 else 0) + valOf bs 0 := by ring
    rw [e, Nat.testBit_two_pow_mul_add _ hlt, if_neg (by omega), Nat.sub_self,
      nbitsOf_low _ _ _ hlt _ (Nat.le_refl _), ih]
    cases b <;> simp

theorem readNbitsLoop_spec : ∀ (n : Nat) (all : List Bool) (pos acc v : Nat) (r' : Reader),
    Reader.readNbitsLoop n { all := all, pos := pos } acc = .ok (v, r') →
    v = valOf ((all.drop pos).take n) acc ∧ ((all.drop pos).take n).length = n ∧ r' = { all := all, pos := pos + n } := by
  intro n
  induction n with
  | zero => intro all pos acc v r' h; simp [Reader.readNbitsLoop] at h; obtain ⟨h1, h2⟩ := h; subst h1 h2; simp [valOf]
  | succ n ih =>
    intro all pos acc v r' h
    simp only [Reader.readNbitsLoop, Reader.readBit, Reader.rawBit, bind, Except.bind] at h
    cases hg : all[pos]? with
    | none => rw [hg] at h; cases h
    | some b =>
      rw [hg] at h; simp only at h
      obtain ⟨i1, i2, i3⟩ := ih all (pos + 1) _ v r' h
      obtain ⟨hlt, hb⟩ := List.getElem?_eq_some_iff.1 hg
      rw [List.drop_eq_getElem_cons hlt, List.take_succ_cons, hb]
      refine ⟨by simpa [valOf] using i1, by simp [i2], by rw [i3]; congr 1; omega⟩

/-- the fixed-width kinds of the C20 codec are canonical: the bits consumed are exactly what the
    writer writes for the value that was read -/
theorem bitCodec_complete_fixed (k : Prim)
    (hk : k = .bool ∨ (∃ n, k = .nbits n) ∨ (∃ n, k = .uintLit n) ∨ (∃ n, k = .bitarray n) ∨ (∃ n, k = .bytes n)) :
    CompleteAt bitCodec k := by
  have nb : ∀ (n : Nat) (bits : List Bool) (x : Nat) (r' : Reader),
      ({ all := bits, pos := 0 } : Reader).readNbits n = .ok (x, r') →
      ∃ used, (match ({} : Writer).writeNbits n x with | .ok w => some w.out | .error _ => none) = some used ∧
        bits = used ++ bits.drop r'.pos := by
    intro n bits x r' h
    unfold Reader.readNbits at h
    simp only [Int.toNat_natCast] at h
    obtain ⟨h1, h2, h3⟩ := readNbitsLoop_spec n bits 0 0 x r' h
    simp only [List.drop_zero] at h1 h2
    have hx : x = valOf (bits.take n) 0 := h1
    have hlt : x < 2 ^ n := by rw [hx]; have := valOf_lt (bits.take n); rwa [h2] at this
    have hfit : bitLength (x : Int) ≤ n := by
      unfold bitLength
      by_cases h0 : (x : Int) = 0
      · simp [h0]
      · simp only [h0, if_false]
        have hx0 : x ≠ 0 := by omega
        have : Nat.log2 x < n := (Nat.log2_lt hx0).2 hlt
        have e : (x : Int).natAbs = x := by omega
        rw [e]; omega
    refine ⟨bits.take n, ?_, ?_⟩
    · unfold Writer.writeNbits
      have : ¬ ((x : Int) < 0 ∨ bitLength (x : Int) > (n : Int)) := by omega
      simp only [this, if_false, Int.toNat_natCast]
      have hw := VC2.Proofs.BitIO.writeBits_free (nbitsOf x n) ({} : Writer) rfl
      rw [hw]; simp only [List.nil_append]
      rw [hx]
      have := nbitsOf_valOf (bits.take n)
      rw [h2] at this
      rw [this]
    · rw [h3]; simp
  intro bits v rest h
  rcases hk with rfl | ⟨n, rfl⟩ | ⟨n, rfl⟩ | ⟨n, rfl⟩ | ⟨n, rfl⟩ <;>
    simp only [bitCodec, decBits, encBits] at h ⊢
  · simp only [Reader.readBit, Reader.rawBit] at h
    cases hg : bits[0]? with
    | none => simp [hg] at h
    | some b =>
      simp [hg] at h
      obtain ⟨h1, h2⟩ := h; subst h1 h2
      cases bits with
      | nil => simp at hg
      | cons x xs => simp at hg; subst hg; exact ⟨[x], by simp [Writer.writeBit], by simp⟩
  · split at h
    · rename_i x r' hr
      simp at h; obtain ⟨h1, h2⟩ := h; subst h1 h2
      exact nb n bits x r' hr
    · cases h
  · split at h
    · rename_i x r' hr
      simp at h; obtain ⟨h1, h2⟩ := h; subst h1 h2
      exact nb (8 * n) bits x r' hr
    · cases h
  · split at h
    · rename_i l r' hr
      simp at h; obtain ⟨h1, h2⟩ := h; subst h1 h2
      obtain ⟨i1, i2, i3⟩ := readBits_spec n bits 0 l r' hr
      have hw := (VC2.Props.C20.bitarray_roundtrip n l (by omega) [] []).1
      simp only [i2, Nat.sub_self, List.replicate_zero, List.append_nil, List.nil_append] at hw
      have hw' : ({} : Writer).writeBitarray n l = .ok { out := l } := by simpa using hw
      refine ⟨l, by simp [i2, hw'], ?_⟩
      rw [i3, i1]; simp
    · cases h
  · split at h
    · rename_i l r' hr
      simp at h; obtain ⟨h1, h2⟩ := h; subst h1 h2
      obtain ⟨i1, i2, i3⟩ := readBits_spec (8 * n) bits 0 l r' hr
      have hw := (VC2.Props.C20.bitarray_roundtrip (8 * n) l (by omega) [] []).1
      simp only [i2, Nat.sub_self, List.replicate_zero, List.append_nil, List.nil_append] at hw
      have hw' : ({} : Writer).writeBitarray (8 * n : Nat) l = .ok { out := l } := by simpa using hw
      have hw'' : ({} : Writer).writeBitarray (8 * (n : Int)) l = .ok { out := l } := by
        have : ((8 * n : Nat) : Int) = 8 * (n : Int) := by omega
        rw [← this]; exact hw'
      refine ⟨l, by simp [i2, hw''], ?_⟩
      rw [i3, i1]; simp
    · cases h

end VC2.Proofs.Serdes
