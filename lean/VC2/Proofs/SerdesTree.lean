/- Tree-level deserialise-then-serialise for the serdes framework model (C06): whatever bits a
   (nested) description program deserialises, serialising the resulting description with the same
   program writes exactly the bits that were consumed and uses the description up. -/
import VC2.Proofs.SerdesOnes
namespace VC2.Proofs.Serdes
open VC2 VC2.Model.Serdes

variable (C : Codec)

/-- none of the keys of `new` occurs in `d` -/
def Fresh (new d : Dict) : Prop := ∀ k, new.has k = true → d.has k = false

theorem has_cons (x : String × Val) (d : Dict) (k : String) : Dict.has (x :: d) k = (x.1 == k || d.has k) := by
  simp [Dict.has]

theorem has_app (a b : Dict) (k : String) : (a ++ b).has k = (a.has k || b.has k) := by
  simp [Dict.has, List.any_append]

theorem get?_cons_self (t : String) (v : Val) (d : Dict) : Dict.get? ((t, v) :: d) t = some v := by
  simp [Dict.get?]

theorem erase_of_not_has (d : Dict) (t : String) (h : d.has t = false) : d.erase t = d := by
  unfold Dict.erase
  rw [List.filter_eq_self]
  intro x hx
  unfold Dict.has at h
  rw [List.any_eq_false] at h
  have := h x hx
  simpa using this

theorem erase_cons_self (t : String) (v : Val) (d : Dict) (h : d.has t = false) :
    Dict.erase ((t, v) :: d) t = d := by
  unfold Dict.erase
  rw [List.filter_cons]
  simp only [bne_self_eq_false, Bool.false_eq_true, if_false]
  exact erase_of_not_has d t h

theorem fetch_cons_self (t : String) (v dflt : Val) (d acc : Dict) : fetch ((t, v) :: d) acc t dflt = some v := by
  simp [fetch, get?_cons_self]

/-- `(used ++ rest).length - rest.length = used.length` -/
theorem len_sub' (b rest : List Bool) : (b ++ rest).length - rest.length = b.length := by simp

theorem realOf_false_len (used bits rest : List Bool) (h : RealOf false used bits rest) :
    bits.length - rest.length = used.length := by
  unfold RealOf at h; simp only [Bool.false_eq_true, if_false] at h
  rw [h]; simp

theorem pos_eq (blk : Bool) (pos : Nat) (used bits rest : List Bool) (h : RealOf blk used bits rest) :
    (if blk then pos else pos + (bits.length - rest.length)) = (if blk then pos else pos + used.length) := by
  cases blk with
  | true => rfl
  | false => simp only [Bool.false_eq_true, if_false]; rw [realOf_false_len used bits rest h]

mutual
theorem desStmt_ser (hC : ∀ k, CompleteAt C k) : ∀ (s : Stmt) (blk : Bool) (pos : Nat) (acc : Dict) (bits : List Bool) (acc' : Dict)
    (rest : List Bool), desStmt C blk pos s acc bits = some (acc', rest) →
    ∃ new used, acc' = acc ++ new ∧ RealOf blk used bits rest ∧ Fresh new acc ∧
      ∀ d, Fresh new d → serStmt C blk pos s (new ++ d) acc = some (used, acc ++ new, d)
  | .prim t k, blk, pos, acc, bits, acc', rest, h => by
    simp only [desStmt] at h
    split at h
    · cases h
    · rename_i hacc
      cases hd : decPrim C blk k bits with
      | none => rw [hd] at h; cases h
      | some q =>
        obtain ⟨v, r⟩ := q
        rw [hd] at h; simp at h
        obtain ⟨e1, e2⟩ := h; subst e1 e2
        obtain ⟨used, he, hb⟩ := decPrim_complete C k (hC k) blk bits v r hd
        refine ⟨[(t, .leaf v)], used, rfl, hb, ?_, ?_⟩
        · intro k' hk'
          have : t = k' := by simpa [Dict.has] using hk'
          subst this; simpa using hacc
        · intro d hf
          have hdt : d.has t = false := hf t (by simp [Dict.has])
          simp only [serStmt, List.singleton_append, get?_cons_self, he, erase_cons_self t _ d hdt]
  | .primList t ks, blk, pos, acc, bits, acc', rest, h => by
    simp only [desStmt] at h
    split at h
    · cases h
    · rename_i hacc
      cases hd : desPrims C blk ks bits with
      | none => rw [hd] at h; cases h
      | some q =>
        obtain ⟨vs, r⟩ := q
        rw [hd] at h; simp at h
        obtain ⟨e1, e2⟩ := h; subst e1 e2
        obtain ⟨used, he, hb⟩ := desPrims_ser C blk ks bits vs r (fun k _ => hC k) hd
        refine ⟨[(t, .list vs)], used, rfl, hb, ?_, ?_⟩
        · intro k' hk'
          have : t = k' := by simpa [Dict.has] using hk'
          subst this; simpa using hacc
        · intro d hf
          have hdt : d.has t = false := hf t (by simp [Dict.has])
          simp only [serStmt, List.singleton_append, fetch_cons_self, he, erase_cons_self t _ d hdt]
  | .sub t body, blk, pos, acc, bits, acc', rest, h => by
    simp only [desStmt] at h
    split at h
    · cases h
    · rename_i hacc
      cases hd : desBody C blk pos body [] bits with
      | none => rw [hd] at h; cases h
      | some q =>
        obtain ⟨d', r⟩ := q
        rw [hd] at h; simp at h
        obtain ⟨e1, e2⟩ := h; subst e1 e2
        obtain ⟨new, used, hn, hb, _, hser⟩ := desBody_ser hC body blk pos [] bits d' r hd
        simp only [List.nil_append] at hn
        subst hn
        have hs := hser [] (by intro k _; rfl)
        simp only [List.append_nil, List.nil_append] at hs
        refine ⟨[(t, .dict d')], used, rfl, hb, ?_, ?_⟩
        · intro k' hk'
          have : t = k' := by simpa [Dict.has] using hk'
          subst this; simpa using hacc
        · intro d hf
          have hdt : d.has t = false := hf t (by simp [Dict.has])
          simp only [serStmt, List.singleton_append, fetch_cons_self, hs, erase_cons_self t _ d hdt]
  | .subList t bodies, blk, pos, acc, bits, acc', rest, h => by
    simp only [desStmt] at h
    split at h
    · cases h
    · rename_i hacc
      cases hd : desBodies C blk pos bodies bits with
      | none => rw [hd] at h; cases h
      | some q =>
        obtain ⟨vs, r⟩ := q
        rw [hd] at h; simp at h
        obtain ⟨e1, e2⟩ := h; subst e1 e2
        obtain ⟨used, hb, hser⟩ := desBodies_ser hC bodies blk pos bits vs r hd
        refine ⟨[(t, .list vs)], used, rfl, hb, ?_, ?_⟩
        · intro k' hk'
          have : t = k' := by simpa [Dict.has] using hk'
          subst this; simpa using hacc
        · intro d hf
          have hdt : d.has t = false := hf t (by simp [Dict.has])
          simp only [serStmt, List.singleton_append, fetch_cons_self, hser, erase_cons_self t _ d hdt]
  | .block t len body, true, pos, acc, bits, acc', rest, h => by simp [desStmt] at h
  | .block t len body, false, pos, acc, bits, acc', rest, h => by
    simp only [desStmt] at h
    split at h
    · cases h
    · rename_i hlen
      cases hd : desBody C true pos body acc (bits.take len) with
      | none => rw [hd] at h; cases h
      | some q =>
        obtain ⟨acc1, left⟩ := q
        rw [hd] at h; simp only at h
        split at h
        · cases h
        · rename_i hacc1
          simp at h
          obtain ⟨e1, e2⟩ := h; subst e1 e2
          obtain ⟨newB, usedB, hn, hb, hfr, hser⟩ := desBody_ser hC body true pos acc (bits.take len) acc1 left hd
          subst hn
          have hlen' : len ≤ bits.length := by omega
          have htl : (bits.take len).length = len := by simp; omega
          unfold RealOf at hb; simp only [if_true] at hb
          obtain ⟨n, hn, hreal, hall, hz⟩ := hb
          -- the two shapes of a block: contents inside it, or cut off by its end
          have hshape : (usedB.drop len).all id = true ∧ left.length = len - usedB.length ∧
              usedB.take len ++ left = bits.take len := by
            by_cases hc : n = usedB.length
            · subst hc
              rw [List.take_length] at hreal
              have hl : usedB.length + left.length = len := by rw [← htl, hreal]; simp
              refine ⟨by rw [List.drop_of_length_le (by omega)]; rfl, by omega, ?_⟩
              rw [List.take_of_length_le (by omega), hreal]
            · have hl0 : left = [] := hz (by omega)
              subst hl0
              simp only [List.append_nil] at hreal
              have hn' : n = len := by
                have := congrArg List.length hreal
                rw [htl] at this; simp at this; omega
              subst hn'
              exact ⟨hall, by simp; omega, by rw [hreal]; simp⟩
          obtain ⟨hs1, hs2, hs3⟩ := hshape
          refine ⟨newB ++ [(t, .leaf (.bits left))], usedB.take len ++ left, by simp, ?_, ?_, ?_⟩
          · unfold RealOf; simp only [Bool.false_eq_true, if_false]
            rw [hs3, List.take_append_drop]
          · intro k' hk'
            rw [has_app] at hk'
            simp only [Bool.or_eq_true] at hk'
            rcases hk' with hk' | hk'
            · exact hfr k' hk'
            · have : t = k' := by simpa [Dict.has] using hk'
              subst this
              have := hacc1
              rw [has_app] at this
              simp at this; exact this.1
          · intro d hf
            have hdt : d.has t = false := hf t (by rw [has_app]; simp [Dict.has])
            have hnt : newB.has t = false := by
              have := hacc1
              rw [has_app] at this
              simp at this; exact this.2
            have hfB : Fresh newB ((t, .leaf (.bits left)) :: d) := by
              intro k' hk'
              rw [has_cons]
              have h1 : d.has k' = false := hf k' (by rw [has_app, hk']; rfl)
              have h2 : (t == k') = false := by
                cases hkt : (t == k') with
                | false => rfl
                | true =>
                  have : t = k' := by simpa using hkt
                  subst this; rw [hnt] at hk'; cases hk'
              simp [h1, h2]
            have hs := hser ((t, .leaf (.bits left)) :: d) hfB
            have e : newB ++ [(t, Val.leaf (.bits left))] ++ d = newB ++ ((t, .leaf (.bits left)) :: d) := by simp
            simp only [serStmt, e, hs]
            rw [if_pos hs1, get?_cons_self]
            simp only
            rw [if_pos hs2, erase_cons_self t _ d hdt]
            simp
  | .align t, true, pos, acc, bits, acc', rest, h => by simp [desStmt] at h
  | .align t, false, pos, acc, bits, acc', rest, h => by
    simp only [desStmt] at h
    split at h
    · cases h
    · rename_i hacc
      split at h
      · cases h
      · rename_i hlen
        simp at h
        obtain ⟨e1, e2⟩ := h; subst e1 e2
        refine ⟨[(t, .leaf (.bits (bits.take (alignBits pos))))], bits.take (alignBits pos), rfl, ?_, ?_, ?_⟩
        · unfold RealOf; simp only [Bool.false_eq_true, if_false]
          exact (List.take_append_drop _ _).symm
        · intro k' hk'
          have : t = k' := by simpa [Dict.has] using hk'
          subst this; simpa using hacc
        · intro d hf
          have hdt : d.has t = false := hf t (by simp [Dict.has])
          have hl : (bits.take (alignBits pos)).length = alignBits pos := by simp; omega
          simp only [serStmt, List.singleton_append, get?_cons_self, hl, if_true, erase_cons_self t _ d hdt]
  | .computed t v, blk, pos, acc, bits, acc', rest, h => by
    simp only [desStmt] at h
    split at h
    · cases h
    · rename_i hacc
      simp at h
      obtain ⟨e1, e2⟩ := h; subst e1 e2
      refine ⟨[(t, .leaf (.int v))], [], rfl, by simpa using realOf_whole blk [] bits, ?_, ?_⟩
      · intro k' hk'
        have : t = k' := by simpa [Dict.has] using hk'
        subst this; simpa using hacc
      · intro d hf
        have hdt : d.has t = false := hf t (by simp [Dict.has])
        have ha : acc.has t = false := by simpa using hacc
        simp only [serStmt, ha, Bool.false_eq_true, if_false, List.singleton_append, erase_cons_self t _ d hdt]
theorem desBody_ser (hC : ∀ k, CompleteAt C k) : ∀ (body : List Stmt) (blk : Bool) (pos : Nat) (acc : Dict) (bits : List Bool) (acc' : Dict)
    (rest : List Bool), desBody C blk pos body acc bits = some (acc', rest) →
    ∃ new used, acc' = acc ++ new ∧ RealOf blk used bits rest ∧ Fresh new acc ∧
      ∀ d, Fresh new d → serBody C blk pos body (new ++ d) acc = some (used, acc ++ new, d)
  | [], blk, pos, acc, bits, acc', rest, h => by
    simp [desBody] at h
    obtain ⟨e1, e2⟩ := h; subst e1 e2
    exact ⟨[], [], by simp, by simpa using realOf_whole blk [] bits, by intro k hk; simp [Dict.has] at hk,
      by intro d _; simp [serBody]⟩
  | s :: ss, blk, pos, acc, bits, acc', rest, h => by
    simp only [desBody] at h
    cases h1 : desStmt C blk pos s acc bits with
    | none => rw [h1] at h; cases h
    | some q =>
      obtain ⟨acc1, bits1⟩ := q
      rw [h1] at h; simp only at h
      obtain ⟨new1, used1, hn1, hb1, hf1, hs1⟩ := desStmt_ser hC s blk pos acc bits acc1 bits1 h1
      subst hn1
      rw [pos_eq blk pos used1 bits bits1 hb1] at h
      obtain ⟨new2, used2, hn2, hb2, hf2, hs2⟩ := desBody_ser hC ss blk _ (acc ++ new1) bits1 acc' rest h
      subst hn2
      refine ⟨new1 ++ new2, used1 ++ used2, by simp, realOf_join blk used1 used2 bits bits1 rest hb1 hb2, ?_, ?_⟩
      · intro k hk
        rw [has_app] at hk
        simp only [Bool.or_eq_true] at hk
        rcases hk with hk | hk
        · exact hf1 k hk
        · have := hf2 k hk
          rw [has_app] at this
          simp at this; exact this.1
      · intro d hf
        have hfa : Fresh new1 (new2 ++ d) := by
          intro k hk
          rw [has_app]
          have a : new2.has k = false := by
            cases hk2 : new2.has k with
            | false => rfl
            | true =>
              have := hf2 k hk2
              rw [has_app, hk] at this; simp at this
          have b : d.has k = false := hf k (by rw [has_app, hk]; rfl)
          simp [a, b]
        have hfb : Fresh new2 d := fun k hk => hf k (by rw [has_app, hk]; simp)
        have e : new1 ++ new2 ++ d = new1 ++ (new2 ++ d) := by simp
        simp only [serBody, e, hs1 _ hfa, hs2 _ hfb, List.append_assoc]
theorem desBodies_ser (hC : ∀ k, CompleteAt C k) : ∀ (bodies : List (List Stmt)) (blk : Bool) (pos : Nat) (bits : List Bool) (vs : List Val)
    (rest : List Bool), desBodies C blk pos bodies bits = some (vs, rest) →
    ∃ used, RealOf blk used bits rest ∧ serBodies C blk pos bodies vs = some (used, vs)
  | [], blk, pos, bits, vs, rest, h => by
    simp [desBodies] at h
    obtain ⟨e1, e2⟩ := h; subst e1 e2
    exact ⟨[], by simpa using realOf_whole blk [] bits, by simp [serBodies]⟩
  | body :: bodies, blk, pos, bits, vs, rest, h => by
    simp only [desBodies] at h
    cases h1 : desBody C blk pos body [] bits with
    | none => rw [h1] at h; cases h
    | some q =>
      obtain ⟨d', bits1⟩ := q
      rw [h1] at h; simp only at h
      obtain ⟨new, used1, hn, hb1, _, hs1⟩ := desBody_ser hC body blk pos [] bits d' bits1 h1
      simp only [List.nil_append] at hn
      subst hn
      rw [pos_eq blk pos used1 bits bits1 hb1] at h
      cases h2 : desBodies C blk (if blk then pos else pos + used1.length) bodies bits1 with
      | none => rw [h2] at h; cases h
      | some q2 =>
        obtain ⟨vs', r'⟩ := q2
        rw [h2] at h; simp at h
        obtain ⟨e1, e2⟩ := h; subst e1 e2
        obtain ⟨used2, hb2, hs2⟩ := desBodies_ser hC bodies blk _ bits1 vs' r' h2
        have hs := hs1 [] (by intro k _; rfl)
        simp only [List.append_nil, List.nil_append] at hs
        refine ⟨used1 ++ used2, realOf_join blk used1 used2 bits bits1 r' hb1 hb2, ?_⟩
        simp only [serBodies, hs, hs2]
end

end VC2.Proofs.Serdes
