/- Helper lemmas for the slice-padding fillers (C05).  Core Lean only. -/
import VC2.Model.SlicePad
import VC2.Proofs.FileFormat
namespace VC2.Proofs.SlicePad
open VC2 VC2.Gen VC2.Model.SlicePad

theorem byteBits_length (b : Nat) : (byteBits b).length = 8 := by simp [byteBits]

theorem flatMap_byteBits_length (l : List Nat) : (l.flatMap byteBits).length = 8 * l.length := by
  induction l with
  | nil => rfl
  | cons a as ih => simp only [List.flatMap_cons, List.length_append, byteBits_length, ih, List.length_cons]; omega

theorem flatten_replicate_length (r : Nat) (l : List Nat) : ((List.replicate r l).flatten).length = r * l.length := by
  induction r with
  | zero => simp
  | succ r ih => simp only [List.replicate_succ, List.flatten_cons, List.length_append, ih]; rw [Nat.succ_mul]; omega

/-- `(a + b - 1) // b * b ≥ a` for positive `b` -/
theorem ceil_mul_ge (a b : Int) (hb : 0 < b) : a ≤ pydiv (a + b - 1) b * b := by
  unfold pydiv
  rw [Int.fdiv_eq_ediv_of_nonneg _ (by omega)]
  have := Int.lt_ediv_add_one_mul_self (a + b - 1) hb
  rw [Int.add_mul] at this
  omega

/-- the generated padding has exactly the requested length -/
theorem filledPadding_length (n : Nat) (filler : List Nat) (a : Int) (hf : filler ≠ []) :
    (filledPadding n filler a).length = n := by
  unfold filledPadding
  simp only [List.length_take, List.length_append, List.length_replicate, flatMap_byteBits_length, flatten_replicate_length]
  apply Nat.min_eq_left
  have hl : 0 < (filler.length : Int) := by
    have : 0 < filler.length := List.length_pos_iff.mpr hf
    omega
  generalize hA : (pymod (8 - pymod a 8) 8).toNat = A
  generalize hR : pydiv ((n : Int) - (A : Int) + 7) 8 = R
  have h1 := ceil_mul_ge ((n : Int) - A) 8 (by omega)
  have e : (n : Int) - A + 8 - 1 = (n : Int) - A + 7 := by omega
  rw [e, hR] at h1
  have h2 := ceil_mul_ge R filler.length hl
  generalize hQ : pydiv (R + (filler.length : Int) - 1) filler.length = Q at h2
  by_cases hq : 0 ≤ Q
  · have : ((Q.toNat : Nat) : Int) = Q := Int.toNat_of_nonneg hq
    have h3 : (n : Int) ≤ A + 8 * (Q * filler.length) := by omega
    have : ((A + 8 * (Q.toNat * filler.length) : Nat) : Int) = A + 8 * (Q * filler.length) := by
      rw [Int.natCast_add, Int.natCast_mul, Int.natCast_mul, this]; rfl
    omega
  · have hq' : Q < 0 := by omega
    have : Q * (filler.length : Int) < 0 := Int.mul_neg_of_neg_of_pos hq' hl
    have : Q.toNat = 0 := by omega
    rw [this]; omega

/-- the callers' guard `if padding_bits > 0` around the generator -/
theorem guarded_padding_length (p : Int) (f : List Nat) (a : Int) (hf : f ≠ []) :
    (((if p > 0 then filledPadding p.toNat f a else []).length : Nat) : Int) = if p > 0 then p else 0 := by
  split
  · rw [filledPadding_length _ _ _ hf, Int.toNat_of_nonneg (by omega)]
  · rfl

/-- intlog2 of a number ≥ 2 is at least 1; of a number ≥ 1 at least 0 -/
theorem intlog2_pos (n : Nat) (hn : 2 ≤ n) : 1 ≤ intlog2 (n : Int) := by
  unfold intlog2 bitLength
  have hne : ((n : Int) - 1) ≠ 0 := by omega
  simp only [hne, if_false]
  omega

theorem intlog2_nonneg (n : Int) : 0 ≤ intlog2 n := by
  unfold intlog2 bitLength
  split <;> omega

/-- everything the fillers need to know about `intlog2` of a positive number -/
theorem intlog2_facts (n : Nat) (hn : 1 ≤ n) :
    ∃ k : Nat, intlog2 (n : Int) = (k : Int) ∧ n ≤ 2 ^ k ∧ k ≤ n ∧ (2 ≤ n → 1 ≤ k) := by
  have h0 := intlog2_nonneg (n : Int)
  refine ⟨(intlog2 (n : Int)).toNat, (Int.toNat_of_nonneg h0).symm, VC2.Proofs.FileFormat.two_pow_intlog2_ge n hn, ?_, ?_⟩
  · by_cases h2 : 2 ≤ n
    · have hlt := VC2.Proofs.FileFormat.two_pow_intlog2_lt n h2
      have hp := intlog2_pos n h2
      have hp' : 1 ≤ (intlog2 (n : Int)).toNat := by omega
      generalize (intlog2 (n : Int)).toNat = k at *
      obtain ⟨m, rfl⟩ : ∃ m, k = m + 1 := ⟨k - 1, by omega⟩
      rw [Nat.pow_succ] at hlt
      have : m < 2 ^ m := Nat.lt_two_pow_self
      omega
    · have : n = 1 := by omega
      subst this
      decide
  · intro h2
    have := intlog2_pos n h2
    omega

end VC2.Proofs.SlicePad
