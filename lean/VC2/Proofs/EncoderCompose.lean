/- Lemmas for Props/C03Compose.lean: closed form of the autofill passes on a plain sequence, and the eight stream rules on it. -/
import VC2.Model.EncoderCompose
import VC2.Props.C07
import VC2.Props.C01History
namespace VC2.Proofs.EncoderCompose
open VC2 VC2.Model.Autofill VC2.Model.Stream VC2.Model.StreamSpec VC2.Model.StreamRules VC2.Proofs.Autofill VC2.Model.EncoderCompose

/-- pictures numbered consecutively after `last` -/
def numbered (profile : Nat) : Nat → List Nat → List AUnit
  | _, [] => []
  | last, l :: ls => picN profile l ((last + 1) % M32) :: numbered profile ((last + 1) % M32) ls

theorem picCode_isPicture (p : Nat) : isPictureCode (picCode p) = true := by
  unfold picCode isPictureCode; split <;> decide

theorem numberFrom_body (p : Nat) : ∀ (ls : List Nat) (last : Nat),
    numberFrom last (ls.map (picU p) ++ [eosU]) = numbered p last ls ++ [eosU]
  | [], last => by simp [numberFrom, numberStep, eosU, isPictureCode, isFragmentCode, numbered]
  | l :: ls, last => by
    have hp := picCode_isPicture p
    simp only [List.map_cons, List.cons_append, numberFrom, numbered]
    have e1 : (numberStep last (picU p l)).1 = picN p l ((last + 1) % M32) := by
      simp [numberStep, picU, picN, hp]
    have e2 : (numberStep last (picU p l)).2 = (last + 1) % M32 := by
      simp [numberStep, picU, hp]
    rw [e1, e2, numberFrom_body p ls]

theorem numbers_closed (p h : Nat) (ls : List Nat) :
    autofillPictureNumbers (plainSeq p h ls) = hdrU p h :: numbered p (M32 - 1) ls ++ [eosU] := by
  unfold autofillPictureNumbers plainSeq
  simp only [List.cons_append, numberFrom]
  have e1 : (numberStep (M32 - 1) (hdrU p h)).1 = hdrU p h := by simp [numberStep, hdrU, isPictureCode, isFragmentCode]
  have e2 : (numberStep (M32 - 1) (hdrU p h)).2 = M32 - 1 := by simp [numberStep, hdrU, isPictureCode, isFragmentCode]
  rw [e1, e2, numberFrom_body]


/-- the version the features of such a sequence require -/
def mvOf (p : Nat) : Int := pymax VC2.Gen.MINIMUM_MAJOR_VERSION (VC2.Gen.profile_version_implication p)

theorem unitVersion_numbered (p : Nat) : ∀ (ls : List Nat) (last : Nat), ∀ u ∈ numbered p last ls, unitVersion u = 1
  | [], _, u, h => by simp [numbered] at h
  | l :: ls, last, u, h => by
    simp only [numbered, List.mem_cons] at h
    rcases h with rfl | h
    · have hp := picCode_isPicture p
      have hc : (picCode p == 0) = false := by unfold picCode; split <;> decide
      have hpc : VC2.Gen.parse_code_version_implication (picCode p) = 1 := by unfold picCode; split <;> decide
      simp only [unitVersion, picN, hc, hasTP, hp, Bool.true_or, if_true, tpVersion, plainTP]
      rw [hpc]; decide
    · exact unitVersion_numbered p ls _ u h

theorem foldl_ones (v : Int) (hv : 1 ≤ v) : ∀ (us : List AUnit), (∀ u ∈ us, unitVersion u = 1) →
    us.foldl (fun v u => pymax v (unitVersion u)) v = v
  | [], _ => rfl
  | u :: us, h => by
    simp only [List.foldl_cons]
    have : pymax v (unitVersion u) = v := by
      rw [h u List.mem_cons_self]; unfold pymax; split <;> omega
    rw [this]
    exact foldl_ones v hv us (fun w hw => h w (List.mem_cons_of_mem _ hw))

theorem required_closed (p h : Nat) (ls : List Nat) (last : Nat) :
    requiredVersion (hdrU p h :: numbered p last ls ++ [eosU]) = mvOf p := by
  unfold requiredVersion
  simp only [List.cons_append, List.foldl_cons]
  have e : pymax VC2.Gen.MINIMUM_MAJOR_VERSION (unitVersion (hdrU p h)) = mvOf p := by
    unfold mvOf unitVersion hdrU hdrVersion plainHdr
    simp only [optImp]
    unfold VC2.Gen.profile_version_implication
    by_cases hp : ((p : Nat) : Int) = 3
    · simp [hp]; decide
    · simp [hp]; decide
  rw [e]
  apply foldl_ones
  · unfold mvOf; exact pymax_ge_left _ _
  · intro u hu
    rcases List.mem_append.1 hu with hu | hu
    · exact unitVersion_numbered p ls last u hu
    · simp at hu; subst hu; decide


/-- the filled pictures and end of sequence: consecutive numbers, true distances -/
def filled (p : Nat) : Nat → Nat → List Nat → List AUnit
  | prev, _, [] => [{ code := 0x10, len := 13, next := some 0, prev := some prev }]
  | prev, last, l :: ls =>
    { code := picCode p, len := l, picNum := some ((last + 1) % M32), tp := some plainTP, next := some l, prev := some prev } ::
      filled p l ((last + 1) % M32) ls

theorem versionStep_pic (p l n : Nat) (mv : Int) (a : Bool) : versionStep mv a (picN p l n) = (picN p l n, a) := by
  have hc : ((picN p l n).code == 0) = false := by
    show (picCode p == 0) = false
    unfold picCode; split <;> decide
  unfold versionStep
  rw [if_neg (by rw [hc]; decide)]
  split
  · simp [picN, plainTP]
  · rfl

theorem fill_body (p : Nat) (mv : Int) : ∀ (ls : List Nat) (prev last : Nat),
    offsetsFrom (some prev) (versionFill mv true (numbered p last ls ++ [eosU])) = filled p prev last ls
  | [], prev, last => by
    simp [numbered, versionFill, versionStep, eosU, hasTP, isPictureCode, isFragmentCode, offsetsFrom, filled]
  | l :: ls, prev, last => by
    simp only [numbered, List.cons_append, versionFill, versionStep_pic, offsetsFrom, filled]
    have hne : (versionFill mv true (numbered p ((last + 1) % M32) ls ++ [eosU])).isEmpty = false := by
      cases ls <;> simp [numbered, versionFill]
    have h2 : (picCode p == 0x20 || picCode p == 0x30) = false := by unfold picCode; split <;> decide
    simp only [picN, h2, hne, Bool.false_eq_true, if_false, Option.getD_some]
    rw [fill_body p mv ls l ((last + 1) % M32)]


def hdrF (p h : Nat) : AUnit :=
  { code := 0, len := h, hdr := some { plainHdr p with majorVersion := some (mvOf p).toNat }, next := some h, prev := some 0 }

/-- **what the autofill passes make of a plain sequence**, in closed form -/
theorem autofill_closed (p h : Nat) (ls : List Nat) :
    autofillSeq (plainSeq p h ls) = hdrF p h :: filled p h (M32 - 1) ls := by
  unfold autofillSeq autofillOffsets autofillMajorVersion
  rw [numbers_closed, required_closed]
  simp only [List.cons_append, versionFill]
  have e1 : (versionStep (mvOf p) false (hdrU p h)).1 =
      { code := 0, len := h, hdr := some { plainHdr p with majorVersion := some (mvOf p).toNat } } := by
    simp [versionStep, hdrU, plainHdr]
  have e2 : (versionStep (mvOf p) false (hdrU p h)).2 = true := by
    simp [versionStep, hdrU, plainHdr]
  rw [e1, e2]
  have hne : (versionFill (mvOf p) true (numbered p (M32 - 1) ls ++ [eosU])).isEmpty = false := by
    cases ls <;> simp [numbered, versionFill]
  simp only [offsetsFrom, hne, Bool.false_eq_true, if_false, Option.getD_none]
  rw [fill_body]
  simp [hdrF]


def picD (p pcm l n prev : Nat) : DUnit :=
  { kind := .picture, code := picCode p, len := l, next := l, prev := prev, pcm := pcm, picNum := n }
def eosD (pcm prev : Nat) : DUnit := { kind := .eos, code := 0x10, len := 13, next := 0, prev := prev, pcm := pcm }
def hdrD (p pcm h : Nat) : DUnit :=
  { kind := .seqHdr, code := 0, len := h, next := h, prev := 0, majorVersion := (mvOf p).toNat, profile := p, pcm := pcm }

/-- the filled pictures and end of sequence as the validator sees them -/
def filledD (p pcm : Nat) : Nat → Nat → List Nat → List DUnit
  | prev, _, [] => [eosD pcm prev]
  | prev, last, l :: ls => picD p pcm l ((last + 1) % M32) prev :: filledD p pcm l ((last + 1) % M32) ls

theorem kind_pic (p : Nat) : kindOfCode (picCode p) = some .picture := by
  unfold picCode; split <;> decide

theorem toD_filled (p pcm : Nat) : ∀ (ls : List Nat) (prev last : Nat),
    (filled p prev last ls).map (toD pcm) = filledD p pcm prev last ls
  | [], prev, last => by simp [filled, filledD, toD, eosD, kindOfCode]
  | l :: ls, prev, last => by
    simp only [filled, filledD, List.map_cons]
    rw [toD_filled p pcm ls]
    simp [toD, picD, kind_pic]

theorem toD_hdr (p pcm h : Nat) : toD pcm (hdrF p h) = hdrD p pcm h := by
  simp [toD, hdrF, hdrD, kindOfCode, plainHdr]

/-- the encoder's plain sequence after automatic filling, as the validator sees it -/
theorem stream_closed (p pcm h : Nat) (ls : List Nat) :
    (autofillSeq (plainSeq p h ls)).map (toD pcm) = hdrD p pcm h :: filledD p pcm h (M32 - 1) ls := by
  rw [autofill_closed, List.map_cons, toD_hdr, toD_filled]


theorem mvOf_ge_one (p : Nat) : 1 ≤ mvOf p := by unfold mvOf; exact pymax_ge_left _ _
theorem mvOf_toNat (p : Nat) : (((mvOf p).toNat : Nat) : Int) = mvOf p := Int.toNat_of_nonneg (by have := mvOf_ge_one p; omega)
theorem codeNeed_pic (p : Nat) : codeNeed (picCode p) = 1 := by unfold codeNeed picCode; split <;> decide

theorem shape_body (p pcm : Nat) : ∀ (ls : List Nat) (prev last : Nat), shapeRule true (filledD p pcm prev last ls) = true
  | [], _, _ => by simp [filledD, shapeRule, eosD]
  | l :: ls, prev, last => by
    have hk : (Kind.picture != Kind.eos) = true := by decide
    simp only [filledD, shapeRule, picD, hk]
    exact shape_body p pcm ls _ _

theorem offsets_body (p pcm : Nat) : ∀ (ls : List Nat) (prev last : Nat), (∀ l ∈ ls, 13 ≤ l) →
    offsetsRule (some (prev, prev)) (filledD p pcm prev last ls) = true
  | [], _, _, _ => by simp [filledD, offsetsRule, eosD, immediateNext]
  | l :: ls, prev, last, h => by
    have hl : 13 ≤ l := h l List.mem_cons_self
    simp only [filledD, offsetsRule, picD, immediateNext]
    simp [hl, offsets_body p pcm ls l _ (fun x hx => h x (List.mem_cons_of_mem _ hx))]

theorem headers_body (p pcm : Nat) (hd : DUnit) : ∀ (ls : List Nat) (prev last : Nat),
    headersRule (some hd) (filledD p pcm prev last ls) = true
  | [], _, _ => by simp [filledD, headersRule, eosD]
  | l :: ls, prev, last => by simp [filledD, headersRule, picD, headers_body p pcm hd ls]

theorem codes_body (p pcm : Nat) (hd : DUnit) (hp : p = 0 ∨ p = 3) (hprof : hd.profile = p) (hv : 1 ≤ (hd.majorVersion : Int)) :
    ∀ (ls : List Nat) (prev last : Nat), codesRule (some hd) (filledD p pcm prev last ls) = true
  | [], _, _ => by
    have a : profileAllows hd.profile 0x10 = true := by rw [hprof]; rcases hp with rfl | rfl <;> decide
    have b : codeNeed 0x10 = 1 := by decide
    simp [filledD, codesRule, eosD, a, b, hv]
  | l :: ls, prev, last => by
    have a : profileAllows hd.profile (picCode p) = true := by rw [hprof]; rcases hp with rfl | rfl <;> decide
    simp [filledD, codesRule, picD, a, codeNeed_pic, hv, codes_body p pcm hd hp hprof hv ls]

theorem fragments_body (cfg : Config) (p pcm : Nat) : ∀ (ls : List Nat) (prev last : Nat),
    fragmentsRule cfg (some none) (filledD p pcm prev last ls) = true
  | [], _, _ => by simp [filledD, fragmentsRule, eosD]
  | l :: ls, prev, last => by simp [filledD, fragmentsRule, picD, fragments_body cfg p pcm ls]

theorem version_body (p pcm : Nat) (hd : DUnit) (need : Int) (hn : (hd.majorVersion : Int) ≤ need) :
    ∀ (ls : List Nat) (prev last n : Nat), versionRule (some (hd, need, n)) (filledD p pcm prev last ls) = true
  | [], _, _, _ => by
    have : (hd.majorVersion : Int) ≤ pymax need (codeNeed 0x10) := Int.le_trans hn (pymax_ge_left _ _)
    simp [filledD, versionRule, eosD, this]
  | l :: ls, prev, last, n => by
    simp only [filledD, versionRule, picD]
    have hk : ((Kind.picture = Kind.eos) : Prop) = False := by simp
    simp only [hk, if_false]
    exact version_body p pcm hd _ (Int.le_trans hn (pymax_ge_left _ _)) ls _ _ _


/-- picture numbers: with `n` pictures so far and the last number one less than `n` (mod 2^32), the rest of the
    pictures are consecutive, a first field is even, and a field sequence ends on a whole frame when the
    total is even -/
theorem numbers_body (p pcm : Nat) (hd : DUnit) (hpcm : hd.pcm = pcm) : ∀ (ls : List Nat) (prev last n : Nat) (lastOpt : Option Nat),
    (lastOpt = none ∨ lastOpt = some last) → (last + 1) % M32 = n % M32 →
    (pcm = 1 → (n + ls.length) % 2 = 0) →
    numbersRule (some (hd, lastOpt, n)) (filledD p pcm prev last ls) = true
  | [], _, last, n, lo, _, _, hev => by
    simp only [filledD, numbersRule, eosD, startsPicture]
    by_cases h1 : pcm = 1
    · have := hev h1
      simp only [List.length_nil, Nat.add_zero] at this
      simp [hpcm, h1, this]
    · simp [hpcm, h1]
  | l :: ls, prev, last, n, lo, hlo, hinv, hev => by
    have c2 : (!(hd.pcm == 1 && n % 2 == 0 && (last + 1) % M32 % 2 != 0)) = true := by
      by_cases h1 : pcm = 1
      · by_cases h2 : n % 2 = 0
        · have : (last + 1) % M32 % 2 = 0 := by unfold M32 at hinv ⊢; omega
          simp [hpcm, h1, h2, this]
        · simp [hpcm, h1, h2]
      · simp [hpcm, h1]
    have hrec := numbers_body p pcm hd hpcm ls l ((last + 1) % M32) (n + 1) (some ((last + 1) % M32)) (Or.inr rfl)
      (by unfold M32 at hinv ⊢; omega)
      (by intro h1; have := hev h1; simp only [List.length_cons] at this; omega)
    have hk : ((Kind.picture = Kind.eos) : Prop) = False := by simp
    have hs : (Kind.picture == Kind.picture || Kind.picture == Kind.fragment && (0 : Nat) == 0) = true := by decide
    rcases hlo with rfl | rfl
    · simp only [filledD, numbersRule, picD, startsPicture, hk, hs, if_true, if_false, c2, hrec, Bool.and_self]
    · simp only [filledD, numbersRule, picD, startsPicture, hk, hs, if_true, if_false, c2, hrec]
      simp [M32]


theorem wf_body (p pcm : Nat) : ∀ (ls : List Nat) (prev last : Nat), (∀ l ∈ ls, 13 ≤ l) →
    ∀ u ∈ filledD p pcm prev last ls, unitWF u = true
  | [], _, _, _, u, hu => by
    simp [filledD] at hu; subst hu; simp [unitWF, eosD, kindOfCode]
  | l :: ls, prev, last, h, u, hu => by
    simp only [filledD, List.mem_cons] at hu
    rcases hu with rfl | hu
    · have hl : 13 ≤ l := h l List.mem_cons_self
      simp [unitWF, picD, kind_pic, hl]
    · exact wf_body p pcm ls _ _ (fun x hx => h x (List.mem_cons_of_mem _ hx)) u hu

theorem agree_body (p pcm : Nat) (hd : DUnit) : ∀ (ls : List Nat) (prev last : Nat),
    hdrsAgree (some hd) (filledD p pcm prev last ls) = true
  | [], _, _ => by simp [filledD, hdrsAgree, hdrAgree, eosD]
  | l :: ls, prev, last => by
    have hk : ((Kind.picture = Kind.eos) : Prop) = False := by simp
    simp only [filledD, hdrsAgree, hdrAgree, picD, hk, if_false]
    simp [agree_body p pcm hd ls]

end VC2.Proofs.EncoderCompose
