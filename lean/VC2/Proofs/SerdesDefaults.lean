import VC2.Model.SerdesDefaults
import VC2.Proofs.Serdes
namespace VC2.Proofs.SerdesDefaults
open VC2 VC2.Model.Serdes

theorem get?_cons (p : String × Val) (d : Dict) (t : String) :
    Dict.get? (p :: d) t = if p.1 == t then some p.2 else Dict.get? d t := by
  unfold Dict.get?
  rw [List.find?_cons]
  cases h : (p.1 == t) <;> simp

theorem get?_append_some (d x : Dict) (t : String) (v : Val) (h : d.get? t = some v) : (d ++ x).get? t = some v := by
  induction d with
  | nil => simp [Dict.get?] at h
  | cons p d ih =>
    rw [List.cons_append, get?_cons]
    rw [get?_cons] at h
    split
    · rename_i hp; simpa [hp] using h
    · rename_i hp; simp only [hp] at h; exact ih (by simpa using h)

theorem get?_set_ne (d : Dict) (t t' : String) (w : Val) (hne : t' ≠ t) : (d.set t' w).get? t = d.get? t := by
  induction d with
  | nil => rfl
  | cons p d ih =>
    have e : Dict.set (p :: d) t' w = (if p.1 == t' then (t', w) else p) :: Dict.set d t' w := rfl
    rw [e, get?_cons, get?_cons, ih]
    by_cases hp : p.1 == t'
    · have hp' : p.1 = t' := by simpa using hp
      have h1 : (t' == t) = false := by simpa using hne
      have h2 : (p.1 == t) = false := by rw [hp']; exact h1
      simp [hp, h1, h2]
    · simp [hp]


theorem get?_set_eq (d : Dict) (t : String) (x w : Val) (h : d.get? t = some x) : (d.set t w).get? t = some w := by
  induction d with
  | nil => simp [Dict.get?] at h
  | cons p d ih =>
    have e : Dict.set (p :: d) t w = (if p.1 == t then (t, w) else p) :: Dict.set d t w := rfl
    rw [e, get?_cons]
    rw [get?_cons] at h
    cases hp : (p.1 == t) with
    | true => simp
    | false =>
      simp only [hp, Bool.false_eq_true, if_false] at h ⊢
      exact ih h

theorem get?_append_none (d : Dict) (t : String) (v : Val) (h : d.get? t = none) : (d ++ [(t, v)]).get? t = some v := by
  induction d with
  | nil => simp [Dict.get?]
  | cons p d ih =>
    rw [List.cons_append, get?_cons]
    rw [get?_cons] at h
    cases hp : (p.1 == t) with
    | true => simp [hp] at h
    | false =>
      simp only [hp, Bool.false_eq_true, if_false] at h ⊢
      exact ih h

/-- storing a list / sub-description under `t'` cannot disturb a LEAF stored under `t` -/
theorem set_keeps_leaf (d : Dict) (t t' : String) (v : Leaf) (x w : Val) (hx : ∀ l, x ≠ .leaf l)
    (ht : d.get? t = some (.leaf v)) (ht' : d.get? t' = some x) : (d.set t' w).get? t = some (.leaf v) := by
  have hne : t' ≠ t := by
    intro e; subst e; rw [ht] at ht'; exact hx v (by cases ht'; rfl)
  rw [get?_set_ne d t t' w hne]; exact ht

mutual
theorem fillStmt_keeps (D : Defaults) : ∀ (s : Stmt) (ctx : String) (d : Dict) (t : String) (v : Leaf),
    d.get? t = some (.leaf v) → (fillStmt D ctx s d).get? t = some (.leaf v)
  | .prim t' k, ctx, d, t, v, h => by
    unfold fillStmt
    split
    · exact get?_append_some _ _ _ _ h
    · exact h
  | .primList t' ks, ctx, d, t, v, h => by
    unfold fillStmt
    split
    · exact h
    · split
      · exact get?_append_some _ _ _ _ h
      · rename_i vs hg
        exact set_keeps_leaf d t t' v _ _ (by intro l e; cases e) h hg
      · exact h
  | .sub t' body, ctx, d, t, v, h => by
    unfold fillStmt
    split
    · exact get?_append_some _ _ _ _ h
    · rename_i d' hg
      exact set_keeps_leaf d t t' v _ _ (by intro l e; cases e) h hg
    · exact h
  | .subList t' bodies, ctx, d, t, v, h => by
    unfold fillStmt
    split
    · exact get?_append_some _ _ _ _ h
    · rename_i vs hg
      exact set_keeps_leaf d t t' v _ _ (by intro l e; cases e) h hg
    · exact h
  | .block t' len body, ctx, d, t, v, h => by
    unfold fillStmt
    exact fillBody_keeps D body ctx d t v h
  | .align t', ctx, d, t, v, h => by unfold fillStmt; exact h
  | .computed t' x, ctx, d, t, v, h => by unfold fillStmt; exact h
theorem fillBody_keeps (D : Defaults) : ∀ (body : List Stmt) (ctx : String) (d : Dict) (t : String) (v : Leaf),
    d.get? t = some (.leaf v) → (fillBody D ctx body d).get? t = some (.leaf v)
  | [], ctx, d, t, v, h => by unfold fillBody; exact h
  | s :: rest, ctx, d, t, v, h => by
    unfold fillBody
    exact fillBody_keeps D rest ctx _ t v (fillStmt_keeps D s ctx d t v h)
end

end VC2.Proofs.SerdesDefaults
