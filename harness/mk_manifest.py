"""Regenerates /verif/MANIFEST.json from the table below (run by hand when a check is added)."""
import json
import os

HERE = os.path.dirname(os.path.abspath(__file__))
ROOT = os.path.dirname(HERE)

TB = ("Trusted: Lean 4.33 kernel; axioms propext/Classical.choice/Quot.sound only (audited every run); "
      "CPython semantics; ")

CLAIMED = {
    "C12": dict(
        technique="Lean 4 theorems over definitions regenerated from the Python source by translator T1 (omega/induction), T1 differentially self-checked",
        text="Machine-checked proof, for every index >= 0 and every integer coefficient (unbounded), of the reconstruction bound, sign preservation, "
             "losslessness at index 0, strict monotonicity of quant_factor, and strict monotonicity of inverse_quant(1, .) from MINIMUM_DISTINCT_QINDEX, "
             "stated about Lean definitions that are re-translated from quantization.py on every run.",
        note=TB + "translator T1 (py2lean.py) and its per-run differential self-check against the real functions.",
        ref="§6 C12, §3.1",
    ),
    "C13": dict(
        technique="Lean 4 theorems over definitions regenerated from slice_sizes.py by translator T1 (induction, omega), T1 differentially self-checked",
        text="Machine-checked proof, for all sizes, depths and slice counts (unbounded), that slice bounds partition every subband "
             "(existence and uniqueness of the containing slice, contiguity, ends), that subband sizes times their decimation equal the least padded multiple, "
             "that the same-dimensions flag is true iff all slices of all components and levels have equal extents, and that low-delay slice sizes are "
             "non-negative and telescope to floor(n*num/den).",
        note=TB + "translator T1 and its per-run differential self-check.",
        ref="§6 C13, §3.1",
    ),
}

PENDING = "check not built yet in this round (see DESIGN.md §9 build order); no claim is made"


def main():
    props = [json.loads(l) for l in open(os.path.join(ROOT, "properties.jsonl"))]
    checks = []
    na = []
    for p in props:
        pid = p["id"]
        if pid in CLAIMED:
            c = CLAIMED[pid]
            checks.append({
                "property_id": pid,
                "quick_cmd": "./check %s --tier quick" % pid,
                "thorough_cmd": "./check %s --tier thorough" % pid,
                "evidence_file": "evidence/%s.json" % pid,
                "replay_cmd_template": "./check %s --replay {path}" % pid,
                "engine": "lean4-proof+correspondence",
                "level_claimed": {"category": "proof", "text": c["text"], "design_ref": c["ref"]},
                "level_note": c["note"],
                "technique": c["technique"],
            })
        else:
            na.append({"property_id": pid, "reason": NA.get(pid, PENDING)})
    m = {
        "version": 1,
        "setup_cmd": "./setup.sh",
        "hooks": {
            "guard": "VC2_CONFORMANCE_VERIF",
            "enable": "no source hooks are needed: every observation point is wrapped in-process by the harness; ./check exports VC2_CONFORMANCE_VERIF=1 for uniformity",
            "baseline_off_cmd": "cd /repo && /venv/bin/python -m pytest -q -p no:cacheprovider --timeout=900 --continue-on-collection-errors",
            "source_commits": [],
            "add_only": True,
        },
        "engines": [
            {
                "name": "lean4-proof+correspondence",
                "path": "check",
                "serves_properties": [c["property_id"] for c in checks],
                "kind_free_text": "Lean 4 theorems (lean/VC2/Props) about definitions regenerated from /repo by translators (harness/py2lean.py …) "
                                  "or about hand-written executable models tied to the real code by a line-protocol correspondence (lean/Driver.lean vs in-process Python)",
            }
        ],
        "checks": checks,
        "not_applicable": na,
        "notes": "See DESIGN.md. Exit 0 held / 1 VIOLATION / 2 infrastructure failure. known_findings.json lists recorded and fixed defects.",
    }
    with open(os.path.join(ROOT, "MANIFEST.json"), "w") as f:
        json.dump(m, f, indent=1)
        f.write("\n")


NA = {}

if __name__ == "__main__":
    main()
