#!/bin/sh
# adopt_seed.sh <Cxx> [dirname]: confirm a sub-agent's seeded change in its scratch worktree /tmp/wt_<Cxx>
# (demo passes clean / fails mutated, suite's stable passes unchanged), copy patch+demo+notes to seeded/<dirname>/,
# run the property's check against the worktree (VC2_REPO; /repo itself is not touched), and remove the worktree.
ID="$1"; NAME="${2:-$1}"; WT="/tmp/wt_$NAME"
V="$(cd "$(dirname "$0")/.." && pwd)"
[ -d "$WT" ] || { echo "no worktree $WT"; exit 2; }
mkdir -p "$V/seeded/$NAME"
( cd "$WT" && git diff -- vc2_conformance > "$V/seeded/$NAME/patch.diff" )
[ -s "$V/seeded/$NAME/patch.diff" ] || cp "$WT/patch.diff" "$V/seeded/$NAME/patch.diff"
cp "$WT/demo.py" "$V/seeded/$NAME/demo.py"; cp "$WT/NOTES.md" "$V/seeded/$NAME/NOTES.md" 2>/dev/null
sh "$V/harness/confirm_seed.sh" "$WT" "$V/seeded/$NAME/confirm.json" | tail -12
echo "--- check against the change:"
LID=$(echo "$ID" | tr 'A-Z' 'a-z')
if [ -f "$V/harness/props/$LID.py" ]; then sh "$V/harness/try_seed_wt.sh" "$WT" "$ID" quick; else echo "(check $ID not built yet: stored only)"; fi
git -C /repo worktree remove --force "$WT" && echo "worktree removed"
