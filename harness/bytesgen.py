"""
Byte-string generator shared by C02, C25 and C26: conformant seed streams for several codec
configurations (built by the REAL encoder), bit/byte-level mutations and field-aware mutations
(through the REAL deserialise -> edit -> serialise path), and a size guard for the validator.
"""
import copy
import signal
import sys
from io import BytesIO

sys.path.insert(0, "/repo/tests")


class OutOfScope(Exception):
    """the stream declares sizes above the property's 'modest bounds'"""


class Timeout(BaseException):  # not an Exception: the code under test may catch Exception broadly
    pass


def _alarm(signum, frame):
    raise Timeout()


_SEEDS = None


def seeds():
    """[(name, bytes)] conformant streams"""
    global _SEEDS
    if _SEEDS is not None:
        return _SEEDS
    from sample_codec_features import MINIMAL_CODEC_FEATURES as CF
    from vc2_conformance.codec_features import CodecFeatures
    from vc2_conformance.encoder import make_sequence
    from vc2_conformance.bitstream import Stream, autofill_and_serialise_stream
    from vc2_data_tables import Profiles, PictureCodingModes, WaveletFilters
    from vc2_conformance import picture_generators

    out = []

    def enc(name, cf, npics=2, extra=None):
        pics = list(picture_generators.mid_gray(cf["video_parameters"], cf["picture_coding_mode"]))[:npics]
        if cf["picture_coding_mode"] == PictureCodingModes.pictures_are_fields and len(pics) % 2:
            pics = pics[:-1] or pics * 2
        for i, p in enumerate(pics):
            p = copy.deepcopy(p)
            for c in ("Y", "C1", "C2"):
                p[c] = [[(v + 3 * x + 5 * y + i) % 200 for x, v in enumerate(row)] for y, row in enumerate(p[c])]
            pics[i] = p
        seq = make_sequence(cf, pics, *(extra or []))
        f = BytesIO()
        autofill_and_serialise_stream(f, Stream(sequences=[seq]))
        out.append((name, f.getvalue()))

    vp = copy.deepcopy(CF["video_parameters"])
    enc("hq-minimal", CodecFeatures(CF))
    enc("hq-fragments", CodecFeatures(CF, fragment_slice_count=1))
    enc("hq-lossless-depth2", CodecFeatures(CF, lossless=True, picture_bytes=None, dwt_depth=2, wavelet_index=WaveletFilters.le_gall_5_3,
                                            wavelet_index_ho=WaveletFilters.le_gall_5_3))
    enc("hq-asym", CodecFeatures(CF, dwt_depth=1, dwt_depth_ho=1, wavelet_index_ho=WaveletFilters.le_gall_5_3, picture_bytes=60,
                                 quantization_matrix={0: {"L": 0}, 1: {"H": 1}, 2: {"HL": 1, "LH": 1, "HH": 2}}))
    enc("hq-custom-qm", CodecFeatures(CF, dwt_depth=1, quantization_matrix={0: {"LL": 1}, 1: {"HL": 2, "LH": 2, "HH": 3}}, picture_bytes=40))
    enc("ld-minimal", CodecFeatures(CF, profile=Profiles.low_delay))
    enc("ld-fragments", CodecFeatures(CF, profile=Profiles.low_delay, fragment_slice_count=2, slices_x=2, slices_y=2, picture_bytes=40))
    vpf = copy.deepcopy(vp)
    vpf["frame_height"] = 8
    enc("hq-fields", CodecFeatures(CF, video_parameters=vpf, picture_coding_mode=PictureCodingModes.pictures_are_fields))
    enc("hq-padding", CodecFeatures(CF), extra=["sequence_header (padding_data high_quality_picture)+ auxiliary_data end_of_sequence"])
    # two sequences of different formats in one stream
    vp2 = copy.deepcopy(vp)
    vp2["frame_width"], vp2["frame_height"] = 12, 6
    vp2["luma_excursion"], vp2["color_diff_excursion"] = 1023, 1023
    vp2["clean_width"], vp2["clean_height"] = 12, 6
    # several pictures in one sequence (per-picture parameters can then differ from picture to picture)
    def enc_many(name, cf, n):
        pics = list(picture_generators.mid_gray(cf["video_parameters"], cf["picture_coding_mode"]))
        pics = [copy.deepcopy(p) for _ in range(n) for p in pics]
        for i, p in enumerate(pics):
            p.pop("pic_num", None)
            for c in ("Y", "C1", "C2"):
                p[c] = [[(v + 3 * x + 5 * y + i) % 200 for x, v in enumerate(row)] for y, row in enumerate(p[c])]
        f = BytesIO()
        autofill_and_serialise_stream(f, Stream(sequences=[make_sequence(cf, pics)]))
        out.append((name, f.getvalue()))

    enc_many("hq-3-pictures", CodecFeatures(CF, dwt_depth=1, quantization_matrix={0: {"LL": 0}, 1: {"HL": 1, "LH": 1, "HH": 2}}, picture_bytes=40), 3)
    enc_many("hq-fragments-2-pictures", CodecFeatures(CF, fragment_slice_count=1, dwt_depth=1,
                                                     quantization_matrix={0: {"LL": 0}, 1: {"HL": 1, "LH": 1, "HH": 2}}, picture_bytes=40), 2)
    n0 = len(out)
    enc("hq-12x6-10bit", CodecFeatures(CF, video_parameters=vp2, picture_bytes=60))
    out.append(("two-formats", out[0][1] + out[n0][1]))
    out.append(("two-formats-fields", out[0][1] + [d for (n, d) in out if n == "hq-fields"][0]))
    _SEEDS = out
    return out


def mutate_bytes(rng, data):
    b = bytearray(data)
    c = rng.random()
    if c < 0.45:
        for _ in range(rng.choice([1, 1, 2, 4, 8])):
            i = rng.randrange(len(b) * 8)
            b[i // 8] ^= 1 << (7 - i % 8)
    elif c < 0.65:
        for _ in range(rng.choice([1, 2, 3])):
            b[rng.randrange(len(b))] = rng.choice([0, 0xFF, 0x42, rng.randrange(256)])
    elif c < 0.8:
        i = rng.randrange(len(b))
        if rng.random() < 0.5:
            del b[i:i + rng.randrange(1, 5)]
        else:
            b[i:i] = bytes(rng.randrange(256) for _ in range(rng.randrange(1, 5)))
    elif c < 0.95:
        del b[rng.randrange(1, len(b)):]
    else:
        b = bytearray(rng.randrange(256) for _ in range(rng.randrange(0, 60)))
    return bytes(b)


INTERESTING = [0, 1, 2, 3, 4, 5, 6, 7, 8, 15, 16, 64, 65, 66, 255, 256]


def _int_fields(node, path, out):
    from bitarray import bitarray

    if isinstance(node, dict):
        for k, v in node.items():
            if k.startswith("_"):
                continue
            _int_fields(v, path + [k], out)
    elif isinstance(node, list):
        for i, v in enumerate(node[:6]):
            _int_fields(v, path + [i], out)
    elif isinstance(node, bool) or isinstance(node, int):
        out.append(path)


def mutate_fields(rng, data, again=0.45):
    """deserialise, change one or two header/parameter fields, serialise again (None if that fails).
    Fields that a changed flag newly requires are filled in from the default-value table, and with
    probability `again` the result is mutated once more - so that e.g. a custom colour specification is first
    switched on and its (then present) index fields are changed afterwards."""
    from vc2_conformance.bitstream import BitstreamReader, BitstreamWriter, Deserialiser, Serialiser, parse_stream, vc2_default_values
    from vc2_conformance.pseudocode.state import State

    try:
        r = BitstreamReader(BytesIO(data))
        with Deserialiser(r) as des:
            parse_stream(des, State())
        ctx = des.context
        paths = []
        _int_fields(ctx, [], paths)
        # prefer header-ish fields over slice contents
        hdr = [p for p in paths if not any(isinstance(x, str) and x.endswith("slices") for x in p)]
        for _ in range(rng.choice([1, 1, 2])):
            p = rng.choice(hdr if (hdr and rng.random() < 0.85) else paths)
            node = ctx
            for x in p[:-1]:
                node = node[x]
            old = node[p[-1]]
            if isinstance(old, bool):
                node[p[-1]] = not old
            else:
                node[p[-1]] = type(old)(rng.choice(INTERESTING + [int(old) + 1, max(0, int(old) - 1)])) if type(old) is int else rng.choice(INTERESTING)
        f = BytesIO()
        w = BitstreamWriter(f)
        # (with defaults available an enlarged dimension makes the serialiser invent a whole picture: bound the time)
        signal.signal(signal.SIGALRM, _alarm)
        signal.alarm(2)
        try:
            with Serialiser(w, ctx, vc2_default_values) as ser:
                parse_stream(ser, State())
        except Timeout:
            return None
        finally:
            signal.alarm(0)
        w.flush()
        out = f.getvalue()
        if len(out) > 20000:
            return None
        if rng.random() < again:
            m = mutate_fields(rng, out, again=again / 2)
            if m is not None:
                return m
        return out
    except Exception:  # noqa - the edited description does not serialise
        return None


def mutate(rng, data):
    if rng.random() < 0.45:
        m = mutate_fields(rng, data)
        if m is not None:
            return m
    return mutate_bytes(rng, data)


_DIRECTED = None
_DIRECTED_FAILS = []


def directed_variants():
    """header-level variants of the seed streams that random mutation practically never reaches: unknown preset
    indices (frame rate, colour spec, primaries, matrix, transfer function), presets newer than the stream's major
    version, a transform depth without default quantisation matrix, low-delay slices below one byte, field coding
    with an odd frame height.  Built by editing the deserialised description and serialising it with the real
    serialiser (missing dependent fields come from the default-value table); [(name, bytes)]"""
    global _DIRECTED
    if _DIRECTED is not None:
        return _DIRECTED
    from vc2_conformance.bitstream import BitstreamReader, Deserialiser, parse_stream, autofill_and_serialise_stream
    from vc2_conformance.pseudocode.state import State

    def edit(data, fn, header_only):
        r = BitstreamReader(BytesIO(data))
        with Deserialiser(r) as des:
            parse_stream(des, State())
        ctx = des.context
        for seq in ctx["sequences"]:
            if header_only:   # the header is validated before anything else is looked at
                seq["data_units"] = [du for du in seq["data_units"] if "sequence_header" in du][:1] + seq["data_units"][-1:]
            for du in seq["data_units"]:
                for k in ("picture_parse", "fragment_parse"):   # slice contents are re-made from the defaults
                    if k in du:
                        for node in (du[k].get("wavelet_transform", {}).get("transform_data", {}), du[k].get("fragment_data", {})):
                            node.pop("hq_slices", None)
                            node.pop("ld_slices", None)
                        # alignment padding is recomputed too (the fields before it may change size)
                        du[k].pop("padding1", None)
                        du[k].pop("padding2", None)
                        du[k].get("wavelet_transform", {}).pop("padding", None)
            for du in seq["data_units"]:
                fn(du)
                # sizes change: let the offsets be recomputed
                du["parse_info"].pop("next_parse_offset", None)
                du["parse_info"].pop("previous_parse_offset", None)
        f = BytesIO()
        signal.signal(signal.SIGALRM, _alarm)
        signal.alarm(3)
        try:
            autofill_and_serialise_stream(f, ctx)
        finally:
            signal.alarm(0)
        return f.getvalue()

    def hdr(fn):
        def g(du):
            if "sequence_header" in du:
                fn(du["sequence_header"])
        return g

    def tp(fn):
        def g(du):
            for k in ("picture_parse", "fragment_parse"):
                if k in du:
                    node = du[k].get("wavelet_transform", du[k])
                    if "transform_parameters" in node:
                        fn(node["transform_parameters"])
        return g

    def setv(path, value):
        def fn(node):
            for k in path[:-1]:
                node = node.setdefault(k, {}) if not isinstance(node.get(k), dict) else node[k]
            node[path[-1]] = value
        return fn

    def delv(path):
        def fn(node):
            for k in path[:-1]:
                node = node.get(k, {})
            node.pop(path[-1], None)
        return fn

    def many(*fns):
        def fn(node):
            for f in fns:
                f(node)
        return fn

    vp = ["video_parameters"]
    recipes = []
    for idx in (12, 99):
        recipes.append(("frame-rate-index-%d" % idx, hdr(many(setv(vp + ["frame_rate", "custom_frame_rate_flag"], True), setv(vp + ["frame_rate", "index"], idx),
                        delv(vp + ["frame_rate", "frame_rate_numer"]), delv(vp + ["frame_rate", "frame_rate_denom"])))))
    for mv in (1, 2):
        for idx in (9, 10, 11, 12, 13, 14):
            recipes.append(("frame-rate-index-%d-v%d" % (idx, mv), hdr(many(setv(["parse_parameters", "major_version"], mv),
                            setv(vp + ["frame_rate", "custom_frame_rate_flag"], True), setv(vp + ["frame_rate", "index"], idx),
                            delv(vp + ["frame_rate", "frame_rate_numer"]), delv(vp + ["frame_rate", "frame_rate_denom"])))))
        for idx in (3, 4, 5, 6, 7, 9):
            recipes.append(("color-spec-index-%d-v%d" % (idx, mv), hdr(many(setv(["parse_parameters", "major_version"], mv),
                            setv(vp + ["color_spec", "custom_color_spec_flag"], True), setv(vp + ["color_spec", "index"], idx)))))
        for part, flag in (("color_primaries", "custom_color_primaries_flag"), ("color_matrix", "custom_color_matrix_flag"),
                           ("transfer_function", "custom_transfer_function_flag")):
            for idx in (2, 3, 4, 5, 6, 9, 99):
                recipes.append(("%s-index-%d-v%d" % (part, idx, mv), hdr(many(
                    setv(["parse_parameters", "major_version"], mv),
                    setv(vp + ["color_spec", "custom_color_spec_flag"], True), setv(vp + ["color_spec", "index"], 0),
                    setv(vp + ["color_spec", part, flag], True), setv(vp + ["color_spec", part, "index"], idx)))))
    for idx in (5, 9, 99):
        recipes.append(("signal-range-index-%d" % idx, hdr(many(setv(vp + ["signal_range", "custom_signal_range_flag"], True), setv(vp + ["signal_range", "index"], idx)))))
    recipes.append(("odd-height-fields", hdr(many(setv(["picture_coding_mode"], 1), setv(vp + ["frame_size", "custom_dimensions_flag"], True),
                                             setv(vp + ["frame_size", "frame_height"], 5)))))
    for depth in (5, 6):
        recipes.append(("depth-%d-no-matrix" % depth, tp(many(setv(["dwt_depth"], depth), setv(["quant_matrix", "custom_quant_matrix"], False)))))
    for num, den in ((0, 1), (1, 2), (1, 3)):
        recipes.append(("slice-bytes-%d-%d" % (num, den), tp(many(setv(["slice_parameters", "slice_bytes_numerator"], num), setv(["slice_parameters", "slice_bytes_denominator"], den)))))
    # asymmetric wavelets without a default quantisation matrix (the error's explanation has to cope with raw indices)
    for wi, who in ((1, 4), (0, 3), (6, 1)):
        recipes.append(("asym-%d-%d-no-matrix" % (wi, who), many(
            hdr(setv(["parse_parameters", "major_version"], 3)),
            tp(many(setv(["wavelet_index"], wi), setv(["dwt_depth"], 1),
                    setv(["extended_transform_parameters", "asym_transform_index_flag"], True),
                    setv(["extended_transform_parameters", "wavelet_index_ho"], who),
                    setv(["extended_transform_parameters", "asym_transform_flag"], True),
                    setv(["extended_transform_parameters", "dwt_depth_ho"], 1),
                    setv(["quant_matrix", "custom_quant_matrix"], False), delv(["quant_matrix", "quant_matrix"]))))))

    # transform parameters that CHANGE from one picture of a sequence to the next (same total depth split differently,
    # deeper, shallower, other wavelets, other slice grids): whatever the verdict, per-picture state must not leak
    def nth_picture(k, fn):
        seen = [0]

        def g(du):
            for key in ("picture_parse", "fragment_parse"):
                if key in du:
                    node = du[key].get("wavelet_transform", du[key])
                    if "transform_parameters" in node:
                        seen[0] += 1
                        if seen[0] == k:
                            fn(node["transform_parameters"])
        return g

    per_picture = []
    for k in (2, 3):
        for d, dho in ((0, 1), (1, 0), (0, 2), (2, 0), (1, 1), (0, 0), (2, 1)):
            per_picture.append(("picture-%d-depths-%d-%d" % (k, d, dho), many(
                hdr(setv(["parse_parameters", "major_version"], 3)),
                nth_picture(k, many(setv(["dwt_depth"], d),
                                    setv(["extended_transform_parameters", "asym_transform_flag"], dho != 0),
                                    (setv if dho else (lambda p, v: delv(p)))(["extended_transform_parameters", "dwt_depth_ho"], dho),
                                    setv(["quant_matrix", "custom_quant_matrix"], True),
                                    setv(["quant_matrix", "quant_matrix"], [0] * (1 + dho + 3 * d)))))))
        for sx, sy in ((1, 1), (3, 2)):
            per_picture.append(("picture-%d-slices-%dx%d" % (k, sx, sy), nth_picture(k, many(
                setv(["slice_parameters", "slices_x"], sx), setv(["slice_parameters", "slices_y"], sy)))))
        per_picture.append(("picture-%d-wavelet-1" % k, nth_picture(k, setv(["wavelet_index"], 1))))
    out = []
    base = dict(seeds())
    for name, fn in per_picture:
        for sname in ("hq-3-pictures", "hq-fragments-2-pictures"):
            try:
                out.append(("%s@%s" % (name, sname), edit(base[sname], fn, False)))
            except (Exception, Timeout) as e:  # noqa
                _DIRECTED_FAILS.append((name, sname, type(e).__name__, str(e)[:100]))
    for name, fn in recipes:
        for sname in ("hq-minimal", "ld-minimal"):
            if name.startswith("slice-bytes") and not sname.startswith("ld"):
                continue
            try:
                out.append(("%s@%s" % (name, sname), edit(base[sname], fn, not (name.startswith("depth-") or name.startswith("slice-bytes") or name.startswith("asym-")))))
            except (Exception, Timeout) as e:  # noqa  - the edited description does not serialise
                _DIRECTED_FAILS.append((name, sname, type(e).__name__, str(e)[:100]))
                continue
    _DIRECTED = out
    return out


MAX_DIM = 64


class Guard(object):
    """wraps the decoder's assert_level_constraint in-process (as the property prescribes) to abort,
    as out of scope, streams declaring sizes above the bound"""

    MODULES = ["sequence_header", "picture_syntax", "transform_data_syntax", "fragment_syntax"]

    def __enter__(self):
        import importlib

        self.saved = []
        base = {"v": 0}

        for name in self.MODULES:
            mod = importlib.import_module("vc2_conformance.decoder.%s" % name)
            orig = getattr(mod, "assert_level_constraint", None)
            if orig is None:
                continue

            def wrapped(state, key, value, _orig=orig):
                if key == "base_video_format":
                    base["v"] = int(value)
                elif key == "custom_dimensions_flag" and not value and base["v"] not in (0, 1, 2):
                    raise OutOfScope("default dimensions of base video format %d" % base["v"])
                elif key in ("frame_width", "frame_height") and value > MAX_DIM:
                    raise OutOfScope("%s=%d" % (key, value))
                elif key in ("dwt_depth", "dwt_depth_ho") and value > 4:
                    raise OutOfScope("%s=%d" % (key, value))
                elif key in ("slices_x", "slices_y") and value > 16:
                    raise OutOfScope("%s=%d" % (key, value))
                return _orig(state, key, value)

            setattr(mod, "assert_level_constraint", wrapped)
            self.saved.append((mod, orig))
        return self

    def __exit__(self, *a):
        for mod, orig in self.saved:
            setattr(mod, "assert_level_constraint", orig)


def validate(data, limit=5, callback=None, info=None):
    """run the REAL validator with the guard -> 'OK' | '<ConformanceError class>' | 'CRASH:<type>' |
    'CRASH-IN-REPORT:<class>:<type>' | 'OUT-OF-SCOPE' | 'TIMEOUT'"""
    from vc2_conformance import decoder
    from vc2_conformance.pseudocode.state import State

    pics = []
    st = State(_output_picture_callback=callback or (lambda p, vp, pcm: pics.append(p["pic_num"])))
    signal.signal(signal.SIGALRM, _alarm)
    signal.alarm(limit)
    try:
        with Guard():
            decoder.init_io(st, BytesIO(data))
            try:
                decoder.parse_stream(st)
                return "OK"
            except OutOfScope:
                return "OUT-OF-SCOPE"
            except Timeout:
                return "TIMEOUT"
            except decoder.ConformanceError as e:
                res = type(e).__name__
                try:
                    e.explain()
                    hint = e.bitstream_viewer_hint()
                    off = e.offending_offset()
                    if info is not None:
                        info["hint_uses_offset"] = "{offset}" in hint  # where the error is, as the exception itself says / where the reader stands
                        from vc2_conformance.decoder.io import tell
                        from vc2_conformance.bitstream.io import to_bit_offset
                        info["offending_offset"] = off
                        info["tell"] = to_bit_offset(*tell(st))
                    str(e)
                except Timeout:
                    return "TIMEOUT"
                except Exception as e2:  # noqa
                    return "CRASH-IN-REPORT:%s:%s" % (res, type(e2).__name__)
                return res
            except Exception as e:  # noqa
                return "CRASH:%s" % type(e).__name__
    finally:
        signal.alarm(0)
