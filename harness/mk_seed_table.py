#!/usr/bin/env python3
"""Rewrite the seeded-change table of DESIGN.md (§0.6) from seeded/*/meta.json."""
import json
import os
import re

V = os.path.dirname(os.path.dirname(os.path.abspath(__file__)))


def esc(s):
    return str(s).replace("|", "\\|").replace("\n", " ")


rows = []
n1 = n2 = n3 = 0
for d in sorted(os.listdir(os.path.join(V, "seeded"))):
    mp = os.path.join(V, "seeded", d, "meta.json")
    if not os.path.exists(mp):
        continue
    m = json.load(open(mp))
    if d[-1] in "bcd":
        n2 += 1
    elif len(d) > 3:
        n3 += 1
    else:
        n1 += 1
    rows.append("| %s | %s | %s | %s |" % (d, esc(m.get("change", "")), esc(m.get("needs", "")), esc(m.get("caught_by", ""))))

head = """### 0.6 Seeded changes: which check catches which

%d changes (%d of round 1, one per property; %d of rounds 2-4, directory names ending in `b` / `c` / `d`; many round-3/4 changes re-discovered earlier ones;
%d of the TARGETED rounds 5-9, names ending in `e<n>` / `f<n>` / `g<n>` / `h<n>` / `i<n>`: because free rounds kept returning to the same few functions, each of these agents was
ASSIGNED a code location no earlier change had touched - different test-case generators, the payload layer of the validator, the reader side of the bit I/O,
the deserialiser-side programs, per-sequence bookkeeping, the helpers of the header generator, ...), each written by a fresh
sub-agent that saw only the property text and a scratch worktree, each confirmed (demo fails with / passes without the
change; the 3499 stable passes unchanged) before it was kept. **All are reported as VIOLATION by the quick check named in
their meta.json, with a concrete failing input** (`harness/seed_matrix.sh`; last full run `seeded/_matrix/quick_seed0_final.txt`: 177 of 183 lines VIOLATION with a concrete input, none `no-failing-input-found`; the six C24 lines are INCONCLUSIVE - that run had eight shards going at once and the C24 check, which itself starts 14 processes, hit its time limits (exit 2, not a verdict): C24, C24h1 and C24i1 were confirmed one at a time after the CSV of C24 was changed in round 8, C24b was confirmed again afterwards on the idle machine; C24f1, whose visibility depends on the shuffled schedule, gave OK in one idle re-run (seed 0) - a per-run miss that is recorded, not explained away; C24d was last confirmed with the previous CSV and timed out when re-run on the loaded machine). The last column says which part of the check
catches the change and, where the FIRST version of the check missed it or could only report a broken obligation without a
failing input, what was strengthened: round 1 — C05, C06, C10 (by C01), C20, C21, C03; round 2 — C15b, C25b, C10b and C06b (missed),
C03b (missed by C03, caught by C15), C14b and C08b (no failing input at first), C26b (the check hung); round 3 — C28c, C03c, C08c (missed),
C16c (missed by C16, caught by C15), C19c (no failing input at first); round 4 — C20d (missed: the writer's seek was not modelled), C01d (no failing input at first);
targeted rounds 5-9 — missed at first: C07e1, C05e3, C05e5, C08e1, C16e1 (which also exposed defect F11), C19f1, C02f1, C02f2, C01f1, C27f1, C04f1, C16f2, C25g2, C20g1, C08g1, C22g1, C01g1, C16g1, C05g1, C09h1, C17h1, C23h1, C24h1, C26i1, C28i1, C08i1, C05i1; no failing input at first: C17f1, C20f1, C23f1, C17g1, C22h1, C20i1 (and C20g1 after the model had the operation).

| id | change | needs | caught by |
|---|---|---|---|
""" % (n1 + n2 + n3, n1, n2, n3)

p = os.path.join(V, "DESIGN.md")
s = open(p).read()
a = s.index("### 0.6 Seeded changes")
b = s.index("### 0.7 Cost")
s = s[:a] + head + "\n".join(rows) + "\n\n" + s[b:]
open(p, "w").write(s)
print("rows:", len(rows))
