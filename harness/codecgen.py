"""
Codec-configuration generator and end-to-end runner shared by C03, C04, C08, C09, C14 (and C05/C16):
random small configurations over profiles, lossless/lossy, all wavelet pairs, symmetric and
asymmetric depths, slice counts, fragment sizes, colour subsampling, field/frame coding, custom and
default quantisation matrices, signal ranges / bit depths, picture contents and picture numbers.
Everything is encoded by the REAL encoder, serialised by the REAL serialiser and decoded by the REAL
validator.
"""
import copy
import sys
from io import BytesIO

sys.path.insert(0, "/repo/tests")


def rand_config(rng, lossless=None, profile=None, small=True, vary_metadata=False):
    from sample_codec_features import MINIMAL_CODEC_FEATURES as CF
    from vc2_conformance.codec_features import CodecFeatures
    from vc2_data_tables import (Profiles, PictureCodingModes, WaveletFilters, ColorDifferenceSamplingFormats,
                                 SourceSamplingModes, QUANTISATION_MATRICES)

    prof = profile if profile is not None else rng.choice([Profiles.high_quality, Profiles.high_quality, Profiles.low_delay])
    if lossless is None:
        lossless = prof == Profiles.high_quality and rng.random() < 0.4
    if lossless:
        prof = Profiles.high_quality
    pcm = PictureCodingModes(rng.choice([0, 0, 1]))
    cdf = ColorDifferenceSamplingFormats(rng.choice([0, 1, 2]))
    w = rng.randrange(1, 9) * (2 if cdf else 1)
    h = rng.randrange(1, 6) * (2 if cdf == 2 else 1) * (2 if pcm == 1 else 1)
    if rng.random() < 0.3:  # interlaced sources need a multiple of 2 x vertical subsampling
        ss = SourceSamplingModes.interlaced
        h = ((h + 3) // 4) * 4 if cdf == 2 else ((h + 1) // 2) * 2
    else:
        ss = SourceSamplingModes.progressive
    dy = rng.choice([1, 2, 7, 8, 8, 10, 12, 16])
    dc = rng.choice([dy, 8, 10])
    vp = copy.deepcopy(CF["video_parameters"])
    vp.update(frame_width=w, frame_height=h, clean_width=w, clean_height=h, left_offset=0, top_offset=0,
              color_diff_format_index=cdf, source_sampling=ss, top_field_first=rng.random() < 0.5,
              luma_offset=0, luma_excursion=(1 << dy) - 1, color_diff_offset=1 << (dc - 1), color_diff_excursion=(1 << dc) - 1)
    if rng.random() < 0.2:
        # one of the PRESET signal ranges as a whole (video-range presets have non-zero luma offsets): the encoder then
        # codes a preset index instead of custom values
        from vc2_data_tables import PRESET_SIGNAL_RANGES

        sr = PRESET_SIGNAL_RANGES[rng.choice(sorted(PRESET_SIGNAL_RANGES))]
        vp.update(luma_offset=sr.luma_offset, luma_excursion=sr.luma_excursion, color_diff_offset=sr.color_diff_offset,
                  color_diff_excursion=sr.color_diff_excursion)
    if vary_metadata:
        # everything else the sequence header carries: frame rate, pixel aspect ratio, clean area, colour primaries /
        # matrix / transfer function (independently, so that partial matches with the colour-spec presets occur)
        from vc2_data_tables import (PresetColorPrimaries, PresetColorMatrices, PresetTransferFunctions, PRESET_FRAME_RATES,
                                     PRESET_PIXEL_ASPECT_RATIOS)

        if rng.random() < 0.5:
            vp["frame_rate_numer"], vp["frame_rate_denom"] = rng.choice(sorted(PRESET_FRAME_RATES.values())) if rng.random() < 0.6 else (rng.randrange(1, 200), rng.choice([1, 1001]))
        if rng.random() < 0.4:
            vp["pixel_aspect_ratio_numer"], vp["pixel_aspect_ratio_denom"] = rng.choice(sorted(PRESET_PIXEL_ASPECT_RATIOS.values())) if rng.random() < 0.6 else (rng.randrange(1, 50), rng.randrange(1, 50))
        if rng.random() < 0.3:
            vp["clean_width"], vp["clean_height"] = rng.randrange(1, w + 1), rng.randrange(1, h + 1)
            vp["left_offset"], vp["top_offset"] = rng.randrange(0, w - vp["clean_width"] + 1), rng.randrange(0, h - vp["clean_height"] + 1)
        if rng.random() < 0.7:
            vp["color_primaries_index"] = rng.choice(list(PresetColorPrimaries))
            vp["color_matrix_index"] = rng.choice(list(PresetColorMatrices))
            vp["transfer_function_index"] = rng.choice(list(PresetTransferFunctions))
    depth = rng.choice([0, 1, 1, 2, 3])
    depth_ho = rng.choice([0, 0, 0, 1, 2])
    wi = WaveletFilters(rng.randrange(7))
    wiho = WaveletFilters(rng.randrange(7)) if rng.random() < 0.4 else wi
    if rng.random() < 0.12:
        # the one ASYMMETRIC wavelet pair that has default quantisation matrices (Annex D): horizontal LeGall, vertical Haar
        wi, wiho = WaveletFilters(3), WaveletFilters(1)
        depth, depth_ho = rng.choice([(1, 0), (2, 0), (1, 1), (2, 1), (0, 1), (1, 2)])
    sx, sy = rng.randrange(1, 5), rng.randrange(1, 4)
    qm = None
    if (wi, wiho, depth, depth_ho) not in QUANTISATION_MATRICES or rng.random() < 0.25:
        qm = {}
        if depth_ho == 0:
            qm[0] = {"LL": rng.randrange(0, 5)}
        else:
            qm[0] = {"L": rng.randrange(0, 5)}
            for lv in range(1, depth_ho + 1):
                qm[lv] = {"H": rng.randrange(0, 5)}
        for lv in range(depth_ho + 1, depth + depth_ho + 1):
            qm[lv] = {"HL": rng.randrange(0, 6), "LH": rng.randrange(0, 6), "HH": rng.randrange(0, 8)}
    nslices = sx * sy
    frag = rng.choice([0, 0, 1, 2, nslices, nslices + 3])
    if lossless:
        pb = None
    elif prof == Profiles.low_delay:
        pb = nslices * rng.choice([1, 2, 3, 8, 20]) + rng.randrange(0, nslices)
    else:
        pb = 4 * nslices + rng.choice([0, 1, nslices, 8 * nslices, 40 * nslices, 300 * nslices])
    return CodecFeatures(CF, name="gen", profile=prof, picture_coding_mode=pcm, video_parameters=vp, wavelet_index=wi,
                         wavelet_index_ho=wiho, dwt_depth=depth, dwt_depth_ho=depth_ho, slices_x=sx, slices_y=sy,
                         fragment_slice_count=frag, lossless=lossless, picture_bytes=pb, quantization_matrix=qm)


def dims(cf):
    from vc2_conformance.dimensions_and_depths import compute_dimensions_and_depths

    return compute_dimensions_and_depths(cf["video_parameters"], cf["picture_coding_mode"])


def rand_pictures(rng, cf, n=None):
    d = dims(cf)
    if n is None:
        n = rng.choice([1, 2, 3])
    if cf["picture_coding_mode"] == 1:
        n = 2 * ((n + 1) // 2)
    style0 = rng.choice(["noise", "max", "min", "const", "checker", "ramp"])
    # a third of the time the components differ (e.g. flat luma, all the detail in ONE colour-difference component)
    per_comp = None
    if rng.random() < 0.33:
        busy = rng.choice(["Y", "C1", "C2"])
        per_comp = dict((c, "noise" if c == busy else rng.choice(["const", "min", "max"])) for c in ("Y", "C1", "C2"))
    first = rng.choice([None, None, 0, 4, 2 ** 32 - 2])
    pics = []
    for i in range(n):
        p = {}
        for c, (w, h, depth, _) in d.items():
            style = per_comp[c] if per_comp else style0
            top = (1 << depth) - 1
            if style == "noise":
                p[c] = [[rng.randrange(0, top + 1) for _ in range(w)] for _ in range(h)]
            elif style == "max":
                p[c] = [[top] * w for _ in range(h)]
            elif style == "min":
                p[c] = [[0] * w for _ in range(h)]
            elif style == "const":
                v = rng.randrange(0, top + 1)
                p[c] = [[v] * w for _ in range(h)]
            elif style == "checker":
                p[c] = [[top if (x + y + i) % 2 else 0 for x in range(w)] for y in range(h)]
            else:
                p[c] = [[min(top, (x * top) // max(1, w - 1)) for x in range(w)] for y in range(h)]
        if first is not None:
            p["pic_num"] = (first + i) % 2 ** 32
        pics.append(p)
    return pics


def encode(cf, pics, minimum_qindex=0, minimum_slice_size_scaler=1):
    from vc2_conformance.encoder import make_sequence
    from vc2_conformance.bitstream import Stream, autofill_and_serialise_stream

    seq = make_sequence(cf, copy.deepcopy(pics), minimum_qindex=minimum_qindex, minimum_slice_size_scaler=minimum_slice_size_scaler)
    f = BytesIO()
    autofill_and_serialise_stream(f, Stream(sequences=[seq]))
    return f.getvalue(), seq


def decode(data):
    """-> (verdict, [(picture, video_parameters, picture_coding_mode)])"""
    from vc2_conformance import decoder
    from vc2_conformance.pseudocode.state import State

    out = []
    st = State(_output_picture_callback=lambda p, vp, pcm: out.append((copy.deepcopy(p), copy.deepcopy(vp), pcm)))
    decoder.init_io(st, BytesIO(data))
    try:
        decoder.parse_stream(st)
        return "OK", out
    except decoder.ConformanceError as e:
        return type(e).__name__ + ": " + str(e).split("\n")[0][:160], out
    except Exception as e:  # noqa
        return "CRASH:%s: %s" % (type(e).__name__, str(e)[:120]), out


META_KEYS = ["frame_rate_numer", "frame_rate_denom", "pixel_aspect_ratio_numer", "pixel_aspect_ratio_denom", "clean_width", "clean_height",
             "left_offset", "top_offset", "color_primaries_index", "color_matrix_index", "transfer_function_index"]


def describe(cf):
    vp = cf["video_parameters"]
    return {"profile": int(cf["profile"]), "pcm": int(cf["picture_coding_mode"]), "lossless": bool(cf["lossless"]),
            "w": int(vp["frame_width"]), "h": int(vp["frame_height"]), "cdf": int(vp["color_diff_format_index"]),
            "ss": int(vp["source_sampling"]), "tff": bool(vp["top_field_first"]),
            "luma_off": int(vp["luma_offset"]), "luma_exc": int(vp["luma_excursion"]), "cd_exc": int(vp["color_diff_excursion"]), "cd_off": int(vp["color_diff_offset"]),
            "wavelet": int(cf["wavelet_index"]), "wavelet_ho": int(cf["wavelet_index_ho"]), "depth": cf["dwt_depth"],
            "depth_ho": cf["dwt_depth_ho"], "sx": cf["slices_x"], "sy": cf["slices_y"], "frag": cf["fragment_slice_count"],
            "picture_bytes": cf["picture_bytes"], "qm": cf["quantization_matrix"],
            "meta": dict((k, int(vp[k])) for k in META_KEYS)}


def from_description(d):
    from sample_codec_features import MINIMAL_CODEC_FEATURES as CF
    from vc2_conformance.codec_features import CodecFeatures
    from vc2_data_tables import (Profiles, PictureCodingModes, WaveletFilters, ColorDifferenceSamplingFormats, SourceSamplingModes)

    vp = copy.deepcopy(CF["video_parameters"])
    vp.update(frame_width=d["w"], frame_height=d["h"], clean_width=d["w"], clean_height=d["h"], left_offset=0, top_offset=0,
              color_diff_format_index=ColorDifferenceSamplingFormats(d["cdf"]), source_sampling=SourceSamplingModes(d["ss"]),
              top_field_first=d["tff"], luma_offset=d.get("luma_off", 0), luma_excursion=d["luma_exc"], color_diff_offset=d["cd_off"],
              color_diff_excursion=d["cd_exc"])
    for k, v in d.get("meta", {}).items():
        vp[k] = type(vp[k])(v)
    qm = d["qm"]
    if qm is not None:
        qm = dict((int(k), v) for k, v in qm.items())
    return CodecFeatures(CF, name="gen", profile=Profiles(d["profile"]), picture_coding_mode=PictureCodingModes(d["pcm"]),
                         video_parameters=vp, wavelet_index=WaveletFilters(d["wavelet"]), wavelet_index_ho=WaveletFilters(d["wavelet_ho"]),
                         dwt_depth=d["depth"], dwt_depth_ho=d["depth_ho"], slices_x=d["sx"], slices_y=d["sy"],
                         fragment_slice_count=d["frag"], lossless=d["lossless"], picture_bytes=d["picture_bytes"], quantization_matrix=qm)
