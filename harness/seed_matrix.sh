#!/bin/sh
# seed_matrix.sh [ids...]: apply every kept seeded change (seeded/<id>/patch.diff, and seeded/<id>/*/patch.diff)
# in turn and run the check named in its meta.json ("check", default: the directory's id). One line per seed.
V="$(cd "$(dirname "$0")/.." && pwd)"
cd "$V" || exit 2
if [ $# -gt 0 ]; then DIRS="$*"; else DIRS=$(ls seeded); fi
for d in $DIRS; do
  for pd in seeded/$d seeded/$d/*/; do
    [ -f "$pd/patch.diff" ] || continue
    ids=$(python3 -c "import json,sys;m=json.load(open('$pd/meta.json'));print(' '.join(m.get('checks',[m.get('check','$d')])))" 2>/dev/null || echo $d)
    for id in $ids; do
      out=$(harness/try_seed_patch.sh "$pd/patch.diff" "$id" quick 2>&1 | grep -E "^(OK|VIOLATION)" | tail -1)
      echo "$pd -> $id :: $out"
    done
  done
done
git -C /repo status --short | head -3
