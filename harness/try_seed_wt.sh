#!/bin/sh
# try_seed_wt.sh <tree> <Cxx> [tier]: run a check against ANOTHER source tree (a scratch worktree holding a seeded
# change) without touching /repo: VC2_REPO points the harness, the translator and the real code at that tree,
# VC2_LEAN_DIR at a private copy of the Lean project (generated files + build output) and VC2_OUT_DIR at a private
# evidence/replay directory, so that several of these runs - and ordinary checks - can go on at once and /verif's
# own evidence is untouched.  The replay of a violation is kept as replays/seeded-<tree name>-<Cxx>.json.
T="$(readlink -f "$1")"; ID="$2"; TIER="${3:-quick}"
V="$(cd "$(dirname "$0")/.." && pwd)"
S="$(mktemp -d)"
cp -a "$V/lean" "$S/lean"
cd "$V" && VC2_REPO="$T" VC2_LEAN_DIR="$S/lean" VC2_OUT_DIR="$S" timeout 1500 ./check "$ID" --tier "$TIER" 2>"$S/err.log" | tail -3
grep -c BROKEN "$S/err.log" | sed 's/^/broken obligations: /'
grep BROKEN "$S/err.log" | cut -c1-300 | head -5
rm -rf "$S"
