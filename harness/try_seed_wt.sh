#!/bin/sh
# try_seed_wt.sh <tree> <Cxx> [tier]: run a check against ANOTHER source tree (a scratch worktree holding a seeded
# change) without touching /repo: VC2_REPO points the harness, the translator and the real code at that tree.
# The property's evidence file and the generated Lean files are put back afterwards.
T="$(readlink -f "$1")"; ID="$2"; TIER="${3:-quick}"
V="$(cd "$(dirname "$0")/.." && pwd)"
S="$(mktemp -d)"
[ -f "$V/evidence/$ID.json" ] && cp "$V/evidence/$ID.json" "$S/ev.json"
cd "$V" && VC2_REPO="$T" timeout 1500 ./check "$ID" --tier "$TIER" 2>"$S/err.log" | tail -3
if [ -f "$S/ev.json" ]; then cp "$S/ev.json" "$V/evidence/$ID.json"; else rm -f "$V/evidence/$ID.json"; fi
git -C "$V" checkout -- lean/VC2/Gen 2>/dev/null
grep -c BROKEN "$S/err.log" | sed 's/^/broken obligations: /'
grep BROKEN "$S/err.log" | cut -c1-300 | head -5
rm -rf "$S"
