"""
Differential self-check of translator T1: every generated Lean definition is evaluated
(through the compiled driver) on the same arguments as the Python function it was
translated from, on every run.  Undefined behaviour on the Python side (exception or an
implicit `None`) must coincide with the generated `_ok` predicate being false.
"""
import itertools

SMALL = {
    "index": list(range(-3, 40)),
    "quant_index": list(range(-2, 40)),
    "level": list(range(-1, 7)),
    "dwt_depth": [0, 1, 2, 3, -1],
    "dwt_depth_ho": [0, 1, 2, -1],
    "slices_x": [1, 2, 3, 5, 0],
    "slices_y": [1, 2, 3, 0],
    "slice_bytes_denominator": [1, 2, 3, 7, 0],
    "slice_bytes_numerator": [0, 1, 5, 64, 1021],
    "sx": list(range(0, 6)),
    "sy": list(range(0, 4)),
    "parse_code": list(range(0, 256)),
    "color_diff_format_index": [0, 1, 2, 3],
    "picture_coding_mode": [0, 1, 2],
    "comp": ["Y", "C1", "C2", "X"],
    "c": ["Y", "C1", "C2", "Z"],
    "bits": list(range(-1, 9)),
    "num_slices": [1, 2, 3, 6, 0],
}
DEFAULT_SMALL = [-7, -2, -1, 0, 1, 2, 3, 4, 5, 8, 11, 16, 255, 256]


def py_call(info, pyfn, args, translator):
    """Call the real function; returns the canonical result string."""
    from vc2_conformance.pseudocode.state import State

    call_args = []
    for (pname, _, ty), a in zip(info.params, args):
        if ty == "St":
            call_args.append(dict(zip(translator.fields["St"], a)))
        elif ty == "VP":
            call_args.append(dict(zip(translator.fields["VP"], a)))
        elif ty == "list":
            call_args.extend(a)
        else:
            call_args.append(a)
    try:
        r = pyfn(*call_args)
    except Exception:
        return "UNDEFINED"
    if info.mutates:
        idx = [i for i, p in enumerate(info.params) if p[2] == info.mutates][0]
        d = call_args[idx]
        return " ".join(str(d[k]) for k in translator.fields[info.mutates])
    if r is None:
        return "UNDEFINED"
    if isinstance(r, bool):
        return "True" if r else "False"
    if isinstance(r, tuple):
        if not all(isinstance(x, int) for x in r):
            return "UNDEFINED"  # left the integer domain (e.g. 2 ** -1 is a float)
        return " ".join(str(int(x)) for x in r)
    if not isinstance(r, int):
        return "UNDEFINED"  # left the integer domain (e.g. 2 ** -1 is a float)
    return str(int(r))


def line_for(info, args):
    ints, strs = [], []
    for (pname, _, ty), a in zip(info.params, args):
        if ty in ("St", "VP", "list"):
            ints.extend(a)
        elif ty == "str":
            strs.append(a if a else "_EMPTY_")
        else:
            ints.append(a)
    s = "k %s %s" % (info.lean_name, " ".join(str(i) for i in ints))
    if strs:
        s += " | " + " ".join(strs)
    return s


def draw(rng, name, big):
    pool = SMALL.get(name, DEFAULT_SMALL)
    if isinstance(pool[0], str):
        return rng.choice(pool)
    if big and name not in ("index", "quant_index", "dwt_depth", "dwt_depth_ho", "level", "bits"):
        k = rng.choice([8, 16, 31, 32, 33, 63, 64, 65, 100, 200])
        return rng.choice([-1, 1, 1, 1]) * rng.getrandbits(k)
    if name in ("index", "quant_index") and big:
        return rng.randrange(0, 600)
    return rng.choice(pool)


def gen_args(rng, info, translator, big):
    args = []
    for pname, _, ty in info.params:
        if ty == "St":
            args.append([draw(rng, f, big and rng.random() < 0.5) for f in translator.fields["St"]])
        elif ty == "VP":
            args.append([draw(rng, f, big and rng.random() < 0.5) for f in translator.fields["VP"]])
        elif ty == "list":
            args.append([draw(rng, "elt", big) for _ in range(rng.randrange(0, 5))])
        else:
            args.append(draw(rng, pname, big))
    return args


def self_check(ctx, fn_names, n_random=None):
    """Compare generated definitions with the real functions.  Returns True if all agree."""
    import importlib

    t = ctx.translator
    if t is None:
        return False
    rng = ctx.rng("T1")
    n_random = n_random or ctx.n(400, 6000)
    ok = True
    for name in fn_names:
        info = t.fns[name]
        pyfn = getattr(info.module, name)
        lines, expected = [], []
        seen = set()
        # small exhaustive box over scalar-only signatures
        scalar = all(ty in ("int", "str") for _, _, ty in info.params)
        if scalar and len(info.params) <= 2:
            pools = [SMALL.get(p, DEFAULT_SMALL) for p, _, _ in info.params]
            if name in ("inverse_quant", "forward_quant"):
                pools[0] = list(range(-40, 41))
            for args in itertools.product(*pools):
                args = list(args)
                l = line_for(info, args)
                if l in seen:
                    continue
                seen.add(l)
                lines.append(l)
                expected.append(py_call(info, pyfn, args, t))
        for i in range(n_random):
            args = gen_args(rng, info, t, big=(i % 3 == 0))
            l = line_for(info, args)
            if l in seen:
                continue
            seen.add(l)
            lines.append(l)
            expected.append(py_call(info, pyfn, args, t))
        for e in expected:
            ctx.count("T1:%s:%s" % (name, "undefined" if e == "UNDEFINED" else "defined"))
        if not ctx.diff("T1 %s == %s.%s" % (info.lean_name, info.module.__name__, name), lines, expected,
                        nontrivial=lambda l, e: e != "UNDEFINED"):
            ok = False
    return ok
