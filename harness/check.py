"""
./check <Cxx> [--tier quick|thorough] [--replay <file>]

Pipeline (DESIGN.md §2): regenerate Gen from /repo -> lake build the property's
theorems and the driver -> axiom audit -> correspondence (model vs real code) ->
on any broken obligation: failing-input search on the real code -> verdict,
known findings, evidence.
Exit 0 held / 1 VIOLATION / 2 infrastructure failure.
"""
from __future__ import print_function

import importlib
import json
import os
import sys
import time
import traceback

HERE = os.path.dirname(os.path.abspath(__file__))
sys.path.insert(0, HERE)

import common  # noqa: E402
from common import log  # noqa: E402


class Ctx(object):
    def __init__(self, pid, tier_):
        self.pid = pid
        self.tier = tier_
        self.thorough = tier_ == "thorough"
        self.driver = common.Driver()
        self.broken = []  # dicts: kind, name, detail
        self.evaluations = 0
        self.distinct = set()
        self.samples = []
        self.hist = {}
        self.traces = 0
        self.corr_names = []
        self.notes = []
        self.known_lines = []
        self.extra = {}
        self.translator = None

    def rng(self, salt=""):
        return common.rng_for(self.pid, salt)

    def n(self, quick, thorough):
        return thorough if self.thorough else quick

    def count(self, key, k=1):
        self.hist[key] = self.hist.get(key, 0) + k

    def sample(self, s, cap=6):
        if len(self.samples) < cap:
            self.samples.append(s)

    def broke(self, kind, name, detail):
        self.broken.append({"kind": kind, "name": name, "detail": detail})
        log("BROKEN %s %s: %s" % (kind, name, str(detail)[:600]))

    def diff(self, name, lines, expected, nontrivial=None, trace=True):
        """Feed `lines` to the Lean driver and compare with `expected` (outputs of the
        real implementation on the same operations).  Records disagreements."""
        if name not in self.corr_names:
            self.corr_names.append(name)
        if not lines:
            return True
        if not self.driver.available():
            self.broke("correspondence", name, "model driver is not built")
            return False
        got = self.driver.run(lines, timeout=3000 if self.thorough else 600)
        bad = []
        for i, (l, e, g) in enumerate(zip(lines, expected, got)):
            self.evaluations += 1
            if nontrivial is None or nontrivial(l, e):
                self.distinct.add(hash((name, l)))
            if e != g:
                bad.append({"op": l, "impl": e, "model": g})
        if trace:
            self.traces += len(lines)
        if lines:
            self.sample({"correspondence": name, "op": lines[len(lines) // 2], "result": expected[len(lines) // 2]})
        if bad:
            self.broke("correspondence", name, {"disagreements": len(bad), "first": bad[:3]})
            return False
        return True


def run(pid, tier_, replay=None):
    t0 = time.time()
    mod = importlib.import_module("props.%s" % pid.lower())
    prop = mod.PROP
    ctx = Ctx(pid, tier_)

    if replay:
        return prop.replay(ctx, replay)

    # 1 regenerate -----------------------------------------------------------
    import py2lean

    try:
        ctx.translator, changed = py2lean.regenerate(common.GEN_DIR)
        if changed:
            log("regenerated", changed)
    except py2lean.Unsupported as e:
        ctx.broke("translator", "T1", "source left the translatable subset: %s" % e)
    except Exception as e:  # source does not even import
        ctx.broke("translator", "T1", "%s: %s" % (type(e).__name__, e))
    if hasattr(prop, "regenerate"):
        try:
            prop.regenerate(ctx)
        except Exception as e:
            ctx.broke("translator", "%s generator" % pid, "%s: %s" % (type(e).__name__, e))
            log(traceback.format_exc())

    # 2 build ----------------------------------------------------------------
    modules = list(prop.lean_modules)
    b = common.lake_build(modules + ["driver"])
    theorem_names = []
    n_examples = 0
    for m in modules:
        try:
            ns, ne = common.theorems_in(m)
            theorem_names += [(m, n) for n in ns]
            n_examples += ne
        except IOError:
            ctx.broke("proof", m, "property file missing")
    failed_decls = set()
    if not b.ok:
        # Retry the driver alone so the correspondence can still run.
        for f in b.failed:
            failed_decls.add("%s (%s:%d)" % (f.get("decl"), f["file"], f["line"]))
        ctx.broke(
            "proof",
            "lake build " + " ".join(modules),
            {"failing": sorted(failed_decls)[:20], "log_tail": b.output[-1500:]},
        )
        common.lake_build(["driver"])

    # 3 audit ----------------------------------------------------------------
    axioms = {}
    if b.ok:
        hits = common.forbidden_tokens(common.all_project_sources())
        if hits:
            ctx.broke("audit", "forbidden tokens", hits[:10])
        for m in modules:
            names = [n for (mm, n) in theorem_names if mm == m]
            res, out, rc = common.audit_axioms(m, names)
            axioms.update(res)
            for n in names:
                if n not in res:
                    ctx.broke("audit", n, "no #print axioms output: %s" % out[-400:])
                elif not set(res[n]) <= common.ALLOWED_AXIOMS:
                    ctx.broke("audit", n, "axioms %s" % res[n])
        if ctx.thorough:
            ok, out = common.leanchecker(modules)
            ctx.extra["leanchecker"] = "ok" if ok else out
            if not ok:
                ctx.broke("audit", "leanchecker", out)

    # 4 correspondence ---------------------------------------------------------
    try:
        prop.correspond(ctx)
    except Exception as e:
        log(traceback.format_exc())
        ctx.broke("correspondence", "harness", "%s: %s" % (type(e).__name__, e))

    # 7 known findings -----------------------------------------------------------
    unknown = []
    if hasattr(prop, "findings"):
        try:
            unknown = prop.findings(ctx) or []
        except Exception as e:
            log(traceback.format_exc())
            ctx.broke("correspondence", "known-findings replay", "%s: %s" % (type(e).__name__, e))

    # 5/6 verdict --------------------------------------------------------------
    n_obl = len(theorem_names) + n_examples + len(ctx.corr_names) + 1  # +1: T1 / generators
    n_bad = len(ctx.broken)
    status = 0
    replay_path = None
    if ctx.broken or unknown:
        found = None
        if unknown:
            found = unknown[0]
        else:
            try:
                found = prop.search(ctx)
            except Exception as e:
                log(traceback.format_exc())
                ctx.notes.append("search failed: %s: %s" % (type(e).__name__, e))
        payload = {
            "property": pid,
            "seed": common.seed(),
            "tier": tier_,
            "broken_obligations": ctx.broken,
            "failing_input": found,
            "how_to_replay": "./check %s --replay <this file>" % pid,
        }
        replay_path = common.write_replay(pid, payload)
        status = 1

    for line in ctx.known_lines:
        print(line)

    coverage = {
        "obligations": n_obl,
        "discharged": max(0, n_obl - n_bad) if status else n_obl,
        "checker_cmd": "cd lean && lake build %s driver && lake env lean .lake/audit/*.lean  (#print axioms on %d theorems)"
        % (" ".join(modules), len(theorem_names)),
        "trusted_base": common.TRUSTED_BASE + list(getattr(prop, "trusted", [])),
        "theorems": [n for (_, n) in theorem_names],
        "nonvacuity_examples": n_examples,
        "axioms_used": sorted(set(a for v in axioms.values() for a in v)),
        "correspondences": ctx.corr_names,
        "evaluations": ctx.evaluations,
        "distinct_nontrivial": len(ctx.distinct),
        "rule": getattr(prop, "rule", "distinct operation lines on which model and implementation were compared"),
        "samples": ctx.samples or [{"theorems": [n for (_, n) in theorem_names][:5]}],
        "traces_validated_against_impl": ctx.traces,
        "histogram": ctx.hist,
        "source_fingerprints": dict(
            (k, v)
            for k, v in (ctx.translator.fingerprints.items() if ctx.translator else [])
            if any(k.endswith("." + f) or f in k for f in getattr(prop, "anchored_functions", []))
        ),
        "build_wall_s": round(b.wall, 1),
        "notes": ctx.notes,
        "known_findings": ctx.known_lines,
        "status_claimed": getattr(prop, "status", "full"),
    }
    coverage.update(ctx.extra)
    common.write_evidence(pid, tier_, coverage, time.time() - t0, violations=1 if status else 0,
                          assumptions=list(getattr(prop, "assumptions", [])))
    if status:
        rel = os.path.relpath(replay_path, common.ROOT)
        tail = "" if (payload["failing_input"] is not None) else " no-failing-input-found"
        print("VIOLATION property=%s replay=%s%s" % (pid, rel, tail))
    else:
        print("OK property=%s tier=%s theorems=%d correspondences=%d evaluations=%d wall=%.1fs"
              % (pid, tier_, len(theorem_names), len(ctx.corr_names), ctx.evaluations, time.time() - t0))
    return status


def main(argv):
    import argparse

    ap = argparse.ArgumentParser()
    ap.add_argument("pid")
    ap.add_argument("--tier", default=None)
    ap.add_argument("--replay", default=None)
    a = ap.parse_args(argv)
    try:
        return run(a.pid.upper(), common.tier(a.tier), a.replay)
    except SystemExit:
        raise
    except Exception:
        log(traceback.format_exc())
        return 2


if __name__ == "__main__":
    sys.exit(main(sys.argv[1:]))
