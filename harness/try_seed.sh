#!/bin/sh
# try_seed.sh <patch.diff> <Cxx> [tier]: apply a seeded change to /repo, run the check, undo the change
P="$1"; ID="$2"; TIER="${3:-quick}"
git -C /repo apply "$P" || exit 2
cd /verif && timeout 1500 ./check "$ID" --tier "$TIER" 2>/tmp/try_seed_err.log | tail -3
RC=$?
git -C /repo checkout -- .
grep -c BROKEN /tmp/try_seed_err.log | sed 's/^/broken obligations: /'
grep BROKEN /tmp/try_seed_err.log | cut -c1-300 | head -5
