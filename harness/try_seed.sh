#!/bin/sh
# try_seed.sh <patch.diff> <Cxx> [tier]: apply a seeded change to /repo, run the check, undo the change.
# The evidence file of the property is saved first and put back afterwards, so that the committed
# evidence always describes a run on the unchanged tree (a run on a mutated tree records
# violations=1 and discharged < obligations, which must never be committed).
P="$(readlink -f "$1")"; ID="$2"; TIER="${3:-quick}"
V="$(cd "$(dirname "$0")/.." && pwd)"
S="$(mktemp -d)"
[ -f "$V/evidence/$ID.json" ] && cp "$V/evidence/$ID.json" "$S/ev.json"
git -C /repo apply "$P" || { rm -rf "$S"; exit 2; }
cd "$V" && timeout 1500 ./check "$ID" --tier "$TIER" 2>"$S/err.log" | tail -3; cp "$V/replays/$ID-seed${VERIF_SEED:-0}.json" "$S/replay.json" 2>/dev/null
git -C /repo checkout -- .
cp "$V/evidence/$ID.json" "$S/mutated-ev.json" 2>/dev/null
if [ -f "$S/ev.json" ]; then cp "$S/ev.json" "$V/evidence/$ID.json"; else rm -f "$V/evidence/$ID.json"; fi
grep -c BROKEN "$S/err.log" | sed 's/^/broken obligations: /'
grep BROKEN "$S/err.log" | cut -c1-300 | head -5
rm -rf "$S"
