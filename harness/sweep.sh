#!/bin/sh
# sweep.sh <tier> <seed>...: run every claimed check (or those named in SWEEP_IDS) on the unchanged tree for the given seeds; summary on stdout
TIER="$1"; shift
D="$(cd "$(dirname "$0")/.." && pwd)"
cd "$D" || exit 2
./setup.sh > /dev/null 2>&1 || { echo "setup failed"; exit 2; }
[ -n "$SWEEP_IDS" ] && IDS="$SWEEP_IDS" || IDS=$(python3 -c "import json;print(' '.join(c['property_id'] for c in json.load(open('MANIFEST.json'))['checks']))")
for s in "$@"; do
  for p in $IDS; do
    t0=$(date +%s)
    out=$(VERIF_SEED=$s timeout 7200 ./check $p --tier $TIER 2>/tmp/sweep_err_$$.log | grep -v "^KNOWN-FINDING" | tail -1)
    rc=$?
    t1=$(date +%s)
    echo "seed=$s $p $((t1-t0))s :: $out"
    case "$out" in OK*) ;; *) grep BROKEN /tmp/sweep_err_$$.log | cut -c1-400 | head -3;; esac
  done
done
rm -f /tmp/sweep_err_$$.log
