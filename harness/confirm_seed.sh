#!/bin/sh
# confirm_seed.sh <worktree> <out-json>: demo fails with the patch, passes without, suite unchanged with it
WT="$1"; OUT="$2"
cd "$WT" || exit 2
git diff -- vc2_conformance > /tmp/confirm_$$.diff
[ -s /tmp/confirm_$$.diff ] || cp patch.diff /tmp/confirm_$$.diff
git checkout -q -- vc2_conformance
/venv/bin/python demo.py > /tmp/confirm_$$.clean 2>&1; RC_CLEAN=$?
git apply /tmp/confirm_$$.diff || exit 2
/venv/bin/python demo.py > /tmp/confirm_$$.mut 2>&1; RC_MUT=$?
/venv/bin/python -m pytest -q -p no:cacheprovider --timeout=900 tests --junitxml=/tmp/confirm_$$.xml > /tmp/confirm_$$.pytest 2>&1
/venv/bin/python - "$OUT" $RC_CLEAN $RC_MUT /tmp/confirm_$$.xml "$WT" <<'PY'
import sys, json, xml.etree.ElementTree as ET
out, rc_clean, rc_mut, xml, wt = sys.argv[1], int(sys.argv[2]), int(sys.argv[3]), sys.argv[4], sys.argv[5]
base = set(json.load(open('/root/.vp/BASELINE.json'))['stable_pass'])
passed = set()
for tc in ET.parse(xml).getroot().iter('testcase'):
    if not any(c.tag in ('failure', 'error', 'skipped') for c in tc):
        passed.add((tc.get('classname') + '::' + tc.get('name')).replace(wt, '/repo'))
missing = sorted(base - passed)
json.dump({'demo_rc_clean': rc_clean, 'demo_rc_mutated': rc_mut, 'stable_pass_still_passing': len(base & passed),
           'stable_pass_missing': missing[:10], 'n_missing': len(missing)}, open(out, 'w'), indent=1)
print(open(out).read())
PY
rm -f /tmp/confirm_$$.*
