"""
Trace-based tie between bitstream/vc2.py and the serdes framework model (C06/C21).

vc2.py's description programs are value dependent (the parse code decides which sub-structure follows, the
transform parameters decide how many coefficients a slice has, ...), so they are not translated.  Instead, ONE RUN
of them is turned into a static program of the model:

  * a proxy around the real Deserialiser / Serialiser records every serdes API call vc2.py makes;
  * the call sequence is folded into the nested statements of lean/VC2/Model/Serdes.lean (`trace_to_program`);
  * the Lean model deserialises the same bits with that program and must produce the description the real
    Deserialiser produced (`sd D` correspondence) - which includes every value completed by 1-bits beyond the end of
    a slice's bounded block, i.e. practically every slice of every real stream;
  * re-serialising the description with the real Serialiser must make vc2.py issue EXACTLY the same calls: the
    hypothesis under which the model's theorem `deserialise_then_serialise` speaks about this run.
"""
import contextlib
from io import BytesIO


class Untranslatable(Exception):
    pass


class Tracer(object):
    """forwards everything to a real SerDes object, recording the calls that make up the description program"""

    def __init__(self, real):
        self._r = real
        self.events = []

    def __getattr__(self, name):  # io, path, context, is_target_complete, ...
        return getattr(self._r, name)

    def bool(self, t):
        self.events.append(("prim", t, ("bool",)))
        return self._r.bool(t)

    def nbits(self, t, n):
        self.events.append(("prim", t, ("nbits", n)))
        return self._r.nbits(t, n)

    def uint_lit(self, t, n):
        self.events.append(("prim", t, ("ulit", n)))
        return self._r.uint_lit(t, n)

    def bitarray(self, t, n):
        self.events.append(("prim", t, ("barr", n)))
        return self._r.bitarray(t, n)

    def bytes(self, t, n):
        self.events.append(("prim", t, ("bytes", n)))
        return self._r.bytes(t, n)

    def uint(self, t):
        self.events.append(("prim", t, ("uint",)))
        return self._r.uint(t)

    def sint(self, t):
        self.events.append(("prim", t, ("sint",)))
        return self._r.sint(t)

    def declare_list(self, t):
        self.events.append(("declare", t))
        return self._r.declare_list(t)

    def subcontext_enter(self, t):
        self.events.append(("enter", t))
        return self._r.subcontext_enter(t)

    def subcontext_leave(self):
        self.events.append(("leave",))
        return self._r.subcontext_leave()

    @contextlib.contextmanager
    def subcontext(self, t):
        self.events.append(("enter", t))
        with self._r.subcontext(t):
            yield
        self.events.append(("leave",))

    def bounded_block_begin(self, length):
        # a negative length is an already exhausted block (every read gives 1, nothing is stored): the same as length 0
        self.events.append(("block_begin", max(0, length)))
        return self._r.bounded_block_begin(length)

    def bounded_block_end(self, t):
        self.events.append(("block_end", t))
        return self._r.bounded_block_end(t)

    def byte_align(self, t):
        self.events.append(("align", t))
        return self._r.byte_align(t)

    def computed_value(self, t, v):
        self.events.append(("comp", t, v if (isinstance(v, int) and not isinstance(v, bool)) else 0))
        return self._r.computed_value(t, v)

    def set_context_type(self, ty):
        return self._r.set_context_type(ty)


class _Frame(object):
    def __init__(self, body, is_ctx, length=None):
        self.body = body
        self.is_ctx = is_ctx
        self.length = length
        self.lists = {}      # declared list targets of this context: None (unused so far) or the statement collecting its uses


def trace_to_program(events):
    """fold the call sequence into nested statements (the tuples harness/props/c21.show_stmts prints)"""
    top = _Frame([], True)
    stack = [top]

    def ctx_frame():
        for f in reversed(stack):
            if f.is_ctx:
                return f
        raise Untranslatable("no context")

    def list_stmt(t, kind):
        """the statement collecting the uses of list target t, created at the first use; uses must be contiguous"""
        cf = ctx_frame()
        cur = stack[-1].body
        st = cf.lists[t]
        if st is None:
            st = [kind, t, []]
            cur.append(st)
            cf.lists[t] = st
            return st
        if st[0] != kind or not cur or cur[-1] is not st:
            raise Untranslatable("list target %s is not used contiguously" % t)
        return st

    def flush(frame):
        for t, st in frame.lists.items():
            if st is None:
                frame.body.append(["plist", t, []])

    for ev in events:
        op = ev[0]
        if op == "declare":
            ctx_frame().lists.setdefault(ev[1], None)
        elif op == "prim":
            t, kind = ev[1], ev[2]
            if t in ctx_frame().lists:
                list_stmt(t, "plist")[2].append(kind)
            else:
                stack[-1].body.append(["prim", t, kind])
        elif op == "enter":
            t = ev[1]
            body = []
            if t in ctx_frame().lists:
                list_stmt(t, "slist")[2].append(body)
            else:
                stack[-1].body.append(["sub", t, body])
            stack.append(_Frame(body, True))
        elif op == "leave":
            f = stack.pop()
            if not f.is_ctx:
                raise Untranslatable("context left inside a bounded block")
            flush(f)
        elif op == "block_begin":
            stack.append(_Frame([], False, ev[1]))
        elif op == "block_end":
            f = stack.pop()
            if f.is_ctx:
                raise Untranslatable("bounded block closed inside a sub-context")
            stack[-1].body.append(["block", ev[1], f.length, f.body])
        elif op == "align":
            stack[-1].body.append(["align", ev[1]])
        elif op == "comp":
            stack[-1].body.append(["comp", ev[1], ev[2]])
    if len(stack) != 1:
        raise Untranslatable("unbalanced trace")
    flush(top)
    return top.body


def canon(v):
    """real description -> the model's canonical notation (entries sorted by key); computed values that are not
    integers (the `_state` snapshots) are recorded as 0 by the tracer and printed as 0 here"""
    from bitarray import bitarray

    if isinstance(v, bool):
        return "b %d" % v
    if isinstance(v, int):
        return "i %d" % v
    if isinstance(v, bitarray):
        return "x " + ("".join("1" if b else "0" for b in v) or "-")
    if isinstance(v, (bytes, bytearray)):
        return "x " + ("".join("1" if (byte >> (7 - i)) & 1 else "0" for byte in v for i in range(8)) or "-")
    if isinstance(v, dict):
        items = {}
        for k, w in v.items():
            items[k] = "i 0" if k == "_state" else canon(w)
        return "{ " + "".join("%s %s " % (k, items[k]) for k in sorted(items)) + "}"
    if isinstance(v, list):
        return "[ " + "".join(canon(w) + " " for w in v) + "]"
    raise ValueError(repr(v))


def deserialise_traced(data):
    """-> (description, events)"""
    from vc2_conformance.bitstream import BitstreamReader, Deserialiser
    from vc2_conformance.bitstream import vc2
    from vc2_conformance.pseudocode.state import State

    r = BitstreamReader(BytesIO(data))
    with Deserialiser(r) as des:
        tr = Tracer(des)
        vc2.parse_stream(tr, State())
    return des.context, tr.events


def serialise_traced(context):
    """-> (bytes, events)"""
    import copy
    from vc2_conformance.bitstream import BitstreamWriter, Serialiser
    from vc2_conformance.bitstream import vc2
    from vc2_conformance.pseudocode.state import State

    f = BytesIO()
    w = BitstreamWriter(f)
    with Serialiser(w, copy.deepcopy(context)) as ser:
        tr = Tracer(ser)
        vc2.parse_stream(tr, State())
    w.flush()
    return f.getvalue(), tr.events


def bits_of(data):
    return "".join("1" if (byte >> (7 - i)) & 1 else "0" for byte in data for i in range(8)) or "-"
