"""
T1: translator from a whitelisted subset of Python (pure integer kernels of
vc2_conformance) to Lean 4 definitions.

Every run of a check re-reads /repo's current source with `ast` and rewrites
lean/VC2/Gen/Kernels.lean, so the theorems in VC2/Props are re-checked against what
the source says *now*.  Anything outside the supported subset raises
`Unsupported`, which the check reports as a broken obligation (fail closed).

Semantics preserved:
  //  -> VC2.pydiv (Int.fdiv)        %  -> VC2.pymod (Int.fmod)
  <<  -> VC2.shl   >> -> VC2.shr     ** -> VC2.pypow     &,|,^ -> Int land/lor/xor
  abs/min/max -> pyabs/pymin/pymax   x.bit_length() -> bitLength x
Partiality is explicit: for every function `f` a companion `f_ok : … → Bool` is
generated that is false exactly on the paths where Python would raise, fall off the
end of an if/elif chain (implicit None), read an unassigned local, divide by zero, or
shift/raise to a negative amount.  On such paths `f` itself returns a fixed dummy.
"""
import ast
import inspect
import importlib
import textwrap
import hashlib


class Unsupported(Exception):
    pass


STRUCT_PARAMS = {"state": "St", "video_parameters": "VP"}

BINOPS = {
    ast.Add: "({a} + {b})",
    ast.Sub: "({a} - {b})",
    ast.Mult: "({a} * {b})",
    ast.FloorDiv: "(pydiv {a} {b})",
    ast.Mod: "(pymod {a} {b})",
    ast.LShift: "(shl {a} {b})",
    ast.RShift: "(shr {a} {b})",
    ast.Pow: "(pypow {a} {b})",
    ast.BitAnd: "(pyand {a} {b})",
    ast.BitOr: "(pyor {a} {b})",
    ast.BitXor: "(pyxor {a} {b})",
}
CMPOPS = {
    ast.Eq: "=",
    ast.NotEq: "≠",
    ast.Lt: "<",
    ast.LtE: "≤",
    ast.Gt: ">",
    ast.GtE: "≥",
}

DUMMY = {"int": "0", "bool": "false", "str": '""', "St": "st", "VP": "video_parameters"}


def and_ok(*xs):
    xs = [x for x in xs if x != "true"]
    if not xs:
        return "true"
    if "false" in xs:
        return "false"
    return "(" + " && ".join(xs) + ")"


class FnInfo(object):
    def __init__(self, name, node, module, lean_name=None):
        self.name = name
        self.node = node
        self.module = module
        self.lean_name = lean_name or name
        self.params = []  # (pyname, leanname, type)
        self.ret = None
        self.mutates = None  # struct type name if it returns the mutated struct


class Translator(object):
    def __init__(self):
        self.fns = {}  # python name -> FnInfo
        self.order = []
        self.fields = {"St": [], "VP": []}
        self.consts = {}  # module-level names -> int values (resolved by import)
        self.fingerprints = {}

    # ------------------------------------------------------------------ loading
    def add_module(self, modname, fn_names, rename=None):
        mod = importlib.import_module(modname)
        src = inspect.getsource(mod)
        tree = ast.parse(src)
        found = {}
        for node in tree.body:
            if isinstance(node, ast.FunctionDef):
                found[node.name] = node
        for name in fn_names:
            if name not in found:
                raise Unsupported("function %s.%s no longer exists" % (modname, name))
            info = FnInfo(name, found[name], mod, (rename or {}).get(name))
            self.fns[name] = info
            self.order.append(name)
            self.fingerprints[modname + "." + name] = hashlib.sha256(
                ast.dump(found[name], annotate_fields=False).encode()
            ).hexdigest()[:16]

    # ------------------------------------------------------------ const lookup
    def const_value(self, info, node):
        """Resolve Name / Attribute chains (enum members, module constants) by
        looking them up in the real, imported module."""
        try:
            expr = ast.Expression(body=node)
            ast.fix_missing_locations(expr)
            v = eval(compile(expr, "<const>", "eval"), vars(info.module))
        except Exception:
            return None
        if isinstance(v, bool):
            return None
        try:
            return int(v)
        except Exception:
            return None

    # --------------------------------------------------------------- signature
    def analyse_signature(self, info):
        node = info.node
        str_params = set()
        for sub in ast.walk(node):
            if isinstance(sub, ast.Compare):
                operands = [sub.left] + list(sub.comparators)
                if any(
                    isinstance(o, ast.Constant) and isinstance(o.value, str)
                    for o in operands
                ):
                    for o in operands:
                        if isinstance(o, ast.Name):
                            str_params.add(o.id)
        for sub in ast.walk(node):
            if isinstance(sub, ast.Call) and isinstance(sub.func, ast.Name) and sub.func.id in self.fns:
                callee = self.fns[sub.func.id]
                for a, p in zip(sub.args, callee.params):
                    if p[2] == "str" and isinstance(a, ast.Name):
                        str_params.add(a.id)
        params = []
        args = node.args
        if args.kwonlyargs or args.kwarg:
            raise Unsupported("%s: keyword-only/** parameters" % info.name)
        for a in args.args:
            if a.arg in STRUCT_PARAMS:
                ty = STRUCT_PARAMS[a.arg]
                lean = "st" if a.arg == "state" else a.arg
            elif a.arg in str_params:
                ty, lean = "str", a.arg
            else:
                ty, lean = "int", a.arg
            params.append((a.arg, lean, ty))
        if args.vararg:
            params.append((args.vararg.arg, args.vararg.arg, "list"))
        info.params = params
        # does it write to a struct param?
        for sub in ast.walk(node):
            tgt = None
            if isinstance(sub, ast.Assign) and len(sub.targets) == 1:
                tgt = sub.targets[0]
            elif isinstance(sub, ast.AugAssign):
                tgt = sub.target
            if (
                isinstance(tgt, ast.Subscript)
                and isinstance(tgt.value, ast.Name)
                and tgt.value.id in STRUCT_PARAMS
            ):
                if info.mutates not in (None, STRUCT_PARAMS[tgt.value.id]):
                    raise Unsupported("%s mutates two structures" % info.name)
                info.mutates = STRUCT_PARAMS[tgt.value.id]
        # result type
        rets = [s for s in ast.walk(node) if isinstance(s, ast.Return) and s.value is not None]
        if info.mutates:
            if rets:
                raise Unsupported("%s mutates state and returns a value" % info.name)
            info.ret = info.mutates
        elif not rets:
            raise Unsupported("%s returns nothing" % info.name)
        else:
            info.ret = None  # inferred at first translation of a return

    # -------------------------------------------------------------- expressions
    def field(self, struct, key):
        if key not in self.fields[struct]:
            self.fields[struct].append(key)
        return key

    def expr(self, info, e, env):
        """returns (lean, type, ok)"""
        if isinstance(e, ast.Constant):
            if isinstance(e.value, bool):
                return ("True" if e.value else "False", "bool", "true")
            if isinstance(e.value, int):
                return ("(%d : Int)" % e.value, "int", "true")
            if isinstance(e.value, str):
                return ('"%s"' % e.value, "str", "true")
            raise Unsupported("%s: constant %r" % (info.name, e.value))
        if isinstance(e, ast.Name):
            if e.id in env:
                lean, ty, assigned = env[e.id]
                if not assigned:
                    return (DUMMY[ty], ty, "false")
                return (lean, ty, "true")
            v = self.const_value(info, e)
            if v is None:
                raise Unsupported("%s: free name %s" % (info.name, e.id))
            return ("(%d : Int)" % v, "int", "true")
        if isinstance(e, ast.Attribute):
            v = self.const_value(info, e)
            if v is None:
                raise Unsupported("%s: attribute %s" % (info.name, ast.dump(e)))
            return ("(%d : Int)" % v, "int", "true")
        if isinstance(e, ast.Subscript):
            if (
                isinstance(e.value, ast.Name)
                and e.value.id in STRUCT_PARAMS
                and e.value.id in env
                and isinstance(e.slice, ast.Constant)
                and isinstance(e.slice.value, str)
            ):
                struct = STRUCT_PARAMS[e.value.id]
                k = self.field(struct, e.slice.value)
                return ("%s.%s" % (env[e.value.id][0], k), "int", "true")
            raise Unsupported("%s: subscript %s" % (info.name, ast.dump(e)))
        if isinstance(e, ast.UnaryOp):
            a, ty, ok = self.expr(info, e.operand, env)
            if isinstance(e.op, ast.USub) and ty == "int":
                return ("(-%s)" % a, "int", ok)
            if isinstance(e.op, ast.Not) and ty == "bool":
                return ("(¬ %s)" % a, "bool", ok)
            raise Unsupported("%s: unary %s" % (info.name, ast.dump(e.op)))
        if isinstance(e, ast.BinOp):
            a, ta, oka = self.expr(info, e.left, env)
            b, tb, okb = self.expr(info, e.right, env)
            if ta != "int" or tb != "int" or type(e.op) not in BINOPS:
                raise Unsupported("%s: binop %s on %s,%s" % (info.name, ast.dump(e.op), ta, tb))
            extra = "true"
            lit = e.right.value if isinstance(e.right, ast.Constant) and isinstance(e.right.value, int) else None
            if isinstance(e.op, (ast.FloorDiv, ast.Mod)):
                extra = "decide (%s ≠ 0)" % b if lit is None else ("true" if lit != 0 else "false")
            elif isinstance(e.op, (ast.LShift, ast.RShift, ast.Pow)):
                extra = "decide (0 ≤ %s)" % b if lit is None else ("true" if lit >= 0 else "false")
            return (BINOPS[type(e.op)].format(a=a, b=b), "int", and_ok(oka, okb, extra))
        if isinstance(e, ast.Compare):
            parts = []
            oks = []
            left, tl, okl = self.expr(info, e.left, env)
            oks.append(okl)
            for op, comp in zip(e.ops, e.comparators):
                if isinstance(op, (ast.In, ast.NotIn)):
                    if not isinstance(comp, (ast.Tuple, ast.List)):
                        raise Unsupported("%s: `in` over non-literal" % info.name)
                    alts = []
                    for el in comp.elts:
                        r, tr, okr = self.expr(info, el, env)
                        oks.append(okr)
                        alts.append("%s = %s" % (left, r))
                    p = "(" + " ∨ ".join(alts) + ")" if alts else "False"
                    if isinstance(op, ast.NotIn):
                        p = "(¬ %s)" % p
                    parts.append(p)
                    continue
                if type(op) not in CMPOPS:
                    raise Unsupported("%s: comparison %s" % (info.name, ast.dump(op)))
                right, tr, okr = self.expr(info, comp, env)
                oks.append(okr)
                if tl != tr:
                    raise Unsupported("%s: comparing %s with %s" % (info.name, tl, tr))
                if tl == "bool":
                    raise Unsupported("%s: comparing booleans" % info.name)
                if tl == "str" and not isinstance(op, (ast.Eq, ast.NotEq)):
                    raise Unsupported("%s: ordering strings" % info.name)
                parts.append("(%s %s %s)" % (left, CMPOPS[type(op)], right))
                left, tl = right, tr
            lean = parts[0] if len(parts) == 1 else "(" + " ∧ ".join(parts) + ")"
            return (lean, "bool", and_ok(*oks))
        if isinstance(e, ast.BoolOp):
            vals = [self.expr(info, v, env) for v in e.values]
            if any(t != "bool" for _, t, _ in vals):
                raise Unsupported("%s: and/or on non-booleans" % info.name)
            isand = isinstance(e.op, ast.And)
            sym = " ∧ " if isand else " ∨ "
            lean = "(" + sym.join(v for v, _, _ in vals) + ")"
            # short-circuit definedness
            ok = vals[-1][2]
            for v, _, okv in reversed(vals[:-1]):
                if ok == "true":
                    ok = okv
                else:
                    guard = "decide %s" % v if isand else "decide (¬ %s)" % v
                    ok = and_ok(okv, "(!(%s) || %s)" % (guard, ok))
            return (lean, "bool", ok)
        if isinstance(e, ast.IfExp):
            c, tc, okc = self.expr(info, e.test, env)
            a, ta, oka = self.expr(info, e.body, env)
            b, tb, okb = self.expr(info, e.orelse, env)
            if tc != "bool" or ta != tb:
                raise Unsupported("%s: conditional expression types" % info.name)
            ok = and_ok(okc, "(if %s then %s else %s)" % (c, oka, okb)) if (oka, okb) != ("true", "true") else okc
            return ("(if %s then %s else %s)" % (c, a, b), ta, ok)
        if isinstance(e, ast.Tuple):
            vals = [self.expr(info, v, env) for v in e.elts]
            lean = "(" + ", ".join(v for v, _, _ in vals) + ")"
            ty = "(" + " × ".join({"int": "Int", "bool": "Bool", "str": "String"}[t] for _, t, _ in vals) + ")"
            DUMMY[ty] = "(" + ", ".join(DUMMY[t] for _, t, _ in vals) + ")"
            return (lean, ty, and_ok(*[o for _, _, o in vals]))
        if isinstance(e, ast.Call):
            return self.call(info, e, env)
        raise Unsupported("%s: expression %s" % (info.name, ast.dump(e)))

    def call(self, info, e, env):
        if e.keywords and not (isinstance(e.func, ast.Name) and e.func.id == "State"):
            raise Unsupported("%s: keyword arguments in call" % info.name)
        # method: x.bit_length()
        if isinstance(e.func, ast.Attribute) and e.func.attr == "bit_length" and not e.args:
            a, ta, oka = self.expr(info, e.func.value, env)
            if ta != "int":
                raise Unsupported("bit_length on %s" % ta)
            return ("(bitLength %s)" % a, "int", oka)
        if not isinstance(e.func, ast.Name):
            raise Unsupported("%s: call %s" % (info.name, ast.dump(e.func)))
        fname = e.func.id
        if fname in ("abs", "min", "max"):
            args = [self.expr(info, a, env) for a in e.args]
            if any(t != "int" for _, t, _ in args):
                raise Unsupported("%s: %s on non-int" % (info.name, fname))
            if fname == "abs" and len(args) == 1:
                return ("(pyabs %s)" % args[0][0], "int", args[0][2])
            if fname in ("min", "max") and len(args) == 2:
                return (
                    "(py%s %s %s)" % (fname, args[0][0], args[1][0]),
                    "int",
                    and_ok(args[0][2], args[1][2]),
                )
            raise Unsupported("%s: %s arity" % (info.name, fname))
        if fname in ("len", "sum") and len(e.args) == 1 and isinstance(e.args[0], ast.Name):
            nm = e.args[0].id
            if nm in env and env[nm][1] == "list":
                if fname == "len":
                    return ("(%s.length : Int)" % env[nm][0], "int", "true")
                return ("%s.sum" % env[nm][0], "int", "true")
        if fname == "State" and not e.args:
            inits = []
            oks = []
            for kw in e.keywords:
                v, tv, okv = self.expr(info, kw.value, env)
                oks.append(okv)
                inits.append("%s := %s" % (self.field("St", kw.arg), v))
            return ("({ (default : St) with %s })" % ", ".join(inits), "St", and_ok(*oks))
        if fname in self.fns:
            callee = self.fns[fname]
            if callee.ret is None:
                raise Unsupported("%s calls %s before it is translated" % (info.name, fname))
            args = [self.expr(info, a, env) for a in e.args]
            if len(args) != len(callee.params):
                raise Unsupported("%s: arity of call to %s" % (info.name, fname))
            for (v, t, _), (_, _, pt) in zip(args, callee.params):
                if t != pt:
                    raise Unsupported("%s: argument type %s for %s of %s" % (info.name, t, pt, fname))
            argstr = " ".join(v for v, _, _ in args)
            ok = and_ok(*([o for _, _, o in args] + ["%s_ok %s" % (callee.lean_name, argstr)]))
            lean = "(%s %s)" % (callee.lean_name, argstr)
            ty = callee.ret
            if ty == "bool":
                lean = "(%s = true)" % lean
            return (lean, ty, ok)
        raise Unsupported("%s: call to %s" % (info.name, fname))

    # --------------------------------------------------------------- statements
    def block(self, info, stmts, env, ind):
        """Translate stmts followed by falling off the end.
        Returns (value_lean, ok_lean) as multi-line strings at indentation ind."""
        pad = "  " * ind
        if not stmts:
            if info.mutates:
                sname = [p for p in info.params if p[2] == info.mutates][0][0]
                return (pad + env[sname][0], pad + "true")
            if info.ret is None:
                raise Unsupported("%s: falls through before any return" % info.name)
            return (pad + DUMMY[info.ret], pad + "false")
        s, rest = stmts[0], stmts[1:]
        if isinstance(s, ast.Expr) and isinstance(s.value, ast.Constant) and isinstance(s.value.value, str):
            return self.block(info, rest, env, ind)  # docstring
        if isinstance(s, ast.Pass):
            return self.block(info, rest, env, ind)
        if isinstance(s, ast.Return):
            if s.value is None:
                raise Unsupported("%s: bare return" % info.name)
            v, t, ok = self.expr(info, s.value, env)
            if info.ret is None:
                info.ret = t
            elif info.ret != t:
                raise Unsupported("%s: returns both %s and %s" % (info.name, info.ret, t))
            if t == "bool":
                v = "decide %s" % v
            return (pad + v, pad + ok)
        if isinstance(s, ast.Raise):
            if info.ret is None:
                info.ret = self.peek_ret(info)
            return (pad + DUMMY[info.ret], pad + "false")
        if isinstance(s, (ast.Assign, ast.AugAssign)):
            if isinstance(s, ast.Assign):
                if len(s.targets) != 1:
                    raise Unsupported("%s: multiple assignment" % info.name)
                tgt, val = s.targets[0], s.value
            else:
                tgt = s.target
                val = ast.BinOp(left=self.load(tgt), op=s.op, right=s.value)
            v, t, ok = self.expr(info, val, env)
            env2 = dict(env)
            if isinstance(tgt, ast.Name):
                if t == "bool":
                    raise Unsupported("%s: boolean local %s" % (info.name, tgt.id))
                if tgt.id in env and env[tgt.id][1] in ("St", "VP", "list"):
                    raise Unsupported("%s: rebinding %s" % (info.name, tgt.id))
                lean = tgt.id if tgt.id not in ("bytes", "bits", "end", "at", "from", "open") else tgt.id + "_"
                env2[tgt.id] = (lean, t, True)
                bind = "let %s := %s" % (lean, v)
            elif (
                isinstance(tgt, ast.Subscript)
                and isinstance(tgt.value, ast.Name)
                and tgt.value.id in STRUCT_PARAMS
                and isinstance(tgt.slice, ast.Constant)
            ):
                struct = STRUCT_PARAMS[tgt.value.id]
                k = self.field(struct, tgt.slice.value)
                sv = env[tgt.value.id][0]
                bind = "let %s := { %s with %s := %s }" % (sv, sv, k, v)
            else:
                raise Unsupported("%s: assignment target %s" % (info.name, ast.dump(tgt)))
            rv, rok = self.block(info, rest, env2, ind)
            okv = pad + bind + "\n" + rok
            if ok != "true":
                okv = pad + "(" + ok + " && (\n" + okv + "))"
            return (pad + bind + "\n" + rv, okv)
        if isinstance(s, ast.If):
            c, tc, okc = self.expr(info, s.test, env)
            if tc != "bool":
                raise Unsupported("%s: truthiness test on %s" % (info.name, tc))
            # continuation duplication: each branch is followed by `rest`
            tv, tok = self.block(info, list(s.body) + rest, env, ind + 1)
            ev, eok = self.block(info, list(s.orelse) + rest, env, ind + 1)
            val = "%sif %s then\n%s\n%selse\n%s" % (pad, c, tv, pad, ev)
            okv = "%s(if %s then\n%s\n%selse\n%s)" % (pad, c, tok, pad, eok)
            if okc != "true":
                okv = pad + okc + " &&\n" + okv
            return (val, okv)
        raise Unsupported("%s: statement %s" % (info.name, type(s).__name__))

    def load(self, tgt):
        t = ast.parse(ast.unparse(tgt), mode="eval").body
        return t

    def peek_ret(self, info):
        for sub in ast.walk(info.node):
            if isinstance(sub, ast.Return) and sub.value is not None:
                try:
                    env = self.initial_env(info)
                    # best effort: assume ints for unknown locals
                    return self.expr(info, sub.value, _Lenient(env))[1]
                except Unsupported:
                    continue
        return "int"

    def initial_env(self, info):
        env = {}
        for py, lean, ty in info.params:
            env[py] = (lean, ty, True)
        return env

    LEAN_TY = {"int": "Int", "bool": "Bool", "str": "String", "St": "St", "VP": "VP", "list": "List Int"}

    def function(self, name):
        info = self.fns[name]
        self.analyse_signature(info)
        env = self.initial_env(info)
        # locals that are assigned somewhere but maybe not on every path
        for sub in ast.walk(info.node):
            if isinstance(sub, (ast.Assign, ast.AugAssign)):
                tgts = sub.targets if isinstance(sub, ast.Assign) else [sub.target]
                for t in tgts:
                    if isinstance(t, ast.Name) and t.id not in env:
                        env[t.id] = (t.id, "int", False)
        body = [
            s
            for s in info.node.body
        ]
        if info.ret is None:
            info.ret = self.peek_ret(info)
        val, ok = self.block(info, body, env, 1)
        ps = " ".join("(%s : %s)" % (lean, self.LEAN_TY[ty]) for _, lean, ty in info.params)
        rty = self.LEAN_TY.get(info.ret, info.ret)
        out = "def %s %s : %s :=\n%s\n\n" % (info.lean_name, ps, rty, val)
        out += "def %s_ok %s : Bool :=\n%s\n" % (info.lean_name, ps, ok)
        return out

    def generate(self):
        defs = []
        for name in self.order:
            defs.append(self.function(name))
        hdr = (
            "/- GENERATED by harness/py2lean.py from /repo's current source. Do not edit. -/\n"
            "import VC2.Prelude\n"
            "set_option linter.unusedVariables false\n"
            "namespace VC2.Gen\nopen VC2\n\n"
        )
        structs = ""
        for sname in ("St", "VP"):
            fs = self.fields[sname]
            structs += "structure %s where\n" % sname
            for f in fs:
                structs += "  %s : Int := 0\n" % f
            if not fs:
                structs += "  unused : Int := 0\n"
            structs += "  deriving Repr, Inhabited\n\n"
        consts = ""
        for modname, cname in CONSTS:
            v = getattr(importlib.import_module(modname), cname)
            if isinstance(v, bool) or not isinstance(v, int):
                raise Unsupported("constant %s.%s is not an int" % (modname, cname))
            consts += "def %s : Int := %d\n" % (cname, v)
        return hdr + structs + "\n".join(defs) + "\n" + consts + "\nend VC2.Gen\n"

    def dispatch(self):
        """Generated evaluator used by the driver for T1's differential self-check:
        `k <fn> <int/str args…>`; struct params are passed field by field in the
        order of the structure declaration."""
        out = (
            "/- GENERATED by harness/py2lean.py. Do not edit. -/\n"
            "import VC2.Gen.Kernels\n"
            "set_option linter.unusedVariables false\n"
            "namespace VC2.Gen\n\n"
        )
        for sname in ("St", "VP"):
            fs = self.fields[sname] or ["unused"]
            out += "def mk%s : List Int → Option (%s × List Int)\n" % (sname, sname)
            pat = " :: ".join("a%d" % i for i in range(len(fs))) + " :: rest"
            out += "  | %s => some ({ %s }, rest)\n" % (
                pat,
                ", ".join("%s := a%d" % (f, i) for i, f in enumerate(fs)),
            )
            out += "  | _ => none\n\n"
            out += "def show%s (s : %s) : String :=\n  " % (sname, sname)
            out += ' ++ " " ++ '.join("toString s.%s" % f for f in fs) + "\n\n"
        out += "def evalKernel (fn : String) (ints : List Int) (strs : List String) : Option String :=\n"
        out += "  match fn with\n"
        for name in self.order:
            info = self.fns[name]
            out += '  | "%s" =>\n' % info.lean_name
            binds = []
            args = []
            cur = "ints"
            sidx = 0
            n = 0
            lines = []
            for _, lean, ty in info.params:
                n += 1
                if ty in ("St", "VP"):
                    lines.append("    match mk%s %s with\n    | none => none\n    | some (p%d, r%d) =>" % (ty, cur, n, n))
                    cur = "r%d" % n
                    args.append("p%d" % n)
                elif ty == "int":
                    lines.append("    match %s with\n    | [] => none\n    | p%d :: r%d =>" % (cur, n, n))
                    cur = "r%d" % n
                    args.append("p%d" % n)
                elif ty == "str":
                    lines.append("    match strs[%d]? with\n    | none => none\n    | some p%d =>" % (sidx, n))
                    sidx += 1
                    args.append("p%d" % n)
                elif ty == "list":
                    args.append(cur)
            argstr = " ".join(args)
            call = "%s %s" % (info.lean_name, argstr)
            if info.ret in ("St", "VP"):
                shown = "show%s (%s)" % (info.ret, call)
            elif info.ret == "bool":
                shown = '(if %s then "True" else "False")' % call
            elif info.ret.startswith("("):
                n_el = info.ret.count("×") + 1
                if n_el != 2:
                    raise Unsupported("tuple arity")
                shown = '(toString (%s).1 ++ " " ++ toString (%s).2)' % (call, call)
            else:
                shown = "toString (%s)" % call
            lines.append(
                '    some (if %s_ok %s then %s else "UNDEFINED")' % (info.lean_name, argstr, shown)
            )
            out += "\n".join(lines) + "\n"
        out += "  | _ => none\n\nend VC2.Gen\n"
        return out


class _Lenient(dict):
    """env used only for result-type peeking: unknown locals are ints."""

    def __init__(self, env):
        dict.__init__(self, env)

    def __contains__(self, k):
        return True

    def __getitem__(self, k):
        if dict.__contains__(self, k):
            return dict.__getitem__(self, k)
        return (k, "int", True)


KERNELS = [
    ("vc2_conformance.pseudocode.vc2_math", ["intlog2", "sign", "clip", "mean"], None),
    (
        "vc2_conformance.pseudocode.quantization",
        ["quant_factor", "quant_offset", "inverse_quant", "forward_quant"],
        None,
    ),
    (
        "vc2_conformance.pseudocode.slice_sizes",
        [
            "subband_width",
            "subband_height",
            "slice_bytes",
            "slice_left",
            "slice_right",
            "slice_top",
            "slice_bottom",
            "slices_have_same_dimensions",
        ],
        None,
    ),
    (
        "vc2_conformance.bitstream.exp_golomb",
        ["exp_golomb_length", "signed_exp_golomb_length"],
        None,
    ),
    ("vc2_conformance.bitstream.io", ["to_bit_offset", "from_bit_offset"], None),
    (
        "vc2_conformance.pseudocode.parse_code_functions",
        [
            "is_seq_header",
            "is_end_of_sequence",
            "is_auxiliary_data",
            "is_padding_data",
            "is_ld",
            "is_hq",
            "is_picture",
            "is_fragment",
            "using_dc_prediction",
        ],
        None,
    ),
    (
        "vc2_conformance.version_constraints",
        [
            "preset_frame_rate_version_implication",
            "preset_signal_range_version_implication",
            "preset_color_spec_version_implication",
            "preset_color_primaries_version_implication",
            "preset_color_matrix_version_implication",
            "preset_transfer_function_version_implication",
            "wavelet_transform_version_implication",
            "parse_code_version_implication",
            "profile_version_implication",
        ],
        None,
    ),
    (
        "vc2_conformance.pseudocode.video_parameters",
        ["picture_dimensions", "video_depth"],
        None,
    ),
    (
        "vc2_conformance.encoder.pictures",
        ["get_safe_lossy_hq_slice_size_scaler"],
        None,
    ),
]


CONSTS = [
    ("vc2_conformance.test_cases.decoder.lossless_quantization", "MINIMUM_DISTINCT_QINDEX"),
    ("vc2_conformance.bitstream.vc2", "PARSE_INFO_HEADER_BYTES"),
    ("vc2_conformance.version_constraints", "MINIMUM_MAJOR_VERSION"),
]


def build_translator():
    t = Translator()
    for mod, fns, rename in KERNELS:
        t.add_module(mod, fns, rename)
    return t


def write_if_changed(path, text):
    import os

    try:
        with open(path) as f:
            if f.read() == text:
                return False
    except IOError:
        pass
    os.makedirs(os.path.dirname(path), exist_ok=True)
    with open(path, "w") as f:
        f.write(text)
    return True


def regenerate(gen_dir):
    """Rewrite Gen/Kernels.lean and Gen/Dispatch.lean from /repo's current source.
    Returns (translator, list of changed files)."""
    import os

    t = build_translator()
    changed = []
    if write_if_changed(os.path.join(gen_dir, "Kernels.lean"), t.generate()):
        changed.append("Kernels.lean")
    if write_if_changed(os.path.join(gen_dir, "Dispatch.lean"), t.dispatch()):
        changed.append("Dispatch.lean")
    import gen_tables

    changed += gen_tables.regenerate(gen_dir)
    return t, changed


if __name__ == "__main__":
    import sys, os

    here = os.path.dirname(os.path.abspath(__file__))
    t, changed = regenerate(os.path.join(here, "..", "lean", "VC2", "Gen"))
    print("regenerated:", changed)
