#!/bin/sh
# with_patch.sh <patch.diff> <command...>: run a command with VC2_REPO/PYTHONPATH pointing at a THROW-AWAY worktree of
# /repo's HEAD with the patch applied (for trying oracles against a seeded change by hand); /repo is never touched.
P="$(readlink -f "$1")"; shift
WT="/tmp/wt_with_$$"
git -C /repo worktree add -q --detach "$WT" HEAD || exit 2
( cd "$WT" && git apply "$P" ) || { git -C /repo worktree remove --force "$WT"; echo "patch does not apply"; exit 2; }
VC2_REPO="$WT" PYTHONPATH="$WT:$WT/tests:$(dirname "$0"):$(dirname "$0")/props" "$@"
rc=$?
git -C /repo worktree remove --force "$WT"
exit $rc
